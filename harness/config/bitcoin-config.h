/* config/bitcoin-config.h.  Generated from bitcoin-config.h.in by configure.  */
/* config/bitcoin-config.h.in.  Generated from configure.ac by autoheader.  */

#ifndef BITCOIN_CONFIG_H

#define BITCOIN_CONFIG_H

/* Define if building universal (internal helper macro) */
/* #undef AC_APPLE_UNIVERSAL_BUILD */

/* Version Build */
#define CLIENT_VERSION_BUILD 0

/* Version is release */
#define CLIENT_VERSION_IS_RELEASE false

/* Major version */
#define CLIENT_VERSION_MAJOR 5

/* Minor version */
#define CLIENT_VERSION_MINOR 0

/* Build revision */
#define CLIENT_VERSION_REVISION 24

/* Copyright holder(s) before %s replacement */
#define COPYRIGHT_HOLDERS "The %s developers"

/* Copyright holder(s) */
#define COPYRIGHT_HOLDERS_FINAL "The Bitcoin Core developers"

/* Replacement for %s in copyright holders string */
#define COPYRIGHT_HOLDERS_SUBSTITUTION "Bitcoin Core"

/* Copyright year */
#define COPYRIGHT_YEAR 2023

/* Define to 1 to enable dangerous features */
/* #undef ENABLE_DANGEROUS */

/* Define to 1 if you have the <byteswap.h> header file. */
#define HAVE_BYTESWAP_H 1

/* define if the compiler supports basic C++17 syntax */
#define HAVE_CXX17 1

/* Define to 1 if you have the declaration of `be16toh', and to 0 if you
   don't. */
#define HAVE_DECL_BE16TOH 1

/* Define to 1 if you have the declaration of `be32toh', and to 0 if you
   don't. */
#define HAVE_DECL_BE32TOH 1

/* Define to 1 if you have the declaration of `be64toh', and to 0 if you
   don't. */
#define HAVE_DECL_BE64TOH 1

/* Define to 1 if you have the declaration of `bswap_16', and to 0 if you
   don't. */
#define HAVE_DECL_BSWAP_16 1

/* Define to 1 if you have the declaration of `bswap_32', and to 0 if you
   don't. */
#define HAVE_DECL_BSWAP_32 1

/* Define to 1 if you have the declaration of `bswap_64', and to 0 if you
   don't. */
#define HAVE_DECL_BSWAP_64 1

/* Define to 1 if you have the declaration of `daemon', and to 0 if you don't.
   */
#define HAVE_DECL_DAEMON 1

/* Define to 1 if you have the declaration of `htobe16', and to 0 if you
   don't. */
#define HAVE_DECL_HTOBE16 1

/* Define to 1 if you have the declaration of `htobe32', and to 0 if you
   don't. */
#define HAVE_DECL_HTOBE32 1

/* Define to 1 if you have the declaration of `htobe64', and to 0 if you
   don't. */
#define HAVE_DECL_HTOBE64 1

/* Define to 1 if you have the declaration of `htole16', and to 0 if you
   don't. */
#define HAVE_DECL_HTOLE16 1

/* Define to 1 if you have the declaration of `htole32', and to 0 if you
   don't. */
#define HAVE_DECL_HTOLE32 1

/* Define to 1 if you have the declaration of `htole64', and to 0 if you
   don't. */
#define HAVE_DECL_HTOLE64 1

/* Define to 1 if you have the declaration of `le16toh', and to 0 if you
   don't. */
#define HAVE_DECL_LE16TOH 1

/* Define to 1 if you have the declaration of `le32toh', and to 0 if you
   don't. */
#define HAVE_DECL_LE32TOH 1

/* Define to 1 if you have the declaration of `le64toh', and to 0 if you
   don't. */
#define HAVE_DECL_LE64TOH 1

/* Define to 1 if you have the declaration of `strerror_r', and to 0 if you
   don't. */
#define HAVE_DECL_STRERROR_R 1

/* Define to 1 if you have the declaration of `strnlen', and to 0 if you
   don't. */
#define HAVE_DECL_STRNLEN 1

/* Define to 1 if you have the declaration of `__builtin_clz', and to 0 if you
   don't. */
#define HAVE_DECL___BUILTIN_CLZ 1

/* Define to 1 if you have the declaration of `__builtin_clzl', and to 0 if
   you don't. */
#define HAVE_DECL___BUILTIN_CLZL 1

/* Define to 1 if you have the declaration of `__builtin_clzll', and to 0 if
   you don't. */
#define HAVE_DECL___BUILTIN_CLZLL 1

/* Define to 1 if you have the <dlfcn.h> header file. */
#define HAVE_DLFCN_H 1

/* Define to 1 if you have the <endian.h> header file. */
#define HAVE_ENDIAN_H 1

/* Define to 1 if the system has the `dllexport' function attribute */
/* #undef HAVE_FUNC_ATTRIBUTE_DLLEXPORT */

/* Define to 1 if the system has the `dllimport' function attribute */
/* #undef HAVE_FUNC_ATTRIBUTE_DLLIMPORT */

/* Define to 1 if the system has the `visibility' function attribute */
#define HAVE_FUNC_ATTRIBUTE_VISIBILITY 1

/* Define this symbol if the BSD getentropy system call is available */
#define HAVE_GETENTROPY 1

/* Define this symbol if the BSD getentropy system call is available with
   sys/random.h */
#define HAVE_GETENTROPY_RAND 1

/* Define to 1 if you have the <history.h> header file. */
/* #undef HAVE_HISTORY_H */

/* Define to 1 if you have the <inttypes.h> header file. */
#define HAVE_INTTYPES_H 1

/* Define to 1 if you have the `advapi32' library (-ladvapi32). */
/* #undef HAVE_LIBADVAPI32 */

/* Define to 1 if you have the `comctl32' library (-lcomctl32). */
/* #undef HAVE_LIBCOMCTL32 */

/* Define to 1 if you have the `comdlg32' library (-lcomdlg32). */
/* #undef HAVE_LIBCOMDLG32 */

/* Define to 1 if you have the `crypt32' library (-lcrypt32). */
/* #undef HAVE_LIBCRYPT32 */

/* Define to 1 if you have the `gdi32' library (-lgdi32). */
/* #undef HAVE_LIBGDI32 */

/* Define to 1 if you have the `iphlpapi' library (-liphlpapi). */
/* #undef HAVE_LIBIPHLPAPI */

/* Define to 1 if you have the `kernel32' library (-lkernel32). */
/* #undef HAVE_LIBKERNEL32 */

/* Define to 1 if you have the `mingwthrd' library (-lmingwthrd). */
/* #undef HAVE_LIBMINGWTHRD */

/* Define to 1 if you have the `mswsock' library (-lmswsock). */
/* #undef HAVE_LIBMSWSOCK */

/* Define to 1 if you have the `ole32' library (-lole32). */
/* #undef HAVE_LIBOLE32 */

/* Define to 1 if you have the `oleaut32' library (-loleaut32). */
/* #undef HAVE_LIBOLEAUT32 */

/* Define if you have a readline compatible library */
#define HAVE_LIBREADLINE 1

/* Define to 1 if you have the `rpcrt4' library (-lrpcrt4). */
/* #undef HAVE_LIBRPCRT4 */

/* Define to 1 if you have the `shell32' library (-lshell32). */
/* #undef HAVE_LIBSHELL32 */

/* Define to 1 if you have the `shlwapi' library (-lshlwapi). */
/* #undef HAVE_LIBSHLWAPI */

/* Define to 1 if you have the `user32' library (-luser32). */
/* #undef HAVE_LIBUSER32 */

/* Define to 1 if you have the `uuid' library (-luuid). */
/* #undef HAVE_LIBUUID */

/* Define to 1 if you have the `winmm' library (-lwinmm). */
/* #undef HAVE_LIBWINMM */

/* Define to 1 if you have the `winspool' library (-lwinspool). */
/* #undef HAVE_LIBWINSPOOL */

/* Define to 1 if you have the `ws2_32' library (-lws2_32). */
/* #undef HAVE_LIBWS2_32 */

/* Define to 1 if you have the <readline.h> header file. */
/* #undef HAVE_READLINE_H */

/* Define if your readline library has \`add_history' */
#define HAVE_READLINE_HISTORY 1

/* Define to 1 if you have the <readline/history.h> header file. */
#define HAVE_READLINE_HISTORY_H 1

/* Define to 1 if you have the <readline/readline.h> header file. */
#define HAVE_READLINE_READLINE_H 1

/* Define to 1 if you have the <stdint.h> header file. */
#define HAVE_STDINT_H 1

/* Define to 1 if you have the <stdio.h> header file. */
#define HAVE_STDIO_H 1

/* Define to 1 if you have the <stdlib.h> header file. */
#define HAVE_STDLIB_H 1

/* Define if you have `strerror_r'. */
#define HAVE_STRERROR_R 1

/* Define to 1 if you have the <strings.h> header file. */
#define HAVE_STRINGS_H 1

/* Define to 1 if you have the <string.h> header file. */
#define HAVE_STRING_H 1

/* Define this symbol if the BSD sysctl(KERN_ARND) is available */
/* #undef HAVE_SYSCTL_ARND */

/* Define to 1 if you have the <sys/endian.h> header file. */
/* #undef HAVE_SYS_ENDIAN_H */

/* Define this symbol if the Linux getrandom system call is available */
#define HAVE_SYS_GETRANDOM 1

/* Define to 1 if you have the <sys/prctl.h> header file. */
#define HAVE_SYS_PRCTL_H 1

/* Define to 1 if you have the <sys/select.h> header file. */
#define HAVE_SYS_SELECT_H 1

/* Define to 1 if you have the <sys/stat.h> header file. */
#define HAVE_SYS_STAT_H 1

/* Define to 1 if you have the <sys/types.h> header file. */
#define HAVE_SYS_TYPES_H 1

/* Define to 1 if you have the <unistd.h> header file. */
#define HAVE_UNISTD_H 1

/* Define if the visibility attribute is supported. */
#define HAVE_VISIBILITY_ATTRIBUTE 1

/* Define to the sub-directory where libtool stores uninstalled libraries. */
#define LT_OBJDIR ".libs/"

/* Define to the address where bug reports for this package should be sent. */
#define PACKAGE_BUGREPORT "https://github.com/bitcoin-core/btcdeb/issues"

/* Define to the full name of this package. */
#define PACKAGE_NAME "Bitcoin Debugger"

/* Define to the full name and version of this package. */
#define PACKAGE_STRING "Bitcoin Debugger 5.0.24"

/* Define to the one symbol short name of this package. */
#define PACKAGE_TARNAME "btcdeb"

/* Define to the home page for this package. */
#define PACKAGE_URL "https://twitter.com/kallewoof"

/* Define to the version of this package. */
#define PACKAGE_VERSION "5.0.24"

/* Define to 1 if all of the C90 standard headers exist (not just the ones
   required in a freestanding environment). This macro is provided for
   backward compatibility; new code need not use it. */
#define STDC_HEADERS 1

/* Define to 1 if strerror_r returns char *. */
#define STRERROR_R_CHAR_P 1

/* Define WORDS_BIGENDIAN to 1 if your processor stores words with the most
   significant byte first (like Motorola and SPARC, unlike Intel). */
#if defined AC_APPLE_UNIVERSAL_BUILD
# if defined __BIG_ENDIAN__
#  define WORDS_BIGENDIAN 1
# endif
#else
# ifndef WORDS_BIGENDIAN
/* #  undef WORDS_BIGENDIAN */
# endif
#endif

/* Number of bits in a file offset, on hosts where this is settable. */
/* #undef _FILE_OFFSET_BITS */

/* Define for large files, on AIX-style hosts. */
/* #undef _LARGE_FILES */

#endif //BITCOIN_CONFIG_H
