/* src/libsecp256k1-config.h.  Generated from libsecp256k1-config.h.in by configure.  */
/* src/libsecp256k1-config.h.in.  Generated from configure.ac by autoheader.  */

#ifndef LIBSECP256K1_CONFIG_H

#define LIBSECP256K1_CONFIG_H

/* Define this symbol to compile out all VERIFY code */
/* #undef COVERAGE */

/* Set ecmult gen precision bits */
#define ECMULT_GEN_PREC_BITS 4

/* Set window size for ecmult precomputation */
#define ECMULT_WINDOW_SIZE 15

/* Define this symbol to enable the ECDH module */
/* #undef ENABLE_MODULE_ECDH */

/* Define this symbol to enable the extrakeys module */
#define ENABLE_MODULE_EXTRAKEYS 1

/* Define this symbol to enable the ECDSA pubkey recovery module */
#define ENABLE_MODULE_RECOVERY 1

/* Define this symbol to enable the schnorrsig module */
#define ENABLE_MODULE_SCHNORRSIG 1

/* Define to 1 if you have the <dlfcn.h> header file. */
#define HAVE_DLFCN_H 1

/* Define to 1 if you have the <inttypes.h> header file. */
#define HAVE_INTTYPES_H 1

/* Define to 1 if you have the <stdint.h> header file. */
#define HAVE_STDINT_H 1

/* Define to 1 if you have the <stdio.h> header file. */
#define HAVE_STDIO_H 1

/* Define to 1 if you have the <stdlib.h> header file. */
#define HAVE_STDLIB_H 1

/* Define to 1 if you have the <strings.h> header file. */
#define HAVE_STRINGS_H 1

/* Define to 1 if you have the <string.h> header file. */
#define HAVE_STRING_H 1

/* Define to 1 if you have the <sys/stat.h> header file. */
#define HAVE_SYS_STAT_H 1

/* Define to 1 if you have the <sys/types.h> header file. */
#define HAVE_SYS_TYPES_H 1

/* Define to 1 if you have the <unistd.h> header file. */
#define HAVE_UNISTD_H 1

/* Define this symbol if valgrind is installed, and it supports the host
   platform */
#define HAVE_VALGRIND 1

/* Define to the sub-directory where libtool stores uninstalled libraries. */
#define LT_OBJDIR ".libs/"

/* Name of package */
#define PACKAGE "libsecp256k1"

/* Define to the address where bug reports for this package should be sent. */
#define PACKAGE_BUGREPORT "https://github.com/bitcoin-core/secp256k1/issues"

/* Define to the full name of this package. */
#define PACKAGE_NAME "libsecp256k1"

/* Define to the full name and version of this package. */
#define PACKAGE_STRING "libsecp256k1 0.1.0-pre"

/* Define to the one symbol short name of this package. */
#define PACKAGE_TARNAME "libsecp256k1"

/* Define to the home page for this package. */
#define PACKAGE_URL "https://github.com/bitcoin-core/secp256k1"

/* Define to the version of this package. */
#define PACKAGE_VERSION "0.1.0-pre"

/* Define to 1 if all of the C90 standard headers exist (not just the ones
   required in a freestanding environment). This macro is provided for
   backward compatibility; new code need not use it. */
#define STDC_HEADERS 1

/* Define this symbol to enable x86_64 assembly optimizations */
#define USE_ASM_X86_64 1

/* Define this symbol if an external (non-inline) assembly implementation is
   used */
/* #undef USE_EXTERNAL_ASM */

/* Define this symbol if an external implementation of the default callbacks
   is used */
/* #undef USE_EXTERNAL_DEFAULT_CALLBACKS */

/* Define this symbol to force the use of the (unsigned) __int128 based wide
   multiplication implementation */
/* #undef USE_FORCE_WIDEMUL_INT128 */

/* Define this symbol to force the use of the (u)int64_t based wide
   multiplication implementation */
/* #undef USE_FORCE_WIDEMUL_INT64 */

/* Version number of package */
#define VERSION "0.1.0-pre"

#endif /*LIBSECP256K1_CONFIG_H*/
