// Native correspondence harness: links the working tree's own objects and drives the real
// btcdeb functions on case lines read from a file (argv[1]) or stdin; prints canonical result lines.
// Built only by /verif (never part of the repository's own targets).
#include <cstdio>
#include <cstring>
#include <string>
#include <vector>
#include <map>
#include <algorithm>
#include <sstream>
#include <iostream>
#include <fstream>
#include <unistd.h>
#include <sys/wait.h>
#include <signal.h>

#include <instance.h>
#include <functions.h>
#include <value.h>
#include <script/script.h>
#include <script/interpreter.h>
#include <policy/policy.h>
#include <util/strencodings.h>
#include <streams.h>
#include <hash.h>
#include <base58.h>
#include <bech32.h>

typedef std::vector<unsigned char> bytes;
typedef std::map<std::string, std::string> kv;

static FILE* OUT = nullptr;

static bytes unhex(const std::string& s) {
    bytes r;
    if (s == "-" ) return r;
    for (size_t i = 0; i + 1 < s.size(); i += 2) {
        r.push_back((unsigned char)strtoul(s.substr(i, 2).c_str(), nullptr, 16));
    }
    return r;
}
static std::string hex(const bytes& b) { return HexStr(b); }
static std::string hexitem(const bytes& b) { return b.empty() ? "-" : HexStr(b); }
static std::vector<std::string> split(const std::string& s, char c) {
    std::vector<std::string> r;
    if (s.empty()) return r;
    size_t st = 0;
    for (;;) {
        size_t p = s.find(c, st);
        if (p == std::string::npos) { r.push_back(s.substr(st)); break; }
        r.push_back(s.substr(st, p - st));
        st = p + 1;
    }
    return r;
}
static std::vector<bytes> unhexlist(const std::string& s) {
    std::vector<bytes> r;
    for (auto& x : split(s, ',')) r.push_back(unhex(x));
    return r;
}
static std::string hexlist(const std::vector<bytes>& l) {
    std::string s;
    for (size_t i = 0; i < l.size(); i++) { if (i) s += ","; s += hexitem(l[i]); }
    return s;
}
static std::string get(const kv& m, const char* k, const char* d = "") {
    auto it = m.find(k);
    return it == m.end() ? std::string(d) : it->second;
}
static long long geti(const kv& m, const char* k, long long d = 0) {
    auto it = m.find(k);
    return it == m.end() ? d : strtoll(it->second.c_str(), nullptr, 0);
}
// strings that may contain spaces etc. travel hex-encoded
static std::string unhexstr(const std::string& s) { bytes b = unhex(s); return std::string(b.begin(), b.end()); }

static std::string exn_class(const std::string& w) {
    if (w.find("script number overflow") != std::string::npos) return "numoverflow";
    if (w.find("non-minimally") != std::string::npos) return "nonminimal";
    if (w.find("popstack") != std::string::npos) return "popstack";
    return "other";
}

// ------------------------------------------------------------------------------------ scriptnum
static void do_sn(const kv& m) {
    // decode: b=<hex> req=<0|1> max=<n>
    std::string id = get(m, "id");
    bytes b = unhex(get(m, "b"));
    try {
        CScriptNum n(b, geti(m, "req") != 0, (size_t)geti(m, "max", 4));
        fprintf(OUT, "R %s ok v=%lld enc=%s gi=%d\n", id.c_str(), (long long)n.GetInt64(), hexitem(n.getvch()).c_str(), n.getint());
    } catch (const scriptnum_error& e) {
        fprintf(OUT, "R %s exn=%s\n", id.c_str(), exn_class(e.what()).c_str());
    }
}
static void do_sne(const kv& m) {
    // encode: v=<int64>; also the Value conversions on the same number
    std::string id = get(m, "id");
    int64_t v = strtoll(get(m, "v").c_str(), nullptr, 10);
    bytes e = CScriptNum::serialize(v);
    Value vi(v);
    std::string hs = vi.hex_str();
    bytes dv = Value(v).data_value();
    fprintf(OUT, "R %s enc=%s hexstr=%s data=%s\n", id.c_str(), hexitem(e).c_str(), hs.empty() ? "-" : hs.c_str(), hexitem(dv).c_str());
}
static void do_snv(const kv& m) {
    // Value(data).int_value() / Value("<decimal>") literal classification
    std::string id = get(m, "id");
    bytes b = unhex(get(m, "b"));
    try {
        Value v(b);
        long long i = v.int_value();
        fprintf(OUT, "R %s int=%lld\n", id.c_str(), i);
    } catch (const std::exception& e) {
        fprintf(OUT, "R %s exn=%s\n", id.c_str(), exn_class(e.what()).c_str());
    }
}

// ------------------------------------------------------------------------------------ sessions
static std::string cond_str(const ConditionStack& c) {
    std::string s = std::to_string(c.size()) + ":";
    for (size_t i = 0; i < c.size(); i++) s += c.at(i) ? "1" : "0";
    return s;
}
static void dump_env(const std::string& id, int k, int ret, Instance& inst) {
    InterpreterEnv* e = inst.env;
    std::string exn = inst.exception_string == "" ? "-" : exn_class(inst.exception_string);
    long pc = (long)(e->pc - e->script.begin());
    long cb = (long)(e->pbegincodehash - e->script.begin());
    fprintf(OUT, "R %s #%d ret=%d st=%s alt=%s cond=%s pc=%ld cb=%ld ops=%d pos=%u seq=%d done=%d err=%d exn=%s cs=%u wl=%lld scr=%s p2sh=%d succ=%s tce=%s hist=%zu\n",
            id.c_str(), k, ret, hexlist(e->stack).c_str(), hexlist(e->altstack).c_str(), cond_str(e->vfExec).c_str(),
            pc, cb, e->nOpCount, e->opcode_pos, e->curr_op_seq, e->done ? 1 : 0, (int)*e->serror, exn.c_str(),
            (unsigned)e->execdata.m_codeseparator_pos,
            (long long)(e->execdata.m_validation_weight_left_init ? e->execdata.m_validation_weight_left : -1),
            hexitem(bytes(e->script.begin(), e->script.end())).c_str(), e->is_p2sh ? 1 : 0,
            hexitem(bytes(e->successor_script.begin(), e->successor_script.end())).c_str(),
            e->tce ? (std::to_string(e->tce->m_i) + ":" + HexStr(e->tce->m_k)).c_str() : "-",
            e->stack_history.size());
    fflush(OUT);
}

static void run_cmds(const std::string& id, Instance& inst, const std::string& cmds) {
    int k = 0;
    for (auto& c : split(cmds, ',')) {
        ++k;
        int ret = 0;
        if (c == "s") {
            // mirrors fn_step: refuses when done
            if (inst.env->done) { fprintf(OUT, "R %s #%d atend\n", id.c_str(), k); continue; }
            ret = inst.step();
        } else if (c == "r") {
            // mirrors fn_rewind: at_start guard
            if (inst.at_start()) { fprintf(OUT, "R %s #%d atstart\n", id.c_str(), k); continue; }
            ret = inst.rewind();
        } else if (c == "c") {
            // mirrors non-interactive main: ContinueScript with no exception guard
            inst.exception_string = "";
            try {
                ret = ContinueScript(*inst.env);
            } catch (const std::exception& ex) {
                inst.exception_string = std::string("UNCAUGHT:") + ex.what();
                fprintf(OUT, "R %s #%d uncaught=%s\n", id.c_str(), k, exn_class(ex.what()).c_str());
                return;
            }
        } else if (c.size() > 2 && c[0] == 'e' && c[1] == ':') {
            std::vector<std::string> toks = split(c.substr(2), '+');
            std::vector<char*> argv;
            for (auto& t : toks) argv.push_back(strdup(unhexstr(t).c_str()));
            inst.exception_string = "";
            try {
                ret = inst.eval(argv.size(), argv.data());
            } catch (const std::exception& ex) {
                fprintf(OUT, "R %s #%d uncaught=%s\n", id.c_str(), k, exn_class(ex.what()).c_str());
                return;
            }
        } else {
            fprintf(OUT, "R %s #%d badcmd\n", id.c_str(), k);
            continue;
        }
        dump_env(id, k, ret, inst);
    }
}

static SigVersion sv_of(long long n) {
    switch (n) { case 0: return SigVersion::BASE; case 1: return SigVersion::WITNESS_V0; case 2: return SigVersion::TAPROOT; default: return SigVersion::TAPSCRIPT; }
}

static void dump_pv(const std::string& id, Instance& inst) {
    std::vector<std::string> ms, ks;
    for (auto& kv : inst.pretend_valid_map) ms.push_back(hexitem(kv.first) + ">" + hexitem(kv.second));
    for (auto& k : inst.pretend_valid_pubkeys) ks.push_back(hexitem(k));
    std::sort(ms.begin(), ms.end()); std::sort(ks.begin(), ks.end());
    std::string a, b;
    for (auto& x : ms) a += (a.empty() ? "" : ",") + x;
    for (auto& x : ks) b += (b.empty() ? "" : ",") + x;
    fprintf(OUT, "R %s pv map=%s keys=%s\n", id.c_str(), a.c_str(), b.c_str());
}

static void do_script(const kv& m) {
    // scr=<hex> st=<list> flags=<n> sv=<n> z=<0|1> succ=<hex> wl=<n> cmds=...
    std::string id = get(m, "id");
    Instance inst;
    bytes scr = unhex(get(m, "scr"));
    if (!inst.parse_script(scr)) { fprintf(OUT, "R %s refused\n", id.c_str()); return; }
    for (auto& it : unhexlist(get(m, "st"))) inst.stack.push_back(it);
    inst.sigver = sv_of(geti(m, "sv"));
    bytes succ = unhex(get(m, "succ"));
    inst.successor_script = CScript(succ.begin(), succ.end());
    if (m.count("wl")) { inst.execdata.m_validation_weight_left = geti(m, "wl"); inst.execdata.m_validation_weight_left_init = true; }
    if (m.count("pv")) {
        std::string pv = unhexstr(get(m, "pv"));
        if (!inst.parse_pretend_valid_expr(pv.c_str())) { fprintf(OUT, "R %s pvrefused\n", id.c_str()); return; }
        dump_pv(id, inst);
    }
    if (!inst.setup_environment((unsigned)geti(m, "flags"))) {
        fprintf(OUT, "R %s setupfail err=%d\n", id.c_str(), (int)inst.error);
        return;
    }
    inst.env->allow_disabled_opcodes = geti(m, "z") != 0;
    dump_env(id, 0, 1, inst);
    run_cmds(id, inst, get(m, "cmds"));
}

// ------------------------------------------------------------------------------------ spends (--tx / --txin sessions)
// every signature verification reports its arguments: the link wraps CPubKey::Verify and XOnlyPubKey::VerifySchnorr (ld --wrap, no source hook)
static std::string g_case;
// the signing log is routed to this no-op; CHECKMULTISIG's diagnostic re-verification of misplaced signatures switches the log
// to btc_logf_dummy while it runs, which is how those (result-less) verifications are told apart and not reported
static void vh_sign_log(const char* fmt...) {}
static inline bool vh_reporting() { return !g_case.empty() && btc_sign_logf != btc_logf_dummy; }
extern "C" bool __real__ZNK7CPubKey6VerifyERK7uint256RKSt6vectorIhSaIhEE(const CPubKey* self, const uint256& hash, const std::vector<unsigned char>& sig);
extern "C" bool __wrap__ZNK7CPubKey6VerifyERK7uint256RKSt6vectorIhSaIhEE(const CPubKey* self, const uint256& hash, const std::vector<unsigned char>& sig) {
    if (vh_reporting()) fprintf(OUT, "R %s D ecdsa %s %s %s\n", g_case.c_str(), hexitem(bytes(hash.begin(), hash.end())).c_str(), hexitem(bytes(self->begin(), self->end())).c_str(), hexitem(sig).c_str());
    return __real__ZNK7CPubKey6VerifyERK7uint256RKSt6vectorIhSaIhEE(self, hash, sig);
}
extern "C" bool __real__ZNK11XOnlyPubKey13VerifySchnorrERK7uint2564SpanIKhE(const XOnlyPubKey* self, const uint256& msg, Span<const unsigned char> sig);
extern "C" bool __wrap__ZNK11XOnlyPubKey13VerifySchnorrERK7uint2564SpanIKhE(const XOnlyPubKey* self, const uint256& msg, Span<const unsigned char> sig) {
    if (vh_reporting()) fprintf(OUT, "R %s D schnorr %s %s %s\n", g_case.c_str(), hexitem(bytes(msg.begin(), msg.end())).c_str(), hexitem(bytes(self->begin(), self->end())).c_str(), hexitem(bytes(sig.begin(), sig.end())).c_str());
    return __real__ZNK11XOnlyPubKey13VerifySchnorrERK7uint2564SpanIKhE(self, msg, sig);
}

static void do_spend(const kv& m) {
    // tx=<hexstr of --tx arg> txin=<hexstr of --txin arg> [sel=<n>] flags=<n> [z=1] [pv=<hexstr>] cmds=...
    std::string id = get(m, "id");
    g_case = id;
    Instance inst;
    std::string a = unhexstr(get(m, "tx")), b = unhexstr(get(m, "txin"));
    try {
        if (!inst.parse_transaction(a.c_str(), true)) { fprintf(OUT, "R %s txfail\n", id.c_str()); return; }
        if (!inst.parse_input_transaction(b.c_str(), (int)geti(m, "sel", -1))) { fprintf(OUT, "R %s txinfail\n", id.c_str()); return; }
    } catch (const std::exception& ex) { fprintf(OUT, "R %s txexn\n", id.c_str()); return; }
    if (m.count("pv")) {
        std::string pv = unhexstr(get(m, "pv"));
        if (!inst.parse_pretend_valid_expr(pv.c_str())) { fprintf(OUT, "R %s pvrefused\n", id.c_str()); return; }
        dump_pv(id, inst);
    }
    if (!inst.configure_tx_txin()) { fprintf(OUT, "R %s refused\n", id.c_str()); return; }
    if (!inst.setup_environment((unsigned)geti(m, "flags"))) {
        fprintf(OUT, "R %s setupfail err=%d\n", id.c_str(), (int)inst.error);
        return;
    }
    inst.env->allow_disabled_opcodes = geti(m, "z") != 0;
    fprintf(OUT, "R %s cfg sv=%d idx=%lld vout=%lld amount=%lld pre=%d annex=%d\n", id.c_str(), (int)inst.sigver, (long long)inst.txin_index, (long long)inst.txin_vout_index,
            (long long)inst.amounts[inst.txin_index], inst.has_preamble ? 1 : 0, inst.execdata.m_annex_init ? (inst.execdata.m_annex_present ? 1 : 0) : -1);
    dump_env(id, 0, 1, inst);
    run_cmds(id, inst, get(m, "cmds"));
}


// ------------------------------------------------------------------------------------ values / btcc
static void do_btcc(const kv& m) {
    // toks=<hexstr,hexstr,...> : exactly btcc's main
    std::string id = get(m, "id");
    std::vector<std::string> toks;
    for (auto& t : split(get(m, "toks"), ',')) toks.push_back(unhexstr(t));
    std::vector<const char*> argv;
    argv.push_back("btcc");
    for (auto& t : toks) argv.push_back(t.c_str());
    try {
        std::vector<Value> result = Value::parse_args(argv.size(), argv.data(), 1);
        fprintf(OUT, "R %s out=%s\n", id.c_str(), hexitem(unhex(Value::serialize(result))).c_str());
    } catch (const std::exception& e) {
        fprintf(OUT, "R %s exn=%s\n", id.c_str(), exn_class(e.what()).c_str());
    }
}

// ------------------------------------------------------------------------------------ transforms
static std::string value_desc(Value& v) {
    switch (v.type) {
    case Value::T_INT: return "t=int v=" + std::to_string((long long)v.int64);
    case Value::T_OPCODE: return strprintf("t=op v=%d", (int)v.opcode);
    case Value::T_DATA: return "t=data v=" + hexitem(v.data);
    default: return "t=str v=" + hexitem(bytes(v.str.begin(), v.str.end()));
    }
}
static void do_inl(const kv& m) {
    // expr=<hex of a token such as sha256(0x1234)>: the Value constructor (inline transform form)
    std::string id = get(m, "id");
    std::string expr = unhexstr(get(m, "expr"));
    FILE* old = stdout;
    char* buf = nullptr; size_t len = 0;
    stdout = open_memstream(&buf, &len);
    Value v(expr.c_str());
    fflush(stdout); fclose(stdout); stdout = old;
    fprintf(OUT, "R %s %s\n", id.c_str(), value_desc(v).c_str());
    free(buf);
}
static void do_tf(const kv& m) {
    // name=<hex> args=<hex,hex,...>: the `tf` command through the real fn_tf, stdout captured
    std::string id = get(m, "id");
    std::string line = unhexstr(get(m, "name"));
    for (auto& t : split(get(m, "args"), ',')) line += " " + unhexstr(t);
    FILE* old = stdout;
    char* buf = nullptr; size_t len = 0;
    if (m.count("pre")) {
        // pre=<name>+<arg>+<arg>;<name>+... : earlier tf commands of the same session (same process); their output is discarded - the result
        // of a transform must not depend on what was computed before it
        for (auto& grp : split(get(m, "pre"), ';')) {
            std::string pl;
            for (auto& t : split(grp, '+')) pl += (pl.empty() ? "" : " ") + unhexstr(t);
            char* b0 = nullptr; size_t l0 = 0;
            stdout = open_memstream(&b0, &l0);
            try { fn_tf(pl.c_str()); } catch (...) {}
            fflush(stdout); fclose(stdout); stdout = old; free(b0);
        }
    }
    stdout = open_memstream(&buf, &len);
    int rv = fn_tf(line.c_str());
    fflush(stdout); fclose(stdout); stdout = old;
    fprintf(OUT, "R %s rv=%d out=%s\n", id.c_str(), rv, hexitem(bytes(buf, buf + len)).c_str());
    free(buf);
}

// ------------------------------------------------------------------------------------ taproot commitment
static void do_tapcommit(const kv& m) {
    // control=<hex> program=<hex> script=<hex>: TaprootCommitmentEnv stepped to the end, m_k after every step
    std::string id = get(m, "id");
    bytes control = unhex(get(m, "control")), program = unhex(get(m, "program")), scr = unhex(get(m, "script"));
    if (control.size() < 33 || program.size() != 32) { fprintf(OUT, "R %s badsize\n", id.c_str()); return; }
    uint256 leaf;
    TaprootCommitmentEnv tce(control, program, CScript(scr.begin(), scr.end()), &leaf);
    std::string ks = HexStr(tce.m_k);
    const char* res = "processing";
    for (int guard = 0; guard < 200; guard++) {
        auto st = tce.Iterate();
        if (st == TaprootCommitmentEnv::State::Processing || st == TaprootCommitmentEnv::State::Tweaked) { ks += "," + HexStr(tce.m_k); continue; }
        res = st == TaprootCommitmentEnv::State::Done ? "done" : "failed";
        break;
    }
    fprintf(OUT, "R %s %s leaf=%s k=%s\n", id.c_str(), res, HexStr(leaf).c_str(), ks.c_str());
}

// ------------------------------------------------------------------------------------ transactions
static std::string tx_fields(const CTransaction& tx) {
    std::string s = strprintf("ver=%d lock=%u", tx.nVersion, tx.nLockTime);
    for (auto& i : tx.vin) {
        s += strprintf(" in[%s:%u ss=%s seq=%u w=", HexStr(i.prevout.hash).c_str(), i.prevout.n, hexitem(bytes(i.scriptSig.begin(), i.scriptSig.end())).c_str(), i.nSequence);
        for (auto& w : i.scriptWitness.stack) s += hexitem(w) + ";";
        s += "]";
    }
    for (auto& o : tx.vout) s += strprintf(" out[%lld %s]", (long long)o.nValue, hexitem(bytes(o.scriptPubKey.begin(), o.scriptPubKey.end())).c_str());
    CDataStream so(SER_DISK, 0);
    SerializeTransaction(tx, so);
    s += " reser=" + HexStr(so) + " txid=" + tx.GetHash().GetHex() + " wtxid=" + tx.GetWitnessHash().GetHex();
    // the copy tap makes before it fills in a witness (CTransaction -> CMutableTransaction -> CTransaction) must serialise to the same bytes
    CMutableTransaction mt(tx);
    CTransaction t2(mt);
    CDataStream so2(SER_DISK, 0);
    SerializeTransaction(t2, so2);
    s += (HexStr(so2) == HexStr(so) && t2.GetHash() == tx.GetHash()) ? " mcopy=same" : " mcopy=" + HexStr(so2);
    return s;
}
static void do_tx(const kv& m) {
    // a=<--tx argument> [i=<--txin argument> [sel=<n>]] : the calls btcdeb's main makes, with its exception guards
    std::string id = get(m, "id");
    Instance inst;
    std::string arg = unhexstr(get(m, "a"));
    try {
        if (!inst.parse_transaction(arg.c_str(), true)) { fprintf(OUT, "R %s fail\n", id.c_str()); return; }
    } catch (const std::exception& ex) { fprintf(OUT, "R %s exn\n", id.c_str()); return; }
    std::string am;
    for (size_t i = 0; i < inst.amounts.size(); i++) am += (i ? "," : "") + std::to_string((long long)inst.amounts[i]);
    std::string line = strprintf("R %s ok amounts=%s sv=%d %s", id.c_str(), am.c_str(), (int)inst.sigver, tx_fields(*inst.tx).c_str());
    if (m.count("i")) {
        std::string iarg = unhexstr(get(m, "i"));
        try {
            if (!inst.parse_input_transaction(iarg.c_str(), (int)geti(m, "sel", -1))) line += " selfail";
            else line += strprintf(" sel=%lld:%lld intxid=%s", (long long)inst.txin_index, (long long)inst.txin_vout_index, inst.txin->GetHash().GetHex().c_str());
        } catch (const std::exception& ex) { line += " selexn"; }
    }
    fprintf(OUT, "%s\n", line.c_str());
}

// ------------------------------------------------------------------------------------ dispatcher
static void run_case(const std::string& line) {
    g_case.clear();
    std::istringstream is(line);
    std::string kind, tok;
    is >> kind;
    kv m;
    while (is >> tok) {
        size_t p = tok.find('=');
        if (p == std::string::npos) m[tok] = "1"; else m[tok.substr(0, p)] = tok.substr(p + 1);
    }
    if (kind == "sn") do_sn(m);
    else if (kind == "sne") do_sne(m);
    else if (kind == "snv") do_snv(m);
    else if (kind == "script") do_script(m);
    else if (kind == "btcc") do_btcc(m);
    else if (kind == "spend") do_spend(m);
    else if (kind == "tx") do_tx(m);
    else if (kind == "tapcommit") do_tapcommit(m);
    else if (kind == "inl") do_inl(m);
    else if (kind == "tf") do_tf(m);
    else fprintf(OUT, "R %s unknownkind\n", get(m, "id").c_str());
}

int main(int argc, char** argv) {
    OUT = fdopen(dup(1), "w");   // the protocol stream stays valid while stdout is temporarily redirected
    btc_logf = btc_logf_dummy;
    btc_sign_logf = vh_sign_log;
    std::vector<std::string> lines;
    {
        std::istream* in = &std::cin;
        std::ifstream f;
        if (argc > 1) { f.open(argv[1]); in = &f; }
        std::string l;
        while (std::getline(*in, l)) if (!l.empty() && l[0] != '#') lines.push_back(l);
    }
    bool nofork = getenv("VH_NOFORK") != nullptr;
    if (nofork) { for (auto& l : lines) run_case(l); fflush(OUT); return 0; }
    // crash isolation: a child works through the list and reports progress on a pipe; if it dies the
    // parent attributes the death to the case in progress and restarts after it.
    size_t next = 0;
    while (next < lines.size()) {
        int pfd[2];
        if (pipe(pfd)) return 2;
        fflush(stdout); fflush(OUT);
        pid_t pid = fork();
        if (pid == 0) {
            close(pfd[0]);
            // stderr noise of the library is not part of the protocol
            for (size_t i = next; i < lines.size(); i++) {
                uint32_t v = (uint32_t)i;
                if (write(pfd[1], &v, 4) != 4) _exit(3);
                run_case(lines[i]);
                fflush(OUT); fflush(stdout);
            }
            uint32_t v = 0xffffffffu;
            if (write(pfd[1], &v, 4) != 4) _exit(3);
            _exit(0);
        }
        close(pfd[1]);
        uint32_t last = 0xfffffffeu, v;
        bool finished = false;
        while (read(pfd[0], &v, 4) == 4) { if (v == 0xffffffffu) finished = true; else last = v; }
        close(pfd[0]);
        int status = 0;
        waitpid(pid, &status, 0);
        if (finished) break;
        if (last == 0xfffffffeu) { fprintf(OUT, "R ? HARNESSFAIL\n"); fflush(OUT); return 2; }
        // the child died inside case `last`
        std::string l = lines[last];
        std::string id = "?";
        size_t p = l.find("id=");
        if (p != std::string::npos) { size_t e = l.find(' ', p); id = l.substr(p + 3, e == std::string::npos ? e : e - p - 3); }
        int sig = WIFSIGNALED(status) ? WTERMSIG(status) : 0;
        int code = WIFEXITED(status) ? WEXITSTATUS(status) : -1;
        if (sig == 0 && code == 1) fprintf(OUT, "R %s exit1\n", id.c_str());   // the code under test called exit(1)
        else fprintf(OUT, "R %s CRASH sig=%d exit=%d\n", id.c_str(), sig, code);
        fflush(OUT);
        next = last + 1;
    }
    fflush(OUT);
    return 0;
}
