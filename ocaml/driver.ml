(* Hand-written driver (trusted): parses the same case lines as harness/vh.cpp, calls the extracted
   Coq definitions in Model and prints result lines in the same canonical format. *)
open Model

(* ---------------------------------------------------------------- conversions *)
let rec pos_of_int (n : int) : positive =
  if n = 1 then XH else if n land 1 = 0 then XO (pos_of_int (n lsr 1)) else XI (pos_of_int (n lsr 1))
let z_of_int (n : int) : z = if n = 0 then Z0 else if n > 0 then Zpos (pos_of_int n) else Zneg (pos_of_int (-n))
let rec nat_of_int (n : int) : nat = if n <= 0 then O else S (nat_of_int (n - 1))
let rec int_of_nat (n : nat) : int = match n with O -> 0 | S m -> 1 + int_of_nat m

(* decimal string <-> z without going through OCaml ints (values may exceed 63 bits) *)
let z_add = Z.add
let z_mul = Z.mul
let z_of_string (s : string) : z =
  let neg = String.length s > 0 && s.[0] = '-' in
  let start = if neg then 1 else 0 in
  let ten = z_of_int 10 in
  let acc = ref Z0 in
  for i = start to String.length s - 1 do
    acc := z_add (z_mul !acc ten) (z_of_int (Char.code s.[i] - 48))
  done;
  if neg then Z.opp !acc else !acc
let rec pos_to_string_digits (p : positive) : int list =
  (* little-endian decimal digits *)
  let double_add (ds : int list) (c : int) =
    let rec go ds carry = match ds with
      | [] -> if carry = 0 then [] else [carry]
      | d :: r -> let v = 2 * d + carry in (v mod 10) :: go r (v / 10) in
    go ds c in
  match p with
  | XH -> [1]
  | XO q -> double_add (pos_to_string_digits q) 0
  | XI q -> double_add (pos_to_string_digits q) 1
let string_of_pos p = String.concat "" (List.rev_map string_of_int (pos_to_string_digits p))
let string_of_z (x : z) : string = match x with Z0 -> "0" | Zpos p -> string_of_pos p | Zneg p -> "-" ^ string_of_pos p
let int_of_z (x : z) : int = int_of_string (string_of_z x)

let hexval c = match c with
  | '0'..'9' -> Char.code c - 48 | 'a'..'f' -> Char.code c - 87 | 'A'..'F' -> Char.code c - 55 | _ -> 0
let unhex (s : string) : z list =
  if s = "-" then [] else
  let n = String.length s / 2 in
  List.init n (fun i -> z_of_int (hexval s.[2*i] * 16 + hexval s.[2*i+1]))
let hex (l : z list) : string =
  String.concat "" (List.map (fun b -> Printf.sprintf "%02x" (int_of_z b)) l)
let hexitem l = if l = [] then "-" else hex l
let split c s = if s = "" then [] else String.split_on_char c s
let unhexlist s = List.map unhex (split ',' s)
let hexlist l = String.concat "," (List.map hexitem l)
let unhexstr s = String.concat "" (List.map (fun b -> String.make 1 (Char.chr (int_of_z b))) (unhex s))
let ascii (s : string) : z list = List.init (String.length s) (fun i -> z_of_int (Char.code s.[i]))
let string_of_ascii (l : z list) : string = String.concat "" (List.map (fun b -> String.make 1 (Char.chr (int_of_z b))) l)

let exn_name (c : z) = match int_of_z c with 1 -> "numoverflow" | 2 -> "nonminimal" | 3 -> "popstack" | _ -> "other"

(* ---------------------------------------------------------------- case parsing *)
let parse_line (l : string) : string * (string, string) Hashtbl.t =
  let toks = List.filter (fun t -> t <> "") (String.split_on_char ' ' l) in
  let h = Hashtbl.create 16 in
  match toks with
  | [] -> ("", h)
  | kind :: rest ->
    List.iter (fun t ->
      match String.index_opt t '=' with
      | None -> Hashtbl.replace h t "1"
      | Some p -> Hashtbl.replace h (String.sub t 0 p) (String.sub t (p+1) (String.length t - p - 1))) rest;
    (kind, h)
let get h k d = match Hashtbl.find_opt h k with Some v -> v | None -> d
let geti h k d = match Hashtbl.find_opt h k with Some v -> int_of_string v | None -> d

(* ---------------------------------------------------------------- kinds *)
let do_sn h =
  let id = get h "id" "" in
  let b = unhex (get h "b" "") in
  match sn_ctor b (geti h "req" 0 <> 0) (nat_of_int (geti h "max" 4)) with
  | Ok v -> Printf.printf "R %s ok v=%s enc=%s gi=%s\n" id (string_of_z v) (hexitem (sn_serialize v)) (string_of_z (sn_getint v))
  | Exn c -> Printf.printf "R %s exn=%s\n" id (exn_name c)
  | Crash _ -> Printf.printf "R %s CRASH\n" id

let do_sne h =
  let id = get h "id" "" in
  let v = z_of_string (get h "v" "0") in
  let e = sn_serialize v in
  let hs = string_of_ascii (value_int_hex_str v) in
  Printf.printf "R %s enc=%s hexstr=%s data=%s\n" id (hexitem e) (if hs = "" then "-" else hs) (hexitem (value_int_data_value v))

let do_snv h =
  let id = get h "id" "" in
  match value_data_int_value (unhex (get h "b" "")) with
  | Ok v -> Printf.printf "R %s int=%s\n" id (string_of_z v)
  | Exn c -> Printf.printf "R %s exn=%s\n" id (exn_name c)
  | Crash _ -> Printf.printf "R %s CRASH\n" id

let run_case (l : string) =
  let (kind, h) = parse_line l in
  match kind with
  | "sn" -> do_sn h
  | "sne" -> do_sne h
  | "snv" -> do_snv h
  | _ -> Printf.printf "R %s unknownkind\n" (get h "id" "")

let () =
  let ic = if Array.length Sys.argv > 1 then open_in Sys.argv.(1) else stdin in
  (try
    while true do
      let l = input_line ic in
      if l <> "" && l.[0] <> '#' then run_case l
    done
  with End_of_file -> ());
  flush stdout
