(* Hand-written driver (trusted): parses the same case lines as harness/vh.cpp, calls the extracted
   Coq definitions in Model and prints result lines in the same canonical format. *)
open Model

(* ---------------------------------------------------------------- conversions *)
let rec pos_of_int (n : int) : positive =
  if n = 1 then XH else if n land 1 = 0 then XO (pos_of_int (n lsr 1)) else XI (pos_of_int (n lsr 1))
let z_of_int (n : int) : z = if n = 0 then Z0 else if n > 0 then Zpos (pos_of_int n) else Zneg (pos_of_int (-n))
let rec nat_of_int (n : int) : nat = if n <= 0 then O else S (nat_of_int (n - 1))
let rec int_of_nat (n : nat) : int = match n with O -> 0 | S m -> 1 + int_of_nat m

(* decimal string <-> z without going through OCaml ints (values may exceed 63 bits) *)
let z_add = Z.add
let z_mul = Z.mul
let z_of_string (s : string) : z =
  let neg = String.length s > 0 && s.[0] = '-' in
  let start = if neg then 1 else 0 in
  let ten = z_of_int 10 in
  let acc = ref Z0 in
  for i = start to String.length s - 1 do
    acc := z_add (z_mul !acc ten) (z_of_int (Char.code s.[i] - 48))
  done;
  if neg then Z.opp !acc else !acc
let rec pos_to_string_digits (p : positive) : int list =
  (* little-endian decimal digits *)
  let double_add (ds : int list) (c : int) =
    let rec go ds carry = match ds with
      | [] -> if carry = 0 then [] else [carry]
      | d :: r -> let v = 2 * d + carry in (v mod 10) :: go r (v / 10) in
    go ds c in
  match p with
  | XH -> [1]
  | XO q -> double_add (pos_to_string_digits q) 0
  | XI q -> double_add (pos_to_string_digits q) 1
let string_of_pos p = String.concat "" (List.rev_map string_of_int (pos_to_string_digits p))
let string_of_z (x : z) : string = match x with Z0 -> "0" | Zpos p -> string_of_pos p | Zneg p -> "-" ^ string_of_pos p
let int_of_z (x : z) : int = int_of_string (string_of_z x)

let hexval c = match c with
  | '0'..'9' -> Char.code c - 48 | 'a'..'f' -> Char.code c - 87 | 'A'..'F' -> Char.code c - 55 | _ -> 0
let unhex (s : string) : z list =
  if s = "-" then [] else
  let n = String.length s / 2 in
  List.init n (fun i -> z_of_int (hexval s.[2*i] * 16 + hexval s.[2*i+1]))
let hex (l : z list) : string =
  String.concat "" (List.map (fun b -> Printf.sprintf "%02x" (int_of_z b)) l)
let hexitem l = if l = [] then "-" else hex l
let split c s = if s = "" then [] else String.split_on_char c s
let unhexlist s = List.map unhex (split ',' s)
let hexlist l = String.concat "," (List.map hexitem l)
let unhexstr s = String.concat "" (List.map (fun b -> String.make 1 (Char.chr (int_of_z b))) (unhex s))
let ascii (s : string) : z list = List.init (String.length s) (fun i -> z_of_int (Char.code s.[i]))
let string_of_ascii (l : z list) : string = String.concat "" (List.map (fun b -> String.make 1 (Char.chr (int_of_z b))) l)

let exn_name (c : z) = match int_of_z c with 1 -> "numoverflow" | 2 -> "nonminimal" | 3 -> "popstack" | _ -> "other"

(* ---------------------------------------------------------------- case parsing *)
let parse_line (l : string) : string * (string, string) Hashtbl.t =
  let toks = List.filter (fun t -> t <> "") (String.split_on_char ' ' l) in
  let h = Hashtbl.create 16 in
  match toks with
  | [] -> ("", h)
  | kind :: rest ->
    List.iter (fun t ->
      match String.index_opt t '=' with
      | None -> Hashtbl.replace h t "1"
      | Some p -> Hashtbl.replace h (String.sub t 0 p) (String.sub t (p+1) (String.length t - p - 1))) rest;
    (kind, h)
let get h k d = match Hashtbl.find_opt h k with Some v -> v | None -> d
let geti h k d = match Hashtbl.find_opt h k with Some v -> int_of_string v | None -> d

(* ---------------------------------------------------------------- kinds *)
let do_sn h =
  let id = get h "id" "" in
  let b = unhex (get h "b" "") in
  match sn_ctor b (geti h "req" 0 <> 0) (nat_of_int (geti h "max" 4)) with
  | Ok v -> Printf.printf "R %s ok v=%s enc=%s gi=%s\n" id (string_of_z v) (hexitem (sn_serialize v)) (string_of_z (sn_getint v))
  | Exn c -> Printf.printf "R %s exn=%s\n" id (exn_name c)
  | Crash _ -> Printf.printf "R %s CRASH\n" id

let do_sne h =
  let id = get h "id" "" in
  let v = z_of_string (get h "v" "0") in
  let e = sn_serialize v in
  let hs = string_of_ascii (value_int_hex_str v) in
  Printf.printf "R %s enc=%s hexstr=%s data=%s\n" id (hexitem e) (if hs = "" then "-" else hs) (hexitem (value_int_data_value v))

let do_snv h =
  let id = get h "id" "" in
  match value_data_int_value (unhex (get h "b" "")) with
  | Ok v -> Printf.printf "R %s int=%s\n" id (string_of_z v)
  | Exn c -> Printf.printf "R %s exn=%s\n" id (exn_name c)
  | Crash _ -> Printf.printf "R %s CRASH\n" id

(* ---------------------------------------------------------------- crypto oracles (answers supplied by tools/refcrypto.py) *)
let oracle : (string, string) Hashtbl.t = Hashtbl.create 1024
let () =
  match Sys.getenv_opt "VERIF_ORACLE" with
  | None -> ()
  | Some path ->
    (try
      let ic = open_in path in
      (try while true do
        let l = input_line ic in
        match String.rindex_opt l ' ' with
        | Some p -> Hashtbl.replace oracle (String.sub l 0 p) (String.sub l (p+1) (String.length l - p - 1))
        | None -> ()
      done with End_of_file -> close_in ic)
    with Sys_error _ -> ())
let asked : (string, unit) Hashtbl.t = Hashtbl.create 64
let ask (q : string) : string =
  match Hashtbl.find_opt oracle q with
  | Some a -> a
  | None -> Printf.printf "Q %s\n" q; "?"
let ask_bool q = (ask q = "1")
let oracle_tweak q p k par = ask_bool (Printf.sprintf "tweak %s %s %s %d" (hex q) (hex p) (hex k) (if par then 1 else 0))
let oracle_tweak_add p t : (z list * bool) option =
  match ask (Printf.sprintf "tweakadd %s %s" (hex p) (hex t)) with
  | "?" | "none" -> None
  | a -> let n = String.length a in Some (unhex (String.sub a 0 (n - 2)), String.sub a (n - 1) 1 = "0")

(* ---------------------------------------------------------------- sessions *)
let base_checker : checker = {
  k_ecdsa = (fun _ _ _ _ -> false);
  k_schnorr = (fun _ _ _ _ -> (false, z_of_int (-1)));
  k_locktime = (fun _ -> false);
  k_sequence = (fun _ -> false) }
let the_hashes : hashes = { h_sha256 = sha256; h_ripemd160 = ripemd160; h_sha1 = sha1 }
let no_tweak _ _ _ _ = false

let cond_str (c : condstack) =
  let n = int_of_z c.cs_size in
  string_of_int n ^ ":" ^ String.concat "" (List.init n (fun i -> if cs_at c (z_of_int i) then "1" else "0"))

let status_exn (st : status) = match st with SExn c -> exn_name c | _ -> "-"

(* the listing of the session (script_lines of main()), set when the case asks for it with ls=1; every state dump is then followed by the marked line *)
let cur_listing : z list list option ref = ref None
let dump_env id k ret exn (v : ienv) =
  let e = v.i_e in
  let slen = List.length e.e_script in
  let pc = slen - List.length v.i_pc in
  let cb = match e.e_cb with Some b -> string_of_int (slen - List.length b) | None -> "dangling" in
  let wl = if e.e_ed.ed_weight_init then string_of_z e.e_ed.ed_weight_left else "-1" in
  let tce = match v.i_tce with None -> "-" | Some t -> string_of_z t.t_i ^ ":" ^ hex t.t_k in
  Printf.printf "R %s #%d ret=%d st=%s alt=%s cond=%s pc=%d cb=%s ops=%s pos=%s seq=%s done=%d err=%s exn=%s cs=%s wl=%s scr=%s p2sh=%d succ=%s tce=%s hist=%d\n"
    id k ret (hexlist (List.rev e.e_stack)) (hexlist (List.rev e.e_alt)) (cond_str e.e_cond) pc cb
    (string_of_z e.e_ops) (string_of_z e.e_pos) (string_of_z v.i_seq) (if v.i_done then 1 else 0)
    (string_of_z e.e_err) exn (string_of_z e.e_ed.ed_codesep_pos) wl (hexitem e.e_script)
    (if v.i_p2sh then 1 else 0) (hexitem v.i_succ) tce (List.length v.i_hist);
  match !cur_listing with
  | None -> ()
  | Some lines -> Printf.printf "R %s M#%d %s\n" id k (match marked_line lines v.i_seq with Some l -> hexitem l | None -> "none")

let set_listing id h (c : cfg) (v : ienv) =
  cur_listing := None;
  if geti h "ls" 0 <> 0 then begin
    let lines = session_listing c v in
    Printf.printf "R %s L %s\n" id (String.concat "," (List.map hexitem lines));
    cur_listing := Some lines
  end

let run_cmds id (c : cfg) (v0 : ienv) (cmds : string) =
  let v = ref v0 in
  let k = ref 0 in
  (* mirrors Instance::exception_string: reset by step (and by the harness before c / e), kept otherwise *)
  let last_exn = ref "-" in
  (try
    List.iter (fun cmd ->
      incr k;
      if cmd = "s" then begin
        let (v1, r) = inst_step low_s_strict oracle_tweak sha256 c !v in
        v := v1;
        match r with
        | StepRefused -> Printf.printf "R %s #%d atend\n" id !k
        | StepOk -> last_exn := "-"; dump_env id !k 1 "-" v1
        | StepFail -> last_exn := "-"; dump_env id !k 0 "-" v1
        | StepExn x -> last_exn := exn_name x; dump_env id !k 0 (exn_name x) v1
        | StepCrash x -> Printf.printf "R %s #%d CRASH why=%s\n" id !k (string_of_z x); raise Exit
      end else if cmd = "r" then begin
        if at_start !v then Printf.printf "R %s #%d atstart\n" id !k
        else match dbg_rewind !v with
          | None -> dump_env id !k 0 !last_exn !v
          | Some v1 -> v := v1; dump_env id !k 1 !last_exn v1
      end else if cmd = "c" then begin
        last_exn := "-";
        let (v1, st) = dbg_continue low_s_strict oracle_tweak sha256 (continue_fuel !v) c !v in
        v := v1;
        match st with
        | SOk -> dump_env id !k 1 "-" v1
        | SErr -> dump_env id !k 0 "-" v1
        | SExn x -> Printf.printf "R %s #%d uncaught=%s\n" id !k (exn_name x); raise Exit
        | SCrash x -> Printf.printf "R %s #%d CRASH why=%s\n" id !k (string_of_z x); raise Exit
      end else if String.length cmd > 2 && String.sub cmd 0 2 = "e:" then begin
        let toks = List.map (fun t -> ascii (unhexstr t)) (split '+' (String.sub cmd 2 (String.length cmd - 2))) in
        last_exn := "-";
        match exec_compile toks [] with
        | None -> dump_env id !k 0 "-" !v
        | Some scr ->
          let (v1, st) = inst_eval low_s_strict c !v scr in
          v := v1;
          match st with
          | SOk -> dump_env id !k 1 "-" v1
          | SErr -> dump_env id !k 0 "-" v1
          | SExn x -> dump_env id !k 0 "-" v1
          | SCrash x -> Printf.printf "R %s #%d CRASH why=%s\n" id !k (string_of_z x); raise Exit
      end else Printf.printf "R %s #%d badcmd\n" id !k)
      (split ',' cmds)
  with Exit -> ())

(* --pretend-valid: parsed by the model; prints the pair table the way the harness prints the C++ map / set (sorted) *)
let parse_pv id h : ((z list * z list) list * z list list) option =
  match Hashtbl.find_opt h "pv" with
  | None -> Some ([], [])
  | Some e ->
    (match parse_pretend_valid do_exec (ascii (unhexstr e)) with
     | PvRefused -> Printf.printf "R %s pvrefused\n" id; None
     | PvExit1 -> Printf.printf "R %s exit1\n" id; None
     | PvAbort -> Printf.printf "R %s CRASH\n" id; None
     | PvOk (m, keys) ->
       let ms = List.sort compare (List.map (fun (s, k) -> hexitem s ^ ">" ^ hexitem k) m) in
       let ks = List.sort compare (List.map hexitem keys) in
       Printf.printf "R %s pv map=%s keys=%s\n" id (String.concat "," ms) (String.concat "," ks);
       Some (m, keys))

let do_script h =
  let id = get h "id" "" in
  let scr = unhex (get h "scr" "") in
  if not (has_valid_ops scr) then Printf.printf "R %s refused\n" id
  else begin
    let st = List.rev (unhexlist (get h "st" "")) in
    match parse_pv id h with None -> () | Some (pvm, pvk) ->
    let c = { c_flags = z_of_string (get h "flags" "0"); c_sigver = z_of_int (geti h "sv" 0);
              c_allow_disabled = (geti h "z" 0 <> 0); c_pv_map = pvm; c_pv_keys = pvk;
              c_chk = base_checker; c_hash = the_hashes } in
    let ed = match Hashtbl.find_opt h "wl" with
      | None -> init_execdata
      | Some w -> { init_execdata with ed_weight_left = z_of_string w; ed_weight_init = true } in
    let v = setup_env c scr st (unhex (get h "succ" "")) ed None in
    if not v.i_operational then Printf.printf "R %s setupfail err=%s\n" id (string_of_z v.i_e.e_err)
    else match witness_limits_violation c.c_sigver st with
    | Some err -> Printf.printf "R %s setupfail err=%s\n" id (string_of_z err)
    | None -> begin
      set_listing id h c v;
      dump_env id 0 1 "-" v;
      run_cmds id c v (get h "cmds" "")
    end
  end

(* ---------------------------------------------------------------- btcc *)
let no_exec = do_exec
let do_btcc h =
  let id = get h "id" "" in
  let toks = List.map (fun t -> ascii (unhexstr t)) (split ',' (get h "toks" "")) in
  match btcc no_exec toks with
  | POk b -> Printf.printf "R %s out=%s\n" id (hexitem b)
  | PExit1 -> Printf.printf "R %s exit1\n" id
  | PAbort -> Printf.printf "R %s CRASH\n" id

(* ---------------------------------------------------------------- transactions *)
let rev_hex (l : z list) = hex (List.rev l)
let tx_fields (t : tx) =
  let b = Buffer.create 256 in
  Buffer.add_string b (Printf.sprintf "ver=%s lock=%s" (string_of_z t.tx_version) (string_of_z t.tx_locktime));
  List.iter (fun i ->
    Buffer.add_string b (Printf.sprintf " in[%s:%s ss=%s seq=%s w=" (hex i.ti_prevout.op_hash) (string_of_z i.ti_prevout.op_n) (hexitem i.ti_scriptSig) (string_of_z i.ti_sequence));
    List.iter (fun w -> Buffer.add_string b (hexitem w ^ ";")) i.ti_witness;
    Buffer.add_string b "]") t.tx_vin;
  List.iter (fun o -> Buffer.add_string b (Printf.sprintf " out[%s %s]" (string_of_z o.to_value) (hexitem o.to_spk))) t.tx_vout;
  Buffer.add_string b (" reser=" ^ hex (ser_tx true t) ^ " txid=" ^ rev_hex (hash256 (txid_preimage t)) ^ " wtxid=" ^ rev_hex (hash256 (wtxid_preimage t)) ^ " mcopy=same");
  Buffer.contents b

let do_tx h =
  let id = get h "id" "" in
  match parse_transaction (ascii (unhexstr (get h "a" ""))) with
  | PtxFail -> Printf.printf "R %s fail\n" id
  | PtxExn -> Printf.printf "R %s exn\n" id
  | PtxOk (amounts, t) ->
    let sv = if tx_has_witness t then 1 else 0 in
    let line = Printf.sprintf "R %s ok amounts=%s sv=%d %s" id (String.concat "," (List.map string_of_z amounts)) sv (tx_fields t) in
    let line = match Hashtbl.find_opt h "i" with
      | None -> line
      | Some ia ->
        (match parse_tx (ascii (unhexstr ia)) with
         | PtxFail -> line ^ " selfail"
         | PtxExn -> line ^ " selexn"
         | PtxOk tin ->
           let txid = hash256 (txid_preimage tin) in
           match select_input t tin txid (z_of_int (geti h "sel" (-1))) with
           | None -> line ^ " selfail"
           | Some (i, n) -> line ^ Printf.sprintf " sel=%s:%s intxid=%s" (string_of_z i) (string_of_z n) (rev_hex txid)) in
    print_string (line ^ "\n")

(* ---------------------------------------------------------------- transforms *)
let value_desc (v : value) = match v with
  | VInt i -> "t=int v=" ^ string_of_z i
  | VOpcode o -> "t=op v=" ^ string_of_z o
  | VData d -> "t=data v=" ^ hexitem d
  | VString s -> "t=str v=" ^ hexitem s
  | VFun (_, _, w) -> "t=str v=" ^ hexitem w
let do_inl h =
  let id = get h "id" "" in
  match value_of_string do_exec (ascii (unhexstr (get h "expr" ""))) with
  | POk v -> Printf.printf "R %s %s\n" id (value_desc v)
  | PExit1 -> Printf.printf "R %s exit1\n" id
  | PAbort -> Printf.printf "R %s CRASH\n" id
let do_tf h =
  let id = get h "id" "" in
  let args = List.map (fun t -> ascii (unhexstr t)) (split ',' (get h "args" "")) in
  match tf_run (ascii (unhexstr (get h "name" ""))) args with
  | TfText s -> Printf.printf "R %s rv=0 out=%s\n" id (hexitem s)
  | TfUnknown -> Printf.printf "R %s rv=-1 out=%s\n" id (hexitem (ascii ("unknown function: " ^ unhexstr (get h "name" "") ^ "\n")))
  | TfExit1 -> Printf.printf "R %s exit1\n" id
  | TfExn -> Printf.printf "R %s rv=-1 out=-\n" id
  | TfCrash -> Printf.printf "R %s CRASH\n" id
  | TfUnmodelled -> Printf.printf "R %s unmodelled\n" id

(* ---------------------------------------------------------------- command line *)
let opt_str h k = match Hashtbl.find_opt h k with None -> None | Some v -> Some (ascii (unhexstr v))
let do_cli h =
  let id = get h "id" "" in
  let args = List.map (fun t -> ascii (unhexstr t)) (split ',' (get h "args" "")) in
  match main_noninteractive base_checker (opt_str h "script") args (opt_str h "f") (geti h "z" 0 <> 0) with
  | CliOk out -> Printf.printf "R %s ok out=%s\n" id (hexitem out)
  | CliFail msg -> Printf.printf "R %s fail msg=%s\n" id (hexitem msg)
  | CliAbort -> Printf.printf "R %s abort\n" id
let do_flags h =
  let id = get h "id" "" in
  match svf_parse_flags main_initial_flags (ascii (unhexstr (get h "f" ""))) with
  | None -> Printf.printf "R %s exit1\n" id
  | Some fl -> Printf.printf "R %s flags=%s names=%s\n" id (string_of_z fl) (String.concat "," (List.map string_of_ascii (svf_names fl)))

(* ---------------------------------------------------------------- taproot commitment *)
let do_tapcommit h =
  let id = get h "id" "" in
  let control = unhex (get h "control" "") and program = unhex (get h "program" "") and scr = unhex (get h "script" "") in
  if List.length control < 33 || List.length program <> 32 then Printf.printf "R %s badsize\n" id
  else begin
    let t0 = tce_new sha256 control program scr in
    let ks = ref [hex t0.t_k] in
    let rec go t n =
      if n = 0 then "processing" else
      match tce_iterate oracle_tweak sha256 t with
      | (t', TceProcessing) -> ks := hex t'.t_k :: !ks; go t' (n - 1)
      | (_, TceDone) -> "done"
      | (_, TceFailed) -> "failed" in
    let res = go t0 200 in
    Printf.printf "R %s %s leaf=%s k=%s\n" id res (hex t0.t_leaf) (String.concat "," (List.rev !ks))
  end

(* ---------------------------------------------------------------- tap tool *)
let do_tap h =
  let id = get h "id" "" in
  let key = unhex (get h "key" "") in
  let scripts = unhexlist (get h "scripts" "") in
  let spend = match Hashtbl.find_opt h "idx" with None -> None | Some i -> Some (nat_of_int (int_of_string i)) in
  let hrp = ascii (get h "hrp" "bcrt") in
  match tap_run oracle_tweak_add hrp key scripts spend with
  | None -> Printf.printf "R %s fail\n" id
  | Some r ->
    Printf.printf "R %s addr=%s root=%s tweak=%s outkey=%s even=%d control=%s\n" id (string_of_ascii r.tr_address) (hex r.tr_root) (hex r.tr_tweak)
      (hex r.tr_output_key) (if r.tr_even then 1 else 0) (match r.tr_control with None -> "-" | Some c -> hex c)

(* ---------------------------------------------------------------- spends *)
(* every signature verification is also reported (digest, key, signature), as the harness reports the arguments of CPubKey::Verify / XOnlyPubKey::VerifySchnorr *)
let cur_id = ref ""
let oracle_ecdsa key digest der =
  Printf.printf "R %s D ecdsa %s %s %s\n" !cur_id (hex digest) (hex key) (hex der);
  ask_bool (Printf.sprintf "ecdsa %s %s %s" (hex key) (hex digest) (hex der))
let oracle_schnorr key digest sg =
  Printf.printf "R %s D schnorr %s %s %s\n" !cur_id (hex digest) (hex key) (hex sg);
  ask_bool (Printf.sprintf "schnorr %s %s %s" (hex key) (hex digest) (hex sg))

let do_spend h =
  let id = get h "id" "" in
  cur_id := id;
  match parse_transaction (ascii (unhexstr (get h "tx" ""))) with
  | PtxFail -> Printf.printf "R %s txfail\n" id
  | PtxExn -> Printf.printf "R %s txexn\n" id
  | PtxOk (_, spend) ->
    (match parse_tx (ascii (unhexstr (get h "txin" ""))) with
     | PtxFail -> Printf.printf "R %s txinfail\n" id
     | PtxExn -> Printf.printf "R %s txexn\n" id
     | PtxOk funding ->
       let txid = hash256 (txid_preimage funding) in
       match select_input spend funding txid (z_of_int (geti h "sel" (-1))) with
       | None -> Printf.printf "R %s txinfail\n" id
       | Some (idx, vout) ->
         match parse_pv id h with None -> () | Some (pvm, pvk) ->
         match configure sha256 ripemd160 spend funding idx vout with
         | CfgRefused -> Printf.printf "R %s refused\n" id
         | CfgCrash -> Printf.printf "R %s CRASH\n" id
         | CfgOk ss ->
           let flags = z_of_string (get h "flags" "0") in
           let cache = setup_txdata sha256 spend funding vout ss.ss_preamble in
           let x = { x_tx = spend; x_nin = idx; x_amount = ss.ss_amount; x_cache = cache } in
           let c = { c_flags = flags; c_sigver = ss.ss_sigver; c_allow_disabled = (geti h "z" 0 <> 0); c_pv_map = pvm; c_pv_keys = pvk;
                     c_chk = tx_checker sha256 oracle_ecdsa oracle_schnorr x; c_hash = the_hashes } in
           let v = setup_env c ss.ss_script ss.ss_stack ss.ss_successor ss.ss_ed ss.ss_tce in
           if not v.i_operational then Printf.printf "R %s setupfail err=%s\n" id (string_of_z v.i_e.e_err)
           else if pushonly_violation flags ss.ss_script ss.ss_successor then Printf.printf "R %s setupfail err=25\n" id
           else match witness_limits_violation ss.ss_sigver ss.ss_stack with
           | Some err -> Printf.printf "R %s setupfail err=%s\n" id (string_of_z err)
           | None -> begin
             Printf.printf "R %s cfg sv=%s idx=%s vout=%s amount=%s pre=%d annex=%d\n" id (string_of_z ss.ss_sigver) (string_of_z idx) (string_of_z vout)
               (string_of_z ss.ss_amount) (if ss.ss_preamble then 1 else 0)
               (if ss.ss_ed.ed_annex_init then (if ss.ss_ed.ed_annex_present then 1 else 0) else -1);
             set_listing id h c v;
             dump_env id 0 1 "-" v;
             run_cmds id c v (get h "cmds" "")
           end)

let run_case (l : string) =
  let (kind, h) = parse_line l in
  match kind with
  | "sn" -> do_sn h
  | "sne" -> do_sne h
  | "snv" -> do_snv h
  | "script" -> do_script h
  | "btcc" -> do_btcc h
  | "spend" -> do_spend h
  | "tx" -> do_tx h
  | "inl" -> do_inl h
  | "tf" -> do_tf h
  | "cli" -> do_cli h
  | "tapcommit" -> do_tapcommit h
  | "tap" -> do_tap h
  | "flags" -> do_flags h
  | _ -> Printf.printf "R %s unknownkind\n" (get h "id" "")

let () =
  let ic = if Array.length Sys.argv > 1 then open_in Sys.argv.(1) else stdin in
  (try
    while true do
      let l = input_line ic in
      if l <> "" && l.[0] <> '#' then run_case l
    done
  with End_of_file -> ());
  flush stdout
