"""Drive the interactive btcdeb REPL through a pty; returns list of (command, output-text)."""
import pty, os, time, select, re, tempfile, shutil

PROMPT = b"btcdeb> "
ANSI = re.compile(rb"\x1b\[[0-9;?]*[a-zA-Z]")

def repl(binary, argv, cmds, timeout=5.0, env=None, mkdirs=()):
    """mkdirs: directories to create inside the session's working directory first (e.g. '.btcdeb_history': a history file that cannot be opened)"""
    cwd = tempfile.mkdtemp(prefix="btcdeb-pty-", dir=os.environ.get("VERIF_SCRATCH", "/var/tmp"))
    for d in mkdirs:
        os.makedirs(os.path.join(cwd, d), exist_ok=True)
    try:
        pid, fd = pty.fork()
        if pid == 0:
            os.chdir(cwd)
            e = dict(os.environ); e["TERM"] = "dumb"
            if env: e.update(env)
            os.execve(binary, [binary] + argv, e)
        buf = b""
        def rd(t):
            nonlocal buf
            end = time.time() + t
            while time.time() < end:
                r, _, _ = select.select([fd], [], [], 0.02)
                if r:
                    try:
                        d = os.read(fd, 65536)
                    except OSError:
                        return False
                    if not d:
                        return False
                    buf += d
                    if ANSI.sub(b"", buf).rstrip(b" ").endswith(PROMPT.rstrip(b" ")):
                        return True
            return True
        alive = rd(timeout)
        outs = []
        banner = ANSI.sub(b"", buf).decode("latin1"); buf = b""
        for c in cmds:
            if not alive:
                outs.append((c, None)); continue
            os.write(fd, (c + "\n").encode("latin1"))
            alive = rd(timeout)
            txt = ANSI.sub(b"", buf).decode("latin1").replace("\r", ""); buf = b""
            # strip echoed command and trailing prompt
            lines = txt.split("\n")
            if lines and lines[0].strip() == c.strip():
                lines = lines[1:]
            if lines and lines[-1].startswith("btcdeb>"):
                lines = lines[:-1]
            outs.append((c, "\n".join(lines)))
        try:
            os.write(fd, b"\x04")
        except OSError:
            pass
        rd(0.3)
        status = None
        for _ in range(100):
            p, st = os.waitpid(pid, os.WNOHANG)
            if p:
                status = st; break
            time.sleep(0.02)
        if status is None:
            os.kill(pid, 9); os.waitpid(pid, 0)
        os.close(fd)
        return banner, outs, status
    finally:
        shutil.rmtree(cwd, ignore_errors=True)

if __name__ == "__main__":
    import sys
    b, o, s = repl(sys.argv[1], [], sys.argv[2:])
    for c, t in o:
        print(">>", c); print(t)
    print("status", s)
