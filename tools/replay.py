"""Re-run the input recorded in a replay file against the implementation and the model."""
import json, sys
import engine

def main(pid, path):
    obj = json.load(open(path))
    case = obj.get("case")
    if not case:
        print("replay names a broken proof obligation / correspondence, no input: %s" % obj.get("description"))
        print(json.dumps({k: obj[k] for k in obj if k in ("file", "theorem", "coq_output")}, indent=1))
        return 1
    cases = case if isinstance(case, list) else [case]
    variant = obj.get("variant", "plain")
    kind = cases[0].split()[0]
    if kind.startswith("cli"):
        import cli
        return cli.replay(obj)
    impl = engine.run_impl(cases, variant)
    model = engine.run_model(cases)
    bad = 0
    for cid in impl:
        il = impl[cid]; ml = [l for l in model.get(cid, []) if l.startswith("R ")]
        print("case :", [c for c in cases if ("id=%s " % cid) in c + " "][0])
        print("impl :", *il, sep="\n  ")
        print("model:", *ml, sep="\n  ")
        if il != ml:
            bad += 1
    if bad:
        print("VIOLATION property=%s replay=%s" % (pid, path))
    return 1 if bad else 0
