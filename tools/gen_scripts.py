"""Generators for script-session cases (shared by C01, C04, C08, C09, C10, C16, C17).
All randomness comes from the rng passed in (seeded from VERIF_SEED)."""
import json, os, itertools
import vlib

_info = None
def info():
    global _info
    if _info is None:
        _info = json.load(open(os.path.join(vlib.CACHE, "translate_info.json")))
    return _info

def OP(name):
    return info()["consts"]["opcodes"][name]

def FLAG(name):
    return info()["consts"]["flags"]["SCRIPT_VERIFY_" + name]

def STANDARD():
    return info()["consts"]["policy"]["STANDARD_SCRIPT_VERIFY_FLAGS"]

def hexs(b):
    return bytes(b).hex() if len(b) else "-"

def hexlist(items):
    return ",".join(hexs(x) for x in items)

def sn(v):
    """script number encoding (independent python implementation)"""
    if v == 0:
        return b""
    neg = v < 0
    a = -v if neg else v
    out = bytearray()
    while a:
        out.append(a & 0xff); a >>= 8
    if out[-1] & 0x80:
        out.append(0x80 if neg else 0)
    elif neg:
        out[-1] |= 0x80
    return bytes(out)

def push(data):
    n = len(data)
    if n < 0x4c:
        return bytes([n]) + data
    if n <= 0xff:
        return bytes([0x4c, n]) + data
    if n <= 0xffff:
        return bytes([0x4d]) + n.to_bytes(2, "little") + data
    return bytes([0x4e]) + n.to_bytes(4, "little") + data

def push_num(v):
    if v == -1 or 1 <= v <= 16:
        return bytes([v + 0x50])
    if v == 0:
        return b"\x00"
    return push(sn(v))

# boundary-rich values (as stack items)
NUMS = [0, 1, -1, 2, 16, 17, -16, 127, -127, 128, -128, 255, -255, 256, -256, 32767, 32768, -32768,
        2**31 - 1, -(2**31 - 1), 2**31, -(2**31), 2**39 - 1, 2**39]
ODD_ITEMS = [b"\x80", b"\x00", b"\x00\x80", b"\x00\x00", b"\x01\x00", b"\x00\x00\x80", b"\xff", b"\x7f",
             b"\x01\x00\x00\x00\x00", b"\x00\x00\x00\x00\x80", b"abc", b"\x02", b"\x81", bytes(20), bytes(range(32)), bytes(33)]
def value_pool():
    return [sn(v) for v in NUMS] + ODD_ITEMS

EXEC_FLAG_NAMES = ["P2SH", "MINIMALDATA", "MINIMALIF", "DISCOURAGE_UPGRADABLE_NOPS", "CHECKLOCKTIMEVERIFY", "CHECKSEQUENCEVERIFY",
                   "NULLDUMMY", "CONST_SCRIPTCODE", "NULLFAIL", "STRICTENC", "DERSIG", "LOW_S", "WITNESS_PUBKEYTYPE",
                   "DISCOURAGE_UPGRADABLE_PUBKEYTYPE", "CLEANSTACK"]

def rand_flags(rng):
    r = rng.random()
    if r < 0.2:
        return 0
    if r < 0.45:
        return STANDARD()
    f = 0
    for n in EXEC_FLAG_NAMES:
        if rng.random() < 0.5:
            f |= FLAG(n)
    return f

def case(cid, scr, stack, flags, sv, cmds, z=0, extra=""):
    # a tapscript session always carries an initialised validation-weight budget (configure_tx_txin sets it)
    if sv == 3 and "wl=" not in extra:
        extra += "wl=1000 "
    return "script id=%s scr=%s st=%s flags=%d sv=%d z=%d %scmds=%s" % (cid, hexs(scr), hexlist(stack), flags, sv, z, extra, cmds)

# opcode groups
def ops_table():
    t = {}
    t["num1"] = ["OP_1ADD", "OP_1SUB", "OP_NEGATE", "OP_ABS", "OP_NOT", "OP_0NOTEQUAL"]
    t["num2"] = ["OP_ADD", "OP_SUB", "OP_BOOLAND", "OP_BOOLOR", "OP_NUMEQUAL", "OP_NUMEQUALVERIFY", "OP_NUMNOTEQUAL", "OP_LESSTHAN",
                 "OP_GREATERTHAN", "OP_LESSTHANOREQUAL", "OP_GREATERTHANOREQUAL", "OP_MIN", "OP_MAX"]
    t["stack"] = ["OP_TOALTSTACK", "OP_FROMALTSTACK", "OP_2DROP", "OP_2DUP", "OP_3DUP", "OP_2OVER", "OP_2ROT", "OP_2SWAP", "OP_IFDUP",
                  "OP_DEPTH", "OP_DROP", "OP_DUP", "OP_NIP", "OP_OVER", "OP_PICK", "OP_ROLL", "OP_ROT", "OP_SWAP", "OP_TUCK", "OP_SIZE"]
    t["hash"] = ["OP_RIPEMD160", "OP_SHA1", "OP_SHA256", "OP_HASH160", "OP_HASH256"]
    t["ext"] = ["OP_CAT", "OP_SUBSTR", "OP_LEFT", "OP_RIGHT", "OP_INVERT", "OP_AND", "OP_OR", "OP_XOR", "OP_2MUL", "OP_2DIV", "OP_MUL",
                "OP_DIV", "OP_MOD", "OP_LSHIFT", "OP_RSHIFT"]
    t["misc"] = ["OP_NOP", "OP_VERIFY", "OP_EQUAL", "OP_EQUALVERIFY", "OP_WITHIN", "OP_CODESEPARATOR", "OP_NOP1", "OP_NOP4", "OP_NOP10",
                 "OP_CHECKLOCKTIMEVERIFY", "OP_CHECKSEQUENCEVERIFY", "OP_RETURN", "OP_RESERVED", "OP_VER", "OP_VERIF", "OP_VERNOTIF",
                 "OP_RESERVED1", "OP_RESERVED2", "OP_1NEGATE"]
    t["sig"] = ["OP_CHECKSIG", "OP_CHECKSIGVERIFY", "OP_CHECKMULTISIG", "OP_CHECKMULTISIGVERIFY", "OP_CHECKSIGADD"]
    return t

NEEDS = {"OP_TOALTSTACK": 1, "OP_2DROP": 2, "OP_2DUP": 2, "OP_3DUP": 3, "OP_2OVER": 4, "OP_2ROT": 6, "OP_2SWAP": 4, "OP_IFDUP": 1,
         "OP_DROP": 1, "OP_DUP": 1, "OP_NIP": 2, "OP_OVER": 2, "OP_ROT": 3, "OP_SWAP": 2, "OP_TUCK": 2, "OP_SIZE": 1,
         "OP_EQUAL": 2, "OP_EQUALVERIFY": 2, "OP_VERIFY": 1}
DELTA = {"OP_TOALTSTACK": -1, "OP_FROMALTSTACK": 1, "OP_2DROP": -2, "OP_2DUP": 2, "OP_3DUP": 3, "OP_2OVER": 2, "OP_2ROT": 0, "OP_2SWAP": 0,
         "OP_DEPTH": 1, "OP_DROP": -1, "OP_DUP": 1, "OP_NIP": -1, "OP_OVER": 1, "OP_ROT": 0, "OP_SWAP": 0, "OP_TUCK": 1, "OP_SIZE": 1,
         "OP_EQUAL": -1, "OP_NOP": 0}

def rand_script(rng, nops, allow_ext=False, allow_sig=False, depth0=0):
    """Grammar-directed: keeps an estimate of the stack depth so most operations find their operands,
    nests IF/NOTIF/ELSE/ENDIF, moves items through the alt stack."""
    t = ops_table()
    out = bytearray()
    depth = depth0
    alt = 0
    nest = 0
    pool = value_pool()
    for _ in range(nops):
        r = rng.random()
        if depth < 3 or r < 0.30:
            k = rng.random()
            if k < 0.55:
                out += push_num(rng.choice(NUMS[:20]) if rng.random() < 0.7 else rng.randrange(-70000, 70000))
            elif k < 0.8:
                out += push(rng.choice(pool))
            else:
                d = bytes(rng.randrange(256) for _ in range(rng.choice([1, 2, 3, 4, 5, 20, 32, 33, 75, 76, 80])))
                out += push(d)
            depth += 1
        elif r < 0.42:
            op = rng.choice(t["num2"]); out.append(OP(op)); depth -= 1 + (op == "OP_NUMEQUALVERIFY")
        elif r < 0.50:
            out.append(OP(rng.choice(t["num1"])))
        elif r < 0.68:
            op = rng.choice(t["stack"])
            if op in ("OP_PICK", "OP_ROLL"):
                out += push_num(rng.randrange(-1, depth + 1)); out.append(OP(op)); depth += (op == "OP_PICK")
            elif op == "OP_FROMALTSTACK":
                if alt > 0:
                    out.append(OP(op)); alt -= 1; depth += 1
            elif depth >= NEEDS.get(op, 0):
                out.append(OP(op)); depth += DELTA.get(op, 0)
                if op == "OP_TOALTSTACK": alt += 1
        elif r < 0.78:
            k = rng.random()
            if k < 0.45:
                out += push_num(rng.choice([0, 1, 1, 1, 2, -1])) if rng.random() < 0.8 else push(rng.choice([b"\x80", b"\x00", b"\x01\x00", b"\x02"]))
                out.append(OP(rng.choice(["OP_IF", "OP_NOTIF"]))); nest += 1
            elif k < 0.7 and nest > 0:
                out.append(OP("OP_ELSE"))
            elif nest > 0:
                out.append(OP("OP_ENDIF")); nest -= 1
        elif r < 0.84:
            out.append(OP(rng.choice(t["hash"])))
        elif r < 0.90:
            op = rng.choice(t["misc"])
            if op == "OP_WITHIN" and depth >= 3:
                out.append(OP(op)); depth -= 2
            elif op in ("OP_EQUAL", "OP_EQUALVERIFY") and depth >= 2:
                out.append(OP(op)); depth -= 1 + (op == "OP_EQUALVERIFY")
            elif op in ("OP_RETURN", "OP_RESERVED", "OP_VER", "OP_VERIF", "OP_VERNOTIF", "OP_RESERVED1", "OP_RESERVED2"):
                if rng.random() < 0.15:
                    out.append(OP(op))
            elif op == "OP_VERIFY":
                out += push_num(1); out.append(OP(op))
            else:
                out.append(OP(op))
                if op == "OP_1NEGATE": depth += 1
        elif r < 0.95 and allow_ext:
            op = rng.choice(t["ext"]); out.append(OP(op))
        elif allow_sig:
            out.append(OP(rng.choice(t["sig"])))
        else:
            out.append(OP("OP_NOP"))
    if rng.random() < 0.8:
        for _ in range(nest):
            out.append(OP("OP_ENDIF"))
    return bytes(out)

def count_ops(scr):
    """number of operations by independent decoding (None if it does not decode)"""
    i = 0; n = 0
    while i < len(scr):
        o = scr[i]; i += 1
        if o <= 0x4e:
            if o < 0x4c: ln = o
            elif o == 0x4c:
                if i + 1 > len(scr): return None
                ln = scr[i]; i += 1
            elif o == 0x4d:
                if i + 2 > len(scr): return None
                ln = int.from_bytes(scr[i:i+2], "little"); i += 2
            else:
                if i + 4 > len(scr): return None
                ln = int.from_bytes(scr[i:i+4], "little"); i += 4
            if i + ln > len(scr): return None
            i += ln
        n += 1
    return n

def rand_stack(rng, maxn=6):
    pool = value_pool()
    return [rng.choice(pool) for _ in range(rng.randrange(0, maxn + 1))]
