#!/usr/bin/env python3
"""Shared machinery: staging + native build cache, Coq build, evidence, replay files.

Everything that depends on /repo is rebuilt from /repo's *working tree* and cached under
/verif/.cache keyed by a hash of the staged sources (the cache is always re-creatable).
Scratch copies live under $VERIF_SCRATCH (default /var/tmp) and are removed after use.
"""
import fcntl, hashlib, json, os, re, shutil, subprocess, sys, tempfile, time

VERIF = os.path.dirname(os.path.dirname(os.path.abspath(__file__)))
REPO = os.environ.get("VERIF_REPO", "/repo")
CACHE = os.path.join(VERIF, ".cache")
SCRATCH = os.environ.get("VERIF_SCRATCH", "/var/tmp")
NCPU = os.cpu_count() or 4
GUARD = "BTCDEB_VERIF"

SRC_EXT = (".cpp", ".h", ".c", ".hpp", ".am")
EXCLUDE_DIRS = {".git", "autom4te.cache", "build-aux", "doc", "ci", ".github", ".deps", ".libs"}


def log(*a):
    print(*a, file=sys.stderr, flush=True)


def src_files(root=None):
    """All source files of the working tree that can influence the build, relative paths, sorted."""
    root = root or REPO
    out = []
    for d, dirs, files in os.walk(root):
        rel = os.path.relpath(d, root)
        parts = rel.split(os.sep)
        dirs[:] = [x for x in dirs if x not in EXCLUDE_DIRS]
        if parts[0] in EXCLUDE_DIRS:
            continue
        for f in files:
            if f.endswith(SRC_EXT):
                out.append(os.path.normpath(os.path.join(rel, f)))
    return sorted(out)


def tree_hash(extra=()):
    h = hashlib.sha256()
    for f in src_files():
        p = os.path.join(REPO, f)
        try:
            with open(p, "rb") as fh:
                data = fh.read()
        except OSError:
            continue
        h.update(f.encode() + b"\0" + hashlib.sha256(data).digest())
    for e in extra:
        h.update(b"\1" + e.encode())
    return h.hexdigest()[:24]


def file_hash(path):
    with open(path, "rb") as fh:
        return hashlib.sha256(fh.read()).hexdigest()


class Lock:
    def __init__(self, name):
        os.makedirs(CACHE, exist_ok=True)
        self.path = os.path.join(CACHE, name + ".lock")

    def __enter__(self):
        self.fh = open(self.path, "w")
        fcntl.flock(self.fh, fcntl.LOCK_EX)
        return self

    def __exit__(self, *a):
        fcntl.flock(self.fh, fcntl.LOCK_UN)
        self.fh.close()


def _am_sources(am_text, var):
    m = re.search(r"^" + re.escape(var) + r"\s*=\s*((?:.*\\\n)*.*)$", am_text, re.M)
    if not m:
        raise RuntimeError("Makefile.am: variable %s not found" % var)
    toks = m.group(1).replace("\\\n", " ").split()
    return [t for t in toks if t.endswith((".cpp", ".c"))]


VARIANTS = {
    "plain": ["-O1", "-g0"],
    # (nonnull-attribute is switched off: memcpy(NULL, p, 0) on an empty vector - value.h data_value() of an empty string - is formally
    #  undefined but touches no memory and is none of the failures C15 lists; every other UBSan check stays fatal)
    "san": ["-O1", "-g", "-fsanitize=address,undefined", "-fno-sanitize=nonnull-attribute", "-fno-sanitize-recover=all", "-fno-omit-frame-pointer"],
}


def _prune_cache(keep=6):
    bdir = os.path.join(CACHE, "build")
    if not os.path.isdir(bdir):
        return
    ents = sorted((os.path.getmtime(os.path.join(bdir, e)), e) for e in os.listdir(bdir))
    for _, e in ents[:-keep]:
        shutil.rmtree(os.path.join(bdir, e), ignore_errors=True)


def build(variant="plain"):
    """Build vh, btcdeb, btcc, tap from /repo's working tree. Returns directory with the binaries."""
    harness_srcs = [os.path.join(VERIF, "harness", f) for f in sorted(os.listdir(os.path.join(VERIF, "harness"))) if f.endswith((".cpp", ".h"))]
    hh = hashlib.sha256()
    for p in harness_srcs:
        hh.update(file_hash(p).encode())
    key = tree_hash(extra=[variant, hh.hexdigest()] + VARIANTS[variant])
    out = os.path.join(CACHE, "build", key + "-" + variant)
    with Lock("build-" + variant):
        if os.path.exists(os.path.join(out, "OK")):
            os.utime(out)
            return out
        t0 = time.time()
        os.makedirs(os.path.join(CACHE, "build"), exist_ok=True)
        work = tempfile.mkdtemp(prefix="btcdeb-verif-", dir=SCRATCH)
        try:
            src = os.path.join(work, "src")
            subprocess.check_call(["rsync", "-a", "--exclude=.git", "--exclude=*.o", "--exclude=*.a", "--exclude=*.la",
                                   "--exclude=*.lo", "--exclude=.libs", "--exclude=.deps", "--exclude=autom4te.cache",
                                   "--exclude=/btcdeb", "--exclude=/btcc", "--exclude=/tap", "--exclude=/test-btcdeb",
                                   "--exclude=doc", REPO + "/", src + "/"])
            # config headers: use the tree's (configure output) if present, else our saved copy
            cfg = os.path.join(src, "config", "bitcoin-config.h")
            if not os.path.exists(cfg):
                os.makedirs(os.path.dirname(cfg), exist_ok=True)
                shutil.copy(os.path.join(VERIF, "harness", "config", "bitcoin-config.h"), cfg)
            scfg = os.path.join(src, "secp256k1", "src", "libsecp256k1-config.h")
            if not os.path.exists(scfg):
                shutil.copy(os.path.join(VERIF, "harness", "config", "secp", "libsecp256k1-config.h"), scfg)
            am = open(os.path.join(src, "Makefile.am")).read()
            lib = _am_sources(am, "libbitcoin_a_SOURCES") + _am_sources(am, "libbitcoin_deb_a_SOURCES")
            common = ["instance.cpp", "functions.cpp"]
            for f in harness_srcs:
                shutil.copy(f, os.path.join(src, "verif_" + os.path.basename(f)))
            progs = {"btcdeb": ["btcdeb.cpp"] + common, "tap": ["tap.cpp"] + common, "btcc": ["btcc.cpp"],
                     "vh": ["verif_vh.cpp"] + common}
            cxxflags = ["-std=c++17", "-DHAVE_CONFIG_H", "-D" + GUARD, "-I.", "-Isecp256k1/include", "-w"] + VARIANTS[variant]
            cflags = ["-w"] + [f for f in VARIANTS[variant] if not f.startswith("-fsanitize") and not f.startswith("-fno-sanitize")]
            mk = ["CXX=g++", "CXXFLAGS=" + " ".join(cxxflags), "CFLAGS=" + " ".join(cflags), "LDFLAGS=" + " ".join(f for f in VARIANTS[variant] if f.startswith("-f")), ""]
            objs = []
            def obj(s):
                return "obj/" + s.replace("/", "_").rsplit(".", 1)[0] + ".o"
            allsrc = sorted(set(lib + common + sum(progs.values(), [])))
            for s in allsrc:
                mk.append("%s: %s\n\t$(CXX) $(CXXFLAGS) -c %s -o $@" % (obj(s), s, s))
            mk.append("obj/secp.o: secp256k1/src/secp256k1.c\n\tgcc $(CFLAGS) -O2 -DHAVE_CONFIG_H -Isecp256k1 -Isecp256k1/src -Isecp256k1/include -c $< -o $@")
            mk.append("obj/secp_pre1.o: secp256k1/src/precomputed_ecmult.c\n\tgcc $(CFLAGS) -O2 -DHAVE_CONFIG_H -Isecp256k1 -Isecp256k1/src -Isecp256k1/include -c $< -o $@")
            mk.append("obj/secp_pre2.o: secp256k1/src/precomputed_ecmult_gen.c\n\tgcc $(CFLAGS) -O2 -DHAVE_CONFIG_H -Isecp256k1 -Isecp256k1/src -Isecp256k1/include -c $< -o $@")
            mk.append("obj/kerl.o: kerl/kerl.c\n\tgcc $(CFLAGS) -std=gnu99 -Ikerl -c $< -o $@")
            libobjs = [obj(s) for s in lib] + ["obj/secp.o", "obj/secp_pre1.o", "obj/secp_pre2.o", "obj/kerl.o"]
            # the harness observes the arguments of the two signature verification entry points by link-time wrapping (no change to the tree)
            wrap = " -Wl,--wrap=_ZNK7CPubKey6VerifyERK7uint256RKSt6vectorIhSaIhEE -Wl,--wrap=_ZNK11XOnlyPubKey13VerifySchnorrERK7uint2564SpanIKhE"
            for p, ss in progs.items():
                mk.append("bin/%s: %s %s\n\t$(CXX) $(LDFLAGS)%s -o $@ %s %s -lreadline" % (p, " ".join(obj(s) for s in ss), " ".join(libobjs), wrap if p == "vh" else "", " ".join(obj(s) for s in ss), " ".join(libobjs)))
            mk.append("all: " + " ".join("bin/" + p for p in progs))
            os.makedirs(os.path.join(src, "obj")); os.makedirs(os.path.join(src, "bin"))
            with open(os.path.join(src, "Makefile.verif"), "w") as fh:
                fh.write("\n".join(mk) + "\n")
            r = subprocess.run(["make", "-f", "Makefile.verif", "-j%d" % NCPU, "all"], cwd=src, stdout=subprocess.PIPE, stderr=subprocess.STDOUT, text=True)
            if r.returncode != 0:
                sys.stderr.write(r.stdout[-6000:])
                raise RuntimeError("native build failed (variant %s)" % variant)
            tmp = out + ".tmp%d" % os.getpid()
            shutil.rmtree(tmp, ignore_errors=True)
            os.makedirs(tmp)
            for p in progs:
                shutil.copy(os.path.join(src, "bin", p), os.path.join(tmp, p))
            open(os.path.join(tmp, "OK"), "w").write("%s %.1fs\n" % (key, time.time() - t0))
            shutil.rmtree(out, ignore_errors=True)
            os.rename(tmp, out)
            log("[build] %s variant=%s %.1fs" % (key, variant, time.time() - t0))
        finally:
            shutil.rmtree(work, ignore_errors=True)
        _prune_cache()
    return out


# ---------------------------------------------------------------------------------- evidence

def write_evidence(pid, tier, seed, coverage, wall, violations=0, assumptions=()):
    ev = {"property_id": pid, "tier": tier, "seed": int(seed), "level": "proof", "coverage": coverage,
          "assumptions": list(assumptions), "wall_s": round(wall, 2), "violations": int(violations)}
    os.makedirs(os.path.join(VERIF, "evidence"), exist_ok=True)
    p = os.path.join(VERIF, "evidence", pid + ".json")
    tmp = p + ".tmp"
    with open(tmp, "w") as fh:
        json.dump(ev, fh, indent=1, sort_keys=True)
        fh.write("\n")
    os.replace(tmp, p)
    return p


def write_replay(pid, name, obj):
    d = os.path.join(VERIF, "replays", pid)
    os.makedirs(d, exist_ok=True)
    p = os.path.join(d, name + ".json")
    with open(p, "w") as fh:
        json.dump(obj, fh, indent=1, sort_keys=True)
        fh.write("\n")
    return p


def known_findings():
    with open(os.path.join(VERIF, "known_findings.json")) as fh:
        return json.load(fh)


if __name__ == "__main__":
    v = sys.argv[1] if len(sys.argv) > 1 else "plain"
    print(build(v))
