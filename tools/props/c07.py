"""C07 - btcc assembles every token sequence into the exact minimal encoding. Proof: Properties/C07.v.
Tie: Value::parse_args + Value::serialize (vh, same calls as btcc's main) and the real btcc binary vs the extracted Value model."""
import itertools, subprocess, os
from engine import Check
import gen_scripts as G, vlib

PROP_FILES = ["Properties/C07.v"]
RULE = ("token sequences: every name of the GetOpCode table with and without OP_, all 256 OP_xNN / xNN escapes; decimals: 0, +-1..17, boundaries "
        "of every 1..8-byte encoding (2^(8k-1) +-1, 2^(8k) +-1), int64 min/max and beyond, non-canonical forms (+5, -0, 007); hex literals: ALL "
        "1- and 2-byte strings (plain and 0x forms), sampled 3/4-byte, lengths 0..520 at the push-form thresholds 75/76, 255/256, 520; "
        "ambiguous digit-only strings; bracketed sub-scripts nested 0..8 deep (single argument) and split over arguments; whitespace / # comment "
        "variants inside brackets; random mixed sequences. non-trivial = every case except the empty sequence; distinct = distinct case lines")

def th(t):
    return t.encode("latin1").hex()

def gen(chk):
    rng = chk.rng
    cid = itertools.count(1)
    names = G.info()["Gen/OpNames.v"]["getopcode"]
    single = []
    def add(toks, into=single):
        into.append("btcc id=%d toks=%s" % (next(cid), ",".join(th(t) for t in toks)))
    for n in names:
        add(["OP_" + n]); add([n])
    for v in range(256):
        add(["OP_x%02x" % v]); add(["x%02X" % v])
    for bad in ("OP_x1", "OP_xzz", "OP_x123", "x", "OP_", "OP_FOO", "op_dup", "Op_1"):
        add([bad])
    ints = set([0] + list(range(-18, 19)))
    for k in range(1, 9):
        for base in (1 << (8 * k - 1), 1 << (8 * k)):
            for d in (-1, 0, 1):
                ints.add(base + d); ints.add(-(base + d))
    ints |= {2**63 - 1, -(2**63), 2**63, -(2**63) - 1, 10**19, -10**19}
    for v in sorted(ints):
        add([str(v)])
    for s in ("+5", "-0", "007", "00", "0", "-", "1e3", " 5", "5 ", "0x", "0X12", "12a", "a12", "515293", "1234", "12345", "99", "100000"):
        add([s])
    for a in range(256):
        add(["%02x" % a]); add(["0x%02x" % a])
    two = [(a, b) for a in range(256) for b in range(256)] if chk.tier == "thorough" else \
          [(a, b) for a in (0, 1, 0x10, 0x11, 0x7f, 0x80, 0x81, 0xff) for b in range(256)] + [(a, b) for a in range(256) for b in (0, 0x7f, 0x80, 0xff)]
    for a, b in two:
        add(["0x%02x%02x" % (a, b)])
        if a >= 0xa0:
            add(["%02x%02x" % (a, b)])
    inter = [0, 1, 0x7f, 0x80, 0xff]
    for n in (3, 4):
        for t in itertools.product(inter, repeat=n):
            add(["0x" + bytes(t).hex()])
    for n in list(range(5, 12)) + [74, 75, 76, 77, 254, 255, 256, 257, 519, 520, 521, 600]:
        add(["0x" + bytes(rng.randrange(256) for _ in range(n)).hex()])
        add([bytes(rng.randrange(256) for _ in range(n)).hex()])
    S = {"single": single}
    seqs = []
    atoms = ["OP_DUP", "HASH160", "OP_1", "5", "-7", "1000", "0x00", "0x0100", "0xdeadbeef", "ab", "OP_EQUALVERIFY", "OP_x50", "17", "0", "0x"]
    def rand_tok(depth):
        r = rng.random()
        if depth > 0 and r < 0.25:
            inner = " ".join(rand_tok(depth - 1) for _ in range(rng.randrange(0, 4)))
            return "[" + inner + "]"
        return rng.choice(atoms)
    for _ in range(1500 if chk.tier == "quick" else 20000):
        add([rand_tok(3) for _ in range(rng.randrange(1, 7))], seqs)
    for d in range(0, 9):
        t = "OP_1"
        for _ in range(d):
            t = "[" + t + " OP_2]"
        add([t], seqs); add(["OP_0", t, "5"], seqs)
    # brackets split over arguments, whitespace and comment variants
    for toks in (["[OP_1", "OP_2]"], ["[OP_1", "OP_2", "OP_3]", "OP_4"], ["[OP_1", "OP_2"], ["[", "OP_1", "]"], ["[OP_1", "[OP_2", "OP_3]", "OP_4]"],
                 ["[OP_1  OP_2]"], ["[OP_1\tOP_2\n0x05]"], ["[OP_1 # comment\n OP_2]"], ["[OP_1 #c]"], ["[]"], ["[ ]"], ["[[]]"], ["[[OP_1]"], ["[OP_1]]"],
                 ["[a]b"], ["[OP_1 [OP_2]"], ["]"], ["[", "]"], ["OP_1]"], [""], ["", "OP_1"], ["[OP_1", ""], ["[OP_1", "", "OP_2]"]):
        add(toks, seqs)
    # separators glued to tokens inside a bracketed body: a comment directly after a token (no blank), before the closing bracket, tabs / CR /
    # newlines between tokens, several comments - the token in front of a '#' must not get lost
    glue_atoms = ["OP_DUP", "0xabcd", "5", "OP_HASH160", "0x1234", "OP_2", "17", "ab"]
    for _ in range(60 if chk.tier == "quick" else 1500):
        body = ""
        for _ in range(rng.randrange(1, 6)):
            body += rng.choice(glue_atoms) + rng.choice(["# c\n", "#\n", "#x y\n", " # c\n", "\t", "\n", "\r\n", " ", "  ", "#c\r"])
        body += rng.choice(["", "OP_3", "OP_3#", "OP_3# end", "#only"])
        add(["[" + body + "]"], seqs)
        add(["OP_1", "[OP_IF " + body + " OP_ENDIF]"], seqs)
    S["sequences"] = seqs
    return S

def cli_sample(chk, cases, n=150):
    """the real btcc binary on a sample: stdout must equal what vh reported for the same tokens"""
    bdir = vlib.build("plain")
    rng = chk.rng
    bad = 0
    tried = 0
    for c in rng.sample(cases, min(n, len(cases))):
        toks = [bytes.fromhex(t).decode("latin1") for t in c.split("toks=")[1].split(",")] if c.split("toks=")[1] else []
        if not toks or any("\x00" in t for t in toks):
            continue
        tried += 1
        r = subprocess.run([os.path.join(bdir, "btcc")] + toks, stdout=subprocess.PIPE, stderr=subprocess.DEVNULL)
        from engine import run_model
        ml = run_model([c])
        exp = list(ml.values())[0][0]
        got = "exit1" if r.returncode == 1 and not r.stdout.strip() else "out=%s" % (r.stdout.decode().strip() or "-")
        if r.returncode not in (0, 1) or exp.split(" ", 2)[2] != got:
            bad += 1
            if bad <= 3:
                chk.violation("btcc-cli-mismatch", "btcc binary output differs from the model", {"stream": "cli", "case": c, "argv": toks, "rc": r.returncode, "stdout": r.stdout.decode(), "model": exp})
    chk.streams["btcc-binary"] = {"cases": tried, "diffs": bad, "known": 0}
    chk.evaluations += tried

def main(tier):
    chk = Check("C07", tier)
    chk.prove(PROP_FILES)
    allc = []
    for name, cases in gen(chk).items():
        allc += cases
        diffs = chk.compare(name, cases, nontrivial=lambda c, il: not c.endswith("toks="))
        for c, il, ml, sl, fl in diffs[:4]:
            toks = [bytes.fromhex(t).decode("latin1") for t in c.split("toks=")[1].split(",") if t]
            chk.violation("compile-mismatch", "compiled bytes differ from the model (proved minimal and faithful to the tokens)",
                          {"stream": name, "case": c, "tokens": toks, "impl": il, "model_eq_spec": ml})
    cli_sample(chk, allc)
    return chk.finish(RULE)
