"""C16 - exec applies operations exactly as the script would. Proof: Properties/C16.v. Tie: Instance::eval (vh) vs the
extracted model after session prefixes; the reference relation 'exec ops == the same ops as next script operations' is
also evaluated on the implementation alone (script P ++ ops stepped vs script P stepped then exec ops)."""
import itertools, re
from engine import Check, run_impl
import gen_scripts as G

PROP_FILES = ["Properties/C16.v"]
RULE = ("session prefixes (k steps into grammar-generated scripts, incl. inside IF branches, with alt-stack content, under random flag sets and "
        "script versions) followed by exec of 1..5 tokens (opcode names with/without OP_, small integers, canonical decimals, hex pushes, "
        "invalid tokens, tokens raising exceptions), in 45% of the sessions several exec lines in a row (earlier ones refused half-way or ended by an exception); after exec: full state dump (stack, alt, cond, pc, script, position) vs model; "
        "impl-only relation: exec ops == appending ops to the executed prefix. non-trivial = exec list contains a non-push operation")

NAMES = ["OP_DUP", "DUP", "OP_ADD", "SUB", "OP_SWAP", "OP_IF", "OP_ELSE", "OP_ENDIF", "OP_TOALTSTACK", "OP_FROMALTSTACK", "OP_1", "OP_0", "OP_16",
         "OP_DROP", "OP_2DUP", "OP_ROT", "OP_PICK", "OP_ROLL", "OP_SIZE", "OP_EQUAL", "OP_VERIFY", "OP_NOT", "OP_1ADD", "OP_NEGATE", "OP_WITHIN",
         "OP_HASH160", "OP_SHA256", "OP_DEPTH", "OP_NOP", "OP_CAT", "OP_RETURN", "OP_NOP4", "OP_CHECKSIG", "OP_xff", "OP_x61", "xb9", "OP_NOTANOP",
         "OP_CODESEPARATOR", "OP_MIN", "OP_BOOLAND", "OP_NUMEQUALVERIFY", "OP_IFDUP", "OP_TUCK", "OP_2SWAP"]
NUMS = ["0", "1", "2", "5", "16", "17", "-1", "-2", "127", "128", "255", "256", "-128", "1000", "65536", "2147483647", "2147483648", "-2147483648",
        "007", "+5", "-0", "1234", "99999"]
HEXES = ["00", "80", "0100", "ab", "abcd", "0x12", "ffff", "0000000001", "deadbeef00", "a", "abc", "1a", "00" * 20, "0080", "81"]

# pushes at the boundaries of the push encodings (75/76, 255/256 bytes): exec must encode them as the script would
HEXES += ["ab" * 75, "cd" * 76, "ef" * 255, "12" * 256, "34" * 254, "56" * 520]

def tok_hex(t):
    return t.encode().hex()

def gen(chk):
    rng = chk.rng
    cid = itertools.count(1)
    cases = []
    rel = []
    n = 2500 if chk.tier == "quick" else 40000
    for _ in range(n):
        scr = G.rand_script(rng, rng.choice([2, 4, 8, 14]))
        k = rng.randrange(0, (G.count_ops(scr) or 1) + 1)
        ntok = rng.choice([1, 1, 2, 3, 5])
        toks = []
        for _ in range(ntok):
            r = rng.random()
            toks.append(rng.choice(NAMES) if r < 0.6 else rng.choice(NUMS) if r < 0.8 else rng.choice(HEXES))
        st = G.rand_stack(rng, 4)
        fl = G.rand_flags(rng)
        sv = rng.choice((0, 1, 3))
        cmds = ["s"] * k + ["e:" + "+".join(tok_hex(t) for t in toks)]
        # state carried from one exec to the next: a second / third exec line, the earlier one often refused half-way (valid tokens, then an
        # invalid one) or ended by an exception
        r2 = rng.random()
        if r2 < 0.45:
            def line():
                ts = [rng.choice(NAMES) if rng.random() < 0.6 else rng.choice(NUMS + HEXES) for _ in range(rng.choice([1, 2, 3]))]
                if rng.random() < 0.35: ts.append(rng.choice(["OP_FOO", "zz", "OP_NOTANOP", "0102030405 OP_1ADD".split()[0], "g1"]))
                if rng.random() < 0.2: ts += ["0102030405", "OP_1ADD"]
                return "e:" + "+".join(tok_hex(t) for t in ts)
            if r2 < 0.2:
                cmds = ["s"] * k + [line()] + cmds[k:]          # a (possibly refused) exec BEFORE the one under test
            cmds += [line() for _ in range(rng.choice([1, 1, 2]))]
        if rng.random() < 0.5:
            cmds += ["s"]          # the script continues from where it was
        if rng.random() < 0.2:
            cmds += ["r"]
        cases.append(G.case(next(cid), scr, st, fl, sv, ",".join(cmds)))
    # exec supplying the hashed item of a P2SH-shaped script that was loaded on an empty stack (the saved P2SH stack is empty at the switch)
    import hashlib
    for item in (b"\x01", b"\x51", b"abc"):
        h = hashlib.new("ripemd160", hashlib.sha256(item).digest()).digest()
        scr = bytes([0xa9, 20]) + h + b"\x87"
        for fl in (G.FLAG("P2SH"), G.STANDARD(), 0):
            cases.append(G.case(next(cid), scr, [], fl, 0, "e:" + tok_hex("0x" + item.hex()) + ",s,s,s,s,s"))
            cases.append(G.case(next(cid), scr, [item], fl, 0, "s,s,s,s,s"))
    return {"exec": cases}

def nontrivial(c, il):
    m = re.search(r"e:([0-9a-f+]+)", c)
    if not m:
        return False
    toks = [bytes.fromhex(t).decode() for t in m.group(1).split("+")]
    return any(t.replace("OP_", "") [0:1].isalpha() for t in toks)

def main(tier):
    chk = Check("C16", tier)
    chk.prove(PROP_FILES)
    for name, cases in gen(chk).items():
        diffs = chk.compare(name, cases, nontrivial=nontrivial)
        for c, il, ml, sl, fl in diffs[:4]:
            k = next((j for j, (a, b) in enumerate(zip(il, ml)) if a != b), min(len(il), len(ml)))
            chk.violation("exec-mismatch", "state after exec differs from applying the same operations with the interpreter step (model)",
                          {"stream": name, "case": c, "impl": il[max(0, k - 1):k + 1], "model_eq_spec": ml[max(0, k - 1):k + 1]})
    # the interactive command itself (fn_exec in front of Instance::eval): exec typed when the script has run to its end, or in a session
    # without a script, applies its operations like any other exec - same stack / alt stack as the script with those operations appended
    import ptyrun, vlib, os, concurrent.futures
    binary = os.path.join(vlib.build("plain"), "btcdeb")
    rng = chk.rng
    scen = []
    for _ in range(6 if chk.tier == "quick" else 60):
        base = rng.choice([["OP_2", "OP_3", "OP_ADD"], ["OP_1"], ["OP_5", "OP_DUP", "OP_TOALTSTACK"], ["OP_1", "OP_IF", "OP_7", "OP_ENDIF"], []])
        # (operation lists that cannot fail whatever the base script left behind: after a FAILED step a script session goes on with the next
        #  operation - known finding F37 - while exec stops, so failing lists are not comparable this way)
        ops = rng.choice([["2", "3", "OP_ADD"], ["5", "OP_DUP", "OP_TOALTSTACK"], ["OP_DEPTH"], ["9", "8", "OP_SWAP", "OP_DROP"], ["1", "OP_IF", "7", "OP_ENDIF"], ["6", "OP_TOALTSTACK", "OP_FROMALTSTACK"]])
        scen.append((base, ops))
    def run(sc):
        base, ops = sc
        a = ptyrun.repl(binary, (["[" + " ".join(base) + "]"] if base else []), ["step"] * (len(base) + 2) + ["exec " + " ".join(ops), "stack", "altstack"], timeout=8.0)
        b = ptyrun.repl(binary, ["[" + " ".join(base + ops) + "]"], ["step"] * (len(base) + len(ops) + 2) + ["stack", "altstack"], timeout=8.0)
        return a, b
    st = chk.streams.setdefault("exec-at-end(impl only, pty)", {"cases": 0, "diffs": 0, "known": 0})
    with concurrent.futures.ThreadPoolExecutor(8) as ex:
        for (base, ops), (a, b) in zip(scen, ex.map(run, scen)):
            st["cases"] += 1; chk.evaluations += 1
            ta = [o for c_, o in a[1] if c_ in ("stack", "altstack")]; tb = [o for c_, o in b[1] if c_ in ("stack", "altstack")]
            if ta != tb or None in ta:
                st["diffs"] += 1
                if st["diffs"] <= 3:
                    chk.violation("exec-at-end", "exec typed at the end of the script (or without a script) does not apply its operations like the script would",
                                  {"stream": "exec-at-end", "case": ["pty"], "binary": "btcdeb", "argv": (["[" + " ".join(base) + "]"] if base else []),
                                   "commands": ["step"] * (len(base) + 2) + ["exec " + " ".join(ops), "stack", "altstack"], "with_exec": ta, "appended_to_script": tb})
    return chk.finish(RULE)
