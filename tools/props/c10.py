"""C10 - resource limits at exactly the consensus bounds. Proof: Properties/C10.v (generated comparison sites and constants
pinned to 520/201/1000/10000/20 and 4/5-byte operands). Tie: translator (sites/constants regenerated on every run) +
boundary scripts at L-1, L, L+1 for each limit and each way of reaching it, three script versions."""
import itertools
from engine import Check
import gen_scripts as G

PROP_FILES = ["Properties/C10.v"]
RULE = ("for each limit L in {520-byte push, 1000 stack+alt items, 201 counted ops (incl. multisig key counts), 10000-byte script, 20 multisig keys, "
        "4/5-byte numeric operands}: scripts reaching L-1, L, L+1 by every listed route (direct pushes, DUP chains, alt-stack moves, 3DUP bursts, "
        "unexecuted branches, initial witness items, op count across step/rewind walks, the same inside a scriptPubKey / P2SH redeem script, scriptPubKey size after a scriptSig, op count carried across scriptSig->scriptPubKey (reset), CHECKMULTISIG key counts) x {BASE, WITNESS_V0, TAPSCRIPT}, "
        "run with ContinueScript and the final state/error compared with the model; non-trivial = all")

def gen(chk):
    cid = itertools.count(1)
    O = G.OP
    cases = []
    SVS = (0, 1, 3)
    def add(scr, st=(), fl=0, sv=0, cmds="c", extra=""):
        cases.append(G.case(next(cid), scr, list(st), fl, sv, cmds, 0, extra))
    for sv in SVS:
        # push size
        for n in (519, 520, 521, 522):
            add(G.push(bytes(n)), sv=sv)
            add(G.push(bytes(n)) + bytes([O("OP_DROP"), O("OP_1")]), sv=sv)
            add(bytes([O("OP_0"), O("OP_IF")]) + G.push(bytes(n)) + bytes([O("OP_ENDIF"), O("OP_1")]), sv=sv)   # unexecuted
        # ... the same when the script arrives as scriptPubKey (not screened by the command line's HasValidOps) or as a P2SH redeem script
        # handed over on the stack
        if sv == 0:
            import hashlib
            for n in (519, 520, 521, 522):
                for body in (G.push(bytes(n)) + bytes([O("OP_DROP"), O("OP_1")]), bytes([O("OP_0"), O("OP_IF")]) + G.push(bytes(n)) + bytes([O("OP_ENDIF"), O("OP_1")]),
                             bytes([O("OP_1"), O("OP_IF"), O("OP_1"), O("OP_ELSE")]) + G.push(bytes(n)) + bytes([O("OP_ENDIF")])):
                    add(bytes([O("OP_1")]), sv=sv, extra="succ=%s " % G.hexs(body))
                    h = hashlib.new("ripemd160", hashlib.sha256(body).digest()).digest()
                    add(bytes([O("OP_HASH160"), 20]) + h + bytes([O("OP_EQUAL")]), st=[body], fl=G.FLAG("P2SH"), sv=sv)
        # initial (witness) stack items are limited like pushes in segwit v0 and tapscript
        for n in (519, 520, 521, 522):
            add(bytes([O("OP_DROP"), O("OP_1")]), st=[bytes(n)], sv=sv)
            add(bytes([O("OP_2DROP"), O("OP_1")]), st=[bytes(n), b"\x01"], sv=sv)
        # stack size via initial stack + DUP chains / 3DUP / alt moves
        for total in (998, 999, 1000, 1001, 1002):
            add(bytes([O("OP_1")] * total), sv=sv)
            add(bytes([O("OP_DUP")] * (total - 1)), st=[b"\x01"], sv=sv) if sv == 3 else None
            st = [b"\x01"] * (total - 3)
            add(bytes([O("OP_3DUP")]), st=st, sv=sv)
            add(bytes([O("OP_TOALTSTACK")] * 5 + [O("OP_3DUP")]), st=st, sv=sv)
            add(bytes([O("OP_DUP"), O("OP_TOALTSTACK")] * 3), st=[b"\x01"] * (total - 3), sv=sv)
        # op count: NOPs, with and without uncounted pushes, in unexecuted branch
        for n in (199, 200, 201, 202, 203):
            add(bytes([O("OP_NOP")] * n), sv=sv)
            add(bytes([O("OP_1"), O("OP_DROP")] * n), sv=sv)
            add(bytes([O("OP_0"), O("OP_IF")] + [O("OP_NOP")] * (n - 2) + [O("OP_ENDIF")]), sv=sv)
            # carried across the scriptSig -> scriptPubKey switch: the count is reset
            add(bytes([O("OP_NOP")] * 150), sv=sv, extra="succ=%s " % G.hexs(bytes([O("OP_NOP")] * (n - 150) + [O("OP_1")])))
            add(bytes([O("OP_NOP")] * n), sv=sv, extra="succ=%s " % G.hexs(bytes([O("OP_NOP")] * n)))
            # ... and again on entering a P2SH redeem script (scriptSig pushes it; the scriptPubKey is the P2SH pattern; flag P2SH)
            if sv == 0:
                import hashlib
                redeem = bytes([O("OP_NOP")] * n + [O("OP_1")])
                h = hashlib.new("ripemd160", hashlib.sha256(redeem).digest()).digest()
                spk = bytes([O("OP_HASH160"), 20]) + h + bytes([O("OP_EQUAL")])
                add(G.push(redeem), sv=sv, fl=G.FLAG("P2SH"), extra="succ=%s " % G.hexs(spk))
        # ... the count is part of what rewind restores: stepping, rewinding and running on must not count an operation twice
        for n in (200, 201, 202):
            add(bytes([O("OP_NOP")] * n + [O("OP_1")]), sv=sv, cmds="s,r,c")
            add(bytes([O("OP_NOP")] * n + [O("OP_1")]), sv=sv, cmds=",".join(["s"] * 100 + ["r"] * 100 + ["c"]))
            add(bytes([O("OP_NOP")] * n + [O("OP_1")]), sv=sv, cmds=",".join(["s"] * 60 + ["r"] * 30 + ["s"] * 10 + ["r"] * 40 + ["c"]))
        # a limit error reported right after a step that threw: each failing step reports its own error
        for n in (199, 200, 201):
            scr = bytes([O("OP_NOP")] * n) + b"\x05\x00\x00\x00\x00\x01" + bytes([O("OP_1ADD"), O("OP_NOP"), O("OP_NOP"), O("OP_1")])
            add(scr, sv=sv, cmds=",".join(["s"] * (n + 6)))
        add(b"\x05\x00\x00\x00\x00\x80" + bytes([O("OP_1ADD"), O("OP_VERIFY")]), sv=sv, cmds="s,s,s,s")
        add(b"\x02\x01\x00" + bytes([O("OP_1ADD")]) + G.push(bytes(521)), sv=sv, fl=G.FLAG("MINIMALDATA"), cmds="s,s,s,s")
        # script size
        for n in (9999, 10000, 10001):
            add(bytes([O("OP_1")] + [O("OP_NOP")] * 0) + G.push(bytes(75)) * ((n - 1) // 76) + bytes([O("OP_1")] * ((n - 1) % 76)), sv=sv, cmds="s")
        # ... and for the scriptPubKey that follows a scriptSig
        if sv == 0:
            for n in (9999, 10000, 10001, 10002):
                spk = bytes([O("OP_1")]) + G.push(bytes(75)) * ((n - 1) // 76) + bytes([O("OP_1")] * ((n - 1) % 76))
                add(bytes([O("OP_1")]), sv=sv, extra="succ=%s " % G.hexs(spk))
                add(b"", sv=sv, extra="succ=%s " % G.hexs(spk))
        # multisig key counts and their op-count contribution
        if sv != 3:
            for nk in (19, 20, 21):
                st = [b""] + [b""] * 0 + [G.sn(0)] + [bytes([2]) + bytes(32)] * nk + [G.sn(nk)]
                add(bytes([O("OP_CHECKMULTISIG")]), st=st, fl=0, sv=sv)
            for nops in (179, 180, 181, 182):
                st = [b"", G.sn(0)] + [bytes([2]) + bytes(32)] * 20 + [G.sn(20)]
                add(bytes([O("OP_NOP")] * nops + [O("OP_CHECKMULTISIG")]), st=st, sv=sv)
        # numeric operand sizes
        for op in ("OP_1ADD", "OP_ADD", "OP_PICK", "OP_WITHIN", "OP_CHECKLOCKTIMEVERIFY", "OP_CHECKSEQUENCEVERIFY"):
            for v in (b"\xff\xff\xff\x7f", b"\x00\x00\x00\x80\x00", b"\xff\xff\xff\xff\x7f", b"\x00\x00\x00\x00\x80\x00", b"\x00\x00\x00\x80\x80"):
                add(bytes([O(op)]), st=[v, v, v], fl=G.FLAG("CHECKLOCKTIMEVERIFY") | G.FLAG("CHECKSEQUENCEVERIFY"), sv=sv, cmds="s")
    return {"boundaries": cases}

def main(tier):
    chk = Check("C10", tier)
    chk.prove(PROP_FILES)
    for name, cases in gen(chk).items():
        diffs = chk.compare(name, cases)
        for c, il, ml, sl, fl in diffs[:4]:
            chk.violation("limit-mismatch", "behaviour at a resource limit differs from the model whose guards are proved to be the consensus bounds",
                          {"stream": name, "case": c[:3000], "impl": [l[:600] for l in il[-2:]], "model_eq_spec": [l[:600] for l in ml[-2:]]})
    return chk.finish(RULE)
