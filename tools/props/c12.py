"""C12 - the script listing and position marker show exactly what executes next.
Proof: Properties/C12.v (ListingProofs.v): the listing is the exact decoding of the scripts in execution order; in every reachable session state the
marked line is the numbered rendering of the operation the next step fetches (or the header of the section the next step enters); nothing is marked at the end.
Tie: the real interactive btcdeb (rebuilt from the tree) driven through a pseudo-terminal - `print` after every `step` / `rewind` - versus the extracted
model's listing and marked line; the session state itself is compared through vh; and, on the implementation alone, the marked line is compared with the
operation found at the program counter of the state the harness reports."""
import itertools, re, concurrent.futures, os
from engine import Check
import gen_scripts as G
import gen_spend as S
import ptyrun, vlib
from props.c03 import hx, STD

PROP_FILES = ["Properties/C12.v"]
RULE = ("interactive sessions through a pty: plain scripts (grammar generated, with pushes of every encoding, conditionals, failing operations), legacy spends with "
        "scriptPubKey section (p2pk, p2pkh, multisig), P2SH spends (three sections), P2WPKH, P2WSH, wrapped segwit, taproot key path, tapscript with control "
        "paths of length 0, 1 and 2; command sequences of step / rewind (random walks, runs to the end and past it) with `print` after every command; compared: "
        "(also P2SH-shaped outputs with the P2SH flag removed); every listing line, the script column of the two-column view after each step / rewind (= the listing from the marker on), the marker position, the '#NNNN op' echo of step/rewind, against the model; marker vs the operation at the reported program counter. "
        "non-trivial = the session made at least one step; distinct = distinct (session, command sequence)")

def decode_at(scr, pc):
    """(opcode, pushdata or None) at pc, or None"""
    if pc >= len(scr): return None
    o = scr[pc]; i = pc + 1
    if o <= 0x4b: n = o
    elif o == 0x4c:
        if i + 1 > len(scr): return None
        n = scr[i]; i += 1
    elif o == 0x4d:
        if i + 2 > len(scr): return None
        n = int.from_bytes(scr[i:i + 2], "little"); i += 2
    elif o == 0x4e:
        if i + 4 > len(scr): return None
        n = int.from_bytes(scr[i:i + 4], "little"); i += 4
    else: return (o, None)
    if i + n > len(scr): return None
    return (o, scr[i:i + n])

def parse_dual(txt):
    """script column of the two-column view printed by step / rewind (None when there is no such view in the output)"""
    rows = txt.split("\n")
    for i, l in enumerate(rows):
        if re.fullmatch(r"-+\+-+\s*", l.strip("\r")):
            left = []
            for r in rows[i + 1:]:
                r = r.strip("\r")
                if "|" not in r: break
                left.append(r.split("|", 1)[0].rstrip())
            while left and left[-1] == "": left.pop()
            return left
    return None

def parse_print(txt):
    lines, marker = [], None
    for l in txt.split("\n"):
        if not l.strip(): continue
        if l.startswith(" -> "):
            marker = len(lines); lines.append(l[4:])
        elif l.startswith("    "): lines.append(l[4:])
        else: lines.append("?" + l)
    return lines, marker

def gen(chk):
    rng = chk.rng
    q = chk.tier == "quick"
    sessions = []
    def walk():
        n = rng.choice([3, 6, 10, 14])
        r = rng.random()
        if r < 0.35: return ["s"] * n
        if r < 0.5: return ["s"] * 40
        out = []
        for _ in range(n): out.append("s" if rng.random() < 0.7 else "r")
        return out
    for _ in range(60 if q else 1200):
        scr = G.rand_script(rng, rng.choice([1, 3, 6, 12]))
        st = G.rand_stack(rng, rng.choice([0, 1, 3]))
        sessions.append({"kind": "script", "argv": ["0x" + scr.hex()] + ["0x" + x.hex() for x in st],
                         "case": "script id=%%s scr=%s st=%s flags=%d sv=0 z=0 ls=1 cmds=%%s" % (G.hexs(scr), G.hexlist(st), STD), "walk": walk()})
    # pushes near the top of the legal size: the listing line of a 520-byte push has 1040 hex digits (F55)
    for nb in ((509, 520) if q else (507, 508, 509, 510, 515, 519, 520)):
        scr = G.push(bytes(rng.randrange(256) for _ in range(nb))) + bytes([0x75, 0x51])
        sessions.append({"kind": "script-bigpush", "argv": ["0x" + scr.hex()], "case": "script id=%%s scr=%s st=%s flags=%d sv=0 z=0 ls=1 cmds=%%s" % (G.hexs(scr), G.hexlist([]), STD), "walk": ["s"] * 4})
    # a pay-to-script-hash shaped script given directly, the redeem script being the LAST of several stack arguments (the top of the stack)
    import hashlib
    for _ in range(4 if q else 60):
        redeem = G.rand_script(rng, rng.choice([1, 2, 4]))
        h = hashlib.new("ripemd160", hashlib.sha256(redeem).digest()).digest()
        scr = bytes([0xa9, 20]) + h + b"\x87"
        st = [G.rand_script(rng, rng.choice([1, 2, 3])) for _ in range(rng.randrange(0, 3))] + [redeem]
        sessions.append({"kind": "script-p2sh", "argv": ["0x" + scr.hex()] + ["0x" + x.hex() for x in st],
                         "case": "script id=%%s scr=%s st=%s flags=%d sv=0 z=0 ls=1 cmds=%%s" % (G.hexs(scr), G.hexlist(st), STD), "walk": ["s"] * 8})
    kinds = ["p2pk", "p2pkh", "multisig", "p2sh", "p2sh-codesep", "p2wpkh", "p2sh-p2wpkh", "p2wsh", "p2sh-p2wsh", "p2wsh-codesep", "p2tr-key", "p2tr-script", "p2tr-csa", "p2tr-codesep",
             "p2tr-cs-unexec", "p2tr-weight"]
    for k in kinds:
        for _ in range(3 if q else 40):
            c = S.build(rng, k, ht=(1 if not k.startswith("p2tr") else 0), mutate=rng.choice([None, None, "wrongkey"]), annex=(b"\x50\x00" if k.startswith("p2tr") and rng.random() < 0.3 else None))
            fl = STD & ~S.F_CONST
            sessions.append({"kind": k, "argv": ["--tx=" + c["spend"], "--txin=" + c["fund"], "--modify-flags=-CONST_SCRIPTCODE"],
                             "case": "spend id=%%s tx=%s txin=%s flags=%d ls=1 cmds=%%s" % (hx(c["spend"]), hx(c["fund"]), fl), "walk": walk()})
    # tapscript spends whose commitment does NOT verify: the failing check is repeated by every further step and the marker stays on it
    for k in ("p2tr-script", "p2tr-path", "p2tr-csa"):
        for wn in ((0, 2) if q else (0, 1, 2, 3, 5)):
            c = S.build(rng, k, ht=0, mutate="control", wn=wn)
            sessions.append({"kind": k + "/badcommit", "argv": ["--tx=" + c["spend"], "--txin=" + c["fund"], "--modify-flags=-CONST_SCRIPTCODE"],
                             "case": "spend id=%%s tx=%s txin=%s flags=%d ls=1 cmds=%%s" % (hx(c["spend"]), hx(c["fund"]), STD & ~S.F_CONST), "walk": ["s"] * 10})
    # an EMPTY tapscript leaf: the commitment lines are still stepped through (F54)
    for wn in ((0, 2) if q else (0, 1, 2, 3)):
        for mut in (None, "control"):
            c = S.build(rng, "p2tr-empty", ht=0, mutate=mut, wn=wn)
            sessions.append({"kind": "p2tr-empty", "argv": ["--tx=" + c["spend"], "--txin=" + c["fund"], "--modify-flags=-CONST_SCRIPTCODE"],
                             "case": "spend id=%%s tx=%s txin=%s flags=%d ls=1 cmds=%%s" % (hx(c["spend"]), hx(c["fund"]), STD & ~S.F_CONST), "walk": ["s"] * 6})
    # pay-to-script-hash shaped outputs with the P2SH flag removed: the redeem script is neither executed nor listed
    for k in ("p2sh", "p2sh-codesep", "p2sh", "p2pkh"):
        for _ in range(2 if q else 20):
            c = S.build(rng, k, ht=1, mutate=rng.choice([None, None, "wrongkey"]))
            fl = STD & ~S.F_CONST & ~1
            sessions.append({"kind": k + "/-P2SH", "argv": ["--tx=" + c["spend"], "--txin=" + c["fund"], "--modify-flags=-CONST_SCRIPTCODE,-P2SH"],
                             "case": "spend id=%%s tx=%s txin=%s flags=%d ls=1 cmds=%%s" % (hx(c["spend"]), hx(c["fund"]), fl), "walk": ["s"] * 14})
    return sessions

def main(tier):
    chk = Check("C12", tier)
    chk.prove(PROP_FILES)
    sessions = gen(chk)
    bdir = vlib.build("plain")
    binary = os.path.join(bdir, "btcdeb")
    names = {"s": "step", "r": "rewind"}
    def drive(s):
        cmds = ["print"]
        for w in s["walk"]:
            cmds += [names[w], "print"]
        return ptyrun.repl(binary, s["argv"], cmds, timeout=8.0)
    with concurrent.futures.ThreadPoolExecutor(vlib.NCPU) as ex:
        ptyres = list(ex.map(drive, sessions))
    cases = []
    for n, s in enumerate(sessions):
        s["id"] = "l%d" % n
        cases.append(s["case"] % (s["id"], ",".join(s["walk"])))
    byid = {}
    def inspect(c, il, ml):
        byid[re.search(r"\bid=(\S+)", c).group(1)] = (il, ml)
    diffs = chk.compare("sessions", cases, nontrivial=lambda c, il: len(il) > 3, inspect=inspect,
                        )
    # the harness does not print L / M lines: drop them from the model side before diffing states
    real = []
    for c, il, ml, sl, fl in diffs:
        ml2 = [l for l in ml if not re.match(r"R \S+ (L |M#)", l)]
        if il != ml2: real.append((c, il, ml2))
    for c, il, ml in real[:3]:
        chk.violation("state-mismatch", "session state differs from the model", {"case": c[:3000], "impl": [l[:800] for l in il], "model": [l[:800] for l in ml]})
    st = chk.streams["sessions"]; st["diffs"] = len(real)
    dist = {}
    bad = 0
    ndual = [0]
    for s, (banner, outs, status) in zip(sessions, ptyres):
        il, ml = byid.get(s["id"], ([], []))
        key = s["kind"] if s["kind"] != "script" else "script"
        dist[key] = dist.get(key, 0) + 1
        L = [l for l in ml if re.match(r"R \S+ L ", l)]
        if not L:
            # no session in the model (refused): the binary must not have started one either
            if outs and outs[0][1] is not None and " -> " in (outs[0][1] or ""):
                bad += 1
                if bad <= 3: chk.violation("listing-mismatch", "the binary runs a session the model refuses", {"argv": s["argv"], "model": ml[:3]})
            continue
        listing = [bytes.fromhex(x).decode("latin1") if x != "-" else "" for x in L[0].split(" ", 3)[3].split(",")] if len(L[0].split(" ", 3)) > 3 else []
        marks = {int(re.match(r"R \S+ M#(\d+) (\S+)", l).group(1)): re.match(r"R \S+ M#(\d+) (\S+)", l).group(2) for l in ml if re.match(r"R \S+ M#", l)}
        states = {int(m.group(1)): l for l in il for m in [re.match(r"R \S+ #(\d+) ", l)] if m}
        k = 0            # index of the model command (0 = initial state)
        problems = []
        failed = False   # a step has failed: program counter and marker may disagree from here on (known finding F37)
        f37 = False
        last_mark = marks.get(0)
        dual = None      # script column of the two-column view printed by the last step / rewind
        for (cmd, out) in outs:
            if out is None:
                problems.append("the session died before '%s'" % cmd); break
            if cmd == "print":
                lines, marker = parse_print(out)
                # implementation alone: the two-column view shows the same pending operations as the listing from the marker on
                # (long items are abbreviated there with "..."; taproot sessions print their commitment phase differently: not compared)
                if dual is not None and not failed and not s["kind"].startswith("p2tr") and not any(l.startswith("?") for l in lines):
                    ndual[0] += 1
                    pend = [re.sub(r"^#\d{4} ", "", l) for l in (lines[marker:] if marker is not None else [])]
                    same = len(pend) == len(dual) and all(a == b or (b.endswith("...") and a.startswith(b[:-3])) for a, b in zip(pend, dual))
                    if not same:
                        problems.append("after command %d the two-column view lists %r as pending but the listing from the marker on is %r" % (k, dual[:12], pend[:12]))
                dual = None
                if lines != listing:
                    problems.append("listing differs after command %d: binary %r model %r" % (k, lines[:40], listing[:40]))
                want = marks.get(k, last_mark)
                wtxt = None if want in (None, "none") else (bytes.fromhex(want).decode("latin1") if want != "-" else "")
                got = lines[marker] if marker is not None else None
                if got != wtxt:
                    problems.append("marker differs after command %d: binary marks %r, model %r" % (k, got, wtxt))
                # implementation alone: the marked line must describe the operation at the program counter the harness reports
                stl = states.get(k)
                if stl and " ret=0 " in stl: failed = True
                before = len(problems)
                if stl and got is not None and " tce=-" in stl:
                    m = re.search(r" pc=(\d+) .* done=(\d) .* scr=(\S+) ", stl)
                    if m and m.group(2) == "0":
                        scr = bytes.fromhex(m.group(3)) if m.group(3) != "-" else b""
                        op = decode_at(scr, int(m.group(1)))
                        if op is not None and op[1]:
                            if not re.fullmatch(r"#\d{4} " + op[1].hex(), got):
                                problems.append("after command %d the next step fetches a push of %s but the marked line is %r" % (k, op[1].hex(), got))
                        elif op is not None and op[1] is None and re.fullmatch(r"#\d{4} ([0-9a-f]{2})+", got) and not re.fullmatch(r"#\d{4} \d+", got):
                            problems.append("after command %d the next step fetches opcode %#x but the marked line is a push: %r" % (k, op[0], got))
                if stl and " done=1 " in stl and marker is not None:
                    problems.append("after the last operation line %r is still marked as pending" % got)
                if failed and len(problems) > before:
                    del problems[before:]; f37 = True
            else:
                k += 1
                dual = parse_dual(out)
                if k in marks: last_mark = marks[k]
                # echo of the new position
                stl = states.get(k)
                if stl and " ret=1 " in stl and out.strip():
                    echo = out.strip().split("\n")[-1]
                    want = marks.get(k)
                    if want not in (None, "none"):
                        wtxt = bytes.fromhex(want).decode("latin1") if want != "-" else ""
                        if echo.strip() != wtxt.strip():
                            problems.append("echo after %s #%d is %r, model %r" % (cmd, k, echo, wtxt))
        chk.evaluations += 1
        if f37: chk.note_known("F37", s["case"] % (s["id"], ",".join(s["walk"])), "pty-listing")
        if problems:
            bad += 1
            if bad <= 4:
                chk.violation("listing-mismatch", problems[0], {"argv": s["argv"], "walk": s["walk"], "problems": problems[:6], "case": (s["case"] % (s["id"], ",".join(s["walk"])))[:3000],
                                                              "replay_cmd": "btcdeb " + " ".join(s["argv"])[:3000]})
    chk.streams["pty-listing"] = {"cases": len(sessions), "diffs": bad, "known": 0}
    chk.extra["input_distribution"] = dist
    chk.extra["two_column_views_compared"] = ndual[0]
    return chk.finish(RULE, trusted_extra=["tools/ptyrun.py: pseudo-terminal driver and the parser of `print` output"])
