"""C04 - rewind exactly undoes steps. Proof: Properties/C04.v (rewind o step = identity on the complete session state).
Tie: command histories over {step, rewind} through Instance::step / Instance::rewind (vh) vs the extracted Session model,
full state compared after every command; plus the implementation-only relation 'history run == fresh run advanced by the
net number of steps'."""
import itertools, re
from engine import Check, run_impl
import gen_scripts as G

PROP_FILES = ["Properties/C04.v"]
RULE = ("histories over {s,r}: the complete history tree up to depth 7 (quick; 9 thorough) for scripts whose every op changes a different "
        "state component (IF/NOTIF/ELSE/ENDIF nesting, alt stack, OP_CODESEPARATOR, tapscript signature budget, counted ops, two-script "
        "sessions), and random walks of length <= 120 (400 thorough) over grammar-generated scripts. non-trivial = the history contains an "
        "accepted rewind at a point where condition stack, alt stack, code-separator position or weight differ from their initial values")

def components_scripts():
    O = G.OP
    key33 = bytes([2]) + bytes(32)
    scripts = [
        # (script, stack, flags, sv, extra)
        (bytes([O("OP_1"), O("OP_2")]), [], 0, 0, ""),
        (bytes([O("OP_1"), O("OP_IF"), O("OP_ENDIF")]), [], 0, 3, ""),
        (bytes([O("OP_1"), O("OP_IF"), O("OP_2"), O("OP_ELSE"), O("OP_3"), O("OP_ENDIF"), O("OP_4")]), [], 0, 0, ""),
        (bytes([O("OP_0"), O("OP_NOTIF"), O("OP_1"), O("OP_IF"), O("OP_5"), O("OP_TOALTSTACK"), O("OP_ENDIF"), O("OP_ENDIF"), O("OP_FROMALTSTACK")]), [], 0, 1, ""),
        (bytes([O("OP_1"), O("OP_CODESEPARATOR"), O("OP_2"), O("OP_CODESEPARATOR"), O("OP_ADD"), O("OP_DUP"), O("OP_TOALTSTACK")]), [], 0, 0, ""),
        (bytes([O("OP_1"), O("OP_CODESEPARATOR"), O("OP_DROP")]) + G.push(b"\x01") + G.push(key33) + bytes([O("OP_CHECKSIG"), O("OP_CODESEPARATOR"), O("OP_NOT")]), [], 0, 3, "wl=120 "),
        (bytes([O("OP_NOP")] * 3 + [O("OP_1"), O("OP_IF"), O("OP_NOP"), O("OP_ENDIF")]), [b"\x07"], 0, 0, "succ=%s " % G.hexs(bytes([O("OP_DUP"), O("OP_DROP"), O("OP_1")]))),
        (G.push(b"\x51\x52\x93") , [], G.FLAG("P2SH"), 0, "succ=%s " % G.hexs(bytes([0xa9, 20]) + bytes(20) + bytes([0x87]))),
    ]
    return scripts

def gen(chk):
    rng = chk.rng
    cid = itertools.count(1)
    S = {}
    depth = 7 if chk.tier == "quick" else 9
    tree = []
    for scr, st, fl, sv, extra in components_scripts():
        for d in range(1, depth + 1):
            for cmds in itertools.product("sr", repeat=d):
                # prune: histories starting with r are only tried at depth <= 2
                if cmds[0] == "r" and d > 2:
                    continue
                tree.append(G.case(next(cid), scr, st, fl, sv, ",".join(cmds), 0, extra))
    S["tree"] = tree
    walks = []
    n = 400 if chk.tier == "quick" else 6000
    maxlen = 120 if chk.tier == "quick" else 400
    for _ in range(n):
        scr = G.rand_script(rng, rng.choice([6, 10, 20, 40]))
        st = G.rand_stack(rng, 3)
        L = rng.randrange(4, maxlen)
        p = rng.choice([0.2, 0.35, 0.5])
        cmds = ["r" if rng.random() < p else "s" for _ in range(L)]
        sv = rng.choice((0, 1, 3))
        walks.append(G.case(next(cid), scr, st, G.rand_flags(rng) & ~G.FLAG("DISCOURAGE_UPGRADABLE_NOPS"), sv, ",".join(cmds)))
    S["walks"] = walks
    return S

OBS = re.compile(r" (st|alt|cond|pc|cb|ops|pos|seq|done|cs|wl|scr|p2sh|succ|tce)=(\S*)")
def obs(line):
    return tuple(OBS.findall(line))

def net_relation(chk, cases, impl):
    """impl-only oracle: final state of a history with no failing step == fresh session advanced by the net steps"""
    fresh = []
    want = {}
    for c in cases:
        cid = re.search(r"\bid=(\S+)", c).group(1)
        lines = impl.get(cid, [])
        if not lines or any((" ret=0 " in l) or ("CRASH" in l) for l in lines):
            continue
        # replay the accepted commands on a counter
        k = 0
        for l in lines[1:]:
            m = re.match(r"R \S+ #(\d+) (\S+)", l)
            if not m:
                continue
        cmds = re.search(r"cmds=(\S+)", c).group(1).split(",")
        k = 0
        ok = True
        for cmd, l in zip(cmds, lines[1:]):
            if "atend" in l or "atstart" in l:
                continue
            k += 1 if cmd == "s" else -1
        if k < 0:
            continue
        nid = "n" + cid
        fresh.append(re.sub(r"\bid=\S+", "id=" + nid, re.sub(r"cmds=\S*", "cmds=" + ",".join(["s"] * k), c)))
        statelines = [l for l in lines if ' seq=' in l]
        want[nid] = (c, statelines[-1])
    if not fresh:
        return 0
    res = run_impl(fresh)
    bad = 0
    for nid, (c, last) in want.items():
        fl = [l for l in res.get(nid, [""]) if ' seq=' in l or l == ""][-1]
        if obs(fl) != obs(last):
            bad += 1
            if bad <= 3:
                chk.violation("rewind-net-steps", "state after the history differs from a fresh session advanced by the net number of steps",
                              {"stream": "net", "case": c, "history_final": last, "fresh_final": fl})
    chk.streams.setdefault("net-relation(impl only)", {"cases": 0, "diffs": 0, "known": 0})
    chk.streams["net-relation(impl only)"]["cases"] += len(fresh)
    chk.streams["net-relation(impl only)"]["diffs"] += bad
    return bad

def nontrivial(c, il):
    # an accepted rewind at a point where some per-step component is live
    for i, l in enumerate(il[1:], 1):
        if " ret=1 " in l and i < len(il) and re.search(r"cmds=(\S+)", c).group(1).split(",")[i - 1] == "r":
            prev = il[i - 1]
            if " cond=0:" not in prev or " alt= " not in prev or " cs=4294967295" not in prev or (" wl=-1" not in prev and " wl=1000" not in prev):
                return True
    return False

def main(tier):
    chk = Check("C04", tier)
    chk.prove(PROP_FILES)
    for name, cases in gen(chk).items():
        for i in range(0, len(cases), 100000):
            part = cases[i:i + 100000]
            diffs = chk.compare(name, part, nontrivial=nontrivial)
            for c, il, ml, sl, fl in diffs[:3]:
                k = next((j for j, (a, b) in enumerate(zip(il, ml)) if a != b), min(len(il), len(ml)))
                chk.violation("rewind-mismatch", "session state after command #%d differs from the model (in which rewind o step = identity is proved)" % k,
                              {"stream": name, "case": c, "impl": il[max(0, k - 1):k + 1], "model": ml[max(0, k - 1):k + 1]})
            net_relation(chk, part, run_impl(part))
    return chk.finish(RULE)
