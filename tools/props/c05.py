"""C05 - the stepwise taproot commitment check equals the BIP341 rule. Proof: Properties/C05.v (TceProofs.v).
Tie: TaprootCommitmentEnv::Iterate stepped to the end (vh) vs the extracted Session.tce_iterate, on commitments built by an
independent BIP341 implementation (python: tagged hashes via hashlib, curve arithmetic in tools/refcrypto.py) and every
single-field corruption of them; the tweak check inside the model is answered by that reference (oracle)."""
import itertools, hashlib, re
from engine import Check
import refcrypto as R

PROP_FILES = ["Properties/C05.v"]
RULE = ("(control block, script, program) triples: path lengths 0..8, 16, 32, 64, 127, 128; both parity bits; leaf-version bytes incl. all of "
        "c0..ff step 2 and 00..3e; path nodes below / above / EQUAL to the running hash; internal keys on and off the curve; for each valid "
        "commitment every single-field corruption (one byte of control base, of a node, of the program, of the script; parity flipped; node "
        "swapped; truncated / extended control). Whole --tx/--txin sessions on signed tapscript spends with 0/1/2/127/128/129-node paths, valid and "
        "corrupted, with and without an annex (2, 33, 65 bytes) as last witness item, and control blocks of illegal sizes. non-trivial = path length >= 1 or a corruption; distinct = distinct triples")

def th(t): return hashlib.sha256(t.encode()).digest()
def tagged(tag, m): return hashlib.sha256(th(tag) + th(tag) + m).digest()
def cs(n): return bytes([n]) if n < 253 else b"\xfd" + n.to_bytes(2, "little")

def gen(chk):
    rng = chk.rng
    cid = itertools.count(1)
    cases = []
    def add(control, program, script):
        cases.append("tapcommit id=%d control=%s program=%s script=%s" % (next(cid), control.hex(), program.hex(), script.hex() or "-"))
    rb = lambda n: bytes(rng.randrange(256) for _ in range(n))
    lens = list(range(0, 9)) + [16, 32, 64, 127, 128]
    nvalid = 0
    reps = 2 if chk.tier == "quick" else 12
    for m in lens:
        for rep in range(reps if m <= 8 else (1 if chk.tier == "quick" else 3)):
            sk = rng.randrange(1, R.N)
            p = R.pubkey_xonly(sk)[0]
            script = rb(rng.choice([0, 1, 5, 34, 80, 300]))
            lv = rng.choice([0xc0, 0xc0, 0xc2, 0xfe, 0x00, 0x50, 0x3e, rng.randrange(0, 256) & 0xfe])
            k = tagged("TapLeaf", bytes([lv]) + cs(len(script)) + script)
            nodes = []
            for j in range(m):
                mode = rng.random()
                if mode < 0.1:
                    node = k                                   # equal to the running hash
                elif mode < 0.3:
                    # shares a prefix of any length with the running hash and differs right after it, in either direction
                    n = rng.choice([1, 2, 8, 15, 16, 17, 24, 31])
                    d = k[n] + rng.choice([-1, 1]) if 0 < k[n] < 255 else (1 if k[n] == 0 else 254)
                    node = k[:n] + bytes([d]) + rb(31 - n)
                elif mode < 0.55:
                    node = bytes([rng.randrange(0, k[0] + 1)]) + rb(31) if k[0] else rb(32)
                else:
                    node = rb(32)
                nodes.append(node)
                a, b = (k, node) if k < node else (node, k)
                k = tagged("TapBranch", a + b)
            tw = R.xonly_tweak_add(p, tagged("TapTweak", p + k))
            if tw is None:
                continue
            q, par = tw
            control = bytes([lv | par]) + p + b"".join(nodes)
            add(control, q, script); nvalid += 1
            if m > 32 and chk.tier == "quick":
                c = bytearray(control); c[33 + 32 * (m - 1)] ^= 1; add(bytes(c), q, script)
                continue
            # corruptions
            add(bytes([control[0] ^ 1]) + control[1:], q, script)
            add(bytes([control[0] ^ 2]) + control[1:], q, script)
            for pos in (1, 17, 32):
                c = bytearray(control); c[pos] ^= 0x40; add(bytes(c), q, script)
            if m:
                j = rng.randrange(m); c = bytearray(control); c[33 + 32 * j + rng.randrange(32)] ^= 1; add(bytes(c), q, script)
                add(control[:-32], q, script)
                if m >= 2:
                    c = control[:33] + control[65:97] + control[33:65] + control[97:]
                    add(c, q, script)
            add(control + rb(32), q, script)
            qq = bytearray(q); qq[rng.randrange(32)] ^= 0x10; add(control, bytes(qq), script)
            add(control, q, script + b"\x51"); add(control, q, script[:-1] if script else b"\x00")
            add(control + b"\x00" * 5, q, script)            # size not 33+32m (the constructor still runs)
    # internal key off the curve / zero
    for p in (bytes(32), b"\xff" * 32, (R.P - 1).to_bytes(32, "big"), (5).to_bytes(32, "big")):
        add(bytes([0xc0]) + p, bytes(rng.randrange(256) for _ in range(32)), b"\x51")
    chk.extra["valid_commitments"] = nvalid
    # whole sessions (--tx/--txin) on tapscript spends with control paths at the size bounds: 0, 1, 127, 128 nodes (legal) and 129 (refused)
    import gen_spend as S
    sess = []
    for wn in (0, 1, 2, 127, 128):
        for mut in (None, "control"):
            c = S.build(rng, "p2tr-path", wn=wn, ht=0, mutate=mut)
            sess.append("spend id=t%d_%s tx=%s txin=%s flags=%d cmds=c" % (wn, mut, c["spend"].encode().hex(), c["fund"].encode().hex(), 0x1FFFDF))
            if wn == 128 and mut is None:
                # one more node than allowed: append 32 bytes to the control block of the witness
                raw = bytes.fromhex(c["spend"]); 
                sess.append(("spend id=t129 tx=%s txin=%s flags=%d cmds=c" % (over_long(raw).hex().encode().hex(), c["fund"].encode().hex(), 0x1FFFDF)))
    # the same with an annex as last witness item (BIP341 drops it before the control block and the script are taken): a short one, one that
    # has the size of a control block (33 bytes) and one of 65 bytes
    for wn in (0, 1, 2, 127):
        for k, annex in enumerate((b"\x50\x01", b"\x50" + bytes(rng.randrange(256) for _ in range(32)), b"\x50" + bytes(rng.randrange(256) for _ in range(64)))):
            for mut in (None, "control"):
                c = S.build(rng, "p2tr-path", wn=wn, ht=0, mutate=mut, annex=annex)
                sess.append("spend id=t%d_%sannex%d tx=%s txin=%s flags=%d cmds=c" % (wn, mut, k, c["spend"].encode().hex(), c["fund"].encode().hex(), 0x1FFFDF))
    # an EMPTY leaf script (nothing to execute: the commitment check is all there is - F54) under paths of length 0, 1, 2, 5
    for wn in (0, 1, 2, 5):
        for mut in (None, "control"):
            c = S.build(rng, "p2tr-empty", wn=wn, ht=0, mutate=mut)
            sess.append("spend id=t%d_%sannex9 tx=%s txin=%s flags=%d cmds=c" % (wn, mut, c["spend"].encode().hex(), c["fund"].encode().hex(), 0x1FFFDF))
    # control blocks of illegal sizes (refused before any hashing): 0, 1, 2, 32, 34, 64, 66 bytes
    for n in (0, 1, 2, 32, 34, 64, 66):
        c = S.build(rng, "p2tr-path", wn=1, ht=0, mutate="ctlsize:%d" % n)
        sess.append("spend id=t999_size%d tx=%s txin=%s flags=%d cmds=c" % (n, c["spend"].encode().hex(), c["fund"].encode().hex(), 0x1FFFDF))
    return {"commitments": cases, "sessions": sess}

def over_long(raw):
    """the same transaction with a 129-node control block (last witness item extended by 32 bytes; its compact size is 3 bytes: fd xx xx)"""
    i = raw.rfind(b"\xfd\x21\x10")          # 0x1021 = 4129 = 33 + 32*128
    if i < 0: return raw
    n = 4129 + 32
    end = i + 3 + 4129
    return raw[:i] + b"\xfd" + n.to_bytes(2, "little") + raw[i + 3:end] + bytes(32) + raw[end:]

def main(tier):
    chk = Check("C05", tier)
    chk.prove(PROP_FILES)
    wrong = []
    def inspect(c, il, ml):
        m = re.search(r"\bid=t(\d+)(?:_(None|control|size\d+)(?:annex\d)?)? ", c)
        if not m: return
        last = [l for l in il if re.match(r"R \S+ #\d+ ", l)]
        ok = bool(last) and " done=1 " in last[-1] and " err=0 " in last[-1] and " st=01 " in last[-1]
        want = int(m.group(1)) <= 128 and m.group(2) == "None"
        if ok != want:
            wrong.append((c, il, "a tapscript spend with a %s-node control path (%s) ends %s" % (m.group(1), "valid commitment" if want else "invalid commitment / oversized control block", "successfully" if ok else "with an error / is refused")))
    for name, cases in gen(chk).items():
        diffs = chk.compare(name, cases, nontrivial=lambda c, il: "control=" not in c or len(c.split("control=")[1].split()[0]) > 66 or "failed" in il[0], inspect=inspect)
        for c, il, ml, sl, fl in diffs[:4]:
            chk.violation("commitment-mismatch", "stepwise commitment check differs from the model (proved equal to the BIP341 rule)",
                          {"stream": name, "case": c, "impl": il, "model_eq_spec": ml})
    for c, il, why in wrong[:3]:
        chk.violation("commitment-validity", why, {"stream": "sessions", "case": c[:12000], "impl": [l[:600] for l in il[-3:]]})
    return chk.finish(RULE, trusted_extra=["tools/refcrypto.py answers the model's tweak-check oracle (CheckTapTweak) and builds the valid commitments"])
