"""C14 - value transforms compute their defined functions and invert each other. Proof: Properties/C14.v
(CodecsTheorems.v round trips / checksum detection, Hashes.v, TransformProofs.v). Tie: the real fn_tf (command form,
stdout captured) and the Value constructor (inline form) through vh vs the extracted Transforms model, plus the
opcode form through script sessions."""
import itertools, hashlib
from engine import Check
import gen_scripts as G

PROP_FILES = ["Properties/C14.v"]
RULE = ("every modelled transform of the generated tf table x {command form `tf name args`, inline form name(arg)} x arguments: hex strings of "
        "lengths 0,1,2,31,32,33,55,56,63,64,65,119,120,252,253,300,1000 (+65535/65536 thorough; prefix-compact-size / len also at 254..256, 32767/32768, 65534..65537 in every tier), integers, strings, opcodes; base58check and "
        "bech32/bech32m strings produced by an independent python encoder and every single-character substitution of a sample; add/sub with and "
        "without a group incl. wrap-around values; Jacobi symbols of random 256-bit n for k = secp256k1 p and small odd k; "
        "P2PKH addresses <-> scriptPubKeys; hash opcodes OP_SHA256/RIPEMD160/HASH160/HASH256/SHA1 on the same data (opcode form). "
        "non-trivial = argument list not empty; distinct = distinct case lines. EC transforms (verify-sig, *-pubkey*) are not exercised here.")

def th(t):
    return t.encode("latin1").hex() if t else "-"

B58 = "123456789ABCDEFGHJKLMNPQRSTUVWXYZabcdefghijkmnopqrstuvwxyz"
def b58(b):
    n = int.from_bytes(b, "big"); s = ""
    while n: n, r = divmod(n, 58); s = B58[r] + s
    return "1" * (len(b) - len(b.lstrip(b"\0"))) + s
def b58chk(b):
    return b58(b + hashlib.sha256(hashlib.sha256(b).digest()).digest()[:4])
CH = "qpzry9x8gf2tvdw0s3jn54khce6mua7l"
def polymod(v):
    G_ = [0x3b6a57b2, 0x26508e6d, 0x1ea119fa, 0x3d4233dd, 0x2a1462b3]; c = 1
    for x in v:
        b = c >> 25; c = (c & 0x1ffffff) << 5 ^ x
        for i in range(5): c ^= G_[i] if (b >> i) & 1 else 0
    return c
def bech32(hrp, data, m):
    v = [ord(x) >> 5 for x in hrp] + [0] + [ord(x) & 31 for x in hrp] + data
    pm = polymod(v + [0] * 6) ^ (0x2bc830a3 if m else 1)
    return hrp + "1" + "".join(CH[d] for d in data + [(pm >> 5 * (5 - i)) & 31 for i in range(6)])
def to5(b):
    acc = 0; bits = 0; out = []
    for x in b:
        acc = (acc << 8) | x; bits += 8
        while bits >= 5: bits -= 5; out.append((acc >> bits) & 31)
    if bits: out.append((acc << (5 - bits)) & 31)
    return out

def gen(chk):
    rng = chk.rng
    cid = itertools.count(1)
    info = G.info()["Gen/TfTable.v"]
    tfnames = [n for n, w in info["tf"]]
    inl = dict(info["inline"])
    cases = []
    def tf(name, args):
        cases.append("tf id=%d name=%s args=%s" % (next(cid), th(name), ",".join(th(a) for a in args)))
    def il(expr):
        cases.append("inl id=%d expr=%s" % (next(cid), th(expr)))
    rb = lambda n: bytes(rng.randrange(256) for _ in range(n))
    lens = [0, 1, 2, 31, 32, 33, 55, 56, 63, 64, 65, 119, 120, 252, 253, 300, 1000] + ([65535, 65536] if chk.tier == "thorough" else [])
    hexargs = ["0x" + rb(n).hex() for n in lens] + ["0x00", "0x80", "0x0100", "0xff", "0x"]
    misc = ["0", "1", "17", "-1", "-3", "123", "1000", "-1200", "9223372036854775807", "abc", "hello world".replace(" ", "_"), "OP_DUP", "OP_1", "TRUE", "zz"]
    simple = {"sha256": "sha256", "ripemd160": "ripemd160", "hash256": "hash256", "hash160": "hash160", "reverse": "reverse", "hex": "hex", "int": "int",
              "echo": "echo", "len": None, "prefix-compact-size": "prefix_compact_size", "base58chk-encode": "base58chkenc", "bech32-encode": "bech32enc",
              "bech32m-encode": None}
    for name, iname in simple.items():
        for a in hexargs + misc:
            if name in ("base58chk-encode",) and len(a) > 500: continue
            tf(name, [a])
            if iname:
                il("%s(%s)" % (iname, a))
        if name in ("prefix-compact-size", "len"):
            # the size classes of the compact-size prefix: 252/253, 2^15, 2^16 boundaries in every tier
            for n in (254, 255, 256, 32767, 32768, 65534, 65535, 65536, 65537):
                a = "0x" + rb(n).hex()
                tf(name, [a])
                if iname: il("%s(%s)" % (iname, a))
        tf(name, ["0x1234", "0x5678"]); tf(name, ["OP_DUP", "5", "0xabcdef0102"])
    # base58check / bech32 decoding incl. corruptions
    for _ in range(60 if chk.tier == "quick" else 600):
        payload = bytes([rng.choice([0, 5, 111, 196])]) + rb(rng.choice([20, 20, 20, 1, 32, 33, 0]))
        s = b58chk(payload)
        tf("base58chk-decode", [s]); il("base58chkdec(%s)" % s)
        tf("addr-to-scriptpubkey", [s]); il("addr_to_spk(%s)" % s)
        for _ in range(3):
            p = rng.randrange(len(s)); c = rng.choice(B58 + "0OIl ")
            t = s[:p] + c + s[p + 1:]
            if " " in t: continue
            tf("base58chk-decode", [t])
    for _ in range(60 if chk.tier == "quick" else 600):
        prog = rb(rng.choice([20, 32, 32, 2, 40, 1, 33]))
        for m in (False, True):
            # (the separator is the LAST '1' of the string: prefixes that contain a '1' themselves)
            s = bech32(rng.choice(["bcrt", "bc", "tb", "a", "b1c", "1", "test1net", "x11"]), [rng.choice([0, 1, 1, 2, 16])] + to5(prog), m)
            tf("bech32-decode", [s]); il("bech32dec(%s)" % s)
            for _ in range(3):
                p = rng.randrange(len(s)); c = rng.choice(CH + "1bio")
                tf("bech32-decode", [s[:p] + c + s[p + 1:]])
            if rng.random() < 0.2:
                tf("bech32-decode", [s.upper()]); tf("bech32-decode", [s[:5] + s[5:].upper()])
    for h in [rb(20) for _ in range(20)]:
        spk = bytes([0x76, 0xa9, 0x14]) + h + bytes([0x88, 0xac])
        tf("scriptpubkey-to-addr", ["0x" + spk.hex()]); il("spk_to_addr(0x%s)" % spk.hex())
        tf("scriptpubkey-to-addr", ["0x" + spk[:-1].hex()]); tf("scriptpubkey-to-addr", ["0x" + bytes([0x77]).hex() + spk[1:].hex()])
        # ... the template followed by more bytes is not a P2PKH scriptPubKey
        for tail in (b"\x61", b"\x75\x51", bytes(8)):
            tf("scriptpubkey-to-addr", ["0x" + (spk + tail).hex()]); il("spk_to_addr(0x%s)" % (spk + tail).hex())
    # add / sub
    def num(v, n=None):
        n = n or max(2, (v.bit_length() + 7) // 8)
        return "0x" + v.to_bytes(n, "little").hex()
    vals = [5, 3, 255, 256, 65535, 2**64 - 1, 2**255, 2**256 - 1, 2**256 - 5, 12345678901234567890]
    groups = [7, 256, 65537, 2**255 - 19, 2**256 - 2**32 - 977, 2**256 - 1]
    for a in vals:
        for b in vals:
            tf("add", [num(a), num(b)]); tf("sub", [num(a), num(b)])
            for g in groups:
                if a < g and b < g:
                    tf("add", [num(a), num(b), num(g)]); tf("sub", [num(a), num(b), num(g)])
    il("add([%s %s %s])" % (num(300), num(400), num(500))); il("sub([%s %s %s])" % (num(300), num(400), num(500)))
    tf("add", ["5", "3"]); tf("add", ["0x0500"]); tf("sub", ["0x0500", "0x0300", "0x0700", "0x01"])
    # jacobi
    P = 2**256 - 2**32 - 977
    for _ in range(40 if chk.tier == "quick" else 400):
        n = rng.getrandbits(256)
        tf("jacobi-symbol", [num(n, 32)]); il("jacobi(%s)" % num(n, 32))
        k = rng.choice([3, 5, 7, 9, 15, 21, 2**255 - 19, P, rng.getrandbits(255) * 2 + 1])
        tf("jacobi-symbol", [num(n, 32), num(k, 32)])
    tf("jacobi-symbol", [num(5, 32), num(0, 32)]); tf("jacobi-symbol", [num(5, 2)]); tf("jacobi-symbol", [num(0, 32)]); tf("jacobi-symbol", [num(6, 32), num(4, 32)])
    # tagged hash
    for tag in ("TapLeaf", "TapBranch", "BIP0340/challenge", "x"):
        for n in (1, 32, 64, 65):
            tf("tagged-hash", [tag, "0x" + rb(n).hex()]); tf("tagged-hash", [tag, "0x" + rb(n).hex(), "0x" + rb(3).hex()])
    il("tagged_hash([TapLeaf 0x%s])" % rb(40).hex())
    tf("tagged-hash", ["TapLeaf"]); tf("nosuchfunction", ["0x00"]); il("sha256(sha256(0x00))"); il("hex(17)"); il("int(0x0000000001)")
    il("reverse(OP_DUP)")
    # state carried from one call to the next inside ONE process (static scratch buffers, hash objects): a long argument, then a short one, then
    # a long one again - as one bracketed expression, so that sharding cannot separate the calls
    for fn in ("sha256", "ripemd160", "hash160", "hash256", "reverse", "hex", "prefix_compact_size"):
        for a, b in ((100, 3), (64, 1), (65, 64), (128, 0)):
            il("[%s(0x%s) %s(0x%s) %s(0x%s)]" % (fn, rb(a).hex(), fn, rb(b).hex(), fn, rb(a).hex()))
    # ... and for the command form: earlier tf commands of the same session (the harness runs them first, in the same process, and discards
    # their output; the model evaluates the last command alone)
    def tfseq(pre, name, args):
        cases.append("tf id=%d name=%s args=%s pre=%s" % (next(cid), th(name), ",".join(th(a) for a in args), ";".join("+".join(th(x) for x in grp) for grp in pre)))
    for a, b in ((40, 32), (65, 1), (64, 33), (100, 2)):
        tfseq([["tagged-hash", "TapLeaf", "0x" + rb(a).hex()]], "tagged-hash", ["TapLeaf", "0x" + rb(b).hex()])
        tfseq([["tagged-hash", "TapBranch", "0x" + rb(a).hex()], ["tagged-hash", "TapLeaf", "0x" + rb(b).hex()]], "tagged-hash", ["TapLeaf", "0x" + rb(a).hex()])
        for fn in ("sha256", "ripemd160", "hash160", "hash256", "reverse", "prefix-compact-size", "base58chk-encode", "bech32-encode"):
            tfseq([[fn, "0x" + rb(a).hex()]], fn, ["0x" + rb(b).hex()])
    tfseq([["base58chk-decode", b58chk(bytes([0]) + rb(20))[:-1] + "z"]], "base58chk-decode", [b58chk(bytes([5]) + rb(20))])
    tfseq([["int", "0x0102030405"], ["nosuchfunction", "1"]], "int", ["0x0102"])
    tfseq([["add", "0x0500", "0x0300"]], "sub", ["0x0500", "0x0300"])
    good = b58chk(bytes([0]) + rb(20)); bad = good[:-1] + ("2" if good[-1] != "2" else "3")
    il("[base58chkdec(%s) base58chkdec(%s) base58chkdec(%s)]" % (good, bad, good))
    S = {"transforms": cases}
    # opcode form: the hash opcodes on the same data
    oc = []
    O = G.OP
    for n in [0, 1, 55, 56, 64, 65, 119, 120, 300, 520]:
        d = rb(n)
        for op in ("OP_SHA256", "OP_RIPEMD160", "OP_SHA1", "OP_HASH160", "OP_HASH256"):
            oc.append(G.case(next(cid), bytes([O(op)]), [d], 0, 0, "s"))
            oc.append("tf id=%d name=%s args=%s" % (next(cid), th({"OP_SHA256": "sha256", "OP_RIPEMD160": "ripemd160", "OP_HASH160": "hash160", "OP_HASH256": "hash256", "OP_SHA1": "sha256"}[op]), th("0x" + d.hex())))
    S["opcode-form"] = oc
    return S

def main(tier):
    chk = Check("C14", tier)
    chk.prove(PROP_FILES)
    for name, cases in gen(chk).items():
        diffs = chk.compare(name, cases, nontrivial=lambda c, il: not c.endswith("args=") )
        for c, il, ml, sl, fl in diffs[:4]:
            chk.violation("transform-mismatch", "transform result differs from the model", {"stream": name, "case": c[:3000], "impl": [l[:1500] for l in il], "model": [l[:1500] for l in ml]})
    return chk.finish(RULE)
