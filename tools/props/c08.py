"""C08 - non-interactive btcdeb prints the final stack and never exits abnormally.
Proof: Properties/C08.v. Tie: the real btcdeb binary (rebuilt from the tree) run with every combination of
{script on argv with stdin a tty, script on stdin} x option variants vs the extracted Cli.main_noninteractive model."""
import itertools, os, re, concurrent.futures
from engine import Check, run_model
import gen_scripts as G, cli, vlib

PROP_FILES = ["Properties/C08.v"]
RULE = ("script texts (bracketed token lists rendered from grammar-generated scripts, plus hand-made ones raising each exception class: numeric "
        "overflow, non-minimal numbers; failing scripts; invalid scripts; empty input) x stack arguments x {script on argv with stdin a pseudo-"
        "terminal and stdout a pipe, script on stdin (pipe) with stack on argv} x {none, --quiet, --debug=<subset>, DEBUG_* environment, "
        "-z, -f<flag mods>}; observed: exit status / terminating signal, stdout bytes, stderr message. non-trivial = the script executes at "
        "least one operation; distinct = distinct (script, stack, options) triples")

def render(scr):
    """script bytes -> btcdeb token text"""
    toks = []
    i = 0
    while i < len(scr):
        o = scr[i]; i += 1
        if o == 0: toks.append("OP_0")
        elif o <= 0x4b:
            toks.append("0x" + scr[i:i + o].hex() if o >= 5 or True else ""); i += o
        elif o == 0x4c:
            n = scr[i]; i += 1; toks.append("0x" + scr[i:i + n].hex()); i += n
        elif o == 0x4d:
            n = int.from_bytes(scr[i:i + 2], "little"); i += 2; toks.append("0x" + scr[i:i + n].hex()); i += n
        else:
            toks.append("OP_x%02x" % o)
    return "[" + " ".join(toks) + "]"

def gen(chk):
    rng = chk.rng
    cases = []
    def add(script, args=(), opts=(), env=None, z=False, f=None):
        cases.append({"script": script, "args": list(args), "opts": list(opts), "env": env or {}, "z": z, "f": f})
    hand = ["[OP_1 OP_2 OP_ADD]", "[0x0000000001 OP_1ADD]", "[0x0100 OP_1ADD]", "[OP_1 OP_VERIFY OP_0 OP_VERIFY]", "[OP_RETURN]", "[OP_1 OP_IF]", "[OP_ADD]",
            "[OP_1 OP_2 OP_3 OP_ROT OP_TOALTSTACK]", "[]", "", "OP_DUP", "[OP_xff]", "[OP_x4c]", "[5 -5 1000 0x 0x00 0x80]", "[OP_1 OP_CAT]", "[0x01 0x02 OP_CAT]",
            "[OP_0 OP_IF OP_2MUL OP_ENDIF]", "[OP_NOP1]", "[0x00 OP_IF OP_ENDIF]", "[sha256(0x1234) OP_SIZE]", "[OP_CHECKSIG]", "[0x01 0x02 OP_CHECKSIG]",
            "[OP_0 0x01 OP_1 OP_1 OP_CHECKMULTISIG]", "[[OP_1]]", "[OP_1", "[0x0000000080 OP_PICK]", "[OP_1 0x00 OP_PICK]"]
    # script texts longer than any line buffer (F57: the stdin form was cut after 1023 characters)
    hand += ["[" + "OP_1 OP_DROP " * 120 + "OP_7]", "0x" + "51" * 600 + "75" * 599, "[" + "OP_1 OP_DROP " * 700 + "OP_7]", "[0x" + "ab" * 520 + " OP_SIZE OP_NIP]"]
    stacks = [[], ["0x02"], ["5", "6"], ["0x0000000001"], ["0x80", "abc"], ["[OP_1]", "-1"]]
    for s in hand:
        for st in stacks[:4]:
            add(s, st)
        add(s, [], ["--quiet"]); add(s, ["1"], ["--debug=sighash,signing"]); add(s, [], [], {"DEBUG_SIGHASH": "1", "DEBUG_SEGWIT": "0"})
        add(s, [], [], z=True); add(s, [], f="-MINIMALDATA,-DISCOURAGE_UPGRADABLE_NOPS"); add(s, [], f="+CLEANSTACK,-MINIMALIF")
    # the re-enabled arithmetic under -z: divisions and remainders by every form of zero, overflowing products and shifts - an error, never a trap
    for s in ["[OP_7 OP_0 OP_MOD]", "[OP_7 OP_0 OP_DIV]", "[7 0x80 OP_MOD]", "[7 0x00 OP_DIV]", "[OP_7 OP_1 OP_1SUB OP_MOD]", "[OP_7 OP_1 OP_1 OP_SUB OP_DIV]",
              "[0xffffffff7f 0xffffffff7f OP_MUL]", "[OP_1 64 OP_LSHIFT]", "[OP_1 -1 OP_RSHIFT]", "[0x0000008080 -1 OP_DIV]", "[0x01 0x02 OP_CAT 3 OP_LEFT]",
              "[0xaabbcc OP_2 OP_LEFT]", "[0xaabbcc OP_2 OP_RIGHT]", "[0xaabbcc 1 1 OP_SUBSTR]"]:
        add(s, [], [], z=True); add(s, [], [], z=True, f="-MINIMALDATA"); add(s, ["0x00"], ["--quiet"], z=True); add(s, [], [])
    n = 250 if chk.tier == "quick" else 4000
    for _ in range(n):
        scr = G.rand_script(rng, rng.choice([2, 4, 8, 16, 30]), allow_ext=rng.random() < 0.3)
        st = []
        for it in G.rand_stack(rng, 3):
            st.append("0x" + it.hex())
        opts = rng.choice([[], [], ["--quiet"], ["--debug=sighash"], ["--debug=signing,segwit,taproot"], ["-q", "-Dsighash"]])
        env = rng.choice([{}, {}, {"DEBUG_SIGHASH": "1"}, {"DEBUG_SIGNING": "0", "DEBUG_TAPROOT": "1"}])
        f = rng.choice([None, None, "-MINIMALDATA", "+P2SH", "-NULLDUMMY,-MINIMALIF,-DISCOURAGE_UPGRADABLE_NOPS", "-CHECKLOCKTIMEVERIFY"])
        add(render(scr), st, opts, env, z=rng.random() < 0.3, f=f)
    return cases

def th(t):
    return t.encode("latin1").hex() if t else "-"

def model_line(i, c):
    l = "cli id=%d script=%s args=%s z=%d" % (i, th(c["script"]), ",".join(th(a) for a in c["args"]), 1 if c["z"] else 0)
    if c["f"] is not None:
        l += " f=%s" % th(c["f"])
    return l

def run_modes(bdir, c):
    argv_opts = list(c["opts"]) + (["-z"] if c["z"] else []) + (["-f" + c["f"]] if c["f"] is not None else [])
    b = os.path.join(bdir, "btcdeb")
    out = {}
    # script on argv, stdin is a terminal, stdout a pipe  (an empty script string cannot be given as argv[...] = "" reliably: skip)
    out["argv"] = cli.run(b, argv_opts + [c["script"]] + c["args"], stdin_tty=True, env=c["env"])
    # script on stdin; note: debug flags are ignored by design when stdin is a pipe
    if "\n" not in c["script"]:
        out["stdin"] = cli.run(b, argv_opts + c["args"], stdin_data=(c["script"] + "\n").encode("latin1"), env=c["env"])
    return out

def main(tier):
    chk = Check("C08", tier)
    chk.prove(PROP_FILES)
    cases = gen(chk)
    lines = [model_line(i, c) for i, c in enumerate(cases)]
    model = run_model(lines)
    bdir = vlib.build("plain")
    with concurrent.futures.ThreadPoolExecutor(vlib.NCPU) as ex:
        results = list(ex.map(lambda c: run_modes(bdir, c), cases))
    st = chk.streams.setdefault("btcdeb-noninteractive", {"cases": 0, "diffs": 0, "known": 0, "modes": {"argv": 0, "stdin": 0}, "outcomes": {"ok": 0, "fail": 0, "abort": 0}})
    import hashlib
    for i, (c, res) in enumerate(zip(cases, results)):
        ml = model.get(str(i), ["R %d MISSING" % i])[0]
        kind = ml.split()[2]
        st["outcomes"][kind if kind in st["outcomes"] else "abort"] += 1
        for mode, r in res.items():
            st["cases"] += 1; st["modes"][mode] += 1
            chk.evaluations += 1
            bad = None
            if r["sig"] or r["rc"] not in (0, 1):
                bad = "abnormal termination (signal %s, rc %s)" % (r["sig"], r["rc"])
            elif kind == "ok":
                exp = bytes.fromhex(re.search(r"out=(\S+)", ml).group(1).replace("-", ""))
                if r["rc"] != 0 or r["stdout"] != exp:
                    bad = "expected exit 0 and the final stack %r on stdout" % exp
            elif kind == "fail":
                msg = bytes.fromhex(re.search(r"msg=(\S+)", ml).group(1).replace("-", ""))
                if r["rc"] != 1 or msg not in r["stderr"]:
                    bad = "expected exit 1 with %r on stderr" % msg
            else:
                bad = "model predicts abnormal termination"
            if len(chk.samples) < 6:
                chk.samples.append({"mode": mode, "script": c["script"], "args": c["args"], "opts": c["opts"], "rc": r["rc"], "stdout": r["stdout"].decode("latin1")[:200]})
            if c["script"] not in ("", "[]"):
                chk.nontrivial.add(hashlib.md5(repr((c["script"], c["args"], c["opts"], c["z"], c["f"], sorted(c["env"].items()), mode)).encode()).digest())
            if bad:
                st["diffs"] += 1
                if st["diffs"] <= 4:
                    argv = list(c["opts"]) + (["-z"] if c["z"] else []) + (["-f" + c["f"]] if c["f"] is not None else [])
                    chk.violation("noninteractive-mismatch", bad, {"stream": "btcdeb-noninteractive", "case": ["cli-run"], "binary": "btcdeb", "mode": mode,
                                  "argv": argv + ([c["script"]] if mode == "argv" else []) + c["args"], "stdin": (c["script"] + "\n") if mode == "stdin" else None,
                                  "stdin_tty": mode == "argv", "env": c["env"], "expected": ml, "rc": r["rc"], "sig": r["sig"],
                                  "stdout": r["stdout"].decode("latin1")[:2000], "stderr": r["stderr"].decode("latin1")[:2000]})
    # ---- non-interactive --tx/--txin runs: the final stack / exit status is that of the spend (validity known by construction) and does not
    #      depend on which debug logs are switched on (options and DEBUG_* environment only add text on stderr)
    import gen_spend as S
    rng = chk.rng
    jobs = []
    for k in ("p2pkh", "p2sh", "p2wpkh", "p2wsh", "p2sh-p2wsh", "p2tr-key", "p2tr-script"):
        for mut in (None, "wrongkey"):
            for _ in range(1 if tier == "quick" else 6):
                c = S.build(rng, k, mutate=mut, ht=(1 if not k.startswith("p2tr") else 0))
                jobs.append((k, mut, c))
    # long script codes (a 2-of-3 of uncompressed keys is 201 bytes; it needs -WITNESS_PUBKEYTYPE, given by NAME on the command line), multi-input
    # transactions (for taproot inputs a known finding, F31: an error, never an abnormal exit), a negative amount prefix
    extra_jobs = []
    for _ in range(1 if tier == "quick" else 4):
        c = S.build(rng, "p2wsh", enc="uncompressed", ht=1); extra_jobs.append(("p2wsh-uncompressed", None, c, ["-f-WITNESS_PUBKEYTYPE"], c["valid"]))
        c = S.build(rng, "p2sh-p2wsh", enc="uncompressed", ht=1); extra_jobs.append(("p2sh-p2wsh-uncompressed", None, c, ["-f-WITNESS_PUBKEYTYPE"], c["valid"]))
        c = S.build(rng, "p2wsh", enc="uncompressed", ht=1); extra_jobs.append(("p2wsh-uncompressed/default-flags", None, c, [], False))
        c = S.build(rng, "multisig", enc="nonnulldummy", ht=1); extra_jobs.append(("multisig-nonnulldummy", None, c, ["-f-NULLDUMMY"], c["valid"]))
        for kk in ("p2tr-key", "p2tr-script", "p2wpkh", "p2pkh"):
            c = S.build(rng, kk, nin=2, pos=1, ht=(0 if kk.startswith("p2tr") else 1)); extra_jobs.append((kk + "/2-inputs", None, c, [], None if kk.startswith("p2tr") else c["valid"]))
        c = S.build(rng, "p2wpkh", ht=1); c = dict(c, spend="-0.1:" + c["spend"]); extra_jobs.append(("p2wpkh/negative-amount", None, c, [], None))      # (the amount of the referenced output overrides the prefix: only "no abnormal exit" is required)
    variants = [([], {}), (["--debug=sighash"], {}), (["--debug=sighash,signing,segwit,taproot"], {}), ([], {"DEBUG_SIGHASH": "1", "DEBUG_SIGNING": "1"}), (["-q"], {})]
    jobs = [(k, mut, c, [], c["valid"]) for k, mut, c in jobs] + extra_jobs
    def run_tx(j):
        k, mut, c, fopt, want = j
        base = fopt + ["--tx=" + c["spend"], "--txin=" + c["fund"]]
        return [cli.run(os.path.join(bdir, "btcdeb"), o + base, stdin_tty=True, env=e) for o, e in variants]
    with concurrent.futures.ThreadPoolExecutor(vlib.NCPU) as ex:
        txres = list(ex.map(run_tx, jobs))
    st2 = chk.streams.setdefault("btcdeb-noninteractive-tx", {"cases": 0, "diffs": 0, "known": 0})
    for (k, mut, c, fopt, want), rs in zip(jobs, txres):
        ref = rs[0]
        for (o, e), r in zip(variants, rs):
            st2["cases"] += 1; chk.evaluations += 1
            chk.nontrivial.add(hashlib.md5(repr((k, mut, c["spend"], o, sorted(e.items()))).encode()).digest())
            bad = None
            if r["sig"] or r["rc"] not in (0, 1): bad = "abnormal termination (signal %s, rc %s)" % (r["sig"], r["rc"])
            elif want is True and (r["rc"] != 0 or r["stdout"].strip() != b"01"): bad = "a valid %s spend must end with exit 0 and the final stack 01 on stdout (options %s)" % (k, fopt)
            elif want is False and r["rc"] != 1: bad = "an invalid %s spend (%s) must end with exit 1" % (k, mut)
            elif (r["rc"], r["stdout"]) != (ref["rc"], ref["stdout"]): bad = "exit status / stdout change with the debug options %s %s" % (o, e)
            if bad:
                st2["diffs"] += 1
                if st2["diffs"] <= 4:
                    chk.violation("noninteractive-mismatch", bad, {"stream": "btcdeb-noninteractive-tx", "case": ["cli-run"], "binary": "btcdeb", "mode": "argv", "argv": o + fopt + ["--tx=" + c["spend"], "--txin=" + c["fund"]],
                                  "stdin": None, "stdin_tty": True, "env": e, "rc": r["rc"], "sig": r["sig"], "stdout": r["stdout"].decode("latin1")[:1500], "stderr": r["stderr"].decode("latin1")[-1500:]})
    return chk.finish(RULE)
