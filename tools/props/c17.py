"""C17 - re-enabled opcodes. Proof: Properties/C17.v. Tie: vh with allow_disabled_opcodes vs extracted StepExtended model,
exhaustive over the 15 opcodes x all operand tuples of the boundary value set, with and without the option, executed and unexecuted."""
import itertools
from engine import Check
import gen_scripts as G

PROP_FILES = ["Properties/C17.v"]
RULE = ("each of the 15 gate opcodes x every operand tuple (1, 2 or 3 operands) from the boundary value set {0, +-1, +-2, 3, 63, 64, +-127/128/255/256, "
        "2^31-1, 2^31, +-(2^39-1), negative zero, non-minimal encodings, empty, strings of unequal lengths, offsets 0/len/len+1} - exhaustive over the "
        "set - x {with -z, without} x {executed, inside an unexecuted branch} x {MINIMALDATA on/off}; non-trivial = all (every case reaches the opcode)")

def gen(chk):
    cid = itertools.count(1)
    S = {}
    O = G.OP
    nums = [0, 1, -1, 2, -2, 3, 5, 62, 63, 64, 65, -63, 127, -127, 128, -128, 255, 256, -256, 32767, 2**31 - 1, 2**31, -(2**31), 2**32, 2**39 - 1, -(2**39 - 1), 2**38, 3 * 2**37]
    vals = [G.sn(v) for v in nums] + [b"\x80", b"\x00", b"\x01\x00", b"\x00\x80", bytes(6), b"abc", b"abcdef", bytes([255, 255, 0]), bytes([0x0f, 0xf0, 0xaa])]
    arity = {"OP_CAT": 2, "OP_SUBSTR": 3, "OP_LEFT": 2, "OP_RIGHT": 2, "OP_INVERT": 1, "OP_AND": 2, "OP_OR": 2, "OP_XOR": 2, "OP_2MUL": 1, "OP_2DIV": 1,
             "OP_MUL": 2, "OP_DIV": 2, "OP_MOD": 2, "OP_LSHIFT": 2, "OP_RSHIFT": 2}
    offs = [G.sn(v) for v in (0, 1, 2, 3, 4, 5, 6, 7, -1, 255, 256, 32767, 32768)] + [b"\x00", b"\x80", b"\x01\x00\x00"]
    strs = [b"", b"a", b"abc", b"abcdef", bytes(range(32))]
    main = []
    for op, k in arity.items():
        if op in ("OP_LEFT", "OP_RIGHT"):
            tuples = [(s, o) for s in strs for o in offs]
        elif op == "OP_SUBSTR":
            tuples = [(s, a, b) for s in strs for a in offs for b in offs]
        else:
            tuples = list(itertools.product(vals, repeat=k))
        for t in tuples:
            for z in (1, 0):
                fl = 0 if (next(cid) % 3) else G.FLAG("MINIMALDATA")
                main.append(G.case(next(cid), bytes([O(op)]), list(t), fl, 0, "s,s", z))
        # stack too small
        for n in range(k):
            main.append(G.case(next(cid), bytes([O(op)]), [b"\x01"] * n, 0, 0, "s,s", 1))
    S["operands"] = main
    un = []
    for op in arity:
        for z in (0, 1):
            for sv in (0, 1, 3):
                scr = bytes([O("OP_0"), O("OP_IF"), O(op), O("OP_ENDIF"), O("OP_1")])
                un.append(G.case(next(cid), scr, [b"\x02", b"\x03", b"\x04"], 0, sv, "s,s,s,s,s,s", z))
                un.append(G.case(next(cid), scr, [b"\x02", b"\x03", b"\x04"], 0, sv, "c", z))
    S["unexecuted"] = un
    return S

def main(tier):
    chk = Check("C17", tier)
    chk.prove(PROP_FILES)
    for name, cases in gen(chk).items():
        diffs = chk.compare(name, cases)
        for c, il, ml, sl, fl in diffs[:4]:
            k = next((j for j, (a, b) in enumerate(zip(il, ml)) if a != b), min(len(il), len(ml)))
            chk.violation("extop-mismatch", "re-enabled opcode result differs from the function proved for the model",
                          {"stream": name, "case": c, "impl": il[max(0, k - 1):k + 1], "model_eq_spec": ml[max(0, k - 1):k + 1]})
    chk.extra["exhaustive"] = True
    return chk.finish(RULE)
