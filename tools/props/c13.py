"""C13 - transaction decoding is lossless, ids correct, amounts exact, malformed input rejected.
Proof: Properties/C13.v (TxTheorems.v). Tie: Instance::parse_transaction / parse_input_transaction with main's exception
guards (vh) vs the extracted Tx/TxCli model: fields, re-encoding, txid/wtxid, amounts, input selection."""
import itertools, hashlib, re
from engine import Check
import gen_tx as T

PROP_FILES = ["Properties/C13.v"]
RULE = ("--tx arguments: the real transactions of doc/txs; generated legacy/segwit transactions with 0..3 (sometimes 300) inputs/outputs, script "
        "lengths across 252/253/65535/65536, extreme versions/values; structure-aware mutations of them (every truncation of small txs, byte "
        "flips, bad flag byte, superfluous witness, non-canonical / oversized compact sizes, trailing bytes, embedded whitespace, stray chars); "
        "amount prefixes: decimals with 0..10 fractional digits, exponents, signs, malformed lists; --txin selection with and without --select. "
        "Every accepted case additionally has its txid checked against an independent double-SHA256 of the witness-stripped model encoding. "
        "non-trivial = the argument is not empty; distinct = distinct arguments")

def hx(s):
    return s.encode("latin1").hex() if s else "-"

def gen(chk):
    rng = chk.rng
    cid = itertools.count(1)
    cases = []
    def add(arg, iarg=None, sel=None):
        l = "tx id=%d a=%s" % (next(cid), hx(arg))
        if iarg is not None:
            l += " i=%s" % hx(iarg)
        if sel is not None:
            l += " sel=%d" % sel
        cases.append(l)
    real = T.real_txs()
    big = chk.tier == "thorough"
    base = [b for _, b in real] + [T.gen_raw(rng, big) for _ in range(300 if chk.tier == "quick" else 4000)]
    for b in base:
        add(b.hex())
    for b in base[:40]:
        for k in range(0, len(b), max(1, len(b) // 60)):
            add(b[:k].hex())
    for _ in range(2500 if chk.tier == "quick" else 40000):
        b = rng.choice(base)
        for _ in range(rng.randrange(1, 3)):
            b = T.mutate(rng, b)
        if len(b) < (100000 if chk.tier == "quick" else 20000):
            add(b.hex())
    # every NON-CANONICAL compact-size form (a value written in a longer form than it needs) in every position: script lengths, input / output
    # counts, witness item lengths and counts - all must be rejected; the canonical twin is accepted
    def csforms(n):
        out = [T.cs(n)]
        if n < 253: out.append(b"\xfd" + n.to_bytes(2, "little"))
        if n < 0x10000: out.append(b"\xfe" + n.to_bytes(4, "little"))
        out.append(b"\xff" + n.to_bytes(8, "little"))
        return out
    for L in (0, 1, 252, 253, 300, 65535, 65536):
        for form in csforms(L):
            body = b"\x02\x00\x00\x00" + b"\x01" + bytes(range(32)) + b"\x00\x00\x00\x00" + form + bytes(L) + b"\xff\xff\xff\xff" + b"\x01" + (5).to_bytes(8, "little") + b"\x01\x51" + bytes(4)
            add(body.hex())
            body = b"\x02\x00\x00\x00" + b"\x01" + bytes(range(32)) + b"\x00\x00\x00\x00" + b"\x00" + b"\xff\xff\xff\xff" + b"\x01" + (5).to_bytes(8, "little") + form + bytes([0x6a] * L) + bytes(4)
            add(body.hex())
            if L <= 300:
                wit = b"\x02\x00\x00\x00\x00\x01" + b"\x01" + bytes(range(32)) + b"\x00\x00\x00\x00" + b"\x00" + b"\xff\xff\xff\xff" + b"\x01" + (5).to_bytes(8, "little") + b"\x01\x51" + b"\x01" + form + bytes(L) + bytes(4)
                add(wit.hex())
    for cnt in (1, 2):
        for form in csforms(cnt):
            vin = b"".join(bytes([i]) * 32 + b"\x00\x00\x00\x00" + b"\x00" + b"\xff\xff\xff\xff" for i in range(cnt))
            add((b"\x02\x00\x00\x00" + form + vin + b"\x01" + (5).to_bytes(8, "little") + b"\x01\x51" + bytes(4)).hex())
            vout = b"".join((5).to_bytes(8, "little") + b"\x01\x51" for _ in range(cnt))
            add((b"\x02\x00\x00\x00" + b"\x01" + bytes(32) + b"\x00\x00\x00\x00" + b"\x00" + b"\xff\xff\xff\xff" + form + vout + bytes(4)).hex())
    for _ in range(800):
        n = rng.randrange(0, 16)
        add(bytes(rng.choice([0, 0, 0, 1, 1, 2, 253, 254, 255, rng.getrandbits(8)]) for _ in range(n)).hex())
    # hex decoration
    small = [b for b in base if len(b) < 400]
    for _ in range(300):
        h = rng.choice(small).hex()
        p = rng.randrange(0, len(h) + 1)
        add(h[:p] + rng.choice([" ", "\t", "\n", "  ", "x", ":", "g", "0"]) + h[p:])
    # amounts
    h0 = small[0].hex()
    ams = ["0", "1", "0.1", "0.00000001", "0.000000001", "1.100000000", "21000000", "92233720368.54775807", "92233720368.54775808", "-1", "-0", "+1", "1.", ".5",
           "01", "1e-8", "1e3", "1e10", "0e0", "1,2", "", " 1", "1 ", "abc", "9999999999", "99999999999", "0.12345678", "0.123456789", "1.5e1", "1E2"]
    for a in ams:
        add(a + ":" + h0); add(a + "," + a + ":" + h0); add(a + "," + h0); add(a)
    # fewer / as many / more amounts than inputs (the list is padded with zeros to the number of inputs)
    for nin_ in (1, 2, 3, 5):
        tx_ = T.make_tx(2, [(bytes([i]) * 32, i, b"", 0xffffffff) for i in range(nin_)], [(1, b"\x51")], 0).hex()
        for k in range(0, nin_ + 2):
            add(",".join(["0.%d" % (j + 1) for j in range(k)]) + (":" if k else "") + tx_)
    for _ in range(1500 if chk.tier == "quick" else 20000):
        ip = rng.choice(["0", "1", "9", "10", str(rng.randrange(10 ** rng.randrange(1, 21))), "00", "1" + "0" * rng.randrange(0, 19)])
        s = rng.choice(["", "-", ""]) + ip
        if rng.random() < 0.7:
            s += "." + "".join(rng.choice("0000123456789") for _ in range(rng.randrange(0, 12)))
        if rng.random() < 0.3:
            s += rng.choice("eE") + rng.choice(["", "+", "-"]) + rng.choice(["", "0", "1", "2", "8", "9", "10", "17"])
        add(s + ":" + h0)
    # input selection: spending tx whose inputs reference funding txs
    for _ in range(200):
        fouts = [(rng.randrange(1, 10 ** 8), T.rb(rng, 22)) for _ in range(rng.randrange(1, 4))]
        fvin = [(T.rb(rng, 32), 0, b"", 0xffffffff)]
        ftxid = hashlib.sha256(hashlib.sha256(T.make_tx(2, fvin, fouts, 0)).digest()).digest()          # the txid is over the witness-stripped encoding ...
        # ... also when the funding transaction is given in the extended (witness) serialisation: inputs reference its txid, never its wtxid
        fund = T.make_tx(2, fvin, fouts, 0, witnesses=([[T.rb(rng, 71), T.rb(rng, 33)]] if rng.random() < 0.5 else None))
        nin = rng.randrange(1, 4)
        pos = rng.randrange(nin)
        vin = []
        for i in range(nin):
            vin.append((ftxid if i == pos or rng.random() < 0.2 else T.rb(rng, 32), rng.randrange(0, 4), b"", 0xfffffffe))
        spend = T.make_tx(2, vin, [(1000, T.rb(rng, 22))], 0)
        add(spend.hex(), fund.hex())
        for sel in (0, pos, nin - 1, nin, 5):
            add(spend.hex(), fund.hex(), sel)
        add(spend.hex(), T.mutate(rng, fund).hex())
        # an input that names the funding transaction's wtxid does not reference it
        wtx = hashlib.sha256(hashlib.sha256(fund).digest()).digest()
        if wtx != ftxid:
            sp2 = T.make_tx(2, [(wtx, 0, b"", 0xfffffffe)], [(1000, T.rb(rng, 22))], 0)
            add(sp2.hex(), fund.hex()); add(sp2.hex(), fund.hex(), 0)
    return {"tx": cases}

def main(tier):
    chk = Check("C13", tier)
    chk.prove(PROP_FILES)
    for name, cases in gen(chk).items():
        for i in range(0, len(cases), 20000):
            diffs = chk.compare(name, cases[i:i + 20000], nontrivial=lambda c, il: " a=- " not in c + " ")
            for c, il, ml, sl, fl in diffs[:4]:
                chk.violation("tx-mismatch", "transaction / amount parsing differs from the model (proved lossless)",
                              {"stream": name, "case": c[:5000], "arg": bytes.fromhex(re.search(r" a=(\S+)", c).group(1).replace("-", "")).decode("latin1")[:2000],
                               "impl": [l[:1500] for l in il], "model_eq_spec": [l[:1500] for l in ml]})
    return chk.finish(RULE)
