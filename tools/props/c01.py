"""C01 - stepping follows Bitcoin's script rules. Proofs: Properties/C01.v. Tie: step-by-step full-state
correspondence of Instance::step / ContinueScript (tree's code via vh) with the extracted Interp/Session model."""
import itertools
from engine import Check
import gen_scripts as G

PROP_FILES = ["Properties/C01.v"]
RULE = ("script sessions without signature opcodes: (1) every 1-op script over the complete 256-byte opcode alphabet (incl. truncated and "
        "oversized pushes) x boundary stacks x flag sets x {BASE,WITNESS_V0,TAPSCRIPT}; thorough: every 2-op script; (2) grammar-directed "
        "random scripts (typed stack effects, IF nesting, alt stack) stepped one op at a time and run with ContinueScript; (3) numeric opcodes "
        "x boundary operand grid incl. non-minimal/over-long encodings; (4) flag-sensitive ops x flag subsets. Compared after every step: "
        "stack, altstack, condition stack, pc, op count, position, error, exception class. non-trivial = executes >= 2 ops or fails with an "
        "error other than BAD_OPCODE; distinct = distinct case lines")

SVS = (0, 1, 3)

def stacks_small():
    return [[], [b"\x01"], [b""], [b"\x80"], [b"\x02", b"\x03"], [b"\x05", b"\x01", b""], [b"\x01\x00", b"\x01"],
            [bytes([i]) for i in range(1, 8)], [b"\x00\x00\x00\x00\x01", b"\x01"], [b"\x02", b"\x01", b"\x00"]]

def gen(chk):
    rng = chk.rng
    cid = itertools.count(1)
    S = {}
    std = G.STANDARD()
    fsets = [0, std, G.FLAG("MINIMALDATA"), G.FLAG("MINIMALIF") | G.FLAG("DISCOURAGE_UPGRADABLE_NOPS") | G.FLAG("CHECKLOCKTIMEVERIFY") | G.FLAG("CHECKSEQUENCEVERIFY")]
    # (1) one-op scripts
    one = []
    def bodies(o):
        if o < 0x4c:
            return [bytes([o]) + bytes(range(1, o + 1)), bytes([o]) + bytes(max(0, o - 1))] if o else [b"\x00"]
        if o == 0x4c:
            return [b"\x4c", b"\x4c\x00", b"\x4c\x01\x07", b"\x4c\x4c" + bytes(0x4c), b"\x4c\x02\x01", b"\x4c\x01\x81", b"\x4c\x01\x10"]
        if o == 0x4d:
            return [b"\x4d", b"\x4d\x01", b"\x4d\x00\x00", b"\x4d\x01\x00\x05", b"\x4d\x00\x01" + bytes(256), b"\x4d\x08\x02" + bytes(520),
                    b"\x4d\x09\x02" + bytes(521), b"\x4d\x02\x00\x01"]
        if o == 0x4e:
            return [b"\x4e", b"\x4e\x01\x00\x00", b"\x4e\x00\x00\x00\x00", b"\x4e\x01\x00\x00\x00\x09", b"\x4e\x09\x02\x00\x00" + bytes(521),
                    b"\x4e\xff\xff\xff\xff\x00"]
        return [bytes([o])]
    for o in range(256):
        for b in bodies(o):
            for st in stacks_small():
                for fl in fsets:
                    for sv in SVS:
                        one.append(G.case(next(cid), b, st, fl, sv, "s,s"))
    S["oneop"] = one
    if chk.tier == "thorough":
        two = []
        pre = [[], [b"\x01", b"\x02", b"\x03"]]
        for a in range(256):
            for b in range(256):
                ba = bodies(a)[0]; bb = bodies(b)[0]
                for st in pre:
                    for fl in (0, std):
                        for sv in SVS:
                            two.append(G.case(next(cid), ba + bb, st, fl, sv, "s,s,s"))
        S["twoop"] = two
    # (2) grammar-directed
    gram = []
    n = 1500 if chk.tier == "quick" else 40000
    for _ in range(n):
        nops = rng.choice([3, 5, 8, 12, 20, 40, 80])
        scr = G.rand_script(rng, nops)
        k = G.count_ops(scr) or 1
        st = G.rand_stack(rng, 4)
        fl = G.rand_flags(rng)
        sv = rng.choice(SVS)
        cmds = ",".join(["s"] * (k + 2)) if rng.random() < 0.7 else "c"
        gram.append(G.case(next(cid), scr, st, fl, sv, cmds))
    S["grammar"] = gram
    # (2b) stepping after rewinds: what a re-executed operation does must not depend on the walk that led to it (conditional nesting included)
    walks = []
    O_ = G.OP
    fixed = [bytes([O_("OP_1"), O_("OP_IF"), O_("OP_2"), O_("OP_ELSE"), O_("OP_3"), O_("OP_ENDIF"), O_("OP_4")]),
             bytes([O_("OP_0"), O_("OP_IF"), O_("OP_2"), O_("OP_ENDIF"), O_("OP_5")]),
             bytes([O_("OP_1"), O_("OP_NOTIF"), O_("OP_2"), O_("OP_ELSE"), O_("OP_1"), O_("OP_IF"), O_("OP_6"), O_("OP_ENDIF"), O_("OP_ENDIF"), O_("OP_7")])]
    for _ in range(150 if chk.tier == "quick" else 4000):
        scr = rng.choice(fixed) if rng.random() < 0.4 else G.rand_script(rng, rng.choice([4, 8, 12]))
        k = G.count_ops(scr) or 1
        w = []
        for _ in range(rng.choice([1, 2, 3])):
            a = rng.randrange(1, k + 2); w += ["s"] * a + ["r"] * rng.randrange(1, a + 1)
        walks.append(G.case(next(cid), scr, G.rand_stack(rng, 3), G.rand_flags(rng), rng.choice(SVS), ",".join(w + ["s"] * (k + 2))))
    S["walks"] = walks
    # (3) numeric grid
    num = []
    t = G.ops_table()
    vals = G.value_pool()
    grid = [G.sn(v) for v in G.NUMS] + [b"\x80", b"\x00", b"\x00\x80", b"\x01\x00", b"\x01\x00\x00\x00\x00", b"\xff\xff\xff\xff\x7f"]
    for op in t["num1"]:
        for a in grid:
            for fl in (0, G.FLAG("MINIMALDATA")):
                num.append(G.case(next(cid), bytes([G.OP(op)]), [a], fl, rng.choice(SVS), "s,s"))
    for op in t["num2"]:
        for a in grid:
            for b in grid:
                fl = rng.choice((0, G.FLAG("MINIMALDATA")))
                num.append(G.case(next(cid), bytes([G.OP(op)]), [a, b], fl, rng.choice(SVS), "s,s"))
    wv = [G.sn(v) for v in (-2, -1, 0, 1, 2, 3, 2**31 - 1)] + [b"\x80", b"\x00"]
    for x in wv:
        for lo in wv:
            for hi in wv:
                num.append(G.case(next(cid), bytes([G.OP("OP_WITHIN")]), [x, lo, hi], rng.choice((0, G.FLAG("MINIMALDATA"))), 0, "s,s"))
    # PICK / ROLL index boundaries
    for op in ("OP_PICK", "OP_ROLL"):
        for depth in range(0, 6):
            for idx in range(-2, depth + 2):
                st = [bytes([0x10 + i]) for i in range(depth)] + [G.sn(idx)]
                num.append(G.case(next(cid), bytes([G.OP(op)]), st, 0, 0, "s,s"))
    S["numeric"] = num
    # (4) flag-sensitive probes
    fl_cases = []
    probes = [
        (b"\x01\x05", []), (b"\x4c\x01\x20", []), (b"\x01\x81", []), (b"\x4d\x01\x00\x20", []),      # MINIMALDATA
        (bytes([G.OP("OP_IF"), G.OP("OP_ENDIF")]), [b"\x02"]), (bytes([G.OP("OP_NOTIF"), G.OP("OP_ENDIF")]), [b"\x01\x00"]),
        (bytes([G.OP("OP_IF"), G.OP("OP_ENDIF")]), [b"\x00"]), (bytes([G.OP("OP_IF"), G.OP("OP_ENDIF")]), [b""]), (bytes([G.OP("OP_IF"), G.OP("OP_ENDIF")]), [b"\x01"]),
        (bytes([G.OP("OP_NOP1")]), []), (bytes([G.OP("OP_NOP10")]), []),
        (bytes([G.OP("OP_CHECKLOCKTIMEVERIFY")]), [b"\x01"]), (bytes([G.OP("OP_CHECKLOCKTIMEVERIFY")]), [b"\x81"]), (bytes([G.OP("OP_CHECKLOCKTIMEVERIFY")]), []),
        (bytes([G.OP("OP_CHECKSEQUENCEVERIFY")]), [b"\x01"]), (bytes([G.OP("OP_CHECKSEQUENCEVERIFY")]), [b"\x00\x00\x00\x80\x00"]), (bytes([G.OP("OP_CHECKSEQUENCEVERIFY")]), [b"\x81"]),
        (bytes([G.OP("OP_0"), G.OP("OP_IF"), G.OP("OP_CODESEPARATOR"), G.OP("OP_ENDIF")]), []),
        (bytes([G.OP("OP_CODESEPARATOR")]), []),
        (bytes([G.OP("OP_0"), G.OP("OP_IF"), G.OP("OP_CAT"), G.OP("OP_ENDIF")]), []),
    ]
    names = G.EXEC_FLAG_NAMES
    for scr, st in probes:
        k = (G.count_ops(scr) or 1) + 1
        for _ in range(24):
            f = 0
            for nme in names:
                if rng.random() < 0.5:
                    f |= G.FLAG(nme)
            for sv in SVS:
                fl_cases.append(G.case(next(cid), scr, st, f, sv, ",".join(["s"] * k)))
        for nme in names:
            for sv in SVS:
                fl_cases.append(G.case(next(cid), scr, st, G.FLAG(nme), sv, ",".join(["s"] * k)))
    S["flags"] = fl_cases
    return S

def nontrivial(c, il):
    # executes >= 2 ops, or fails with an error other than BAD_OPCODE (err=15)
    steps = [l for l in il if " ret=1 " in l and "#0 " not in l]
    if len(steps) >= 2:
        return True
    return any(" ret=0 " in l and " err=15 " not in l for l in il)

def main(tier):
    chk = Check("C01", tier)
    chk.prove(PROP_FILES)
    for name, cases in gen(chk).items():
        for i in range(0, len(cases), 200000):
            diffs = chk.compare(name, cases[i:i + 200000], nontrivial=nontrivial)
            for c, il, ml, sl, fl in diffs[:3]:
                k = next((j for j, (a, b) in enumerate(zip(il, ml)) if a != b), min(len(il), len(ml)))
                chk.violation("step-mismatch", "debugger state differs from the script rules (model) at command #%d" % k,
                              {"stream": name, "case": c, "impl": il[max(0, k - 1):k + 1], "model_eq_spec": ml[max(0, k - 1):k + 1]})
    # the resource-limit boundary scripts of C10 (op count incl. the P2SH redeem script, stack size, push size, script size) are part of
    # "the same outcome at the same operation": run on every change, and they are where a broken translation usually shows
    from props import c10
    for name, cases in c10.gen(chk).items():
        diffs = chk.compare("limits:" + name, cases, nontrivial=nontrivial)
        for c, il, ml, sl, fl in diffs[:3]:
            k = next((j for j, (a, b) in enumerate(zip(il, ml)) if a != b), min(len(il), len(ml)))
            chk.violation("step-mismatch", "debugger state differs from the script rules (model) at command #%d" % k,
                          {"stream": "limits:" + name, "case": c[:6000], "impl": [l[:800] for l in il[max(0, k - 1):k + 1]], "model_eq_spec": [l[:800] for l in ml[max(0, k - 1):k + 1]]})
    return chk.finish(RULE)
