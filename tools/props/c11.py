"""C11 - mock signatures affect exactly the listed signature/key pairs.
Proof: Properties/C11.v (PretendProofs.v): listed pairs succeed in every signature opcode before any context/encoding check, every pair of an
accepted list is honoured, a non-listed signature for a mocked key gets the ordinary verdict (CHECKSIG) or fails (CHECKMULTISIG), checks whose
key is not mocked are untouched, accepted lists have alternating ':' ',' separators and never end in a dangling signature.
Tie: Instance::parse_pretend_valid_expr + sessions with env->pretend_valid_* (vh) vs the extracted model (Pretend.v, Interp.v): parsed table and
every session state; impl-only relations: listed pair => success; no mocked key involved => identical to the run without the option."""
import itertools, re
from engine import Check, run_impl
import gen_scripts as G
import gen_spend as S
from props.c03 import session_ok, hx, STD

PROP_FILES = ["Properties/C11.v"]
RULE = ("pair lists: 0..4 pairs, tokens as 0x-hex, bare hex, decimal numbers, strings, inline expressions (sha256(..), hash160(..)), empty tokens; malformed lists "
        "(missing / doubled / trailing colon, leading and doubled commas, signature listed twice with the same / another key, unparsable tokens); scripts with "
        "CHECKSIG, CHECKSIGVERIFY, CHECKSIGADD, CHECKMULTISIG(VERIFY) over listed, unlisted, swapped and mixed pairs x script versions 0,1,3 x flag sets, with and "
        "without a transaction (mocked pair inside independently signed spends, valid and corrupted). non-trivial = the list was accepted and a signature opcode ran; "
        "distinct = distinct (list, script, flags, version)")

def push(d):
    # minimal push (MINIMALDATA is part of the standard flags)
    if len(d) == 0: return b"\x00"
    if len(d) == 1 and 1 <= d[0] <= 16: return bytes([0x50 + d[0]])
    if len(d) == 1 and d[0] == 0x81: return b"\x4f"
    return S.push(d)

TOKS = [("0xaabb", b"\xaa\xbb"), ("0x01", b"\x01"), ("sig1", b"sig1"), ("pub1", b"pub1"), ("abcd", b"\xab\xcd"), ("0x" + "11" * 33, b"\x11" * 33),
        ("0x" + "22" * 32, b"\x22" * 32), ("0x" + "30" * 71 + "01", b"\x30" * 71 + b"\x01"), ("0x" + "02" + "33" * 32, b"\x02" + b"\x33" * 32), ("zz", b"zz"), ("0x00", b"\x00")]

def gen(chk):
    rng = chk.rng
    q = chk.tier == "quick"
    cid = itertools.count(1)
    streams = {"parse": [], "opcodes": [], "spend": []}
    meta = {}
    rel = []        # (case with pv, same case without pv) when no mocked key is involved
    def sc(stream, scr, pv, flags, sv, stack=(), label=None, nopv_twin=False):
        i = "m%d" % next(cid)
        extra = ("pv=%s " % hx(pv)) if pv is not None else ""
        streams[stream].append(G.case(i, scr, list(stack), flags, sv, "c", extra=extra))
        meta[i] = label
        if nopv_twin:
            j = "m%d" % next(cid)
            rel.append((i, G.case(j, scr, list(stack), flags, sv, "c"), j))
        return i
    # --- parsing
    forms = ["0x%s", "%s"]
    exprs = ["", ":", ",", "a", "a:", "a:b", "a:b,", "a:b,c", "a:b,c:", "a:b,c:d", "a::b", ":b", "a:b,,c:d", ",a:b", "a:b:c", "aa:bb,aa:bb", "aa:bb,aa:cc", "aa:bb,cc:bb",
             "0xaa:0xbb", "0xaa:bb,0xAA:bb", "12:34", "-1:0", "sha256(0x1234):hash160(pub1)", "sig1:pub1", "hash160(pub1):x", "0x:0x", "0xzz:aa", "a b:c", "[a]:b",
             "OP_1:OP_2", "1e3:5", "ripemd160(sha256(0x00)):q", "nosuchfn(1):a", "sha256(:a", "a:" + "b" * 600]
    for _ in range(150 if q else 3000):
        n = rng.randrange(0, 5)
        parts = []
        for _ in range(n):
            a, b = rng.choice(TOKS)[0], rng.choice(TOKS)[0]
            parts.append(a + rng.choice([":", ":", ":", ":", "", "::", ","]) + b)
        exprs.append(rng.choice([",", ",", ",", ":", ",,"]).join(parts) + rng.choice(["", "", "", ",", ":"]))
    for e in exprs:
        sc("parse", b"\x51", e, 0, 0)
    # --- opcodes, no transaction
    fl_sets = [0, STD, STD & ~S.F_NULLFAIL, S.F_STRICTENC | S.F_DERSIG, 1 << 14]
    for _ in range(120 if q else 2500):
        (ts, s), (tp, p) = rng.choice(TOKS), rng.choice(TOKS)
        (ts2, s2), (tp2, p2) = rng.choice(TOKS), rng.choice(TOKS)
        sv = rng.choice([0, 1, 3]); fl = rng.choice(fl_sets)
        pv = "%s:%s" % (ts, tp) + ("" if rng.random() < 0.5 or s2 == s else ",%s:%s" % (ts2, tp2))
        # listed pair
        op = rng.choice(["cs", "csv", "csa", "cms"])
        if sv == 3 and op == "cms": op = "csa"
        if sv != 3 and op == "csa": op = "cs"
        def script(sig, key, op):
            if op == "cs": return push(sig) + push(key) + b"\xac"
            if op == "csv": return push(sig) + push(key) + b"\xad\x51"
            if op == "csa": return push(sig) + b"\x00" + push(key) + b"\xba"
            return b"\x00" + push(sig) + b"\x51" + push(key) + b"\x51\xae"
        sc("opcodes", script(s, p, op), pv, fl, sv, label="listed")
        # mocked key, another signature
        other = rng.choice([b"", b"\x99", s + b"\x00", s[:-1]])
        if other != s and not (pv.count(":") == 2 and other == s2 and p2 == p):
            # (tapscript accepts any non-empty signature for a key of unknown type: not an effect of the option)
            sc("opcodes", script(other, p, op), pv, fl, sv, label=("othersig" if sv != 3 else None))
        # unlisted key: nothing changes
        k3 = rng.choice([b"\x02" + bytes(32), b"k", b"", p + b"\x01"])
        if k3 not in (p, p2):
            sc("opcodes", script(rng.choice([s, s2, b"\x55"]), k3, op), pv, fl, sv, label=None, nopv_twin=True)
            scr = G.rand_script(rng, rng.choice([2, 4, 8]))
            sc("opcodes", scr, pv, fl, sv, stack=G.rand_stack(rng, 3), nopv_twin=True)
        # mixed multisig 2-of-3: one mocked pair, rest unlisted -> in-order rule
        if sv != 3:
            ks = [p, b"\x02" + b"\x44" * 32, b"\x03" + b"\x55" * 32]
            rng.shuffle(ks)
            scr = b"\x00" + push(s) + b"\x51" + b"".join(push(k) for k in ks) + b"\x53\xae"
            # (under DERSIG/LOW_S/STRICTENC the mock signature is refused while it is tried against the unmocked keys that come first)
            sc("opcodes", scr, "%s:%s" % (ts, tp), fl, sv, label=("listed" if fl in (0, 1 << 14) else None))
    # --- a listed pair with an EMPTY public key (or an empty signature): a signature that is not the listed one must not be accepted for it,
    #     and looking a signature up must not add it to the table
    for _ in range(12 if q else 200):
        (ts, s), (ts2, s2) = rng.sample(TOKS, 2)
        sv = rng.choice([0, 1]); fl = rng.choice(fl_sets)
        op = rng.choice(["cs", "csv", "cms"])
        def script0(sig, key, op):
            if op == "cs": return push(sig) + push(key) + b"\xac"
            if op == "csv": return push(sig) + push(key) + b"\xad\x51"
            return b"\x00" + push(sig) + b"\x51" + push(key) + b"\x51\xae"
        sc("opcodes", script0(s2, b"", op), "%s:0x" % ts, fl, sv, label="othersig")
        sc("opcodes", script0(s, b"", op), "%s:0x" % ts, fl, sv, label="listed")
        sc("opcodes", script0(s2, b"", op) + script0(s2, b"", "cs"), "%s:0x" % ts, fl & ~(1 << 14), sv, label="othersig")       # the same unlisted signature twice
        sc("opcodes", script0(b"", b"pub1", op), "0x:pub1", fl, sv, label=None)
    # --- two listed pairs in a multisig: each signature counts for its own key only, in order
    for _ in range(30 if q else 400):
        (ta, sa), (tb, sb) = rng.sample(TOKS, 2)
        (tpa, pa), (tpb, pb) = rng.sample(TOKS, 2)
        if len({sa, sb, pa, pb}) < 4: continue
        sv = rng.choice([0, 1]); fl = rng.choice([0, 1 << 14])
        pv = "%s:%s,%s:%s" % (ta, tpa, tb, tpb)
        ms = lambda sigs, keys: b"\x00" + b"".join(push(x) for x in sigs) + bytes([0x50 + len(sigs)]) + b"".join(push(k) for k in keys) + bytes([0x50 + len(keys), 0xae])
        sc("opcodes", ms([sa, sb], [pa, pb]), pv, fl, sv, label="listed")          # in order
        sc("opcodes", ms([sb, sa], [pa, pb]), pv, fl, sv, label="othersig")        # crossed: each signature meets the other pair's key
        sc("opcodes", ms([sb], [pa]), pv, fl, sv, label="othersig")                # a listed signature for another listed key
        sc("opcodes", ms([sa], [pb, pa]), pv, fl, sv, label="listed")              # found at the second key
        sc("opcodes", push(sb) + push(pa) + b"\xac", pv, fl, sv, label="othersig")
    # --- with a transaction: mocked pair inside a spend whose real signature is broken
    for k in ["p2pkh", "p2pk", "p2wpkh", "p2wsh", "p2sh", "p2tr-script"]:
        for mut in (None, "wrongkey", "sigbyte"):
            for _ in range(1 if q else 8):
                c = S.build(rng, k, mutate=mut, ht=(1 if not k.startswith("p2tr") else 0))
                i = "m%d" % next(cid)
                streams["spend"].append("spend id=%s tx=%s txin=%s flags=%d pv=%s cmds=c" % (i, hx(c["spend"]), hx(c["fund"]), STD, hx("0xdead:0xbeef")))
                meta[i] = ("spend-unrelated", c)
    # ... and the mocked pair IS the broken signature with its key: every spend type must then succeed, the taproot key path included
    def items(script_hex):
        b = bytes.fromhex(script_hex); out = []; i = 0
        while i < len(b):
            n = b[i]; i += 1
            if 1 <= n <= 75: out.append(b[i:i + n]); i += n
            elif n == 0x4c: n = b[i]; out.append(b[i + 1:i + 1 + n]); i += 1 + n
            else: out.append(None)
        return out
    for k in ["p2pk", "p2pkh", "p2wpkh", "p2tr-key", "p2tr-script"]:
        for mut in ("wrongkey", "sigbyte"):
            for _ in range(2 if q else 10):
                c = S.build(rng, k, mutate=mut, ht=(1 if not k.startswith("p2tr") else rng.choice([0, 1])))
                if c["valid"]: continue
                wit = [bytes.fromhex(w) for w in c["wit"]]
                if k == "p2pk": sig, key = items(c["scriptsig"])[0], items(c["spk"])[0]
                elif k == "p2pkh": sig, key = items(c["scriptsig"])[:2]
                elif k == "p2wpkh": sig, key = wit[0], wit[1]
                elif k == "p2tr-key": sig, key = wit[0], bytes.fromhex(c["spk"])[2:]
                else:
                    cands = [x for x in items(wit[-2].hex()) if x is not None and len(x) == 32]
                    sig, key = wit[0], (cands[0] if cands else None)
                if not sig or not key: continue
                i = "l%d" % next(cid)
                streams["spend"].append("spend id=%s tx=%s txin=%s flags=%d pv=%s cmds=c" % (i, hx(c["spend"]), hx(c["fund"]), STD, hx("0x%s:0x%s" % (sig.hex(), key.hex()))))
                meta[i] = ("spend-listed", c)
    return streams, meta, rel

def main(tier):
    chk = Check("C11", tier)
    chk.prove(PROP_FILES)
    streams, meta, rel = gen(chk)
    dist = {}
    impl_by_id = {}
    for name, cases in streams.items():
        wrong = []
        def inspect(c, il, ml):
            i = re.search(r"\bid=(\S+)", c).group(1)
            impl_by_id[i] = il
            label = meta.get(i)
            head = il[0].split()[2] if il and len(il[0].split()) > 2 else "?"
            key = "%s/%s/%s" % (name, label if not isinstance(label, tuple) else label[0], "ok" if session_ok(il) else head if head in ("pvrefused", "exit1", "CRASH", "refused") else "fails")
            dist[key] = dist.get(key, 0) + 1
            if label == "listed" and head == "pv" and not session_ok(il):
                wrong.append((c, il, "a listed signature/key pair was not accepted"))
            if label == "othersig" and head == "pv" and session_ok(il):
                wrong.append((c, il, "a signature that is not the listed one was accepted for a mocked key without a transaction"))
            if isinstance(label, tuple) and label[0] == "spend-listed" and head == "pv" and not session_ok(il):
                wrong.append((c, il, "a spend (%s) whose only defect is the signature is not accepted although exactly that signature/key pair is mocked" % label[1]["kind"]))
            if isinstance(label, tuple) and label[0] == "spend-unrelated":
                if session_ok(il) != bool(label[1]["valid"]):
                    wrong.append((c, il, "an unrelated mocked pair changed the outcome of a spend"))
        diffs = chk.compare(name, cases, nontrivial=lambda c, il: bool(il) and " pv " in il[0] and len(il) > 2, inspect=inspect)
        for c, il, ml, sl, fl in diffs[:3]:
            chk.violation("pretend-mismatch", "--pretend-valid handling differs from the model", {"stream": name, "case": c[:4000], "impl": [l[:1500] for l in il], "model": [l[:1500] for l in ml]})
        for c, il, why in wrong[:3]:
            chk.violation("pretend-semantics", why, {"stream": name, "case": c[:4000], "impl": [l[:1500] for l in il]})
    # impl-only relation: without a mocked key involved the run equals the run without the option
    twins = run_impl([t for _, t, _ in rel])
    bad = 0
    for i, t, j in rel:
        a = [re.sub(r"^R \S+ ", "", l) for l in impl_by_id.get(i, []) if " pv map=" not in l]
        b = [re.sub(r"^R \S+ ", "", l) for l in twins.get(j, [])]
        if a and a[0].startswith(("pvrefused", "exit1", "CRASH")): continue
        chk.evaluations += 1
        if a != b:
            bad += 1
            if bad <= 3:
                chk.violation("pretend-interference", "a session not involving any mocked key runs differently with the option", {"case_without": t[:4000], "with": a[:6], "without": b[:6]})
    chk.streams["non-interference"] = {"cases": len(rel), "diffs": bad, "known": 0}
    # the option through the real command line, transaction mode WITHOUT a script argument (stdin a terminal, stdout a pipe): the listed pair of a
    # spend whose only defect is the signature makes it succeed; a malformed list is refused
    import cli, vlib, os
    binary = os.path.join(vlib.build("plain"), "btcdeb")
    listed = [(i, m[1]) for i, m in meta.items() if isinstance(m, tuple) and m[0] == "spend-listed"][: (4 if chk.tier == "quick" else 30)]
    bycase = {re.search(r"\bid=(\S+)", c).group(1): c for c in streams["spend"]}
    cbad = 0
    for i, c in listed:
        pv = bytes.fromhex(re.search(r"\bpv=(\S+)", bycase[i]).group(1)).decode()
        for pvarg, want_ok in ((pv, True), (pv.split(":")[0], False)):
            argv = ["--tx=" + c["spend"], "--txin=" + c["fund"], "--pretend-valid=" + pvarg]
            r = cli.run(binary, argv, stdin_tty=True)
            chk.evaluations += 1
            ok = r["rc"] == 0 and (r["stdout"] or b"").strip().endswith(b"01")
            if ok != want_ok or r["sig"]:
                cbad += 1
                if cbad <= 3:
                    chk.violation("pretend-cli", "btcdeb --tx --txin --pretend-valid=%s (no script argument, stdin a terminal): %s" % ("<the spend's signature:key>" if want_ok else "<malformed list>", "not accepted" if want_ok else "accepted"),
                                  {"stream": "cli", "case": ["cli-run"], "binary": "btcdeb", "argv": argv, "stdin_tty": True, "rc": r["rc"], "stdout": (r["stdout"] or b"").decode("latin1")[-300:], "stderr": (r["stderr"] or b"").decode("latin1")[-300:]})
    chk.streams["command-line"] = {"cases": 2 * len(listed), "diffs": cbad, "known": 0}
    chk.extra["input_distribution"] = dict(sorted(dist.items()))
    return chk.finish(RULE)
