"""C18 - script-number codec. Proof: coq/Properties/C18.v. Tie: correspondence vh <-> extracted model,
exhaustive over all byte strings of length 0..2, in the thorough tier also all 3-byte strings whose last byte is one of 16 values
(the sign/zero boundaries and random ones), plus stratified longer strings,
integer bands and boundaries."""
import itertools
from engine import Check

PROP_FILES = ["Properties/C18.v"]
RULE = ("sn: CScriptNum(b, fRequireMinimal, max) for every byte string b in the enumerated set x req in {0,1} x max in {4,5}; "
        "sne: CScriptNum::serialize / Value(int).hex_str / data_value for integers; snv: Value(data).int_value; literals: decimal text through btcc "
        "(number push) and `tf hex` for the boundary integers (+-2^k+d up to 2^63, byte boundaries) and a band. "
        "distinct = distinct case lines; non-trivial = every case except the empty string and the integer 0")


def hexs(bs):
    return bytes(bs).hex() if bs else "-"


def gen_cases(chk):
    rng = chk.rng
    cid = itertools.count(1)
    sn = []
    maxlen = 2
    def add_sn(b):
        for req in (0, 1):
            for mx in ((4, 5) if len(b) >= 4 or len(b) == 0 else (4,)):
                sn.append("sn id=%d b=%s req=%d max=%d" % (next(cid), hexs(b), req, mx))
    add_sn(())
    for n in range(1, maxlen + 1):
        for t in itertools.product(range(256), repeat=n):
            add_sn(t)
    inter = [0x00, 0x01, 0x7f, 0x80, 0x81, 0xff]
    if chk.tier == "thorough":
        # (all 2^24 three-byte strings x 2 modes cost 40 minutes and 7 GB in this harness for no additional code path: the last byte
        #  decides sign / minimality, the first two are exhaustive)
        last = sorted(set(inter + [rng.randrange(256) for _ in range(10)]))
        for t in itertools.product(range(256), range(256), last):
            add_sn(t)
    # stratified longer strings: interesting bytes in every position, lengths up to 9
    for n in range(maxlen + 1, 6):
        for t in itertools.product(inter, repeat=n):
            add_sn(t)
        for _ in range(3000 if chk.tier == "quick" else 200000):
            add_sn(tuple(rng.choice(inter) if rng.random() < 0.5 else rng.randrange(256) for _ in range(n)))
    for n in (6, 7, 8, 9):
        for _ in range(200):
            add_sn(tuple(rng.randrange(256) for _ in range(n)))
    sne = []
    band = 1 << (12 if chk.tier == "quick" else 17)
    vals = set(range(-band, band + 1))
    for k in range(0, 64):
        for d in (-2, -1, 0, 1, 2):
            for s in (1, -1):
                v = s * ((1 << k) + d)
                if -(1 << 63) <= v < (1 << 63):
                    vals.add(v)
    for k in range(1, 9):
        for d in (-1, 0, 1):
            for s in (1, -1):
                for base in (1 << (8 * k - 1), 1 << (8 * k)):
                    v = s * (base + d)
                    if -(1 << 63) <= v < (1 << 63):
                        vals.add(v)
    for _ in range(5000 if chk.tier == "quick" else 200000):
        bits = rng.randrange(1, 64)
        vals.add(rng.randrange(-(1 << bits), 1 << bits))
    for v in sorted(vals):
        sne.append("sne id=%d v=%d" % (next(cid), v))
    snv = []
    for n in range(0, 3):
        for t in itertools.product(range(256), repeat=n):
            snv.append("snv id=%d b=%s" % (next(cid), hexs(t)))
    for n in range(3, 7):
        for _ in range(2000):
            snv.append("snv id=%d b=%s" % (next(cid), hexs(tuple(rng.randrange(256) for _ in range(n)))))
    # the text forms: a decimal literal compiled by btcc (a number push), `tf hex <n>` and `tf int 0x<encoding>` - the same integers
    th = lambda t: t.encode("latin1").hex()
    lit = []
    inter2 = sorted(v for v in vals if abs(v) > 4000 or v % 97 == 0)
    sample = inter2 if len(inter2) < 6000 else rng.sample(inter2, 6000)
    for v in sorted(set(sample) | set(range(-20, 21))):
        lit.append("btcc id=%d toks=%s" % (next(cid), th(str(v))))
        lit.append("tf id=%d name=%s args=%s" % (next(cid), th("hex"), th(str(v))))
    # the decoder as the interpreter calls it: minimal encoding is required exactly when MINIMALDATA is set (not MINIMALIF, not any other flag),
    # 4-byte operands (5 for the lock-time opcodes)
    import gen_scripts as G
    interp = []
    ops = ["OP_1ADD", "OP_NEGATE", "OP_ABS", "OP_NOT", "OP_0NOTEQUAL", "OP_PICK", "OP_CHECKLOCKTIMEVERIFY", "OP_CHECKSEQUENCEVERIFY"]
    operands = [b"\x01\x00", b"\x05\x00\x00\x00", b"\x80", b"\x00", b"\x00\x80", b"\x7f", b"\xff\xff\xff\x7f", b"\x00\x00\x00\x80\x00", b"\x01\x00\x00\x00\x00", b"", b"\x81", b"\x00\x00\x00\x00\x00\x01"]
    fsets = [0, G.FLAG("MINIMALDATA"), G.FLAG("MINIMALIF"), G.FLAG("MINIMALDATA") | G.FLAG("MINIMALIF"), G.STANDARD(), G.STANDARD() & ~G.FLAG("MINIMALDATA"), G.STANDARD() & ~G.FLAG("MINIMALIF")]
    for op in ops:
        for v in operands:
            for fl in fsets:
                f2 = fl | G.FLAG("CHECKLOCKTIMEVERIFY") | G.FLAG("CHECKSEQUENCEVERIFY")
                interp.append(G.case(next(cid), bytes([G.OP(op)]), [b"\x07", v], f2, rng.choice((0, 1, 3)), "s,s"))
                interp.append(G.case(next(cid), G.push(v) + bytes([G.OP(op)]), [b"\x07"], f2, 0, "s,s,s"))
    return {"sn": sn, "sne": sne, "snv": snv, "literals": lit, "interpreter": interp}


def main(tier):
    chk = Check("C18", tier)
    chk.prove(PROP_FILES)
    streams = gen_cases(chk)
    nt = lambda c, il: not (" b=- " in c or c.endswith(" v=0") or c.endswith("=30"))
    for name, cases in streams.items():
        # chunk to bound memory
        for i in range(0, len(cases), 400000):
            diffs = chk.compare(name, cases[i:i + 400000], nontrivial=nt)
            for c, il, ml, sl, fl in diffs[:5]:
                chk.violation("codec-mismatch", "implementation and proven codec model differ", {"stream": name, "case": c, "impl": il, "model_eq_spec": ml})
    chk.extra["exhaustive"] = False
    chk.extra["exhaustive_part"] = "all byte strings of length 0..2 under both minimality settings" + (
        "; all 3-byte strings with 16 chosen last bytes" if chk.tier == "thorough" else "")
    return chk.finish(RULE)
