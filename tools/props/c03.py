"""C03 - a --tx/--txin session reproduces consensus validation of that input.
Proof: Properties/C03.v (ConfigureProofs.v: input selection, amount/locking script from the referenced output, hash commitments
checked before a session is set up, initial stack = witness without the revealed script/control/annex).
Tie: Instance::parse_transaction + parse_input_transaction + configure_tx_txin + setup_environment + continue (vh `spend`) vs the
extracted TxCli/Configure/Sighash/Session model, with the elliptic-curve predicates answered by tools/refcrypto.py; and an
independent oracle: every synthesised pair is built and signed by tools/gen_spend.py (digests re-implemented from the BIPs), so its
validity is known by construction and compared with the outcome of the implementation's session."""
import itertools, re
from engine import Check
import gen_spend as S
import gen_tx as T

PROP_FILES = ["Properties/C03.v"]
STD = 0x1FFFDF
RULE = ("funding/spending pairs for p2pk, p2pkh, bare multisig, p2sh (multisig, code separator), p2wpkh, p2wsh (multisig, code separator), p2sh-p2wpkh, "
        "p2sh-p2wsh, taproot key path (with/without annex), tapscript (checksig, checksigadd, code separators; leaf depth 0..2), each valid and with one "
        "corruption (wrong key, flipped signature byte, wrong revealed script/key, wrong amount, altered output/sequence/locktime, signature order, extra/missing "
        "witness item, flipped control-block bit), 1..3 inputs with the spending input at every position, --select right/wrong/out of range, standard flags and "
        "random flag subsets, plus the six real pairs of doc/txs; outcome of the implementation compared with the model on every case and with the "
        "by-construction validity under standard flags. non-trivial = the pair parsed and an input was selected; distinct = distinct (pair, flags, select)")

KINDS = ["bare-if", "p2wsh-hashlock", "p2pkh", "p2pk", "multisig", "p2sh", "p2sh-codesep", "p2wpkh", "p2sh-p2wpkh", "p2wsh", "p2sh-p2wsh", "p2wsh-codesep", "p2tr-key", "p2tr-script", "p2tr-csa", "p2tr-codesep"]
SEGWIT = {"p2wpkh", "p2sh-p2wpkh", "p2wsh", "p2sh-p2wsh", "p2wsh-codesep"}
TAPS = {"p2tr-script", "p2tr-csa", "p2tr-codesep"}

def mutations(kind):
    if kind == "bare-if": return [None, "openif", "altcarry", "altown", "nosig-true", "nosig-return", "nosig-false", "nosig-depth"]
    if kind == "p2wsh-hashlock": return [None, "wrongkey"]
    m = [None, "wrongkey", "sigbyte", "output", "sequence", "locktime"]
    if kind in SEGWIT or kind in TAPS or kind == "p2tr-key": m.append("amount")
    if kind in ("p2sh", "p2wpkh", "p2sh-p2wpkh", "p2wsh", "p2sh-p2wsh"): m.append("scripthash")
    if kind in ("multisig", "p2wsh"): m.append("sigorder")
    if kind in ("p2wpkh", "p2sh-p2wpkh") or kind in TAPS: m.append("extraitem")
    if kind in ("p2wsh",) or kind in TAPS: m.append("missingitem")
    if kind in TAPS: m.append("control")
    if kind in ("p2sh-p2wpkh", "p2sh-p2wsh"): m += ["malleated", "notp2sh"]
    return m

def hx(s): return s.encode().hex()

def session_ok(lines):
    last = [l for l in lines if re.match(r"R \S+ #\d+ ", l)]
    if not last: return False
    l = last[-1]
    return " done=1 " in l and " err=0 " in l and " st=01 " in l

def gen(chk):
    rng = chk.rng
    cid = itertools.count(1)
    meta = {}
    streams = {"pairs": [], "flags": [], "select": [], "real": []}
    def add(stream, c, flags=STD, sel=None, label=None):
        i = "p%d" % next(cid)
        f = flags
        if c["kind"] == "p2sh-codesep": f &= ~(1 << 16)
        l = "spend id=%s tx=%s txin=%s flags=%d cmds=c" % (i, hx(c["spend"]), hx(c["fund"]), f)
        if sel is not None: l += " sel=%d" % sel
        meta[i] = (c, label)
        streams[stream].append(l)
    reps = 1 if chk.tier == "quick" else 6
    for _ in range(reps):
        for k in KINDS:
            for mut in mutations(k):
                for nin, pos in ((1, 0), (2, 0), (2, 1), (3, 1)):
                    if nin > 1 and mut not in (None, "wrongkey", "amount", "scripthash") and rng.random() < 0.6: continue
                    annex = None
                    if k.startswith("p2tr") and rng.random() < 0.4: annex = bytes([0x50]) + T.rb(rng, rng.randrange(0, 6))
                    ht = 1
                    if k.startswith("p2tr"): ht = rng.choice([0, 0, 1])
                    c = S.build(rng, k, nin=nin, pos=pos, ht=ht, mutate=mut, annex=annex)
                    # a taproot input of a multi-input transaction needs every spent output; only one funding transaction can be given
                    label = c["valid"]
                    add("pairs", c, label=label)
                    if rng.random() < 0.5:
                        fl = STD
                        for _ in range(rng.randrange(1, 4)): fl ^= 1 << rng.randrange(0, 21)
                        add("flags", c, flags=fl)
                    if nin > 1 and rng.random() < 0.7:
                        for sel in (pos, (pos + 1) % nin, nin, 7):
                            add("select", c, sel=sel, label=(label if sel == pos else "refused"))
    # size rules at set-up / at the switch: scriptPubKey of 10000 / 10001 bytes, witness items of 520 / 521 bytes (P2WSH, tapscript)
    for k, sizes in (("bare-big", (10000, 10001)), ("p2wsh-item", (0, 520, 521, 600)), ("p2tr-item", (1, 520, 521))):
        for wn in sizes:
            c = S.build(rng, k, wn=wn, ht=(0 if k.startswith("p2tr") else 1))
            add("pairs", c, label=c["valid"])
    # the referenced output does not exist: prevout index = number of outputs, a few more, 0xffffffff - with and without an explicit selection
    import hashlib
    for nout in (1, 2):
        fund = T.make_tx(2, [(bytes(range(32)), 0, b"", 0xffffffff)], [(1000 + j, b"\x51") for j in range(nout)], 0)
        ftxid = hashlib.sha256(hashlib.sha256(fund).digest()).digest()
        for n in (nout, nout + 4, 0xffffffff, nout - 1):
            for nin, pos in ((1, 0), (2, 1)):
                vin = [(bytes(32), 0, b"", 0xffffffff)] * pos + [(ftxid, n, b"", 0xffffffff)]
                c = {"spend": T.make_tx(2, vin, [(1, b"\x51")], 0).hex(), "fund": fund.hex(), "kind": "novout", "valid": n < nout}
                add("select", c, sel=pos, label=(True if n < nout else "refused")); add("select", c, label=(True if n < nout else "refused"))
    # pay-to-script-hash spends whose scriptSig uses every small-integer opcode (all of them are push operations for the push-only rule)
    for wn in range(17):
        c = S.build(rng, "p2sh-smallint", wn=wn, mutate=(None if wn % 5 else "scripthash"))
        add("pairs", c, label=c["valid"]); add("pairs", c, flags=STD | (1 << 5), label=c["valid"])      # also under SIGPUSHONLY
    # a key-path signature that begins with the annex tag 0x50 (a lone witness item is never an annex), valid and corrupted
    for mut in (None, "sigbyte"):
        c = S.build(rng, "p2tr-key", ht=0, enc="sig50", mutate=mut)
        add("pairs", c, label=c["valid"])
    # real-chain pairs
    real = dict(T.real_txs())
    for name in sorted(real):
        if name.endswith("-tx") and name[:-3] + "-in" in real:
            c = {"spend": real[name].hex(), "fund": real[name[:-3] + "-in"].hex(), "kind": "real:" + name[:-3]}
            add("real", c, label=("invalid" not in name))
            add("real", c, flags=0)
            add("real", c, sel=0); add("real", c, sel=1); add("real", c, sel=2)
    return streams, meta

def main(tier):
    chk = Check("C03", tier)
    chk.prove(PROP_FILES)
    streams, meta = gen(chk)
    dist = {}
    for name, cases in streams.items():
        wrong = []
        def inspect(c, il, ml):
            i = re.search(r"\bid=(\S+)", c).group(1)
            cm, label = meta[i]
            head = il[0].split()[2] if il and len(il[0].split()) > 2 else "?"
            key = "%s/%s/%s" % (cm["kind"], cm.get("mutate"), "ok" if session_ok(il) else head if head != "cfg" else "fails")
            dist[key] = dist.get(key, 0) + 1
            if label is None: return
            if label == "refused":
                if head != "txinfail": wrong.append((c, il, "a selection that does not reference the funding transaction must be refused"))
            elif bool(label) and not session_ok(il) and cm.get("finding") == "multi-input-taproot":
                chk.note_known("F31", c, name)
            elif session_ok(il) != bool(label):
                wrong.append((c, il, "session outcome %s but the input is %s by construction (%s)" % (session_ok(il), "valid" if label else "invalid", cm.get("note", cm["kind"]))))
        diffs = chk.compare(name, cases, nontrivial=lambda c, il: bool(il) and " cfg " in il[0], inspect=inspect)
        for c, il, ml, sl, fl in diffs[:4]:
            i = re.search(r"\bid=(\S+)", c).group(1)
            chk.violation("session-mismatch", "--tx/--txin session differs from the model", {"stream": name, "case": c[:6000], "built": {k: v for k, v in meta[i][0].items()},
                          "impl": [l[:1500] for l in il], "model": [l[:1500] for l in ml]})
        for c, il, why in wrong[:4]:
            i = re.search(r"\bid=(\S+)", c).group(1)
            chk.violation("validity-mismatch", why, {"stream": name, "case": c[:6000], "built": {k: v for k, v in meta[i][0].items()}, "impl": [l[:1500] for l in il]})
    chk.extra["input_distribution"] = dict(sorted(dist.items()))
    # "valid under the same flags" through the real command line: the flag set is given by NAME (--modify-flags), the spend is valid exactly
    # under that set (uncompressed keys in P2WSH need -WITNESS_PUBKEYTYPE, a non-null multisig dummy needs -NULLDUMMY, a high-S signature -LOW_S)
    import cli, vlib, os
    binary = os.path.join(vlib.build("plain"), "btcdeb")
    rng = chk.rng
    cst = chk.streams.setdefault("command-line-flags", {"cases": 0, "diffs": 0, "known": 0})
    for kind, enc, mod in (("p2wsh", "uncompressed", "-WITNESS_PUBKEYTYPE"), ("p2sh-p2wsh", "uncompressed", "-WITNESS_PUBKEYTYPE"), ("multisig", "nonnulldummy", "-NULLDUMMY"),
                           ("p2pkh", "highs", "-LOW_S"), ("p2wpkh", "uncompressed", "-WITNESS_PUBKEYTYPE")):
        c = S.build(rng, kind, enc=enc, ht=1)
        for fopt, want in ((["--modify-flags=" + mod], True), ([], False)):
            argv = fopt + ["--tx=" + c["spend"], "--txin=" + c["fund"]]
            r = cli.run(binary, argv, stdin_tty=True)
            cst["cases"] += 1; chk.evaluations += 1
            ok = r["rc"] == 0 and (r["stdout"] or b"").strip() == b"01"
            if ok != want or r["sig"]:
                cst["diffs"] += 1
                if cst["diffs"] <= 3:
                    chk.violation("validity-cli", "a %s spend (%s) run with %s is %s" % (kind, enc, fopt or "the default flags", "refused although valid under that flag set" if want else "accepted although invalid under that flag set"),
                                  {"stream": "command-line-flags", "case": ["cli-run"], "binary": "btcdeb", "argv": argv, "stdin_tty": True, "rc": r["rc"], "stdout": (r["stdout"] or b"").decode("latin1")[-200:], "stderr": (r["stderr"] or b"").decode("latin1")[-300:]})
    return chk.finish(RULE, trusted_extra=["tools/gen_spend.py + tools/refcrypto.py: independent digests (legacy, BIP143, BIP341) and signer; validity labels by construction",
                                           "elliptic-curve predicates (ECDSA/Schnorr verify, taproot tweak check) are an oracle of the model, answered by tools/refcrypto.py"])
