"""C06 - tap: printed address and witnesses verify, whatever leaf is spent. Proof: Properties/C06.v (TapProofs.v).
Tie: the real tap binary (rebuilt from the tree) vs the extracted TapTool model on every (n, index): address, emitted script
and control block; the emitted (control, script, output key) is fed to the debugger's own commitment check (vh tapcommit)."""
import itertools, os, re, hashlib, concurrent.futures
from engine import Check, run_model, run_impl
import gen_tx as T, refcrypto as R, cli, vlib

PROP_FILES = ["Properties/C06.v"]
RULE = ("internal keys (random valid x-only keys) x script lists with n = 1..12 (quick; 1..64 thorough) x EVERY spending index (exhaustive over "
        "(n, index)) plus random n up to 200 (1024 thorough) with a random index; scripts include equal scripts and 1-byte scripts whose leaf "
        "hashes sort both ways; address prefixes bcrt / tb / bc. Observed: 'Resulting Bech32m address' with and without a selected leaf, the "
        "witness (script, control block) inside 'Resulting transaction', and the result of the debugger's commitment check on it. "
        "Plus: the reported signature hash (key path / script path / script path with one or two spend arguments after the index) against an "
        "independent BIP341/342 digest, and the round trip sign -> --sig -> debugger session (witness order sig, args..., script, control). "
        "non-trivial = n >= 2; distinct = distinct (key, scripts, index, prefix)")

# leaves that use the tapscript-only opcode OP_CHECKSIGADD (0xba), the highest defined opcode
CSA_POOL = [bytes([0x20]) + bytes([7]) * 32 + b"\xac" + bytes([0x20]) + bytes([9]) * 32 + b"\xba\x51\x87", b"\x00" + bytes([0x20]) + bytes([5]) * 32 + b"\xba"]

def tagged(tag, m):
    t = hashlib.sha256(tag.encode()).digest(); return hashlib.sha256(t + t + m).digest()

def parse_tx_witness(b, vin_index):
    """independent minimal segwit tx parser: returns the witness stack of input vin_index"""
    pos = 4
    assert b[pos] == 0 and b[pos + 1] == 1; pos += 2
    def cs(pos):
        v = b[pos]
        if v < 253: return v, pos + 1
        if v == 253: return int.from_bytes(b[pos + 1:pos + 3], "little"), pos + 3
        if v == 254: return int.from_bytes(b[pos + 1:pos + 5], "little"), pos + 5
        return int.from_bytes(b[pos + 1:pos + 9], "little"), pos + 9
    nin, pos = cs(pos)
    for _ in range(nin):
        pos += 36; n, pos = cs(pos); pos += n + 4
    nout, pos = cs(pos)
    for _ in range(nout):
        pos += 8; n, pos = cs(pos); pos += n
    stacks = []
    for _ in range(nin):
        k, pos = cs(pos); st = []
        for _ in range(k):
            n, pos = cs(pos); st.append(b[pos:pos + n]); pos += n
        stacks.append(st)
    return stacks[vin_index]

SCRIPT_POOL = [b"\x51", b"\x52", b"\x00", b"\x51\x51\x93", b"\x76\xa9\x14" + bytes(20) + b"\x88\xac", b"\x20" + bytes(range(32)) + b"\xac", b"\x61", b"\x75\x51"]

def main(tier):
    chk = Check("C06", tier)
    chk.prove(PROP_FILES)
    rng = chk.rng
    bdir = vlib.build("plain")
    tapbin = os.path.join(bdir, "tap")
    jobs = []
    maxn = 12 if tier == "quick" else 64
    for n in range(1, maxn + 1):
        sk = rng.randrange(1, R.N); key = R.pubkey_xonly(sk)[0]
        scripts = [rng.choice(SCRIPT_POOL + CSA_POOL) if rng.random() < 0.5 else bytes([0x51 + rng.randrange(16)]) + bytes([0x51 + rng.randrange(16)]) + b"\x87" for _ in range(n)]
        if n >= 2 and rng.random() < 0.5:
            scripts[1] = scripts[0]
        hrp = rng.choice(["bcrt", "bcrt", "tb", "bc"])
        for idx in [None] + list(range(n)):
            jobs.append((key, scripts, idx, hrp))
    for _ in range(6 if tier == "quick" else 40):
        n = rng.randrange(13, 200 if tier == "quick" else 1024)
        sk = rng.randrange(1, R.N); key = R.pubkey_xonly(sk)[0]
        scripts = [bytes([0x51 + rng.randrange(16)]) + bytes([rng.randrange(0x51, 0x61)]) for _ in range(n)]
        jobs.append((key, scripts, rng.randrange(n), "bcrt"))
    # sibling hashes with a common prefix that contains a zero byte (and one that does not), in both orders: the branch hash must order them as
    # 32-byte strings whatever their content
    def grind(prefix):
        k = 0
        while True:
            scr = b"\x04" + k.to_bytes(4, "little") + b"\x75\x51"
            if tagged("TapLeaf", b"\xc0" + bytes([len(scr)]) + scr).startswith(prefix): return scr
            k += 1
    for prefix in (b"\x00", b"\x00", b"\x7f", b"\xff"):
        a = grind(prefix); b = a
        while b == a or not tagged("TapLeaf", b"\xc0" + bytes([len(b)]) + b).startswith(prefix):
            b = b"\x04" + rng.randrange(2 ** 32).to_bytes(4, "little") + b"\x75\x51"
        sk = rng.randrange(1, R.N); key = R.pubkey_xonly(sk)[0]
        for scripts in ([a, b], [b, a], [a, b, b"\x51"], [b"\x51", b, a]):
            for idx in [None] + list(range(len(scripts))):
                jobs.append((key, scripts, idx, "bcrt"))
    lines = []
    for i, (key, scripts, idx, hrp) in enumerate(jobs):
        l = "tap id=%d key=%s scripts=%s hrp=%s" % (i, key.hex(), ",".join(s.hex() for s in scripts), hrp)
        if idx is not None: l += " idx=%d" % idx
        lines.append(l)
    model = run_model(lines)
    def run_job(ij):
        i, (key, scripts, idx, hrp) = ij
        ml = model[str(i)][0]
        f = dict(x.split("=", 1) for x in ml.split()[2:] if "=" in x)
        argv0 = ["-p" + hrp, key.hex(), str(len(scripts))] + ["0x" + s.hex() for s in scripts]
        r1 = cli.run(tapbin, argv0 + ([str(idx)] if idx is not None else []), stdin_tty=True)
        m1 = re.search(rb"Resulting Bech32m address: (\S+)", r1["stdout"])
        res = {"addr": m1.group(1).decode() if m1 else None, "rc": r1["rc"], "sig": r1["sig"], "model": f, "stderr": r1["stderr"][-300:]}
        if idx is not None and f.get("outkey"):
            outkey = bytes.fromhex(f["outkey"])
            fund = T.make_tx(2, [(bytes(32), 0, b"", 0xffffffff)], [(100000, b"\x51\x20" + outkey)], 0)
            ftxid = hashlib.sha256(hashlib.sha256(fund).digest()).digest()
            spend = T.make_tx(2, [(ftxid, 0, b"", 0xfffffffe)], [(90000, b"\x51\x20" + bytes(32))], 0)
            r2 = cli.run(tapbin, ["-p" + hrp, "--tx=" + spend.hex(), "--txin=" + fund.hex()] + argv0[1:] + [str(idx)], stdin_tty=True)
            m2 = re.search(rb"Resulting transaction: ([0-9a-f]+)", r2["stdout"])
            res["rc2"] = r2["rc"]; res["sig2"] = r2["sig"]; res["stderr2"] = r2["stderr"][-300:]
            if m2:
                try:
                    w = parse_tx_witness(bytes.fromhex(m2.group(1).decode()), 0)
                    res["script"] = w[-2].hex(); res["control"] = w[-1].hex(); res["nitems"] = len(w)
                except Exception as e:
                    res["parse_error"] = str(e)
        return i, res
    with concurrent.futures.ThreadPoolExecutor(vlib.NCPU) as ex:
        results = dict(ex.map(run_job, list(enumerate(jobs))))
    st = chk.streams.setdefault("tap", {"cases": 0, "diffs": 0, "known": 0, "with_tx": 0})
    commit_cases = []
    for i, (key, scripts, idx, hrp) in enumerate(jobs):
        res = results[i]; f = res["model"]
        st["cases"] += 1; chk.evaluations += 1
        if len(scripts) >= 2: chk.nontrivial.add((key, tuple(scripts), idx, hrp))
        bad = None
        if res["sig"] or res["rc"] != 0: bad = "tap terminated abnormally (rc=%s sig=%s)" % (res["rc"], res["sig"])
        elif res["addr"] != f.get("addr"): bad = "printed address %s differs from the BIP341 address %s of the model" % (res["addr"], f.get("addr"))
        elif idx is not None:
            st["with_tx"] += 1
            if res.get("sig2") or res.get("rc2") != 0: bad = "tap --tx terminated abnormally (rc=%s sig=%s)" % (res.get("rc2"), res.get("sig2"))
            elif res.get("script") != scripts[idx].hex(): bad = "witness script %s is not the selected leaf %s" % (res.get("script"), scripts[idx].hex())
            elif res.get("control") != f.get("control"): bad = "control block differs from the model"
            else:
                commit_cases.append("tapcommit id=c%d control=%s program=%s script=%s" % (i, res["control"], f["outkey"], res["script"]))
        if len(chk.samples) < 5:
            chk.samples.append({"n": len(scripts), "index": idx, "hrp": hrp, "address": res["addr"], "control": (res.get("control") or "")[:80]})
        if bad:
            st["diffs"] += 1
            if st["diffs"] <= 4:
                chk.violation("tap-mismatch", bad, {"stream": "tap", "case": ["cli-run"], "binary": "tap", "argv": ["-p" + hrp, key.hex(), str(len(scripts))] + ["0x" + s.hex() for s in scripts] + ([str(idx)] if idx is not None else []),
                                                     "stdin_tty": True, "expected": f, "observed": {k: (v.decode("latin1") if isinstance(v, bytes) else v) for k, v in res.items() if k != "model"}})
    # the debugger's own commitment check accepts what tap emitted (implementation only)
    if commit_cases:
        impl = run_impl(commit_cases)
        cs_ = chk.streams.setdefault("debugger-accepts(impl only)", {"cases": 0, "diffs": 0, "known": 0})
        for c in commit_cases:
            cid = re.search(r"id=(\S+)", c).group(1)
            cs_["cases"] += 1; chk.evaluations += 1
            if " done " not in impl[cid][0]:
                cs_["diffs"] += 1
                chk.violation("tap-not-spendable", "the debugger's commitment check rejects the witness tap emitted", {"stream": "debugger-accepts", "case": c, "impl": impl[cid]})
    # ---- the reported signature hash is the BIP341/342 digest of the transaction tap outputs; signing it and passing it back gives a valid spend
    import gen_spend as S
    sh_jobs = []
    for _ in range(16 if tier == "quick" else 150):
        sk = rng.randrange(1, R.N); key = R.pubkey_xonly(sk)[0]
        lsk = rng.randrange(1, R.N); lpk = R.pubkey_xonly(lsk)[0]
        n = rng.randrange(1, 6)
        idx = rng.randrange(n)
        scripts = [bytes([0x51 + rng.randrange(16)]) for _ in range(n)]
        scripts[idx] = b"\x20" + lpk + b"\xac"
        mode = rng.choice(["key", "script", "script-args", "script-args"])
        sargs = []
        if mode == "script-args":
            # hash-locked leaf: spend arguments (the preimages) follow the leaf index; the witness must be  sig, args..., script, control
            sargs = [bytes(rng.randrange(256) for _ in range(rng.choice([1, 20, 32]))) for _ in range(rng.choice([1, 2]))]
            lock = b"".join(b"\xa8\x20" + hashlib.sha256(a).digest() + b"\x88" for a in reversed(sargs))    # the last argument is on top
            scripts[idx] = lock + b"\x20" + lpk + b"\xac"
        sh_jobs.append((sk, key, lsk, scripts, idx, mode, rng.randrange(3), rng.randrange(1, 10 ** 8), sargs, rng.choice([1, 2, 2, 3, 0x7fffffff, 0xffffffff])))
    sh_lines = ["tap id=s%d key=%s scripts=%s hrp=bcrt idx=%d" % (i, j[1].hex(), ",".join(x.hex() for x in j[3]), j[4]) for i, j in enumerate(sh_jobs)]
    sh_model = run_model(sh_lines)
    def run_sh(ij):
        i, (sk, key, lsk, scripts, idx, mode, vpos, amount, sargs, txver) = ij
        f = dict(x.split("=", 1) for x in sh_model["s%d" % i][0].split()[2:] if "=" in x)
        outkey = bytes.fromhex(f["outkey"]); spk = b"\x51\x20" + outkey
        outs = [(rng.randrange(1, 10 ** 7), bytes([0x6a, 1, k])) for k in range(vpos)] + [(amount, spk)] + [(7, b"\x51")]
        fund = S.Tx(2, [(bytes(range(32)), 0, b"", 0xffffffff)], outs, 0)
        tx = S.Tx(txver, [(fund.txid(), vpos, b"", 0xfffffffd)], [(amount - 500, b"\x51\x20" + bytes(32))], 17)       # the version is signed over
        base = ["-pbcrt", "--tx=" + tx.raw().hex(), "--txin=" + fund.raw().hex(), key.hex(), str(len(scripts))] + ["0x" + x.hex() for x in scripts]
        args = base + ([str(idx)] + ["0x" + a.hex() for a in sargs] if mode != "key" else [])
        # (every fourth job with the sighash diagnostics switched on: a logging switch must not change what is hashed)
        r1 = cli.run(tapbin, args, stdin_tty=True, stdout_tty=True, env=({"DEBUG_SIGHASH": "1"} if i % 4 == 1 else None))
        txt = (r1["stdout"] or b"") + (r1["stderr"] or b"")
        m = re.search(rb"sighash \(little endian\) = ([0-9a-f]{64})", txt)
        if mode != "key":
            lh = tagged("TapLeaf", bytes([0xc0]) + S.cs(len(scripts[idx])) + scripts[idx])
            want = S.bip341_digest(tx, 0, 0, [(amount, spk)], 1, leaf_hash=lh)
            sig = R.schnorr_sign(want, lsk)
        else:
            want = S.bip341_digest(tx, 0, 0, [(amount, spk)], 0)
            d = sk if R.mul(sk, R.G)[1] % 2 == 0 else R.N - sk
            sig = R.schnorr_sign(want, (d + int(f["tweak"], 16)) % R.N)
            if i % 3 == 0:
                # a signature that begins with the annex tag 0x50: as the only witness item it is still the signature
                for k in range(1, 4000):
                    sig = R.schnorr_sign(want, (d + int(f["tweak"], 16)) % R.N, aux=k.to_bytes(32, "big"))
                    if sig[0] == 0x50: break
        r2 = cli.run(tapbin, ["--sig=" + sig.hex()] + args, stdin_tty=True)
        m2 = re.search(rb"Resulting transaction: ([0-9a-f]+)", r2["stdout"] or b"")
        return i, {"reported": m.group(1).decode() if m else None, "want": want.hex(), "signed_tx": m2.group(1).decode() if m2 else None, "fund": fund.raw().hex(), "argv": args,
                   "rc": r1["rc"], "sig": r1["sig"], "stderr": (r1["stderr"] or b"")[-300:].decode("latin1")}
    with concurrent.futures.ThreadPoolExecutor(vlib.NCPU) as ex:
        sh_res = dict(ex.map(run_sh, list(enumerate(sh_jobs))))
    st2 = chk.streams.setdefault("sighash", {"cases": 0, "diffs": 0, "known": 0})
    rt_cases = []
    for i, j in enumerate(sh_jobs):
        r = sh_res[i]; st2["cases"] += 1; chk.evaluations += 1; chk.nontrivial.add(("sighash", i, j[5], j[6]))
        bad = None
        if r["reported"] is None: bad = "tap did not report a signature hash (rc=%s sig=%s)" % (r["rc"], r["sig"])
        elif r["reported"] != r["want"]: bad = "reported signature hash %s is not the BIP341/342 digest %s of the transaction (%s path, spent output #%d)" % (r["reported"], r["want"], j[5], j[6])
        elif r["signed_tx"] is None: bad = "tap --sig produced no transaction"
        else: rt_cases.append("spend id=rt%d tx=%s txin=%s flags=%d cmds=c" % (i, r["signed_tx"].encode().hex(), r["fund"].encode().hex(), 0x1FFFDF))
        if bad:
            st2["diffs"] += 1
            if st2["diffs"] <= 3:
                chk.violation("tap-sighash", bad, {"stream": "sighash", "binary": "tap", "argv": r["argv"], "stdin_tty": True, "stdout_tty": True, "observed": r})
    if rt_cases:
        impl = run_impl(rt_cases)
        st3 = chk.streams.setdefault("round-trip(impl only)", {"cases": 0, "diffs": 0, "known": 0})
        for c in rt_cases:
            cid = re.search(r"id=(\S+)", c).group(1)
            st3["cases"] += 1; chk.evaluations += 1
            last = [l for l in impl.get(cid, []) if re.match(r"R \S+ #\d+ ", l)]
            if not (last and " done=1 " in last[-1] and " err=0 " in last[-1] and " st=01 " in last[-1]):
                st3["diffs"] += 1
                if st3["diffs"] <= 3:
                    chk.violation("tap-round-trip", "a signature over the reported digest, passed back with --sig, does not give a spend the debugger accepts", {"stream": "round-trip", "case": c[:6000], "impl": [l[:600] for l in impl.get(cid, [])[-3:]]})
    chk.extra["exhaustive"] = True
    chk.extra["exhaustive_part"] = "every (n, index) with n <= %d" % maxn
    return chk.finish(RULE, trusted_extra=["tools/refcrypto.py answers the model's xonly-tweak-add oracle"])
