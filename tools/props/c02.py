"""C02 - signature opcodes accept exactly the signatures valid for the BIP-defined digest.
Proof: Properties/C02.v (SigProofs.v): the digest models (legacy, BIP143, BIP341) against their reference definitions, encoding-rule
selection by flags, exactness of CHECKSIG/CHECKSIGADD w.r.t. the verification oracle, in-order multisig matching, tapscript weight.
Tie: vh `spend` sessions vs the extracted model INCLUDING the arguments (digest, key, signature) of every signature verification,
observed in the implementation by link-time wrapping of CPubKey::Verify / XOnlyPubKey::VerifySchnorr; plus validity by construction
from the independent signer tools/gen_spend.py (its own digest implementations)."""
import itertools, re
from engine import Check
import gen_spend as S
import gen_tx as T
from props.c03 import session_ok, hx, STD

PROP_FILES = ["Properties/C02.v"]
RULE = ("independently signed spends: ECDSA kinds (p2pk, p2pkh, bare/P2SH/P2WSH multisig, p2wpkh, wrapped) x hash-type bytes (64 sampled + all defined; all 256 "
        "thorough) x 1..3 inputs x position; Schnorr kinds x defined and undefined hash types x annex; SIGHASH_SINGLE without matching output; code separators "
        "executed / in unexecuted branches for legacy, BIP143 and tapscript; encoding variants (high S, padded DER, uncompressed key in segwit, non-null dummy, "
        "undefined hash type, unknown tapscript key type) x subsets of {DERSIG, LOW_S, STRICTENC, NULLFAIL, NULLDUMMY, WITNESS_PUBKEYTYPE, CONST_SCRIPTCODE, "
        "DISCOURAGE_UPGRADABLE_PUBKEYTYPE}; single-bit corruptions of the satisfaction, alterations of signed fields (invalid) and of unsigned fields (still "
        "valid) per hash type; 2-of-3 signature orders; tapscript validation-weight budgets around the limit. Compared: full session state and the (digest, "
        "key, signature) of every verification, implementation vs model, and outcome vs validity by construction. "
        "non-trivial = a session was configured; distinct = distinct (pair, flags)")

ECDSA = ["p2pk", "p2pkh", "multisig", "p2sh", "p2wpkh", "p2sh-p2wpkh", "p2wsh", "p2sh-p2wsh"]
CODESEP = ["p2sh-codesep", "p2sh-cs-unexec", "p2wsh-codesep", "p2wsh-cs-unexec", "p2tr-codesep", "p2tr-cs-unexec"]
SCHNORR = ["p2tr-key", "p2tr-script", "p2tr-csa"]
ENCFLAGS = [S.F_DERSIG, S.F_LOW_S, S.F_STRICTENC, S.F_NULLFAIL, S.F_NULLDUMMY, S.F_WPK, S.F_CONST, S.F_DUP]

def gen(chk):
    rng = chk.rng
    q = chk.tier == "quick"
    cid = itertools.count(1)
    meta = {}
    streams = {}
    def add(stream, c, flags=STD, cmds="c"):
        i = "g%d" % next(cid)
        meta[i] = (c, flags)
        streams.setdefault(stream, []).append("spend id=%s tx=%s txin=%s flags=%d cmds=%s" % (i, hx(c["spend"]), hx(c["fund"]), flags, cmds))
    def shape():
        nin = rng.choice([1, 1, 2, 3]); return nin, rng.randrange(nin)
    # hash types, ECDSA
    hts = sorted(set([0, 1, 2, 3, 4, 0x80, 0x81, 0x82, 0x83, 0x84, 0x41, 0x1f, 0x21, 0x22, 0x23, 0xff] + ([rng.randrange(256) for _ in range(40)] if q else list(range(256)))))
    for k in ECDSA:
        for ht in hts:
            nin, pos = shape()
            c = S.build(rng, k, nin=nin, pos=pos, ht=ht)
            add("ecdsa-hashtype", c); add("ecdsa-hashtype", c, STD & ~S.F_STRICTENC)
    # hash types, Schnorr
    for k in SCHNORR:
        for ht in [0, 1, 2, 3, 0x81, 0x82, 0x83, 4, 0x80, 0x84, 0x7f, 0x40, 0xff] + [rng.randrange(256) for _ in range(6 if q else 60)]:
            for annex in (None, bytes([0x50]) + T.rb(rng, rng.randrange(0, 5))):
                nin, pos = shape()
                add("schnorr-hashtype", S.build(rng, k, nin=nin, pos=pos, ht=ht, annex=annex))
    # SIGHASH_SINGLE without a matching output
    for k in ECDSA + SCHNORR:
        for ht in (3, 0x83):
            for nin, pos in ((1, 0), (2, 1), (3, 2), (3, 1)):
                add("single-oob", S.build(rng, k, nin=nin, pos=pos, ht=ht, mutate="single-oob"), STD & ~S.F_CONST)
    # code separators
    for k in CODESEP:
        for _ in range(2 if q else 12):
            for mut in (None, "wrongkey", "sigbyte"):
                nin, pos = (1, 0) if k.startswith("p2tr") and rng.random() < 0.8 else shape()
                ht = rng.choice([1, 2, 3, 0x81, 0x82, 0x83]) if not k.startswith("p2tr") else rng.choice([0, 1, 2, 3, 0x81, 0x83])
                c = S.build(rng, k, nin=nin, pos=pos, ht=ht, mutate=mut, annex=(b"\x50\x01" if k.startswith("p2tr") and rng.random() < 0.3 else None))
                add("codesep", c, STD & ~S.F_CONST); add("codesep", c, STD)
    # FindAndDelete: the executing script contains pushes of the signature it verifies (first, before a NOP, at the very end)
    for wn in (0, 1, 2):
        for _ in range(2 if q else 10):
            for mut in (None, "wrongkey"):
                nin, pos = shape()
                c = S.build(rng, "bare-fad", nin=nin, pos=pos, ht=rng.choice([1, 2, 3, 0x81]), mutate=mut, wn=wn)
                add("codesep", c, STD & ~S.F_CONST); add("codesep", c, STD)
    # the code separator position after REWINDS (tapscript signs over the position of the last executed OP_CODESEPARATOR): walk forward, back, on
    for k in CODESEP:
        for _ in range(2 if q else 10):
            nin, pos = (1, 0) if k.startswith("p2tr") else shape()
            c = S.build(rng, k, nin=nin, pos=pos, ht=(1 if not k.startswith("p2tr") else 0))
            a = rng.randrange(1, 8); b = rng.randrange(1, a + 1)
            add("codesep", c, STD & ~S.F_CONST, cmds=",".join(["s"] * a + ["r"] * b + ["s"] * rng.randrange(0, 4) + ["r"] * rng.randrange(0, 2) + ["c"]))
    # encoding variants x flag subsets
    for k in ECDSA + ["p2sh-codesep", "p2tr-keytype"]:
        for enc in (None, "highs", "padded", "uncompressed", "nonnulldummy"):
            if k == "p2tr-keytype" and enc: continue
            for _ in range(3 if q else 20):
                nin, pos = (1, 0) if k.startswith("p2tr") else shape()
                ht = rng.choice([1, 1, 3, 0x82, 0x05]) if not k.startswith("p2tr") else 0
                c = S.build(rng, k, nin=nin, pos=pos, ht=ht, enc=enc, mutate=rng.choice([None, None, None, "wrongkey"]))
                for _ in range(2 if q else 4):
                    fl = STD
                    for f in ENCFLAGS:
                        if rng.random() < 0.5: fl &= ~f
                    add("encoding", c, fl)
    # corruptions
    for k in ECDSA + SCHNORR + CODESEP:
        tap = k.startswith("p2tr")
        for _ in range(6 if q else 150):
            nin, pos = (1, 0) if tap else shape()
            add("corrupt", S.build(rng, k, nin=nin, pos=pos, ht=(rng.choice([0, 1]) if tap else 1), mutate="sat-bit", annex=(b"\x50\xaa" if tap and rng.random() < 0.3 else None)), STD & ~S.F_CONST)
        for ht in ([1, 2, 3, 0x81, 0x82, 0x83] if not tap else [0, 1, 2, 3, 0x81, 0x82, 0x83]):
            for mut in ("unsigned", "locktime", "sequence", "amount"):
                if mut == "amount" and k in ("p2pk", "p2pkh", "multisig", "p2sh", "p2sh-codesep", "p2sh-cs-unexec"): continue
                nin, pos = (rng.choice([2, 3]), 0) if not tap else (1, 0)
                if not tap: pos = rng.randrange(nin)
                add("fields", S.build(rng, k, nin=nin, pos=pos, ht=ht, mutate=mut), STD & ~S.F_CONST)
    # multisig orders
    for k in ("multisig", "p2wsh", "p2sh-p2wsh"):
        for _ in range(4 if q else 40):
            for mut in (None, "sigorder"):
                nin, pos = shape()
                add("multisig-order", S.build(rng, k, nin=nin, pos=pos, mutate=mut))
    # validation weight
    for wn in range(1, 17):
        for annex in (None, b"\x50" + bytes(40)):
            add("weight", S.build(rng, "p2tr-weight", wn=wn, ht=rng.choice([0, 1]), annex=annex))
    # budgets used up exactly, one short, one spare (annex sized accordingly)
    for wn in range(9, 24):
        for delta in (-1, 0, 1):
            add("weight", S.build(rng, "p2tr-weight", wn=wn, ht=rng.choice([0, 1]), annex="auto%d" % delta))
    return streams, meta

def main(tier):
    chk = Check("C02", tier)
    chk.prove(PROP_FILES)
    streams, meta = gen(chk)
    dist = {}
    nver = [0]
    for name, cases in streams.items():
        wrong = []
        def inspect(c, il, ml):
            i = re.search(r"\bid=(\S+)", c).group(1)
            cm, flags = meta[i]
            head = il[0].split()[2] if il and len(il[0].split()) > 2 else "?"
            ok = session_ok(il)
            nver[0] += sum(1 for l in il if " D ecdsa " in l or " D schnorr " in l)
            key = "%s/%s/%s/%s" % (name, cm["kind"], cm.get("mutate") or cm.get("enc") or "-", "ok" if ok else head if head != "cfg" else "fails")
            dist[key] = dist.get(key, 0) + 1
            expect = bool(cm["valid"]) and (flags & cm["needs_off"]) == 0
            if expect and not ok and cm.get("finding") == "multi-input-taproot":
                chk.note_known("F31", c, name)
            elif ok != expect:
                wrong.append((c, il, "session outcome %s but the input is %s by construction under flags %#x (%s, ht=%#x, mutate=%s, enc=%s)" %
                              (ok, "valid" if expect else "invalid", flags, cm.get("note", cm["kind"]), cm["ht"], cm.get("mutate"), cm.get("enc"))))
        diffs = chk.compare(name, cases, nontrivial=lambda c, il: bool(il) and " cfg " in il[0], inspect=inspect)
        for c, il, ml, sl, fl in diffs[:3]:
            i = re.search(r"\bid=(\S+)", c).group(1)
            chk.violation("signature-mismatch", "session / verified digests differ from the model", {"stream": name, "case": c[:6000], "built": meta[i][0], "flags": meta[i][1],
                          "impl": [l[:1500] for l in il], "model": [l[:1500] for l in ml]})
        for c, il, why in wrong[:3]:
            i = re.search(r"\bid=(\S+)", c).group(1)
            chk.violation("validity-mismatch", why, {"stream": name, "case": c[:6000], "built": meta[i][0], "flags": meta[i][1], "impl": [l[:1500] for l in il]})
    chk.extra["input_distribution"] = dict(sorted(dist.items()))
    chk.extra["signature_verifications_compared"] = nver[0]
    return chk.finish(RULE, trusted_extra=["tools/gen_spend.py + tools/refcrypto.py: independent digests (legacy, BIP143, BIP341) and signer; validity labels by construction",
                                           "elliptic-curve predicates (ECDSA/Schnorr verify, low-S, taproot tweak check) are oracles of the model, answered by tools/refcrypto.py",
                                           "harness observes CPubKey::Verify / XOnlyPubKey::VerifySchnorr arguments by ld --wrap (no source hook)"])
