"""C09 - flag modification is exact; flags only restrict. Proof: Properties/C09.v (generated svf table / STANDARD set / flag sites).
Tie: (1) --default-flags and -f<list> -v (interactive, through a pty) listings of the real binary vs Cli.svf_parse_flags;
(2) behavioural probes per flag in non-interactive mode; (3) paired runs of the implementation under inclusion chains of
flag sets (success under B must imply success under A for A <= B), the same sessions also compared with the model."""
import itertools, os, re, concurrent.futures
from engine import Check, run_model, run_impl
import gen_scripts as G, cli, vlib, ptyrun

STD_ = 0x1FFFDF
PROP_FILES = ["Properties/C09.v"]
RULE = ("flag lists: every single +NAME / -NAME over the 21 names, random lists (duplicates, both orders), malformed lists (no sign, unknown name, "
        "empty token, trailing comma, over-long token) through the real binary (-d, and -f<list> -v under a pseudo-terminal); one behavioural "
        "probe per execution-relevant flag (+X / -X must flip exactly that probe); monotonicity: C01 grammar scripts and flag probes run under "
        "chains A0 <= A1 <= ... of flag sets. non-trivial = list with at least one modification / pair where the two runs differ")

def th(t):
    return t.encode("latin1").hex() if t else "-"

def names():
    return G.info()["Gen/CliTables.v"]["svf"]

def listing_from_binary(bdir, fmod):
    banner, outs, status = ptyrun.repl(os.path.join(bdir, "btcdeb"), ["-v", "-f" + fmod], [], timeout=3.0)
    txt = banner
    if "resulting flags:" not in txt:
        return None, txt
    part = txt.split("resulting flags:", 1)[1]
    got = []
    for l in part.split("\n")[1:]:
        l = l.strip().replace("\r", "")
        m = re.match(r"^\S+\s+([A-Z_0-9]+)$", l)
        if m:
            got.append(m.group(1))
        elif l == "(none)":
            pass
        elif got or l.startswith("btcdeb") or l.startswith("LOG") or not l:
            if got: break
    return got, txt

def main(tier):
    chk = Check("C09", tier)
    chk.prove(PROP_FILES)
    rng = chk.rng
    bdir = vlib.build("plain")
    N = names()
    # ---- (1) parsing
    mods = []
    for n in N:
        mods += ["+" + n, "-" + n]
    for _ in range(40 if tier == "quick" else 400):
        k = rng.randrange(2, 7)
        mods.append(",".join(rng.choice("+-") + rng.choice(N) for _ in range(k)))
    bad = ["P2SH", "+FOO", "", "+P2SH,", ",+P2SH", "+P2SH,,-P2SH", "+", "-", "+p2sh", " +P2SH", "+P2SH -P2SH", "+" + "A" * 126, "+" + "A" * 127, "+" + "A" * 128, "+" + "A" * 300,
           "+NULLDUMMY,+" + "B" * 200]
    lines = ["flags id=%d f=%s" % (i, th(m)) for i, m in enumerate(mods + bad)]
    model = run_model(lines)
    st = chk.streams.setdefault("flag-lists", {"cases": 0, "diffs": 0, "known": 0, "accepted": 0, "rejected": 0})
    def probe(idx_mod):
        i, m = idx_mod
        ml = model[str(i)][0]
        if "exit1" in ml:
            r = cli.run(os.path.join(bdir, "btcdeb"), ["-f" + m, "[OP_1]"], stdin_tty=True)
            ok = (r["rc"] == 1 and not r["sig"] and b"svf_parse_flags" in r["stderr"])
            return i, m, ml, ok, "rc=%s sig=%s stderr=%r" % (r["rc"], r["sig"], r["stderr"][:200])
        exp = re.search(r"names=(\S*)", ml).group(1).split(",") if re.search(r"names=(\S*)", ml).group(1) else []
        got, txt = listing_from_binary(bdir, m)
        return i, m, ml, got == exp, "listing=%r" % (got,)
    with concurrent.futures.ThreadPoolExecutor(8) as ex:
        for i, m, ml, ok, info in ex.map(probe, list(enumerate(mods + bad))):
            st["cases"] += 1; chk.evaluations += 1
            st["rejected" if "exit1" in ml else "accepted"] += 1
            if m: chk.nontrivial.add(("list", m))
            if len(chk.samples) < 4:
                chk.samples.append({"flag_list": m[:80], "model": ml[:200], "binary": info[:200]})
            if not ok:
                st["diffs"] += 1
                if st["diffs"] <= 3:
                    chk.violation("flag-list-mismatch", "resulting flag set / rejection differs from the model", {"stream": "flag-lists", "case": ["cli-run"], "binary": "btcdeb",
                                  "argv": ["-v", "-f" + m], "stdin_tty": True, "expected": ml, "observed": info})
    # --default-flags
    r = cli.run(os.path.join(bdir, "btcdeb"), ["-d"], stdin_tty=True)
    got = re.findall(r"^\S+\s+([A-Z_0-9]+)\s*$", r["stdout"].decode("utf-8", "replace"), re.M)
    std = [n for n in N if G.FLAG(n) & G.STANDARD()]
    chk.evaluations += 1
    if got != std or r["rc"] != 0:
        chk.violation("default-flags-mismatch", "--default-flags does not list exactly the standard set", {"stream": "default-flags", "case": ["cli-run"], "binary": "btcdeb", "argv": ["-d"], "stdin_tty": True,
                      "expected": std, "observed": got})
    chk.streams["default-flags"] = {"cases": 1, "diffs": int(got != std), "known": 0}
    # ---- (2) behavioural probes: (flag, script text, stack args, outcome with the flag set, outcome with it cleared)
    probes = [("MINIMALDATA", "4c0105", [], 1, 0), ("DISCOURAGE_UPGRADABLE_NOPS", "[OP_NOP4 OP_1]", [], 1, 0), ("CHECKLOCKTIMEVERIFY", "[OP_CHECKLOCKTIMEVERIFY]", ["5"], 1, 0),
              ("CHECKSEQUENCEVERIFY", "[OP_CHECKSEQUENCEVERIFY]", ["5"], 1, 0), ("NULLDUMMY", "[OP_CHECKMULTISIG]", ["1", "0", "0"], 1, 0),
              ("CONST_SCRIPTCODE", "[OP_CODESEPARATOR OP_1]", [], 1, 0), ("STRICTENC", "[OP_CHECKSIG OP_NOT]", ["0x3006020101020101ff", "0x02" + "11" * 32], 1, 0),
              ("DERSIG", "[OP_CHECKSIG OP_NOT]", ["0x01", "0x02" + "11" * 32], 1, 0)]
    ps = chk.streams.setdefault("behavioural-probes", {"cases": 0, "diffs": 0, "known": 0})
    others_off = ",".join("-" + n for n in N)
    for flag, scr, st_args, with_rc, without_rc in probes:
        for sign, exp in (("+", with_rc), ("-", without_rc)):
            fm = others_off + "," + sign + flag
            r = cli.run(os.path.join(bdir, "btcdeb"), ["-f" + fm, scr] + st_args, stdin_tty=True)
            ps["cases"] += 1; chk.evaluations += 1
            chk.nontrivial.add(("probe", flag, sign))
            # also through the model
            ml = run_model(["cli id=0 script=%s args=%s z=0 f=%s" % (th(scr), ",".join(th(a) for a in st_args), th(fm))])["0"][0]
            mrc = 0 if " ok " in ml else 1
            if r["rc"] != exp or r["sig"] or mrc != exp:
                ps["diffs"] += 1
                chk.violation("flag-probe-mismatch", "flag %s%s: expected exit %d (binary rc=%s, model %s)" % (sign, flag, exp, r["rc"], ml[:80]),
                              {"stream": "behavioural-probes", "case": ["cli-run"], "binary": "btcdeb", "argv": ["-f" + fm, scr] + st_args, "stdin_tty": True, "expected": exp})
    # ---- (3) monotonicity on the implementation (and model agreement on the same sessions)
    exec_flags = [G.FLAG(n) for n in G.EXEC_FLAG_NAMES]
    cases = []
    meta = {}
    cid = itertools.count(1)
    nchains = 300 if tier == "quick" else 6000
    nenc = 500 if tier == "quick" else 8000          # chains over the signature / key encoding rules (below)
    for ci in range(nchains + nenc):
        if rng.random() < 0.5:
            scr = G.rand_script(rng, rng.choice([3, 6, 10, 16]), allow_sig=rng.random() < 0.3)
        else:
            scr = rng.choice([b"\x4c\x01\x05", bytes([G.OP("OP_NOP4"), G.OP("OP_1")]), bytes([G.OP("OP_1"), G.OP("OP_CHECKLOCKTIMEVERIFY")]), bytes([G.OP("OP_CODESEPARATOR")]),
                              bytes([G.OP("OP_0"), G.OP("OP_0"), G.OP("OP_0"), G.OP("OP_CHECKMULTISIG")]), b"\x01\x02" + bytes([G.OP("OP_IF"), G.OP("OP_ENDIF")])])
        st = G.rand_stack(rng, 3)
        sv = rng.choice((0, 1, 3))
        order = exec_flags[:]; rng.shuffle(order)
        if ci >= nchains:
            # signature / key ENCODING rules (DERSIG, LOW_S, STRICTENC, NULLFAIL, WITNESS_PUBKEYTYPE) in every combination: crafted signatures
            # (DER-valid low-S with defined / undefined hash types, high-S, padded DER, garbage, empty) x key shapes; no transaction, so the
            # check itself fails and only the encoding rules and NULLFAIL decide
            N_ = 0xFFFFFFFFFFFFFFFFFFFFFFFFFFFFFFFEBAAEDCE6AF48A03BBFD25E8CD0364141
            def der(r, s_, pad=False):
                def i(v):
                    b = v.to_bytes((v.bit_length() + 8) // 8 or 1, "big")
                    return b"\x02" + bytes([len(b) + (1 if pad else 0)]) + (b"\x00" if pad else b"") + b
                body = i(r) + i(s_)
                return b"\x30" + bytes([len(body)]) + body
            sig = rng.choice([der(1, 1), der(rng.getrandbits(255) | 1, rng.getrandbits(250) | 1), der(1, N_ - 1), der(1, 1, pad=True), b"\x30\x06\x02\x01", b""])
            if sig: sig += bytes([rng.choice([1, 2, 3, 0x81, 0x83, 0, 4, 5, 0x80, 0x84, 0xff])])
            key = rng.choice([b"\x02" + bytes(rng.randrange(256) for _ in range(32)), b"\x04" + bytes(rng.randrange(256) for _ in range(64)),
                              b"\x06" + bytes(rng.randrange(256) for _ in range(64)), bytes(rng.randrange(256) for _ in range(rng.choice([1, 33, 65]))), b""])
            scr = G.push(sig) + G.push(key) + bytes([G.OP("OP_CHECKSIG"), G.OP("OP_NOT")]) if rng.random() < 0.7 else \
                  bytes([G.OP("OP_0")]) + G.push(sig) + bytes([G.OP("OP_1")]) + G.push(key) + bytes([G.OP("OP_1"), G.OP("OP_CHECKMULTISIG"), G.OP("OP_NOT")])
            st = []
            sv = rng.choice((0, 1))
            enc = [G.FLAG(n) for n in ("DERSIG", "LOW_S", "STRICTENC", "NULLFAIL", "WITNESS_PUBKEYTYPE", "NULLDUMMY")]
            rng.shuffle(enc); order = enc + order
        f = 0
        chain = [0]
        for b in order[:rng.randrange(1, 7)]:
            f |= b; chain.append(f)
        key = next(cid)
        zz = 0
        if ci < nchains and rng.random() < 0.15:
            # the re-enabled opcodes (-z) read their operands under the same MINIMALDATA rule
            scr = rng.choice([b"\x03\xaa\xbb\xcc\x52\x80", b"\x03\xaa\xbb\xcc\x52\x81", b"\x03\xaa\xbb\xcc\x51\x51\x7f", b"\x57\x52\x96", b"\x02\x07\x00\x52\x97",
                              b"\x55\x8d", b"\x01\x05\x8e", b"\x02\x01\x00\x02\x02\x00\x95", b"\x51\x02\x02\x00\x98", b"\x03\xaa\xbb\xcc\x02\x02\x00\x80"])
            st = []; zz = 1; sv = rng.choice((0, 1))
        for j, fl in enumerate(chain):
            i = "%d.%d" % (key, j)
            cases.append(G.case(i, scr, st, fl, sv, "c", zz))
        meta[key] = len(chain)
    # session-level flags on real spends: SIGPUSHONLY x P2SH on outputs that are / are not pay-to-script-hash, scriptSigs that are / are not push-only
    import gen_spend as S
    hx = lambda t: t.encode().hex()
    P2SH_, SPO = 1, 1 << 5
    for kind, mut, wn in (("bare-if", "altown", 0), ("bare-if", None, 0), ("bare-fad", None, 0), ("bare-fad", None, 1), ("p2sh", None, 0), ("p2sh-smallint", None, 15),
                          ("p2pkh", None, 0), ("bare-if", "nosig-true", 0)):
        for _ in range(1 if tier == "quick" else 6):
            c = S.build(rng, kind, mutate=mut, wn=wn, ht=1)
            base = STD_ & ~(1 << 16) & ~P2SH_ & ~SPO
            for chain in ([base, base | SPO, base | SPO | P2SH_], [base, base | P2SH_, base | P2SH_ | SPO]):
                key = next(cid)
                for j, fl in enumerate(chain):
                    cases.append("spend id=%d.%d tx=%s txin=%s flags=%d cmds=c" % (key, j, hx(c["spend"]), hx(c["fund"]), fl))
                meta[key] = len(chain)
    # tapscript: a key of unknown type (33 bytes) is accepted unless DISCOURAGE_UPGRADABLE_PUBKEYTYPE is set - that flag and no other
    PKT, TVER = G.FLAG("DISCOURAGE_UPGRADABLE_PUBKEYTYPE"), G.FLAG("DISCOURAGE_UPGRADABLE_TAPROOT_VERSION")
    for _ in range(2 if tier == "quick" else 10):
        c = S.build(rng, "p2tr-keytype", ht=0)
        base = STD_ & ~PKT & ~TVER
        for chain in ([base, base | TVER, base | TVER | PKT], [base, base | PKT, base | PKT | TVER], [base & ~G.FLAG("DISCOURAGE_OP_SUCCESS"), base]):
            key = next(cid)
            for j, fl in enumerate(chain):
                cases.append("spend id=%d.%d tx=%s txin=%s flags=%d cmds=c" % (key, j, hx(c["spend"]), hx(c["fund"]), fl))
            meta[key] = len(chain)
    diffs = chk.compare("flag-chains", cases, nontrivial=lambda c, il: True)
    for c, il, ml, sl, fl in diffs[:3]:
        chk.violation("chain-model-mismatch", "session under a flag set differs from the model", {"stream": "flag-chains", "case": c, "impl": il[-1:], "model": ml[-1:]})
    impl = run_impl(cases)
    ms = chk.streams.setdefault("monotonicity(impl only)", {"cases": 0, "diffs": 0, "known": 0, "pairs_where_outcome_differs": 0})
    byid = {re.search(r"id=(\S+)", c).group(1): c for c in cases}
    for key, n in meta.items():
        res = []
        for j in range(n):
            l = impl["%d.%d" % (key, j)][-1]
            res.append(" ret=1 " in l and " done=1 " in l)
        for j in range(1, n):
            ms["cases"] += 1
            if res[j] != res[j - 1]:
                ms["pairs_where_outcome_differs"] += 1
            if res[j] and not res[j - 1]:
                ms["diffs"] += 1
                chk.violation("flags-not-monotone", "script succeeds under the larger flag set but fails under the smaller one",
                              {"stream": "monotonicity", "case": [byid["%d.%d" % (key, j - 1)], byid["%d.%d" % (key, j)]]})
    return chk.finish(RULE)
