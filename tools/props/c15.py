"""C15 - no input makes the tools crash or touch memory they do not own.
Proof: Properties/C15.v (SafetyProofs.v): the modelled core has no crash outcome - every step of every session state that setup can produce returns a
result, an error or a caught exception (none of the model's explicit crash results: failed assertion, dangling iterator, division by zero, shift / signed
overflow), and session configuration never indexes outside the funding transaction. The model's results are tied to the tree by the other properties' checks.
Runtime part (what a model cannot exhibit: reads/writes outside allocated memory, use after free, uninitialised reads, mismatched deallocation): the tree is rebuilt
with AddressSanitizer + UndefinedBehaviorSanitizer and fed the well-formed inputs of every other property plus structure-aware mutations of them, command-line
and interactive fuzzing of btcdeb / btcc / tap; thorough adds valgrind memcheck runs of the unsanitised binaries."""
import itertools, os, re, random, importlib, concurrent.futures, subprocess
from engine import Check, run_impl
import gen_tx as T
import gen_scripts as G
import gen_spend as S
import cli, ptyrun, vlib

PROP_FILES = ["Properties/C15.v"]
RULE = ("ASan+UBSan build of the tree. (1) harness streams of C01-C18 (scripts, sessions with step/rewind/exec, values, transforms, transactions, spends, commitments) "
        "sampled, plus mutations of them: byte flips / truncation / insertion / length-field corruption inside every hex field, field removal, oversized counts; "
        "(2) btcc, tap, btcdeb command lines: option values (--tx, --txin, --select, --pretend-valid, --modify-flags, --dataset, -v/-q/-z), malformed hex, empty "
        "strings, nesting, out-of-range indices, stdin scripts incl. empty input; (3) interactive sessions through a pty with random command lines (step, rewind, "
        "exec, tf <every transform> <adversarial args>, print, stack, altstack, vfexec, help, unknown commands, very long lines); thorough: valgrind memcheck over a "
        "sample of (2). A violation is a terminating signal, a sanitizer report, a failed assertion, an uncaught exception (abort) or a valgrind error. "
        "non-trivial = the input passed argument parsing; distinct = distinct inputs")

SAN_PAT = re.compile(rb"AddressSanitizer|runtime error:|LeakSanitizer|Assertion .* failed|terminate called|SUMMARY: UndefinedBehaviorSanitizer")
ENV = {"ASAN_OPTIONS": "detect_leaks=0:abort_on_error=1:handle_abort=1", "UBSAN_OPTIONS": "halt_on_error=1:abort_on_error=1:print_stacktrace=1"}

class Stub:
    def __init__(self, seed, tier):
        self.rng = random.Random(seed); self.tier = tier; self.seed = seed
        self.extra = {}; self.streams = {}; self.notes = []; self.samples = []; self.evaluations = 0; self.nontrivial = set()

def harvest(seed, tier):
    """case lines of the other properties' generators"""
    out = {}
    for mod, fn in [("c01", "gen"), ("c04", "gen"), ("c05", "gen"), ("c07", "gen"), ("c10", "gen"), ("c13", "gen"), ("c14", "gen"), ("c16", "gen"), ("c17", "gen"), ("c18", "gen_cases"),
                    ("c02", "gen"), ("c03", "gen"), ("c11", "gen")]:
        try:
            m = importlib.import_module("props." + mod)
            r = getattr(m, fn)(Stub(seed * 31 + int(mod[1:]), "quick"))
        except Exception as ex:
            out[mod + ":generator-error:" + type(ex).__name__ + ":" + str(ex)[:80]] = []
            continue
        if isinstance(r, tuple): r = r[0]
        if isinstance(r, dict):
            for k, v in r.items():
                lines = [x for x in v if isinstance(x, str)]
                if lines: out[mod + ":" + k] = lines
    return out

HEXF = re.compile(r"\b(scr|st|succ|tx|txin|a|i|expr|name|args|toks|pv|cmds|control|program|script|v|d)=([0-9a-fA-F,+:\-]+)")
def mutate_line(rng, line):
    fields = list(HEXF.finditer(line))
    if not fields: return line
    m = rng.choice(fields)
    key, val = m.group(1), m.group(2)
    parts = re.split(r"([,+:])", val)
    idx = [i for i, p in enumerate(parts) if re.fullmatch(r"[0-9a-fA-F]+", p) and len(p) % 2 == 0]
    if not idx: return line
    j = rng.choice(idx)
    b = bytes.fromhex(parts[j])
    inner = key in ("tx", "txin", "a", "i")
    if inner:
        try:
            txt = b.decode("latin1")
            if re.fullmatch(r"[0-9a-fA-F]*", txt) and len(txt) % 2 == 0 and rng.random() < 0.8:
                b = T.mutate(rng, bytes.fromhex(txt)).hex().encode()
            else:
                b = T.mutate(rng, b)
        except Exception:
            b = T.mutate(rng, b)
    else:
        b = T.mutate(rng, b)
    parts[j] = b.hex() if b else "-"
    return line[:m.start(2)] + "".join(parts) + line[m.end(2):]

def cli_cases(rng, n):
    """(binary, argv, stdin or None)"""
    out = []
    real = T.real_txs()
    txs = [b.hex() for _, b in real]
    def mhex(h):
        b = bytes.fromhex(h)
        for _ in range(rng.randrange(1, 3)): b = T.mutate(rng, b)
        return b.hex()
    junk = ["", " ", "0x", "zz", "-1", "99999999999999999999", "[", "]", "[[[[[[", "(" * 40, "sha256(", "a" * 3000, "0x" + "ff" * 600, "OP_", "\x01\x02", "%s%s%n", "0x0", "1e999", "-",
            "tb1q", "BC1QW508D6QEJXTDG4Y5R3ZARVARY0C5XW7KV8F3T4", "bc1" + "q" * 90, "1" * 40, "aa:bb", "aa:", ":", ",,,", "=", "--", "-f", "+ALL", "-" * 400]
    spends = [S.build(rng, k) for k in ("p2pkh", "p2sh", "p2wsh", "p2tr-script", "p2tr-key")]
    def mhex(h):
        b = bytes.fromhex(h)
        for _ in range(rng.randrange(1, 3)): b = T.mutate(rng, b)
        return b.hex()
    # degenerate transactions: no inputs, no outputs, neither (plain and with the witness marker), one input without outputs - with a script on
    # the command line, with a funding transaction, with tap (F53: a transaction without inputs crashed setup_environment)
    degen = ["02000000000000000000", "0200000000010000000000", T.make_tx(2, [], [(1, b"\x51")], 0).hex(), T.make_tx(2, [(bytes(32), 0, b"", 0)], [], 0).hex(),
             T.make_tx(2, [(bytes(32), 0xffffffff, b"\x51", 0xffffffff)], [(0, b"")], 0).hex(), "02000000" + "00" * 7, "0200000001" + "00" * 36]
    for d in degen:
        for c in spends[:2]:
            out.append(("btcdeb", ["--tx=" + d, "[OP_1]"], None)); out.append(("btcdeb", ["--tx=" + d], b"[OP_1 OP_CHECKSIG]\n"))
            out.append(("btcdeb", ["--tx=" + d, "--txin=" + c["fund"]], None)); out.append(("btcdeb", ["--tx=" + c["spend"], "--txin=" + d], None))
            out.append(("btcdeb", ["--tx=1.5:" + d, "--select=0", "[OP_1]"], None))
            out.append(("tap", ["--tx=" + d, "--txin=" + c["fund"], "f30544d6009c8d8d94f5d030b2e844b1a3ca036255161c479db1cca5b374dd1c", "1", "51", "0"], None))
            out.append(("tap", ["--tx=" + c["spend"], "--txin=" + d, "f30544d6009c8d8d94f5d030b2e844b1a3ca036255161c479db1cca5b374dd1c", "1", "51"], None))
    # pushes at the top of the legal size (the listing used a 1024-byte line buffer: F55), as bracket text and as raw script, for btcdeb and tap
    for nb in (507, 508, 509, 510, 515, 519, 520, 521):
        big = "ab" * nb
        out.append(("btcdeb", ["[0x%s OP_DROP OP_1]" % big], None)); out.append(("btcdeb", ["[OP_1 OP_IF 0x%s OP_ENDIF]" % big, "0x" + big], None))
        out.append(("btcdeb", ["0x4d" + nb.to_bytes(2, "little").hex() + big + "7551"], None)); out.append(("btcdeb", ["-v", "[0x%s]" % big], None))
        out.append(("btcc", ["0x" + big, "[0x%s OP_SIZE]" % big], None))
        out.append(("tap", ["f30544d6009c8d8d94f5d030b2e844b1a3ca036255161c479db1cca5b374dd1c", "1", "[0x%s OP_DROP OP_1]" % big, "0"], None))
    # --tx amount prefixes with FEWER entries than the transaction has inputs, the debugged input lying beyond them (amounts[] is indexed by input)
    for nin_, pos_ in ((2, 1), (3, 2), (3, 1)):
        for kind_ in ("p2pkh", "p2wpkh"):
            c = S.build(rng, kind_, nin=nin_, pos=pos_)
            for pre in ("0.001:", "1,2:"[: (4 if nin_ == 3 else 2)] if False else "0.5:", ("1,2:" if nin_ == 3 else "7:")):
                out.append(("btcdeb", ["--tx=" + pre + c["spend"], "--txin=" + c["fund"]], None))
                out.append(("btcdeb", ["--tx=" + pre + c["spend"], "--txin=" + c["fund"], "--select=%d" % pos_], b"[OP_1]\n"))
                out.append(("tap", ["--tx=" + pre + c["spend"], "--txin=" + c["fund"], "f30544d6009c8d8d94f5d030b2e844b1a3ca036255161c479db1cca5b374dd1c", "1", "51"], None))
    # a selected / matching input that references an output the funding transaction does not have
    import hashlib
    fund1 = T.make_tx(2, [(bytes(range(32)), 0, b"", 0xffffffff)], [(1000, b"\x51")], 0)
    ftx1 = hashlib.sha256(hashlib.sha256(fund1).digest()).digest()
    for nprev in (1, 5, 7, 0xffffffff):
        one = T.make_tx(2, [(ftx1, nprev, b"", 0xffffffff)], [(1, b"\x51")], 0).hex()
        two = T.make_tx(2, [(bytes(32), 0, b"", 0xffffffff), (ftx1, nprev, b"", 0xffffffff)], [(1, b"\x51")], 0).hex()
        for argv in (["--tx=" + one, "--txin=" + fund1.hex(), "--select=0"], ["--tx=" + one, "--txin=" + fund1.hex()], ["--tx=" + two, "--txin=" + fund1.hex(), "-s1"],
                     ["--tx=" + two, "--txin=" + fund1.hex()]):
            out.append(("btcdeb", argv, None))
        out.append(("tap", ["--tx=" + one, "--txin=" + fund1.hex(), "f30544d6009c8d8d94f5d030b2e844b1a3ca036255161c479db1cca5b374dd1c", "1", "51", "0"], None))
    for _ in range(n):
        r = rng.random()
        if r < 0.25:
            argv = [rng.choice(junk + ["OP_1", "[OP_1 OP_2]", "0x5152", "5", "abc"]) for _ in range(rng.randrange(0, 5))]
            out.append(("btcc", argv, None))
        elif r < 0.5:
            key = rng.choice(["f30544d6009c8d8d94f5d030b2e844b1a3ca036255161c479db1cca5b374dd1c", "00" * 32, "ff" * 32, "f3", "", "zz" * 32, "F30544D6009C8D8D94F5D030B2E844B1A3CA036255161C479DB1CCA5B374DD1C"] + junk[:8])
            n_s = rng.choice(["0", "1", "2", "3", "-1", "300", "x", "", "99999999999"])
            scripts = [rng.choice(["51", "0x51", "[OP_1]", "", "zz", "00" * 600, "6a", "[", "sha256(0x01)"] + junk[:6]) for _ in range(rng.randrange(0, 4))]
            rest = [rng.choice(["0", "1", "2", "-1", "7", "x", "", "99999999999", "0x00"]) for _ in range(rng.randrange(0, 3))]
            c = rng.choice(spends)
            pool = [["--tx=" + rng.choice(txs + junk + [c["spend"], mhex(c["spend"])])], ["--txin=" + rng.choice(txs + junk + [c["fund"], mhex(c["fund"])])],
                    ["--tx=" + rng.choice([c["spend"], mhex(c["spend"]), "00", ""]), "--txin=" + rng.choice([c["fund"], mhex(c["fund"]), "00", ""])],
                    ["-k" + rng.choice(["", "00" * 32, "zz"])], ["--sig=" + rng.choice(["", "00" * 64, "zz", "0x"])],
                    ["--addrprefix=" + rng.choice(["", "bc", "BC", "tb", "x" * 90, "1", "Bc"])], ["--privkey=" + rng.choice(["", "00" * 32, "01" * 32, "ff" * 32])], ["-v"], ["-q"], ["--nosuch"]]
            opts = sum(rng.sample(pool, rng.randrange(0, 4)), [])
            out.append(("tap", opts + [key, n_s] + scripts + rest, None))
        else:
            c = rng.choice(spends)
            opts = []
            for _ in range(rng.randrange(0, 4)):
                o = rng.random()
                if o < 0.25: opts.append("--tx=" + rng.choice([c["spend"], mhex(c["spend"]), rng.choice(junk), "1.5:" + c["spend"], "1,2,3:" + mhex(c["spend"]), ":" + c["spend"]]))
                elif o < 0.45: opts.append("--txin=" + rng.choice([c["fund"], mhex(c["fund"]), rng.choice(junk)]))
                elif o < 0.55: opts.append("--select=" + rng.choice(["0", "1", "-1", "99", "x", "", "4294967296", "-2147483649"]))
                elif o < 0.7: opts.append("--pretend-valid=" + rng.choice(junk + ["aa:bb,cc:dd", "sha256(0x):x"]))
                elif o < 0.85: opts.append("--modify-flags=" + rng.choice(junk + ["+P2SH,-WITNESS", "-ALL", "+" + "A" * 300, "P2SH", ",", "+,-"]))
                elif o < 0.9: opts.append("--dataset=" + rng.choice(["p2pkh", "p2sh-multisig-2-of-2", "p2tr", "p2ts", "nosuch", "", "../x"]))
                else: opts.append(rng.choice(["-v", "-q", "-z", "-V", "-h", "--debug=sighash,signing,segwit", "--debug=", "--version", "--nosuchoption", "-X", "-s"]))
            pos = [rng.choice(junk + ["[OP_1 OP_2 OP_ADD]", "0x5152935387", "[OP_DUP", "OP_1"]) for _ in range(rng.randrange(0, 4))]
            stdin = rng.choice([None, None, b"", b"\n", b"[OP_1]\n", b"\x00\xff\n", b"[" * 5000, b"0x" + b"51" * 20000])
            out.append(("btcdeb", opts + pos, stdin))
    return out

TF = None
def repl_cmds(rng, n):
    global TF
    if TF is None:
        try:
            TF = [x[0] for x in G.info()["Gen/TfTable.v"]["table"]]
        except Exception:
            TF = ["sha256", "hash160", "hash256", "ripemd160", "reverse", "hex", "int", "echo", "base58chkenc", "base58chkdec", "bech32enc", "bech32dec", "addr-to-scriptpubkey", "scriptpubkey-to-addr",
                  "verify-sig", "combine-pubkeys", "tweak-pubkey", "pubkey-to-xpubkey", "add", "sub", "jacobi-symbol", "tagged-hash", "taproot-tweak-pubkey", "prefix-compact-size", "get-pubkey", "sign", "get-xpubkey", "sign-schnorr"]
    args = ["", "0x", "1", "-1", "0x00", "abc", "0x" + "ff" * 33, "0x" + "02" + "11" * 32, "zz", "[", "sha256(", "99999999999999999999", "bc1q", "BC1Q", "tb1" + "q" * 60, "1" * 34, "0x" + "00" * 64, "x" * 2000, "0x80",
            "TapLeaf", "(", ")", "\"", "'", "\\", "%n", "0x" + "ab" * 300]
    out = []
    for _ in range(n):
        r = rng.random()
        if r < 0.25: out.append(rng.choice(["step", "rewind", "print", "stack", "altstack", "vfexec", "help", "context", "reset?", "s", "r", "", "   ", "step 5", "step -1", "step x", "rewind 3"]))
        elif r < 0.45: out.append("exec " + " ".join(rng.choice(["OP_DUP", "OP_ADD", "1", "-5", "0x0102", "OP_IF", "OP_ENDIF", "OP_CHECKSIG", "OP_xff", "zz", "99999999999", "OP_CODESEPARATOR", "OP_CAT", "0x", "["]) for _ in range(rng.randrange(0, 4))))
        else: out.append("tf " + rng.choice(TF + ["", "nosuch", "-h", "--help"]) + " " + " ".join(rng.choice(args) for _ in range(rng.randrange(0, 4))))
    return out

def main(tier):
    chk = Check("C15", tier)
    chk.prove(PROP_FILES)
    rng = chk.rng
    q = chk.tier == "quick"
    bdir = vlib.build("san")
    dist = {}
    # ---- (1) harness streams under the sanitizers
    streams = harvest(chk.seed, chk.tier)
    cap = 30000 if q else 120000      # (whole boundary grids of C10 / C17 must fit: the crash cases are a few operand tuples out of tens of thousands)
    total_crash = 0
    for name, lines in sorted(streams.items()):
        if not lines:
            chk.notes.append("generator unavailable: " + name); continue
        sample = lines if len(lines) <= cap else rng.sample(lines, cap)
        muts = []
        for l in sample[: (cap // 2)]:
            ml = mutate_line(rng, l)
            if ml != l: muts.append(re.sub(r"\bid=(\S+)", lambda m: "id=" + m.group(1) + "m", ml, count=1))
        allc = sample + muts
        res = run_impl(allc, "san")
        st = chk.streams.setdefault("san:" + name, {"cases": 0, "diffs": 0, "known": 0})
        st["cases"] += len(allc); chk.evaluations += len(allc)
        byid = {re.search(r"\bid=(\S+)", c).group(1): c for c in allc}
        for cid, ls in res.items():
            if any(" CRASH" in l or "HARNESSFAIL" in l for l in ls):
                st["diffs"] += 1; total_crash += 1
                if st["diffs"] <= 2 and total_crash <= 12:
                    chk.violation("harness-crash", "the code under test crashed / tripped a sanitizer in the native harness", {"stream": name, "case": byid.get(cid, "?")[:6000], "result": ls[:3], "variant": "san",
                                                                                                                             "how": "echo '<case>' | .cache/build/<hash>-san/vh   (ASAN_OPTIONS=abort_on_error=1)"})
            else:
                chk.nontrivial.add(cid.encode() + name.encode())
        dist[name] = len(allc)
    # ---- (1b) every transform on arguments of every size class (0, 1, 20, 32, 33, 64, 65, 72 bytes; valid curve points among the 32/33-byte ones)
    global TF
    repl_cmds(rng, 0)           # fills TF from the generated dispatch table
    import refcrypto as RC
    pk = RC.ser_pub(RC.mul(7, RC.G)); xk = pk[1:]
    pool = {0: [b""], 1: [b"\x01", b"\x80"], 20: [bytes(20)], 32: [bytes(32), xk, b"\xff" * 32, (1).to_bytes(32, "big")], 33: [pk, bytes(33), b"\x02" + b"\xff" * 32],
            64: [bytes(64), xk + xk], 65: [b"\x04" + xk + bytes(32), bytes(65)], 72: [b"\x30\x45" + bytes(70)]}
    sizes = sorted(pool)
    grid = []
    gid = itertools.count(1)
    for name in TF:
        for n in (1, 2, 3):
            combos = list(itertools.product(sizes, repeat=n))
            for combo in (combos if not q else rng.sample(combos, min(len(combos), 24))):
                args = ["0x" + rng.choice(pool[k]).hex() for k in combo]
                grid.append("tf id=z%d name=%s args=%s" % (next(gid), name.encode().hex(), ",".join(a.encode().hex() for a in args)))
    res = run_impl(grid, "san")
    st = chk.streams.setdefault("san:tf-size-grid", {"cases": 0, "diffs": 0, "known": 0})
    st["cases"] += len(grid); chk.evaluations += len(grid); dist["tf-size-grid"] = len(grid)
    gby = {re.search(r"\bid=(\S+)", c).group(1): c for c in grid}
    for cid, ls in res.items():
        if any(" CRASH" in l or "HARNESSFAIL" in l for l in ls):
            st["diffs"] += 1
            if st["diffs"] <= 4:
                c = gby.get(cid, "?")
                m = re.search(r"name=(\S+) args=(\S+)", c)
                chk.violation("transform-crash", "a value transform crashed / tripped a sanitizer", {"stream": "tf-size-grid", "case": c[:3000], "variant": "san", "result": ls[:2],
                              "command": "tf %s %s" % (bytes.fromhex(m.group(1)).decode(), " ".join(bytes.fromhex(a).decode() for a in m.group(2).split(","))) if m else None})
        else:
            chk.nontrivial.add(cid.encode() + b"grid")
    # ---- (2) command lines
    cl = cli_cases(rng, 400 if q else 6000)
    def run_cli(t):
        b, argv, stdin = t
        argv = [a.replace("\x00", "") for a in argv]
        r = cli.run(os.path.join(bdir, b), argv, stdin_data=stdin, stdin_tty=(stdin is None), env=ENV, timeout=30)
        bad = (r["sig"] not in (0, None)) or r["sig"] == "timeout" or bool(SAN_PAT.search(r["stderr"] or b""))
        return bad, r
    st = chk.streams.setdefault("san:cli", {"cases": 0, "diffs": 0, "known": 0})
    with concurrent.futures.ThreadPoolExecutor(vlib.NCPU) as ex:
        for (b, argv, stdin), (bad, r) in zip(cl, ex.map(run_cli, cl)):
            st["cases"] += 1; chk.evaluations += 1
            dist["cli:" + b] = dist.get("cli:" + b, 0) + 1
            if r["rc"] == 0 or (r["stdout"] or b""): chk.nontrivial.add(repr((b, argv, stdin)).encode())
            if bad:
                st["diffs"] += 1
                if st["diffs"] <= 6:
                    chk.violation("cli-crash", "%s terminated abnormally (signal %s) or tripped a sanitizer" % (b, r["sig"]),
                                  {"binary": b, "argv": argv, "stdin": (stdin or b"").decode("latin1")[:2000] if stdin is not None else None, "variant": "san",
                                   "signal": r["sig"], "stderr_tail": (r["stderr"] or b"")[-1500:].decode("latin1")})
    # ---- (3) interactive sessions
    sessions = []
    for _ in range(40 if q else 600):
        c = S.build(rng, rng.choice(["p2pkh", "p2sh", "p2wsh", "p2tr-script"]))
        argv = rng.choice([["[OP_1 OP_2 OP_ADD OP_IF OP_DUP OP_ENDIF]"], ["0x5152935387"], ["--tx=" + c["spend"], "--txin=" + c["fund"]], ["[OP_1 OP_TOALTSTACK 0x0102 OP_SHA256]", "0x05"]])
        sessions.append((argv, repl_cmds(rng, rng.choice([4, 8, 16]))))
    # walks over scripts whose operations fail or THROW (script-number overflow, non-minimal number, bad opcode, disabled opcode, unbalanced
    # conditional): step to and past the failure, rewind further than the start, step again, exec in between
    for scr in ["[OP_1 0x0102030405 OP_ADD]", "[OP_1 0x0100 OP_ADD OP_2]", "[OP_1 OP_IF OP_2 OP_2 OP_MUL OP_ENDIF]", "[OP_0 OP_IF OP_xba OP_ENDIF OP_1 OP_VERIFY OP_RETURN]",
                "[OP_1 OP_IF]", "[0x0102030405 OP_1ADD OP_1]", "[OP_DUP]", "[OP_1 OP_2 OP_3 OP_ROLL OP_PICK]", "0x4c", "[OP_1 OP_TOALTSTACK OP_FROMALTSTACK OP_FROMALTSTACK]"]:
        for _ in range(2 if q else 12):
            k = rng.randrange(1, 6)
            walk = ["step"] * k + ["rewind"] * (k + rng.randrange(0, 3)) + ["print", "step", "step", "rewind", "exec OP_1 OP_ADD", "rewind", "rewind", "print", "stack"]
            if rng.random() < 0.5: rng.shuffle(walk)
            sessions.append(([scr] + rng.choice([[], ["0x0102030405"], ["-1"]]), walk))
    # sessions in a working directory whose history file cannot be opened (F56)
    for scr in ("[OP_1 OP_2 OP_ADD]", "0x5152935387"):
        sessions.append(([scr], ["step", "print", "tf echo 5", "exec OP_DUP", "rewind", "step", "stack"], (".btcdeb_history",)))
    def run_pty(t):
        argv, cmds = t[0], t[1]
        try:
            banner, outs, status = ptyrun.repl(os.path.join(bdir, "btcdeb"), argv, cmds, timeout=10.0, env=ENV, mkdirs=(t[2] if len(t) > 2 else ()))
        except Exception as ex:
            return True, "driver: %r" % ex, None
        txt = (banner + "".join(o or "" for _, o in outs)).encode("latin1", "replace")
        # an exit(1) with a diagnostic in the middle of a session ends it early but is not a crash; a signal, a sanitizer report or a hang is
        sig = (status & 0x7f) if status is not None else "hang"
        bad = bool(SAN_PAT.search(txt)) or sig != 0
        return bad, txt[-1500:].decode("latin1"), sig
    st = chk.streams.setdefault("san:repl", {"cases": 0, "diffs": 0, "known": 0})
    with concurrent.futures.ThreadPoolExecutor(vlib.NCPU) as ex:
        for t_, (bad, tail, sig) in zip(sessions, ex.map(run_pty, sessions)):
            argv, cmds = t_[0], t_[1]
            st["cases"] += 1; chk.evaluations += 1; chk.nontrivial.add(repr((argv, cmds)).encode())
            if bad:
                st["diffs"] += 1
                if st["diffs"] <= 4:
                    chk.violation("repl-crash", "interactive btcdeb died (signal %s) or tripped a sanitizer" % sig, {"argv": argv, "commands": cmds, "variant": "san", "output_tail": tail})
    dist["repl"] = len(sessions)
    # ---- valgrind (thorough): uninitialised reads in the unsanitised binaries
    if not q:
        pdir = vlib.build("plain")
        vg = cli_cases(rng, 120)
        def run_vg(t):
            b, argv, stdin = t
            argv = [a.replace("\x00", "") for a in argv]
            p = subprocess.run(["valgrind", "-q", "--error-exitcode=97", "--track-origins=no", os.path.join(pdir, b)] + argv, input=stdin if stdin is not None else b"", capture_output=True, timeout=300)
            return p.returncode == 97 or p.returncode < 0, p.stderr[-1500:].decode("latin1")
        st = chk.streams.setdefault("valgrind:cli", {"cases": 0, "diffs": 0, "known": 0})
        with concurrent.futures.ThreadPoolExecutor(vlib.NCPU) as ex:
            for (b, argv, stdin), (bad, tail) in zip(vg, ex.map(run_vg, vg)):
                st["cases"] += 1; chk.evaluations += 1
                if bad:
                    st["diffs"] += 1
                    if st["diffs"] <= 3:
                        chk.violation("valgrind-error", "valgrind memcheck reports an error in %s" % b, {"binary": b, "argv": argv, "stdin": (stdin or b"").decode("latin1")[:2000], "stderr_tail": tail})
    chk.extra["input_distribution"] = dist
    return chk.finish(RULE, trusted_extra=["g++ AddressSanitizer / UndefinedBehaviorSanitizer instrumentation (and valgrind memcheck in the thorough tier) as the oracle for memory errors",
                                           "mutation operators of tools/gen_tx.py applied inside the hex fields of the case lines"])
