"""Independent pure-Python reference for the elliptic-curve parts (secp256k1, ECDSA, BIP340 Schnorr, BIP341 tweaks).
Part of the trusted base of the CORRESPONDENCE only (it answers the model's crypto-oracle queries and signs test
transactions); no theorem depends on it. Written from the BIP340/BIP341 texts."""
import hashlib

P = 2**256 - 2**32 - 977
N = 0xFFFFFFFFFFFFFFFFFFFFFFFFFFFFFFFEBAAEDCE6AF48A03BBFD25E8CD0364141
G = (0x79BE667EF9DCBBAC55A06295CE870B07029BFCDB2DCE28D959F2815B16F81798,
     0x483ADA7726A3C4655DA4FBFC0E1108A8FD17B448A68554199C47D08FFB10D4B8)


def inv(a, m):
    return pow(a, -1, m)


# Jacobian arithmetic (None = infinity)
def jdbl(p):
    if p is None:
        return None
    x, y, z = p
    if y == 0:
        return None
    s = 4 * x * y * y % P
    m = 3 * x * x % P
    x3 = (m * m - 2 * s) % P
    y3 = (m * (s - x3) - 8 * pow(y, 4, P)) % P
    z3 = 2 * y * z % P
    return (x3, y3, z3)


def jadd(p, q):
    if p is None:
        return q
    if q is None:
        return p
    x1, y1, z1 = p
    x2, y2, z2 = q
    z1z1 = z1 * z1 % P; z2z2 = z2 * z2 % P
    u1 = x1 * z2z2 % P; u2 = x2 * z1z1 % P
    s1 = y1 * z2 * z2z2 % P; s2 = y2 * z1 * z1z1 % P
    if u1 == u2:
        if s1 != s2:
            return None
        return jdbl(p)
    h = (u2 - u1) % P; r = (s2 - s1) % P
    h2 = h * h % P; h3 = h * h2 % P
    x3 = (r * r - h3 - 2 * u1 * h2) % P
    y3 = (r * (u1 * h2 - x3) - s1 * h3) % P
    z3 = h * z1 * z2 % P
    return (x3, y3, z3)


def to_affine(p):
    if p is None:
        return None
    x, y, z = p
    zi = inv(z, P)
    return (x * zi * zi % P, y * zi * zi * zi % P)


def mul(k, pt):
    k %= N
    if pt is None or k == 0:
        return None
    acc = None
    q = (pt[0], pt[1], 1)
    while k:
        if k & 1:
            acc = jadd(acc, q)
        q = jdbl(q)
        k >>= 1
    return to_affine(acc)


def add(a, b):
    ja = None if a is None else (a[0], a[1], 1)
    jb = None if b is None else (b[0], b[1], 1)
    return to_affine(jadd(ja, jb))


def lift_x(x):
    if x >= P:
        return None
    c = (pow(x, 3, P) + 7) % P
    y = pow(c, (P + 1) // 4, P)
    if y * y % P != c:
        return None
    return (x, y if y % 2 == 0 else P - y)


def tagged(tag, msg):
    t = hashlib.sha256(tag.encode()).digest()
    return hashlib.sha256(t + t + msg).digest()


def pubkey_xonly(sk):
    pt = mul(sk, G)
    return pt[0].to_bytes(32, "big"), pt


def schnorr_sign(msg32, sk, aux=bytes(32)):
    d0 = sk
    Pp = mul(d0, G)
    d = d0 if Pp[1] % 2 == 0 else N - d0
    t = (d ^ int.from_bytes(tagged("BIP0340/aux", aux), "big")).to_bytes(32, "big")
    k0 = int.from_bytes(tagged("BIP0340/nonce", t + Pp[0].to_bytes(32, "big") + msg32), "big") % N
    R = mul(k0, G)
    k = k0 if R[1] % 2 == 0 else N - k0
    e = int.from_bytes(tagged("BIP0340/challenge", R[0].to_bytes(32, "big") + Pp[0].to_bytes(32, "big") + msg32), "big") % N
    return R[0].to_bytes(32, "big") + ((k + e * d) % N).to_bytes(32, "big")


def schnorr_verify(msg32, pk32, sig64):
    if len(pk32) != 32 or len(sig64) != 64:
        return False
    Pp = lift_x(int.from_bytes(pk32, "big"))
    r = int.from_bytes(sig64[:32], "big"); s = int.from_bytes(sig64[32:], "big")
    if Pp is None or r >= P or s >= N:
        return False
    e = int.from_bytes(tagged("BIP0340/challenge", sig64[:32] + pk32 + msg32), "big") % N
    R = add(mul(s, G), mul(N - e, Pp))
    return R is not None and R[1] % 2 == 0 and R[0] == r


def xonly_tweak_add(pk32, tweak32):
    """BIP341: Q = lift_x(p) + t*G; returns (x(Q) bytes, y parity) or None"""
    Pp = lift_x(int.from_bytes(pk32, "big"))
    t = int.from_bytes(tweak32, "big")
    if Pp is None or t >= N:
        return None
    Q = add(Pp, mul(t, G))
    if Q is None:
        return None
    return Q[0].to_bytes(32, "big"), Q[1] & 1


def check_tap_tweak(q32, p32, merkle_root, parity):
    """XOnlyPubKey(q).CheckTapTweak(internal p, merkle_root, parity)"""
    if len(q32) != 32 or len(p32) != 32:
        return False
    t = tagged("TapTweak", p32 + merkle_root)
    r = xonly_tweak_add(p32, t)
    return r is not None and r[0] == q32 and r[1] == (1 if parity else 0)


# ---- ECDSA
def ser_pub(pt, compressed=True):
    if compressed:
        return bytes([2 + (pt[1] & 1)]) + pt[0].to_bytes(32, "big")
    return b"\x04" + pt[0].to_bytes(32, "big") + pt[1].to_bytes(32, "big")


def parse_pub(b):
    if len(b) == 33 and b[0] in (2, 3):
        x = int.from_bytes(b[1:], "big")
        if x >= P: return None
        c = (pow(x, 3, P) + 7) % P
        y = pow(c, (P + 1) // 4, P)
        if y * y % P != c: return None
        if (y & 1) != (b[0] & 1): y = P - y
        return (x, y)
    if len(b) == 65 and b[0] in (4, 6, 7):
        x = int.from_bytes(b[1:33], "big"); y = int.from_bytes(b[33:], "big")
        if x >= P or y >= P or (y * y - x * x * x - 7) % P: return None
        if b[0] in (6, 7) and (y & 1) != (b[0] & 1): return None
        return (x, y)
    return None


def der_int(v):
    b = v.to_bytes((v.bit_length() + 8) // 8 or 1, "big")
    return b"\x02" + bytes([len(b)]) + b


def ecdsa_sign(msg32, sk, low_s=True, k=None):
    z = int.from_bytes(msg32, "big")
    if k is None:
        k = int.from_bytes(hashlib.sha256(b"nonce" + sk.to_bytes(32, "big") + msg32).digest(), "big") % N or 1
    R = mul(k, G)
    r = R[0] % N
    s = inv(k, N) * (z + r * sk) % N
    if low_s and s > N // 2:
        s = N - s
    body = der_int(r) + der_int(s)
    return b"\x30" + bytes([len(body)]) + body


def parse_der_lax(sig):
    """r, s from a DER signature the way the lax parser accepts it (None on failure); overflow -> (0, 0)"""
    try:
        pos = 0
        if sig[pos] != 0x30: return None
        pos += 1
        lb = sig[pos]; pos += 1
        if lb & 0x80:
            lb -= 0x80
            if lb > len(sig) - pos: return None
            pos += lb
        def rdint(pos):
            if pos >= len(sig) or sig[pos] != 0x02: return None
            pos += 1
            if pos >= len(sig): return None
            lb = sig[pos]; pos += 1
            if lb & 0x80:
                lb -= 0x80
                if lb > len(sig) - pos: return None
                while lb > 0 and sig[pos] == 0:
                    pos += 1; lb -= 1
                if lb >= 4: return None
                ln = 0
                while lb > 0:
                    ln = (ln << 8) + sig[pos]; pos += 1; lb -= 1
            else:
                ln = lb
            if ln > len(sig) - pos: return None
            return pos, ln
        a = rdint(pos)
        if a is None: return None
        rpos, rlen = a
        b = rdint(rpos + rlen)
        if b is None: return None
        spos, slen = b
        rb = sig[rpos:rpos + rlen].lstrip(b"\0"); sb = sig[spos:spos + slen].lstrip(b"\0")
        if len(rb) > 32 or len(sb) > 32: return (0, 0)
        r = int.from_bytes(rb, "big"); s = int.from_bytes(sb, "big")
        if r >= N or s >= N: return (0, 0)
        return (r, s)
    except IndexError:
        return None


def ecdsa_verify(msg32, pub_bytes, der):
    """CPubKey::Verify: lax DER parse, normalise S, verify"""
    pt = parse_pub(pub_bytes)
    rs = parse_der_lax(der)
    if pt is None or rs is None:
        return False
    r, s = rs
    if s > N // 2:
        s = N - s
    if r == 0 or s == 0:
        return False
    z = int.from_bytes(msg32, "big")
    w = inv(s, N)
    R = add(mul(z * w % N, G), mul(r * w % N, pt))
    return R is not None and R[0] % N == r


if __name__ == "__main__":
    # BIP340 test vector 0
    sk = 3
    pk, _ = pubkey_xonly(sk)
    assert pk.hex().upper() == "F9308A019258C31049344F85F89D5229B531C845836F99B08601F113BCE036F9"
    sig = schnorr_sign(bytes(32), sk, bytes(32))
    assert sig.hex().upper() == "E907831F80848D1069A5371B402410364BDF1C5F8307B0084C55F1CE2DCA821525F66A4A85EA8B71E482A74F382D2CE5EBEEE8FDB2172F477DF4900D310536C0", sig.hex()
    assert schnorr_verify(bytes(32), pk, sig)
    m = hashlib.sha256(b"x").digest()
    d = ecdsa_sign(m, 12345)
    assert ecdsa_verify(m, ser_pub(mul(12345, G)), d) and not ecdsa_verify(m, ser_pub(mul(12346, G)), d)
    print("refcrypto self-test ok")
