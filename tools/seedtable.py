"""Markdown table of the archived seeded changes and what caught them (from seeded/*/meta.json)."""
import json, glob, os
rows = []
for d in sorted(glob.glob("/verif/seeded/*/")):
    m = json.load(open(os.path.join(d, "meta.json")))
    name = os.path.basename(d.rstrip("/"))
    det = m.get("detection", {})
    conf = m.get("confirmation", {})
    caught = "; ".join("%s: %s%s" % (k, "+".join(v["kinds"]) if v["detected"] else "MISSED", " (no input)" if v.get("no_input") else "") for k, v in sorted(det.items()))
    summ = (m.get("summary") or "").replace("|", "/")
    rows.append("| %s | %s | %s | %s | %s |" % (name, summ[:150], (m.get("needs") if isinstance(m.get("needs"), str) else json.dumps(m.get("needs")))[:140].replace("|", "/").replace("\n", " "),
                                            "yes" if conf.get("tests_pass") else "?", caught))
print("| change | what | needs | tests pass | caught by (violation kinds) |\n|---|---|---|---|---|")
print("\n".join(rows))
