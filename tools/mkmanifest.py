#!/usr/bin/env python3
"""Regenerates MANIFEST.json from the table below (kept in one place so it stays valid)."""
import json, os
ROOT = os.path.dirname(os.path.dirname(os.path.abspath(__file__)))

TB = ("Trusted: Coq 8.16.1 kernel + vm_compute (no native_compute); no axioms of ours (Print Assumptions per theorem is in the evidence); "
      "translator tools/translate.py; extraction with ExtrOcamlBasic only; ocaml/driver.ml; harness/vh.cpp; python generators/diff. ")

CLAIMED = {
 "C18": dict(
   text="Unbounded theorems (Properties/C18.v): decode(encode z)=z for every integer (any width), encoder output is well-formed and minimal, "
        "minimal strings are unique encodings, decoder = sign-magnitude value for every byte string, the checking constructor rejects exactly "
        "over-long and (when required) non-minimal strings, n-byte strings <-> |v|<2^(8n-1), Value conversions are this codec. The hand-written "
        "model is tied to script/script.h and value.h by executing vh (tree's code) and the extracted model on all byte strings of length 0..2 "
        "(thorough: also every 3-byte string whose last byte is one of 16 boundary/random values) x both minimality settings, stratified 3..9-byte strings and integer bands/boundaries up to +-2^63.",
   note=TB + "Modelled, not verified: the C++ bit operations are written arithmetically in the model (stated in ScriptNum.v); the tie is the exhaustive/stratified differential run.",
   technique="Coq proof (induction on byte lists, lia/nia) + exhaustive differential correspondence against extracted model",
   ref="DESIGN.md §2 C18"),
 "C02": dict(
   text="Theorems (Properties/C02.v), parametric in SHA-256 and the two elliptic-curve verification predicates: the legacy script-code "
        "serialisation equals the length-prefixed script with every OP_CODESEPARATOR operation removed (any script that decodes); SIGHASH_SINGLE "
        "without output signs 1; BIP143 cache transparency; undefined Schnorr hash types have no digest; the BIP341 message commits to the annex "
        "flag, to key-vs-script path and to the code-separator position; the ECDSA/Schnorr checkers accept exactly when the verification predicate "
        "accepts the body for the digest selected by the hash-type byte; CHECKSIG's result is that verdict (after FindAndDelete for legacy), "
        "encoding errors by flag in the stated order, NULLFAIL; the CHECKMULTISIG loop equals the greedy in-order matching, which succeeds iff an "
        "order-preserving one-key-per-signature matching exists; tapscript charges 50 weight per non-empty signature and fails when exhausted. "
        "Tie: independently signed spends (all output types, hash types, code separators, encodings x flag subsets, corruptions, unsigned-field "
        "alterations, weight budgets): full session state AND the (digest, key, signature) arguments of every verification call, implementation "
        "vs model, plus validity by construction.",
   note=TB + "secp256k1 itself (ECDSA/Schnorr verification, low-S test) is outside the model: an oracle answered by tools/refcrypto.py and compared with the implementation's verdicts through the session outcome. The legacy/BIP143/BIP341 preimage layouts are hand-modelled (Sighash.v) and cross-checked by tools/gen_spend.py's independent implementation. Known finding F31.",
   technique="Coq proofs about digest models and signature opcodes + differential correspondence incl. verification-call arguments (ld --wrap) with independently signed spends",
   ref="DESIGN.md §2 C02"),
 "C12": dict(
   text="Theorems (Properties/C12.v) for sessions over one script (btcdeb <script> [stack...]), for legacy spends (scriptSig section, header, non-P2SH "
        "scriptPubKey section: at the end of the scriptSig the marker is on the header of the section the next step enters) and for tapscript spends "
        "(one line per commitment step showing the very node that step hashes, then the tweak check, then the committed script), any script / stack / flags / version: the listing "
        "main() builds is the exact decoding of the script in execution order with line number = position; in EVERY state reached by successful "
        "steps from the start (induction over the step sequence; rewinds return to such states by C04) the position counter counts the operations "
        "before the program counter, so the marked line is the numbered rendering of the operation the next step fetches, and after the last "
        "operation nothing is marked. Pay-to-script-hash spends (three sections; the redeem script listed is the scriptSig's last push): the "
        "invariant holds in every state reached by successful steps when the scriptSig consists of data pushes (C12_p2sh_session_invariant), and "
        "for any scriptSig under the stated premise that the listed script is the one on top of the stack when the scriptSig ends. "
        "Also decided by correspondence: the real interactive btcdeb driven through a pty (print after every step/rewind; "
        "plain scripts, scriptPubKey and P2SH sections, P2WSH, taproot key path, tapscript with control paths 0..2) vs the model's listing and marked "
        "line, the step/rewind echo, and - on the implementation alone - the marked line vs the operation at the program counter reported by the harness.",
   note=TB + "tools/ptyrun.py (pty driver, print parser) is trusted. Known finding F37 (after a FAILED step pc and marker disagree; the theorems are about successful steps).",
   technique="Coq proof of the marker invariant by induction over steps (single-script, two-section, pay-to-script-hash and tapscript sessions) + pty-driven differential correspondence of listing, marker and echo",
   ref="DESIGN.md §2 C12"),
 "C15": dict(
   text="Theorems (Properties/C15.v): one interpreter step - any opcode, stack, flags, script version, in the script or through exec - never yields "
        "one of the model's crash outcomes (failed assertion incl. the default branches of the numeric and extended-opcode switches, dangling script "
        "iterator, division by zero, undefined shift, signed overflow) from an environment whose pbegincodehash is live and whose tapscript weight "
        "is initialised; that environment is preserved by every step; sessions start in it; and ANY sequence of step / rewind / exec commands from a "
        "session start never ends a command in a crash outcome (C15_commands_never_crash: the invariant also covers every history snapshot rewind "
        "can restore); session configuration never indexes outside the funding transaction once input "
        "selection succeeded. Memory safety itself is not expressible in the executable model: the runtime part rebuilds the tree with "
        "AddressSanitizer+UndefinedBehaviorSanitizer and runs the inputs of every other property plus structure-aware mutations through the harness, "
        "fuzzes the command lines of btcc/tap/btcdeb (pipes and pty) and interactive command sequences; thorough adds valgrind memcheck. Any signal, "
        "sanitizer report, failed assertion or uncaught exception is a violation with the input as replay.",
   note=TB + "PARTIAL by nature: the theorems cover the model's explicit crash outcomes out-of-bounds / use-after-free / uninitialised reads are decided by sanitizer runs (testing, not proof) as the brief allows for runtime behaviour.",
   technique="Coq proof of crash-outcome unreachability in the model + sanitizer/valgrind execution of generated and mutated inputs",
   ref="DESIGN.md §2 C15"),
 "C11": dict(
   text="Theorems (Properties/C11.v): a listed (signature, key) pair makes EvalChecksig succeed and counts as a match in the CHECKMULTISIG loop before "
        "any checker/flag/encoding/version is consulted; every pair of every list the option parser accepts is honoured (table invariant proved over the "
        "parser); a non-listed signature for a mocked key gets exactly the verdict without the option (CHECKSIG family) or no match (CHECKMULTISIG); "
        "checks over unmocked keys - EvalChecksig, the multisig loop and its FindAndDelete pass - equal the run with the option removed; accepted "
        "lists have alternating ':' ',' separators and a dangling signature is refused. Tie: parsed tables and sessions (CHECKSIG, CHECKSIGVERIFY, "
        "CHECKSIGADD, CHECKMULTISIG; versions 0/1/3; flag sets; with and without transaction) vs model; impl-only relations listed=>success and "
        "no-mocked-key => identical to the run without the option.",
   note=TB + "Whole-script non-interference is stated per signature check (the only places the table is read), not as one theorem over StepScript.",
   technique="Coq proofs (parser invariant, per-opcode non-interference) + differential correspondence + with/without-option relation on the implementation",
   ref="DESIGN.md §2 C11"),
 "C03": dict(
   text="Theorems (Properties/C03.v): the selected input references the funding transaction through an existing output, an explicit selection is "
        "honoured or refused, automatic selection takes the first referencing input; amount and locking script come from the referenced output; "
        "legacy inputs run scriptSig then that scriptPubKey on an empty stack; a segwit session exists only for a version-0/1 witness program that "
        "is the scriptPubKey or the exact single push the P2SH scriptPubKey commits to, the revealed script/key hashes to the program (a mismatch "
        "is refused), initial stack/script/control block/annex/validation weight are the ones BIP141/341 prescribe. WHOLE-SESSION THEOREM for "
        "legacy inputs (script-only, scriptSig+scriptPubKey, P2SH): running the session to its end (continue) ends exactly as the reference "
        "VerifyScript (VerifySpec.v: one EvalScript call per script, each with its own alt stack / op count / code hash, balanced nesting, "
        "scriptPubKey size limit, P2SH redeem script from the scriptSig's stack) - same final environment and status. The same for witness inputs: "
        "a witness session never takes the P2SH branch, a witness-v0/tapscript script session is one evaluation of the committed script, and a "
        "P2TR script-path session is the BIP341 commitment check followed - only if it holds - by one evaluation of the revealed script with the "
        "leaf hash installed (C03_tapscript_session_is_commitment_then_one_evaluation). The BIP16 / SIGPUSHONLY rule applied at set-up is "
        "characterised exactly (C03_push_only_rule: refused iff a scriptPubKey follows, the scriptSig is not made of push operations - no "
        "opcode above OP_16, decodes completely - and SIGPUSHONLY is set or the output is P2SH under the P2SH flag). The session outcome is additionally tied by "
        "correspondence: synthesised pairs of every output type, signed by an independent signer, valid and corrupted, 1..3 inputs, --select, "
        "flag variations, and the six doc/txs pairs; implementation vs model on every case and vs validity-by-construction.",
   note=TB + "Elliptic-curve predicates are an oracle of the model answered by tools/refcrypto.py (independent pure-Python secp256k1); digests are modelled in Sighash.v and cross-checked by tools/gen_spend.py's independent implementation. Known finding F31 (multi-input taproot).",
   technique="Coq proofs about input selection and session configuration + differential correspondence with independently signed spends",
   ref="DESIGN.md §2 C03"),
 "C01": dict(
   text="Theorems (Properties/C01.v, unbounded over stacks/operands): every numeric opcode's expression - GENERATED from the C++ switch "
        "statements (Gen/NumOps.v) - equals its arithmetic function (OP_SUB operand order, OP_WITHIN bounds, MIN/MAX, comparisons); every "
        "stack opcode body realises the prescribed stack picture incl. OP_PICK/OP_ROLL for every index; CastToBool, CheckMinimalPush and the "
        "(size, first-false) condition stack equal their reference definitions. NOT proved: one monolithic step-refinement against an "
        "independent reference interpreter (C01_step_refines) - the order of checks inside a step is tied to the code by generated sites and "
        "by step-by-step full-state correspondence: all 1-op scripts over the 256-byte alphabet x stacks x flag sets x 3 versions (2-op "
        "thorough), grammar-directed long scripts, numeric boundary grid, flag probes.",
   note=TB + "Hand-modelled (Interp.v/Session.v) and tied by differential execution only: control flow of StepScript, push handling, hash opcodes (Gallina SHA-256/RIPEMD-160/SHA-1 vs the C++ by execution). Signature opcodes are outside C01 (see C02).",
   technique="Coq proofs per opcode family over generated expressions + full-state differential correspondence",
   ref="DESIGN.md §2 C01"),
 "C04": dict(
   text="Theorem C04_rewind_undoes_step: for every session state and every successful step, an accepted rewind returns EXACTLY the previous "
        "state (all components incl. condition stack, pbegincodehash, execdata, opcode_pos, history), hence any step/rewind interleaving "
        "equals the net number of steps; rewinding from the end state only clears the end marker; refused rewinds produce no state. Uses "
        "C04_step_frame (a step never changes the script / error slot) proved over the whole opcode switch. Tie: complete history trees "
        "(depth 7; 9 thorough) + random walks vs the model after every command, plus the impl-only relation history == fresh run of net steps.",
   note=TB + "The snapshot vectors are modelled as one list of records (all pushed/popped together in the C++).",
   technique="Coq proof (rewind o step = id, frame lemma over all opcodes) + history-tree differential correspondence",
   ref="DESIGN.md §2 C04"),
 "C10": dict(
   text="Theorems pin the GENERATED comparison operator and constant of every limit check (Gen/Sites.v, Gen/Consts.v, regenerated from the "
        "source each run) to the consensus bounds: 520 / 201 / 1000 / 10000 / 20, counted-op threshold, tapscript exemption from the script "
        "size, 4/5-byte operand sizes and their integer ranges; step-level: over-long push always PUSH_SIZE, a successful step leaves <= 1000 "
        "items, the 202nd counted op fails with OP_COUNT; the limits on the initial witness stack at set-up are characterised exactly (no item above "
        "520 bytes in v0 and tapscript, at most 1000 items in tapscript, nothing for legacy: C10_witness_stack_limits). A '>' turned '>=' or a changed constant breaks these proofs. Tie: boundary scripts "
        "at L-1/L/L+1 per limit and route x 3 versions.",
   note=TB + "Exactness in the direction 'no other operation fails with that error' is covered by correspondence, not by a theorem.",
   technique="Coq proofs over translator-generated limit sites + boundary differential correspondence",
   ref="DESIGN.md §2 C10"),
 "C16": dict(
   text="Theorems: exec leaves pc, script, listing position, history and session flags untouched; the step taken on behalf of exec equals the "
        "script's own step on the same environment for every operation except OP_CODESEPARATOR (which must not move pbegincodehash into the "
        "temporary script); exec = iteration of that step, stopping at the first failure. Tie: exec after random session prefixes, full state dump.",
   note=TB + "Token parser of Instance::eval modelled in Value.exec_compile and tied by correspondence (atoi re-print rule, hex, names).",
   technique="Coq proof (frame + step equality) + differential correspondence after session prefixes",
   ref="DESIGN.md §2 C16"),
 "C17": dict(
   text="Theorems per opcode (all stacks/operands): CAT, SUBSTR, LEFT, RIGHT, INVERT, AND/OR/XOR, 2MUL, 2DIV, MUL, DIV, MOD, LSHIFT, RSHIFT compute "
        "append / substrings / bytewise ops / 2n / n quot 2 / product / C quotient and remainder / a*2^b / floor(a/2^b), invalid operands "
        "(zero divisor, shift count outside 0..63, overflow beyond +-(2^63-1), offsets out of range, unequal lengths) are script errors; no "
        "outcome is a crash; without the option the gate fails them as DISABLED_OPCODE before the executed/unexecuted test (gate list and its "
        "position generated from the source). Tie: exhaustive over the boundary operand set x with/without -z x executed/unexecuted.",
   note=TB + "The repository's pre-existing defects here (XOR no-op, 2DIV assert, DIV/MOD SIGFPE, UB shifts) were repaired by fix: commits; see known_findings.json.",
   technique="Coq proofs per opcode + exhaustive differential correspondence over the operand set",
   ref="DESIGN.md §2 C17"),
 "C07": dict(
   text="Theorems (Properties/C07.v): a data push decodes back to (push opcode, data) with the direct/PUSHDATA1/2/4 thresholds at 75/76, 255/256, "
        "65535/65536; for every int64 n the emitted operation pushes the script-number encoding of n and is a minimal push; for every hex "
        "literal the emitted operation places EXACTLY the given bytes on the stack in minimal form; a compiled sequence of well-formed values "
        "decodes back to the operation sequence; a bracketed sub-script is the push of its compiled body. Tie: Value::parse_args + "
        "Value::serialize (btcc's main) on every opcode name (both spellings), all OP_xNN, int boundaries of every 1-8 byte encoding, ALL "
        "1-byte and (thorough) 2-byte hex literals, nesting 0..8, split brackets, comments; plus the real btcc binary on a sample.",
   note=TB + "Classification of strings into literal classes (atoll re-print rule, GetOpCode table generated from the source, TryHex) is modelled in Value.v and tied by correspondence; there is no theorem 'every canonical decimal string classifies as its integer' (examples only).",
   technique="Coq proofs on the push/number encoders and decoder + differential correspondence of the tokeniser/classifier",
   ref="DESIGN.md §2 C07"),
 "C13": dict(
   text="Theorems (Properties/C13.v, TxTheorems.v): whatever --tx/--txin accepts re-serialises to exactly the given bytes with all fields in "
        "range; serialise-then-parse returns the same transaction (non-empty vin; the zero-input ambiguity of the format is stated with "
        "witnesses); txid preimage = witness-stripped encoding; every strict prefix of a valid encoding is rejected; compact sizes round-trip "
        "and are canonical; amounts with <= 8 fractional digits parse to exactly value*10^8, more digits only if zeros. Tie: "
        "Instance::parse_transaction / parse_input_transaction (with main's exception guards) on real, generated and mutated transactions, "
        "amount strings and input selections; txid/wtxid compared through the Gallina SHA-256.",
   note=TB + "SHA-256 is a Gallina transcription (Hashes.v) compared with the C++ by execution. The exponent branch of ParseFixedPoint is modelled and tested, not covered by a general theorem.",
   technique="Coq round-trip proofs on the wire codec + differential correspondence incl. structure-aware mutations",
   ref="DESIGN.md §2 C13"),
 "C14": dict(
   text="Theorems: base58 / base58check decode(encode x) = x (for the C++ digit-array algorithms, proved equal to the arithmetic definition), "
        "non-alphabet characters rejected; ConvertBits 8<->5 round trip; bech32/bech32m decode(encode) = identity and EVERY single-symbol "
        "substitution in the data part is rejected (polymod linearity + finite sweep, bound 90 characters); at the transform level: "
        "base58chk-decode o base58chk-encode, bech32-decode o bech32(m)-encode, addr-to-scriptpubkey o scriptpubkey-to-addr are identities; "
        "add/sub = (a +- b) mod g for a,b < g; compact-size prefix = WriteCompactSize; hex/int = the C18 codec; tagged hash = "
        "SHA256(SHA256(tag)||SHA256(tag)||msg); the generated tf / inline name tables reach the same method except three listed names. "
        "PARTIAL (stated): SHA-256/RIPEMD-160/SHA-1 are Gallina transcriptions checked on the standard vectors in Coq and against the C++ by "
        "execution; Jacobi symbol proved = Euler's criterion only for n < p, odd primes p <= 61; EC transforms not modelled.",
   note=TB + "The bech32 prefix is the built-in default 'bcrt'; base58check corruption detection is probabilistic and only tested.",
   technique="Coq proofs on the codec algorithms and transform compositions + differential correspondence of command/inline/opcode forms",
   ref="DESIGN.md §2 C14"),
 "C08": dict(
   text="Theorems: the hex printer emits exactly two lower-case hex digits per byte and is injective; the printed stack (one line per item, "
        "bottom first) determines the stack; an exit-0 run means the session of C01 ran to the end without error and stdout is exactly that "
        "rendering (C08_outcome); NEVER EXITS ABNORMALLY: for any script text, stack arguments, flag modification and -z, unless a value parser "
        "aborts inside a transform, the run ends with a result or a diagnostic - no crash outcome of any operation and the run-to-end loop "
        "finishes within its fuel because every step strictly decreases the number of steps left (C08_never_exits_abnormally, "
        "C08_every_step_decreases_the_steps_left). PARTIAL (stated): process-level facts (isatty, signals, stdio, getopt) and independence from --quiet / "
        "--debug / DEBUG_* are observed by running the real binary, not proved. Tie: the rebuilt btcdeb binary on hand-made and "
        "grammar-generated scripts (incl. every exception class) x {script on argv with a pty as stdin, script on stdin} x option variants: "
        "exit status / signal, stdout bytes, stderr message vs the extracted Cli.main_noninteractive.",
   note=TB + "stdout on a FAILING run (the dual-stack table) is not modelled; only exit status and the stderr message are compared there.",
   technique="Coq proofs on printer, outcome inversion, termination and absence of crash outcomes; differential correspondence against the real binary under pipes/ptys",
   ref="DESIGN.md §2 C08"),
 "C09": dict(
   text="Theorems over GENERATED tables (svf table, STANDARD set, every flag test of the executed interpreter code): 21 distinct names with "
        "distinct single-bit values covering exactly the enum; +NAME sets / -NAME clears exactly that bit; known tokens fold, unknown names / "
        "missing sign / empty tokens are rejected; --default-flags lists exactly the standard set; every flag test has a restrictive shape; "
        "each flag-dependent check (number minimality, signature and key encoding) passes under A whenever it passes under B >= A; and the "
        "WHOLE STEP: whatever one interpreter step does successfully under a flag set B (any opcode incl. the signature opcodes and "
        "CHECKMULTISIG, any stack, any version, in the script or through exec) it does identically under every subset A of B "
        "(C09_step_only_restricts); lifted to every EVALUATION (C09_evaluation_only_restricts) and to the WHOLE script-only SESSION run to its "
        "end (C09_script_session_only_restricts: success under B implies success with the same final environment under A). Multi-script "
        "sessions are covered per evaluation only: session-level flags (P2SH phases, SIGPUSHONLY, witness configuration) change which scripts "
        "run and are evaluated on paired runs of the implementation under inclusion chains. Tie: -d and -f<list> -v listings (pty), behavioural probes per flag, flag-chain sessions vs model.",
   note=TB + "svf_string's output separator/bullets are parsed by the check, not modelled.",
   technique="Coq proofs over translator-generated flag tables and sites + CLI correspondence + paired-run monotonicity relation",
   ref="DESIGN.md §2 C09"),
 "C05": dict(
   text="Theorems (any 32-byte hash function, any tweak-check predicate): for every control block of 33+32m bytes, script and program, "
        "stepping the commitment to the end yields Done exactly when BIP341's rule holds - TapLeaf hash folded with the m path nodes "
        "(smaller hash first) then the tweak check with the parity bit; after j steps the displayed hash is the BIP341 value; the stored leaf "
        "hash is the TapLeaf hash; the byte-wise comparison is the numeric order; accepted control sizes are exactly 33+32m, m <= 128 "
        "(generated constants). Tie: TaprootCommitmentEnv::Iterate stepped to the end on commitments built by an independent BIP341 "
        "implementation (path 0..128, all leaf versions, nodes </>/= running hash, keys on/off curve) and every single-field corruption.",
   note=TB + "CheckTapTweak (secp256k1) and SHA-256 are parameters of the theorems; in the correspondence the tweak check of the model is answered by tools/refcrypto.py (pure-python BIP340/341 reference) and SHA-256 is the Gallina transcription.",
   technique="Coq proof (induction over the path) + differential correspondence with an oracle for the curve operation",
   ref="DESIGN.md §2 C05"),
 "C06": dict(
   text="Theorems for EVERY symmetric node hash, every n >= 1 and every leaf index: a tree is always built and contains exactly the leaves in "
        "order; the proof emitted for leaf i, folded from its hash, equals the root the address commits to; proof length <= tree height, and "
        "height <= 128 for all n <= 1024 (finite sweep, bound stated); the address and output key do not depend on the selected leaf; the "
        "bech32m address decodes back to the output key. PARTIAL (stated): the reported sighash being the BIP341 digest belongs to C02; "
        "'a signature over it validates' is exercised, not proved. Tie: the real tap binary on every (n, index), n <= 12 (64 thorough) and "
        "random n up to 200 (1024): address, witness script and control block vs model; the debugger's commitment check on tap's output.",
   note=TB + "secp256k1_xonly_pubkey_tweak_add is an oracle answered by tools/refcrypto.py.",
   technique="Coq proof (induction on the script tree, generic in the hash) + exhaustive (n, index) correspondence with the tap binary",
   ref="DESIGN.md §2 C06"),
}

NOT_YET = {}

def main():
    props = [json.loads(l) for l in open(os.path.join(ROOT, "properties.jsonl"))]
    checks = []
    na = []
    for p in props:
        pid = p["id"]
        if pid in CLAIMED:
            c = CLAIMED[pid]
            checks.append({
                "property_id": pid,
                "quick_cmd": "./bin/check %s quick" % pid,
                "thorough_cmd": "./bin/check %s thorough" % pid,
                "evidence_file": "evidence/%s.json" % pid,
                "replay_cmd_template": "./bin/check %s --replay {path}" % pid,
                "engine": "coq-proof+correspondence",
                "level_claimed": {"category": "proof", "text": c["text"], "design_ref": c["ref"]},
                "level_note": c["note"],
                "technique": c["technique"],
            })
        else:
            na.append({"property_id": pid, "reason": NOT_YET.get(pid, "not claimed yet: model, theorems and correspondence for this property are still being built (see DESIGN.md §2); no check is registered until it is sound")})
    man = {
        "version": 1,
        "setup_cmd": "./bin/setup",
        "hooks": {"guard": "BTCDEB_VERIF", "enable": "harness builds pass -DBTCDEB_VERIF (tools/vlib.py); no source hooks are needed so far",
                  "baseline_off_cmd": "cd /repo && make -j8 test-btcdeb >/dev/null 2>&1; cd /repo && ./test-btcdeb", "source_commits": [], "add_only": True},
        "engines": [{"name": "coq-proof+correspondence", "path": "bin/check", "serves_properties": sorted(CLAIMED),
                     "kind_free_text": "Coq 8.16 theorems about an executable Gallina model; model tied to /repo by a source translator (coq/Gen) and by differential execution of the extracted model against a native harness linked with the tree's objects"}],
        "checks": checks,
        "not_applicable": na,
        "notes": "All checks rebuild from /repo's working tree (hash-keyed cache under /verif/.cache). VERIF_SEED seeds every generator.",
    }
    with open(os.path.join(ROOT, "MANIFEST.json"), "w") as fh:
        json.dump(man, fh, indent=1)
        fh.write("\n")

if __name__ == "__main__":
    main()
