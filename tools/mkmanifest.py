#!/usr/bin/env python3
"""Regenerates MANIFEST.json from the table below (kept in one place so it stays valid)."""
import json, os
ROOT = os.path.dirname(os.path.dirname(os.path.abspath(__file__)))

TB = ("Trusted: Coq 8.16.1 kernel + vm_compute (no native_compute); no axioms of ours (Print Assumptions per theorem is in the evidence); "
      "translator tools/translate.py; extraction with ExtrOcamlBasic only; ocaml/driver.ml; harness/vh.cpp; python generators/diff. ")

CLAIMED = {
 "C18": dict(
   text="Unbounded theorems (Properties/C18.v): decode(encode z)=z for every integer (any width), encoder output is well-formed and minimal, "
        "minimal strings are unique encodings, decoder = sign-magnitude value for every byte string, the checking constructor rejects exactly "
        "over-long and (when required) non-minimal strings, n-byte strings <-> |v|<2^(8n-1), Value conversions are this codec. The hand-written "
        "model is tied to script/script.h and value.h by executing vh (tree's code) and the extracted model on all byte strings of length 0..2 "
        "(0..3 thorough) x both minimality settings, stratified 3..9-byte strings and integer bands/boundaries up to +-2^63.",
   note=TB + "Modelled, not verified: the C++ bit operations are written arithmetically in the model (stated in ScriptNum.v); the tie is the exhaustive/stratified differential run.",
   technique="Coq proof (induction on byte lists, lia/nia) + exhaustive differential correspondence against extracted model",
   ref="DESIGN.md §2 C18"),
}

NOT_YET = {}

def main():
    props = [json.loads(l) for l in open(os.path.join(ROOT, "properties.jsonl"))]
    checks = []
    na = []
    for p in props:
        pid = p["id"]
        if pid in CLAIMED:
            c = CLAIMED[pid]
            checks.append({
                "property_id": pid,
                "quick_cmd": "./bin/check %s quick" % pid,
                "thorough_cmd": "./bin/check %s thorough" % pid,
                "evidence_file": "evidence/%s.json" % pid,
                "replay_cmd_template": "./bin/check %s --replay {path}" % pid,
                "engine": "coq-proof+correspondence",
                "level_claimed": {"category": "proof", "text": c["text"], "design_ref": c["ref"]},
                "level_note": c["note"],
                "technique": c["technique"],
            })
        else:
            na.append({"property_id": pid, "reason": NOT_YET.get(pid, "not claimed yet: model, theorems and correspondence for this property are still being built (see DESIGN.md §2); no check is registered until it is sound")})
    man = {
        "version": 1,
        "setup_cmd": "./bin/setup",
        "hooks": {"guard": "BTCDEB_VERIF", "enable": "harness builds pass -DBTCDEB_VERIF (tools/vlib.py); no source hooks are needed so far",
                  "baseline_off_cmd": "cd /repo && make -j8 test-btcdeb >/dev/null 2>&1; cd /repo && ./test-btcdeb", "source_commits": [], "add_only": True},
        "engines": [{"name": "coq-proof+correspondence", "path": "bin/check", "serves_properties": sorted(CLAIMED),
                     "kind_free_text": "Coq 8.16 theorems about an executable Gallina model; model tied to /repo by a source translator (coq/Gen) and by differential execution of the extracted model against a native harness linked with the tree's objects"}],
        "checks": checks,
        "not_applicable": na,
        "notes": "All checks rebuild from /repo's working tree (hash-keyed cache under /verif/.cache). VERIF_SEED seeds every generator.",
    }
    with open(os.path.join(ROOT, "MANIFEST.json"), "w") as fh:
        json.dump(man, fh, indent=1)
        fh.write("\n")

if __name__ == "__main__":
    main()
