#!/usr/bin/env python3
"""Check engine shared by all properties: translate -> Coq build (proof obligations) -> extraction ->
native build -> correspondence streams -> decision (PASS / KNOWN-FINDING / VIOLATION) -> evidence."""
import os, re, sys, json, time, random, subprocess, shutil, hashlib, tempfile, collections
sys.path.insert(0, os.path.dirname(os.path.abspath(__file__)))
import vlib, translate
from vlib import VERIF, log

COQ = os.path.join(VERIF, "coq")
OCAML = os.path.join(VERIF, "ocaml")


# ------------------------------------------------------------------------------------------ Coq
def coq_project_files():
    files = []
    for l in open(os.path.join(COQ, "_CoqProject")):
        l = l.strip()
        if l.endswith(".v"):
            files.append(l)
    return files


def coq_build(timeout=1500):
    """translate + make -k. Returns dict(ok=bool, failed=[files], log=str, translate_error=str|None, changed=[...])."""
    res = {"ok": True, "failed": [], "log": "", "translate_error": None, "changed": []}
    with vlib.Lock("coq"):
        try:
            info, changed = translate.main()
            res["changed"] = changed
        except translate.TranslateError as e:
            res["ok"] = False
            res["translate_error"] = str(e)
            return res
        if not os.path.exists(os.path.join(COQ, "Makefile")) or os.path.getmtime(os.path.join(COQ, "Makefile")) < os.path.getmtime(os.path.join(COQ, "_CoqProject")):
            subprocess.check_call(["coq_makefile", "-f", "_CoqProject", "-o", "Makefile"], cwd=COQ, stdout=subprocess.DEVNULL)
        r = subprocess.run(["timeout", str(timeout), "make", "-k", "-j%d" % vlib.NCPU], cwd=COQ, stdout=subprocess.PIPE, stderr=subprocess.STDOUT, text=True)
        res["log"] = r.stdout
        if r.returncode != 0:
            res["ok"] = False
        for f in coq_project_files():
            if not os.path.exists(os.path.join(COQ, f + "o")):
                res["failed"].append(f)
        if res["failed"]:
            res["ok"] = False
        # extraction + driver (model files only; must work even when proofs are broken)
        res["driver_ok"] = build_driver()
    return res


def build_driver():
    model_ml = os.path.join(OCAML, "model.ml")
    drv = os.path.join(OCAML, "driver")
    ex_src = os.path.join(COQ, "Extract.v")
    deps = [os.path.join(COQ, f) for f in extract_deps()]
    vos = [d + "o" for d in deps]
    if not all(os.path.exists(v) for v in vos):
        # try to build just the model files
        subprocess.run(["make", "-k", "-j%d" % vlib.NCPU] + [os.path.relpath(v, COQ) for v in vos], cwd=COQ, stdout=subprocess.DEVNULL, stderr=subprocess.DEVNULL)
        if not all(os.path.exists(v) for v in vos):
            return False
    newest = max(os.path.getmtime(p) for p in vos + [ex_src])
    if not os.path.exists(model_ml) or os.path.getmtime(model_ml) < newest:
        r = subprocess.run(["coqc", "-Q", ".", "BV", "Extract.v"], cwd=COQ, stdout=subprocess.PIPE, stderr=subprocess.STDOUT, text=True)
        if r.returncode != 0:
            log(r.stdout[-3000:])
            return False
    srcs = [os.path.join(OCAML, f) for f in ("model.mli", "model.ml", "driver.ml")]
    if not os.path.exists(drv) or os.path.getmtime(drv) < max(os.path.getmtime(p) for p in srcs):
        r = subprocess.run(["ocamlfind", "ocamlopt", "-w", "-a", "-unsafe", "-inline", "100", "model.mli", "model.ml", "driver.ml", "-o", "driver"],
                           cwd=OCAML, stdout=subprocess.PIPE, stderr=subprocess.STDOUT, text=True)
        if r.returncode != 0:
            log(r.stdout[-3000:])
            return False
    return True


def extract_deps():
    """Model/spec files imported by Extract.v (transitively listed by hand in EXTRACT_DEPS at top of the file)."""
    txt = open(os.path.join(COQ, "Extract.v")).read()
    m = re.search(r"\(\*\s*DEPS:\s*(.*?)\*\)", txt, re.S)
    if not m:
        return []
    return m.group(1).split()


def theorem_names(vfile):
    txt = open(os.path.join(COQ, vfile)).read()
    return re.findall(r"^\s*(?:Theorem|Corollary)\s+([A-Za-z0-9_']+)", txt, re.M)


def property_obligations(files):
    """For each Properties file: compile it stand-alone to capture Print Assumptions; returns
    (obligations, discharged, assumptions{thm:text}, broken[(file,msg)])."""
    obligations = 0
    discharged = 0
    assumptions = {}
    broken = []
    for f in files:
        names = theorem_names(f)
        obligations += len(names)
        vo = os.path.join(COQ, f + "o")
        if not os.path.exists(vo):
            # find out why
            r = subprocess.run(["timeout", "600", "coqc", "-Q", ".", "BV", f], cwd=COQ, stdout=subprocess.PIPE, stderr=subprocess.STDOUT, text=True)
            msg = r.stdout.strip()[-1500:]
            if r.returncode == 0:
                # dependency was broken at make time but is fine now (race) - count as ok
                pass
            else:
                broken.append((f, msg, locate_theorem(f, msg)))
                continue
        r = subprocess.run(["timeout", "600", "coqc", "-Q", ".", "BV", f], cwd=COQ, stdout=subprocess.PIPE, stderr=subprocess.STDOUT, text=True)
        if r.returncode != 0:
            msg = r.stdout.strip()[-1500:]
            broken.append((f, msg, locate_theorem(f, msg)))
            continue
        discharged += len(names)
        # Print Assumptions output, in order
        chunks = re.split(r"(?m)^(?=Closed under the global context|Axioms:)", r.stdout)
        chunks = [c.strip() for c in chunks if c.strip()]
        pa = re.findall(r"Print Assumptions\s+([A-Za-z0-9_']+)", open(os.path.join(COQ, f)).read())
        for nm, c in zip(pa, chunks):
            assumptions[nm] = c
    return obligations, discharged, assumptions, broken


def locate_theorem(vfile, msg):
    """Name the statement enclosing the error position reported by coqc (possibly in a dependency)."""
    m = re.search(r'File "([^"]+)", line (\d+)', msg)
    if not m:
        return None
    path, line = m.group(1), int(m.group(2))
    if not os.path.isabs(path):
        path = os.path.join(COQ, path)
    try:
        lines = open(path).read().split("\n")
    except OSError:
        return None
    for i in range(min(line, len(lines)) - 1, -1, -1):
        mm = re.match(r"\s*(?:Theorem|Lemma|Corollary|Example|Definition|Fixpoint|Fact)\s+([A-Za-z0-9_']+)", lines[i])
        if mm:
            return "%s:%s" % (os.path.relpath(path, COQ), mm.group(1))
    return os.path.relpath(path, COQ)


def broken_dependencies(files, coqres):
    """Which failed project files do the property files depend on (by Require)?"""
    failed = set(coqres["failed"])
    return sorted(failed)


# ------------------------------------------------------------------------------------------ running cases
def _run_lines(cmd, cases, env=None, timeout=3600):
    with tempfile.NamedTemporaryFile("w", suffix=".cases", dir=vlib.SCRATCH, delete=False) as fh:
        fh.write("\n".join(cases) + "\n")
        path = fh.name
    try:
        e = dict(os.environ)
        if env:
            e.update(env)
        def big_stack():
            # deep (non tail) recursion of the extracted model on 100 kB+ inputs needs more than the default 8 MB stack
            import resource
            soft, hard = resource.getrlimit(resource.RLIMIT_STACK)
            try:
                resource.setrlimit(resource.RLIMIT_STACK, (hard, hard))
            except (ValueError, OSError):
                pass
        r = subprocess.run(cmd + [path], stdout=subprocess.PIPE, stderr=subprocess.PIPE, timeout=timeout, env=e, preexec_fn=big_stack)
        out = r.stdout.decode("utf-8", "replace")
        return out, r.returncode, r.stderr.decode("utf-8", "replace")
    finally:
        os.unlink(path)


def group_results(out):
    res = collections.OrderedDict()
    for l in out.split("\n"):
        if not l.startswith(("R ", "S ", "F ")):
            continue
        # crashes are reported as 'R id CRASH sig=..' by vh and 'R id #k CRASH why=..' by the model driver
        mm = re.match(r"(R \S+)(?: #\d+)? CRASH\b.*", l)
        if mm:
            l = mm.group(1) + " CRASH"
        parts = l.split(" ", 2)
        cid = parts[1]
        res.setdefault(cid, []).append(l)
    return res


def run_impl(cases, variant="plain", shards=None):
    bdir = vlib.build(variant)
    return _run_sharded([os.path.join(bdir, "vh")], cases, shards, env={"ASAN_OPTIONS": "detect_leaks=0:abort_on_error=1", "UBSAN_OPTIONS": "halt_on_error=1:abort_on_error=1:print_stacktrace=1"})


ORACLE_FILE = os.path.join(vlib.CACHE, "oracle.txt")


def _answer(q):
    """answer one crypto-oracle query of the model with the independent python reference"""
    import refcrypto as R
    parts = q.split()
    if parts[0] == "tweak":
        ok = R.check_tap_tweak(bytes.fromhex(parts[1]), bytes.fromhex(parts[2]), bytes.fromhex(parts[3]), parts[4] == "1")
        return "1" if ok else "0"
    if parts[0] == "tweakadd":
        r = R.xonly_tweak_add(bytes.fromhex(parts[1]), bytes.fromhex(parts[2]))
        return "none" if r is None else "%s:%d" % (r[0].hex(), r[1])
    if parts[0] == "ecdsa":      # ecdsa <pubkey> <digest> <der-without-hashtype>
        return "1" if R.ecdsa_verify(bytes.fromhex(parts[2]), bytes.fromhex(parts[1]), bytes.fromhex(parts[3])) else "0"
    if parts[0] == "schnorr":    # schnorr <pubkey32> <msg32> <sig64>
        return "1" if R.schnorr_verify(bytes.fromhex(parts[2]), bytes.fromhex(parts[1]), bytes.fromhex(parts[3])) else "0"
    raise RuntimeError("unknown oracle query " + q)


def run_model(cases, shards=None):
    """runs the extracted model; crypto-oracle queries it prints (Q lines) are answered by tools/refcrypto.py,
    appended to the oracle table and the cases that asked are run again until no query is open"""
    env = {"VERIF_ORACLE": ORACLE_FILE}
    res, queries, dirty = _run_sharded([os.path.join(OCAML, "driver")], cases, shards, env=env, want_queries=True)
    byid = None
    for _ in range(12):
        if not queries:
            return res
        with vlib.Lock("oracle"):
            with open(ORACLE_FILE, "a") as fh:
                for q in sorted(queries):
                    fh.write("%s %s\n" % (q, _answer(q)))
        if byid is None:
            byid = {re.search(r"\bid=(\S+)", c).group(1): c for c in cases}
        again = [byid[i] for i in dirty if i in byid]
        r2, queries, dirty = _run_sharded([os.path.join(OCAML, "driver")], again, shards, env=env, want_queries=True)
        res.update(r2)
    raise RuntimeError("oracle queries did not converge")


def _run_sharded(cmd, cases, shards=None, env=None, want_queries=False):
    if shards is None:
        # by case count and by input volume (long scripts / control blocks / transactions make single cases expensive for the extracted model)
        shards = min(vlib.NCPU, max(1, len(cases) // 2000, sum(len(c) for c in cases) // 150000))
        shards = min(shards, max(1, len(cases)))
    queries = set()
    dirty = set()
    def collect(out):
        pending = False
        for l in out.split("\n"):
            if l.startswith("Q "):
                queries.add(l[2:].strip()); pending = True
            elif pending and l.startswith("R "):
                dirty.add(l.split(" ", 2)[1])
                pending = False
    if shards <= 1:
        out, rc, err = _run_lines(cmd, cases, env)
        if want_queries and rc != 0:
            raise RuntimeError("the extracted model's driver exited with status %d: %s" % (rc, err[-300:]))
        collect(out)
        return (group_results(out), queries, dirty) if want_queries else group_results(out)
    import concurrent.futures
    chunks = [cases[i::shards] for i in range(shards)]
    res = collections.OrderedDict()
    with concurrent.futures.ThreadPoolExecutor(shards) as ex:
        for out, rc, err in ex.map(lambda c: _run_lines(cmd, c, env), chunks):
            if want_queries and rc != 0:
                # a machinery failure (e.g. stack exhaustion), not a difference between model and implementation
                raise RuntimeError("the extracted model's driver exited with status %d: %s" % (rc, err[-300:]))
            collect(out)
            for k, v in group_results(out).items():
                res[k] = v
    return (res, queries, dirty) if want_queries else res


# ------------------------------------------------------------------------------------------ check context
class Check:
    def __init__(self, pid, tier):
        self.pid = pid
        self.tier = os.environ.get("VERIF_TIER", tier)
        self.seed = int(os.environ.get("VERIF_SEED", "1"))
        self.rng = random.Random(self.seed * 1000003 + int(pid[1:]))
        self.t0 = time.time()
        self.evaluations = 0
        self.nontrivial = set()
        self.samples = []
        self.streams = {}
        self.violations = []       # (kind, description, replay-path)
        self.known = collections.OrderedDict()  # finding id -> count
        self.notes = []
        self.coq = None
        self.obl = (0, 0, {}, [])
        self.findings = {f["id"]: f for f in vlib.known_findings() if f["property"] == pid or pid in f.get("also", [])}
        self.extra = {}
        shutil.rmtree(os.path.join(VERIF, 'replays', pid), ignore_errors=True)

    # -- proof side
    def prove(self, prop_files):
        self.prop_files = prop_files
        self.coq = coq_build()
        if self.coq["translate_error"]:
            self.notes.append("translator failed: " + self.coq["translate_error"])
            self.obl = (sum(len(theorem_names(f)) for f in prop_files), 0, {}, [("translator", self.coq["translate_error"], None)])
            return False
        self.obl = property_obligations(prop_files)
        return not self.obl[3]

    @property
    def proofs_ok(self):
        return self.coq is not None and not self.obl[3] and not self.coq["translate_error"]

    # -- correspondence side
    def compare(self, stream, cases, variant="plain", classify=None, nontrivial=None, keep=3, inspect=None):
        """Run cases on impl and model; returns list of (case, impl_lines, model_lines) that differ."""
        impl = run_impl(cases, variant)
        model = run_model(cases)
        diffs = []
        n = 0
        ids = {}
        for c in cases:
            m = re.search(r"\bid=(\S+)", c)
            ids[m.group(1)] = c
        st = self.streams.setdefault(stream, {"cases": 0, "diffs": 0, "known": 0})
        for cid, c in ids.items():
            il = impl.get(cid, ["R %s MISSING" % cid])
            ml = [l for l in model.get(cid, ["R %s MISSING" % cid]) if l.startswith("R ")]
            sl = [l for l in model.get(cid, []) if l.startswith("S ")]
            fl = [l.split(" ", 2)[2] for l in model.get(cid, []) if l.startswith("F ")]
            n += 1
            if inspect is not None:
                inspect(c, il, ml)
            if nontrivial is None or nontrivial(c, il):
                self.nontrivial.add(hashlib.md5(re.sub(r"\bid=\S+ ?", "", c).encode()).digest())
            if len(self.samples) < keep or (n % max(1, len(cases) // 3) == 0 and len(self.samples) < 12):
                self.samples.append({"stream": stream, "case": c, "impl": il[-1], "model": ml[-1] if ml else None})
            if il != ml:
                diffs.append((c, il, ml, sl, fl))
            elif fl:
                # impl == model inside a region where the model is known to deviate from the spec
                for f in fl:
                    self.note_known(f.split()[0], c, stream)
                    st["known"] += 1
        self.evaluations += n
        st["cases"] += n
        st["diffs"] += len(diffs)
        return diffs

    def note_known(self, fid, case, stream):
        if fid in self.findings and self.findings[fid].get("status") == "known":
            self.known[fid] = self.known.get(fid, 0) + 1
        else:
            # a deviation from the specification that is not a listed finding is a violation
            self.violation("spec-deviation", "finding %s not listed as known" % fid, {"stream": stream, "case": case, "finding": fid})

    def violation(self, kind, desc, replay_obj, no_input=False):
        name = "%s-%03d" % (kind, len(self.violations) + 1)
        replay_obj = dict(replay_obj)
        replay_obj.update({"property": self.pid, "kind": kind, "description": desc, "seed": self.seed, "tier": self.tier,
                           "rerun": "cd /verif && VERIF_SEED=%d ./bin/check %s %s" % (self.seed, self.pid, self.tier)})
        path = vlib.write_replay(self.pid, name, replay_obj)
        self.violations.append((kind, desc, path, no_input))

    # -- finish
    def finish(self, rule, trusted_extra=(), assumptions=(), explanation=None):
        obligations, discharged, assum, broken = self.obl
        # broken proof obligations without a concrete failing input
        has_input_violation = any(not v[3] for v in self.violations)
        if broken and not has_input_violation:
            for f, msg, thm in broken:
                self.violation("proof-broken", "proof obligation no longer checks: %s (%s)" % (thm or f, f),
                               {"file": f, "theorem": thm, "coq_output": msg}, no_input=True)
        wall = time.time() - self.t0
        axioms = sorted(set(v for v in assum.values() if not v.startswith("Closed")))
        tb = ["Coq 8.16.1 kernel (coqc), vm_compute for finite sweeps/witnesses, no native_compute",
              "Print Assumptions per theorem: " + ("all closed under the global context" if not axioms else "; ".join(axioms)),
              "translator tools/translate.py (Gen/*.v regenerated from /repo on this run)",
              "extraction: ExtrOcamlBasic only (bool, option, list, prod, unit, sumbool, sumor); no Extract Constant/Inductive of ours",
              "ocaml/driver.ml (case parsing/printing), harness/vh.cpp (links the tree's objects), tools/*.py generators and diff"]
        tb += list(trusted_extra)
        cov = {
            "obligations": max(1, obligations), "discharged": discharged,
            "checker_cmd": "cd /verif/coq && make -k -j16 && coqc -Q . BV " + " ".join(self.prop_files),
            "trusted_base": tb,
            "theorems": {f: theorem_names(f) for f in self.prop_files},
            "assumptions_per_theorem": assum,
            "broken_obligations": [{"file": f, "theorem": t, "msg": m[-400:]} for f, m, t in broken],
            "translator_changed": self.coq["changed"] if self.coq else [],
            "evaluations": self.evaluations, "distinct_nontrivial": len(self.nontrivial), "rule": rule,
            "samples": self.samples[:12], "streams": self.streams,
            "known_findings_seen": dict(self.known),
        }
        if explanation:
            cov["explanation"] = explanation
        cov.update(self.extra)
        vlib.write_evidence(self.pid, self.tier, self.seed, cov, wall, violations=len(self.violations), assumptions=assumptions)
        for fid, cnt in self.known.items():
            f = self.findings[fid]
            print("KNOWN-FINDING: property=%s %s %s (%d cases this run; witness %s)" % (self.pid, fid, f["what"], cnt, f.get("witness", "")))
        for kind, desc, path, no_input in self.violations[:20]:
            print("VIOLATION property=%s replay=%s%s" % (self.pid, path, " no-failing-input-found" if no_input else ""))
        print("%s %s: obligations %d/%d, %d cases (%d distinct non-trivial), %d violation(s), %.1fs" %
              (self.pid, self.tier, discharged, obligations, self.evaluations, len(self.nontrivial), len(self.violations), wall))
        return 1 if self.violations else 0
