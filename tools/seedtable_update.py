"""Rewrite the seeded-change table of DESIGN.md section 9.7 from seeded/*/meta.json (tools/seedtable.py)."""
import subprocess, re, glob, json
tab = subprocess.run(["python3", "/verif/tools/seedtable.py"], capture_output=True, text=True).stdout.rstrip("\n")
p = "/verif/DESIGN.md"; s = open(p).read()
i = s.index("| change | what | needs | tests pass | caught by (violation kinds) |")
k = s.index("changes apply to the current tree", i) if "changes apply to the current tree" in s[i:] else s.index("changes archived", i)
j = s.find("\n", k)
j = len(s) if j < 0 else j
n = len(glob.glob("/verif/seeded/*/meta.json"))
missed = []
for f in sorted(glob.glob("/verif/seeded/*/meta.json")):
    m = json.load(open(f)); det = m.get("detection", {})
    if not any(v.get("detected") for v in det.values()): missed.append(f.split("/")[-2])
tail = ("All %d changes apply to the current tree (three patches were re-based after later fix commits touched the same lines), build, pass the 33 "
        "tests, and are caught with a concrete replay (none needs `no-failing-input-found`)." % n) if not missed else \
       ("%d changes archived; NOT caught by any check: %s." % (n, ", ".join(missed)))
s = s[:i] + tab + "\n\n" + tail + (s[j:] if s[j:].strip() else "\n")
open(p, "w").write(s)
print(n, "rows;", "missed:", missed)
