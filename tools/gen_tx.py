"""Transaction generators (byte level, independent of the code under test)."""
import glob, os, re
import vlib

def cs(n):
    if n < 253: return bytes([n])
    if n <= 0xffff: return b'\xfd' + n.to_bytes(2, 'little')
    if n <= 0xffffffff: return b'\xfe' + n.to_bytes(4, 'little')
    return b'\xff' + n.to_bytes(8, 'little')

def real_txs():
    out = []
    for f in sorted(glob.glob(os.path.join(vlib.REPO, "doc", "txs", "*"))):
        if f.endswith(".md"): continue
        s = open(f).read().strip()
        if re.fullmatch(r"[0-9a-fA-F]+", s):
            out.append((os.path.basename(f), bytes.fromhex(s)))
    return out

def rb(rng, n): return bytes(rng.getrandbits(8) for _ in range(n))

def bad_cs(rng):
    c = rng.randrange(6)
    if c == 0: return b'\xfd' + rng.randrange(0, 253).to_bytes(2, 'little')
    if c == 1: return b'\xfe' + rng.randrange(0, 0x10000).to_bytes(4, 'little')
    if c == 2: return b'\xff' + rng.randrange(0, 1 << 32).to_bytes(8, 'little')
    if c == 3: return b'\xfe' + rng.choice([0x02000000, 0x02000001, 0xffffffff, 0x10000]).to_bytes(4, 'little')
    if c == 4: return b'\xff' + rng.choice([1 << 32, (1 << 64) - 1]).to_bytes(8, 'little')
    return b'\xfd' + rng.choice([253, 254, 0xffff]).to_bytes(2, 'little')

def make_tx(version, vin, vout, locktime, witnesses=None):
    """vin: list of (hash32, n, scriptSig, sequence); vout: list of (value, spk); witnesses: list of stacks or None"""
    b = (version & 0xffffffff).to_bytes(4, 'little')
    wit = witnesses is not None and any(len(w) for w in witnesses)
    if wit: b += b'\x00\x01'
    b += cs(len(vin)) + b''.join(h + n.to_bytes(4, 'little') + cs(len(ss)) + ss + seq.to_bytes(4, 'little') for h, n, ss, seq in vin)
    b += cs(len(vout)) + b''.join((v & 0xffffffffffffffff).to_bytes(8, 'little') + cs(len(s)) + s for v, s in vout)
    if wit:
        for st in witnesses:
            b += cs(len(st)) + b''.join(cs(len(i)) + i for i in st)
    b += (locktime & 0xffffffff).to_bytes(4, 'little')
    return b

def gen_raw(rng, big=False):
    ver = rng.choice([1, 2, 0xffffffff, 0x80000000, rng.getrandbits(32)]).to_bytes(4, 'little')
    nin = rng.choice([0, 0, 1, 1, 2, 3, 300 if (big and rng.random() < 0.05) else 1])
    nout = rng.choice([0, 1, 1, 2, 3, 260 if (big and rng.random() < 0.05) else 1])
    wit = rng.random() < 0.5
    def script():
        n = rng.choice([0, 1, 5, 252, 253, 254, 300, 70000 if (big and rng.random() < 0.03) else 2])
        return cs(n) + rb(rng, n)
    vin = b''.join(rb(rng, 32) + rb(rng, 4) + script() + rb(rng, 4) for _ in range(nin))
    vout = b''.join(rng.choice([rb(rng, 8), b'\xff' * 8, b'\0' * 7 + b'\x80']) + script() for _ in range(nout))
    b = ver
    if wit: b += b'\0' + bytes([rng.choice([1, 1, 1, 1, 0, 2, 3, 255, rng.getrandbits(8)])])
    b += cs(nin) + vin + cs(nout) + vout
    if wit:
        for _ in range(nin):
            k = rng.choice([0, 0, 1, 2, 3])
            b += cs(k) + b''.join(script() for _ in range(k))
    b += rb(rng, 4)
    return b

def mutate(rng, b):
    b = bytearray(b)
    c = rng.randrange(8)
    if c == 0 and len(b) > 0: b = b[:rng.randrange(len(b))]
    elif c == 1 and len(b) > 0: b[rng.randrange(len(b))] = rng.getrandbits(8)
    elif c == 2: b += rb(rng, rng.randrange(1, 5))
    elif c == 3 and len(b) > 6: b[rng.randrange(4, 7)] = rng.choice([0, 1, 2, 253, 254, 255])
    elif c == 4 and len(b) > 6:
        p = rng.randrange(4, min(len(b), 60)); b[p:p + 1] = bad_cs(rng)
    elif c == 5 and len(b) > 0:
        p = rng.randrange(len(b)); del b[p]
    elif c == 6 and len(b) > 0:
        p = rng.randrange(len(b)); b[p:p] = rb(rng, 1)
    return bytes(b)
