"""Confirm a seeded change delivered by a sub-agent and run the property's check against it.
usage: seedcheck.py <Cnn> <A|B> [--src /tmp/seedout] [--tier quick]
1. scratch worktree of /repo HEAD under /var/tmp: apply patch, make, ./test-btcdeb must pass; run the demonstration commands there and on /repo: outputs must differ
2. apply the patch to /repo, run ./bin/check <Cnn> <tier> (+ extra checks given with --also), undo (git checkout -- .)
3. copy patch.diff / demo.md / meta.json (+ result) to /verif/seeded/<Cnn>-<X>/"""
import sys, os, json, subprocess, shutil, re, argparse

VERIF = "/verif"; REPO = "/repo"

def sh(cmd, cwd=None, timeout=3600):
    p = subprocess.run(cmd, shell=True, cwd=cwd, stdout=subprocess.PIPE, stderr=subprocess.STDOUT, text=True, timeout=timeout, errors="replace")
    return p.returncode, p.stdout

def main():
    ap = argparse.ArgumentParser()
    ap.add_argument("pid"); ap.add_argument("var"); ap.add_argument("--src", default="/tmp/seedout"); ap.add_argument("--tier", default="quick")
    ap.add_argument("--also", default=""); ap.add_argument("--skip-confirm", action="store_true")
    a = ap.parse_args()
    src = os.path.join(a.src, a.pid, a.var)
    patch = os.path.join(src, "patch.diff")
    meta = json.load(open(os.path.join(src, "meta.json"))) if os.path.exists(os.path.join(src, "meta.json")) else {}
    res = {"property": a.pid, "variant": a.var}
    rc, out = sh("git -C %s status --short | grep -v '^??' | head -3" % REPO)
    if out.strip():
        print("REFUSING: /repo has local modifications:\n" + out); return 2
    # --- 1. confirm in a scratch worktree
    wt = "/var/tmp/seedchk-%s-%s" % (a.pid, a.var)
    if not a.skip_confirm:
        sh("git -C %s worktree remove --force %s" % (REPO, wt)); shutil.rmtree(wt, ignore_errors=True)
        rc, out = sh("git -C %s worktree add -q --detach %s HEAD && rsync -a --ignore-existing --exclude=.git %s/ %s/" % (REPO, wt, REPO, wt))
        try:
            rc, out = sh("git apply %s 2>&1 || git apply --3way %s" % (patch, patch), cwd=wt)
            res["applies"] = rc == 0
            if rc != 0:
                res["apply_output"] = out[-800:]
            else:
                rc, out = sh("make -j16 2>&1 | tail -3", cwd=wt)
                rc2, out2 = sh("./test-btcdeb 2>&1 | tail -3", cwd=wt)
                res["builds"] = os.path.exists(os.path.join(wt, "btcdeb")) and "rror" not in out
                res["tests_pass"] = "All tests passed" in out2
                res["tests_tail"] = out2.strip()[-200:]
                demos = meta.get("demo_commands", [])
                diffs = 0; ran = 0
                for d in demos[:6]:
                    if not isinstance(d, str) or "pty" in d and "python" not in d: continue
                    c1 = d.replace("/tmp/seedwt/%s" % a.pid, wt)
                    c0 = d.replace("/tmp/seedwt/%s" % a.pid, REPO)
                    try:
                        r1 = sh(c1 + " 2>&1 < /dev/null", cwd=wt, timeout=120); r0 = sh(c0 + " 2>&1 < /dev/null", cwd=REPO, timeout=120)
                    except subprocess.TimeoutExpired:
                        continue
                    ran += 1
                    n = lambda t: re.sub(r"/var/tmp/seedchk[^ /]*|/repo", "X", t)
                    if (r1[0], n(r1[1])) != (r0[0], n(r0[1])): diffs += 1
                res["demo_commands_run"] = ran; res["demo_outputs_differ"] = diffs
        finally:
            sh("git -C %s worktree remove --force %s" % (REPO, wt)); shutil.rmtree(wt, ignore_errors=True)
    # --- 2. run the checks against the patched /repo
    rc, out = sh("git -C %s apply %s 2>&1 || (git -C %s apply --3way %s 2>&1 && git -C %s reset -q HEAD)" % (REPO, patch, REPO, patch, REPO))
    if rc != 0:
        res["repo_apply_failed"] = out[-500:]
        sh("git -C %s reset -q --hard HEAD" % REPO)        # (a conflicted 3-way apply leaves unmerged paths that `checkout -- .` does not undo; /repo was clean before)
    else:
        try:
            for pid in [a.pid] + [x for x in a.also.split(",") if x]:
                rc, out = sh("./bin/check %s %s 2>&1 | tail -30" % (pid, a.tier), cwd=VERIF, timeout=7200)
                viol = [l for l in out.split("\n") if l.startswith("VIOLATION")]
                summ = [l for l in out.split("\n") if re.match(r"C\d\d (quick|thorough):", l)]
                kinds = sorted(set(re.sub(r"-\d+\.json.*", "", os.path.basename(v.split("replay=")[1])) for v in viol if "replay=" in v))
                r = {"detected": bool(viol), "violations": len(viol), "kinds": kinds, "no_input": any("no-failing-input-found" in v for v in viol), "summary": summary(summ)}
                if viol:
                    # keep the first replay as evidence of the detection
                    rp = viol[0].split("replay=")[1].split()[0]
                    if os.path.exists(rp):
                        try:
                            d = json.load(open(rp)); r["first_replay"] = {k: (v if not isinstance(v, (str, list)) else (v[:600] if isinstance(v, str) else v[:4])) for k, v in d.items() if k in ("kind", "description", "case", "argv", "theorem", "file", "stream", "problems")}
                        except Exception:
                            pass
                res.setdefault("checks", {})[pid] = r
        finally:
            sh("git -C %s reset -q --hard HEAD" % REPO)
    # --- 3. archive
    dst = os.path.join(VERIF, "seeded", "%s-%s" % (a.pid, a.var))
    os.makedirs(dst, exist_ok=True)
    for f in ("patch.diff", "demo.md"):
        if os.path.exists(os.path.join(src, f)): shutil.copy(os.path.join(src, f), os.path.join(dst, f))
    prev = {}
    if a.skip_confirm and os.path.exists(os.path.join(dst, "meta.json")):
        try: prev = json.load(open(os.path.join(dst, "meta.json"))).get("confirmation", {})
        except Exception: prev = {}
    meta["confirmation"] = prev if (a.skip_confirm and prev) else {k: v for k, v in res.items() if k != "checks"}
    det = {}
    if os.path.exists(os.path.join(dst, "meta.json")):
        try: det = json.load(open(os.path.join(dst, "meta.json"))).get("detection", {})
        except Exception: det = {}
    det.update(res.get("checks", {}))
    meta["detection"] = det
    json.dump(meta, open(os.path.join(dst, "meta.json"), "w"), indent=1)
    print(json.dumps(res, indent=1)[:3000])
    return 0

def summary(lines):
    return lines[-1] if lines else ""

if __name__ == "__main__":
    sys.exit(main())
