"""Run the rebuilt command-line tools with chosen tty / pipe combinations."""
import os, pty, subprocess, tempfile, shutil, signal

def run(binary, argv, stdin_data=None, stdin_tty=False, stdout_tty=False, env=None, timeout=20):
    """returns dict(rc, sig, stdout, stderr). stdin_tty: stdin is a pseudo-terminal (nothing typed);
    stdout_tty: stdout is a pseudo-terminal (its output is returned as stdout)."""
    cwd = tempfile.mkdtemp(prefix="btcdeb-cli-", dir=os.environ.get("VERIF_SCRATCH", "/var/tmp"))
    e = dict(os.environ); e["TERM"] = "dumb"
    for k in list(e):
        if k.startswith("DEBUG_"):
            del e[k]
    if env:
        e.update(env)
    fds = []
    try:
        if stdin_tty:
            m_in, s_in = pty.openpty(); fds += [m_in, s_in]
            stdin = s_in
        else:
            stdin = subprocess.PIPE
        if stdout_tty:
            m_out, s_out = pty.openpty(); fds += [m_out, s_out]
            stdout = s_out
        else:
            stdout = subprocess.PIPE
        p = subprocess.Popen([binary] + argv, stdin=stdin, stdout=stdout, stderr=subprocess.PIPE, cwd=cwd, env=e, close_fds=True)
        try:
            if stdin_tty:
                if stdout_tty:
                    os.close(s_out); fds.remove(s_out)
                out, err = p.communicate(timeout=timeout) if not stdout_tty else (b"", b"")
            else:
                out, err = p.communicate(input=stdin_data if stdin_data is not None else b"", timeout=timeout)
        except subprocess.TimeoutExpired:
            p.kill(); out, err = p.communicate()
            return {"rc": None, "sig": "timeout", "stdout": out or b"", "stderr": err or b""}
        if stdout_tty:
            chunks = []
            try:
                while True:
                    d = os.read(m_out, 65536)
                    if not d: break
                    chunks.append(d)
            except OSError:
                pass
            out = b"".join(chunks)
            err = p.stderr.read() if p.stderr else b""
            p.wait()
        rc = p.returncode
        return {"rc": rc if rc >= 0 else None, "sig": -rc if rc < 0 else 0, "stdout": out or b"", "stderr": err or b""}
    finally:
        for fd in fds:
            try: os.close(fd)
            except OSError: pass
        shutil.rmtree(cwd, ignore_errors=True)

def replay(obj):
    import vlib
    b = vlib.build(obj.get("variant", "plain"))
    r = run(os.path.join(b, obj["binary"]), obj["argv"], stdin_data=obj.get("stdin", "").encode("latin1") if obj.get("stdin") is not None else None,
            stdin_tty=obj.get("stdin_tty", False), env=obj.get("env"))
    print("argv:", obj["argv"]); print("rc:", r["rc"], "sig:", r["sig"]); print("stdout:", r["stdout"][:2000]); print("stderr:", r["stderr"][:2000])
    print("expected:", obj.get("expected"))
    return 1
