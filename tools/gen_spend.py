"""Independent builder / signer of funding + spending transaction pairs for every supported output type.
The digests are implemented here from the BIP texts (legacy, BIP143, BIP341/342) independently of the Coq model and of the
C++; signatures come from tools/refcrypto.py. Each built spend is labelled valid / invalid by construction."""
import hashlib
import refcrypto as R
from gen_tx import cs, make_tx

def sha(b): return hashlib.sha256(b).digest()
def dsha(b): return sha(sha(b))
def h160(b): return hashlib.new("ripemd160", sha(b)).digest()
def tagged(tag, m):
    t = sha(tag.encode()); return sha(t + t + m)
def push(d):
    n = len(d)
    if n < 0x4c: return bytes([n]) + d
    if n <= 0xff: return bytes([0x4c, n]) + d
    return bytes([0x4d]) + n.to_bytes(2, "little") + d
def ser_out(v, spk): return (v & (2**64 - 1)).to_bytes(8, "little") + cs(len(spk)) + spk
def u32(v): return (v & 0xffffffff).to_bytes(4, "little")

class Tx:
    def __init__(self, version, vin, vout, locktime):
        self.version, self.vin, self.vout, self.locktime = version, [list(i) for i in vin], [list(o) for o in vout], locktime
        self.wit = [[] for _ in vin]
    def raw(self):
        return make_tx(self.version, [tuple(i) for i in self.vin], [tuple(o) for o in self.vout], self.locktime, self.wit if any(self.wit) else None)
    def txid(self):
        return dsha(make_tx(self.version, [tuple(i) for i in self.vin], [tuple(o) for o in self.vout], self.locktime, None))

def strip_codeseps(code):
    out = b""; i = 0
    while i < len(code):
        o = code[i]; j = i + 1
        if o < 0x4c: j += o
        elif o == 0x4c: j += 1 + code[i + 1]
        elif o == 0x4d: j += 2 + int.from_bytes(code[i + 1:i + 3], "little")
        elif o == 0x4e: j += 4 + int.from_bytes(code[i + 1:i + 5], "little")
        if o != 0xab: out += code[i:j]
        i = j
    return out

def legacy_digest(tx, nin, code, ht):
    if (ht & 0x1f) == 3 and nin >= len(tx.vout):
        return (1).to_bytes(32, "little")
    acp = bool(ht & 0x80); single = (ht & 0x1f) == 3; none = (ht & 0x1f) == 2
    code = strip_codeseps(code)
    b = u32(tx.version)
    ins = [nin] if acp else range(len(tx.vin))
    b += cs(len(ins))
    for i in ins:
        h, n, ss, seq = tx.vin[i]
        b += h + u32(n)
        b += (cs(len(code)) + code) if i == nin else cs(0)
        b += u32(0) if (i != nin and (single or none)) else u32(seq)
    if none: b += cs(0)
    elif single:
        b += cs(nin + 1)
        for j in range(nin + 1):
            b += ser_out(*tx.vout[j]) if j == nin else ser_out(-1, b"")
    else:
        b += cs(len(tx.vout)) + b"".join(ser_out(*o) for o in tx.vout)
    b += u32(tx.locktime) + u32(ht)
    return dsha(b)

def bip143_digest(tx, nin, code, ht, amount):
    acp = bool(ht & 0x80); single = (ht & 0x1f) == 3; none = (ht & 0x1f) == 2
    z = bytes(32)
    hp = z if acp else dsha(b"".join(i[0] + u32(i[1]) for i in tx.vin))
    hs = z if (acp or single or none) else dsha(b"".join(u32(i[3]) for i in tx.vin))
    if not single and not none: ho = dsha(b"".join(ser_out(*o) for o in tx.vout))
    elif single and nin < len(tx.vout): ho = dsha(ser_out(*tx.vout[nin]))
    else: ho = z
    h, n, ss, seq = tx.vin[nin]
    return dsha(u32(tx.version) + hp + hs + h + u32(n) + cs(len(code)) + code + (amount & (2**64 - 1)).to_bytes(8, "little") + u32(seq) + ho + u32(tx.locktime) + u32(ht))

def bip341_digest(tx, nin, ht, spent, ext_flag, annex=None, leaf_hash=None, codesep=0xffffffff):
    """spent: list of (amount, spk) for every input"""
    if not (ht <= 3 or 0x81 <= ht <= 0x83): return None
    out_t = 1 if ht == 0 else ht & 3
    acp = (ht & 0x80) == 0x80
    m = bytes([0, ht]) + u32(tx.version) + u32(tx.locktime)
    if not acp:
        m += sha(b"".join(i[0] + u32(i[1]) for i in tx.vin)) + sha(b"".join((a & (2**64 - 1)).to_bytes(8, "little") for a, _ in spent))
        m += sha(b"".join(cs(len(s)) + s for _, s in spent)) + sha(b"".join(u32(i[3]) for i in tx.vin))
    if out_t == 1: m += sha(b"".join(ser_out(*o) for o in tx.vout))
    m += bytes([2 * ext_flag + (1 if annex is not None else 0)])
    if acp:
        h, n, ss, seq = tx.vin[nin]
        m += h + u32(n) + ser_out(*spent[nin]) + u32(seq)
    else:
        m += u32(nin)
    if annex is not None: m += sha(cs(len(annex)) + annex)
    if out_t == 3:
        if nin >= len(tx.vout): return None
        m += sha(ser_out(*tx.vout[nin]))
    if ext_flag: m += leaf_hash + bytes([0]) + u32(codesep)
    return tagged("TapSighash", m)

def taproot_output(internal_sk, leaves):
    """leaves: list of scripts, combined left to right into a simple chain tree; returns (output key x, parity, internal key, [(script, control-path)])"""
    p = R.pubkey_xonly(internal_sk)[0]
    if not leaves:
        tw = tagged("TapTweak", p)
        q, par = R.xonly_tweak_add(p, tw)
        return q, par, p, []
    hs = [tagged("TapLeaf", bytes([0xc0]) + cs(len(s)) + s) for s in leaves]
    def br(a, b): return tagged("TapBranch", a + b if a < b else b + a)
    # chain: ((l0, l1), l2), l3 ...
    paths = [[] for _ in leaves]
    acc = hs[0]; members = [0]
    for i in range(1, len(hs)):
        for mbr in members: paths[mbr].append(hs[i])
        paths[i].append(acc)
        acc = br(acc, hs[i]); members.append(i)
    q, par = R.xonly_tweak_add(p, tagged("TapTweak", p + acc))
    return q, par, p, [(leaves[i], b"".join(paths[i])) for i in range(len(leaves))]

class KeyRing:
    def __init__(self, rng):
        self.rng = rng
    def new(self, compressed=True):
        sk = self.rng.randrange(1, R.N)
        return sk, R.ser_pub(R.mul(sk, R.G), compressed)
    def new_x(self):
        sk = self.rng.randrange(1, R.N)
        return sk, R.pubkey_xonly(sk)[0]

F_STRICTENC, F_DERSIG, F_LOW_S, F_NULLDUMMY, F_NULLFAIL, F_WPK, F_CONST, F_DUP = 1 << 1, 1 << 2, 1 << 3, 1 << 4, 1 << 14, 1 << 15, 1 << 16, 1 << 20

def der_sig(r, s, pad=False):
    def i(v, pad):
        b = v.to_bytes((v.bit_length() + 8) // 8 or 1, "big")
        if pad: b = b"\0" + b
        return b"\x02" + bytes([len(b)]) + b
    body = i(r, pad) + i(s, False)
    return b"\x30" + bytes([len(body)]) + body

def wit_size(stack):
    return len(cs(len(stack))) + sum(len(cs(len(i))) + len(i) for i in stack)

def build(rng, kind, nin=1, pos=0, ht=1, mutate=None, annex=None, enc=None, wn=3):
    """returns dict(spend, fund (hex), valid (bool, when every flag bit of needs_off is off), needs_off, kind, note ...); mutate names one
    corruption (or None); enc one encoding variant (highs, padded, uncompressed, nonnulldummy, keytype)"""
    K = KeyRing(rng)
    needs_off = 0
    compressed_ok = enc != "uncompressed"
    amount = rng.randrange(10000, 10**9)
    note = kind
    # locking script and the function producing the satisfaction once the spending tx exists
    if kind == "p2pkh":
        sk, pk = K.new(rng.random() < 0.8); spk = bytes([0x76, 0xa9, 20]) + h160(pk) + bytes([0x88, 0xac])
    elif kind == "p2pk":
        sk, pk = K.new(); spk = push(pk) + b"\xac"
    elif kind == "bare-if":         # no signatures: conditionals / alt stack inside or across the two scripts
        spk = {None: b"\x63\x51\x68", "openif": b"\x68\x51", "altcarry": b"\x6c", "altown": b"\x51\x6b\x6c",
               "nosig-true": b"\x51", "nosig-return": b"\x6a", "nosig-false": b"\x00", "nosig-depth": b"\x74\x00\x87"}[mutate]
    elif kind == "bare-big":        # a scriptPubKey of exactly wn bytes (few operations): 19 x (520-byte push, DROP), a filler push, DROP, OP_1
        L = wn - 1 - 19 * 524
        spk = (b"\x4d\x08\x02" + bytes(520) + b"\x75") * 19 + push(bytes(L - 2)) + b"\x75" + b"\x51"
        assert len(spk) == wn
    elif kind == "p2sh-smallint":   # scriptSig <OP_n> <redeem = OP_n OP_EQUAL>: OP_1NEGATE, OP_1 .. OP_16 are push operations (BIP16 push-only rule)
        opn = [0x4f] + list(range(0x51, 0x61))
        redeem = bytes([opn[wn % 17], 0x87]); spk = bytes([0xa9, 20]) + h160(redeem) + b"\x87"
    elif kind == "bare-fad":        # FindAndDelete: the scriptSig itself runs CHECKSIGVERIFY and contains pushes of the signature it verifies
        sk, pk = K.new(); spk = b"\x75\x51"
    elif kind == "p2wsh-hashlock":  # a witness script that has the byte shape of pay-to-script-hash: an ordinary hash lock
        preimage = bytes([0x6a]) + bytes(rng.randrange(256) for _ in range(rng.randrange(0, 4)))      # would fail if run as a script
        ws = bytes([0xa9, 20]) + h160(preimage) + b"\x87"; prog = b"\x00\x20" + sha(ws); spk = prog
    elif kind == "p2wsh-item":      # a witness item of wn bytes
        ws = b"\x75\x51"; prog = b"\x00\x20" + sha(ws); spk = prog
    elif kind == "multisig":        # bare 2-of-3
        ks = [K.new() for _ in range(3)]; spk = b"\x52" + b"".join(push(k[1]) for k in ks) + b"\x53\xae"
    elif kind in ("p2sh", "p2sh-codesep", "p2sh-cs-unexec"):
        ks = [K.new() for _ in range(2)]
        if kind == "p2sh": redeem = b"\x51" + push(ks[0][1]) + push(ks[1][1]) + b"\x52\xae"
        elif kind == "p2sh-codesep": redeem = b"\x51\xab\x75" + push(ks[0][1]) + b"\xac"
        else: redeem = b"\x00\x63\xab\x68" + push(ks[0][1]) + b"\xab\xac"        # one in an unexecuted branch, one executed last
        spk = bytes([0xa9, 20]) + h160(redeem) + b"\x87"
    elif kind in ("p2wpkh", "p2sh-p2wpkh"):
        sk, pk = K.new(compressed_ok); prog = b"\x00\x14" + h160(pk)
        spk = prog if kind == "p2wpkh" else bytes([0xa9, 20]) + h160(prog) + (b"\x87" if mutate != "notp2sh" else b"")
    elif kind in ("p2wsh", "p2sh-p2wsh", "p2wsh-codesep", "p2wsh-cs-unexec"):
        ks = [K.new(compressed_ok) for _ in range(3)]
        if kind == "p2wsh-codesep": ws = push(ks[0][1]) + b"\xad\xab" + push(ks[1][1]) + b"\xac"
        elif kind == "p2wsh-cs-unexec": ws = b"\x00\x63\xab\x68" + push(ks[0][1]) + b"\xac"
        else: ws = b"\x52" + b"".join(push(k[1]) for k in ks) + b"\x53\xae"
        prog = b"\x00\x20" + sha(ws)
        spk = prog if kind != "p2sh-p2wsh" else bytes([0xa9, 20]) + h160(prog) + (b"\x87" if mutate != "notp2sh" else b"\x87\x61")
    elif kind == "p2tr-key":
        isk = rng.randrange(1, R.N)
        q, par, p, _ = taproot_output(isk, [])
        spk = b"\x51\x20" + q
    elif kind in ("p2tr-script", "p2tr-csa", "p2tr-codesep", "p2tr-cs-unexec", "p2tr-weight", "p2tr-keytype", "p2tr-path", "p2tr-item", "p2tr-empty"):
        isk = rng.randrange(1, R.N)
        lk = [K.new_x() for _ in range(3)]
        if kind == "p2tr-item": leaves = [b"\x75\x51"]
        elif kind == "p2tr-empty": leaves = [b""] + [bytes([0x51 + (j % 16), 0x87]) for j in range(wn)]      # an EMPTY leaf script under a path of length wn (F54)
        elif kind == "p2tr-path": leaves = [push(lk[0][1]) + b"\xac"] + [bytes([0x51 + (j % 16), 0x51 + (j // 16) % 16, 0x87]) for j in range(wn)]     # control path of length wn
        elif kind == "p2tr-cs-unexec": leaves = [b"\x00\x63\xab\x68" + push(lk[0][1]) + b"\xac"]
        elif kind == "p2tr-weight": leaves = [(b"\x76" + push(lk[0][1]) + b"\xad") * wn + push(lk[0][1]) + b"\xac", b"\x51"]
        elif kind == "p2tr-keytype": leaves = [push(lk[0][1] + b"\x01") + b"\xac"]          # 33-byte key: unknown key type, succeeds unless discouraged
        elif kind == "p2tr-script": leaves = [push(lk[0][1]) + b"\xac", b"\x51", push(lk[1][1]) + b"\xad\x51"]
        elif kind == "p2tr-csa": leaves = [push(lk[0][1]) + b"\xac" + push(lk[1][1]) + b"\xba" + push(lk[2][1]) + b"\xba\x52\x87"]
        else: leaves = [b"\x51\x75\xab" + push(lk[0][1]) + b"\xad\xab" + push(lk[1][1]) + b"\xac", b"\x61"]
        q, par, p, leafinfo = taproot_output(isk, leaves)
        spk = b"\x51\x20" + q
    else:
        raise ValueError(kind)
    fund_outs = [(rng.randrange(1, 10**8), bytes([0x6a]))] * rng.randrange(0, 3)
    vout_n = len(fund_outs)
    fund = Tx(2, [(bytes(rng.randrange(256) for _ in range(32)), 0, b"", 0xffffffff)], fund_outs + [(amount, spk)] + [(5, b"\x51")] * rng.randrange(0, 2), 0)
    ftxid = fund.txid()
    vin = []
    for i in range(nin):
        if i == pos: vin.append((ftxid, vout_n, b"", rng.choice([0xffffffff, 0xfffffffe, 5])))
        else: vin.append((bytes(rng.randrange(256) for _ in range(32)), rng.randrange(3), b"", 0xffffffff))
    nout = rng.choice([1, 2, 3]) if (ht & 0x1f) != 3 or mutate != "single-oob" else max(0, pos)
    tx = Tx(rng.choice([1, 2]), vin, [(rng.randrange(1, amount), bytes([0x51, 0x20]) + bytes(rng.randrange(256) for _ in range(32))) for _ in range(nout)], rng.choice([0, 0, 500000]))
    # the other inputs of the transaction may be segwit inputs (their witnesses are not signed by this input)
    for i in range(nin):
        if i != pos and rng.random() < 0.5:
            tx.wit[i] = [bytes(rng.randrange(256) for _ in range(rng.randrange(0, 4))) for _ in range(rng.randrange(1, 3))]
    amt_for_sig = amount + (1 if mutate == "amount" else 0)
    def ecdsa(sk, digest, hashtype):
        r_, s_ = R.parse_der_lax(R.ecdsa_sign(digest, sk))
        if enc == "highs": s_ = R.N - s_
        s = der_sig(r_, s_, pad=(enc == "padded")) + bytes([hashtype])
        if mutate == "sigbyte":
            b = bytearray(s); b[10] ^= 1; s = bytes(b)
        return s
    valid = mutate in (None, "single-oob", "unsigned")
    finding = None
    def others_spent(a):
        # the outputs spent by the other inputs exist only in the signer's world: the debugger is given one funding transaction
        return [(a, spk) if i == pos else (rng.randrange(1000, 10**8), b"\x51\x20" + bytes(rng.randrange(256) for _ in range(32))) for i in range(nin)]
    if kind in ("p2pkh", "p2pk"):
        usk = sk if mutate != "wrongkey" else rng.randrange(1, R.N)
        sig = ecdsa(usk, legacy_digest(tx, pos, spk, ht), ht)
        tx.vin[pos][2] = push(sig) + (push(pk) if kind == "p2pkh" else b"")
    elif kind == "bare-if":
        # OP_1 | OP_1 OP_IF (left open: UNBALANCED_CONDITIONAL) | OP_1 OP_TOALTSTACK (the scriptPubKey has its own, empty alt stack) | OP_NOP
        # ... | nosig-*: an EMPTY scriptSig (anyone-can-spend OP_1, OP_RETURN, OP_0, "the stack is empty": OP_DEPTH OP_0 OP_EQUAL) - the scriptPubKey must still run
        tx.vin[pos][2] = {None: b"\x51", "openif": b"\x51\x63", "altcarry": b"\x51\x6b", "altown": b"\x61"}.get(mutate, b"")
        valid = mutate in (None, "altown", "nosig-true", "nosig-depth")
    elif kind == "bare-big":
        tx.vin[pos][2] = b"\x61"
        valid = wn <= 10000
    elif kind == "p2wsh-hashlock":
        tx.wit[pos] = [preimage if mutate != "wrongkey" else preimage + b"\x00", ws]
        valid = mutate is None
    elif kind == "p2wsh-item":
        tx.wit[pos] = [bytes(wn), ws]
        valid = wn <= 520
    elif kind == "p2sh-smallint":
        tx.vin[pos][2] = bytes([opn[wn % 17]]) + push(redeem if mutate != "scripthash" else redeem + b"\x61")
        valid = mutate != "scripthash"
    elif kind == "bare-fad":
        # the script code is the scriptSig with every push of the signature removed - wherever it stands: first, in the middle, LAST
        tail = {0: b"", 1: b"\x61", 2: b""}[wn % 3]                                         # what follows the second push of the signature
        body = push(pk) + (b"\x61\xad" if wn % 3 == 2 else b"\xad")                         # <pk> [NOP] CHECKSIGVERIFY
        usk = sk if mutate != "wrongkey" else rng.randrange(1, R.N)
        sig = ecdsa(usk, legacy_digest(tx, pos, body + tail, ht), ht)
        tx.vin[pos][2] = push(sig) + body + push(sig) + tail                                # wn%3 = 0, 2: the push is the very end of the script; 1: a NOP follows
        needs_off |= F_CONST
    elif kind == "multisig":
        d = legacy_digest(tx, pos, spk, ht)
        order = sorted(rng.sample(range(3), 2))
        if mutate == "sigorder": order = order[::-1]
        sigs = [ecdsa(ks[i][0] if mutate != "wrongkey" else rng.randrange(1, R.N), d, ht) for i in order]
        tx.vin[pos][2] = (b"\x51" if enc == "nonnulldummy" else b"\x00") + b"".join(push(s) for s in sigs)
    elif kind in ("p2sh", "p2sh-codesep", "p2sh-cs-unexec"):
        code = redeem if kind == "p2sh" else redeem[2:] if kind == "p2sh-codesep" else redeem[-1:]       # after the last executed OP_CODESEPARATOR
        d = legacy_digest(tx, pos, code, ht)
        sig = ecdsa(ks[0][0] if mutate != "wrongkey" else rng.randrange(1, R.N), d, ht)
        red = redeem if mutate != "scripthash" else redeem + b"\x61"
        dummy = b"\x51" if enc == "nonnulldummy" else b"\x00"
        tx.vin[pos][2] = (dummy if kind == "p2sh" else b"") + push(sig) + push(red)
    elif kind in ("p2wpkh", "p2sh-p2wpkh"):
        code = bytes([0x76, 0xa9, 20]) + h160(pk) + bytes([0x88, 0xac])
        usk = sk if mutate != "wrongkey" else rng.randrange(1, R.N)
        sig = ecdsa(usk, bip143_digest(tx, pos, code, ht, amt_for_sig), ht)
        tx.wit[pos] = [sig, pk if mutate != "scripthash" else K.new()[1]]
        if kind == "p2sh-p2wpkh": tx.vin[pos][2] = push(prog) + (b"\x51" if mutate == "malleated" else b"")
    elif kind in ("p2wsh", "p2sh-p2wsh", "p2wsh-codesep", "p2wsh-cs-unexec"):
        if kind == "p2wsh-cs-unexec":
            items = [ecdsa(ks[0][0] if mutate != "wrongkey" else rng.randrange(1, R.N), bip143_digest(tx, pos, ws, ht, amt_for_sig), ht)]
        elif kind != "p2wsh-codesep":
            d = bip143_digest(tx, pos, ws, ht, amt_for_sig)
            order = sorted(rng.sample(range(3), 2))
            if mutate == "sigorder": order = order[::-1]
            sigs = [ecdsa(ks[i][0] if mutate != "wrongkey" else rng.randrange(1, R.N), d, ht) for i in order]
            items = [b"\x01" if enc == "nonnulldummy" else b""] + sigs
        else:
            d1 = bip143_digest(tx, pos, ws, ht, amt_for_sig)                  # first check: whole script
            d2 = bip143_digest(tx, pos, ws[len(push(ks[0][1])) + 2:], ht, amt_for_sig)   # after the code separator
            items = [ecdsa(ks[1][0] if mutate != "wrongkey" else rng.randrange(1, R.N), d2, ht), ecdsa(ks[0][0], d1, ht)]
        wsx = ws if mutate != "scripthash" else ws + b"\x61"
        tx.wit[pos] = items + [wsx]
        if kind == "p2sh-p2wsh": tx.vin[pos][2] = push(prog) + (b"\x00" if mutate == "malleated" else b"")
    elif kind == "p2tr-key":
        spent = others_spent(amount if mutate != "amount" else amount + 1)
        if nin != 1:
            finding = "multi-input-taproot"
        if True:
            d = bip341_digest(tx, pos, ht, spent, 0, annex=annex)
            tsk = (isk if R.mul(isk, R.G)[1] % 2 == 0 else R.N - isk)
            tsk = (tsk + int.from_bytes(tagged("TapTweak", p), "big")) % R.N
            if mutate == "wrongkey": tsk = rng.randrange(1, R.N)
            sig = R.schnorr_sign(d, tsk) if d is not None else bytes(64)
            if enc == "sig50" and d is not None:
                # a valid signature whose first byte is the annex tag 0x50 (one in 256; found by varying the auxiliary randomness): with a
                # single witness item it is a signature, not an annex (BIP341 needs at least two items for an annex)
                for k in range(1, 4000):
                    sig = R.schnorr_sign(d, tsk, aux=k.to_bytes(32, "big"))
                    if sig[0] == 0x50: break
            if d is None: valid = False
            if mutate == "sigbyte":
                b = bytearray(sig); b[5] ^= 1; sig = bytes(b)
            tx.wit[pos] = [sig + (bytes([ht]) if ht else b"")] + ([annex] if annex else [])
    else:
        li = 0 if kind != "p2tr-script" else rng.choice([0, 2])
        script, path = leafinfo[li]
        control = bytes([0xc0 | par]) + p + path
        if mutate == "control":
            b = bytearray(control); b[rng.randrange(1, len(b))] ^= 1; control = bytes(b)
        if isinstance(mutate, str) and mutate.startswith("ctlsize:"):
            n = int(mutate[8:]); control = (control + bytes(n))[:n]; valid = False          # a control block of an illegal size
        if kind == "p2tr-weight" and isinstance(annex, str) and annex.startswith("auto"):
            # size the annex so that the serialized witness is exactly 50*wn + delta bytes (budget = that + 50, cost = 50*(wn+1))
            delta = int(annex[4:] or "0")
            base = wit_size([bytes(64 if ht == 0 else 65), script, control])
            need = 50 * wn + delta - base
            L = need - 1 if 2 <= need <= 253 else need - 3
            annex = (b"\x50" + bytes(L - 1)) if L >= 1 and (need - 1 < 253 or L >= 253) else None
        lh = tagged("TapLeaf", bytes([0xc0]) + cs(len(script)) + script)
        spent = others_spent(amount if mutate != "amount" else amount + 1)
        def ssig(sk_, codesep=0xffffffff):
            d = bip341_digest(tx, pos, ht, spent, 1, annex=annex, leaf_hash=lh, codesep=codesep)
            if d is None: return bytes(64)
            s = R.schnorr_sign(d, sk_ if mutate != "wrongkey" else rng.randrange(1, R.N))
            if mutate == "sigbyte":
                b = bytearray(s); b[7] ^= 1; s = bytes(b)
            return s + (bytes([ht]) if ht else b"")
        if nin != 1:
            finding = "multi-input-taproot"
        if bip341_digest(tx, pos, ht, spent, 1, annex=annex, leaf_hash=lh) is None: valid = False
        if kind == "p2tr-item":
            items = [bytes(wn)]
            if wn > 520: valid = False
        elif kind in ("p2tr-cs-unexec", "p2tr-path"): items = [ssig(lk[0][0])]
        elif kind == "p2tr-empty":
            items = [b"\x01"]                                      # nothing runs: the single true item is the result
            if mutate in ("wrongkey", "sigbyte"): valid = True
        elif kind == "p2tr-weight": items = [ssig(lk[0][0])]
        elif kind == "p2tr-keytype":
            items = [b"\x01"]; needs_off |= F_DUP                  # any non-empty signature passes for an unknown key type
            if mutate in ("wrongkey", "sigbyte"): valid = True     # ... so there is no signature these two could spoil
        elif kind == "p2tr-script":
            items = [ssig(lk[0][0])] if li == 0 else [ssig(lk[1][0])]
        elif kind == "p2tr-csa":
            items = [ssig(lk[2][0]), b"", ssig(lk[0][0])]          # 2 of 3: keys 0 and 2 (stack: sig for key2 at bottom ... sig for key0 on top)
        else:
            # OP_1 OP_DROP OP_CODESEPARATOR(pos 2) <k0> CHECKSIGVERIFY OP_CODESEPARATOR(pos 5) <k1> CHECKSIG
            items = [ssig(lk[1][0], codesep=5), ssig(lk[0][0], codesep=2)]
        if mutate == "extraitem": items = [b"\x01"] + items
        if mutate == "missingitem": items = items[1:]
        tx.wit[pos] = items + [script, control] + ([annex] if annex else [])
        if kind == "p2tr-weight" and 50 * (wn + 1) > wit_size(tx.wit[pos]) + 50: valid = False; note += " (validation weight exhausted)"
    ecdsa_kind = not kind.startswith("p2tr")
    if ecdsa_kind:
        if not (1 <= (ht & 0x7f) <= 3): needs_off |= F_STRICTENC
        if enc == "highs": needs_off |= F_LOW_S
        if enc == "padded": needs_off |= F_DERSIG | F_LOW_S | F_STRICTENC
        if enc == "nonnulldummy" and kind in ("multisig", "p2sh", "p2wsh", "p2sh-p2wsh"): needs_off |= F_NULLDUMMY
        if enc == "uncompressed" and (kind in ("p2wpkh", "p2sh-p2wpkh", "p2wsh", "p2sh-p2wsh", "p2wsh-codesep", "p2wsh-cs-unexec")): needs_off |= F_WPK
        if kind in ("p2sh-codesep", "p2sh-cs-unexec"): needs_off |= F_CONST
    # alterations of fields the signature does not commit to: the input stays valid
    if mutate == "unsigned":
        base, acp = ht & 0x1f, bool(ht & 0x80)
        if kind.startswith("p2tr"): base, acp = (ht & 3 if ht else 1), ht >= 0x80
        done = False
        others = [i for i in range(nin) if i != pos]
        if acp and others:
            i = rng.choice(others); tx.vin[i][3] ^= 4; tx.vin[i][1] ^= 1; done = True
        elif base == 2 and tx.vout:
            tx.vout[rng.randrange(len(tx.vout))][0] += 7; done = True
        elif base == 3 and len(tx.vout) > 1 and any(j != pos for j in range(len(tx.vout))):
            j = rng.choice([j for j in range(len(tx.vout)) if j != pos]); tx.vout[j][0] += 7; done = True
        elif base in (2, 3) and others and not kind.startswith("p2tr"):
            i = rng.choice(others); tx.vin[i][3] ^= 4; done = True            # other inputs' sequences are not signed with NONE / SINGLE (legacy, BIP143)
        elif ecdsa_kind and others and not tx.wit[rng.choice(others)]:
            i = rng.choice(others); tx.vin[i][2] = b"\x51"; done = True          # other inputs' scriptSigs are never signed
        if not done: note += " (nothing unsigned to alter)"
    if mutate == "sat-bit":
        # one bit of the satisfaction (scriptSig or a witness item of the spending input)
        if tx.wit[pos] and (not tx.vin[pos][2] or rng.random() < 0.8):
            cand = [i for i, it in enumerate(tx.wit[pos]) if it]
            i = rng.choice(cand); b = bytearray(tx.wit[pos][i]); b[rng.randrange(len(b))] ^= 1 << rng.randrange(8); tx.wit[pos][i] = bytes(b)
        else:
            b = bytearray(tx.vin[pos][2]); b[rng.randrange(len(b))] ^= 1 << rng.randrange(8); tx.vin[pos][2] = bytes(b)
        valid = False
    # legacy SIGHASH_SINGLE without a matching output signs the constant 1: nothing of the transaction is committed to
    if kind in ("p2pk", "p2pkh", "multisig", "p2sh", "p2sh-codesep", "p2sh-cs-unexec") and (ht & 0x1f) == 3 and pos >= len(tx.vout) and mutate in ("locktime", "sequence", "output"):
        valid = True; note += " (SIGHASH_SINGLE bug: digest is 1)"
    # field alterations after signing
    if mutate == "output" and tx.vout:
        tx.vout[0][0] += 1
    if mutate == "sequence": tx.vin[pos][3] ^= 1
    if mutate == "locktime": tx.locktime += 1
    if mutate == "extraitem" and kind in ("p2wpkh", "p2sh-p2wpkh"): tx.wit[pos] = [b"\x01"] + tx.wit[pos]
    if mutate == "missingitem" and kind in ("p2wsh", "p2sh-p2wsh"): tx.wit[pos] = tx.wit[pos][1:]
    return {"spend": tx.raw().hex(), "fund": fund.raw().hex(), "valid": valid, "kind": kind, "note": note, "mutate": mutate, "ht": ht, "pos": pos, "nin": nin, "finding": finding if valid else None, "needs_off": needs_off, "enc": enc,
            "wit": [w.hex() for w in tx.wit[pos]], "scriptsig": tx.vin[pos][2].hex(), "spk": fund.vout[tx.vin[pos][1]][1].hex()}
