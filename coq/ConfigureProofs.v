(* Proofs about input selection (TxCli.select_input) and session configuration (Configure.configure). *)
From Coq Require Import ZifyBool.
From BV Require Import Base BaseProofs ScriptNum Script Interp Session Tx TxCli Sighash Configure.
From BV.Gen Require Import Consts Sites.
Local Open Scope Z_scope.

(* ------------------------------------------------------------------ input selection *)
Definition references (x : txin) (txid : bytes) : Prop := op_hash (ti_prevout x) = txid.

Lemma find_input_spec : forall vin txid i0 i n,
  find_input vin txid i0 = Some (i, n) ->
  exists k x, i = i0 + Z.of_nat k /\ nth_error vin k = Some x /\ references x txid /\ op_n (ti_prevout x) = n /\
              forall j y, (j < k)%nat -> nth_error vin j = Some y -> ~ references y txid.
Proof.
  induction vin as [|x r IH]; intros txid i0 i n H; cbn [find_input] in H; [discriminate|].
  destruct (list_eq_dec Z.eq_dec (op_hash (ti_prevout x)) txid) as [E|E].
  - inversion H; subst. exists 0%nat, x. repeat split; try reflexivity; try assumption. lia. intros j y Hj. lia.
  - destruct (IH _ _ _ _ H) as (k & y & Hi & Hn & Hr & Hv & Hmin).
    exists (S k), y. repeat split; try assumption. lia.
    intros j z Hj Hz. destruct j as [|j]. cbn in Hz. inversion Hz; subst. exact E.
    cbn in Hz. apply (Hmin j z); [lia|exact Hz].
Qed.

Lemma find_input_none : forall vin txid i0, find_input vin txid i0 = None -> forall x, In x vin -> ~ references x txid.
Proof.
  induction vin as [|x r IH]; intros txid i0 H y Hy; [destruct Hy|].
  cbn [find_input] in H. destruct (list_eq_dec Z.eq_dec (op_hash (ti_prevout x)) txid) as [E|E]; [discriminate|].
  destruct Hy as [->|Hy]; [exact E|]. eapply IH; eassumption.
Qed.

(* whatever is selected references the funding transaction, through an output that exists *)
Theorem select_sound : forall spend funding txid sel i n,
  select_input spend funding txid sel = Some (i, n) ->
  exists x prev, nth_error (tx_vin spend) (Z.to_nat i) = Some x /\ 0 <= i /\ references x txid /\ op_n (ti_prevout x) = n /\
                 nth_error (tx_vout funding) (Z.to_nat n) = Some prev /\ 0 <= n /\ (0 <= sel -> i = sel).
Proof.
  intros spend funding txid sel i n H. unfold select_input in H.
  destruct (select_input_raw spend txid sel) as [[i' n']|] eqn:Er; [|discriminate].
  destruct ((0 <=? n') && (n' <? Z.of_nat (length (tx_vout funding)))) eqn:Eb; [|discriminate]. inversion H; subst i' n'.
  apply andb_prop in Eb. destruct Eb as [E1 E2]. apply Z.leb_le in E1. apply Z.ltb_lt in E2.
  assert (Hp: exists prev, nth_error (tx_vout funding) (Z.to_nat n) = Some prev).
  { destruct (nth_error (tx_vout funding) (Z.to_nat n)) eqn:En; [eexists; reflexivity|]. apply nth_error_None in En. lia. }
  destruct Hp as [prev Hp].
  unfold select_input_raw in Er. destruct (0 <=? sel) eqn:Es.
  - apply Z.leb_le in Es. destruct (nth_error (tx_vin spend) (Z.to_nat sel)) as [x|] eqn:En; [|discriminate].
    destruct (list_eq_dec Z.eq_dec (op_hash (ti_prevout x)) txid) as [E|E]; [|discriminate]. inversion Er; subst.
    exists x, prev. repeat split; try assumption; try reflexivity.
  - apply Z.leb_gt in Es. destruct (find_input_spec _ _ _ _ _ Er) as (k & x & Hi & Hn & Hr & Hv & _).
    exists x, prev. subst i. replace (Z.to_nat (0 + Z.of_nat k)) with k by lia. repeat split; try assumption; lia.
Qed.

(* an explicit selection that does not reference the funding transaction is refused *)
Theorem select_explicit_refused : forall spend funding txid sel x,
  0 <= sel -> nth_error (tx_vin spend) (Z.to_nat sel) = Some x -> ~ references x txid -> select_input spend funding txid sel = None.
Proof.
  intros spend funding txid sel x Hs Hn Hr. unfold select_input, select_input_raw.
  replace (0 <=? sel) with true by lia. rewrite Hn.
  destruct (list_eq_dec Z.eq_dec (op_hash (ti_prevout x)) txid) as [E|E]; [contradiction|reflexivity].
Qed.

Theorem select_out_of_range_refused : forall spend funding txid sel,
  Z.of_nat (length (tx_vin spend)) <= sel -> select_input spend funding txid sel = None.
Proof.
  intros spend funding txid sel Hs. unfold select_input, select_input_raw.
  replace (0 <=? sel) with true by lia.
  assert (nth_error (tx_vin spend) (Z.to_nat sel) = None) as -> by (apply nth_error_None; lia). reflexivity.
Qed.

(* without --select the FIRST referencing input is taken, and nothing is selected only if no input references it (or its output does not exist) *)
Theorem select_auto_first : forall spend funding txid sel i n,
  sel < 0 -> select_input spend funding txid sel = Some (i, n) ->
  forall j y, (j < Z.to_nat i)%nat -> nth_error (tx_vin spend) j = Some y -> ~ references y txid.
Proof.
  intros spend funding txid sel i n Hs H. unfold select_input in H.
  destruct (select_input_raw spend txid sel) as [[i' n']|] eqn:Er; [|discriminate].
  destruct ((0 <=? n') && (n' <? Z.of_nat (length (tx_vout funding)))); [|discriminate]. inversion H; subst i' n'.
  unfold select_input_raw in Er. replace (0 <=? sel) with false in Er by lia.
  destruct (find_input_spec _ _ _ _ _ Er) as (k & x & Hi & Hn & Hr & Hv & Hmin).
  intros j y Hj. apply Hmin. lia.
Qed.

Theorem select_auto_none : forall spend txid sel,
  sel < 0 -> select_input_raw spend txid sel = None -> forall x, In x (tx_vin spend) -> ~ references x txid.
Proof.
  intros spend txid sel Hs H. unfold select_input_raw in H. replace (0 <=? sel) with false in H by lia.
  eapply find_input_none; eassumption.
Qed.

(* ------------------------------------------------------------------ witness programs *)
(* CScript::IsWitnessProgram restricted to what matters here *)
Definition witness_program (s : bytes) : option (Z * bytes) :=
  match s with
  | v :: l :: prog =>
      if (4 <=? zlen s) && (zlen s <=? 42) && ((v =? OP_0) || ((OP_1 <=? v) && (v <=? OP_16))) && (l + 2 =? zlen s)
      then Some (if v =? OP_0 then 0 else v - (OP_1 - 1), prog) else None
  | _ => None
  end.

Lemma get_op_verop : forall s verop d rest, get_op s = (Some (verop, d), rest) -> verop = OP_0 \/ verop = OP_1 -> s = verop :: rest.
Proof.
  intros s verop d rest H Hv. destruct s as [|o r]; [discriminate|]. unfold get_op in H.
  destruct Hv as [-> | ->].
  - destruct (o <=? OP_PUSHDATA4) eqn:E1.
    + destruct (o <? OP_PUSHDATA1) eqn:E2.
      * destruct (Z.of_nat (length r) <? o) eqn:E3; [discriminate|]. inversion H; subst. reflexivity.
      * exfalso. destruct (o =? OP_PUSHDATA1); [|destruct (o =? OP_PUSHDATA2)];
        match type of H with context [if ?c then None else _] => destruct c end; try discriminate;
        match type of H with context [if ?c then (None, _) else _] => destruct c end; try discriminate;
        inversion H; subst; vm_compute in E2; discriminate.
    + inversion H; subst. vm_compute in E1. discriminate.
  - destruct (o <=? OP_PUSHDATA4) eqn:E1.
    + exfalso. destruct (o <? OP_PUSHDATA1) eqn:E2.
      * destruct (Z.of_nat (length r) <? o); [discriminate|]. inversion H; subst. vm_compute in E2. discriminate.
      * destruct (o =? OP_PUSHDATA1); [|destruct (o =? OP_PUSHDATA2)];
        match type of H with context [if ?c then None else _] => destruct c end; try discriminate;
        match type of H with context [if ?c then (None, _) else _] => destruct c end; try discriminate;
        inversion H; subst; vm_compute in E1; discriminate.
    + inversion H; subst. reflexivity.
Qed.

Lemma firstn_skipn_all {A} (n : nat) (l : list A) : (length l <= n)%nat -> skipn n l = [].
Proof. intros. apply skipn_all2. exact H. Qed.

(* a push of exactly n = |s| - 1 bytes, n < 76, is the direct push *)
Lemma get_op_exact_push : forall s op prog rest, get_op s = (Some (op, prog), rest) ->
  zlen s = zlen prog + 1 -> 0 < zlen prog < OP_PUSHDATA1 -> s = zlen prog :: prog /\ rest = [].
Proof.
  intros s op prog rest H Hl Hp. destruct s as [|o r]; [discriminate|]. unfold zlen in *. cbn [length] in Hl.
  unfold get_op in H. destruct (o <=? OP_PUSHDATA4) eqn:E1.
  - destruct (o <? OP_PUSHDATA1) eqn:E2.
    + destruct (Z.of_nat (length r) <? o) eqn:E3; [discriminate|]. inversion H; subst op prog rest. clear H.
      apply Z.ltb_ge in E3. rewrite firstn_length in Hl, Hp.
      assert (Ho: 0 <= o) by lia.
      assert (Hlen: length r = Z.to_nat o) by lia.
      rewrite firstn_all2 by lia. rewrite skipn_all2 by lia.
      split; [|reflexivity]. f_equal. lia.
    + exfalso. set (rd := fun lenbytes : nat => if (length r <? lenbytes)%nat then None else Some (le_value (firstn lenbytes r), skipn lenbytes r)) in H.
      assert (G: forall k, (1 <= k)%nat -> match rd k with None => (None, r)
                 | Some (nSize, r2) => if Z.of_nat (length r2) <? nSize then (None, r2) else (Some (o, firstn (Z.to_nat nSize) r2), skipn (Z.to_nat nSize) r2) end
                 = (Some (op, prog), rest) -> False).
      { intros k Hk G. unfold rd in G. destruct (length r <? k)%nat eqn:E4; [discriminate|]. apply Nat.ltb_ge in E4.
        destruct (Z.of_nat (length (skipn k r)) <? le_value (firstn k r)); [discriminate|]. inversion G; subst prog.
        rewrite firstn_length, skipn_length in Hl. lia. }
      destruct (o =? OP_PUSHDATA1); [apply (G 1%nat); [lia|exact H]|].
      destruct (o =? OP_PUSHDATA2); [apply (G 2%nat); [lia|exact H]|apply (G 4%nat); [lia|exact H]].
  - inversion H; subst. cbn in Hp. lia.
Qed.

(* ------------------------------------------------------------------ configuration *)
Section ConfigureProofs.
Variable sha256 : bytes -> bytes.
Variable ripemd160 : bytes -> bytes.
Notation configure := (configure sha256 ripemd160).
Notation hash160 := (hash160_ sha256 ripemd160).

Definition the_input (spend : tx) (i : Z) : txin := nth (Z.to_nat i) (tx_vin spend) default_in.

(* amount and locking script come from the referenced output of the funding transaction *)
Theorem configure_prevout : forall spend funding i n s,
  configure spend funding i n = CfgOk s ->
  exists prev, nth_error (tx_vout funding) (Z.to_nat n) = Some prev /\ ss_amount s = to_value prev.
Proof.
  intros spend funding i n s H. unfold Configure.configure in H.
  destruct (nth_error (tx_vout funding) (Z.to_nat n)) as [prev|]; [|discriminate].
  exists prev. split; [reflexivity|].
  destruct (ti_witness _); [inversion H; reflexivity|].
  destruct (find_validation _ _ _ _) as [v| |]; try discriminate.
  destruct (split_program v) as [[verop program]| |]; try discriminate.
  destruct (verop =? OP_0).
  - unfold configure_v0 in H.
    repeat match type of H with context [if ?c then _ else _] => destruct c; try discriminate end; inversion H; reflexivity.
  - unfold configure_v1 in H.
    repeat match type of H with
           | context [if ?c then _ else _] => destruct c; try discriminate
           | context [match ?x with _ => _ end] => destruct x; try discriminate
           end; inversion H; reflexivity.
Qed.

(* legacy inputs: scriptSig first, then the referenced scriptPubKey, empty stack *)
Theorem configure_legacy : forall spend funding i n s,
  ti_witness (the_input spend i) = [] -> configure spend funding i n = CfgOk s ->
  exists prev, nth_error (tx_vout funding) (Z.to_nat n) = Some prev /\
    ss_script s = ti_scriptSig (the_input spend i) /\ ss_successor s = to_spk prev /\ ss_stack s = [] /\
    ss_sigver s = SV_BASE /\ ss_tce s = None /\ ss_preamble s = false.
Proof.
  intros spend funding i n s Hw H. unfold Configure.configure in H. fold (the_input spend i) in H.
  destruct (nth_error (tx_vout funding) (Z.to_nat n)) as [prev|]; [|discriminate].
  rewrite Hw in H. inversion H; subst s. exists prev. cbn. repeat split.
Qed.

(* ---- where the witness program comes from *)
Definition committed (scriptSig spk validation : bytes) : Prop :=
  (scriptSig = [] /\ validation = spk) \/
  (scriptSig <> [] /\ validation <> [] /\ scriptSig = push_data validation /\ is_p2sh_script spk = true /\
   exists op r1 x r2 o2 h r3, get_op scriptSig = (Some (op, validation), r1) /\ get_op spk = (Some (OP_HASH160, x), r2) /\
                              get_op r2 = (Some (o2, h), r3) /\ zlen h = 20 /\ hash160 validation = h).

Lemma bytes_eqb_true a b : bytes_eqb a b = true -> a = b.
Proof. unfold bytes_eqb. destruct (list_eq_dec Z.eq_dec a b); [auto|discriminate]. Qed.

Lemma find_validation_spec : forall sig spk v, find_validation sha256 ripemd160 sig spk = CfgOk v -> committed sig spk v.
Proof.
  intros sig spk v H. unfold find_validation in H. destruct sig as [|s0 sr]; [left; inversion H; auto|].
  right. split; [discriminate|].
  destruct (get_op (s0 :: sr)) as [[[op pv]|] r1] eqn:E1; [|discriminate].
  destruct pv as [|p0 pr]; [discriminate|].
  destruct (bytes_eqb (s0 :: sr) _) eqn:Eex; [|discriminate]. cbn [negb] in H. apply bytes_eqb_true in Eex.
  destruct (is_p2sh_script spk) eqn:Ep2sh; [|discriminate]. cbn [negb] in H.
  destruct (get_op spk) as [[[opc x]|] r2] eqn:E2; [|discriminate].
  destruct (opc =? OP_HASH160) eqn:E3; [|discriminate]. cbn [negb] in H.
  destruct (get_op r2) as [[[o2 h]|] r3] eqn:E4; [|discriminate].
  destruct (zlen h =? 20) eqn:E5; [|discriminate]. cbn [negb] in H.
  destruct (bytes_eqb _ h) eqn:E6; [|discriminate]. inversion H; subst v.
  split; [discriminate|]. split; [exact Eex|]. split; [reflexivity|]. apply Z.eqb_eq in E3. subst opc. apply Z.eqb_eq in E5. apply bytes_eqb_true in E6.
  exists op, r1, x, r2, o2, h, r3. repeat split; assumption.
Qed.

Lemma split_program_spec : forall v verop program, split_program v = CfgOk (verop, program) ->
  (verop = OP_0 \/ verop = OP_1) /\ v = verop :: zlen program :: program /\
  ((zlen v =? 34) = false /\ zlen program = 20 \/ (zlen v =? 34) = true /\ zlen program = 32).
Proof.
  intros v verop program H. unfold split_program in H.
  destruct ((zlen v =? 22) || (zlen v =? 34)) eqn:E0; [|discriminate]. cbn [negb] in H.
  destruct (get_op v) as [[[vo d]|] rest] eqn:E1; [|discriminate].
  destruct ((vo =? OP_0) || (vo =? OP_1)) eqn:E2; [|discriminate]. cbn [negb] in H.
  destruct (get_op rest) as [[[o2 pr]|] r3] eqn:E3; [|discriminate].
  destruct (zlen pr =? (if zlen v =? 34 then 32 else 20)) eqn:E4; [|discriminate]. cbn [negb] in H. inversion H; subst vo pr. clear H.
  apply Bool.orb_true_iff in E2. assert (Hv: verop = OP_0 \/ verop = OP_1) by (destruct E2 as [E|E]; apply Z.eqb_eq in E; auto).
  pose proof (get_op_verop _ _ _ _ E1 Hv) as Hs. apply Z.eqb_eq in E4.
  assert (Hl: zlen rest = zlen program + 1 /\ 0 < zlen program < OP_PUSHDATA1).
  { subst v. unfold zlen in *. cbn [length] in *. apply Bool.orb_true_iff in E0.
    destruct (Z.of_nat (S (length rest)) =? 34) eqn:E5.
    - apply Z.eqb_eq in E5. pose proof (eq_refl : OP_PUSHDATA1 = 76). lia.
    - destruct E0 as [E|E]; [|congruence]. apply Z.eqb_eq in E. pose proof (eq_refl : OP_PUSHDATA1 = 76). lia. }
  destruct Hl as [Hl1 Hl2]. destruct (get_op_exact_push _ _ _ _ E3 Hl1 Hl2) as [Hr _].
  split; [exact Hv|]. split; [rewrite Hs, Hr; reflexivity|].
  destruct (zlen v =? 34); [right|left]; auto.
Qed.

(* the accepted script is a witness program in the consensus sense, of version 0 or 1 *)
Lemma split_program_witness_program : forall v verop program, split_program v = CfgOk (verop, program) ->
  witness_program v = Some (if verop =? OP_0 then 0 else 1, program).
Proof.
  intros v verop program H. destruct (split_program_spec _ _ _ H) as (Hv & Hs & Hl).
  subst v. unfold witness_program. unfold zlen in *. cbn [length] in *.
  replace (Z.of_nat (S (S (length program)))) with (Z.of_nat (length program) + 2) by lia.
  destruct Hv as [-> | ->]; destruct Hl as [[_ Hl]|[_ Hl]]; rewrite Hl; vm_compute; reflexivity.
Qed.

Definition p2pkh_script (h : bytes) : bytes := [OP_DUP; OP_HASH160] ++ push_data h ++ [OP_EQUALVERIFY; OP_CHECKSIG].

Lemma configure_v0_spec : forall wsh program w amount s, configure_v0 sha256 ripemd160 wsh program w amount = CfgOk s ->
  ss_sigver s = SV_WITNESS_V0 /\ ss_successor s = [] /\ ss_tce s = None /\ ss_amount s = amount /\ ss_ed s = init_execdata /\
  if wsh then sha256 (last w []) = program /\ ss_script s = last w [] /\ ss_stack s = rev (removelast w) /\ ss_preamble s = false
  else hash160 (last w []) = program /\ ss_script s = p2pkh_script program /\ ss_stack s = rev w /\ ss_preamble s = true.
Proof.
  intros wsh program w amount s H. unfold configure_v0 in H.
  destruct (bytes_eqb _ program) eqn:E; [|discriminate]. cbn [negb] in H. apply bytes_eqb_true in E.
  destruct wsh.
  - destruct (has_valid_ops _); [|discriminate]. cbn [negb] in H. inversion H; subst s. cbn. repeat split; assumption.
  - inversion H; subst s. cbn. repeat split; assumption.
Qed.

(* the witness of a taproot input: items, then (script path) the script and the control block, then the optional annex *)
Definition strip_annex (w : list bytes) : list bytes * option bytes :=
  if has_annex w then (removelast w, Some (last w [])) else (w, None).

Lemma configure_v1_spec : forall program w amount s, configure_v1 sha256 program w amount = CfgOk s ->
  let '(stack, annex) := strip_annex w in
  zlen program = 32 /\ ss_successor s = [] /\ ss_amount s = amount /\
  ed_annex_init (ss_ed s) = true /\ ed_annex_present (ss_ed s) = (match annex with Some _ => true | None => false end) /\
  (forall a, annex = Some a -> ed_annex_hash (ss_ed s) = annex_hash sha256 a) /\
  ((exists sig, stack = [sig] /\ ss_sigver s = SV_TAPROOT /\ ss_script s = push_data program ++ [OP_CHECKSIG] /\ ss_stack s = [sig] /\
                ss_preamble s = true /\ ss_tce s = None) \/
   (exists items script control, stack = items ++ [script; control] /\ ss_sigver s = SV_TAPSCRIPT /\ ss_script s = script /\
                ss_stack s = rev items /\ ss_preamble s = false /\ ss_tce s = Some (tce_new sha256 control program script) /\
                TAPROOT_CONTROL_BASE_SIZE <= zlen control <= TAPROOT_CONTROL_MAX_SIZE /\
                (zlen control - TAPROOT_CONTROL_BASE_SIZE) mod TAPROOT_CONTROL_NODE_SIZE = 0 /\
                Z.land (hd 0 control) TAPROOT_LEAF_MASK = TAPROOT_LEAF_TAPSCRIPT /\
                ed_tapleaf_init (ss_ed s) = true /\ ed_tapleaf (ss_ed s) = t_leaf (tce_new sha256 control program script) /\
                ed_weight_init (ss_ed s) = true /\ ed_weight_left (ss_ed s) = witness_size w + VALIDATION_WEIGHT_OFFSET)).
Proof.
  intros program w amount s H. unfold configure_v1 in H. unfold strip_annex.
  (* the generated comparisons of the control block size test are "< base" and "> max" *)
  assert (Hmin: forall n, cmp_eval site_control_min n TAPROOT_CONTROL_BASE_SIZE = (n <? TAPROOT_CONTROL_BASE_SIZE)) by reflexivity.
  assert (Hmax: forall n, cmp_eval site_control_max n TAPROOT_CONTROL_MAX_SIZE = (TAPROOT_CONTROL_MAX_SIZE <? n)) by reflexivity.
  rewrite ?Hmin, ?Hmax in H.
  destruct (zlen program =? WITNESS_V1_TAPROOT_SIZE) eqn:E0; [|discriminate]. cbn [negb] in H. apply Z.eqb_eq in E0.
  set (stack := if has_annex w then removelast w else w) in *.
  assert (Hst: (if has_annex w then (removelast w, Some (last w [])) else (w, None)) = (stack, if has_annex w then Some (last w []) else None))
    by (unfold stack; destruct (has_annex w); reflexivity).
  rewrite Hst. clear Hst.
  assert (Hann: forall a, (if has_annex w then Some (last w []) else None) = Some a -> (if has_annex w then annex_hash sha256 (last w []) else []) = annex_hash sha256 a).
  { intros a Ha. destruct (has_annex w); [inversion Ha; reflexivity|discriminate]. }
  assert (Hpres: has_annex w = match (if has_annex w then Some (last w []) else None) with Some _ => true | None => false end)
    by (destruct (has_annex w); reflexivity).
  destruct stack as [|s0 [|s1 sr]] eqn:Es.
  - (* empty stack: script path attempted on nothing; control = [] is too short *)
    cbn in H. discriminate.
  - inversion H; subst s. cbn. repeat split; try assumption; try reflexivity.
    left. exists s0. repeat split.
  - match type of H with context [if ?c then CfgRefused else _] => destruct c eqn:E1; [discriminate|] end.
    match type of H with context [if ?c then CfgRefused else _] => destruct c eqn:E2; [discriminate|] end.
    match type of H with context [if ?c then CfgRefused else _] => destruct c eqn:E3; [discriminate|] end.
    inversion H; subst s. cbn [ss_successor ss_amount ss_ed ss_sigver ss_script ss_stack ss_preamble ss_tce
      ed_annex_init ed_annex_present ed_annex_hash ed_tapleaf_init ed_tapleaf ed_weight_init ed_weight_left].
    repeat split; try assumption; try reflexivity.
    right.
    set (st := s0 :: s1 :: sr) in *.
    assert (Hne: st <> []) by discriminate.
    assert (Hne1: removelast st <> []) by (unfold st; cbn; destruct sr; discriminate).
    exists (removelast (removelast st)), (last (removelast st) []), (last st []).
    apply Bool.orb_false_iff in E1. destruct E1 as [E1 E1c]. apply Bool.orb_false_iff in E1. destruct E1 as [E1a E1b].
    apply Z.ltb_ge in E1a. apply Z.ltb_ge in E1b. apply Bool.negb_false_iff in E1c. apply Z.eqb_eq in E1c.
    apply Bool.negb_false_iff in E2. apply Z.eqb_eq in E2.
    repeat split; try assumption; try reflexivity.
    transitivity (removelast st ++ [last st []]); [apply (app_removelast_last [] Hne)|].
    rewrite (app_removelast_last [] Hne1) at 1. rewrite <- app_assoc. reflexivity.
Qed.

(* ---- the whole configuration of a segwit / taproot input *)
Theorem configure_witness : forall spend funding i n s,
  ti_witness (the_input spend i) <> [] -> configure spend funding i n = CfgOk s ->
  exists prev validation ver program,
    nth_error (tx_vout funding) (Z.to_nat n) = Some prev /\
    committed (ti_scriptSig (the_input spend i)) (to_spk prev) validation /\
    witness_program validation = Some (ver, program) /\
    ((ver = 0 /\ exists wsh : bool, zlen program = (if wsh then 32 else 20) /\
                 configure_v0 sha256 ripemd160 wsh program (ti_witness (the_input spend i)) (to_value prev) = CfgOk s) \/
     (ver = 1 /\ configure_v1 sha256 program (ti_witness (the_input spend i)) (to_value prev) = CfgOk s)).
Proof.
  intros spend funding i n s Hw H. unfold Configure.configure in H. fold (the_input spend i) in H.
  destruct (nth_error (tx_vout funding) (Z.to_nat n)) as [prev|]; [|discriminate].
  destruct (ti_witness (the_input spend i)) as [|w0 wr] eqn:Ew; [contradiction|].
  destruct (find_validation _ _ _ _) as [v| |] eqn:Ev; try discriminate.
  destruct (split_program v) as [[verop program]| |] eqn:Es; try discriminate.
  exists prev, v, (if verop =? OP_0 then 0 else 1), program.
  split; [reflexivity|]. split; [apply find_validation_spec; exact Ev|]. split; [apply split_program_witness_program; exact Es|].
  destruct (split_program_spec _ _ _ Es) as (Hv & _ & Hl).
  destruct (verop =? OP_0) eqn:E0.
  - left. split; [reflexivity|]. exists (zlen v =? 34). split; [|exact H].
    destruct Hl as [[-> Hl]|[-> Hl]]; exact Hl.
  - right. split; [reflexivity|exact H].
Qed.

End ConfigureProofs.
