(* Reference definitions the interpreter properties are stated against, written directly from the
   consensus rules (no reference to the C++ shape; constants are literal). *)
From BV Require Import Base.
Local Open Scope Z_scope.

(* a stack item is "true" iff some byte is non-zero, except that a final 0x80 alone (negative zero) does not count *)
Definition spec_truthy (v : bytes) : Prop :=
  exists i, (i < length v)%nat /\ nth i v 0 <> 0 /\ ~ (i = (length v - 1)%nat /\ nth i v 0 = 128).

(* the conditional-nesting state as Bitcoin defines it: one boolean per open IF, oldest first *)
Definition spec_cond := list bool.
Definition spec_cond_all_true (l : spec_cond) : bool := forallb (fun b => b) l.

(* BIP62 rule 3/4 minimal push: the shortest push form for the data *)
Definition spec_minimal_push (data : bytes) (opcode : Z) : Prop :=
  let n := Z.of_nat (length data) in
  (n = 0 -> opcode = 0) /\
  (n = 1 -> 1 <= hd 0 data <= 16 -> False) /\
  (n = 1 -> hd 0 data = 129 -> False) /\
  (1 <= n <= 75 -> opcode = n) /\
  (76 <= n <= 255 -> opcode = 76) /\
  (256 <= n <= 65535 -> opcode = 77).

(* limits (BIP / consensus constants) *)
Definition SPEC_MAX_PUSH := 520.
Definition SPEC_MAX_OPS := 201.
Definition SPEC_MAX_STACK := 1000.
Definition SPEC_MAX_SCRIPT := 10000.
Definition SPEC_MAX_PUBKEYS := 20.
