(* Proofs about the signature-hash models and the signature opcodes (C02). *)
From Coq Require Import ZifyBool.
From BV Require Import Base BaseProofs ScriptNum Script Interp Session Tx Sighash.
From BV.Gen Require Import Consts Sites.
Local Open Scope Z_scope.

(* ------------------------------------------------------------------ GetOp consumes a non-empty prefix *)
Lemma skipn_skipn_add {A} (a b : nat) (l : list A) : skipn a (skipn b l) = skipn (b + a) l.
Proof. revert l; induction b as [|b IH]; intros l; [reflexivity|]. destruct l; [rewrite !skipn_nil; reflexivity|]. cbn. apply IH. Qed.

Lemma get_op_suffix : forall pc op d pc', get_op pc = (Some (op, d), pc') ->
  exists m, (0 < m <= length pc)%nat /\ pc' = skipn m pc /\ hd 0 pc = op.
Proof.
  intros pc op d pc' H. destruct pc as [|o r]; [discriminate|]. unfold get_op in H.
  destruct (o <=? OP_PUSHDATA4) eqn:E1.
  - set (rd := fun lenbytes : nat => if (length r <? lenbytes)%nat then None else Some (le_value (firstn lenbytes r), skipn lenbytes r)) in H.
    assert (G: forall hdr, (hdr = Some (o, r) \/ exists k, hdr = rd k) ->
               match hdr with None => (None, r)
               | Some (nSize, r2) => if Z.of_nat (length r2) <? nSize then (None, r2) else (Some (o, firstn (Z.to_nat nSize) r2), skipn (Z.to_nat nSize) r2) end
               = (Some (op, d), pc') -> exists m, (0 < m <= length (o :: r))%nat /\ pc' = skipn m (o :: r) /\ o = op).
    { intros hdr Hh G. destruct hdr as [[nSize r2]|]; [|discriminate].
      destruct (Z.of_nat (length r2) <? nSize) eqn:E3; [discriminate|]. apply Z.ltb_ge in E3. inversion G; subst op d pc'. clear G.
      destruct Hh as [Hh|[k Hh]].
      - inversion Hh; subst nSize r2. exists (S (Z.to_nat o)). cbn [length skipn]. repeat split; lia.
      - unfold rd in Hh. destruct (length r <? k)%nat eqn:E4; [discriminate|]. apply Nat.ltb_ge in E4. inversion Hh; subst nSize r2.
        rewrite skipn_length in E3. exists (S (k + Z.to_nat (le_value (firstn k r)))). cbn [length skipn]. rewrite skipn_skipn_add.
        repeat split; try lia. }
    destruct (o <? OP_PUSHDATA1).
    + destruct (G (Some (o, r)) (or_introl eq_refl) H) as (m & Hm & Hp & Ho). exists m. repeat split; try apply Hm; assumption.
    + assert (Hr: exists k, (if o =? OP_PUSHDATA1 then rd 1%nat else if o =? OP_PUSHDATA2 then rd 2%nat else rd 4%nat) = rd k)
        by (destruct (o =? OP_PUSHDATA1); [eexists; reflexivity|destruct (o =? OP_PUSHDATA2); eexists; reflexivity]).
      destruct (G _ (or_intror Hr) H) as (m & Hm & Hp & Ho). exists m. repeat split; try apply Hm; assumption.
  - inversion H; subst. exists 1%nat. cbn. repeat split; lia.
Qed.

Lemma get_op_split : forall pc op d pc', get_op pc = (Some (op, d), pc') ->
  pc = firstn (length pc - length pc') pc ++ pc' /\ (length pc' < length pc)%nat.
Proof.
  intros pc op d pc' H. destruct (get_op_suffix _ _ _ _ H) as (m & Hm & Hp & _). subst pc'.
  rewrite skipn_length. replace (length pc - (length pc - m))%nat with m by lia. split; [symmetry; apply firstn_skipn|lia].
Qed.

Lemma get_op_codesep_single : forall pc d pc', get_op pc = (Some (OP_CODESEPARATOR, d), pc') -> pc = OP_CODESEPARATOR :: pc'.
Proof.
  intros pc d pc' H. destruct (get_op_suffix _ _ _ _ H) as (m & Hm & Hp & Ho). destruct pc as [|o r]; [discriminate|]. cbn in Ho. subst o.
  unfold get_op in H. replace (OP_CODESEPARATOR <=? OP_PUSHDATA4) with false in H by reflexivity. inversion H; reflexivity.
Qed.

(* ------------------------------------------------------------------ legacy script code: every OP_CODESEPARATOR removed *)
(* reference: the bytes of every operation that is not OP_CODESEPARATOR, in order *)
Fixpoint strip_codeseps (fuel : nat) (pc : bytes) : bytes :=
  match fuel with
  | O => []
  | S f => match pc with
           | [] => []
           | _ => match get_op pc with
                  | (Some (opcode, _), pc') =>
                      (if opcode =? OP_CODESEPARATOR then [] else firstn (length pc - length pc') pc) ++ strip_codeseps f pc'
                  | (None, _) => []
                  end
           end
  end.
(* the script decodes completely (every push has its data) *)
Fixpoint parses (fuel : nat) (pc : bytes) : bool :=
  match fuel with
  | O => true
  | S f => match pc with
           | [] => true
           | _ => match get_op pc with (Some _, pc') => parses f pc' | (None, _) => false end
           end
  end.

Lemma write_segments_strip : forall fuel pre pc, (length pc < fuel)%nat -> parses fuel pc = true ->
  write_segments fuel (pre ++ pc) pc = pre ++ strip_codeseps fuel pc.
Proof.
  induction fuel as [|f IH]; intros pre pc Hf Hp; [lia|].
  cbn [write_segments strip_codeseps parses] in *.
  destruct pc as [|o r].
  - cbn [get_op]. rewrite !app_nil_r. destruct pre as [|z p']; [reflexivity|]. rewrite Nat.sub_0_r. apply (firstn_all (z :: p')).
  - destruct (get_op (o :: r)) as [[[opcode d]|] pc'] eqn:Eg; [|discriminate].
    destruct (get_op_split _ _ _ _ Eg) as [Hsplit Hlen].
    destruct (opcode =? OP_CODESEPARATOR) eqn:Ec.
    + apply Z.eqb_eq in Ec. subst opcode. pose proof (get_op_codesep_single _ _ _ Eg) as Hcs. rewrite Hcs.
      rewrite app_length. cbn [length].
      replace (length pre + S (length pc') - length pc' - 1)%nat with (length pre) by lia.
      rewrite firstn_app. rewrite Nat.sub_diag. cbn [firstn]. rewrite firstn_all. rewrite app_nil_r.
      f_equal. change pc' with ([] ++ pc') at 1. rewrite IH; [reflexivity| |exact Hp]. rewrite Hcs in Hf. cbn [length] in Hf. lia.
    + set (raw := firstn (length (o :: r) - length pc') (o :: r)) in *.
      rewrite Hsplit at 1. rewrite app_assoc. rewrite IH; [rewrite <- app_assoc; reflexivity| |exact Hp]. lia.
Qed.

Lemma count_strip_length : forall fuel pc, (length pc < fuel)%nat -> parses fuel pc = true ->
  zlen (strip_codeseps fuel pc) = zlen pc - count_codeseps fuel pc.
Proof.
  induction fuel as [|f IH]; intros pc Hf Hp; [lia|].
  cbn [strip_codeseps count_codeseps parses] in *. destruct pc as [|o r]; [reflexivity|].
  destruct (get_op (o :: r)) as [[[opcode d]|] pc'] eqn:Eg; [|discriminate].
  destruct (get_op_split _ _ _ _ Eg) as [Hsplit Hlen].
  unfold zlen in *. rewrite app_length. rewrite Nat2Z.inj_add. rewrite IH; [|lia|exact Hp].
  destruct (opcode =? OP_CODESEPARATOR) eqn:Ec.
  - apply Z.eqb_eq in Ec. subst opcode. rewrite (get_op_codesep_single _ _ _ Eg). cbn [length]. lia.
  - rewrite firstn_length. lia.
Qed.

(* SerializeScriptCode writes the length-prefixed script with all code separators removed *)
Theorem ser_script_code_spec : forall code, parses (S (length code)) code = true ->
  ser_script_code code = wr_bytes_vec (strip_codeseps (S (length code)) code).
Proof.
  intros code Hp. unfold ser_script_code, wr_bytes_vec.
  rewrite (count_strip_length (S (length code)) code) by (try lia; exact Hp).
  f_equal. change code with ([] ++ code) at 2. rewrite write_segments_strip by (try lia; exact Hp). reflexivity.
Qed.

Lemma strip_no_codesep_id : forall fuel pc, (length pc < fuel)%nat -> parses fuel pc = true -> count_codeseps fuel pc = 0 ->
  strip_codeseps fuel pc = pc.
Proof.
  induction fuel as [|f IH]; intros pc Hf Hp Hc; [lia|].
  cbn [strip_codeseps count_codeseps parses] in *. destruct pc as [|o r]; [reflexivity|].
  destruct (get_op (o :: r)) as [[[opcode d]|] pc'] eqn:Eg; [|discriminate].
  destruct (get_op_split _ _ _ _ Eg) as [Hsplit Hlen].
  assert (Hnn: forall g p, 0 <= count_codeseps g p).
  { induction g as [|g IHg]; intros p; cbn [count_codeseps]; [lia|]. destruct (get_op p) as [[[oo dd]|] pp]; [|lia].
    specialize (IHg pp). destruct (oo =? OP_CODESEPARATOR); lia. }
  pose proof (Hnn f pc').
  destruct (opcode =? OP_CODESEPARATOR); [lia|]. rewrite IH; [symmetry; exact Hsplit|lia|exact Hp|lia].
Qed.

Lemma cons_inv_tail {A} (a : A) l1 l2 : a :: l1 = a :: l2 -> l1 = l2.
Proof. intros H; inversion H; reflexivity. Qed.
Ltac strip_heads E := repeat (first [apply app_inv_head in E | apply cons_inv_tail in E]).

Section SigProofs.
Variable sha256 : bytes -> bytes.

(* ------------------------------------------------------------------ legacy / BIP143 digests *)
Lemma single_without_output : forall t code nIn ht amount cache sigver,
  (sigver =? SV_WITNESS_V0) = false -> hash_single ht = true -> Z.of_nat (length (tx_vout t)) <= nIn ->
  signature_hash sha256 t code nIn ht amount sigver cache = UINT256_ONE.
Proof.
  intros t code nIn ht amount cache sigver Hs Hh Hn. unfold signature_hash. rewrite Hs, Hh.
  replace (Z.of_nat (length (tx_vout t)) <=? nIn) with true by lia. reflexivity.
Qed.

(* the precomputed BIP143 midstates are the hashes the specification defines: using the cache never changes a digest *)
Lemma bip143_cache_transparent : forall t spent force code nIn ht amount,
  bip143_preimage sha256 t code nIn ht amount (txdata_init sha256 t spent force) = bip143_preimage sha256 t code nIn ht amount empty_txdata.
Proof.
  intros. unfold bip143_preimage, txdata_init.
  destruct (scan_inputs (tx_vin t) spent (match spent with [] => false | _ => true end) force force) as [u143 u341].
  cbn [d_bip143_ready d_hashPrevouts d_hashSequence d_hashOutputs empty_txdata].
  destruct u143; [|reflexivity]. cbn [orb]. reflexivity.
Qed.

(* ------------------------------------------------------------------ BIP341 message *)
Definition valid_schnorr_hashtype (ht : Z) : bool := (ht <=? 3) || ((129 <=? ht) && (ht <=? 131)).

Lemma schnorr_undefined_hashtype_fails : forall ed t pos ht sv cache h,
  0 <= ht -> valid_schnorr_hashtype ht = false -> signature_hash_schnorr sha256 ed t pos ht sv cache <> SrHash h.
Proof.
  intros ed t pos ht sv cache h H0 Hv. unfold signature_hash_schnorr. unfold valid_schnorr_hashtype in Hv.
  repeat match goal with |- context [if ?c then _ else _] => destruct c eqn:?; try discriminate end.
  match goal with Hq : negb _ = false |- _ => rewrite Hv in Hq; discriminate end.
Qed.

(* the digest commits to the annex: presence flag (bit 0 of spend_type) *)
Lemma bip341_commits_to_annex_presence : forall ed1 ed2 t pos ht sv cache m,
  bip341_msg sha256 ed1 t pos ht sv cache = Some m -> bip341_msg sha256 ed2 t pos ht sv cache = Some m ->
  ed_annex_present ed1 = ed_annex_present ed2.
Proof.
  intros ed1 ed2 t pos ht sv cache m H1 H2. unfold bip341_msg in H1, H2.
  destruct (if (if ht =? SIGHASH_DEFAULT then SIGHASH_ALL else Z.land ht SIGHASH_OUTPUT_MASK) =? SIGHASH_SINGLE
            then if Z.of_nat (length (tx_vout t)) <=? pos then None else Some (sha256 (ser_txout (nth (Z.to_nat pos) (tx_vout t) {| to_value := 0; to_spk := [] |})))
            else Some []) as [so|]; [|discriminate].
  rewrite <- H2 in H1. clear H2. injection H1 as E1.
  strip_heads E1.
  cbn [app] in E1. inversion E1 as [Hst].
  destruct (ed_annex_present ed1), (ed_annex_present ed2); try reflexivity; lia.
Qed.

Lemma wr_u32_inj : forall a b, wr_u32 a = wr_u32 b -> a mod two32 = b mod two32.
Proof.
  intros a b H. unfold wr_u32 in H.
  assert (G: forall n x y, 0 <= x < 256 ^ Z.of_nat n -> 0 <= y < 256 ^ Z.of_nat n -> le_fixed n x = le_fixed n y -> x = y).
  { induction n as [|n IH]; intros x y Hx Hy He.
    - cbn in Hx, Hy. lia.
    - cbn [le_fixed] in He. inversion He as [[Hm Hr]].
      rewrite Nat2Z.inj_succ, Z.pow_succ_r in Hx, Hy by lia.
      assert (x / 256 = y / 256) by (apply IH; [| |exact Hr]; split; try (apply Z.div_pos; lia); apply Z.div_lt_upper_bound; lia).
      rewrite (Z.div_mod x 256), (Z.div_mod y 256) by lia. lia. }
  apply (G 4%nat); [| |exact H]; change (256 ^ Z.of_nat 4) with two32; apply Z.mod_pos_bound; reflexivity.
Qed.

(* tapscript: the digest commits to the position of the last executed OP_CODESEPARATOR *)
Lemma bip341_commits_to_codesep_pos : forall ed t pos ht cache p1 p2 m,
  bip341_msg sha256 (ed_set_codesep ed p1) t pos ht SV_TAPSCRIPT cache = Some m ->
  bip341_msg sha256 (ed_set_codesep ed p2) t pos ht SV_TAPSCRIPT cache = Some m ->
  p1 mod two32 = p2 mod two32.
Proof.
  intros ed t pos ht cache p1 p2 m H1 H2. unfold bip341_msg in H1, H2.
  cbn [ed_set_codesep ed_annex_present ed_annex_hash ed_tapleaf ed_codesep_pos] in H1, H2.
  destruct (if (if ht =? SIGHASH_DEFAULT then SIGHASH_ALL else Z.land ht SIGHASH_OUTPUT_MASK) =? SIGHASH_SINGLE
            then if Z.of_nat (length (tx_vout t)) <=? pos then None else Some (sha256 (ser_txout (nth (Z.to_nat pos) (tx_vout t) {| to_value := 0; to_spk := [] |})))
            else Some []) as [so|]; [|discriminate].
  rewrite <- H2 in H1. clear H2. injection H1 as E1.
  strip_heads E1.
  replace (SV_TAPSCRIPT =? SV_TAPSCRIPT) with true in E1 by reflexivity.
  strip_heads E1. apply wr_u32_inj. exact E1.
Qed.

(* key path vs script path are domain separated (ext_flag), so a signature for one never verifies as the other *)
Lemma bip341_commits_to_ext_flag : forall ed t pos ht cache m1 m2,
  bip341_msg sha256 ed t pos ht SV_TAPROOT cache = Some m1 -> bip341_msg sha256 ed t pos ht SV_TAPSCRIPT cache = Some m2 -> m1 <> m2.
Proof.
  intros ed t pos ht cache m1 m2 H1 H2 E. subst m2. unfold bip341_msg in H1, H2.
  destruct (if (if ht =? SIGHASH_DEFAULT then SIGHASH_ALL else Z.land ht SIGHASH_OUTPUT_MASK) =? SIGHASH_SINGLE
            then if Z.of_nat (length (tx_vout t)) <=? pos then None else Some (sha256 (ser_txout (nth (Z.to_nat pos) (tx_vout t) {| to_value := 0; to_spk := [] |})))
            else Some []) as [so|]; [|discriminate].
  rewrite <- H2 in H1. clear H2. injection H1 as E1.
  strip_heads E1.
  replace (SV_TAPROOT =? SV_TAPSCRIPT) with false in E1 by reflexivity. replace (SV_TAPSCRIPT =? SV_TAPSCRIPT) with true in E1 by reflexivity.
  cbn [app] in E1. inversion E1 as [Hst]. destruct (ed_annex_present ed); lia.
Qed.

(* ------------------------------------------------------------------ the transaction checker *)
Variable ecdsa_verify : bytes -> bytes -> bytes -> bool.
Variable schnorr_verify : bytes -> bytes -> bytes -> bool.
Notation chk_ecdsa := (chk_ecdsa sha256 ecdsa_verify).
Notation chk_schnorr := (chk_schnorr sha256 schnorr_verify).

(* ECDSA: accepted exactly when the key is well-formed, the signature is non-empty and its body verifies for the digest selected by its last byte *)
Lemma chk_ecdsa_exact : forall x sig key code sigver,
  chk_ecdsa x sig key code sigver = true <->
  pubkey_is_valid key = true /\ sig <> [] /\ ((sigver =? SV_WITNESS_V0) && (x_amount x <? 0) = false) /\
  ecdsa_verify key (signature_hash sha256 (x_tx x) code (x_nin x) (vlast sig) (x_amount x) sigver (x_cache x)) (removelast sig) = true.
Proof.
  intros x sig key code sigver. unfold Sighash.chk_ecdsa.
  destruct (pubkey_is_valid key); cbn [negb]; [|split; [discriminate|intros (H & _); discriminate]].
  destruct sig as [|s0 sr]; [split; [discriminate|intros (_ & H & _); contradiction]|].
  destruct ((sigver =? SV_WITNESS_V0) && (x_amount x <? 0)); [split; [discriminate|intros (_ & _ & H & _); discriminate]|].
  split; [intros H; repeat split; try assumption; discriminate|intros (_ & _ & _ & H); exact H].
Qed.

(* Schnorr: accepted exactly when the size is 64/65, a 65th byte is a non-default hash type, the BIP341 digest exists and the signature verifies *)
Lemma chk_schnorr_exact : forall x sig key sigver ed,
  fst (chk_schnorr x sig key sigver ed) = true <->
  exists ht body h, ((zlen sig = 64 /\ ht = SIGHASH_DEFAULT /\ body = sig) \/ (zlen sig = 65 /\ ht = vlast sig /\ ht <> SIGHASH_DEFAULT /\ body = removelast sig)) /\
     signature_hash_schnorr sha256 ed (x_tx x) (x_nin x) ht sigver (x_cache x) = SrHash h /\ schnorr_verify key h body = true.
Proof.
  intros x sig key sigver ed. unfold Sighash.chk_schnorr.
  destruct (zlen sig =? 64) eqn:E64; [apply Z.eqb_eq in E64|apply Z.eqb_neq in E64].
  - replace (zlen sig =? 65) with false by lia. cbn [orb negb andb].
    destruct (signature_hash_schnorr sha256 ed (x_tx x) (x_nin x) SIGHASH_DEFAULT sigver (x_cache x)) as [h| | |] eqn:Eh.
    + destruct (schnorr_verify key h sig) eqn:Ev; cbn [fst].
      * split; [intros _; exists SIGHASH_DEFAULT, sig, h; repeat split; try assumption; left; repeat split; assumption|reflexivity].
      * split; [discriminate|]. intros (ht & body & h' & [(_ & -> & ->)|(Hl & _)] & Hh & Hv); [|lia]. rewrite Eh in Hh. inversion Hh; subst. congruence.
    + cbn [fst]. split; [discriminate|]. intros (ht & body & h' & [(_ & -> & ->)|(Hl & _)] & Hh & Hv); [|lia]. rewrite Eh in Hh. discriminate.
    + cbn [fst]. split; [discriminate|]. intros (ht & body & h' & [(_ & -> & ->)|(Hl & _)] & Hh & Hv); [|lia]. rewrite Eh in Hh. discriminate.
    + cbn [fst]. split; [discriminate|]. intros (ht & body & h' & [(_ & -> & ->)|(Hl & _)] & Hh & Hv); [|lia]. rewrite Eh in Hh. discriminate.
  - destruct (zlen sig =? 65) eqn:E65; [apply Z.eqb_eq in E65|apply Z.eqb_neq in E65]; cbn [orb negb andb].
    + destruct (vlast sig =? SIGHASH_DEFAULT) eqn:Ed; [apply Z.eqb_eq in Ed|apply Z.eqb_neq in Ed]; cbn [fst].
      * split; [discriminate|]. intros (ht & body & h' & [(Hl & _)|(_ & -> & Hn & _)] & _); [lia|contradiction].
      * destruct (signature_hash_schnorr sha256 ed (x_tx x) (x_nin x) (vlast sig) sigver (x_cache x)) as [h| | |] eqn:Eh.
        -- destruct (schnorr_verify key h (removelast sig)) eqn:Ev; cbn [fst].
           ++ split; [intros _; exists (vlast sig), (removelast sig), h; repeat split; try assumption; right; repeat split; assumption|reflexivity].
           ++ split; [discriminate|]. intros (ht & body & h' & [(Hl & _)|(_ & -> & _ & ->)] & Hh & Hv); [lia|]. rewrite Eh in Hh. inversion Hh; subst. congruence.
        -- cbn [fst]. split; [discriminate|]. intros (ht & body & h' & [(Hl & _)|(_ & -> & _ & ->)] & Hh & Hv); [lia|]. rewrite Eh in Hh. discriminate.
        -- cbn [fst]. split; [discriminate|]. intros (ht & body & h' & [(Hl & _)|(_ & -> & _ & ->)] & Hh & Hv); [lia|]. rewrite Eh in Hh. discriminate.
        -- cbn [fst]. split; [discriminate|]. intros (ht & body & h' & [(Hl & _)|(_ & -> & _ & ->)] & Hh & Hv); [lia|]. rewrite Eh in Hh. discriminate.
    + cbn [fst]. split; [discriminate|]. intros (ht & body & h' & [(Hl & _)|(Hl & _)] & _); lia.
Qed.
End SigProofs.

(* ------------------------------------------------------------------ the signature opcodes *)
Section OpProofs.
Variable low_s : bytes -> bool.
Notation check_sig_encoding := (check_sig_encoding low_s).
Notation eval_checksig_pre := (eval_checksig_pre low_s).

(* which encoding error a non-empty signature gets, by flags, in this order *)
Lemma sig_encoding_rules : forall flags sig, sig <> [] ->
  check_sig_encoding flags sig =
    if (has_flag flags SCRIPT_VERIFY_DERSIG || has_flag flags SCRIPT_VERIFY_LOW_S || has_flag flags SCRIPT_VERIFY_STRICTENC) && negb (is_valid_sig_encoding sig)
    then Some SCRIPT_ERR_SIG_DER
    else if has_flag flags SCRIPT_VERIFY_LOW_S && negb (low_s (removelast sig)) then Some SCRIPT_ERR_SIG_HIGH_S
    else if has_flag flags SCRIPT_VERIFY_STRICTENC && negb (is_defined_hashtype sig) then Some SCRIPT_ERR_SIG_HASHTYPE
    else None.
Proof.
  intros flags sig Hs. unfold Interp.check_sig_encoding. destruct sig as [|s0 sr]; [contradiction|].
  destruct (is_valid_sig_encoding (s0 :: sr)); cbn [negb]; rewrite ?Bool.andb_false_r, ?Bool.andb_true_r.
  - reflexivity.
  - destruct (has_flag flags SCRIPT_VERIFY_DERSIG), (has_flag flags SCRIPT_VERIFY_LOW_S), (has_flag flags SCRIPT_VERIFY_STRICTENC); reflexivity.
Qed.

Lemma empty_sig_encoding_ok : forall flags, check_sig_encoding flags [] = None.
Proof. reflexivity. Qed.

Lemma pubkey_encoding_rules : forall flags sigver k,
  check_pubkey_encoding flags sigver k =
    if has_flag flags SCRIPT_VERIFY_STRICTENC && negb (is_compressed_or_uncompressed k) then Some SCRIPT_ERR_PUBKEYTYPE
    else if has_flag flags SCRIPT_VERIFY_WITNESS_PUBKEYTYPE && (sigver =? SV_WITNESS_V0) && negb (is_compressed k) then Some SCRIPT_ERR_WITNESS_PUBKEYTYPE
    else None.
Proof. reflexivity. Qed.

(* legacy / segwit-v0 CHECKSIG: a normal result is exactly the checker's verdict on the script code (signature deleted from it for legacy) *)
Lemma checksig_pre_exact : forall c e sig key e' b,
  eval_checksig_pre c e sig key = (e', SOk, b) ->
  exists code0, script_code e = Some code0 /\ e' = e /\
    check_sig_encoding (c_flags c) sig = None /\ check_pubkey_encoding (c_flags c) (c_sigver c) key = None /\
    b = k_ecdsa (c_chk c) sig key (if c_sigver c =? SV_BASE then fst (find_and_delete code0 (push_data sig)) else code0) (c_sigver c) /\
    (b = false -> has_flag (c_flags c) SCRIPT_VERIFY_NULLFAIL = true -> sig = []).
Proof.
  intros c e sig key e' b H. unfold Interp.eval_checksig_pre in H.
  destruct (script_code e) as [code0|]; [|discriminate]. exists code0. split; [reflexivity|].
  destruct (c_sigver c =? SV_BASE) eqn:Eb.
  - destruct (find_and_delete code0 (push_data sig)) as [sc found] eqn:Ef. cbn [fst].
    destruct ((0 <? found) && has_flag (c_flags c) SCRIPT_VERIFY_CONST_SCRIPTCODE); [discriminate|].
    destruct (check_sig_encoding (c_flags c) sig); [discriminate|].
    destruct (check_pubkey_encoding (c_flags c) (c_sigver c) key); [discriminate|].
    destruct (k_ecdsa (c_chk c) sig key sc (c_sigver c)) eqn:Ek; cbn [negb andb] in H.
    + inversion H; subst. repeat split; try reflexivity. discriminate.
    + destruct (has_flag (c_flags c) SCRIPT_VERIFY_NULLFAIL) eqn:En; cbn [andb] in H.
      * destruct (zlen sig =? 0) eqn:Ez; cbn [negb] in H; [|discriminate]. inversion H; subst. repeat split; try reflexivity.
        intros _ _. apply Z.eqb_eq in Ez. destruct sig; [reflexivity|unfold zlen in Ez; cbn in Ez; lia].
      * inversion H; subst. repeat split; try reflexivity. intros _ Hx. discriminate.
  - destruct (check_sig_encoding (c_flags c) sig); [discriminate|].
    destruct (check_pubkey_encoding (c_flags c) (c_sigver c) key); [discriminate|].
    destruct (k_ecdsa (c_chk c) sig key code0 (c_sigver c)) eqn:Ek; cbn [negb andb] in H.
    + inversion H; subst. repeat split; try reflexivity. discriminate.
    + destruct (has_flag (c_flags c) SCRIPT_VERIFY_NULLFAIL) eqn:En; cbn [andb] in H.
      * destruct (zlen sig =? 0) eqn:Ez; cbn [negb] in H; [|discriminate]. inversion H; subst. repeat split; try reflexivity.
        intros _ _. apply Z.eqb_eq in Ez. destruct sig; [reflexivity|unfold zlen in Ez; cbn in Ez; lia].
      * inversion H; subst. repeat split; try reflexivity. intros _ Hx. discriminate.
Qed.

(* NULLFAIL: a failed check of a non-empty signature is an error, not a false result *)
Lemma checksig_pre_nullfail : forall c e sig key code0,
  script_code e = Some code0 -> negb (c_sigver c =? SV_BASE) = true ->
  check_sig_encoding (c_flags c) sig = None -> check_pubkey_encoding (c_flags c) (c_sigver c) key = None ->
  k_ecdsa (c_chk c) sig key code0 (c_sigver c) = false -> has_flag (c_flags c) SCRIPT_VERIFY_NULLFAIL = true -> sig <> [] ->
  eval_checksig_pre c e sig key = (set_err e SCRIPT_ERR_SIG_NULLFAIL, SErr, false).
Proof.
  intros c e sig key code0 Hc Hb He Hp Hk Hn Hs. unfold Interp.eval_checksig_pre. rewrite Hc.
  apply Bool.negb_true_iff in Hb. rewrite Hb, He, Hp, Hk, Hn. cbn [negb andb].
  destruct sig; [contradiction|]. reflexivity.
Qed.

(* tapscript: every non-empty signature is charged 50 units of validation weight, before anything else is looked at *)
Lemma tapscript_weight_charged : forall c e sig key e' st b,
  eval_checksig_tapscript c e sig key = (e', st, b) -> ed_weight_init (e_ed e) = true ->
  b = negb (zlen sig =? 0) /\
  ed_weight_left (e_ed e') = ed_weight_left (e_ed e) - (if b then VALIDATION_WEIGHT_PER_SIGOP_PASSED else 0) /\
  (b = true -> ed_weight_left (e_ed e) < VALIDATION_WEIGHT_PER_SIGOP_PASSED -> st = SErr /\ e_err e' = SCRIPT_ERR_TAPSCRIPT_VALIDATION_WEIGHT).
Proof.
  intros c e sig key e' st b H Hi. unfold eval_checksig_tapscript in H. rewrite Hi in H. cbn [negb] in H.
  (* the generated comparison of the weight test is "< 0" *)
  assert (Hg: forall w, cmp_eval site_weight_exhausted w 0 = (w <? 0)) by reflexivity.
  destruct (negb (zlen sig =? 0)) eqn:Es.
  - cbn [set_ed e_ed ed_set_weight ed_weight_left] in H. rewrite !Hg in H.
    destruct (ed_weight_left (e_ed e) - VALIDATION_WEIGHT_PER_SIGOP_PASSED <? 0) eqn:Ew; cbn [andb] in H.
    + inversion H; subst. cbn. repeat split.
    + apply Z.ltb_ge in Ew.
      repeat match type of H with
             | context [if ?q then _ else _] => destruct q
             | context [let '(_, _) := ?q in _] => destruct q
             end; inversion H; subst; cbn; (split; [reflexivity|]); (split; [reflexivity|]); intros _ Hlt; exfalso; lia.
  - cbn [andb] in H.
    repeat match type of H with
           | context [if ?q then _ else _] => destruct q
           end; inversion H; subst; cbn; (split; [reflexivity|]); (split; [lia|]); intros Hx; discriminate.
Qed.
End OpProofs.

(* ------------------------------------------------------------------ CHECKMULTISIG: signatures are matched to keys in order *)
(* reference: walk both lists from the top of the stack; a key that does not verify the current signature is skipped for good;
   as soon as fewer keys than signatures remain the result is false *)
Fixpoint ms_spec (v : bytes -> bytes -> bool) (sigs keys : list bytes) {struct keys} : bool :=
  match sigs with
  | [] => true
  | s :: ss =>
      match keys with
      | [] => false
      | k :: ks => let sigs' := if v s k then ss else sigs in
                   if (length ks <? length sigs')%nat then false else ms_spec v sigs' ks
      end
  end.

Section Multisig.
Variable low_s : bytes -> bool.
Notation multisig_loop := (multisig_loop low_s).

Lemma multisig_loop_spec : forall c e code fuel sigsR keysR isig ikey,
  (forall idx, (idx < length sigsR)%nat -> stop e (Z.to_nat (isig + Z.of_nat idx)) = nth idx sigsR []) ->
  (forall idx, (idx < length keysR)%nat -> stop e (Z.to_nat (ikey + Z.of_nat idx)) = nth idx keysR []) ->
  0 <= isig -> 0 <= ikey ->
  (forall k, In k keysR -> pv_has_key c k = false /\ check_pubkey_encoding (c_flags c) (c_sigver c) k = None) ->
  (forall s, In s sigsR -> check_sig_encoding low_s (c_flags c) s = None) ->
  (length keysR < fuel)%nat -> (length sigsR <= length keysR)%nat ->
  multisig_loop fuel c e code isig ikey (Z.of_nat (length sigsR)) (Z.of_nat (length keysR))
  = (e, SOk, ms_spec (fun s k => k_ecdsa (c_chk c) s k code (c_sigver c)) sigsR keysR).
Proof.
  intros c e code. induction fuel as [|f IH]; intros sigsR keysR isig ikey Hs Hk Hi0 Hk0 Hkeys Hsigs Hf Hle; [lia|].
  cbn [Interp.multisig_loop]. destruct sigsR as [|s ss].
  - cbn [length]. replace (0 <? Z.of_nat 0) with false by reflexivity. destruct keysR; reflexivity.
  - replace (0 <? Z.of_nat (length (s :: ss))) with true by (cbn [length]; lia).
    destruct keysR as [|k ks]; [cbn [length] in Hle; lia|].
    pose proof (Hs 0%nat ltac:(cbn; lia)) as Hs0. pose proof (Hk 0%nat ltac:(cbn; lia)) as Hk0'.
    rewrite Z.add_0_r in Hs0, Hk0'. cbn [nth] in Hs0, Hk0'. rewrite Hs0, Hk0'.
    destruct (Hkeys k (or_introl eq_refl)) as [Hpv Hpk]. rewrite Hpv, (Hsigs s (or_introl eq_refl)), Hpk.
    cbn [ms_spec].
    set (ok := k_ecdsa (c_chk c) s k code (c_sigver c)).
    replace (Z.of_nat (length (k :: ks)) - 1) with (Z.of_nat (length ks)) by (cbn [length]; lia).
    destruct ok; cbv beta iota zeta.
    + replace (Z.of_nat (length (s :: ss)) - 1) with (Z.of_nat (length ss)) by (cbn [length]; lia).
      destruct (Z.of_nat (length ks) <? Z.of_nat (length ss)) eqn:El.
      * apply Z.ltb_lt in El. match goal with |- context [if ?q then false else _] => destruct q eqn:En end; [reflexivity|]. apply Nat.ltb_ge in En. cbn [length] in *. unfold bytes in *. lia.
      * apply Z.ltb_ge in El. match goal with |- context [if ?q then false else _] => destruct q eqn:En end; [apply Nat.ltb_lt in En; cbn [length] in *; unfold bytes in *; lia|].
        apply IH; try lia.
        -- intros idx Hidx. specialize (Hs (S idx) ltac:(cbn [length]; lia)). cbn [nth] in Hs. rewrite <- Hs. f_equal. lia.
        -- intros idx Hidx. specialize (Hk (S idx) ltac:(cbn [length]; lia)). cbn [nth] in Hk. rewrite <- Hk. f_equal. lia.
        -- intros k' Hin. apply Hkeys. right. exact Hin.
        -- intros s' Hin. apply Hsigs. right. exact Hin.
        -- cbn [length] in Hf. lia.
    + destruct (Z.of_nat (length ks) <? Z.of_nat (length (s :: ss))) eqn:El.
      * apply Z.ltb_lt in El. match goal with |- context [if ?q then false else _] => destruct q eqn:En end; [reflexivity|]. apply Nat.ltb_ge in En. cbn [length] in *. unfold bytes in *. lia.
      * apply Z.ltb_ge in El. match goal with |- context [if ?q then false else _] => destruct q eqn:En end; [apply Nat.ltb_lt in En; cbn [length] in *; unfold bytes in *; lia|].
        apply IH; try lia.
        -- exact Hs.
        -- intros idx Hidx. specialize (Hk (S idx) ltac:(cbn [length]; lia)). cbn [nth] in Hk. rewrite <- Hk. f_equal. lia.
        -- intros k' Hin. apply Hkeys. right. exact Hin.
        -- exact Hsigs.
        -- cbn [length] in Hf. lia.
Qed.
End Multisig.

(* the reference accepts exactly the signature lists that embed into the key list preserving order (one key per signature) *)
Inductive ordered_match (v : bytes -> bytes -> bool) : list bytes -> list bytes -> Prop :=
| om_nil : forall keys, ordered_match v [] keys
| om_use : forall s ss k ks, v s k = true -> ordered_match v ss ks -> ordered_match v (s :: ss) (k :: ks)
| om_skip : forall sigs k ks, ordered_match v sigs ks -> ordered_match v sigs (k :: ks).

Lemma ordered_match_length v sigs keys : ordered_match v sigs keys -> (length sigs <= length keys)%nat.
Proof. induction 1; cbn [length]; lia. Qed.

(* soundness of the greedy walk: a true result is witnessed by an order-preserving matching *)
Lemma ms_spec_sound : forall v keys sigs, ms_spec v sigs keys = true -> ordered_match v sigs keys.
Proof.
  intros v. induction keys as [|k ks IH]; intros sigs H.
  - destruct sigs; [constructor|discriminate].
  - destruct sigs as [|s ss]; [constructor|]. cbn [ms_spec] in H.
    destruct (v s k) eqn:Ev.
    + destruct (length ks <? length ss)%nat; [discriminate|]. apply om_use; [exact Ev|apply IH; exact H].
    + destruct (length ks <? length (s :: ss))%nat; [discriminate|]. apply om_skip. apply IH. exact H.
Qed.

Lemma ordered_match_tail v s ss keys : ordered_match v (s :: ss) keys -> ordered_match v ss keys.
Proof.
  remember (s :: ss) as l eqn:El. intros H. revert s ss El. induction H as [keys|s' ss' k ks Hv H IH|sigs k ks H IH]; intros s ss El.
  - discriminate.
  - inversion El; subst. apply om_skip. exact H.
  - apply om_skip. eapply IH. exact El.
Qed.

(* completeness: whenever an order-preserving matching exists the greedy walk finds one *)
Lemma ms_spec_complete : forall v keys sigs, ordered_match v sigs keys -> ms_spec v sigs keys = true.
Proof.
  intros v. induction keys as [|k ks IH]; intros sigs H.
  - inversion H; subst. reflexivity.
  - destruct sigs as [|s ss]; [reflexivity|]. cbn [ms_spec].
    destruct (v s k) eqn:Ev.
    + assert (Hm: ordered_match v ss ks).
      { inversion H; subst; [assumption|]. eapply ordered_match_tail. eassumption. }
      pose proof (ordered_match_length _ _ _ Hm) as Hl.
      replace (length ks <? length ss)%nat with false by (symmetry; apply Nat.ltb_ge; exact Hl). apply IH. exact Hm.
    + assert (Hm: ordered_match v (s :: ss) ks).
      { inversion H; subst; [congruence|assumption]. }
      pose proof (ordered_match_length _ _ _ Hm) as Hl.
      replace (length ks <? length (s :: ss))%nat with false by (symmetry; apply Nat.ltb_ge; exact Hl). apply IH. exact Hm.
Qed.

Theorem ms_spec_iff_ordered_match : forall v sigs keys, ms_spec v sigs keys = true <-> ordered_match v sigs keys.
Proof. intros; split; [apply ms_spec_sound|apply ms_spec_complete]. Qed.

(* ------------------------------------------------------------------ the end of OP_CHECKMULTISIG: dummy element and result *)
Lemma multisig_nulldummy : forall c e2 fS opcode, 1 <= ssize e2 ->
  has_flag (c_flags c) SCRIPT_VERIFY_NULLDUMMY = true -> stop e2 1 <> [] ->
  multisig_finish c e2 fS opcode = fail e2 SCRIPT_ERR_SIG_NULLDUMMY.
Proof.
  intros c e2 fS opcode Hs Hf Hd. unfold multisig_finish. replace (ssize e2 <? 1) with false by lia. rewrite Hf. cbn [andb].
  destruct (stop e2 1) as [|b r]; [contradiction|]. reflexivity.
Qed.

(* otherwise the dummy is dropped and the result of the matching pushed (VERIFY: consumed, or the CHECKMULTISIGVERIFY error) *)
Lemma multisig_result : forall c e2 fS opcode, 1 <= ssize e2 ->
  (has_flag (c_flags c) SCRIPT_VERIFY_NULLDUMMY = true -> stop e2 1 = []) ->
  multisig_finish c e2 fS opcode =
    if opcode =? OP_CHECKMULTISIGVERIFY
    then (if fS then ok (popn e2 1) else fail (pushs (popn e2 1) (bool_vch false)) SCRIPT_ERR_CHECKMULTISIGVERIFY)
    else ok (pushs (popn e2 1) (bool_vch fS)).
Proof.
  intros c e2 fS opcode Hs Hd. unfold multisig_finish. replace (ssize e2 <? 1) with false by lia.
  destruct (has_flag (c_flags c) SCRIPT_VERIFY_NULLDUMMY) eqn:Hf; cbn [andb].
  - rewrite (Hd eq_refl). cbn [zlen length Z.of_nat Z.eqb negb]. destruct (opcode =? OP_CHECKMULTISIGVERIFY); [destruct fS|]; reflexivity.
  - destruct (opcode =? OP_CHECKMULTISIGVERIFY); [destruct fS|]; reflexivity.
Qed.
