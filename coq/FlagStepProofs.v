(* Verification flags only ever restrict, step by step (C09): a step that succeeds under a flag set B succeeds with the same result
   under every subset A of B. *)
From Coq Require Import ZifyBool.
From BV Require Import Base ScriptNum ScriptNumProofs Script Interp FlagProofs.
From BV.Gen Require Import Consts Sites.
Local Open Scope Z_scope.

Definition with_flags (c : cfg) (F : Z) : cfg :=
  {| c_flags := F; c_sigver := c_sigver c; c_allow_disabled := c_allow_disabled c; c_pv_map := c_pv_map c; c_pv_keys := c_pv_keys c;
     c_chk := c_chk c; c_hash := c_hash c |}.

(* [mono rB rA]: if the run under the larger flag set succeeded, the run under the smaller one succeeded with the same environment *)
Definition mono (rB rA : see * status) : Prop := forall e1, rB = (e1, SOk) -> rA = (e1, SOk).
Lemma mono_refl r : mono r r. Proof. intros e1 H. exact H. Qed.
Lemma mono_fail_l e err rA : mono (fail e err) rA. Proof. intros e1 H. discriminate. Qed.
Lemma mono_err_l e rA : mono (e, SErr) rA. Proof. intros e1 H. discriminate. Qed.
Lemma mono_exn_l e x rA : mono (e, SExn x) rA. Proof. intros e1 H. discriminate. Qed.
Lemma mono_crash_l e x rA : mono (e, SCrash x) rA. Proof. intros e1 H. discriminate. Qed.

Section FlagStep.
Variable low_s : bytes -> bool.
Variable c : cfg.
Variables A B : Z.
Hypothesis Hsub : flags_sub A B.
Let cA := with_flags c A.
Let cB := with_flags c B.

Lemma sn_ctor_mono v n z : sn_ctor v (req_minimal cB) n = Ok z -> sn_ctor v (req_minimal cA) n = Ok z.
Proof.
  unfold req_minimal, cA, cB. cbn [with_flags c_flags].
  destruct (has_flag B SCRIPT_VERIFY_MINIMALDATA) eqn:Hb; destruct (has_flag A SCRIPT_VERIFY_MINIMALDATA) eqn:Ha; auto.
  - apply sn_ctor_monotone.
  - apply Hsub in Ha. congruence.
Qed.

Lemma mono_with_num v n e kB kA : (forall z, mono (kB z) (kA z)) -> mono (with_num cB v n e kB) (with_num cA v n e kA).
Proof.
  intros Hk e1. unfold with_num. destruct (sn_ctor v (req_minimal cB) n) as [z| |] eqn:E; try discriminate.
  rewrite (sn_ctor_mono _ _ _ E). apply Hk.
Qed.

Lemma num_at_mono e k m z : num_at cB e k m = Ok z -> num_at cA e k m = Ok z.
Proof. unfold num_at. apply sn_ctor_mono. Qed.

Lemma mono_need e n err kB kA : mono kB kA -> mono (need e n err kB) (need e n err kA).
Proof. intros H. unfold need. destruct (ssize e <? n); [apply mono_refl|exact H]. Qed.

Ltac mono_step :=
  match goal with
  | |- mono ?r ?r => apply mono_refl
  | |- mono (fail _ _) _ => apply mono_fail_l
  | |- mono (_, SErr) _ => apply mono_err_l
  | |- mono (_, SExn _) _ => apply mono_exn_l
  | |- mono (_, SCrash _) _ => apply mono_crash_l
  | |- mono (need _ _ _ _) (need _ _ _ _) => apply mono_need
  | |- mono (with_num _ _ _ _ _) (with_num _ _ _ _ _) => apply mono_with_num; intros
  | |- mono (if ?b then _ else _) (if ?b then _ else _) => destruct b
  | |- mono (match ?x with Some _ => _ | None => _ end) (match ?x with Some _ => _ | None => _ end) => destruct x
  | |- mono (match ?x with [] => _ | _ :: _ => _ end) (match ?x with [] => _ | _ :: _ => _ end) => destruct x
  | |- mono (let _ := _ in _) _ => cbv zeta
  end.
Ltac mono_solve := repeat mono_step.

Lemma step_extended_mono e opcode : mono (step_extended cB e opcode) (step_extended cA e opcode).
Proof. unfold step_extended. mono_solve. Qed.

(* ---- signature checks *)
Definition mono3 (rB rA : see * status * bool) : Prop := forall e1 b, rB = (e1, SOk, b) -> rA = (e1, SOk, b).

Ltac flag_cases F :=
  let Hb := fresh "Hb" in let Ha := fresh "Ha" in
  destruct (has_flag B F) eqn:Hb; destruct (has_flag A F) eqn:Ha; try (apply Hsub in Ha; congruence).

Lemma eval_checksig_pre_mono e sig key : mono3 (eval_checksig_pre low_s cB e sig key) (eval_checksig_pre low_s cA e sig key).
Proof.
  intros e1 b. unfold eval_checksig_pre, script_code, cA, cB. cbn [with_flags c_flags c_sigver c_chk].
  destruct (e_cb e) as [code0|]; [|discriminate].
  flag_cases SCRIPT_VERIFY_CONST_SCRIPTCODE; flag_cases SCRIPT_VERIFY_NULLFAIL;
  (destruct (c_sigver c =? SV_BASE);
   [destruct (find_and_delete code0 (push_data sig)) as [sc found]; destruct (0 <? found); cbn [andb]; try discriminate|]);
  (destruct (check_sig_encoding low_s B sig) eqn:Es; [discriminate|]; rewrite (check_sig_encoding_monotone low_s A B sig Hsub Es));
  (destruct (check_pubkey_encoding B (c_sigver c) key) eqn:Ek; [discriminate|]; rewrite (check_pubkey_encoding_monotone A B _ key Hsub Ek));
  match goal with |- context [k_ecdsa ?a ?b0 ?c0 ?d ?f] => destruct (k_ecdsa a b0 c0 d f) end; cbn [negb andb];
  try (destruct (zlen sig =? 0); cbn [negb]; try discriminate); auto.
Qed.

Lemma eval_checksig_tapscript_mono e sig key : mono3 (eval_checksig_tapscript cB e sig key) (eval_checksig_tapscript cA e sig key).
Proof.
  intros e1 b. unfold eval_checksig_tapscript, cA, cB. cbn [with_flags c_flags c_sigver c_chk].
  flag_cases SCRIPT_VERIFY_DISCOURAGE_UPGRADABLE_PUBKEYTYPE;
  repeat match goal with
         | |- context [if ?q then _ else _] => destruct q
         | |- context [let '(_, _) := ?q in _] => destruct q
         end; try discriminate; auto.
Qed.

Lemma eval_checksig_mono e sig key : mono3 (eval_checksig low_s cB e sig key) (eval_checksig low_s cA e sig key).
Proof.
  intros e1 b. unfold eval_checksig.
  change (pv_has_key cB key) with (pv_has_key c key). change (pv_has_key cA key) with (pv_has_key c key).
  change (pv_match cB sig key) with (pv_match c sig key). change (pv_match cA sig key) with (pv_match c sig key).
  change (c_sigver cB) with (c_sigver c). change (c_sigver cA) with (c_sigver c). change (c_chk cB) with (c_chk c). change (c_chk cA) with (c_chk c).
  destruct (pv_has_key c key && pv_match c sig key); [auto|].
  destruct (c_sigver c =? SV_TAPROOT); [auto|].
  destruct ((c_sigver c =? SV_BASE) || (c_sigver c =? SV_WITNESS_V0)); [apply eval_checksig_pre_mono|apply eval_checksig_tapscript_mono].
Qed.

Lemma op_checksig_mono e opcode : mono (op_checksig low_s cB e opcode) (op_checksig low_s cA e opcode).
Proof.
  intros e1. unfold op_checksig. destruct (ssize e <? 2); [auto|].
  pose proof (eval_checksig_mono e (stop e 2) (stop e 1)) as H.
  destruct (eval_checksig low_s cB e (stop e 2) (stop e 1)) as [[eB stB] bB].
  destruct stB; try discriminate. rewrite (H eB bB eq_refl). auto.
Qed.

Lemma op_checksigadd_mono e : mono (op_checksigadd low_s cB e) (op_checksigadd low_s cA e).
Proof.
  intros e1. unfold op_checksigadd. change (c_sigver cB) with (c_sigver c). change (c_sigver cA) with (c_sigver c).
  destruct ((c_sigver c =? SV_BASE) || (c_sigver c =? SV_WITNESS_V0)); [auto|].
  destruct (ssize e <? 3); [auto|].
  destruct (num_at cB e 2 4) as [z| |] eqn:En; try discriminate. rewrite (num_at_mono _ _ _ _ En).
  pose proof (eval_checksig_mono e (stop e 3) (stop e 1)) as H.
  destruct (eval_checksig low_s cB e (stop e 3) (stop e 1)) as [[eB stB] bB].
  destruct stB; try discriminate. rewrite (H eB bB eq_refl). auto.
Qed.

(* ---- OP_CHECKMULTISIG *)
Lemma multisig_fad_mono keys sigs : forall code code', multisig_fad cB keys code sigs = (code', false) -> multisig_fad cA keys code sigs = (code', false).
Proof.
  induction sigs as [|s r IH]; intros code code' H; cbn [multisig_fad] in *; [exact H|].
  change (c_sigver cB) with (c_sigver c) in H. change (c_sigver cA) with (c_sigver c).
  change (c_pv_map cB) with (c_pv_map c) in H. change (c_pv_map cA) with (c_pv_map c).
  change (c_flags cB) with B in H. change (c_flags cA) with A.
  destruct (c_sigver c =? SV_BASE); [|apply IH; exact H].
  destruct (find_and_delete code (push_data s)) as [code1 found].
  set (mocked := match pv_lookup (c_pv_map c) s with Some k => existsb (bytes_eqb k) keys | None => false end) in *.
  flag_cases SCRIPT_VERIFY_CONST_SCRIPTCODE; destruct (0 <? found); destruct mocked; cbn [andb negb] in *; try discriminate; apply IH; exact H.
Qed.

Lemma multisig_loop_mono fuel e code : forall isig ikey nS nK,
  mono3 (multisig_loop low_s fuel cB e code isig ikey nS nK) (multisig_loop low_s fuel cA e code isig ikey nS nK).
Proof.
  induction fuel as [|f IH]; intros isig ikey nS nK e1 b; cbn [multisig_loop]; [auto|].
  destruct (0 <? nS); [|auto].
  change (pv_has_key cB) with (pv_has_key c). change (pv_has_key cA) with (pv_has_key c).
  change (pv_match cB) with (pv_match c). change (pv_match cA) with (pv_match c).
  change (c_sigver cB) with (c_sigver c). change (c_sigver cA) with (c_sigver c). change (c_chk cB) with (c_chk c). change (c_chk cA) with (c_chk c).
  change (c_flags cB) with B. change (c_flags cA) with A.
  assert (Hstep: forall fOk : bool,
    (let isig' := if fOk then isig + 1 else isig in let nSigs' := if fOk then nS - 1 else nS in
     let ikey' := ikey + 1 in let nKeys' := nK - 1 in
     if nKeys' <? nSigs' then (e, SOk, false) else multisig_loop low_s f cB e code isig' ikey' nSigs' nKeys') = (e1, SOk, b) ->
    (let isig' := if fOk then isig + 1 else isig in let nSigs' := if fOk then nS - 1 else nS in
     let ikey' := ikey + 1 in let nKeys' := nK - 1 in
     if nKeys' <? nSigs' then (e, SOk, false) else multisig_loop low_s f cA e code isig' ikey' nSigs' nKeys') = (e1, SOk, b)).
  { intros fOk. cbv zeta. destruct (nK - 1 <? (if fOk then nS - 1 else nS)); [auto|apply IH]. }
  destruct (pv_has_key c (stop e (Z.to_nat ikey))); [apply Hstep|].
  destruct (check_sig_encoding low_s B (stop e (Z.to_nat isig))) eqn:Es; [discriminate|]. rewrite (check_sig_encoding_monotone low_s A B _ Hsub Es).
  destruct (check_pubkey_encoding B (c_sigver c) (stop e (Z.to_nat ikey))) eqn:Ek; [discriminate|]. rewrite (check_pubkey_encoding_monotone A B _ _ Hsub Ek).
  apply Hstep.
Qed.

Lemma multisig_cleanup_mono n : forall e fS ikey2, mono (multisig_cleanup n cB e fS ikey2) (multisig_cleanup n cA e fS ikey2).
Proof.
  induction n as [|m IH]; intros e fS ikey2 e1; cbn [multisig_cleanup]; [auto|].
  change (c_flags cB) with B. change (c_flags cA) with A.
  flag_cases SCRIPT_VERIFY_NULLFAIL; destruct fS; cbn [negb andb]; try apply IH;
  destruct (ikey2 =? 0); cbn [andb]; try apply IH; destruct (zlen (stop e 1) =? 0); cbn [negb]; try apply IH; discriminate.
Qed.

Lemma op_checkmultisig_mono e opcode : mono (op_checkmultisig low_s cB e opcode) (op_checkmultisig low_s cA e opcode).
Proof.
  intros e1. unfold op_checkmultisig, multisig_finish. change (c_sigver cB) with (c_sigver c). change (c_sigver cA) with (c_sigver c).
  destruct (c_sigver c =? SV_TAPSCRIPT); [auto|].
  destruct (ssize e <? 1); [auto|].
  destruct (num_at cB e 1 4) as [kraw| |] eqn:En; try discriminate. rewrite (num_at_mono _ _ _ _ En).
  match goal with |- context [if ?q then _ else _] => destruct q end; [auto|].
  set (e0 := set_ops e (e_ops e + sn_getint kraw)).
  match goal with |- context [if ?q then _ else _] => destruct q end; [auto|].
  match goal with |- context [if ?q then _ else _] => destruct q end; [auto|].
  destruct (num_at cB e0 (Z.to_nat (2 + sn_getint kraw)) 4) as [sraw| |] eqn:En2; try discriminate. rewrite (num_at_mono _ _ _ _ En2).
  match goal with |- context [if ?q then _ else _] => destruct q end; [auto|].
  match goal with |- context [if ?q then _ else _] => destruct q end; [auto|].
  unfold script_code. destruct (e_cb e0) as [code0|]; [|auto].
  match goal with |- context [multisig_fad cB ?k0 ?b0 ?s] =>
    pose proof (multisig_fad_mono k0 s b0) as HF; destruct (multisig_fad cB k0 b0 s) as [code fadfail] end.
  destruct fadfail; [discriminate|]. rewrite (HF code eq_refl).
  match goal with |- context [multisig_loop low_s ?fu cB ?ee ?co ?a1 ?a2 ?a3 ?a4] =>
    pose proof (multisig_loop_mono fu ee co a1 a2 a3 a4) as HL; destruct (multisig_loop low_s fu cB ee co a1 a2 a3 a4) as [[eL stL] fS] end.
  destruct stL; try discriminate. rewrite (HL eL fS eq_refl).
  match goal with |- context [multisig_cleanup ?n cB ?ee ?f ?k] =>
    pose proof (multisig_cleanup_mono n ee f k) as HC; destruct (multisig_cleanup n cB ee f k) as [e2 st2] end.
  destruct st2; try discriminate. rewrite (HC e2 eq_refl).
  destruct (ssize e2 <? 1); [auto|].
  change (c_flags cB) with B. change (c_flags cA) with A.
  flag_cases SCRIPT_VERIFY_NULLDUMMY; cbn [andb]; auto; destruct (zlen (stop e2 1) =? 0); cbn [negb]; auto; discriminate.
Qed.

(* ---- the opcode switch and the whole step *)
Ltac mono_step2 :=
  match goal with
  | |- mono (step_extended cB _ _) (step_extended cA _ _) => apply step_extended_mono
  | |- mono (op_checksig _ cB _ _) (op_checksig _ cA _ _) => apply op_checksig_mono
  | |- mono (op_checksigadd _ cB _) (op_checksigadd _ cA _) => apply op_checksigadd_mono
  | |- mono (op_checkmultisig _ cB _ _) (op_checkmultisig _ cA _ _) => apply op_checkmultisig_mono
  | |- mono (match num_at cB ?e ?k ?m with _ => _ end) (match num_at cA ?e ?k ?m with _ => _ end) =>
      let E := fresh "En" in destruct (num_at cB e k m) eqn:E; [rewrite (num_at_mono _ _ _ _ E)|apply mono_exn_l|apply mono_crash_l]
  | |- mono (match unary_num ?a ?b with _ => _ end) (match unary_num ?a ?b with _ => _ end) => destruct (unary_num a b)
  | |- mono (match binary_num ?a ?b ?k with _ => _ end) (match binary_num ?a ?b ?k with _ => _ end) => destruct (binary_num a b k)
  | _ => mono_step
  end.

Lemma exec_opcode_mono e opcode fExec pc' : mono (exec_opcode low_s cB e opcode fExec pc') (exec_opcode low_s cA e opcode fExec pc').
Proof.
  unfold exec_opcode. cbv zeta.
  change (c_sigver cB) with (c_sigver c). change (c_sigver cA) with (c_sigver c). change (c_chk cB) with (c_chk c). change (c_chk cA) with (c_chk c).
  change (c_flags cB) with B. change (c_flags cA) with A. change (c_hash cB) with (c_hash c). change (c_hash cA) with (c_hash c).
  repeat mono_step2.
  - (* OP_CHECKLOCKTIMEVERIFY *)
    flag_cases SCRIPT_VERIFY_CHECKLOCKTIMEVERIFY; cbn [negb]; try apply mono_refl.
    + repeat mono_step2.
    + intros e1. unfold need. destruct (ssize e <? 1); [discriminate|]. unfold with_num.
      destruct (sn_ctor (stop e 1) (req_minimal cB) (Z.to_nat numsize_cltv)) as [n| |]; try discriminate.
      repeat match goal with |- context [if ?q then _ else _] => destruct q end; try discriminate; auto.
  - (* OP_CHECKSEQUENCEVERIFY *)
    flag_cases SCRIPT_VERIFY_CHECKSEQUENCEVERIFY; cbn [negb]; try apply mono_refl.
    + repeat mono_step2.
    + intros e1. unfold need. destruct (ssize e <? 1); [discriminate|]. unfold with_num.
      destruct (sn_ctor (stop e 1) (req_minimal cB) (Z.to_nat numsize_csv)) as [n| |]; try discriminate.
      repeat match goal with |- context [if ?q then _ else _] => destruct q end; try discriminate; auto.
  - (* upgradable NOPs *)
    flag_cases SCRIPT_VERIFY_DISCOURAGE_UPGRADABLE_NOPS; try apply mono_refl. apply mono_fail_l.
  - (* MINIMALIF under witness v0 *)
    flag_cases SCRIPT_VERIFY_MINIMALIF; cbn [andb]; try apply mono_refl.
    destruct (c_sigver c =? SV_WITNESS_V0); cbn [andb]; try apply mono_refl.
    match goal with |- context [if ?q then _ else _] => destruct q end; [apply mono_fail_l|apply mono_refl].
  - (* hash opcodes: the hash functions are not part of the flags *)
    intros e1 H. exact H.
Qed.

(* one step: whatever succeeds under B succeeds identically under A *)
Theorem step_script_mono e pc local : forall e1 pc1,
  step_script low_s cB e pc local = (e1, pc1, SOk) -> step_script low_s cA e pc local = (e1, pc1, SOk).
Proof.
  intros e1 pc1. unfold step_script.
  change (c_sigver cB) with (c_sigver c). change (c_sigver cA) with (c_sigver c).
  change (c_allow_disabled cB) with (c_allow_disabled c). change (c_allow_disabled cA) with (c_allow_disabled c).
  change (c_flags cB) with B. change (c_flags cA) with A.
  destruct (get_op pc) as [[[opcode push]|] pc']; [|discriminate].
  match goal with |- context [if ?q then _ else _] => destruct q end; [discriminate|].
  set (count := ((c_sigver c =? SV_BASE) || (c_sigver c =? SV_WITNESS_V0)) && cmp_eval (fst site_opcount_threshold) opcode (snd site_opcount_threshold)).
  set (e0 := if count then set_ops e (e_ops e + 1) else e).
  match goal with |- context [if ?q then _ else _] => destruct q end; [discriminate|].
  match goal with |- context [if ?q then _ else _] => destruct q end; [discriminate|].
  (* OP_CODESEPARATOR under CONST_SCRIPTCODE *)
  assert (Hcs: forall X Y : see * bytes * status,
     (if (opcode =? OP_CODESEPARATOR) && (c_sigver c =? SV_BASE) && has_flag B SCRIPT_VERIFY_CONST_SCRIPTCODE then (set_err e0 SCRIPT_ERR_OP_CODESEPARATOR, pc', SErr) else X) = (e1, pc1, SOk) ->
     (X = (e1, pc1, SOk) -> Y = (e1, pc1, SOk)) ->
     (if (opcode =? OP_CODESEPARATOR) && (c_sigver c =? SV_BASE) && has_flag A SCRIPT_VERIFY_CONST_SCRIPTCODE then (set_err e0 SCRIPT_ERR_OP_CODESEPARATOR, pc', SErr) else Y) = (e1, pc1, SOk)).
  { intros X Y HX HXY. flag_cases SCRIPT_VERIFY_CONST_SCRIPTCODE; destruct ((opcode =? OP_CODESEPARATOR) && (c_sigver c =? SV_BASE)); cbn [andb] in *; try discriminate; auto. }
  intros H. eapply Hcs; [exact H|]. clear H Hcs. intros H.
  (* the executed part *)
  assert (HX: mono
     (if cs_all_true (e_cond e) && (0 <=? opcode) && (opcode <=? OP_PUSHDATA4)
      then if req_minimal cB && negb (check_minimal_push push opcode) then fail e0 SCRIPT_ERR_MINIMALDATA else ok (pushs e0 push)
      else if cs_all_true (e_cond e) || (OP_IF <=? opcode) && (opcode <=? OP_ENDIF)
           then if negb gate_before_exec && negb (c_allow_disabled c) && is_extended_op opcode then fail e0 SCRIPT_ERR_DISABLED_OPCODE
                else exec_opcode low_s cB e0 opcode (cs_all_true (e_cond e)) (if local then None else Some pc')
           else ok e0)
     (if cs_all_true (e_cond e) && (0 <=? opcode) && (opcode <=? OP_PUSHDATA4)
      then if req_minimal cA && negb (check_minimal_push push opcode) then fail e0 SCRIPT_ERR_MINIMALDATA else ok (pushs e0 push)
      else if cs_all_true (e_cond e) || (OP_IF <=? opcode) && (opcode <=? OP_ENDIF)
           then if negb gate_before_exec && negb (c_allow_disabled c) && is_extended_op opcode then fail e0 SCRIPT_ERR_DISABLED_OPCODE
                else exec_opcode low_s cA e0 opcode (cs_all_true (e_cond e)) (if local then None else Some pc')
           else ok e0)).
  { destruct (cs_all_true (e_cond e) && (0 <=? opcode) && (opcode <=? OP_PUSHDATA4)).
    - unfold req_minimal. change (c_flags cB) with B. change (c_flags cA) with A.
      flag_cases SCRIPT_VERIFY_MINIMALDATA; cbn [andb]; try apply mono_refl.
      destruct (check_minimal_push push opcode); cbn [negb]; [apply mono_refl|apply mono_fail_l].
    - destruct (cs_all_true (e_cond e) || (OP_IF <=? opcode) && (opcode <=? OP_ENDIF)); [|apply mono_refl].
      destruct (negb gate_before_exec && negb (c_allow_disabled c) && is_extended_op opcode); [apply mono_refl|apply exec_opcode_mono]. }
  match type of H with context [let '(_, _) := ?q in _] => destruct q as [eB stB] eqn:EB end.
  destruct stB; try discriminate.
  rewrite (HX eB eq_refl). exact H.
Qed.
End FlagStep.
