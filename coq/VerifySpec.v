(* The reference against which a --tx/--txin session of a legacy (non-witness) input is stated (C03):
   Bitcoin's VerifyScript for such an input, written as a sequence of EvalScript calls - scriptSig, scriptPubKey, and for
   pay-to-script-hash the redeem script - each with its own alt stack and operation count, each ending with a balanced
   conditional nesting, over the same one-step function as the debugger. *)
From BV Require Import Base ScriptNum Script Interp Session.
From BV.Gen Require Import Consts Sites.
Local Open Scope Z_scope.

Section VerifySpec.
Variable low_s : bytes -> bool.
Variable c : cfg.

(* EvalScript's loop: execute operations until the end of the script or the first failure; the fuel is the script length *)
Fixpoint eval_loop_ref (fuel : nat) (e : see) (pc : bytes) : see * status :=
  match fuel with
  | O => (e, SCrash 99)
  | S f =>
      match pc with
      | [] => (e, SOk)
      | _ => let '(e1, pc1, st) := step_script low_s c e pc false in
             match st with
             | SOk => eval_loop_ref f (set_pos e1 (e_pos e1 + 1)) pc1
             | _ => (e1, st)
             end
      end
  end.
Definition eval_ref (e : see) (pc : bytes) : see * status := eval_loop_ref (S (length pc)) e pc.

(* the environment of one EvalScript call: its own script, stack given, empty alt stack, zero operation count, code hash at the start.
   (The position counter, the execution data and the error slot are debugger bookkeeping carried along; they do not influence a legacy evaluation.) *)
Definition call_env (script : bytes) (stack : list bytes) (carry : see) : see :=
  {| e_script := script; e_cb := Some script; e_stack := stack; e_alt := []; e_cond := e_cond carry;
     e_ops := 0; e_pos := e_pos carry; e_ed := e_ed carry; e_err := e_err carry |}.

Definition truthy (e : see) : bool := match e_stack e with top :: _ => cast_to_bool top | [] => false end.

Inductive verdict := Valid (e : see) | Invalid (e : see) (err : Z) | Aborted (e : see) (st : status).

(* an evaluation that stopped with an error / exception *)
Definition failed_verdict (e1 : see) (st : status) : verdict :=
  match st with SErr => Invalid e1 (e_err e1) | _ => Aborted e1 st end.

(* end of the last script: the nesting must be balanced; the debugger then reports success (the caller looks at the top element) *)
Definition finish (e : see) : verdict :=
  if negb (cs_empty (e_cond e)) then Invalid e SCRIPT_ERR_UNBALANCED_CONDITIONAL else Valid e.

(* [e0]: the environment in which the scriptSig was loaded (empty alt stack, zero count) *)
Definition verify_ref (e0 : see) (spk : bytes) : verdict :=
  match eval_ref e0 (e_script e0) with
  | (e1, SOk) =>
    match spk with
    | [] => finish e1                                                  (* script-only session *)
    | _ =>
      if negb (cs_empty (e_cond e1)) then Invalid e1 SCRIPT_ERR_UNBALANCED_CONDITIONAL
      else if MAX_SCRIPT_SIZE <? zlen spk then Invalid e1 SCRIPT_ERR_SCRIPT_SIZE
      else
        match eval_ref (call_env spk (e_stack e1) e1) spk with
        | (e2, SOk) =>
          if p2sh_shape (c_flags c) spk then
            if negb (cs_empty (e_cond e2)) then Invalid e2 SCRIPT_ERR_UNBALANCED_CONDITIONAL
            else if negb (truthy e2) then Invalid e2 SCRIPT_ERR_EVAL_FALSE
            else match e_stack e1 with                                  (* the stack as the scriptSig left it *)
                 | [] => Invalid (set_stack e2 []) SCRIPT_ERR_INVALID_STACK_OPERATION
                 | redeem :: rest =>
                     match eval_ref (call_env redeem rest e2) redeem with
                     | (e3, SOk) => finish e3
                     | (e3, st) => failed_verdict e3 st
                     end
                 end
          else finish e2
        | (e2, st) => failed_verdict e2 st
        end
    end
  | (e1, st) => failed_verdict e1 st
  end.
End VerifySpec.
