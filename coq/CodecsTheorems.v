(* Final statements about the codec models (proofs in CodecsProofs.v).  Every theorem is followed by
   [Print Assumptions], which must report "Closed under the global context". *)
From BV Require Import Base BaseProofs Codecs CodecsProofs.
Local Open Scope Z_scope.

(* ---------------------------------------------------------------------------------------- *)
(* Base58 *)

(* DecodeBase58(EncodeBase58(b), max_ret_len) succeeds and returns b exactly when
   b.size() <= max_ret_len (leading zero bytes count towards the limit) *)
Theorem base58_roundtrip : forall (b : bytes) (n : nat),
  bytes_ok b -> (length b <= n)%nat -> base58_decode (base58_encode b) n = Some b.
Proof. exact base58_roundtrip_l. Qed.
Print Assumptions base58_roundtrip.

Theorem base58_roundtrip_too_long : forall (b : bytes) (n : nat),
  bytes_ok b -> (n < length b)%nat -> base58_decode (base58_encode b) n = None.
Proof. exact base58_too_long_l. Qed.
Print Assumptions base58_roundtrip_too_long.

(* the encoder only emits alphabet characters *)
Theorem base58_encode_in_alphabet : forall (b : bytes) (c : Z),
  bytes_ok b -> In c (base58_encode b) -> In c b58_alphabet.
Proof. exact base58_encode_alphabet. Qed.
Print Assumptions base58_encode_in_alphabet.

(* any character (at ANY position) that is neither one of the 58 alphabet characters nor one of the
   six IsSpace characters (' ', \f, \n, \r, \t, \v) makes the decoder fail; this includes NUL and
   everything >= 0x80 *)
Theorem base58_rejects_non_alphabet : forall (s : list Z) (n : nat) (c : Z),
  In c s -> ~ In c b58_alphabet -> is_space c = false -> base58_decode s n = None.
Proof. exact base58_rejects_non_alphabet_l. Qed.
Print Assumptions base58_rejects_non_alphabet.

(* whitespace is tolerated exactly at the two ends: leading and trailing IsSpace runs are ignored ... *)
Theorem base58_decode_strip : forall (l s t : list Z) (n : nat),
  forallb is_space l = true -> forallb is_space t = true ->
  base58_decode (l ++ s ++ t) n = base58_decode s n.
Proof. exact base58_decode_strip_l. Qed.
Print Assumptions base58_decode_strip.

(* ... and an IsSpace character with a non-space character somewhere before it and somewhere after
   it is an error *)
Theorem base58_decode_inner_space : forall (a : list Z) (x : Z) (m : list Z) (sp : Z) (m' : list Z)
                                           (y : Z) (b : list Z) (n : nat),
  is_space x = false -> is_space sp = true -> is_space y = false ->
  base58_decode (a ++ x :: m ++ sp :: m' ++ y :: b) n = None.
Proof. exact base58_decode_inner_space_l. Qed.
Print Assumptions base58_decode_inner_space.

(* the Z-arithmetic models are the functions computed by the transliterated C++ digit-array loops
   (in particular assert(carry == 0) never fires) *)
Theorem base58_encode_loops_eq : forall b : bytes,
  bytes_ok b -> base58_encode_loops b = Some (base58_encode b).
Proof. exact base58_encode_loops_correct. Qed.
Print Assumptions base58_encode_loops_eq.

Theorem base58_decode_loops_eq : forall (s : list Z) (n : nat),
  base58_decode_loops s n = base58_decode s n.
Proof. exact base58_decode_loops_correct. Qed.
Print Assumptions base58_decode_loops_eq.

(* Base58Check: n is the max_ret_len argument of DecodeBase58Check (value.h passes 200); the inner
   DecodeBase58 is called with n + 4 *)
Theorem base58check_roundtrip : forall (H : bytes -> bytes) (b : bytes) (n : nat),
  (forall x, length (H x) = 32%nat /\ bytes_ok (H x)) -> bytes_ok b -> (length b <= n)%nat ->
  base58check_decode H (base58check_encode H b) n = Some b.
Proof. exact base58check_roundtrip_l. Qed.
Print Assumptions base58check_roundtrip.

(* ---------------------------------------------------------------------------------------- *)
(* ConvertBits *)

Theorem convert_bits_8_5_roundtrip : forall b : bytes, bytes_ok b ->
  exists v, convert_bits 8 5 true b = Some v /\ Forall (fun x => 0 <= x < 32) v /\
            convert_bits 5 8 false v = Some b.
Proof. exact convert_bits_8_5_roundtrip_l. Qed.
Print Assumptions convert_bits_8_5_roundtrip.

(* number of 5-bit symbols produced: ceil(8 n / 5) *)
Theorem convert_bits_8_5_length : forall b : bytes, bytes_ok b ->
  exists v, convert_bits 8 5 true b = Some v /\
            Z.of_nat (length v) = (8 * Z.of_nat (length b) + 4) / 5.
Proof.
  intros b Hb. destruct (convert_bits_8_5_spec b Hb) as [v [H1 [_ [H3 _]]]].
  exists v. unfold convert_bits. rewrite H1. split; [reflexivity|].
  apply Z.div_unique with (r := 4 - (5 * Z.of_nat (length v) - 8 * Z.of_nat (length b))); lia.
Qed.
Print Assumptions convert_bits_8_5_length.

(* ---------------------------------------------------------------------------------------- *)
(* Bech32 / Bech32m *)

(* the heart of the matter: PolyMod over (expanded hrp ++ values ++ checksum) equals the constant *)
Theorem bech32_checksum_correct : forall (enc : Z) (hrp values : list Z),
  Forall (fun c => 0 <= c < 256) hrp -> Forall (fun v => 0 <= v < 32) values ->
  bech32_polymod (bech32_expand_hrp hrp ++ values ++ bech32_create_checksum enc hrp values)
  = bech32_const enc.
Proof. exact bech32_checksum_verifies. Qed.
Print Assumptions bech32_checksum_correct.

(* [b32_plain c] = 33 <= c <= 126 and c is not an upper-case letter: what CheckCharacters (range),
   the assert in Encode (no upper case) and the lower-casing in Decode require of an HRP character.
   The HRP may contain '1' (Decode uses rfind). *)
Theorem bech32_roundtrip : forall (enc : Z) (hrp values : list Z),
  enc = 1 \/ enc = 2 ->
  hrp <> [] -> Forall (fun c => 33 <= c <= 126 /\ ~ (65 <= c <= 90)) hrp ->
  Forall (fun x => 0 <= x < 32) values ->
  (length hrp + 7 + length values <= 90)%nat ->
  bech32_decode (bech32_encode enc hrp values) = Some (enc, hrp, values).
Proof. exact bech32_roundtrip_l. Qed.
Print Assumptions bech32_roundtrip.

(* Single substitution: take any string accepted by Decode, written as  h ++ "1" ++ pre ++ [c] ++ post
   where the part after that '1' contains no further '1' (so it is the data part incl. checksum).
   Replacing c by any character c' other than '1' that denotes a different symbol
   (CHARSET_REV[c'] <> CHARSET_REV[c]; this covers every other charset character in either case, and
   every non-charset character) makes Decode fail.  Acceptance already implies the length bound
   (<= 90 characters) under which the finite sweep (90 positions x 31 error values) was run; note
   that both constants 1 and 0x2bc830a3 are accepted by Decode, so the sweep also excludes the
   syndrome 1 xor 0x2bc830a3 (a bech32 string cannot turn into a valid bech32m string either). *)
Theorem bech32_detects_single_substitution :
  forall (h pre : list Z) (c : Z) (post : list Z) (c' : Z) (r : Z * list Z * list Z),
  ~ In 49 (pre ++ c :: post) ->
  bech32_decode (h ++ 49 :: pre ++ c :: post) = Some r ->
  c' <> 49 -> bech32_rev c' <> bech32_rev c ->
  bech32_decode (h ++ 49 :: pre ++ c' :: post) = None.
Proof. exact bech32_detects_single_substitution_l. Qed.
Print Assumptions bech32_detects_single_substitution.

(* ---------------------------------------------------------------------------------------- *)
(* value.h: bech32enc / bech32menc followed by bech32dec gives the data back (witness-version symbol
   1, encoding and hrp reported), provided the string fits in 90 characters:
   |hrp| + 1 (separator) + 1 (version) + ceil(8|data|/5) + 6 (checksum) <= 90,
   i.e. at most 48 bytes for the default hrp "bcrt" *)
Theorem value_bech32_roundtrip : forall (m : bool) (hrp data : list Z),
  hrp <> [] -> Forall (fun c => 33 <= c <= 126 /\ ~ (65 <= c <= 90)) hrp -> bytes_ok data ->
  Z.of_nat (length hrp) + 8 + (8 * Z.of_nat (length data) + 4) / 5 <= 90 ->
  value_bech32_dec_full (value_bech32_enc m hrp data) = B32Data true (if m then 2 else 1) hrp 1 data.
Proof. exact value_bech32_roundtrip_l. Qed.
Print Assumptions value_bech32_roundtrip.

Theorem value_bech32_dec_roundtrip : forall (m : bool) (hrp data : list Z),
  hrp <> [] -> Forall (fun c => 33 <= c <= 126 /\ ~ (65 <= c <= 90)) hrp -> bytes_ok data ->
  Z.of_nat (length hrp) + 8 + (8 * Z.of_nat (length data) + 4) / 5 <= 90 ->
  value_bech32_dec (value_bech32_enc m hrp data) = Some data.
Proof. exact value_bech32_dec_roundtrip_l. Qed.
Print Assumptions value_bech32_dec_roundtrip.
