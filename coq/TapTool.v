(* Model of the tap tool's script-tree construction, proofs and control block (tap.cpp:53-99, 283-413),
   generic in the node-hash function; instantiated with the BIP341 tagged hashes below. *)
From BV Require Import Base ScriptNum Script Session Codecs Hashes.
From BV.Gen Require Import Consts.
Local Open Scope Z_scope.

Section Tree.
Variable hash : Type.
Variable Hs : hash -> hash -> hash.            (* TapBranch hash of two child hashes (the C++ sorts them first) *)

(* leaves carry their index (the C++ compares node pointers) *)
Inductive tree := Leaf (i : nat) (h : hash) | Node (l r : tree).

Fixpoint root (t : tree) : hash :=
  match t with Leaf _ h => h | Node l r => Hs (root l) (root r) end.
Fixpoint has (t : tree) (i : nat) : bool :=
  match t with Leaf j _ => Nat.eqb i j | Node l r => has l i || has r i end.
(* TapBranch::Prove walking up from the leaf: sibling hashes, leaf level first *)
Fixpoint prove (t : tree) (i : nat) : list hash :=
  match t with
  | Leaf _ _ => []
  | Node l r => if has l i then prove l i ++ [root r] else prove r i ++ [root l]
  end.
Fixpoint leafhash (t : tree) (i : nat) : option hash :=
  match t with
  | Leaf j h => if Nat.eqb i j then Some h else None
  | Node l r => if has l i then leafhash l i else leafhash r i
  end.
Fixpoint leaves (t : tree) : list (nat * hash) :=
  match t with Leaf i h => [(i, h)] | Node l r => leaves l ++ leaves r end.
Fixpoint depth (t : tree) (i : nat) : nat :=
  match t with Leaf _ _ => O | Node l r => S (if has l i then depth l i else depth r i) end.

Fixpoint height (t : tree) : nat :=
  match t with Leaf _ _ => O | Node l r => S (Nat.max (height l) (height r)) end.

(* the verifier's fold (TaprootCommitmentEnv::Iterate / ComputeTaprootMerkleRoot) *)
Definition verify (k : hash) (path : list hash) : hash := fold_left Hs path k.

(* main(): consecutive leaves are paired; an odd last leaf is joined to the right-most pair *)
Fixpoint pair_leaves (ls : list tree) : list tree * option tree :=
  match ls with
  | a :: b :: r => let '(ps, pend) := pair_leaves r in (Node a b :: ps, pend)
  | [a] => ([], Some a)
  | [] => ([], None)
  end.
Definition initial_branches (ls : list tree) : list tree :=
  match pair_leaves ls with
  | (ps, None) => ps
  | (ps, Some p) => match ps with
                    | [] => [p]
                    | _ => removelast ps ++ [Node (last ps p) p]
                    end
  end.
(* one pass of the merge loop: adjacent pairs, an odd element stays *)
Fixpoint pair_up (l : list tree) : list tree :=
  match l with a :: b :: r => Node a b :: pair_up r | _ => l end.
Fixpoint merge_all (fuel : nat) (l : list tree) : list tree :=
  match fuel with
  | O => l
  | S f => match l with _ :: _ :: _ => merge_all f (pair_up l) | _ => l end
  end.
Definition build (hs : list hash) : option tree :=
  let ls := map (fun '(i, h) => Leaf i h) (combine (seq 0 (length hs)) hs) in
  match merge_all (length hs) (initial_branches ls) with
  | [t] => Some t
  | _ => None
  end.
End Tree.
Arguments Leaf {hash} _ _. Arguments Node {hash} _ _.

(* ------------------------------------------------------------ BIP341 instantiation *)
Definition TAG_TAPTWEAK : bytes := [84; 97; 112; 84; 119; 101; 97; 107].      (* "TapTweak" *)
Definition tap_branch_hash (a b : bytes) : bytes :=
  if lex_lt b a then tagged sha256 TAG_TAPBRANCH (b ++ a) else tagged sha256 TAG_TAPBRANCH (a ++ b).
Definition tap_leaf_hash (script : bytes) : bytes := tapleaf_hash sha256 192 script.
Definition tap_tweak_hash (p root : bytes) : bytes := tagged sha256 TAG_TAPTWEAK (p ++ root).

Record tap_result := {
  tr_root : bytes;
  tr_tweak : bytes;
  tr_output_key : bytes;          (* x coordinate of the tweaked key *)
  tr_even : bool;
  tr_address : list Z;
  tr_control : option bytes       (* when a leaf is selected *)
}.

Section Tool.
(* secp256k1_xonly_pubkey_tweak_add: (internal key, tweak) -> (x of the output key, y is even) ; None = failure *)
Variable xonly_tweak_add : bytes -> bytes -> option (bytes * bool).

Definition tap_run (hrp : list Z) (internal : bytes) (scripts : list bytes) (spend : option nat) : option tap_result :=
  match build bytes (map tap_leaf_hash scripts) with
  | None => None
  | Some t =>
      let r := root bytes tap_branch_hash t in
      let tw := tap_tweak_hash internal r in
      match xonly_tweak_add internal tw with
      | None => None
      | Some (x, even) =>
          Some {| tr_root := r; tr_tweak := tw; tr_output_key := x; tr_even := even;
                  tr_address := value_bech32_enc true hrp x;
                  tr_control := match spend with
                                | None => None
                                | Some i => Some ((if even then 192 else 193) :: internal ++ concat (prove bytes tap_branch_hash t i))
                                end |}
      end
  end.
End Tool.
