(* C14 proofs at the transform level (the codec round trips themselves are in CodecsProofs.v). *)
From Coq Require Import ZifyBool.
From BV Require Import Base BaseProofs ScriptNum Script Value Codecs CodecsProofs CodecsTheorems Hashes Tx TxTheorems Transforms.
From BV.Gen Require Import Consts TfTable.
Local Open Scope Z_scope.
Ltac Zify.zify_post_hook ::= Z.div_mod_to_equations.

Lemma hash256_ok x : length (hash256 x) = 32%nat /\ bytes_ok (hash256 x).
Proof. split. apply hash256_length. apply hash256_bytes. Qed.

(* base58check: decode after encode returns the payload (payloads up to 200 bytes, as the transform allows) *)
Theorem tf_base58chk_roundtrip d : bytes_ok d -> (length d <= 200)%nat ->
  forall s, m_base58chkenc (VData d) = TOk [] (VString s) -> m_base58chkdec (VString s) = TOk [] (VData d).
Proof.
  intros Hok Hl s H. unfold m_base58chkenc in H. inversion H; subst. unfold m_base58chkdec, value_base58chk_dec. cbn [dv value_data_value].
  rewrite (base58check_roundtrip hash256 d 200 hash256_ok Hok Hl). reflexivity.
Qed.

(* bech32 / bech32m with the default prefix: decode after encode returns the data (up to 48 bytes: the 90-character limit) *)
Theorem tf_bech32_roundtrip (m : bool) d : bytes_ok d -> (length d <= 48)%nat ->
  forall s, m_bech32enc m (VData d) = TOk [] (VString s) ->
  m_bech32dec (VString s) = TOk (BECH32_PRE m default_bech32_hrp) (VData d).
Proof.
  intros Hok Hl s H. unfold m_bech32enc in H. inversion H; subst. unfold m_bech32dec. cbn [dv value_data_value].
  rewrite (value_bech32_roundtrip m default_bech32_hrp d).
  - destruct m; reflexivity.
  - discriminate.
  - repeat constructor; cbn; lia.
  - exact Hok.
  - change (Z.of_nat (length default_bech32_hrp)) with 4. lia.
Qed.

(* P2PKH address <-> scriptPubKey *)
Theorem tf_addr_spk_inverse h : bytes_ok h -> length h = 20%nat ->
  exists addr, m_spk_to_addr (VData (p2pkh_script h)) = TOk [] (VString addr) /\
               m_addr_to_spk (VString addr) = TOk [] (VData (p2pkh_script h)).
Proof.
  intros Hok Hl.
  assert (Hs: p2pkh_script h = [OP_DUP; OP_HASH160; 20] ++ h ++ [OP_EQUALVERIFY; OP_CHECKSIG]).
  { unfold p2pkh_script, push_data, zlen. rewrite Hl. reflexivity. }
  exists (base58check_encode hash256 (0 :: h)). split.
  - unfold m_spk_to_addr. cbn [stale_data]. rewrite Hs.
    destruct h as [|h0 [|h1 [|h2 [|h3 [|h4 [|h5 [|h6 [|h7 [|h8 [|h9 [|h10 [|h11 [|h12 [|h13 [|h14 [|h15 [|h16 [|h17 [|h18 [|h19 [|x r]]]]]]]]]]]]]]]]]]]]]; cbn [length] in Hl; try lia.
    reflexivity.
  - unfold m_addr_to_spk, value_base58chk_dec.
    rewrite (base58check_roundtrip hash256 (0 :: h) 200 hash256_ok).
    + reflexivity.
    + apply bytes_ok_cons. split. lia. exact Hok.
    + cbn [length]. lia.
Qed.

(* modular addition / subtraction in a group of order g *)
Lemma mod_shift x g k : 0 <= x - k * g < g -> x mod g = x - k * g.
Proof. intros H. symmetry. apply (Z.mod_unique x g k (x - k * g)). left; exact H. lia. Qed.

Lemma uadd_mod a b g : 0 <= a < g -> 0 <= b < g -> g < two256 -> uadd a b g = (a + b) mod g.
Proof.
  intros Ha Hb Hg. unfold uadd, two256 in *. set (T := 2 ^ 256) in *. assert (HT: 0 < T) by (subst T; apply Z.pow_pos_nonneg; lia).
  replace (g =? 0) with false by lia. cbn [negb andb].
  destruct (Z.lt_ge_cases (a + b) T) as [Hlt|Hge].
  - rewrite (Z.mod_small (a + b) T) by lia.
    destruct (Z.leb_spec g (a + b)); cbn [orb].
    + rewrite (Z.mod_small (a + b - g) T) by lia. rewrite (mod_shift (a + b) g 1) by lia. lia.
    + replace (a + b <? a) with false by lia. rewrite (Z.mod_small (a + b) g) by lia. reflexivity.
  - rewrite (mod_shift (a + b) T 1) by lia.
    replace ((g <=? a + b - 1 * T) || (a + b - 1 * T <? a)) with true by lia.
    rewrite (mod_shift (a + b - 1 * T - g) T (-1)) by lia. rewrite (mod_shift (a + b) g 1) by lia. lia.
Qed.

Theorem tf_add_mod a b g : 0 <= a < g -> 0 <= b < g -> g < two256 -> uadd a b g = (a + b) mod g.
Proof. exact (uadd_mod a b g). Qed.

Theorem tf_sub_mod a b g : 0 <= a < g -> 0 <= b < g -> g < two256 -> uadd a ((g - b) mod two256) g = (a - b) mod g.
Proof.
  intros Ha Hb Hg. unfold two256 in *.
  destruct (Z.eq_dec b 0) as [->|Hb0].
  - rewrite Z.sub_0_r. rewrite (Z.mod_small g) by lia.
    unfold uadd, two256. set (T := 2 ^ 256) in *. assert (HT: 0 < T) by (subst T; apply Z.pow_pos_nonneg; lia).
    replace (g =? 0) with false by lia. cbn [negb andb]. rewrite (Z.mod_small (a - 0) g) by lia.
    destruct (Z.lt_ge_cases (a + g) T) as [Hlt|Hge].
    + rewrite (Z.mod_small (a + g) T) by lia. replace (g <=? a + g) with true by lia. cbn [orb].
      replace (a + g - g) with a by lia. rewrite Z.mod_small by lia. lia.
    + rewrite (mod_shift (a + g) T 1) by lia.
      replace ((g <=? a + g - 1 * T) || (a + g - 1 * T <? a)) with true by lia.
      rewrite (mod_shift (a + g - 1 * T - g) T (-1)) by lia. lia.
  - rewrite (Z.mod_small (g - b)) by lia. rewrite uadd_mod by (unfold two256; lia).
    destruct (Z.lt_ge_cases a b).
    + rewrite (Z.mod_small (a + (g - b)) g) by lia. rewrite (mod_shift (a - b) g (-1)) by lia. lia.
    + rewrite (mod_shift (a + (g - b)) g 1) by lia. rewrite (Z.mod_small (a - b) g) by lia. lia.
Qed.

(* without a group: plain 256-bit wrap-around *)
Theorem tf_add_nogroup a b : uadd a b 0 = (a + b) mod two256.
Proof. reflexivity. Qed.

(* compact-size prefix = the transaction codec's WriteCompactSize; length transform; hex / int are the C18 codec *)
Theorem tf_compact_prefix n : 0 <= n -> compact_prefix n = write_compact_size n.
Proof.
  intros Hn. unfold compact_prefix, write_compact_size.
  repeat match goal with |- context [if ?b then _ else _] => destruct b eqn:? end; try reflexivity; try lia.
Qed.

Theorem tf_len v : m_len v = TOk [] (VInt (zlen (value_data_value v))). Proof. reflexivity. Qed.
Theorem tf_hex_int i d : hex_str (VInt i) = hexstr (sn_serialize i) /\ int_value (VData d) = sn_ctor d false 4.
Proof. split; reflexivity. Qed.

(* the hash transforms are the same functions the script opcodes use (Hashes.v) *)
Theorem tf_hashes v :
  m_sha256 v = TOk [] (VData (sha256 (dv v))) /\ m_ripemd160 v = TOk [] (VData (ripemd160 (dv v))) /\
  m_hash256 v = TOk [] (VData (sha256 (sha256 (dv v)))) /\ m_hash160 v = TOk [] (VData (ripemd160 (sha256 (dv v)))).
Proof. repeat split. Qed.

(* Jacobi symbol: result in {-1,0,1}; checked against Euler's criterion for every n below every odd prime up to 61 *)
Definition euler (n p : Z) : Z := let r := Z.pow n ((p - 1) / 2) mod p in if r =? p - 1 then -1 else r.
Definition small_primes : list Z := [3; 5; 7; 11; 13; 17; 19; 23; 29; 31; 37; 41; 43; 47; 53; 59; 61].
Definition jacobi_sweep : bool :=
  forallb (fun p => forallb (fun n => match jacobi n p with Some j => j =? euler n p | None => false end)
                            (map Z.of_nat (seq 0 (Z.to_nat p)))) small_primes.
Theorem tf_jacobi_small_primes : jacobi_sweep = true.
Proof. vm_compute. reflexivity. Qed.

(* inline form = command form: both name tables lead to the same Value method; the tf names that have no inline
   twin are listed explicitly *)
Definition tf_method (name : str) : option str :=
  match assoc_s tf_table name with
  | Some w => match assoc_s wrapper_methods w with Some m => Some m | None => Some w end   (* echo / hex / int are their own special forms *)
  | None => None
  end.
Definition has_inline_twin (name : str) : bool :=
  match tf_method name with
  | Some m => existsb (fun '(i, mi) => str_eqb mi m) inline_table || existsb (str_eqb m) [[101;99;104;111]; [104;101;120]; [105;110;116]]
  | None => false
  end.
Definition tf_without_inline : list str := filter (fun n => negb (has_inline_twin n)) (map fst tf_table).
Theorem tf_inline_coverage :
  tf_without_inline = [ [98;101;99;104;51;50;109;45;101;110;99;111;100;101];      (* bech32m-encode *)
                        [108;101;110];                                             (* len *)
                        [118;101;114;105;102;121;45;115;105;103;45;99;111;109;112;97;99;116] ] (* verify-sig-compact *).
Proof. vm_compute. reflexivity. Qed.
