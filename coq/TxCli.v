(* Model of the --tx / --txin argument handling: parse_tx, Instance::parse_transaction (amount list),
   Instance::parse_input_transaction (input selection).  instance.cpp:11-94 *)
From BV Require Import Base Tx.
Local Open Scope Z_scope.

Inductive ptx_res (A : Type) :=
| PtxOk (a : A)
| PtxFail          (* diagnostic + return false *)
| PtxExn.          (* exception from the deserialiser: caught by main, diagnostic, exit 1 *)
Arguments PtxOk {A} _. Arguments PtxFail {A}. Arguments PtxExn {A}.

(* parse_tx: TryHex, UnserializeTransaction, no trailing bytes *)
Definition parse_tx (s : list Z) : ptx_res tx :=
  match parse_hex_spaces s with
  | None => PtxFail
  | Some data =>
      match unser_tx true data with
      | None => PtxExn
      | Some (t, rest) => match rest with [] => PtxOk t | _ => PtxFail end
      end
  end.

(* split at the first ',' or ':' *)
Fixpoint split_sep (s : list Z) (acc : list Z) : list Z * option (Z * list Z) :=
  match s with
  | [] => (rev acc, None)
  | c :: r => if (c =? 44) || (c =? 58) then (rev acc, Some (c, r)) else split_sep r (c :: acc)
  end.

Fixpoint amounts_loop (fuel : nat) (p : list Z) (amounts : list Z) : ptx_res (list Z * list Z) :=
  match fuel with
  | O => PtxFail
  | S f =>
      match split_sep p [] with
      | (_, None) => match amounts with [] => PtxOk ([], p) | _ => PtxFail end    (* no amounts / tx hex missing *)
      | (tok, Some (sep, rest)) =>
          match parse_fixed_point8 tok with
          | None => PtxFail
          | Some a => if sep =? 58 then PtxOk (amounts ++ [a], rest) else amounts_loop f rest (amounts ++ [a])
          end
      end
  end.

Fixpoint pad_amounts (n : nat) (l : list Z) : list Z :=
  match n with
  | O => l
  | S m => match l with [] => 0 :: pad_amounts m [] | a :: r => a :: pad_amounts m r end
  end.

(* Instance::parse_transaction(txdata, true): amounts (padded with 0 to the number of inputs) and the transaction *)
Definition parse_transaction (s : list Z) : ptx_res (list Z * tx) :=
  match amounts_loop (S (length s)) s [] with
  | PtxFail => PtxFail | PtxExn => PtxExn
  | PtxOk (amounts, hexpart) =>
      match parse_tx hexpart with
      | PtxOk t => match tx_vin t with
                   | [] => PtxFail                      (* a spending transaction without inputs is refused *)
                   | _ => PtxOk (pad_amounts (length (tx_vin t)) amounts, t)
                   end
      | PtxFail => PtxFail | PtxExn => PtxExn
      end
  end.

(* Instance::parse_input_transaction: which input of [spend] references [funding_txid]
   (or validation of an explicit selection); returns (txin_index, txin_vout_index) *)
Fixpoint find_input (vin : list txin) (txid : bytes) (i : Z) : option (Z * Z) :=
  match vin with
  | [] => None
  | x :: r => if (if list_eq_dec Z.eq_dec (op_hash (ti_prevout x)) txid then true else false)
              then Some (i, op_n (ti_prevout x)) else find_input r txid (i + 1)
  end.

Definition select_input_raw (spend : tx) (funding_txid : bytes) (select : Z) : option (Z * Z) :=
  if 0 <=? select then
    match nth_error (tx_vin spend) (Z.to_nat select) with
    | None => None                                  (* index out of bounds *)
    | Some x => if (if list_eq_dec Z.eq_dec (op_hash (ti_prevout x)) funding_txid then true else false)
                then Some (select, op_n (ti_prevout x)) else None
    end
  else find_input (tx_vin spend) funding_txid 0.

(* ... and the referenced output must exist in the funding transaction *)
Definition select_input (spend funding : tx) (funding_txid : bytes) (select : Z) : option (Z * Z) :=
  match select_input_raw spend funding_txid select with
  | Some (i, n) => if (0 <=? n) && (n <? Z.of_nat (length (tx_vout funding))) then Some (i, n) else None
  | None => None
  end.
