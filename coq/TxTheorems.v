(* Final statements about the transaction codec model (Tx.v); proofs are in TxProofs.v.
   Every theorem is followed by Print Assumptions (expected: "Closed under the global context"). *)
From BV Require Import Base BaseProofs Tx TxProofs.
Local Open Scope Z_scope.

(* ============================================================================================== *)
(* 1. CompactSize                                                                                  *)

Theorem compact_size_roundtrip : forall n rest,
  0 <= n <= 0x02000000 -> read_compact_size (write_compact_size n ++ rest) = Some (n, rest).
Proof. exact compact_size_complete. Qed.
Print Assumptions compact_size_roundtrip.

Theorem compact_size_canonical : forall b n rest,
  bytes_ok b -> read_compact_size b = Some (n, rest) -> b = write_compact_size n ++ rest.
Proof. intros b n rest Hb H. exact (proj1 (compact_size_sound b n rest Hb H)). Qed.
Print Assumptions compact_size_canonical.

Theorem compact_size_range : forall b n rest,
  bytes_ok b -> read_compact_size b = Some (n, rest) -> 0 <= n <= 0x02000000.
Proof. intros b n rest Hb H. exact (proj2 (compact_size_sound b n rest Hb H)). Qed.
Print Assumptions compact_size_range.

(* ============================================================================================== *)
(* 2. Whatever UnserializeTransaction accepts re-serialises to exactly the bytes consumed.         *)
(*    Literally true for both values of allow_witness, no extra hypothesis needed.                 *)

Theorem tx_roundtrip_bytes : forall aw b t rest,
  bytes_ok b -> unser_tx aw b = Some (t, rest) -> ser_tx aw t ++ rest = b.
Proof. exact tx_roundtrip_bytes_pr. Qed.
Print Assumptions tx_roundtrip_bytes.

(* the parser only produces well-formed values; with witnesses allowed an empty vin implies an
   empty vout, without witnesses allowed no witness data is produced *)
Theorem unser_tx_wf : forall aw b t rest,
  bytes_ok b -> unser_tx aw b = Some (t, rest) ->
  wf_tx t = true /\ (aw = true -> tx_vin t = [] -> tx_vout t = [])
  /\ (aw = false -> tx_has_witness t = false).
Proof. exact unser_tx_wf_pr. Qed.
Print Assumptions unser_tx_wf.

(* accepted inputs are insensitive to what follows them *)
Theorem unser_tx_extend : forall aw b t rest e,
  bytes_ok b -> unser_tx aw b = Some (t, rest) -> unser_tx aw (b ++ e) = Some (t, rest ++ e).
Proof. exact unser_tx_extend_pr. Qed.
Print Assumptions unser_tx_extend.

(* the fuel (= length of the input) used by unser_tx is as good as any larger amount *)
Theorem unser_tx_fuel_enough : forall aw fuel b,
  bytes_ok b -> (length b <= fuel)%nat -> unser_tx_fuel aw fuel b = unser_tx aw b.
Proof. exact unser_tx_fuel_irrelevant. Qed.
Print Assumptions unser_tx_fuel_enough.

(* ============================================================================================== *)
(* 3. Value round trip                                                                             *)

Theorem tx_roundtrip_value : forall t rest,
  wf_tx t = true -> tx_vin t <> [] -> unser_tx true (ser_tx true t ++ rest) = Some (t, rest).
Proof. exact tx_roundtrip_value_pr. Qed.
Print Assumptions tx_roundtrip_value.

(* slightly more general: the only bad case is "no inputs but some outputs" *)
Theorem tx_roundtrip_value_gen : forall t rest,
  wf_tx t = true -> tx_vin t <> [] \/ tx_vout t = [] ->
  unser_tx true (ser_tx true t ++ rest) = Some (t, rest).
Proof. exact tx_roundtrip_value_gen_pr. Qed.
Print Assumptions tx_roundtrip_value_gen.

(* without witness: no condition on vin at all *)
Theorem tx_roundtrip_value_nowit : forall t rest,
  wf_tx t = true -> tx_has_witness t = false ->
  unser_tx false (ser_tx false t ++ rest) = Some (t, rest).
Proof. exact tx_roundtrip_value_nowit_pr. Qed.
Print Assumptions tx_roundtrip_value_nowit.

(* with witness data present, the no-witness codec returns the tx with its witnesses stripped *)
Theorem tx_roundtrip_value_false_strips : forall t rest,
  wf_tx t = true -> unser_tx false (ser_tx false t ++ rest) = Some (strip_witness t, rest).
Proof. exact tx_roundtrip_value_false_strip. Qed.
Print Assumptions tx_roundtrip_value_false_strips.

(* --- tx_vin t = [] with witnesses allowed: the known ambiguity of the format --------------------- *)

(* no inputs and no outputs: fine ("ver 00 00 locktime" is read as dummy + flags = 0) *)
Theorem tx_novin_novout_roundtrip : forall t rest,
  wf_tx t = true -> tx_vin t = [] -> tx_vout t = [] ->
  unser_tx true (ser_tx true t ++ rest) = Some (t, rest).
Proof. intros t rest Hwf _ Hvout. apply tx_roundtrip_value_gen_pr; [assumption|right; assumption]. Qed.
Print Assumptions tx_novin_novout_roundtrip.

(* no inputs but at least one output: NEVER round-trips; whatever is parsed (if anything) has inputs *)
Theorem tx_novin_never_roundtrips : forall t rest t' r',
  wf_tx t = true -> bytes_ok rest -> tx_vin t = [] -> tx_vout t <> [] ->
  unser_tx true (ser_tx true t ++ rest) = Some (t', r') -> tx_vin t' <> [].
Proof. intros t rest t' r'. exact (novin_vout_never_roundtrips t rest t' r'). Qed.
Print Assumptions tx_novin_never_roundtrips.

Definition tx_novin : tx :=
  {| tx_version := 1; tx_vin := []; tx_vout := [ {| to_value := 0; to_spk := [] |} ]; tx_locktime := 0 |}.

(* concrete: rejected outright ("Superfluous witness record") *)
Theorem tx_roundtrip_value_novin_refuted :
  exists t, wf_tx t = true /\ tx_vin t = [] /\ unser_tx true (ser_tx true t) = None.
Proof. exists tx_novin. vm_compute. auto. Qed.
Print Assumptions tx_roundtrip_value_novin_refuted.

(* concrete: a zero-input tx whose serialisation IS ALSO the extended serialisation of a different,
   well-formed one-input segwit tx; the parser returns the latter.  (Confirmed on the C++.) *)
Definition amb_spk : bytes := [160; 161; 162; 163; 164; 165; 166; 167; 168; 169; 170; 171; 172; 173; 174; 175; 176; 177; 178; 179;
   180; 181; 182; 183; 7; 0; 0; 0; 0; 254; 255; 255; 255; 0; 1; 0].
Definition tx_amb : tx :=
  {| tx_version := 1; tx_vin := []; tx_vout := [ {| to_value := 1; to_spk := amb_spk |} ];
     tx_locktime := 287454020 |}.
Definition tx_amb' : tx :=
  {| tx_version := 1;
     tx_vin := [ {| ti_prevout := {| op_hash := [0;0;0;0;0;0;0;36] ++ firstn 24 amb_spk; op_n := 7 |};
                    ti_scriptSig := []; ti_sequence := 4294967294; ti_witness := [ [] ] |} ];
     tx_vout := []; tx_locktime := 287454020 |}.

Theorem tx_novin_ambiguous :
  wf_tx tx_amb = true /\ wf_tx tx_amb' = true /\ tx_amb <> tx_amb'
  /\ ser_tx true tx_amb = ser_tx true tx_amb'
  /\ unser_tx true (ser_tx true tx_amb) = Some (tx_amb', [])
  /\ wtxid_preimage tx_amb = wtxid_preimage tx_amb' /\ txid_preimage tx_amb <> txid_preimage tx_amb'.
Proof. repeat split; try (vm_compute; reflexivity); vm_compute; discriminate. Qed.
Print Assumptions tx_novin_ambiguous.

(* ============================================================================================== *)
(* 4. Truncation                                                                                   *)

Theorem tx_truncation_rejected : forall aw t k,
  wf_tx t = true -> tx_vin t <> [] -> (k < length (ser_tx aw t))%nat ->
  unser_tx aw (firstn k (ser_tx aw t)) = None.
Proof. exact tx_truncation_rejected_pr. Qed.
Print Assumptions tx_truncation_rejected.

Theorem tx_truncation_rejected_gen : forall aw t k,
  wf_tx t = true -> aw = false \/ tx_vin t <> [] \/ tx_vout t = [] ->
  (k < length (ser_tx aw t))%nat -> unser_tx aw (firstn k (ser_tx aw t)) = None.
Proof. exact tx_truncation_gen_pr. Qed.
Print Assumptions tx_truncation_rejected_gen.

(* the hypothesis cannot be dropped: a zero-input tx a strict prefix of whose serialisation is
   accepted with witnesses allowed (as a one-input segwit tx).  (Confirmed on the C++.) *)
Definition tx_amb2 : tx :=
  {| tx_version := 1; tx_vin := [];
     tx_vout := [ {| to_value := 1; to_spk := amb_spk ++ [153; 136; 119; 102] |} ];
     tx_locktime := 287454020 |}.

Theorem tx_truncation_novin_refuted :
  exists t k, wf_tx t = true /\ tx_vin t = [] /\ (k < length (ser_tx true t))%nat
              /\ unser_tx true (firstn k (ser_tx true t)) <> None.
Proof.
  exists tx_amb2, (length (ser_tx true tx_amb2) - 4)%nat.
  repeat split; try (vm_compute; reflexivity). vm_compute. lia. vm_compute. discriminate.
Qed.
Print Assumptions tx_truncation_novin_refuted.

(* ============================================================================================== *)
(* 5. ParseFixedPoint(s, 8, &amount)                                                               *)
(*    digit c = 48 <= c <= 57; canon_int ip = ip is "0" or a digit string not starting with '0';    *)
(*    dec_value = decimal value of a digit string; sign_prefix neg = "-" or "".                     *)

(* at most 8 fractional digits (the requested form) *)
Theorem parse_fixed_point8_exact : forall neg ip fp,
  canon_int ip -> Forall digit fp -> fp <> [] -> (length fp <= 8)%nat ->
  let v := dec_value ip * 10 ^ 8 + dec_value fp * 10 ^ (8 - Z.of_nat (length fp)) in
  parse_fixed_point8 (sign_prefix neg ++ ip ++ 46 :: fp)
  = if v <=? UPPER_BOUND then Some (if neg then - v else v) else None.
Proof. exact parse_fixed_point8_exact_pr. Qed.
Print Assumptions parse_fixed_point8_exact.

(* no fraction *)
Theorem parse_fixed_point8_int : forall neg ip,
  canon_int ip ->
  parse_fixed_point8 (sign_prefix neg ++ ip) =
  if dec_value ip * 10 ^ 8 <=? UPPER_BOUND
  then Some (if neg then - (dec_value ip * 10 ^ 8) else dec_value ip * 10 ^ 8) else None.
Proof. exact parse_fixed_point8_integer. Qed.
Print Assumptions parse_fixed_point8_int.

(* any number of fractional digits: with N = the digits read without the point and k = number of
   fractional digits, the result is N * 10^8 / 10^k if that is an integer <= 10^18 - 1, else failure *)
Theorem parse_fixed_point8_frac : forall neg ip fp,
  canon_int ip -> Forall digit fp -> fp <> [] ->
  parse_fixed_point8 (sign_prefix neg ++ ip ++ 46 :: fp)
  = let N := dec_value (ip ++ fp) in
    let p := 10 ^ Z.of_nat (length fp) in
    if ((N * 10 ^ 8) mod p =? 0) && (N * 10 ^ 8 / p <=? UPPER_BOUND)
    then Some (if neg then - (N * 10 ^ 8 / p) else N * 10 ^ 8 / p) else None.
Proof. exact parse_fixed_point8_general. Qed.
Print Assumptions parse_fixed_point8_frac.

(* more than 8 fractional digits are accepted iff all the digits after the 8th are '0' *)
Theorem parse_fixed_point8_more_digits : forall neg ip f8 ex,
  canon_int ip -> Forall digit f8 -> length f8 = 8%nat -> Forall digit ex ->
  parse_fixed_point8 (sign_prefix neg ++ ip ++ 46 :: f8 ++ ex)
  = if forallb (Z.eqb 48) ex then parse_fixed_point8 (sign_prefix neg ++ ip ++ 46 :: f8) else None.
Proof. exact parse_fixed_point8_extra_digits. Qed.
Print Assumptions parse_fixed_point8_more_digits.

(* superfluous leading zero; '.' without a following digit *)
Theorem parse_fixed_point8_rejects_leading_zero : forall neg d rest,
  digit d -> parse_fixed_point8 (sign_prefix neg ++ 48 :: d :: rest) = None.
Proof. exact parse_fixed_point8_leading_zero. Qed.
Print Assumptions parse_fixed_point8_rejects_leading_zero.

Theorem parse_fixed_point8_rejects_bare_point : forall neg ip rest,
  canon_int ip -> first_is_digit rest = false ->
  parse_fixed_point8 (sign_prefix neg ++ ip ++ 46 :: rest) = None.
Proof. exact parse_fixed_point8_point_needs_digit. Qed.
Print Assumptions parse_fixed_point8_rejects_bare_point.

(* concrete strings (ASCII), all cross-checked against the C++ *)
Example fp_ex0 : parse_fixed_point8 [48] (* "0" *) = Some 0.
Proof. vm_compute. reflexivity. Qed.
Example fp_ex1 : parse_fixed_point8 [45; 48] (* "-0" *) = Some 0.
Proof. vm_compute. reflexivity. Qed.
Example fp_ex2 : parse_fixed_point8 [49] (* "1" *) = Some 100000000.
Proof. vm_compute. reflexivity. Qed.
Example fp_ex3 : parse_fixed_point8 [48; 46; 48; 48; 48; 48; 48; 48; 48; 49] (* "0.00000001" *) = Some 1.
Proof. vm_compute. reflexivity. Qed.
Example fp_ex4 : parse_fixed_point8 [45; 48; 46; 48; 48; 48; 48; 48; 48; 48; 49] (* "-0.00000001" *) = Some (-1).
Proof. vm_compute. reflexivity. Qed.
Example fp_ex5 : parse_fixed_point8 [49; 46; 49] (* "1.1" *) = Some 110000000.
Proof. vm_compute. reflexivity. Qed.
Example fp_ex6 : parse_fixed_point8 [49; 46; 49; 48; 48; 48; 48; 48; 48; 48; 48] (* "1.100000000" *) = Some 110000000.
Proof. vm_compute. reflexivity. Qed.
Example fp_ex7 : parse_fixed_point8 [49; 46; 48; 48; 48; 48; 48; 48; 48; 48; 49] (* "1.000000001" *) = None.
Proof. vm_compute. reflexivity. Qed.
Example fp_ex8 : parse_fixed_point8 [48; 46; 48; 48; 48; 48; 48; 48; 48; 48; 48] (* "0.000000000" *) = Some 0.
Proof. vm_compute. reflexivity. Qed.
Example fp_ex9 : parse_fixed_point8 [57; 57; 57; 57; 57; 57; 57; 57; 57; 57; 46; 57; 57; 57; 57; 57; 57; 57; 57] (* "9999999999.99999999" *) = Some 999999999999999999.
Proof. vm_compute. reflexivity. Qed.
Example fp_ex10 : parse_fixed_point8 [49; 48; 48; 48; 48; 48; 48; 48; 48; 48; 48] (* "10000000000" *) = None.
Proof. vm_compute. reflexivity. Qed.
Example fp_ex11 : parse_fixed_point8 [49; 48; 48; 48; 48; 48; 48; 48; 48; 48; 48; 46; 48] (* "10000000000.0" *) = None.
Proof. vm_compute. reflexivity. Qed.
Example fp_ex12 : parse_fixed_point8 [49; 101; 45; 56] (* "1e-8" *) = Some 1.
Proof. vm_compute. reflexivity. Qed.
Example fp_ex13 : parse_fixed_point8 [49; 101; 45; 57] (* "1e-9" *) = None.
Proof. vm_compute. reflexivity. Qed.
Example fp_ex14 : parse_fixed_point8 [48; 101; 45; 57] (* "0e-9" *) = None.
Proof. vm_compute. reflexivity. Qed.
Example fp_ex15 : parse_fixed_point8 [49; 46; 53; 101; 51] (* "1.5e3" *) = Some 150000000000.
Proof. vm_compute. reflexivity. Qed.
Example fp_ex16 : parse_fixed_point8 [49; 69; 43; 50] (* "1E+2" *) = Some 10000000000.
Proof. vm_compute. reflexivity. Qed.
Example fp_ex17 : parse_fixed_point8 [49; 101; 57] (* "1e9" *) = Some 100000000000000000.
Proof. vm_compute. reflexivity. Qed.
Example fp_ex18 : parse_fixed_point8 [49; 101; 49; 48] (* "1e10" *) = None.
Proof. vm_compute. reflexivity. Qed.
Example fp_ex19 : parse_fixed_point8 [48; 101; 49; 48] (* "0e10" *) = None.
Proof. vm_compute. reflexivity. Qed.
Example fp_ex20 : parse_fixed_point8 [] (* "" *) = None.
Proof. vm_compute. reflexivity. Qed.
Example fp_ex21 : parse_fixed_point8 [45] (* "-" *) = None.
Proof. vm_compute. reflexivity. Qed.
Example fp_ex22 : parse_fixed_point8 [48; 49] (* "01" *) = None.
Proof. vm_compute. reflexivity. Qed.
Example fp_ex23 : parse_fixed_point8 [49; 46] (* "1." *) = None.
Proof. vm_compute. reflexivity. Qed.
Example fp_ex24 : parse_fixed_point8 [46; 53] (* ".5" *) = None.
Proof. vm_compute. reflexivity. Qed.
Example fp_ex25 : parse_fixed_point8 [43; 49] (* "+1" *) = None.
Proof. vm_compute. reflexivity. Qed.
Example fp_ex26 : parse_fixed_point8 [49; 101] (* "1e" *) = None.
Proof. vm_compute. reflexivity. Qed.
Example fp_ex27 : parse_fixed_point8 [49; 32] (* "1 " *) = None.
Proof. vm_compute. reflexivity. Qed.
Example fp_ex28 : parse_fixed_point8 [32; 49] (* " 1" *) = None.
Proof. vm_compute. reflexivity. Qed.
Example fp_ex29 : parse_fixed_point8 [49; 44] (* "1," *) = None.
Proof. vm_compute. reflexivity. Qed.

(* ============================================================================================== *)
(* 6. TryHex                                                                                       *)

Theorem parse_hex_hexstr : forall b, bytes_ok b -> parse_hex_spaces (hexstr b) = Some b.
Proof. exact parse_hex_hexstr_pr. Qed.
Print Assumptions parse_hex_hexstr.

Theorem parse_hex_skips_space : forall c s,
  is_space c = true -> parse_hex_spaces (c :: s) = parse_hex_spaces s.
Proof. exact parse_hex_space_pr. Qed.
Print Assumptions parse_hex_skips_space.

(* a stray character (not hex, not white space, not NUL) after any number of complete bytes makes
   the WHOLE parse fail (TryHex returns false, parse_tx prints "failed to parse tx hex string") *)
Theorem parse_hex_stray_fails : forall b c rest,
  bytes_ok b -> hex_digit c = None -> is_space c = false -> c <> 0 ->
  parse_hex_spaces (hexstr b ++ c :: rest) = None.
Proof. exact parse_hex_stray_pr. Qed.
Print Assumptions parse_hex_stray_fails.

Example hex_ex0 : parse_hex_spaces [48; 48; 32; 102; 102] (* '00 ff' *) = Some [0; 255].
Proof. vm_compute. reflexivity. Qed.
Example hex_ex1 : parse_hex_spaces [48; 48; 102; 102; 32; 9; 10] (* '00ff \t\n' *) = Some [0; 255].
Proof. vm_compute. reflexivity. Qed.
Example hex_ex2 : parse_hex_spaces [48; 32; 48] (* '0 0' *) = None.
Proof. vm_compute. reflexivity. Qed.
Example hex_ex3 : parse_hex_spaces [48; 48; 120] (* '00x' *) = None.
Proof. vm_compute. reflexivity. Qed.
Example hex_ex4 : parse_hex_spaces [48; 48; 58; 49; 49] (* '00:11' *) = None.
Proof. vm_compute. reflexivity. Qed.
Example hex_ex5 : parse_hex_spaces [97; 98; 99] (* 'abc' *) = None.
Proof. vm_compute. reflexivity. Qed.
Example hex_ex6 : parse_hex_spaces [] (* '' *) = Some [].
Proof. vm_compute. reflexivity. Qed.
Example hex_ex7 : parse_hex_spaces [32; 32] (* '  ' *) = Some [].
Proof. vm_compute. reflexivity. Qed.
Example hex_ex8 : parse_hex_spaces [122; 122] (* 'zz' *) = None.
Proof. vm_compute. reflexivity. Qed.
Example hex_ex9 : parse_hex_spaces [65; 98; 67; 100] (* 'AbCd' *) = Some [171; 205].
Proof. vm_compute. reflexivity. Qed.

(* ============================================================================================== *)
(* 7. Non-vacuity: real transactions from /repo/doc/txs                                            *)

(* doc/txs/p2pkh-tx : legacy, 1 input, 3 outputs *)
Definition legacy_bytes : bytes := 
  [2; 0; 0; 0; 1; 2; 172; 74; 230; 251; 205; 43; 59; 122; 70; 68; 84; 105; 27; 25; 230; 111; 23; 78;
   234; 60; 201; 108; 114; 109; 202; 206; 238; 134; 78; 196; 205; 2; 0; 0; 0; 138; 71; 48; 68; 2;
   32; 101; 134; 99; 118; 54; 101; 174; 19; 50; 242; 232; 68; 36; 154; 134; 206; 9; 62; 69; 103; 5;
   7; 216; 212; 1; 119; 3; 118; 39; 164; 46; 14; 2; 32; 4; 60; 34; 66; 39; 143; 102; 180; 22; 166;
   18; 150; 8; 109; 148; 191; 97; 144; 106; 40; 42; 18; 189; 99; 82; 127; 243; 168; 173; 63; 158;
   184; 1; 65; 4; 113; 70; 240; 224; 252; 179; 19; 153; 71; 207; 11; 235; 135; 15; 226; 81; 147; 12;
   161; 13; 69; 69; 121; 61; 49; 3; 62; 128; 27; 82; 25; 171; 245; 108; 17; 163; 207; 52; 6; 202;
   89; 14; 76; 20; 176; 218; 183; 73; 210; 8; 98; 179; 173; 196; 112; 145; 83; 194; 128; 194; 167;
   139; 225; 12; 255; 255; 255; 255; 3; 91; 49; 30; 0; 0; 0; 0; 0; 23; 169; 20; 205; 195; 90; 112;
   201; 85; 236; 174; 6; 153; 109; 137; 163; 76; 195; 38; 221; 23; 166; 193; 135; 78; 47; 55; 0; 0;
   0; 0; 0; 23; 169; 20; 241; 113; 21; 145; 9; 14; 115; 165; 119; 55; 241; 255; 130; 173; 252; 192;
   77; 162; 59; 106; 135; 238; 95; 22; 31; 0; 0; 0; 0; 25; 118; 169; 20; 67; 132; 147; 131; 18; 46;
   187; 138; 40; 38; 138; 137; 112; 12; 159; 114; 54; 99; 181; 184; 136; 172; 0; 0; 0; 0].
Definition legacy_tx : tx :=
  Eval vm_compute in match unser_tx true legacy_bytes with Some (t, _) => t | None => tx_novin end.

Example legacy_parse : unser_tx true legacy_bytes = Some (legacy_tx, []).
Proof. vm_compute. reflexivity. Qed.
Example legacy_fields :
  tx_version legacy_tx = 2 /\ tx_locktime legacy_tx = 0 /\ tx_has_witness legacy_tx = false
  /\ map (fun i => (op_n (ti_prevout i), zlen (ti_scriptSig i), ti_sequence i)) (tx_vin legacy_tx)
     = [(2, 138, 4294967295)]
  /\ map (fun o => (to_value o, zlen (to_spk o))) (tx_vout legacy_tx)
     = [(1978715, 23); (3616590, 23); (521560046, 25)]
  /\ wf_tx legacy_tx = true.
Proof. vm_compute. repeat split; reflexivity. Qed.
Example legacy_roundtrip :
  ser_tx true legacy_tx = legacy_bytes /\ ser_tx false legacy_tx = legacy_bytes
  /\ unser_tx false legacy_bytes = Some (legacy_tx, [])
  /\ txid_preimage legacy_tx = wtxid_preimage legacy_tx.
Proof. vm_compute. repeat split; reflexivity. Qed.
Example legacy_truncated : unser_tx true (firstn 200 legacy_bytes) = None.
Proof. vm_compute. reflexivity. Qed.

(* doc/txs/p2sh-p2wpkh-tx : segwit (extended format), 1 input with a 2-item witness, 1 output *)
Definition segwit_bytes : bytes := 
  [2; 0; 0; 0; 0; 1; 1; 64; 212; 58; 153; 146; 109; 67; 235; 14; 97; 155; 240; 179; 216; 59; 74; 49;
   246; 12; 23; 107; 238; 207; 185; 211; 91; 244; 94; 84; 208; 247; 66; 1; 0; 0; 0; 23; 22; 0; 20;
   164; 180; 202; 72; 222; 11; 63; 255; 193; 84; 4; 161; 172; 220; 141; 186; 174; 34; 105; 85; 255;
   255; 255; 255; 1; 0; 225; 245; 5; 0; 0; 0; 0; 23; 169; 20; 74; 17; 84; 213; 11; 3; 41; 43; 48;
   36; 55; 9; 1; 113; 25; 70; 203; 124; 204; 195; 135; 2; 72; 48; 69; 2; 33; 0; 134; 4; 239; 143;
   109; 138; 250; 137; 45; 238; 15; 49; 37; 155; 108; 224; 45; 215; 12; 84; 92; 252; 254; 216; 20;
   129; 121; 151; 24; 118; 197; 74; 2; 32; 118; 215; 113; 214; 233; 27; 237; 33; 39; 131; 201; 176;
   110; 13; 230; 0; 250; 178; 213; 24; 250; 214; 241; 90; 43; 25; 29; 127; 189; 38; 42; 62; 1; 33;
   3; 157; 37; 171; 121; 244; 31; 117; 206; 175; 136; 36; 17; 253; 65; 250; 103; 10; 76; 103; 44;
   35; 255; 175; 14; 54; 26; 150; 156; 222; 6; 146; 232; 0; 0; 0; 0].
Definition segwit_tx : tx :=
  Eval vm_compute in match unser_tx true segwit_bytes with Some (t, _) => t | None => tx_novin end.

Example segwit_parse : unser_tx true segwit_bytes = Some (segwit_tx, []).
Proof. vm_compute. reflexivity. Qed.
Example segwit_fields :
  tx_version segwit_tx = 2 /\ tx_locktime segwit_tx = 0 /\ tx_has_witness segwit_tx = true
  /\ map (fun i => (op_n (ti_prevout i), zlen (ti_scriptSig i), ti_sequence i,
                    map zlen (ti_witness i))) (tx_vin segwit_tx)
     = [(1, 23, 4294967295, [72; 33])]
  /\ map (fun o => (to_value o, zlen (to_spk o))) (tx_vout segwit_tx) = [(100000000, 23)]
  /\ wf_tx segwit_tx = true.
Proof. vm_compute. repeat split; reflexivity. Qed.
Example segwit_roundtrip :
  ser_tx true segwit_tx = segwit_bytes
  /\ wtxid_preimage segwit_tx = segwit_bytes
  /\ zlen (txid_preimage segwit_tx) = zlen segwit_bytes - 2 - (1 + 1 + 72 + 1 + 33)
  /\ unser_tx false (txid_preimage segwit_tx) = Some (strip_witness segwit_tx, [])
  /\ unser_tx true (txid_preimage segwit_tx) = Some (strip_witness segwit_tx, []).
Proof. vm_compute. repeat split; reflexivity. Qed.
(* the extended format read with witnesses disallowed: vin = [] then a bogus vout -> rejected here *)
Example segwit_no_witness_allowed : unser_tx false segwit_bytes = None.
Proof. vm_compute. reflexivity. Qed.
Example segwit_trailing_bytes_returned :
  unser_tx true (segwit_bytes ++ [1; 2; 3]) = Some (segwit_tx, [1; 2; 3]).
Proof. vm_compute. reflexivity. Qed.

(* malformed inputs (each cross-checked against the C++ exception) *)
(* flags = 1 but all witness stacks empty: "Superfluous witness record" *)
Example bad_superfluous :
  unser_tx true ([1;0;0;0; 0; 1; 1] ++ repeat 0 32 ++ [0;0;0;0; 0; 255;255;255;255; 0; 0; 0;0;0;0]) = None.
Proof. vm_compute. reflexivity. Qed.
(* flags = 2: "Unknown transaction optional data" *)
Example bad_unknown_flag :
  unser_tx true ([1;0;0;0; 0; 2; 1] ++ repeat 0 32 ++ [0;0;0;0; 0; 255;255;255;255; 0; 0;0;0;0]) = None.
Proof. vm_compute. reflexivity. Qed.
(* the same bytes with flags = 1 and a non-empty witness are fine *)
Example good_minimal_segwit :
  exists t, unser_tx true ([1;0;0;0; 0; 1; 1] ++ repeat 0 32 ++ [0;0;0;0; 0; 255;255;255;255; 0; 1; 0; 0;0;0;0])
            = Some (t, []) /\ map ti_witness (tx_vin t) = [[[]]].
Proof. eexists. vm_compute. split; reflexivity. Qed.
(* non-canonical CompactSize (253 encoded on 3 bytes is fine, 252 is not); too large; truncated *)
Example cs_examples :
  read_compact_size [253; 252; 0; 9] = None /\ read_compact_size [253; 253; 0; 9] = Some (253, [9])
  /\ read_compact_size [254; 255; 255; 0; 0] = None /\ read_compact_size [254; 0; 0; 0; 2; 9] = Some (33554432, [9])
  /\ read_compact_size [254; 1; 0; 0; 2] = None /\ read_compact_size [255; 0;0;0;0; 1;0;0;0] = None
  /\ read_compact_size [253; 1] = None /\ read_compact_size [] = None.
Proof. vm_compute. repeat split; reflexivity. Qed.
