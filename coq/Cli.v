(* Model of btcdeb's command-line layer (btcdeb.cpp main, functions.cpp printers):
     - svf_parse_flags / svf_string / --default-flags                              (C09)
     - the non-interactive run: script + stack arguments -> final stack on stdout   (C08)
     - the script listing and the position marker                                   (C12)
   Process-level facts (isatty, getopt, stdio) are not modelled; the functions take the already
   separated option values. *)
From BV Require Import Base ScriptNum Script Interp Session Value Transforms Der Hashes.
From BV.Gen Require Import Consts OpNames CliTables.
Local Open Scope Z_scope.

(* ------------------------------------------------------------ verification flags *)
Fixpoint split_commas (s : str) (cur : str) : list str :=
  match s with
  | [] => [rev cur]
  | c :: r => if c =? 44 then rev cur :: split_commas r [] else split_commas r (c :: cur)
  end.

Definition svf_get_flag (name : str) : Z :=
  match assoc_s svf_table name with Some f => f | None => 0 end.

(* svf_parse_flags: None = diagnostic + exit(1) *)
Fixpoint svf_apply (toks : list str) (flags : Z) : option Z :=
  match toks with
  | [] => Some flags
  | t :: r =>
      if negb svf_buf_bounded && (svf_buf_size <=? zlen t) then None          (* would overflow buf: modelled as failure *)
      else if svf_buf_size <=? zlen t then None                               (* name too long *)
      else match t with
           | sign :: name =>
               if (sign =? 43) || (sign =? 45) then
                 let f := svf_get_flag name in
                 if f =? 0 then None
                 else svf_apply r (if sign =? 43 then Z.lor flags f else Z.land flags (Z.lnot f))
               else None
           | [] => None
           end
  end.
Definition svf_parse_flags (in_flags : Z) (mod_ : str) : option Z := svf_apply (split_commas mod_ []) in_flags.

(* svf_string(flags, sep): names of the set flags in table order *)
Definition svf_names (flags : Z) : list str :=
  map fst (filter (fun '(_, f) => negb (Z.land flags f =? 0)) svf_table).

(* ------------------------------------------------------------ non-interactive run *)
Definition error_string (e : Z) : str :=
  match assoc_z error_strings e with Some s => s | None => error_string_default end.

Definition print_stack_raw (st : list bytes) : str :=          (* st: top first; output: bottom first, one per line *)
  concat (map (fun it => hexstr it ++ [10]) (rev st)).

Inductive cli_out :=
| CliOk (stdout : str)                      (* exit 0 *)
| CliFail (stderr_msg : str)                (* exit 1; the message that must appear on stderr *)
| CliAbort.                                 (* abnormal termination *)

Definition MSG_INVALID_SCRIPT : str := [105;110;118;97;108;105;100;32;115;99;114;105;112;116].   (* "invalid script" *)
Definition MSG_ERROR : str := [101;114;114;111;114;58;32].                                         (* "error: " *)
Definition MSG_EXN : str := [101;114;114;111;114;58;32;101;120;99;101;112;116;105;111;110;32;116;104;114;111;119;110].   (* "error: exception thrown" *)
Definition MSG_INIT : str := [102;97;105;108;101;100;32;116;111;32;105;110;105;116;105;97;108;105;122;101].               (* "failed to initialize" *)

Fixpoint args_data (args : list str) (acc : list bytes) : parse_res (list bytes) :=
  match args with
  | [] => POk acc                                  (* acc: top first *)
  | a :: r => match arg_data do_exec a with
              | POk d => args_data r (d :: acc)
              | PExit1 => PExit1 | PAbort => PAbort
              end
  end.

Section Run.
Variable chk : checker.
Definition base_hashes : hashes := {| h_sha256 := sha256; h_ripemd160 := ripemd160; h_sha1 := sha1 |}.

(* main() in non-interactive mode for a plain script + stack arguments (no --tx) *)
Definition main_noninteractive (script_str : option str) (args : list str) (flag_mod : option str) (allow_disabled : bool) : cli_out :=
  match (match flag_mod with None => Some main_initial_flags | Some m => svf_parse_flags main_initial_flags m end) with
  | None => CliFail []
  | Some flags =>
    let scr_res := match script_str with None => POk [] | Some s => arg_data do_exec s end in
    match scr_res with
    | PExit1 => CliFail [] | PAbort => CliAbort
    | POk scr =>
      if (match script_str with None => false | Some _ => negb (has_valid_ops scr) end) then CliFail MSG_INVALID_SCRIPT
      else match args_data args [] with
      | PExit1 => CliFail [] | PAbort => CliAbort
      | POk stack =>
        let c := {| c_flags := flags; c_sigver := SV_BASE; c_allow_disabled := allow_disabled; c_pv_map := []; c_pv_keys := [];
                    c_chk := chk; c_hash := base_hashes |} in
        let v := setup_env c scr stack [] init_execdata None in
        if negb (i_operational v) then CliFail MSG_INIT
        else match dbg_continue low_s_strict (fun _ _ _ _ => false) sha256 (continue_fuel v) c v with
             | (v', SOk) => CliOk (print_stack_raw (e_stack (i_e v')))
             | (v', SErr) => CliFail (MSG_ERROR ++ error_string (e_err (i_e v')))
             | (v', SExn _) => CliFail MSG_EXN
             | (_, SCrash _) => CliAbort
             end
      end
    end
  end.
End Run.

(* ------------------------------------------------------------ script listing and position marker *)
(* one listing line per operation: the pushed data in hex, or the opcode name *)
Definition op_line (op : Z * bytes) : str :=
  let '(opcode, push) := op in
  match push with [] => get_op_name opcode | _ => hexstr push end.

Fixpoint pad4 (n : Z) : str :=         (* "%04d" *)
  let d := dec_string n in
  repeat 48 (4 - length d) ++ d.

Definition numbered (i : Z) (text : str) : str := [35] ++ pad4 i ++ [32] ++ text.     (* "#NNNN text" *)

Definition HDR_SPK : str := [60;60;60;32;115;99;114;105;112;116;80;117;98;75;101;121;32;62;62;62].              (* "<<< scriptPubKey >>>" *)
Definition HDR_P2SH : str := [60;60;60;32;80;50;83;72;32;115;99;114;105;112;116;32;62;62;62].                    (* "<<< P2SH script >>>" *)

(* the sections of the listing, in order: (optional header, script) *)
Definition last_push (s : bytes) : bytes :=
  fold_left (fun acc op => snd op) (decode_ops s) [].

Definition listing_sections (flags : Z) (script : bytes) (is_p2sh : bool) (p2shstack : list bytes) (succ : bytes) : list (option str * bytes) :=
  let first := [(None, script)] in
  let p2sh_a := if is_p2sh then match p2shstack with top :: _ => Some top | [] => None end else None in
  let succ_sec := match succ with [] => [] | _ => [(Some HDR_SPK, succ)] end in
  let p2sh_b := match succ with
                | [] => None
                | _ => if has_flag flags SCRIPT_VERIFY_P2SH && is_p2sh_script succ then Some (last_push script) else None
                end in
  let p2sh_script := match p2sh_b with Some s => Some s | None => p2sh_a end in
  first ++ succ_sec ++ (match p2sh_script with Some s => [(Some HDR_P2SH, s)] | None => [] end).

(* taproot commitment description lines (TaprootCommitmentEnv::Description), before the script sections *)
Definition uint256_str (b : bytes) : str := hexstr (rev b).       (* uint256::ToString prints the bytes reversed *)
Definition TXT_BRANCH : str := [66;114;97;110;99;104;58;32].                                   (* "Branch: " *)
Definition TXT_TWEAK : str := [67;104;101;99;107;84;97;112;84;119;101;97;107;58;32].          (* "CheckTapTweak: " *)
Fixpoint branch_lines (n : nat) (nodes : bytes) : list str :=
  match n with
  | O => []
  | S m => (TXT_BRANCH ++ hexstr (firstn 32 nodes)) :: branch_lines m (skipn 32 nodes)
  end.
Definition tce_description (t : tce) : list str :=
  branch_lines (Z.to_nat (t_path_len t)) (skipn 33 (t_control t))
  ++ [TXT_TWEAK ++ hexstr (firstn 32 (skipn 1 (t_control t)))].      (* XOnlyPubKey::ToString: the key bytes as they are *)

(* script_lines as built by main() *)
Fixpoint number_from (i : Z) (texts : list (bool * str)) : list str :=
  (* (true, t) = numbered operation line, (false, t) = header line; both occupy one index *)
  match texts with
  | [] => []
  | (true, t) :: r => numbered i t :: number_from (i + 1) r
  | (false, t) :: r => t :: number_from (i + 1) r
  end.

Definition listing (sigver : Z) (tce_lines : list str) (secs : list (option str * bytes)) : list str :=
  let pre := if sigver =? SV_TAPSCRIPT then map (fun s => (true, s)) tce_lines else [] in
  let body := concat (map (fun '(h, s) => (match h with Some t => [(false, t)] | None => [] end) ++ map (fun op => (true, op_line op)) (decode_ops s)) secs) in
  number_from 0 (pre ++ body).

Definition session_listing (c : cfg) (v : ienv) : list str :=
  listing (c_sigver c) (match i_tce v with Some t => tce_description t | None => [] end)
          (listing_sections (c_flags c) (e_script (i_e v)) (i_p2sh v) (i_p2shstack v) (i_succ v)).

(* fn_print: the marker is on line curr_op_seq *)
Definition marked_line (lines : list str) (seq : Z) : option str :=
  if (0 <=? seq) && (seq <? Z.of_nat (length lines)) then nth_error lines (Z.to_nat seq) else None.
