(* CPubKey::CheckLowS on a strictly DER-encoded signature body (the caller has already run
   IsValidSignatureEncoding): parse R and S, overflow (>= group order) resets the signature to zero,
   then "S is low" means S <= n/2.  pubkey.cpp:404 with ecdsa_signature_parse_der_lax and
   secp256k1_ecdsa_signature_normalize. *)
From BV Require Import Base.
Local Open Scope Z_scope.

Definition SECP256K1_N : Z := 115792089237316195423570985008687907852837564279074904382605163141518161494337.
Definition SECP256K1_HALF_N : Z := 57896044618658097711785492504343953926418782139537452191302581570759080747168.

Fixpoint be_value (l : bytes) (acc : Z) : Z :=
  match l with [] => acc | b :: r => be_value r (256 * acc + b) end.

(* der = 0x30 len 0x02 lenR R 0x02 lenS S   (hash-type byte already removed) *)
Definition der_r_s (der : bytes) : option (Z * Z) :=
  match der with
  | _ :: _ :: _ :: lenR :: rest =>
      let r := firstn (Z.to_nat lenR) rest in
      match skipn (Z.to_nat lenR) rest with
      | _ :: lenS :: rest2 => Some (be_value r 0, be_value (firstn (Z.to_nat lenS) rest2) 0)
      | _ => None
      end
  | _ => None
  end.

Definition low_s_strict (der : bytes) : bool :=
  match der_r_s der with
  | None => false
  | Some (r, s) => if (SECP256K1_N <=? r) || (SECP256K1_N <=? s) then true else s <=? SECP256K1_HALF_N
  end.
