(* The set-up rules of a spend session that are not script operations: the BIP16 push-only rule on the scriptSig and the BIP141/342 limits on the
   initial witness stack (C03 / C10). *)
From Coq Require Import Lia ZifyBool.
From BV Require Import Base Script Interp Session Configure SessionProofs.
From BV.Gen Require Import Consts Sites.
Local Open Scope Z_scope.

(* a script made of push operations only: it decodes completely and no opcode is above OP_16 (OP_0, the data pushes, OP_1NEGATE, OP_RESERVED, OP_1..OP_16) *)
Inductive all_pushes : bytes -> Prop :=
| ap_nil : all_pushes []
| ap_cons : forall pc opcode push pc', pc <> [] -> get_op pc = (Some (opcode, push), pc') -> opcode <= OP_16 -> all_pushes pc' -> all_pushes pc.

Lemma is_push_only_fuel_sound : forall f pc, is_push_only_fuel f pc = true -> (length pc < f)%nat -> all_pushes pc.
Proof.
  induction f as [|f IH]; intros pc H Hl; [lia|]. cbn [is_push_only_fuel] in H.
  destruct pc as [|b r]; [constructor|].
  destruct (get_op (b :: r)) as [[[opcode push]|] pc'] eqn:E; [|discriminate].
  destruct (OP_16 <? opcode) eqn:Eo; [discriminate|].
  pose proof (get_op_shorter _ _ _ E) as Hs.
  eapply ap_cons; [discriminate|exact E|lia|]. apply IH; [exact H|cbn [length] in *; lia].
Qed.

Lemma is_push_only_fuel_complete : forall pc, all_pushes pc -> forall f, (length pc < f)%nat -> is_push_only_fuel f pc = true.
Proof.
  induction 1 as [|pc opcode push pc' Hne Hg Ho Hr IH]; intros f Hl; (destruct f as [|f]; [lia|]); cbn [is_push_only_fuel]; [reflexivity|].
  destruct pc as [|b r]; [contradiction|]. rewrite Hg.
  replace (OP_16 <? opcode) with false by lia.
  pose proof (get_op_shorter _ _ _ Hg) as Hs. apply IH. cbn [length] in *. lia.
Qed.

Theorem is_push_only_iff : forall s, is_push_only s = true <-> all_pushes s.
Proof.
  intros s. unfold is_push_only. split; intros H.
  - eapply is_push_only_fuel_sound; [exact H|lia].
  - apply is_push_only_fuel_complete; [exact H|lia].
Qed.

(* the scriptSig is refused exactly when there is a scriptPubKey to come, the scriptSig is not push-only, and either SIGPUSHONLY is set or the
   scriptPubKey is pay-to-script-hash under the P2SH flag (BIP16) *)
Theorem pushonly_violation_iff : forall flags script succ,
  pushonly_violation flags script succ = true <->
  succ <> [] /\ ~ all_pushes script /\
  (has_flag flags SCRIPT_VERIFY_SIGPUSHONLY = true \/ (has_flag flags SCRIPT_VERIFY_P2SH = true /\ is_p2sh_script succ = true)).
Proof.
  intros flags script succ. unfold pushonly_violation. rewrite !Bool.andb_true_iff, Bool.orb_true_iff, Bool.andb_true_iff, Bool.negb_true_iff.
  split.
  - intros [[Hs Hp] Hf]. split; [destruct succ; [discriminate|discriminate]|]. split; [|exact Hf].
    intros Ha. apply is_push_only_iff in Ha. congruence.
  - intros (Hs & Hp & Hf). split; [split|exact Hf]; [destruct succ; [contradiction|reflexivity]|].
    destruct (is_push_only script) eqn:E; [|reflexivity]. exfalso. apply Hp. apply is_push_only_iff. exact E.
Qed.

(* the initial witness stack: in segwit v0 and tapscript no item may exceed 520 bytes; in tapscript there may be at most 1000 items; nothing is
   checked for a legacy session *)
Theorem witness_limits_iff : forall sigver stack,
  witness_limits_violation sigver stack = None <->
  ((sigver = SV_WITNESS_V0 \/ sigver = SV_TAPSCRIPT) ->
   Forall (fun it => zlen it <= 520) stack /\ (sigver = SV_TAPSCRIPT -> (length stack <= 1000)%nat)).
Proof.
  intros sigver stack. unfold witness_limits_violation.
  change MAX_SCRIPT_ELEMENT_SIZE with 520. change MAX_STACK_SIZE with 1000.
  destruct ((sigver =? SV_WITNESS_V0) || (sigver =? SV_TAPSCRIPT)) eqn:Ev.
  - assert (Hv: sigver = SV_WITNESS_V0 \/ sigver = SV_TAPSCRIPT).
    { apply Bool.orb_true_iff in Ev. destruct Ev as [E|E]; apply Z.eqb_eq in E; [left|right]; exact E. }
    destruct (existsb (fun it => 520 <? zlen it) stack) eqn:Ee.
    + split; [discriminate|]. intros H. exfalso. destruct (H Hv) as [Hf _].
      apply existsb_exists in Ee. destruct Ee as (it & Hin & Hlt). pose proof (proj1 (Forall_forall _ _) Hf it Hin) as Hle. cbn in Hle. lia.
    + assert (Hall: Forall (fun it => zlen it <= 520) stack).
      { apply Forall_forall. intros it Hin. destruct (Z.leb_spec (zlen it) 520) as [Hle|Hgt]; [exact Hle|].
        exfalso. assert (existsb (fun it => 520 <? zlen it) stack = true) by (apply existsb_exists; exists it; split; [exact Hin|lia]). congruence. }
      destruct ((sigver =? SV_TAPSCRIPT) && (1000 <? Z.of_nat (length stack))) eqn:Et.
      * split; [discriminate|]. intros H. exfalso. destruct (H Hv) as [_ Hn].
        apply Bool.andb_true_iff in Et. destruct Et as [E1 E2]. apply Z.eqb_eq in E1. specialize (Hn E1). lia.
      * split; [|reflexivity]. intros _ _. split; [exact Hall|]. intros Etap.
        apply Bool.andb_false_iff in Et. destruct Et as [E|E]; [apply Z.eqb_neq in E; contradiction|lia].
  - split; [|reflexivity]. intros _ [E|E]; exfalso; apply Bool.orb_false_iff in Ev; destruct Ev as [E1 E2]; [apply Z.eqb_neq in E1|apply Z.eqb_neq in E2]; contradiction.
Qed.
