(* The non-interactive run terminates within its fuel and never ends in a crash outcome (C08 "never exits abnormally", C15). *)
From Coq Require Import Lia.
From BV Require Import Base ScriptNum Script Interp Session Value Transforms Cli SessionProofs SafetyProofs.
From BV.Gen Require Import Consts Sites.
Local Open Scope Z_scope.

(* the number of debugger steps a session without pending scriptPubKey / commitment phase can still make: the operations left in the
   current script, the end-of-script step, and - in the pay-to-script-hash phase - the redeem script saved on the stack *)
Definition steps_left (v : ienv) : nat :=
  if i_done v then 0%nat
  else (length (i_pc v) + 2 + (if i_p2sh v then length (hd [] (i_p2shstack v)) + 2 else 0))%nat.


Section Termination.
Variable low_s : bytes -> bool.
Variable tap_tweak_ok : bytes -> bytes -> bytes -> bool -> bool.
Variable sha256 : bytes -> bytes.
Variable c : cfg.
Notation dbg_step := (Session.dbg_step low_s tap_tweak_ok sha256).
Notation dbg_continue := (Session.dbg_continue low_s tap_tweak_ok sha256).

Lemma succ_stays_nil : forall v v' st, i_tce v = None -> i_succ v = [] -> dbg_step c v = (v', st) -> i_succ v' = [].
Proof.
  intros v v' st Ht Hsu H. unfold Session.dbg_step in H. rewrite Ht in H. destruct (i_pc v) as [|b r].
  - rewrite Hsu in H.
    repeat match type of H with
           | context [if ?q then _ else _] => destruct q
           | context [match ?q with [] => _ | _ :: _ => _ end] => destruct q
           end; inversion H; subst v'; cbn; first [exact Hsu|reflexivity].
  - destruct (step_script low_s c (i_e v) (b :: r) false) as [[e1 pc1] st1]. destruct st1; inversion H; subst v'; cbn; exact Hsu.
Qed.

Lemma step_decreases : forall v v', i_tce v = None -> i_succ v = [] -> i_done v = false -> dbg_step c v = (v', SOk) ->
  i_tce v' = None /\ i_succ v' = [] /\ (steps_left v' < steps_left v)%nat.
Proof.
  intros v v' Ht Hs Hd H.
  split; [|split; [exact (succ_stays_nil v v' SOk Ht Hs H)|]].
  - unfold Session.dbg_step in H. rewrite Ht in H. destruct (i_pc v) as [|b r].
    + rewrite Hs in H.
      repeat match type of H with
             | context [if ?q then _ else _] => destruct q
             | context [match ?q with [] => _ | _ :: _ => _ end] => destruct q
             end; inversion H; subst v'; cbn; first [exact Ht|reflexivity].
    + destruct (step_script low_s c (i_e v) (b :: r) false) as [[e1 pc1] st1]. destruct st1; inversion H; subst v'; cbn; exact Ht.
  - unfold steps_left. rewrite Hd. unfold Session.dbg_step in H. rewrite Ht in H. destruct (i_pc v) as [|b r] eqn:Epc.
    + rewrite Hs in H. destruct (i_p2sh v) eqn:Ep.
      * cbn [orb] in H. rewrite Bool.andb_true_r in H.
        destruct (negb (cs_empty (e_cond (i_e v)))); [discriminate|].
        destruct (e_stack (i_e v)) as [|top rest0]; [discriminate|].
        destruct (negb (cast_to_bool top)); [discriminate|].
        destruct (is_p2sh_script (e_script (i_e v))); [|discriminate].
        destruct (i_p2shstack v) as [|ser rest]; [discriminate|]. inversion H; subst v'. cbn [i_done i_pc i_p2sh i_p2shstack hd length]. rewrite Hd. lia.
      * cbn [orb] in H. rewrite Bool.andb_false_r in H.
        destruct (negb (cs_empty (e_cond (i_e v)))); [discriminate|]. inversion H; subst v'. cbn [i_done upd set_done]. cbn [length]. lia.
    + destruct (step_script low_s c (i_e v) (b :: r) false) as [[e1 pc1] st1] eqn:Es. destruct st1; try discriminate. inversion H; subst v'.
      destruct (step_script_pc low_s c _ _ _ _ _ Es) as [op Hg]. pose proof (get_op_shorter _ _ _ Hg) as Hsh.
      cbn [i_done i_pc i_p2sh i_p2shstack set_seq set_hist upd]. rewrite Hd. cbn [length] in *. lia.
Qed.

(* with more fuel than steps left, running to the end never yields a crash outcome - neither from a step (safety) nor from the fuel *)
Theorem continue_never_crashes : forall f v, i_tce v = None -> i_succ v = [] -> safe c (i_e v) -> (steps_left v < f)%nat ->
  forall x, snd (dbg_continue f c v) <> SCrash x.
Proof.
  induction f as [|f IH]; intros v Ht Hs Hsafe Hf x; [lia|]. cbn [Session.dbg_continue].
  destruct (i_done v) eqn:Hd; [cbn; discriminate|].
  pose proof (dbg_step_no_crash low_s tap_tweak_ok sha256 c v Hsafe) as Hn.
  pose proof (dbg_step_keeps_safe low_s tap_tweak_ok sha256 c v Hsafe) as Hk.
  destruct (dbg_step c v) as [v1 st] eqn:E. cbn [fst snd] in *.
  destruct st; try (cbn [snd]; first [discriminate|apply Hn]).
  destruct (step_decreases v v1 Ht Hs Hd E) as (Ht1 & Hs1 & Hm).
  apply IH; [exact Ht1|exact Hs1|exact Hk|lia].
Qed.

End Termination.

Lemma continue_fuel_enough : forall c script stack ed,
  (steps_left (setup_env c script stack [] ed None) < continue_fuel (setup_env c script stack [] ed None))%nat.
Proof.
  intros c script stack ed. unfold steps_left, continue_fuel. cbn [setup_env i_done i_pc i_p2sh i_p2shstack i_succ i_e e_script e_stack length].
  match goal with |- context [if ?b then 0%nat else _] => destruct b end; [lia|].
  destruct (negb (script_too_big (c_sigver c) script) && (c_sigver c =? SV_BASE) && p2sh_shape (c_flags c) script).
  - destruct stack as [|s0 sr]; cbn [hd length]; lia.
  - destruct stack as [|s0 sr]; cbn [hd length]; lia.
Qed.

(* btcdeb in non-interactive mode: unless one of the value parsers aborts inside a transform, the run ends with a result or a diagnostic *)
Theorem main_never_aborts : forall chk script_str args flag_mod z,
  (forall s, script_str = Some s -> arg_data do_exec s <> PAbort) -> args_data args [] <> PAbort ->
  main_noninteractive chk script_str args flag_mod z <> CliAbort.
Proof.
  intros chk script_str args flag_mod z Hscr Hargs. unfold main_noninteractive.
  destruct (match flag_mod with None => Some Gen.CliTables.main_initial_flags | Some m => svf_parse_flags Gen.CliTables.main_initial_flags m end) as [flags|]; [|discriminate].
  destruct script_str as [s|].
  - specialize (Hscr s eq_refl). destruct (arg_data do_exec s) as [scr| |]; [|discriminate|contradiction].
    destruct (negb (has_valid_ops scr)); [discriminate|].
    destruct (args_data args []) as [stack| |]; [|discriminate|contradiction].
    set (c := {| c_flags := flags; c_sigver := SV_BASE; c_allow_disabled := z; c_pv_map := []; c_pv_keys := []; c_chk := chk; c_hash := base_hashes |}).
    set (v := setup_env c scr stack [] init_execdata None).
    destruct (negb (i_operational v)); [discriminate|].
    pose proof (continue_never_crashes Der.low_s_strict (fun _ _ _ _ => false) Hashes.sha256 c (continue_fuel v) v eq_refl eq_refl
                  (setup_env_safe c scr stack [] init_execdata None (fun H => ltac:(discriminate H))) (continue_fuel_enough c scr stack init_execdata)) as Hn.
    destruct (dbg_continue Der.low_s_strict (fun _ _ _ _ => false) Hashes.sha256 (continue_fuel v) c v) as [v' st]. cbn [snd] in Hn.
    destruct st; try discriminate. exfalso. eapply Hn. reflexivity.
  - destruct (args_data args []) as [stack| |]; [|discriminate|contradiction].
    set (c := {| c_flags := flags; c_sigver := SV_BASE; c_allow_disabled := z; c_pv_map := []; c_pv_keys := []; c_chk := chk; c_hash := base_hashes |}).
    set (v := setup_env c [] stack [] init_execdata None).
    destruct (negb (i_operational v)); [discriminate|].
    pose proof (continue_never_crashes Der.low_s_strict (fun _ _ _ _ => false) Hashes.sha256 c (continue_fuel v) v eq_refl eq_refl
                  (setup_env_safe c [] stack [] init_execdata None (fun H => ltac:(discriminate H))) (continue_fuel_enough c [] stack init_execdata)) as Hn.
    destruct (dbg_continue Der.low_s_strict (fun _ _ _ _ => false) Hashes.sha256 (continue_fuel v) c v) as [v' st]. cbn [snd] in Hn.
    destruct st; try discriminate. exfalso. eapply Hn. reflexivity.
Qed.
