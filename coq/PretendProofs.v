(* Proofs about --pretend-valid (C11). *)
From Coq Require Import ZifyBool.
From BV Require Import Base BaseProofs Script Interp Value TxCli Pretend.
From BV.Gen Require Import Consts.
Local Open Scope Z_scope.

(* the configuration without the option *)
Definition no_pv (c : cfg) : cfg :=
  {| c_flags := c_flags c; c_sigver := c_sigver c; c_allow_disabled := c_allow_disabled c; c_pv_map := []; c_pv_keys := [];
     c_chk := c_chk c; c_hash := c_hash c |}.

(* every signature of the table leads to a mocked key (true of every table the option parser builds) *)
Definition pv_consistent (c : cfg) : Prop := forall s k, pv_lookup (c_pv_map c) s = Some k -> pv_has_key c k = true.

Lemma bytes_eqb_refl b : bytes_eqb b b = true.
Proof. unfold bytes_eqb. destruct (list_eq_dec Z.eq_dec b b); [reflexivity|contradiction]. Qed.
Lemma bytes_eqb_eq a b : bytes_eqb a b = true -> a = b.
Proof. unfold bytes_eqb. destruct (list_eq_dec Z.eq_dec a b); [auto|discriminate]. Qed.

Section PretendProofs.
Variable low_s : bytes -> bool.
Notation eval_checksig := (eval_checksig low_s).
Notation multisig_loop := (multisig_loop low_s).

(* ------------------------------------------------------------------ listed pairs succeed *)
(* ... in EvalChecksig (OP_CHECKSIG, OP_CHECKSIGVERIFY, OP_CHECKSIGADD), whatever the checker, flags, script version or execution data are *)
Lemma pv_listed_checksig : forall c e sig key,
  pv_has_key c key = true -> pv_match c sig key = true -> eval_checksig c e sig key = (e, SOk, true).
Proof. intros c e sig key Hk Hm. unfold Interp.eval_checksig. rewrite Hk, Hm. reflexivity. Qed.

(* ... and count as a match in one turn of the OP_CHECKMULTISIG loop, without any encoding check *)
Lemma pv_listed_multisig_turn : forall f c e code isig ikey nSigs nKeys,
  0 < nSigs -> pv_has_key c (stop e (Z.to_nat ikey)) = true -> pv_match c (stop e (Z.to_nat isig)) (stop e (Z.to_nat ikey)) = true ->
  multisig_loop (S f) c e code isig ikey nSigs nKeys =
  if nKeys - 1 <? nSigs - 1 then (e, SOk, false) else multisig_loop f c e code (isig + 1) (ikey + 1) (nSigs - 1) (nKeys - 1).
Proof.
  intros f c e code isig ikey nSigs nKeys Hn Hk Hm. cbn [Interp.multisig_loop].
  replace (0 <? nSigs) with true by lia. rewrite Hk, Hm. reflexivity.
Qed.

(* ------------------------------------------------------------------ everything else is untouched *)
(* CHECKSIG family: unless the (signature, key) pair is listed the result is the one obtained without the option *)
Lemma pv_checksig_unlisted : forall c e sig key,
  pv_has_key c key && pv_match c sig key = false -> eval_checksig c e sig key = eval_checksig (no_pv c) e sig key.
Proof.
  intros c e sig key H. unfold Interp.eval_checksig. rewrite H.
  replace (pv_has_key (no_pv c) key && pv_match (no_pv c) sig key) with false by reflexivity.
  reflexivity.
Qed.

(* a mocked key never accepts another signature on the strength of the option: the verdict is the ordinary one *)
Lemma pv_other_signature : forall c e sig key,
  pv_match c sig key = false -> eval_checksig c e sig key = eval_checksig (no_pv c) e sig key.
Proof. intros c e sig key H. apply pv_checksig_unlisted. rewrite H. apply Bool.andb_false_r. Qed.

(* in OP_CHECKMULTISIG a mocked key matches the listed signature only *)
Lemma pv_multisig_other_signature : forall f c e code isig ikey nSigs nKeys,
  0 < nSigs -> pv_has_key c (stop e (Z.to_nat ikey)) = true -> pv_match c (stop e (Z.to_nat isig)) (stop e (Z.to_nat ikey)) = false ->
  multisig_loop (S f) c e code isig ikey nSigs nKeys =
  if nKeys - 1 <? nSigs then (e, SOk, false) else multisig_loop f c e code isig (ikey + 1) nSigs (nKeys - 1).
Proof.
  intros f c e code isig ikey nSigs nKeys Hn Hk Hm. cbn [Interp.multisig_loop].
  replace (0 <? nSigs) with true by lia. rewrite Hk, Hm. reflexivity.
Qed.

(* OP_CHECKMULTISIG over keys none of which is mocked runs as without the option *)
Lemma pv_multisig_loop_unmocked : forall c e code f isig ikey nSigs nKeys,
  (forall n, pv_has_key c (stop e n) = false) ->
  multisig_loop f c e code isig ikey nSigs nKeys = multisig_loop f (no_pv c) e code isig ikey nSigs nKeys.
Proof.
  intros c e code. induction f as [|f IH]; intros isig ikey nSigs nKeys Hk; [reflexivity|].
  cbn [Interp.multisig_loop]. destruct (0 <? nSigs); [|reflexivity].
  rewrite Hk. replace (pv_has_key (no_pv c) (stop e (Z.to_nat ikey))) with false by reflexivity.
  cbn [no_pv c_flags c_sigver c_chk].
  destruct (check_sig_encoding low_s (c_flags c) (stop e (Z.to_nat isig))); [reflexivity|].
  destruct (check_pubkey_encoding (c_flags c) (c_sigver c) (stop e (Z.to_nat ikey))); [reflexivity|].
  destruct (k_ecdsa (c_chk c) (stop e (Z.to_nat isig)) (stop e (Z.to_nat ikey)) code (c_sigver c));
    (destruct (_ <? _); [reflexivity|apply IH; exact Hk]).
Qed.

Lemma pv_multisig_fad_unmocked : forall c keys sigs code,
  pv_consistent c -> (forall k, In k keys -> pv_has_key c k = false) ->
  multisig_fad c keys code sigs = multisig_fad (no_pv c) keys code sigs.
Proof.
  intros c keys sigs. induction sigs as [|s r IH]; intros code Hc Hk; [reflexivity|].
  cbn [multisig_fad]. cbn [no_pv c_sigver c_flags c_pv_map pv_lookup].
  destruct (c_sigver c =? SV_BASE); [|apply IH; assumption].
  destruct (find_and_delete code (push_data s)) as [code' found].
  assert (Hm: match pv_lookup (c_pv_map c) s with Some k => existsb (bytes_eqb k) keys | None => false end = false).
  { destruct (pv_lookup (c_pv_map c) s) as [k|] eqn:El; [|reflexivity].
    destruct (existsb (bytes_eqb k) keys) eqn:Ee; [|reflexivity]. exfalso.
    apply existsb_exists in Ee. destruct Ee as (k' & Hin & Heq). apply bytes_eqb_eq in Heq. subst k'.
    specialize (Hk k Hin). rewrite (Hc _ _ El) in Hk. discriminate. }
  rewrite Hm. destruct ((0 <? found) && has_flag (c_flags c) SCRIPT_VERIFY_CONST_SCRIPTCODE && negb false); [reflexivity|apply IH; assumption].
Qed.

(* ------------------------------------------------------------------ the option parser *)
Variable do_exec : str -> value -> option (parse_res value).
Notation pv_loop := (pv_loop do_exec).

Definition table_ok (m : list (bytes * bytes)) (keys : list bytes) : Prop :=
  forall s k, In (s, k) m -> pv_lookup m s = Some k /\ existsb (bytes_eqb k) keys = true.

Lemma pv_lookup_app_some : forall m x s k, pv_lookup m s = Some k -> pv_lookup (m ++ x) s = Some k.
Proof.
  induction m as [|[s0 k0] r IH]; intros x s k H; [discriminate|]. cbn [pv_lookup app] in *.
  destruct (list_eq_dec Z.eq_dec s0 s); [exact H|apply IH; exact H].
Qed.
Lemma pv_lookup_app_none : forall m s k, pv_lookup m s = None -> pv_lookup (m ++ [(s, k)]) s = Some k.
Proof.
  induction m as [|[s0 k0] r IH]; intros s k H; cbn [pv_lookup app] in *.
  - destruct (list_eq_dec Z.eq_dec s s); [reflexivity|contradiction].
  - destruct (list_eq_dec Z.eq_dec s0 s); [discriminate|apply IH; exact H].
Qed.
Lemma insert_key_has : forall keys k, existsb (bytes_eqb k) (pv_insert_key keys k) = true.
Proof.
  intros keys k. unfold pv_insert_key. destruct (existsb (bytes_eqb k) keys) eqn:E; [exact E|].
  rewrite existsb_app. cbn. rewrite bytes_eqb_refl. apply Bool.orb_true_r.
Qed.
Lemma insert_key_keeps : forall keys k k', existsb (bytes_eqb k') keys = true -> existsb (bytes_eqb k') (pv_insert_key keys k) = true.
Proof.
  intros keys k k' H. unfold pv_insert_key. destruct (existsb (bytes_eqb k) keys); [exact H|]. rewrite existsb_app, H. reflexivity.
Qed.

Lemma table_ok_insert : forall m keys sig s, table_ok m keys -> pv_lookup m sig = None -> table_ok (m ++ [(sig, s)]) (pv_insert_key keys s).
Proof.
  intros m keys sig s Hok Hn s0 k0 Hin. apply in_app_or in Hin. destruct Hin as [Hin|Hin].
  - destruct (Hok _ _ Hin) as [Hl Hk]. split; [apply pv_lookup_app_some; exact Hl|apply insert_key_keeps; exact Hk].
  - destruct Hin as [Heq|[]]. inversion Heq; subst. split; [apply pv_lookup_app_none; exact Hn|apply insert_key_has].
Qed.
Lemma table_ok_same : forall m keys s, table_ok m keys -> table_ok m (pv_insert_key keys s).
Proof. intros m keys s Hok s0 k0 Hin. destruct (Hok _ _ Hin) as [Hl Hk]. split; [exact Hl|apply insert_key_keeps; exact Hk]. Qed.

Lemma pv_loop_table_ok : forall fuel p got sig m keys m' keys',
  table_ok m keys -> pv_loop fuel p got sig m keys = PvOk m' keys' -> table_ok m' keys'.
Proof.
  induction fuel as [|f IH]; intros p got sig m keys m' keys' Hok H; [discriminate|].
  cbn [Pretend.pv_loop] in H. destruct p as [|c0 r0].
  - destruct got; [discriminate|]. inversion H; subst. exact Hok.
  - destruct (split_sep (c0 :: r0) []) as [tok sep]. destruct (arg_data do_exec tok) as [s| |]; try discriminate.
    assert (Hend: forall rest, (if negb got then PvRefused
                 else match pv_lookup m sig with
                      | Some k => if bytes_eqb k s then pv_loop f rest false sig m (pv_insert_key keys s) else PvRefused
                      | None => pv_loop f rest false sig (m ++ [(sig, s)]) (pv_insert_key keys s)
                      end) = PvOk m' keys' -> table_ok m' keys').
    { intros rest Hr. destruct got; cbn [negb] in Hr; [|discriminate].
      destruct (pv_lookup m sig) as [k|] eqn:El.
      - destruct (bytes_eqb k s); [|discriminate]. eapply IH; [|exact Hr]. apply table_ok_same. exact Hok.
      - eapply IH; [|exact Hr]. apply table_ok_insert; assumption. }
    destruct sep as [[c rest]|].
    + destruct (c =? 58).
      * destruct got; [discriminate|]. eapply IH; [exact Hok|exact H].
      * apply (Hend rest). exact H.
    + apply (Hend []). exact H.
Qed.

(* every pair of an accepted list is honoured by every signature opcode *)
Theorem parsed_pairs_succeed : forall expr m keys s k c e,
  parse_pretend_valid do_exec expr = PvOk m keys -> In (s, k) m -> c_pv_map c = m -> c_pv_keys c = keys ->
  eval_checksig c e s k = (e, SOk, true).
Proof.
  intros expr m keys s k c e Hp Hin Hm Hk. unfold parse_pretend_valid in Hp.
  assert (Hok: table_ok m keys) by (eapply pv_loop_table_ok; [|exact Hp]; intros ? ? []).
  destruct (Hok _ _ Hin) as [Hl He]. apply pv_listed_checksig.
  - unfold pv_has_key. rewrite Hk. exact He.
  - unfold pv_match. rewrite Hm, Hl. apply bytes_eqb_refl.
Qed.

Theorem parsed_table_consistent : forall expr m keys c,
  parse_pretend_valid do_exec expr = PvOk m keys -> c_pv_map c = m -> c_pv_keys c = keys -> pv_consistent c.
Proof.
  intros expr m keys c Hp Hm Hk s k Hl. unfold parse_pretend_valid in Hp.
  assert (Hok: table_ok m keys) by (eapply pv_loop_table_ok; [|exact Hp]; intros ? ? []).
  assert (Hin: In (s, k) m).
  { rewrite Hm in Hl. clear -Hl. induction m as [|[s0 k0] r IH]; [discriminate|]. cbn [pv_lookup] in Hl.
    destruct (list_eq_dec Z.eq_dec s0 s); [inversion Hl; subst; left; reflexivity|right; apply IH; exact Hl]. }
  destruct (Hok _ _ Hin) as [_ He]. unfold pv_has_key. rewrite Hk. exact He.
Qed.

(* ------------------------------------------------------------------ malformed lists *)
(* the separators of the expression, in order *)
Fixpoint seps (s : str) : list Z :=
  match s with [] => [] | c :: r => if (c =? 44) || (c =? 58) then c :: seps r else seps r end.
(* ':' and ',' must alternate, starting with ':' *)
Fixpoint alternating (got_sig : bool) (l : list Z) : bool :=
  match l with
  | [] => true
  | c :: r => if got_sig then (c =? 44) && alternating false r else (c =? 58) && alternating true r
  end.

Lemma split_sep_seps : forall p acc tok sep, split_sep p acc = (tok, sep) ->
  match sep with Some (c, rest) => seps p = c :: seps rest /\ (c = 44 \/ c = 58) | None => seps p = [] end.
Proof.
  induction p as [|c r IH]; intros acc tok sep H; cbn [split_sep] in H.
  - inversion H; subst. reflexivity.
  - cbn [seps]. destruct ((c =? 44) || (c =? 58)) eqn:E.
    + inversion H; subst. split; [reflexivity|]. apply Bool.orb_true_iff in E. destruct E as [E|E]; apply Z.eqb_eq in E; auto.
    + apply (IH _ _ _ H).
Qed.

Theorem accepted_lists_alternate : forall fuel p got sig m keys m' keys',
  pv_loop fuel p got sig m keys = PvOk m' keys' -> alternating got (seps p) = true.
Proof.
  induction fuel as [|f IH]; intros p got sig m keys m' keys' H; [discriminate|].
  cbn [Pretend.pv_loop] in H. destruct p as [|c0 r0]; [reflexivity|].
  destruct (split_sep (c0 :: r0) []) as [tok sep] eqn:Es. pose proof (split_sep_seps _ _ _ _ Es) as Hs.
  destruct (arg_data do_exec tok) as [s| |]; try discriminate.
  destruct sep as [[c rest]|].
  - destruct Hs as [Hs Hc]. rewrite Hs. cbn [alternating].
    destruct (c =? 58) eqn:E58.
    + destruct got; [discriminate|]. cbn [andb]. eapply IH. exact H.
    + destruct got; cbn [negb] in H; [|discriminate].
      assert (c = 44) by (destruct Hc as [Hc|Hc]; [exact Hc|subst c; discriminate]). subst c. cbn [Z.eqb andb].
      destruct (pv_lookup m sig) as [k|]; [destruct (bytes_eqb k s); [|discriminate]|]; eapply IH; exact H.
  - rewrite Hs. reflexivity.
Qed.

(* a list that ends right after a ':' is refused *)
Theorem dangling_signature_refused : forall fuel sig m keys, pv_loop (S fuel) [] true sig m keys = PvRefused.
Proof. reflexivity. Qed.
End PretendProofs.
