(* Model of the debugger session layer:
     InterpreterEnv constructor, StepScript(InterpreterEnv&), ContinueScript, RewindScript   debugger/interpreter.cpp
     TaprootCommitmentEnv (constructor, Iterate)                                            debugger/interpreter.cpp:13-67
     Instance::setup_environment / step / rewind / eval                                     instance.cpp
   The iterator [pc] is modelled by the suffix of env.script it points at. *)
From BV Require Import Base ScriptNum Script Interp.
From BV.Gen Require Import Consts Sites.
Local Open Scope Z_scope.

(* ------------------------------------------------------------ taproot commitment environment *)
Record tce := {
  t_control : bytes;
  t_program : bytes;      (* m_q *)
  t_script : bytes;
  t_path_len : Z;
  t_i : Z;
  t_k : bytes;            (* running hash m_k *)
  t_leaf : bytes          (* the TapLeaf hash stored through m_tapleaf_hash at construction *)
}.

Section Session.
Variable low_s : bytes -> bool.
(* XOnlyPubKey::CheckTapTweak(internal p, merkle_root k, parity) on the output key q: oracle over
   (q, p, k, parity); it computes TapTweak(p||k) itself, that hash is part of the oracle's contract *)
Variable tap_tweak_ok : bytes -> bytes -> bytes -> bool -> bool.
Variable sha256 : bytes -> bytes.

Definition tagged (tag : bytes) (msg : bytes) : bytes := let t := sha256 tag in sha256 (t ++ t ++ msg).
Definition TAG_TAPLEAF : bytes := [84; 97; 112; 76; 101; 97; 102].             (* "TapLeaf" *)
Definition TAG_TAPBRANCH : bytes := [84; 97; 112; 66; 114; 97; 110; 99; 104].   (* "TapBranch" *)

(* compact-size prefix as written by the CScript serialiser inside HashWriter << script *)
Definition compact_size (n : Z) : bytes :=
  if n <? 253 then [n]
  else if n <=? 65535 then 253 :: le_fixed 2 n
  else if n <=? 4294967295 then 254 :: le_fixed 4 n
  else 255 :: le_fixed 8 n.

Definition tapleaf_hash (leaf_ver : Z) (script : bytes) : bytes :=
  tagged TAG_TAPLEAF (leaf_ver :: compact_size (zlen script) ++ script).

Definition tce_new (control program script : bytes) : tce :=
  {| t_control := control; t_program := program; t_script := script;
     t_path_len := (zlen control - TAPROOT_CONTROL_BASE_SIZE) / TAPROOT_CONTROL_NODE_SIZE;
     t_i := 0;
     t_k := tapleaf_hash (Z.land (hd 0 control) TAPROOT_LEAF_MASK) script;
     t_leaf := tapleaf_hash (Z.land (hd 0 control) TAPROOT_LEAF_MASK) script |}.

(* std::lexicographical_compare on byte strings *)
Fixpoint lex_lt (a b : bytes) : bool :=
  match a, b with
  | _, [] => false
  | [], _ :: _ => true
  | x :: a', y :: b' => if x <? y then true else if y <? x then false else lex_lt a' b'
  end.

Inductive tce_state := TceProcessing | TceFailed | TceDone.

Definition tce_iterate (t : tce) : tce * tce_state :=
  if t_i t <? t_path_len t then
    let off := Z.to_nat (TAPROOT_CONTROL_BASE_SIZE + TAPROOT_CONTROL_NODE_SIZE * t_i t) in
    let node := firstn (Z.to_nat TAPROOT_CONTROL_NODE_SIZE) (skipn off (t_control t)) in
    let k' := if lex_lt (t_k t) node then tagged TAG_TAPBRANCH (t_k t ++ node) else tagged TAG_TAPBRANCH (node ++ t_k t) in
    ({| t_control := t_control t; t_program := t_program t; t_script := t_script t; t_path_len := t_path_len t;
        t_i := t_i t + 1; t_k := k'; t_leaf := t_leaf t |}, TceProcessing)
  else
    let p := firstn 32 (skipn 1 (t_control t)) in
    let res := tap_tweak_ok (t_program t) p (t_k t) (Z.odd (hd 0 (t_control t))) in
    (t, if res then TceDone else TceFailed).

(* ------------------------------------------------------------ InterpreterEnv *)
Record snapshot := {
  h_stack : list bytes; h_alt : list bytes; h_pc : bytes; h_ops : Z;
  h_cond : condstack; h_cb : option bytes; h_ed : execdata; h_pos : Z
}.

Record ienv := {
  i_e : see;
  i_pc : bytes;                 (* iterator = suffix of e_script *)
  i_hist : list snapshot;       (* the parallel history vectors, most recent first *)
  i_seq : Z;                    (* curr_op_seq *)
  i_done : bool;
  i_p2sh : bool;
  i_p2shstack : list bytes;
  i_succ : bytes;               (* successor_script *)
  i_tce : option tce;
  i_operational : bool
}.

Definition upd (v : ienv) (e : see) (pc : bytes) : ienv :=
  {| i_e := e; i_pc := pc; i_hist := i_hist v; i_seq := i_seq v; i_done := i_done v; i_p2sh := i_p2sh v;
     i_p2shstack := i_p2shstack v; i_succ := i_succ v; i_tce := i_tce v; i_operational := i_operational v |}.
Definition set_hist (v : ienv) (h : list snapshot) : ienv :=
  {| i_e := i_e v; i_pc := i_pc v; i_hist := h; i_seq := i_seq v; i_done := i_done v; i_p2sh := i_p2sh v;
     i_p2shstack := i_p2shstack v; i_succ := i_succ v; i_tce := i_tce v; i_operational := i_operational v |}.
Definition set_seq (v : ienv) (n : Z) : ienv :=
  {| i_e := i_e v; i_pc := i_pc v; i_hist := i_hist v; i_seq := n; i_done := i_done v; i_p2sh := i_p2sh v;
     i_p2shstack := i_p2shstack v; i_succ := i_succ v; i_tce := i_tce v; i_operational := i_operational v |}.
Definition set_done (v : ienv) (d : bool) : ienv :=
  {| i_e := i_e v; i_pc := i_pc v; i_hist := i_hist v; i_seq := i_seq v; i_done := d; i_p2sh := i_p2sh v;
     i_p2shstack := i_p2shstack v; i_succ := i_succ v; i_tce := i_tce v; i_operational := i_operational v |}.
Definition set_tce (v : ienv) (t : option tce) : ienv :=
  {| i_e := i_e v; i_pc := i_pc v; i_hist := i_hist v; i_seq := i_seq v; i_done := i_done v; i_p2sh := i_p2sh v;
     i_p2shstack := i_p2shstack v; i_succ := i_succ v; i_tce := t; i_operational := i_operational v |}.

Definition p2sh_shape (flags : Z) (script : bytes) : bool :=
  has_flag flags SCRIPT_VERIFY_P2SH && is_p2sh_script script.

(* script size rule at construction (site generated: comparison operator and whether tapscript is exempt) *)
Definition script_too_big (sigver : Z) (script : bytes) : bool :=
  (negb script_size_tapscript_exempt || negb (sigver =? SV_TAPSCRIPT)) && cmp_eval site_script_size (zlen script) MAX_SCRIPT_SIZE.

Definition init_execdata : execdata :=
  {| ed_codesep_pos := 4294967295; ed_weight_left := 0; ed_weight_init := false;
     ed_tapleaf := []; ed_tapleaf_init := false; ed_annex_present := false; ed_annex_hash := []; ed_annex_init := false |}.

(* Instance::setup_environment after the InterpreterEnv constructor: stack given top-first *)
Definition setup_env (c : cfg) (script : bytes) (stack : list bytes) (succ : bytes) (ed : execdata) (t : option tce) : ienv :=
  let big := script_too_big (c_sigver c) script in
  let e := {| e_script := script; e_cb := Some script; e_stack := stack; e_alt := []; e_cond := cs_empty_stack;
              e_ops := 0; e_pos := 0; e_ed := ed; e_err := if big then SCRIPT_ERR_SCRIPT_SIZE else SCRIPT_ERR_UNKNOWN_ERROR |} in
  let isp := negb big && (c_sigver c =? SV_BASE) && p2sh_shape (c_flags c) script in       (* only a legacy script can be pay-to-script-hash *)
  {| i_e := e; i_pc := script; i_hist := []; i_seq := 0;
     i_done := (match script with [] => true | _ => false end) && (match succ with [] => true | _ => false end)
               && (match t with None => true | Some _ => false end);      (* a pending taproot commitment check keeps the session open *)
     i_p2sh := isp; i_p2shstack := if isp then stack else [];
     i_succ := succ; i_tce := t; i_operational := negb big |}.

Definition snap (v : ienv) : snapshot :=
  {| h_stack := e_stack (i_e v); h_alt := e_alt (i_e v); h_pc := i_pc v; h_ops := e_ops (i_e v);
     h_cond := e_cond (i_e v); h_cb := e_cb (i_e v); h_ed := e_ed (i_e v); h_pos := e_pos (i_e v) |}.

Definition set_pos (e : see) (n : Z) : see :=
  {| e_script := e_script e; e_cb := e_cb e; e_stack := e_stack e; e_alt := e_alt e; e_cond := e_cond e;
     e_ops := e_ops e; e_pos := n; e_ed := e_ed e; e_err := e_err e |}.

Definition ed_set_tapleaf (d : execdata) (h : bytes) : execdata :=
  {| ed_codesep_pos := ed_codesep_pos d; ed_weight_left := ed_weight_left d; ed_weight_init := ed_weight_init d;
     ed_tapleaf := h; ed_tapleaf_init := true;
     ed_annex_present := ed_annex_present d; ed_annex_hash := ed_annex_hash d; ed_annex_init := ed_annex_init d |}.

(* StepScript(InterpreterEnv&) *)
Definition dbg_step (c : cfg) (v : ienv) : ienv * status :=
  match i_tce v with
  | Some t =>
      match tce_iterate t with
      | (t', TceFailed) => (set_tce v (Some t'), SErr)
      | (t', TceProcessing) => (set_seq (set_tce v (Some t')) (i_seq v + 1), SOk)
      | (t', TceDone) =>
          let v1 := set_seq (set_tce v None) (i_seq v + 1) in
          (upd v1 (set_ed (i_e v1) (ed_set_tapleaf (e_ed (i_e v1)) (t_leaf t'))) (i_pc v1), SOk)
      end
  | None =>
    match i_pc v with
    | _ :: _ =>
        let h := snap v in
        let '(e1, pc1, st) := step_script low_s c (i_e v) (i_pc v) false in
        match st with
        | SOk =>
            (* history entry kept; position counters advance *)
            let e2 := set_pos e1 (e_pos e1 + 1) in
            (set_seq (set_hist (upd v e2 pc1) (h :: i_hist v)) (i_seq v + 1), SOk)
        | _ => (upd v e1 pc1, st)       (* history entries popped again *)
        end
    | [] =>
      let e := i_e v in
      (* each script must end with a balanced conditional nesting *)
      if negb (cs_empty (e_cond e)) && (i_p2sh v || (match i_succ v with [] => false | _ => true end))
      then (upd v (set_err e SCRIPT_ERR_UNBALANCED_CONDITIONAL) [], SErr)
      else
      if i_p2sh v then
        match e_stack e with
        | [] => (upd v (set_err e SCRIPT_ERR_EVAL_FALSE) [], SErr)
        | top :: _ =>
          if negb (cast_to_bool top) then (upd v (set_err e SCRIPT_ERR_EVAL_FALSE) [], SErr)
          else if is_p2sh_script (e_script e) then
            match i_p2shstack v with
            | [] =>
                (* the saved stack is empty (exec supplied the hashed item later): is_p2sh is cleared, the (empty) stack restored, script error *)
                ({| i_e := set_err (set_stack e []) SCRIPT_ERR_INVALID_STACK_OPERATION; i_pc := []; i_hist := i_hist v; i_seq := i_seq v;
                    i_done := i_done v; i_p2sh := false; i_p2shstack := i_p2shstack v; i_succ := i_succ v; i_tce := None;
                    i_operational := i_operational v |}, SErr)
            | ser :: rest =>
                let e1 := {| e_script := ser; e_cb := Some ser; e_stack := rest; e_alt := []; e_cond := e_cond e;
                             e_ops := 0; e_pos := e_pos e; e_ed := e_ed e; e_err := e_err e |} in
                ({| i_e := e1; i_pc := ser; i_hist := i_hist v; i_seq := i_seq v + 1; i_done := i_done v; i_p2sh := false;
                    i_p2shstack := i_p2shstack v; i_succ := i_succ v; i_tce := None; i_operational := i_operational v |}, SOk)
            end
          else (upd v (set_err e SCRIPT_ERR_BAD_OPCODE) [], SErr)
        end
      else match i_succ v with
      | _ :: _ =>
          let s := i_succ v in
          if MAX_SCRIPT_SIZE <? zlen s then (upd v (set_err e SCRIPT_ERR_SCRIPT_SIZE) [], SErr) else
          let isp := p2sh_shape (c_flags c) s in
          let e1 := {| e_script := s; e_cb := Some s; e_stack := e_stack e; e_alt := []; e_cond := e_cond e;
                       e_ops := 0; e_pos := e_pos e; e_ed := e_ed e; e_err := e_err e |} in
          ({| i_e := e1; i_pc := s; i_hist := i_hist v; i_seq := i_seq v + 1; i_done := i_done v; i_p2sh := isp;
              i_p2shstack := if isp then e_stack e else i_p2shstack v; i_succ := []; i_tce := None;
              i_operational := i_operational v |}, SOk)
      | [] =>
          let v1 := set_done v true in
          if negb (cs_empty (e_cond e)) then (upd v1 (set_err e SCRIPT_ERR_UNBALANCED_CONDITIONAL) [], SErr)
          else (upd v1 (set_err e SCRIPT_ERR_OK) [], SOk)
      end
    end
  end.

(* ContinueScript: while (!done) step; fuel bounds the number of iterations (script bytes + transitions) *)
Fixpoint dbg_continue (fuel : nat) (c : cfg) (v : ienv) : ienv * status :=
  match fuel with
  | O => (v, SCrash 99)                 (* out of fuel: excluded by the theorems *)
  | S f =>
      if i_done v then (v, SOk)
      else match dbg_step c v with
           | (v1, SOk) => dbg_continue f c v1
           | r => r
           end
  end.

Definition continue_fuel (v : ienv) : nat :=
  (length (e_script (i_e v)) + length (i_succ v) + 600 +
   match i_p2shstack v with s :: _ => length s | [] => 0 end +
   match e_stack (i_e v) with s :: _ => length s | [] => 0 end)%nat.

(* Instance::at_start *)
Definition at_start (v : ienv) : bool := (length (i_pc v) =? length (e_script (i_e v)))%nat.

(* Instance::rewind (returns None when refused) *)
Definition dbg_rewind (v : ienv) : option ienv :=
  if at_start v then None
  else if i_done v then
    (* only the end-of-script marking is undone *)
    Some (upd (set_done v false) (set_err (i_e v) SCRIPT_ERR_UNKNOWN_ERROR) (i_pc v))
  else match i_hist v with
  | [] => None
  | h :: r =>
      let e := i_e v in
      let e1 := {| e_script := e_script e; e_cb := h_cb h; e_stack := h_stack h; e_alt := h_alt h; e_cond := h_cond h;
                   e_ops := h_ops h; e_pos := h_pos h; e_ed := h_ed h; e_err := e_err e |} in
      Some (set_seq (set_hist (upd v e1 (h_pc h)) r) (i_seq v - 1))
  end.

(* Instance::step(1): refuses when done; exceptions become a failed step with a message *)
Inductive step_result := StepRefused | StepOk | StepFail | StepExn (c : Z) | StepCrash (c : Z).
Definition inst_step (c : cfg) (v : ienv) : ienv * step_result :=
  if i_done v then (v, StepRefused)
  else match dbg_step c v with
       | (v1, SOk) => (v1, StepOk)
       | (v1, SErr) => (v1, StepFail)
       | (v1, SExn x) => (v1, StepExn x)
       | (v1, SCrash x) => (v1, StepCrash x)
       end.

(* ------------------------------------------------------------ Instance::eval (exec) *)
(* token classification is in Value.v (exec_tokens); here: run a compiled local script on the environment *)
Fixpoint eval_loop (fuel : nat) (c : cfg) (e : see) (it : bytes) : see * status :=
  match fuel with
  | O => (e, SOk)
  | S f =>
      match it with
      | [] => (e, SOk)
      | _ =>
        match step_script low_s c e it true with
        | (e1, it1, SOk) => eval_loop f c e1 it1
        | (e1, _, st) => (e1, st)
        end
      end
  end.

Definition inst_eval (c : cfg) (v : ienv) (local_script : bytes) : ienv * status :=
  let '(e1, st) := eval_loop (S (length local_script)) c (i_e v) local_script in
  (upd v e1 (i_pc v), st).

End Session.
