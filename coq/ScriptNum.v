(* Model of CScriptNum (script/script.h) and of the Value conversions built on it (value.h),
   plus the arithmetic specification the property C18 refers to.
   Bit operations of the C++ are written arithmetically: [x & 0xff] = [x mod 256], [x >>= 8] = [x / 256],
   [vch.back() & 0x80] = [128 <=? last], [result |= b << 8*i] = sum b_i*256^i (disjoint bits),
   [result & ~(0x80 << 8*(n-1))] = [result - 128*256^(n-1)] when that bit is set. *)
From BV Require Import Base.
Local Open Scope Z_scope.

(* ---------------------------------------------------------------- model: CScriptNum::serialize *)
Definition sn_fix_sign (neg : bool) (r : bytes) : bytes :=
  if 128 <=? vlast r then r ++ [if neg then 128 else 0]
  else if neg then set_last r (vlast r + 128) (* result.back() |= 0x80 *)
  else r.

(* [fuel] = number of loop rounds available; the C++ works on a uint64_t, i.e. fuel 8 *)
Definition sn_serialize_fuel (fuel : nat) (value : Z) : bytes :=
  if value =? 0 then []
  else
    let neg := value <? 0 in
    let absvalue := if neg then - value else value in
    sn_fix_sign neg (le_digits fuel absvalue).

Definition sn_serialize (value : Z) : bytes := sn_serialize_fuel 8 value.

(* ---------------------------------------------------------------- model: CScriptNum::set_vch *)
Definition sn_set_vch (vch : bytes) : Z :=
  match vch with
  | [] => 0
  | _ =>
      let result := le_value vch in
      if 128 <=? vlast vch
      then - (result - 128 * 256 ^ (zlen vch - 1))
      else result
  end.

(* ---------------------------------------------------------------- model: the checking constructor *)
Definition sn_nonminimal (vch : bytes) : bool :=
  match rev vch with
  | [] => false
  | msb :: rest =>
      if (msb mod 128 =? 0)                       (* (vch.back() & 0x7f) == 0 *)
      then match rest with
           | [] => true                           (* vch.size() <= 1 *)
           | nxt :: _ => nxt <? 128               (* (vch[size-2] & 0x80) == 0 *)
           end
      else false
  end.

Definition sn_ctor (vch : bytes) (fRequireMinimal : bool) (nMaxNumSize : nat) : outcome Z :=
  if (nMaxNumSize <? length vch)%nat then Exn EXN_NUMOVERFLOW
  else if fRequireMinimal && sn_nonminimal vch then Exn EXN_NONMINIMAL
  else Ok (sn_set_vch vch).

(* getint(): clamp to the int range *)
Definition INT_MAX := 2147483647.
Definition INT_MIN := -2147483648.
Definition sn_getint (v : Z) : Z := if INT_MAX <? v then INT_MAX else if v <? INT_MIN then INT_MIN else v.

(* ---------------------------------------------------------------- model: Value conversions (value.h) *)
(* Value(int64).hex_str() *)
Definition value_int_hex_str (i : Z) : list Z := hexstr (sn_serialize i).
(* Value(int64).data_value() *)
Definition value_int_data_value (i : Z) : bytes := sn_serialize i.
(* Value(data).int_value() : CScriptNum(data, false).GetInt64() with the default 4-byte limit *)
Definition value_data_int_value (d : bytes) : outcome Z := sn_ctor d false 4.

(* ---------------------------------------------------------------- specification *)
(* The value Bitcoin assigns to a byte string: little-endian magnitude, top bit of the last byte = sign *)
Definition spec_magnitude (b : bytes) : Z :=
  match rev b with
  | [] => 0
  | msb :: rest => le_value (rev rest) + (msb mod 128) * 256 ^ (zlen b - 1)
  end.
Definition spec_negative (b : bytes) : bool := 128 <=? vlast b.
Definition spec_value (b : bytes) : Z := if spec_negative b then - spec_magnitude b else spec_magnitude b.

(* minimal ("canonical") encodings: empty, or last byte has a non-zero low 7 bits, or the last byte is
   exactly 0x00/0x80 and is needed because the byte before has its top bit set *)
Definition spec_minimal (b : bytes) : Prop :=
  match rev b with
  | [] => True
  | msb :: rest => msb mod 128 <> 0 \/ exists nxt r, rest = nxt :: r /\ 128 <= nxt
  end.
