(* Lemmas about the transaction codec model of Tx.v *)
From BV Require Import Base BaseProofs Tx.
Local Open Scope Z_scope.
Ltac Zify.zify_post_hook ::= Z.div_mod_to_equations.

(* ============================================================================================== *)
(* Generic notions                                                                                *)

(* [sound]: whatever the reader accepts is exactly the writer's output for the value returned, and
   the value is well-formed; [complete]: the reader inverts the writer on well-formed values. *)
Definition sound {A : Type} (rd : reader A) (wr : A -> bytes) (P : A -> Prop) : Prop :=
  forall b x r, bytes_ok b -> rd b = Some (x, r) -> b = wr x ++ r /\ P x.
Definition complete {A : Type} (rd : reader A) (wr : A -> bytes) (P : A -> Prop) : Prop :=
  forall x r, P x -> rd (wr x ++ r) = Some (x, r).

Lemma bytes_ok_app_r a b : bytes_ok (a ++ b) -> bytes_ok b.
Proof. intros H. apply bytes_ok_app in H. tauto. Qed.
Lemma bytes_ok_app_l a b : bytes_ok (a ++ b) -> bytes_ok a.
Proof. intros H. apply bytes_ok_app in H. tauto. Qed.

Lemma zlen_app a b : zlen (a ++ b) = zlen a + zlen b.
Proof. unfold zlen. rewrite app_length. lia. Qed.
Lemma zlen_cons x a : zlen (x :: a) = 1 + zlen a.
Proof. unfold zlen. cbn [length]. lia. Qed.
Lemma zlen_nonneg a : 0 <= zlen a.
Proof. unfold zlen. lia. Qed.

(* ============================================================================================== *)
(* take / read_le                                                                                 *)

Lemma take_eq n b :
  take n b = if n <=? 0 then Some ([], b) else
             match b with
             | [] => None
             | x :: r => match take (n - 1) r with
                         | Some (f, rest) => Some (x :: f, rest)
                         | None => None
                         end
             end.
Proof. destruct b; reflexivity. Qed.

Lemma take_spec b : forall n f r, take n b = Some (f, r) -> b = f ++ r /\ zlen f = Z.max 0 n.
Proof.
  induction b as [|x b IH]; intros n f r H; rewrite take_eq in H.
  - destruct (n <=? 0) eqn:En; [|discriminate]. inversion H; subst. split; [reflexivity|]. cbn. lia.
  - destruct (n <=? 0) eqn:En.
    + inversion H; subst. split; [reflexivity|]. cbn. lia.
    + destruct (take (n - 1) b) as [[f' r']|] eqn:Et; [|discriminate].
      inversion H; subst. apply IH in Et. destruct Et as [Hb Hl]. subst b.
      split; [reflexivity|]. rewrite zlen_cons. lia.
Qed.

Lemma take_app f : forall n r, zlen f = n -> take n (f ++ r) = Some (f, r).
Proof.
  induction f as [|x f IH]; intros n r Hn; rewrite take_eq.
  - cbn in Hn. subst n. reflexivity.
  - rewrite zlen_cons in Hn. pose proof (zlen_nonneg f) as Hf.
    destruct (n <=? 0) eqn:En; [lia|]. cbn [app]. rewrite (IH (n - 1) r) by lia. reflexivity.
Qed.

Lemma take_sound n b f r : take n b = Some (f, r) -> 0 <= n -> b = f ++ r /\ zlen f = n.
Proof. intros H Hn. apply take_spec in H. destruct H as [H1 H2]. split; [exact H1|lia]. Qed.

Lemma read_le_sound n b v r :
  bytes_ok b -> read_le (Z.of_nat n) b = Some (v, r) ->
  b = le_fixed n v ++ r /\ 0 <= v < 256 ^ Z.of_nat n.
Proof.
  intros Hb H. unfold read_le in H.
  destruct (take (Z.of_nat n) b) as [[f r']|] eqn:Et; [|discriminate].
  inversion H; subst. apply take_sound in Et; [|lia]. destruct Et as [Hbe Hl]. subst b.
  assert (Hf : bytes_ok f) by (eapply bytes_ok_app_l; eauto).
  unfold zlen in Hl. apply Nat2Z.inj in Hl. subst n.
  split. { rewrite le_fixed_of_value by assumption. reflexivity. } { apply le_value_bound. assumption. }
Qed.

Lemma read_le_complete n v r :
  0 <= v < 256 ^ Z.of_nat n -> read_le (Z.of_nat n) (le_fixed n v ++ r) = Some (v, r).
Proof.
  intros Hv. unfold read_le. rewrite take_app.
  - rewrite le_fixed_value by assumption. reflexivity.
  - unfold zlen. rewrite le_fixed_length. reflexivity.
Qed.

Lemma pow256_2 : 256 ^ Z.of_nat 2 = 65536. Proof. reflexivity. Qed.
Lemma pow256_4 : 256 ^ Z.of_nat 4 = 4294967296. Proof. reflexivity. Qed.
Lemma pow256_8 : 256 ^ Z.of_nat 8 = 18446744073709551616. Proof. reflexivity. Qed.

Lemma read_le2_sound b v r : bytes_ok b -> read_le 2 b = Some (v, r) -> b = le_fixed 2 v ++ r /\ 0 <= v < 65536.
Proof. intros Hb H. rewrite <- pow256_2. apply read_le_sound; assumption. Qed.
Lemma read_le4_sound b v r : bytes_ok b -> read_le 4 b = Some (v, r) -> b = le_fixed 4 v ++ r /\ 0 <= v < two32.
Proof. intros Hb H. unfold two32. rewrite <- pow256_4. apply read_le_sound; assumption. Qed.
Lemma read_le8_sound b v r : bytes_ok b -> read_le 8 b = Some (v, r) -> b = le_fixed 8 v ++ r /\ 0 <= v < two64.
Proof. intros Hb H. unfold two64. rewrite <- pow256_8. apply read_le_sound; assumption. Qed.

Lemma read_le2_complete v r : 0 <= v < 65536 -> read_le 2 (le_fixed 2 v ++ r) = Some (v, r).
Proof. intros H. apply (read_le_complete 2). rewrite pow256_2. exact H. Qed.
Lemma read_le4_complete v r : 0 <= v < two32 -> read_le 4 (le_fixed 4 v ++ r) = Some (v, r).
Proof. intros H. apply (read_le_complete 4). rewrite pow256_4. exact H. Qed.
Lemma read_le8_complete v r : 0 <= v < two64 -> read_le 8 (le_fixed 8 v ++ r) = Some (v, r).
Proof. intros H. apply (read_le_complete 8). rewrite pow256_8. exact H. Qed.

(* signed / unsigned 32- and 64-bit fields *)
Lemma wr_u32_small v : 0 <= v < two32 -> wr_u32 v = le_fixed 4 v.
Proof. intros H. unfold wr_u32. rewrite Z.mod_small by exact H. reflexivity. Qed.
Lemma wr_u32_signed v : 0 <= v < two32 -> wr_u32 (to_signed32 v) = le_fixed 4 v.
Proof.
  intros H. unfold wr_u32, to_signed32. f_equal. unfold two31, two32 in *.
  destruct (v <? 2147483648) eqn:E; lia.
Qed.
Lemma to_signed32_range v : 0 <= v < two32 -> - two31 <= to_signed32 v < two31.
Proof. intros H. unfold to_signed32, two31, two32 in *. destruct (v <? 2147483648) eqn:E; lia. Qed.
Lemma to_signed32_mod v : - two31 <= v < two31 -> to_signed32 (v mod two32) = v.
Proof. intros H. unfold to_signed32, two31, two32 in *. destruct (v mod 4294967296 <? 2147483648) eqn:E; lia. Qed.
Lemma wr_u64_signed v : 0 <= v < two64 -> wr_u64 (to_signed64 v) = le_fixed 8 v.
Proof.
  intros H. unfold wr_u64, to_signed64. f_equal. unfold two63, two64 in *.
  destruct (v <? 9223372036854775808) eqn:E; lia.
Qed.
Lemma to_signed64_range v : 0 <= v < two64 -> - two63 <= to_signed64 v < two63.
Proof. intros H. unfold to_signed64, two63, two64 in *. destruct (v <? 9223372036854775808) eqn:E; lia. Qed.
Lemma to_signed64_mod v : - two63 <= v < two63 -> to_signed64 (v mod two64) = v.
Proof.
  intros H. unfold to_signed64, two63, two64 in *.
  destruct (v mod 18446744073709551616 <? 9223372036854775808) eqn:E; lia.
Qed.

Lemma mod_range v m : 0 < m -> 0 <= v mod m < m.
Proof. intros. apply Z.mod_pos_bound. assumption. Qed.

(* ============================================================================================== *)
(* CompactSize                                                                                    *)

Lemma compact_size_complete n rest :
  0 <= n <= MAX_SIZE -> read_compact_size (write_compact_size n ++ rest) = Some (n, rest).
Proof.
  unfold MAX_SIZE. intros Hn. unfold write_compact_size.
  destruct (n <? 253) eqn:E1.
  - cbn [app read_compact_size]. rewrite E1. reflexivity.
  - destruct (n <=? 65535) eqn:E2.
    + cbn [app read_compact_size]. change (253 <? 253) with false. change (253 =? 253) with true. cbv iota.
      rewrite read_le2_complete by lia. rewrite E1.
      unfold MAX_SIZE. destruct (n >? 33554432) eqn:E3; [lia|]. reflexivity.
    + destruct (n <=? 4294967295) eqn:E3; [|lia].
      cbn [app read_compact_size]. change (254 <? 253) with false. change (254 =? 253) with false.
      change (254 =? 254) with true. cbv iota.
      rewrite read_le4_complete by (unfold two32; lia).
      unfold two16, MAX_SIZE. destruct (n <? 65536) eqn:E4; [lia|].
      destruct (n >? 33554432) eqn:E5; [lia|]. reflexivity.
Qed.

Lemma compact_size_sound b n rest :
  bytes_ok b -> read_compact_size b = Some (n, rest) ->
  b = write_compact_size n ++ rest /\ 0 <= n <= MAX_SIZE.
Proof.
  intros Hb H. destruct b as [|ch b1]; [discriminate|].
  apply bytes_ok_cons in Hb. destruct Hb as [Hch Hb1].
  cbn [read_compact_size] in H. unfold write_compact_size, MAX_SIZE in *.
  destruct (ch <? 253) eqn:E1.
  - inversion H; subst. rewrite E1. split; [reflexivity|lia].
  - destruct (ch =? 253) eqn:E2.
    + destruct (read_le 2 b1) as [[v b2]|] eqn:Er; [|discriminate].
      apply read_le2_sound in Er; [|assumption]. destruct Er as [Hbe Hv].
      destruct (v <? 253) eqn:E3; [discriminate|].
      destruct (v >? 33554432) eqn:E4; [discriminate|]. inversion H; subst.
      rewrite E3. destruct (n <=? 65535) eqn:E5; [|lia].
      split; [|lia]. cbn [app]. f_equal. lia.
    + destruct (ch =? 254) eqn:E3.
      * destruct (read_le 4 b1) as [[v b2]|] eqn:Er; [|discriminate].
        apply read_le4_sound in Er; [|assumption]. destruct Er as [Hbe Hv]. unfold two16, two32 in *.
        destruct (v <? 65536) eqn:E4; [discriminate|].
        destruct (v >? 33554432) eqn:E5; [discriminate|]. inversion H; subst.
        destruct (n <? 253) eqn:E6; [lia|]. destruct (n <=? 65535) eqn:E7; [lia|].
        destruct (n <=? 4294967295) eqn:E8; [|lia].
        split; [|lia]. cbn [app]. f_equal. lia.
      * destruct (read_le 8 b1) as [[v b2]|] eqn:Er; [|discriminate].
        unfold two32 in *.
        destruct (v <? 4294967296) eqn:E4; [discriminate|].
        destruct (v >? 33554432) eqn:E5; [discriminate|]. lia.
Qed.

(* ============================================================================================== *)
(* vector<unsigned char>                                                                          *)

Lemma wf_bytes_vec_iff v : wf_bytes_vec v = true <-> bytes_ok v /\ zlen v <= MAX_SIZE.
Proof.
  unfold wf_bytes_vec. rewrite andb_true_iff, bytes_okb_ok, Z.leb_le. reflexivity.
Qed.

Lemma bytes_vec_sound : sound rd_bytes_vec wr_bytes_vec (fun v => wf_bytes_vec v = true).
Proof.
  intros b v r Hb H. unfold rd_bytes_vec in H.
  destruct (read_compact_size b) as [[n b1]|] eqn:Ec; [|discriminate].
  apply compact_size_sound in Ec; [|assumption]. destruct Ec as [Hbe Hn].
  apply take_sound in H; [|lia]. destruct H as [Hb1 Hl]. subst b1 b.
  unfold wr_bytes_vec. rewrite Hl, <- app_assoc. split; [reflexivity|].
  apply wf_bytes_vec_iff. split; [|lia].
  eapply bytes_ok_app_l. eapply bytes_ok_app_r. exact Hb.
Qed.

Lemma bytes_vec_complete : complete rd_bytes_vec wr_bytes_vec (fun v => wf_bytes_vec v = true).
Proof.
  intros v r Hv. apply wf_bytes_vec_iff in Hv. destruct Hv as [Hok Hl].
  unfold rd_bytes_vec, wr_bytes_vec. rewrite <- app_assoc.
  rewrite compact_size_complete by (pose proof (zlen_nonneg v); lia).
  apply take_app. reflexivity.
Qed.

(* ============================================================================================== *)
(* Generic vector codec                                                                           *)

Lemma unser_elems_eq {A} (rd : reader A) fuel n b :
  unser_elems rd fuel n b =
  if n <=? 0 then Some ([], b) else
  match fuel with
  | O => None
  | S f => match rd b with
           | None => None
           | Some (x, b1) => match unser_elems rd f (n - 1) b1 with
                             | None => None
                             | Some (xs, b2) => Some (x :: xs, b2)
                             end
           end
  end.
Proof. destruct fuel; reflexivity. Qed.

Section Vec.
  Context {A : Type} (rd : reader A) (wr : A -> bytes) (P : A -> Prop).

  Lemma unser_elems_sound (Hs : sound rd wr P) : forall fuel n b xs r,
    bytes_ok b -> unser_elems rd fuel n b = Some (xs, r) ->
    b = flat_map wr xs ++ r /\ Forall P xs /\ Z.of_nat (length xs) = Z.max 0 n.
  Proof.
    induction fuel as [|f IH]; intros n b xs r Hb H; rewrite unser_elems_eq in H;
      destruct (n <=? 0) eqn:En; [apply Z.leb_le in En|apply Z.leb_gt in En|apply Z.leb_le in En|apply Z.leb_gt in En].
    - inversion H; subst. cbn [flat_map app length]. repeat split; [constructor|lia].
    - discriminate.
    - inversion H; subst. cbn [flat_map app length]. repeat split; [constructor|lia].
    - destruct (rd b) as [[x b1]|] eqn:Er; [|discriminate].
      destruct (unser_elems rd f (n - 1) b1) as [[xs' b2]|] eqn:Eu; [|discriminate].
      inversion H; subst. apply Hs in Er; [|assumption]. destruct Er as [Hbe Hx]. subst b.
      apply IH in Eu; [|eapply bytes_ok_app_r; eassumption]. destruct Eu as [Hb1 [Hxs Hl]]. subst b1.
      cbn [flat_map length]. rewrite <- app_assoc. repeat split; [constructor; assumption|lia].
  Qed.

  Lemma unser_elems_complete (Hc : complete rd wr P) : forall xs fuel r,
    Forall P xs -> (length xs <= fuel)%nat ->
    unser_elems rd fuel (Z.of_nat (length xs)) (flat_map wr xs ++ r) = Some (xs, r).
  Proof.
    induction xs as [|x xs IH]; intros fuel r HP Hf; rewrite unser_elems_eq.
    - reflexivity.
    - cbn [length] in *. destruct (Z.leb_spec (Z.of_nat (S (length xs))) 0) as [En|En]; [lia|].
      destruct fuel as [|f]; [lia|]. inversion HP; subst.
      cbn [flat_map]. rewrite <- app_assoc. rewrite Hc by assumption.
      replace (Z.of_nat (S (length xs)) - 1) with (Z.of_nat (length xs)) by lia.
      rewrite IH by (assumption || lia). reflexivity.
  Qed.

  Definition Pvec (xs : list A) : Prop := Forall P xs /\ Z.of_nat (length xs) <= MAX_SIZE.

  Lemma unser_vec_sound (Hs : sound rd wr P) fuel : sound (unser_vec rd fuel) (ser_vec wr) Pvec.
  Proof.
    intros b xs r Hb H. unfold unser_vec in H.
    destruct (read_compact_size b) as [[n b1]|] eqn:Ec; [|discriminate].
    apply compact_size_sound in Ec; [|assumption]. destruct Ec as [Hbe Hn]. subst b.
    apply unser_elems_sound in H; [|assumption|eapply bytes_ok_app_r; eassumption].
    destruct H as [Hb1 [HP Hl]]. subst b1. unfold ser_vec, Pvec.
    replace (Z.of_nat (length xs)) with n by lia. rewrite <- app_assoc.
    repeat split; [assumption|lia].
  Qed.

  Lemma unser_vec_complete (Hc : complete rd wr P) fuel xs r :
    Pvec xs -> (length xs <= fuel)%nat -> unser_vec rd fuel (ser_vec wr xs ++ r) = Some (xs, r).
  Proof.
    intros [HP Hl] Hf. unfold unser_vec, ser_vec. rewrite <- app_assoc.
    rewrite compact_size_complete by lia. apply unser_elems_complete; assumption.
  Qed.
End Vec.

(* ============================================================================================== *)
(* COutPoint, CTxIn, CTxOut                                                                        *)

Lemma wf_u32_iff v : wf_u32 v = true <-> 0 <= v < two32.
Proof. unfold wf_u32. rewrite andb_true_iff, Z.leb_le, Z.ltb_lt. reflexivity. Qed.

Lemma wf_outpoint_iff o :
  wf_outpoint o = true <-> length (op_hash o) = 32%nat /\ bytes_ok (op_hash o) /\ 0 <= op_n o < two32.
Proof.
  unfold wf_outpoint. rewrite !andb_true_iff, Nat.eqb_eq, bytes_okb_ok, wf_u32_iff. tauto.
Qed.

Lemma outpoint_sound : sound rd_outpoint wr_outpoint (fun o => wf_outpoint o = true).
Proof.
  intros b o r Hb H. unfold rd_outpoint in H.
  destruct (take 32 b) as [[h b1]|] eqn:Et; [|discriminate].
  apply take_sound in Et; [|lia]. destruct Et as [Hbe Hl]. subst b.
  destruct (read_le 4 b1) as [[n b2]|] eqn:Er; [|discriminate].
  apply read_le4_sound in Er; [|eapply bytes_ok_app_r; eassumption]. destruct Er as [Hb1 Hn]. subst b1.
  inversion H; subst. unfold wr_outpoint. cbn [op_hash op_n].
  rewrite wr_u32_small by assumption. rewrite <- app_assoc. split; [reflexivity|].
  apply wf_outpoint_iff. cbn [op_hash op_n]. unfold zlen in Hl.
  repeat split; try lia. eapply bytes_ok_app_l; eassumption.
Qed.

Lemma outpoint_complete : complete rd_outpoint wr_outpoint (fun o => wf_outpoint o = true).
Proof.
  intros o r Ho. apply wf_outpoint_iff in Ho. destruct Ho as [Hl [Hok Hn]].
  unfold rd_outpoint, wr_outpoint. rewrite <- app_assoc.
  rewrite take_app by (unfold zlen; lia).
  rewrite wr_u32_small by assumption. rewrite read_le4_complete by assumption.
  destruct o; reflexivity.
Qed.

Definition Ptxin (i : txin) : Prop := wf_txin i = true /\ ti_witness i = [].

Lemma wf_txin_iff i :
  wf_txin i = true <-> wf_outpoint (ti_prevout i) = true /\ wf_bytes_vec (ti_scriptSig i) = true
                       /\ 0 <= ti_sequence i < two32 /\ wf_witness (ti_witness i) = true.
Proof. unfold wf_txin. rewrite !andb_true_iff, wf_u32_iff. tauto. Qed.

Lemma txin_sound : sound rd_txin wr_txin Ptxin.
Proof.
  intros b i r Hb H. unfold rd_txin in H.
  destruct (rd_outpoint b) as [[o b1]|] eqn:Eo; [|discriminate].
  apply outpoint_sound in Eo; [|assumption]. destruct Eo as [Hbe Ho]. subst b.
  assert (Hb1 : bytes_ok b1) by (eapply bytes_ok_app_r; eassumption).
  destruct (rd_bytes_vec b1) as [[s b2]|] eqn:Es; [|discriminate].
  apply bytes_vec_sound in Es; [|assumption]. destruct Es as [Hbe Hs]. subst b1.
  assert (Hb2 : bytes_ok b2) by (eapply bytes_ok_app_r; eassumption).
  destruct (read_le 4 b2) as [[q b3]|] eqn:Eq; [|discriminate].
  apply read_le4_sound in Eq; [|assumption]. destruct Eq as [Hbe Hq]. subst b2.
  inversion H; subst. unfold wr_txin, Ptxin. cbn [ti_prevout ti_scriptSig ti_sequence ti_witness].
  rewrite wr_u32_small by assumption. rewrite <- !app_assoc. split; [reflexivity|].
  split; [|reflexivity]. apply wf_txin_iff. cbn [ti_prevout ti_scriptSig ti_sequence ti_witness].
  repeat split; try assumption; lia.
Qed.

Lemma txin_complete : complete rd_txin wr_txin Ptxin.
Proof.
  intros i r [Hi Hw]. apply wf_txin_iff in Hi. destruct Hi as [Ho [Hs [Hq _]]].
  unfold rd_txin, wr_txin. rewrite <- !app_assoc.
  rewrite outpoint_complete by assumption. rewrite bytes_vec_complete by assumption.
  rewrite wr_u32_small by assumption. rewrite read_le4_complete by assumption.
  destruct i; cbn in *; subst; reflexivity.
Qed.

Lemma wf_txout_iff o :
  wf_txout o = true <-> - two63 <= to_value o < two63 /\ wf_bytes_vec (to_spk o) = true.
Proof. unfold wf_txout. rewrite !andb_true_iff, Z.leb_le, Z.ltb_lt. tauto. Qed.

Lemma txout_sound : sound rd_txout wr_txout (fun o => wf_txout o = true).
Proof.
  intros b o r Hb H. unfold rd_txout in H.
  destruct (read_le 8 b) as [[v b1]|] eqn:Ev; [|discriminate].
  apply read_le8_sound in Ev; [|assumption]. destruct Ev as [Hbe Hv]. subst b.
  destruct (rd_bytes_vec b1) as [[s b2]|] eqn:Es; [|discriminate].
  apply bytes_vec_sound in Es; [|eapply bytes_ok_app_r; eassumption]. destruct Es as [Hbe Hs]. subst b1.
  inversion H; subst. unfold wr_txout. cbn [to_value to_spk].
  rewrite wr_u64_signed by assumption. rewrite <- !app_assoc. split; [reflexivity|].
  apply wf_txout_iff. cbn [to_value to_spk]. split; [apply to_signed64_range|]; assumption.
Qed.

Lemma txout_complete : complete rd_txout wr_txout (fun o => wf_txout o = true).
Proof.
  intros o r Ho. apply wf_txout_iff in Ho. destruct Ho as [Hv Hs].
  unfold rd_txout, wr_txout, wr_u64. rewrite <- !app_assoc.
  rewrite read_le8_complete by (apply mod_range; reflexivity).
  rewrite bytes_vec_complete by assumption. rewrite to_signed64_mod by assumption.
  destruct o; reflexivity.
Qed.

(* ============================================================================================== *)
(* Witness stacks                                                                                 *)

Definition Pbv (v : bytes) : Prop := wf_bytes_vec v = true.
Definition clear_witness (i : txin) : txin := set_witness i [].
Definition Rwit (i i' : txin) : Prop :=
  i' = set_witness i (ti_witness i') /\ wf_witness (ti_witness i') = true.

Lemma wf_witness_iff w : wf_witness w = true <-> Pvec Pbv w.
Proof.
  unfold wf_witness, Pvec, Pbv. rewrite andb_true_iff, Z.leb_le, forallb_forall, Forall_forall. tauto.
Qed.

Lemma wr_txin_set_witness i w : wr_txin (set_witness i w) = wr_txin i.
Proof. reflexivity. Qed.

Lemma set_witness_self i : set_witness i (ti_witness i) = i.
Proof. destruct i; reflexivity. Qed.

Lemma rd_witnesses_sound fuel : forall vin b vin' r,
  bytes_ok b -> rd_witnesses fuel vin b = Some (vin', r) ->
  b = flat_map wr_witness vin' ++ r /\ Forall2 Rwit vin vin'.
Proof.
  induction vin as [|i vin IH]; intros b vin' r Hb H; cbn [rd_witnesses] in H.
  - inversion H; subst. split; [reflexivity|constructor].
  - destruct (unser_vec rd_bytes_vec fuel b) as [[w b1]|] eqn:Ew; [|discriminate].
    apply (unser_vec_sound _ _ _ bytes_vec_sound) in Ew; [|assumption]. destruct Ew as [Hbe Hw]. subst b.
    destruct (rd_witnesses fuel vin b1) as [[r' b2]|] eqn:Er; [|discriminate].
    apply IH in Er; [|eapply bytes_ok_app_r; eassumption]. destruct Er as [Hb1 HR]. subst b1.
    inversion H; subst. cbn [flat_map]. unfold wr_witness at 1. cbn [set_witness ti_witness].
    rewrite <- app_assoc. split; [reflexivity|]. constructor; [|assumption].
    split; [reflexivity|]. cbn [set_witness ti_witness]. apply wf_witness_iff. assumption.
Qed.

Lemma rd_witnesses_complete fuel : forall vin r,
  Forall (fun i => wf_witness (ti_witness i) = true /\ (length (ti_witness i) <= fuel)%nat) vin ->
  rd_witnesses fuel (map clear_witness vin) (flat_map wr_witness vin ++ r) = Some (vin, r).
Proof.
  induction vin as [|i vin IH]; intros r HF; cbn [map rd_witnesses flat_map].
  - reflexivity.
  - inversion HF as [|? ? [Hw Hl] HF']; subst. rewrite <- app_assoc. unfold wr_witness at 1.
    rewrite (unser_vec_complete _ _ _ bytes_vec_complete) by (apply wf_witness_iff in Hw; assumption).
    rewrite IH by assumption. unfold clear_witness. cbn [set_witness ti_prevout ti_scriptSig ti_sequence].
    f_equal. f_equal. f_equal. destruct i; reflexivity.
Qed.

Lemma Rwit_flat_map vin vin' :
  Forall2 Rwit vin vin' -> flat_map wr_txin vin' = flat_map wr_txin vin /\ length vin' = length vin.
Proof.
  induction 1 as [|i i' vin vin' [Hi _] _ [IH1 IH2]]; [split; reflexivity|].
  cbn [flat_map length]. rewrite IH1, IH2, Hi, wr_txin_set_witness. split; reflexivity.
Qed.

Lemma Rwit_ser_vec vin vin' : Forall2 Rwit vin vin' -> ser_vec wr_txin vin' = ser_vec wr_txin vin.
Proof. intros H. apply Rwit_flat_map in H. destruct H as [H1 H2]. unfold ser_vec. rewrite H1, H2. reflexivity. Qed.

Lemma Rwit_wf vin vin' :
  Forall2 Rwit vin vin' -> Forall Ptxin vin -> Forall (fun i => wf_txin i = true) vin'.
Proof.
  induction 1 as [|i i' vin vin' [Hi Hw] _ IH]; intros HP; [constructor|].
  inversion HP as [|? ? [Hwf _] HP']; subst. constructor; [|apply IH; assumption].
  apply wf_txin_iff in Hwf. destruct Hwf as [H1 [H2 [H3 _]]].
  apply wf_txin_iff. rewrite Hi. cbn [set_witness ti_prevout ti_scriptSig ti_sequence ti_witness].
  repeat split; try assumption; lia.
Qed.

Lemma Rwit_nil_inv vin vin' : Forall2 Rwit vin vin' -> vin' = [] -> vin = [].
Proof. intros H E. subst. inversion H. reflexivity. Qed.

Lemma Ptxin_no_witness vin : Forall Ptxin vin -> has_witness vin = false.
Proof.
  induction 1 as [|i vin [_ Hw] _ IH]; [reflexivity|].
  unfold has_witness in *. cbn [existsb]. rewrite Hw, IH. reflexivity.
Qed.

Lemma no_witness_clear vin : has_witness vin = false -> map clear_witness vin = vin.
Proof.
  induction vin as [|i vin IH]; intros H; [reflexivity|].
  unfold has_witness in *. cbn [existsb] in H. apply orb_false_iff in H. destruct H as [Hi Hr].
  cbn [map]. rewrite IH by assumption. f_equal.
  destruct i as [o s q w]; cbn in *. destruct w; [reflexivity|discriminate].
Qed.

Lemma wf_clear_Ptxin vin :
  Forall (fun i => wf_txin i = true) vin -> Forall Ptxin (map clear_witness vin).
Proof.
  induction 1 as [|i vin Hi _ IH]; cbn [map]; constructor; [|assumption].
  apply wf_txin_iff in Hi. destruct Hi as [H1 [H2 [H3 _]]].
  split; [|reflexivity]. apply wf_txin_iff. unfold clear_witness.
  cbn [set_witness ti_prevout ti_scriptSig ti_sequence ti_witness]. repeat split; try assumption; lia.
Qed.

Lemma ser_vec_clear vin : ser_vec wr_txin (map clear_witness vin) = ser_vec wr_txin vin.
Proof.
  unfold ser_vec. rewrite map_length. f_equal.
  induction vin as [|i vin IH]; [reflexivity|]. cbn [map flat_map]. rewrite IH. reflexivity.
Qed.

Lemma has_witness_nil_false : has_witness [] = false.
Proof. reflexivity. Qed.

(* ============================================================================================== *)
(* UnserializeTransaction: soundness                                                               *)

Lemma unser_tail_sound aw fuel ver flags vin vout b t r :
  bytes_ok b -> unser_tail aw fuel ver flags vin vout b = Some (t, r) ->
  exists vin' lt,
    t = {| tx_version := ver; tx_vin := vin'; tx_vout := vout; tx_locktime := lt |}
    /\ 0 <= lt < two32
    /\ ((flags = 0 /\ vin' = vin /\ b = wr_u32 lt ++ r)
        \/ (flags = 1 /\ aw = true /\ has_witness vin' = true /\ Forall2 Rwit vin vin'
            /\ b = flat_map wr_witness vin' ++ wr_u32 lt ++ r)).
Proof.
  intros Hb H. unfold unser_tail in H.
  destruct (Z.odd flags && aw) eqn:Eo.
  - apply andb_true_iff in Eo. destruct Eo as [Hodd Haw].
    destruct (rd_witnesses fuel vin b) as [[vin' b']|] eqn:Ew; [|discriminate].
    apply rd_witnesses_sound in Ew; [|assumption]. destruct Ew as [Hbe HR]. subst b.
    destruct (has_witness vin') eqn:Eh; [|discriminate].
    destruct (Z.lxor flags 1 =? 0) eqn:Ef; cbn [negb] in H; [|discriminate].
    apply Z.eqb_eq in Ef. apply Z.lxor_eq in Ef.
    destruct (read_le 4 b') as [[lt b'']|] eqn:El; [|discriminate].
    apply read_le4_sound in El; [|eapply bytes_ok_app_r; eassumption]. destruct El as [Hb' Hlt]. subst b'.
    inversion H; subst. exists vin', lt. split; [reflexivity|]. split; [assumption|]. right.
    rewrite wr_u32_small by assumption. repeat split; assumption.
  - destruct (flags =? 0) eqn:Ef; cbn [negb] in H; [|discriminate].
    apply Z.eqb_eq in Ef.
    destruct (read_le 4 b) as [[lt b'']|] eqn:El; [|discriminate].
    apply read_le4_sound in El; [|assumption]. destruct El as [Hb' Hlt]. subst b.
    inversion H; subst. exists vin, lt. split; [reflexivity|]. split; [assumption|]. left.
    rewrite wr_u32_small by assumption. repeat split.
Qed.

Lemma wf_tx_iff t :
  wf_tx t = true <->
  - two31 <= tx_version t < two31
  /\ Pvec (fun i => wf_txin i = true) (tx_vin t)
  /\ Pvec (fun o => wf_txout o = true) (tx_vout t)
  /\ 0 <= tx_locktime t < two32.
Proof.
  unfold wf_tx, Pvec. rewrite !andb_true_iff, !Z.leb_le, Z.ltb_lt, wf_u32_iff,
    !forallb_forall, !Forall_forall. tauto.
Qed.

Lemma ser_vec_nil {A} (wr : A -> bytes) : ser_vec wr [] = [0].
Proof. reflexivity. Qed.

Definition tx_side_ok (aw : bool) (t : tx) : Prop :=
  (aw = true -> tx_vin t = [] -> tx_vout t = []) /\ (aw = false -> tx_has_witness t = false).

Lemma Ptxin_wf vin : Forall Ptxin vin -> Forall (fun i => wf_txin i = true) vin.
Proof. apply Forall_impl. intros i [H _]. exact H. Qed.

(* assembling the legacy layout *)
Lemma sound_legacy aw v vin vout lt r :
  0 <= v < two32 -> Pvec Ptxin vin -> Pvec (fun o => wf_txout o = true) vout -> 0 <= lt < two32 ->
  (aw = true -> vin = [] -> vout = []) ->
  let t := {| tx_version := to_signed32 v; tx_vin := vin; tx_vout := vout; tx_locktime := lt |} in
  le_fixed 4 v ++ ser_vec wr_txin vin ++ ser_vec wr_txout vout ++ wr_u32 lt ++ r = ser_tx aw t ++ r
  /\ wf_tx t = true /\ tx_side_ok aw t.
Proof.
  intros Hv [HPi Hli] Hvout Hlt Hemp t.
  assert (Hnw : has_witness vin = false) by (apply Ptxin_no_witness; assumption).
  split; [|split].
  - unfold ser_tx, tx_has_witness. subst t. cbn [tx_version tx_vin tx_vout tx_locktime].
    rewrite Hnw, andb_false_r. rewrite wr_u32_signed by assumption.
    cbn [app]. rewrite <- !app_assoc. reflexivity.
  - apply wf_tx_iff. subst t. cbn [tx_version tx_vin tx_vout tx_locktime].
    split; [apply to_signed32_range; assumption|]. split; [|split; assumption].
    split; [apply Ptxin_wf; assumption|assumption].
  - split; subst t; cbn [tx_vin tx_vout]; [assumption|]. intros _. exact Hnw.
Qed.

(* assembling the extended layout *)
Lemma sound_ext v vin vin' vout lt r :
  0 <= v < two32 -> Pvec Ptxin vin -> Forall2 Rwit vin vin' -> has_witness vin' = true ->
  Pvec (fun o => wf_txout o = true) vout -> 0 <= lt < two32 ->
  let t := {| tx_version := to_signed32 v; tx_vin := vin'; tx_vout := vout; tx_locktime := lt |} in
  le_fixed 4 v ++ [0] ++ 1 :: ser_vec wr_txin vin ++ ser_vec wr_txout vout
    ++ flat_map wr_witness vin' ++ wr_u32 lt ++ r = ser_tx true t ++ r
  /\ wf_tx t = true /\ tx_side_ok true t.
Proof.
  intros Hv [HPi Hli] HR Hw Hvout Hlt t.
  split; [|split].
  - unfold ser_tx, tx_has_witness. subst t. cbn [tx_version tx_vin tx_vout tx_locktime].
    rewrite Hw. cbn [andb]. rewrite wr_u32_signed by assumption.
    rewrite (Rwit_ser_vec _ _ HR). cbn [app]. rewrite <- !app_assoc. cbn [app]. rewrite <- ?app_assoc. reflexivity.
  - apply wf_tx_iff. subst t. cbn [tx_version tx_vin tx_vout tx_locktime].
    split; [apply to_signed32_range; assumption|]. split; [|split; assumption].
    split; [eapply Rwit_wf; eassumption|].
    apply Rwit_flat_map in HR. destruct HR as [_ HRl]. rewrite HRl. assumption.
  - split; subst t; cbn [tx_vin tx_vout]; [|discriminate].
    intros _ E. rewrite E in Hw. discriminate.
Qed.

Theorem unser_tx_fuel_sound aw fuel b t r :
  bytes_ok b -> unser_tx_fuel aw fuel b = Some (t, r) ->
  b = ser_tx aw t ++ r /\ wf_tx t = true /\ tx_side_ok aw t.
Proof.
  intros Hb H. unfold unser_tx_fuel in H.
  destruct (read_le 4 b) as [[v b1]|] eqn:Ev; [|discriminate].
  apply read_le4_sound in Ev; [|assumption]. destruct Ev as [Hbe Hv]. subst b.
  assert (Hb1 : bytes_ok b1) by (eapply bytes_ok_app_r; eassumption).
  destruct (unser_vec rd_txin fuel b1) as [[vin b2]|] eqn:Ei; [|discriminate].
  apply (unser_vec_sound _ _ _ txin_sound) in Ei; [|assumption]. destruct Ei as [Hbe HPin]. subst b1.
  assert (Hb2 : bytes_ok b2) by (eapply bytes_ok_app_r; eassumption).
  destruct ((match vin with [] => true | _ :: _ => false end) && aw) eqn:Ed.
  - apply andb_true_iff in Ed. destruct Ed as [Evin Eaw]. subst aw.
    destruct vin as [|? ?]; [|discriminate]. clear Evin HPin.
    destruct b2 as [|flags b3]; [discriminate|].
    apply bytes_ok_cons in Hb2. destruct Hb2 as [Hfl Hb3].
    destruct (flags =? 0) eqn:Ef; cbn [negb] in H.
    + apply Z.eqb_eq in Ef. subst flags.
      apply unser_tail_sound in H; [|assumption].
      destruct H as [vin' [lt [Ht [Hlt [[_ [Hvin Hbe]]|[Habs _]]]]]]; [|discriminate]. subst vin' b3 t.
      rewrite ser_vec_nil.
      pose proof (sound_legacy true v [] [] lt r Hv) as HL. cbv zeta in HL.
      rewrite !ser_vec_nil in HL. apply HL; try assumption.
      * split; [constructor|cbn; unfold MAX_SIZE; lia].
      * split; [constructor|cbn; unfold MAX_SIZE; lia].
      * reflexivity.
    + apply Z.eqb_neq in Ef.
      destruct (unser_vec rd_txin fuel b3) as [[vin b4]|] eqn:Ei; [|discriminate].
      apply (unser_vec_sound _ _ _ txin_sound) in Ei; [|assumption]. destruct Ei as [Hbe HPin]. subst b3.
      assert (Hb4 : bytes_ok b4) by (eapply bytes_ok_app_r; eassumption).
      destruct (unser_vec rd_txout fuel b4) as [[vout b5]|] eqn:Eo; [|discriminate].
      apply (unser_vec_sound _ _ _ txout_sound) in Eo; [|assumption]. destruct Eo as [Hbe HPout]. subst b4.
      assert (Hb5 : bytes_ok b5) by (eapply bytes_ok_app_r; eassumption).
      apply unser_tail_sound in H; [|assumption].
      destruct H as [vin' [lt [Ht [Hlt [[Habs _]|[Hf1 [_ [Hw [HR Hbe]]]]]]]]]; [contradiction|].
      subst flags b5 t. rewrite ser_vec_nil.
      apply (sound_ext v vin vin' vout lt r); assumption.
  - destruct (unser_vec rd_txout fuel b2) as [[vout b3]|] eqn:Eo; [|discriminate].
    apply (unser_vec_sound _ _ _ txout_sound) in Eo; [|assumption]. destruct Eo as [Hbe HPout]. subst b2.
    assert (Hb3 : bytes_ok b3) by (eapply bytes_ok_app_r; eassumption).
    apply unser_tail_sound in H; [|assumption].
    destruct H as [vin' [lt [Ht [Hlt [[_ [Hvin Hbe]]|[Habs _]]]]]]; [|discriminate]. subst vin' b3 t.
    apply (sound_legacy aw v vin vout lt r); try assumption.
    intros Haw Hvin. subst aw vin. discriminate.
Qed.

(* ============================================================================================== *)
(* UnserializeTransaction: completeness                                                            *)

Definition fuel_ok (fuel : nat) (t : tx) : Prop :=
  (length (tx_vin t) <= fuel)%nat /\ (length (tx_vout t) <= fuel)%nat
  /\ Forall (fun i => (length (ti_witness i) <= fuel)%nat) (tx_vin t).

Lemma unser_vec_zero {A} (rd : reader A) fuel X : unser_vec rd fuel (0 :: X) = Some ([], X).
Proof. unfold unser_vec. cbn [read_compact_size]. change (0 <? 253) with true. cbv iota. rewrite unser_elems_eq. reflexivity. Qed.

Lemma unser_tail_legacy aw fuel ver vin vout lt rest :
  0 <= lt < two32 ->
  unser_tail aw fuel ver 0 vin vout (wr_u32 lt ++ rest) =
  Some ({| tx_version := ver; tx_vin := vin; tx_vout := vout; tx_locktime := lt |}, rest).
Proof.
  intros Hlt. unfold unser_tail. change (Z.odd 0) with false. cbn [andb]. change (0 =? 0) with true.
  cbn [negb]. rewrite wr_u32_small by assumption. rewrite read_le4_complete by assumption. reflexivity.
Qed.

Theorem unser_tx_fuel_complete aw fuel t rest :
  wf_tx t = true -> tx_side_ok aw t -> fuel_ok fuel t ->
  unser_tx_fuel aw fuel (ser_tx aw t ++ rest) = Some (t, rest).
Proof.
  intros Hwf [Hemp Hnw] [Hfi [Hfo Hfw]]. apply wf_tx_iff in Hwf.
  destruct Hwf as [Hver [[HPi Hli] [HPo Hlt]]].
  destruct t as [ver vin vout lt]. unfold tx_has_witness in *.
  cbn [tx_version tx_vin tx_vout tx_locktime] in *.
  unfold ser_tx, tx_has_witness. cbn [tx_version tx_vin tx_vout tx_locktime].
  unfold unser_tx_fuel. unfold wr_u32 at 1. rewrite <- !app_assoc.
  rewrite read_le4_complete by (apply mod_range; reflexivity). cbv beta iota zeta.
  rewrite to_signed32_mod by assumption.
  destruct (aw && has_witness vin) eqn:Eext.
  - apply andb_true_iff in Eext. destruct Eext as [Haw Hw]. subst aw.
    cbn [app]. rewrite unser_vec_zero. cbn [andb]. change (1 =? 0) with false. cbn [negb].
    rewrite <- ser_vec_clear.
    rewrite (unser_vec_complete _ _ _ txin_complete);
      [|split; [apply wf_clear_Ptxin; assumption|rewrite map_length; assumption]|rewrite map_length; assumption].
    rewrite (unser_vec_complete _ _ _ txout_complete) by (split; assumption) || assumption.
    unfold unser_tail. change (Z.odd 1) with true. cbn [andb].
    rewrite rd_witnesses_complete.
    + rewrite Hw. change (Z.lxor 1 1 =? 0) with true. cbn [negb].
      rewrite wr_u32_small by assumption. rewrite read_le4_complete by assumption. reflexivity.
    + rewrite Forall_forall in *. intros i Hi. split; [|apply Hfw; assumption].
      specialize (HPi i Hi). apply wf_txin_iff in HPi. tauto.
  - assert (Hw : has_witness vin = false).
    { destruct aw; [exact Eext|apply Hnw; reflexivity]. }
    assert (HP : Forall Ptxin vin).
    { rewrite <- (no_witness_clear vin Hw). apply wf_clear_Ptxin. assumption. }
    cbn [app].
    rewrite (unser_vec_complete _ _ _ txin_complete) by (split; assumption) || assumption.
    destruct ((match vin with [] => true | _ :: _ => false end) && aw) eqn:Ed.
    + apply andb_true_iff in Ed. destruct Ed as [Evin Eaw]. subst aw.
      destruct vin as [|? ?]; [|discriminate].
      rewrite (Hemp eq_refl eq_refl). rewrite ser_vec_nil. cbn [app].
      change (0 =? 0) with true. cbn [negb]. apply unser_tail_legacy. assumption.
    + rewrite (unser_vec_complete _ _ _ txout_complete) by (split; assumption) || assumption.
      apply unser_tail_legacy. assumption.
Qed.

(* ============================================================================================== *)
(* Fuel: the length of the input always suffices                                                   *)

Lemma length_flat_map_ge {A} (wr : A -> bytes) (l : list A) :
  (forall x, (1 <= length (wr x))%nat) -> (length l <= length (flat_map wr l))%nat.
Proof.
  intros H. induction l as [|x l IH]; cbn [flat_map length]; [lia|].
  rewrite app_length. specialize (H x). lia.
Qed.

Lemma In_flat_map_length {A} (wr : A -> bytes) (l : list A) x :
  In x l -> (length (wr x) <= length (flat_map wr l))%nat.
Proof.
  induction l as [|y l IH]; intros Hin; [contradiction|]. cbn [flat_map]. rewrite app_length.
  destruct Hin as [->|Hin]; [lia|]. specialize (IH Hin). lia.
Qed.

Lemma write_compact_size_len n : (1 <= length (write_compact_size n))%nat.
Proof.
  unfold write_compact_size. destruct (n <? 253); [cbn; lia|].
  destruct (n <=? 65535); [cbn [length]; lia|]. destruct (n <=? 4294967295); cbn [length]; lia.
Qed.

Lemma ser_vec_length_ge {A} (wr : A -> bytes) (l : list A) :
  (forall x, (1 <= length (wr x))%nat) -> (length l <= length (ser_vec wr l))%nat.
Proof.
  intros H. unfold ser_vec. rewrite app_length. pose proof (length_flat_map_ge wr l H). lia.
Qed.

Lemma wr_bytes_vec_len v : (1 <= length (wr_bytes_vec v))%nat.
Proof. unfold wr_bytes_vec. rewrite app_length. pose proof (write_compact_size_len (zlen v)). lia. Qed.

Lemma wr_txin_len i : (1 <= length (wr_txin i))%nat.
Proof. unfold wr_txin, wr_u32. rewrite !app_length, le_fixed_length. lia. Qed.

Lemma wr_txout_len o : (1 <= length (wr_txout o))%nat.
Proof. unfold wr_txout, wr_u64. rewrite !app_length, le_fixed_length. lia. Qed.

Lemma no_witness_forall vin : has_witness vin = false -> Forall (fun i => ti_witness i = []) vin.
Proof.
  induction vin as [|i vin IH]; intros H; constructor;
    unfold has_witness in *; cbn [existsb] in H; apply orb_false_iff in H; destruct H as [Hi Hr].
  - destruct (ti_witness i); [reflexivity|discriminate].
  - apply IH. assumption.
Qed.

Lemma fuel_ok_ser aw t rest : tx_side_ok aw t -> fuel_ok (length (ser_tx aw t ++ rest)) t.
Proof.
  intros [_ Hnw]. unfold fuel_ok, ser_tx. rewrite !app_length.
  pose proof (ser_vec_length_ge wr_txin (tx_vin t) wr_txin_len) as H1.
  pose proof (ser_vec_length_ge wr_txout (tx_vout t) wr_txout_len) as H2.
  split; [lia|]. split; [lia|].
  destruct (aw && tx_has_witness t) eqn:Eext.
  - rewrite Forall_forall. intros i Hi.
    pose proof (In_flat_map_length wr_witness (tx_vin t) i Hi) as H3.
    pose proof (ser_vec_length_ge wr_bytes_vec (ti_witness i) wr_bytes_vec_len) as H4.
    unfold wr_witness in H3 at 1. lia.
  - assert (Hw : has_witness (tx_vin t) = false).
    { destruct aw; [exact Eext|apply Hnw; reflexivity]. }
    apply no_witness_forall in Hw. revert Hw. apply Forall_impl. intros i ->. cbn [length]. lia.
Qed.

(* ============================================================================================== *)
(* bytes_ok of the serialisation                                                                   *)

Lemma bytes_ok_flat_map {A} (wr : A -> bytes) (l : list A) :
  Forall (fun x => bytes_ok (wr x)) l -> bytes_ok (flat_map wr l).
Proof.
  induction 1 as [|x l Hx _ IH]; cbn [flat_map]; [constructor|]. apply bytes_ok_app. split; assumption.
Qed.

Lemma write_compact_size_ok n : 0 <= n -> bytes_ok (write_compact_size n).
Proof.
  intros Hn. unfold write_compact_size. destruct (Z.ltb_spec n 253).
  - apply bytes_ok_cons. split; [lia|constructor].
  - destruct (n <=? 65535); [|destruct (n <=? 4294967295)];
      (apply bytes_ok_cons; split; [lia|apply le_fixed_ok]).
Qed.

Lemma ser_vec_ok {A} (wr : A -> bytes) (l : list A) :
  Forall (fun x => bytes_ok (wr x)) l -> bytes_ok (ser_vec wr l).
Proof.
  intros H. unfold ser_vec. apply bytes_ok_app. split; [apply write_compact_size_ok; lia|].
  apply bytes_ok_flat_map. assumption.
Qed.

Lemma wr_bytes_vec_ok v : wf_bytes_vec v = true -> bytes_ok (wr_bytes_vec v).
Proof.
  intros H. apply wf_bytes_vec_iff in H. destruct H as [H _]. unfold wr_bytes_vec.
  apply bytes_ok_app. split; [apply write_compact_size_ok; apply zlen_nonneg|assumption].
Qed.

Lemma wr_txin_ok i : wf_txin i = true -> bytes_ok (wr_txin i).
Proof.
  intros H. apply wf_txin_iff in H. destruct H as [Ho [Hs _]]. apply wf_outpoint_iff in Ho.
  destruct Ho as [_ [Hh _]]. unfold wr_txin, wr_outpoint, wr_u32.
  apply bytes_ok_app; split; [apply bytes_ok_app; split; [assumption|apply le_fixed_ok]|].
  apply bytes_ok_app; split; [apply wr_bytes_vec_ok; assumption|apply le_fixed_ok].
Qed.

Lemma wr_txout_ok o : wf_txout o = true -> bytes_ok (wr_txout o).
Proof.
  intros H. apply wf_txout_iff in H. destruct H as [_ Hs]. unfold wr_txout, wr_u64.
  apply bytes_ok_app; split; [apply le_fixed_ok|apply wr_bytes_vec_ok; assumption].
Qed.

Lemma wr_witness_ok i : wf_txin i = true -> bytes_ok (wr_witness i).
Proof.
  intros H. apply wf_txin_iff in H. destruct H as [_ [_ [_ Hw]]]. apply wf_witness_iff in Hw.
  destruct Hw as [Hw _]. unfold wr_witness. apply ser_vec_ok. revert Hw. apply Forall_impl.
  intros v Hv. apply wr_bytes_vec_ok. exact Hv.
Qed.

Lemma ser_tx_ok aw t : wf_tx t = true -> bytes_ok (ser_tx aw t).
Proof.
  intros H. apply wf_tx_iff in H. destruct H as [_ [[Hi _] [[Ho _] _]]]. unfold ser_tx, wr_u32.
  apply bytes_ok_app; split; [apply le_fixed_ok|].
  apply bytes_ok_app; split; [|apply bytes_ok_app; split; [|apply bytes_ok_app; split;
    [|apply bytes_ok_app; split; [|apply le_fixed_ok]]]].
  - destruct (aw && tx_has_witness t); [|constructor].
    apply bytes_ok_cons; split; [lia|]. apply bytes_ok_cons; split; [lia|constructor].
  - apply ser_vec_ok. revert Hi. apply Forall_impl. exact wr_txin_ok.
  - apply ser_vec_ok. revert Ho. apply Forall_impl. exact wr_txout_ok.
  - destruct (aw && tx_has_witness t); [|constructor].
    apply bytes_ok_flat_map. revert Hi. apply Forall_impl. exact wr_witness_ok.
Qed.

Lemma bytes_ok_firstn k b : bytes_ok b -> bytes_ok (firstn k b).
Proof.
  intros H. rewrite <- (firstn_skipn k b) in H. eapply bytes_ok_app_l; eassumption.
Qed.

(* ============================================================================================== *)
(* Transaction-level theorems                                                                      *)

Theorem unser_tx_sound aw b t r :
  bytes_ok b -> unser_tx aw b = Some (t, r) ->
  b = ser_tx aw t ++ r /\ wf_tx t = true /\ tx_side_ok aw t.
Proof. unfold unser_tx. apply unser_tx_fuel_sound. Qed.

Theorem unser_tx_complete aw t rest :
  wf_tx t = true -> tx_side_ok aw t -> unser_tx aw (ser_tx aw t ++ rest) = Some (t, rest).
Proof.
  intros Hwf Hs. unfold unser_tx. apply unser_tx_fuel_complete; try assumption.
  apply fuel_ok_ser. assumption.
Qed.

Theorem tx_roundtrip_bytes_pr aw b t rest :
  bytes_ok b -> unser_tx aw b = Some (t, rest) -> ser_tx aw t ++ rest = b.
Proof. intros Hb H. symmetry. eapply unser_tx_sound; eassumption. Qed.

(* every strict prefix of a valid encoding is rejected *)
Theorem unser_tx_truncation aw t k :
  wf_tx t = true -> tx_side_ok aw t -> (k < length (ser_tx aw t))%nat ->
  unser_tx aw (firstn k (ser_tx aw t)) = None.
Proof.
  intros Hwf Hs Hk. set (s := ser_tx aw t) in *.
  destruct (unser_tx aw (firstn k s)) as [[t' r']|] eqn:E; [|reflexivity]. exfalso.
  apply unser_tx_sound in E; [|apply bytes_ok_firstn; apply ser_tx_ok; assumption].
  destruct E as [Hfe [Hwf' Hs']].
  pose proof (unser_tx_complete aw t' (r' ++ skipn k s) Hwf' Hs') as H1.
  rewrite app_assoc, <- Hfe, firstn_skipn in H1.
  pose proof (unser_tx_complete aw t [] Hwf Hs) as H2. rewrite app_nil_r in H2. fold s in H2.
  rewrite H2 in H1. inversion H1 as [[Ht Hr]].
  symmetry in Hr. apply app_eq_nil in Hr. destruct Hr as [_ Hr].
  apply (f_equal (@length Z)) in Hr. rewrite skipn_length in Hr. cbn [length] in Hr. lia.
Qed.

(* the fuel used by [unser_tx] (length of the input) is as good as any larger amount *)
Theorem unser_tx_fuel_irrelevant aw fuel b :
  bytes_ok b -> (length b <= fuel)%nat -> unser_tx_fuel aw fuel b = unser_tx aw b.
Proof.
  intros Hb Hf.
  destruct (unser_tx_fuel aw fuel b) as [[t r]|] eqn:E1.
  - apply unser_tx_fuel_sound in E1; [|assumption]. destruct E1 as [Hbe [Hwf Hs]].
    rewrite Hbe. symmetry. apply unser_tx_complete; assumption.
  - destruct (unser_tx aw b) as [[t r]|] eqn:E2; [|reflexivity].
    apply unser_tx_sound in E2; [|assumption]. destruct E2 as [Hbe [Hwf Hs]].
    rewrite Hbe, unser_tx_fuel_complete in E1; [discriminate|assumption|assumption|].
    pose proof (fuel_ok_ser aw t r Hs) as [F1 [F2 F3]]. rewrite <- Hbe in *.
    split; [lia|]. split; [lia|]. revert F3. apply Forall_impl. intros i Hi. lia.
Qed.

(* --- aw = false: witnesses are dropped ---------------------------------------------------------- *)

Definition strip_witness (t : tx) : tx :=
  {| tx_version := tx_version t; tx_vin := map clear_witness (tx_vin t); tx_vout := tx_vout t;
     tx_locktime := tx_locktime t |}.

Lemma ser_tx_false_strip t : ser_tx false (strip_witness t) = ser_tx false t.
Proof.
  unfold ser_tx, strip_witness. cbn [andb tx_version tx_vin tx_vout tx_locktime].
  rewrite ser_vec_clear. reflexivity.
Qed.

Lemma wf_strip t : wf_tx t = true -> wf_tx (strip_witness t) = true.
Proof.
  intros H. apply wf_tx_iff in H. destruct H as [Hv [[Hi Hli] [Ho Hlt]]]. apply wf_tx_iff.
  unfold strip_witness. cbn [tx_version tx_vin tx_vout tx_locktime].
  split; [assumption|]. split; [|split; assumption].
  split; [apply Ptxin_wf; apply wf_clear_Ptxin; assumption|rewrite map_length; assumption].
Qed.

Lemma strip_no_witness t : wf_tx t = true -> tx_has_witness (strip_witness t) = false.
Proof.
  intros H. apply wf_tx_iff in H. destruct H as [_ [[Hi _] _]].
  unfold tx_has_witness, strip_witness. cbn [tx_vin]. apply Ptxin_no_witness. apply wf_clear_Ptxin. assumption.
Qed.

Lemma strip_id t : tx_has_witness t = false -> strip_witness t = t.
Proof.
  intros H. unfold strip_witness. unfold tx_has_witness in H. rewrite no_witness_clear by assumption.
  destruct t; reflexivity.
Qed.

Theorem tx_roundtrip_value_false_strip t rest :
  wf_tx t = true -> unser_tx false (ser_tx false t ++ rest) = Some (strip_witness t, rest).
Proof.
  intros H. rewrite <- ser_tx_false_strip. apply unser_tx_complete.
  - apply wf_strip. assumption.
  - split; [discriminate|]. intros _. apply strip_no_witness. assumption.
Qed.

(* --- the empty-vin corner ----------------------------------------------------------------------- *)

Lemma wcs_hd_nonzero n X Y : 1 <= n -> write_compact_size n ++ X = 0 :: Y -> False.
Proof.
  intros Hn. unfold write_compact_size.
  destruct (n <? 253); [|destruct (n <=? 65535); [|destruct (n <=? 4294967295)]];
    cbn [app]; intros H; injection H; intros; lia.
Qed.

Theorem novin_vout_never_roundtrips t rest t' r' :
  wf_tx t = true -> bytes_ok rest -> tx_vin t = [] -> tx_vout t <> [] ->
  unser_tx true (ser_tx true t ++ rest) = Some (t', r') -> tx_vin t' <> [].
Proof.
  intros Hwf Hrest Hvin Hvout H Hvin'.
  apply unser_tx_sound in H; [|apply bytes_ok_app; split; [apply ser_tx_ok; assumption|assumption]].
  destruct H as [Heq [_ [Hemp _]]]. specialize (Hemp eq_refl Hvin').
  unfold ser_tx, tx_has_witness in Heq. rewrite Hvin, Hvin', Hemp in Heq.
  rewrite has_witness_nil_false in Heq. cbn [andb] in Heq. rewrite !ser_vec_nil in Heq.
  unfold wr_u32 at 1 3 in Heq. cbn [le_fixed app] in Heq.
  injection Heq as _ _ _ _ Heq.
  destruct (tx_vout t) as [|o vout]; [contradiction|].
  unfold ser_vec in Heq. rewrite <- !app_assoc in Heq.
  eapply wcs_hd_nonzero; [|exact Heq]. cbn [length]. lia.
Qed.

(* ============================================================================================== *)
(* TryHex                                                                                          *)

Lemma hexdigit_props d : 0 <= d < 16 ->
  hex_digit (hexdigit d) = Some d /\ (hexdigit d =? 0) = false /\ is_space (hexdigit d) = false.
Proof.
  intros H.
  assert (Hc : d = 0 \/ d = 1 \/ d = 2 \/ d = 3 \/ d = 4 \/ d = 5 \/ d = 6 \/ d = 7 \/ d = 8
               \/ d = 9 \/ d = 10 \/ d = 11 \/ d = 12 \/ d = 13 \/ d = 14 \/ d = 15) by lia.
  repeat (destruct Hc as [->|Hc]; [vm_compute; auto|]). subst. vm_compute. auto.
Qed.

(* HexStr output is parsed back *)
Theorem parse_hex_hexstr_pr b : bytes_ok b -> parse_hex_spaces (hexstr b) = Some b.
Proof.
  induction b as [|x r IH]; intros Hb; [reflexivity|].
  apply bytes_ok_cons in Hb. destruct Hb as [Hx Hr].
  destruct (hexdigit_props (x / 16)) as [H1 [H2 H3]]; [lia|].
  destruct (hexdigit_props (x mod 16)) as [H4 _]; [lia|].
  cbn [hexstr parse_hex_spaces]. rewrite H2, H3, H1, H4, (IH Hr). f_equal. f_equal. lia.
Qed.

(* a stray (non-hex, non-space, non-NUL) character at a byte boundary makes the whole parse fail;
   nothing of the already decoded prefix is returned *)
Theorem parse_hex_stray_pr b c rest :
  bytes_ok b -> hex_digit c = None -> is_space c = false -> c <> 0 ->
  parse_hex_spaces (hexstr b ++ c :: rest) = None.
Proof.
  intros Hb Hc Hs Hz. induction b as [|x r IH].
  - cbn [hexstr app parse_hex_spaces]. destruct (Z.eqb_spec c 0); [contradiction|]. rewrite Hs, Hc. reflexivity.
  - apply bytes_ok_cons in Hb. destruct Hb as [Hx Hr].
    destruct (hexdigit_props (x / 16)) as [H1 [H2 H3]]; [lia|].
    destruct (hexdigit_props (x mod 16)) as [H4 _]; [lia|].
    cbn [hexstr app parse_hex_spaces]. rewrite H2, H3, H1, H4, (IH Hr). reflexivity.
Qed.

(* white space between bytes and at the end is skipped; NUL terminates *)
Theorem parse_hex_space_pr c s : is_space c = true -> parse_hex_spaces (c :: s) = parse_hex_spaces s.
Proof.
  intros Hs. cbn [parse_hex_spaces]. destruct (Z.eqb_spec c 0) as [->|]; [discriminate|]. rewrite Hs. reflexivity.
Qed.

(* ============================================================================================== *)
(* ParseFixedPoint                                                                                 *)

Definition digit (c : Z) : Prop := 48 <= c <= 57.
Fixpoint dec_acc (acc : Z) (l : list Z) : Z :=
  match l with [] => acc | c :: r => dec_acc (10 * acc + (c - 48)) r end.
Definition dec_value (l : list Z) : Z := dec_acc 0 l.

Definition P10 (n : nat) : Z := 10 ^ Z.of_nat n.
Lemma P10_0 : P10 0 = 1. Proof. reflexivity. Qed.
Lemma P10_S n : P10 (S n) = 10 * P10 n.
Proof. unfold P10. rewrite Nat2Z.inj_succ, Z.pow_succ_r by lia. reflexivity. Qed.
Lemma P10_pos n : 0 < P10 n.
Proof. unfold P10. apply Z.pow_pos_nonneg; lia. Qed.
Lemma P10_add a b : P10 (a + b) = P10 a * P10 b.
Proof. unfold P10. rewrite Nat2Z.inj_add, Z.pow_add_r by lia. reflexivity. Qed.

Lemma dec_acc_lin l : forall a, dec_acc a l = a * P10 (length l) + dec_acc 0 l.
Proof.
  induction l as [|c r IH]; intros a; cbn [dec_acc length].
  - rewrite P10_0. lia.
  - rewrite (IH (10 * a + (c - 48))), (IH (10 * 0 + (c - 48))), P10_S. lia.
Qed.

Lemma dec_cons c r : dec_value (c :: r) = (c - 48) * P10 (length r) + dec_value r.
Proof. unfold dec_value. cbn [dec_acc]. rewrite dec_acc_lin. lia. Qed.

Lemma dec_app a b : dec_value (a ++ b) = dec_value a * P10 (length b) + dec_value b.
Proof.
  induction a as [|c a IH]; cbn [app].
  - unfold dec_value at 2. cbn [dec_acc]. lia.
  - rewrite !dec_cons, IH, app_length, P10_add. lia.
Qed.

Lemma dec_bound l : Forall digit l -> 0 <= dec_value l < P10 (length l).
Proof.
  induction 1 as [|c r Hc _ IH]; [cbn; lia|].
  rewrite dec_cons. cbn [length]. rewrite P10_S. unfold digit in Hc. pose proof (P10_pos (length r)). nia.
Qed.

Lemma is_digit_iff c : is_digit c = true <-> digit c.
Proof. unfold is_digit, digit. rewrite andb_true_iff, !Z.leb_le. reflexivity. Qed.

(* the digit loop as a pure fold over the state (mantissa, mantissa_tzeros) *)
Fixpoint mant_fold (ds : list Z) (m : Z) (tz : nat) : option (Z * nat) :=
  match ds with
  | [] => Some (m, tz)
  | c :: r => match process_mantissa_digit c m tz with
              | None => None
              | Some (m', tz') => mant_fold r m' tz'
              end
  end.

Lemma mant_digits_fold ds : forall rest m tz cnt,
  Forall digit ds -> first_is_digit rest = false ->
  mant_digits (ds ++ rest) m tz cnt =
  match mant_fold ds m tz with
  | None => None
  | Some (m', tz') => Some (m', tz', cnt + Z.of_nat (length ds), rest)
  end.
Proof.
  induction ds as [|c r IH]; intros rest m tz cnt Hd Hr.
  - cbn [app mant_fold length]. rewrite Z.add_0_r. destruct rest as [|c r]; [reflexivity|].
    cbn [first_is_digit] in Hr. cbn [mant_digits]. rewrite Hr. reflexivity.
  - inversion Hd as [|? ? Hc Hd']; subst. apply is_digit_iff in Hc.
    cbn [app mant_digits mant_fold]. rewrite Hc.
    destruct (process_mantissa_digit c m tz) as [[m' tz']|]; [|reflexivity].
    rewrite IH by assumption. cbn [length]. rewrite Nat2Z.inj_succ.
    replace (cnt + 1 + Z.of_nat (length r)) with (cnt + Z.succ (Z.of_nat (length r))) by lia.
    reflexivity.
Qed.

Lemma mant_fold_app a : forall b m tz,
  mant_fold (a ++ b) m tz =
  match mant_fold a m tz with None => None | Some (m', tz') => mant_fold b m' tz' end.
Proof.
  induction a as [|c a IH]; intros b m tz; cbn [app mant_fold]; [reflexivity|].
  destruct (process_mantissa_digit c m tz) as [[m' tz']|]; [apply IH|reflexivity].
Qed.

Lemma mul10_checked_some k : forall m, 0 <= m -> m * P10 k <= UB10 ->
  mul10_checked (S k) m = Some (m * P10 (S k)).
Proof.
  induction k as [|k IH]; intros m Hm Hb.
  - rewrite P10_0 in Hb. cbn [mul10_checked]. destruct (Z.gtb_spec m UB10); [lia|].
    rewrite P10_S, P10_0. f_equal; lia.
  - rewrite P10_S in Hb. pose proof (P10_pos k) as Hp.
    change (mul10_checked (S (S k)) m) with (if m >? UB10 then None else mul10_checked (S k) (m * 10)).
    destruct (Z.gtb_spec m UB10); [nia|].
    rewrite IH by nia. rewrite (P10_S (S k)). f_equal; lia.
Qed.

Lemma mul10_checked_none k : forall m, 0 <= m -> m * P10 k > UB10 -> mul10_checked (S k) m = None.
Proof.
  induction k as [|k IH]; intros m Hm Hb.
  - rewrite P10_0 in Hb. cbn [mul10_checked]. destruct (Z.gtb_spec m UB10); [reflexivity|lia].
  - rewrite P10_S in Hb.
    change (mul10_checked (S (S k)) m) with (if m >? UB10 then None else mul10_checked (S k) (m * 10)).
    destruct (Z.gtb_spec m UB10); [reflexivity|]. apply IH; lia.
Qed.

Definition minv (m : Z) : Prop := 0 <= m <= UPPER_BOUND /\ (m = 0 \/ m mod 10 <> 0).

Lemma pmd_zero m tz : process_mantissa_digit 48 m tz = Some (m, S tz).
Proof. reflexivity. Qed.

Lemma pmd_nonzero c m tz : 49 <= c <= 57 -> 0 <= m ->
  process_mantissa_digit c m tz =
  if m * P10 tz <=? UB10 then Some (m * P10 (S tz) + (c - 48), O) else None.
Proof.
  intros Hc Hm. unfold process_mantissa_digit. destruct (Z.eqb_spec c 48); [lia|].
  destruct (Z.leb_spec (m * P10 tz) UB10).
  - rewrite mul10_checked_some by assumption. reflexivity.
  - rewrite mul10_checked_none by lia. reflexivity.
Qed.

Lemma mant_fold_some ds : forall m tz m' tz',
  Forall digit ds -> minv m -> mant_fold ds m tz = Some (m', tz') ->
  minv m' /\ m' * P10 tz' = m * P10 tz * P10 (length ds) + dec_value ds
  /\ (m' = 0 -> m = 0 /\ tz' = (tz + length ds)%nat).
Proof.
  induction ds as [|c r IH]; intros m tz m' tz' Hd Hi H.
  - cbn [mant_fold] in H. inversion H; subst. cbn [length]. rewrite P10_0.
    split; [assumption|]. split; [unfold dec_value; cbn; lia|]. intros; split; [assumption|lia].
  - inversion Hd as [|? ? Hc Hd']; subst. unfold digit in Hc. cbn [mant_fold] in H.
    rewrite dec_cons. cbn [length]. rewrite P10_S.
    destruct (Z.eq_dec c 48) as [->|Hne].
    + rewrite pmd_zero in H. apply IH in H; [|assumption|assumption].
      destruct H as [Hi' [Hv Hz]]. split; [assumption|]. rewrite P10_S in Hv.
      split; [lia|]. intros E. specialize (Hz E). split; [tauto|lia].
    + destruct Hi as [[Hm0 Hm1] Hm2]. rewrite pmd_nonzero in H by lia.
      destruct (Z.leb_spec (m * P10 tz) UB10) as [Hle|Hgt]; [|discriminate].
      pose proof (P10_pos tz) as Hp. rewrite P10_S in H.
      set (X := m * P10 tz) in *.
      assert (HM : minv (m * (10 * P10 tz) + (c - 48))).
      { unfold minv, UPPER_BOUND, UB10 in *. replace (m * (10 * P10 tz)) with (10 * X) by (unfold X; lia).
        split; [lia|]. right. lia. }
      apply IH in H; [|assumption|assumption].
      destruct H as [Hi' [Hv Hz]]. split; [assumption|]. rewrite P10_0 in Hv.
      split; [unfold X in *; lia|]. intros E. specialize (Hz E). unfold X in *. nia.
Qed.

Lemma mant_fold_none ds : forall m tz,
  Forall digit ds -> minv m -> mant_fold ds m tz = None ->
  exists ds1 d ds2, ds = ds1 ++ d :: ds2 /\ 49 <= d <= 57
                    /\ m * P10 tz * P10 (length ds1) + dec_value ds1 > UB10.
Proof.
  induction ds as [|c r IH]; intros m tz Hd Hi H.
  - discriminate.
  - inversion Hd as [|? ? Hc Hd']; subst. unfold digit in Hc. cbn [mant_fold] in H.
    destruct (Z.eq_dec c 48) as [->|Hne].
    + rewrite pmd_zero in H. apply IH in H; [|assumption|assumption].
      destruct H as [ds1 [d [ds2 [E [Hdr Hov]]]]]. exists (48 :: ds1), d, ds2.
      split; [rewrite E; reflexivity|]. split; [assumption|].
      rewrite dec_cons. cbn [length]. rewrite P10_S in *. lia.
    + destruct Hi as [[Hm0 Hm1] Hm2]. rewrite pmd_nonzero in H by lia.
      destruct (Z.leb_spec (m * P10 tz) UB10) as [Hle|Hgt].
      * pose proof (P10_pos tz) as Hp. rewrite P10_S in H.
        set (X := m * P10 tz) in *.
        assert (HM : minv (m * (10 * P10 tz) + (c - 48))).
        { unfold minv, UPPER_BOUND, UB10 in *. replace (m * (10 * P10 tz)) with (10 * X) by (unfold X; lia).
          split; [lia|]. right. lia. }
        apply IH in H; [|assumption|assumption].
        destruct H as [ds1 [d [ds2 [E [Hdr Hov]]]]]. exists (c :: ds1), d, ds2.
        split; [rewrite E; reflexivity|]. split; [assumption|].
        rewrite dec_cons. cbn [length]. rewrite P10_S, P10_0 in *. unfold X in *. lia.
      * exists [], c, r. split; [reflexivity|]. split; [lia|].
        cbn [length]. rewrite P10_0. unfold dec_value. cbn [dec_acc]. lia.
Qed.

Definition scale_final (k : nat) (m : Z) : option Z :=
  match scale10_checked k m with
  | None => None
  | Some m' => if (m' >? UPPER_BOUND) || (m' <? - UPPER_BOUND) then None else Some m'
  end.

Lemma scale_final_spec k : forall m,
  scale_final k m = if Z.abs m * P10 k <=? UPPER_BOUND then Some (m * P10 k) else None.
Proof.
  induction k as [|k IH]; intros m.
  - unfold scale_final. cbn [scale10_checked]. rewrite P10_0.
    destruct (Z.leb_spec (Z.abs m * 1) UPPER_BOUND);
      destruct (Z.gtb_spec m UPPER_BOUND); destruct (Z.ltb_spec m (- UPPER_BOUND));
      cbn [orb]; unfold UPPER_BOUND in *; try reflexivity; try lia; f_equal; lia.
  - unfold scale_final in *. cbn [scale10_checked]. rewrite P10_S. pose proof (P10_pos k) as Hp.
    destruct (Z.gtb_spec m UB10); destruct (Z.ltb_spec m (- UB10)); cbn [orb].
    + destruct (Z.leb_spec (Z.abs m * (10 * P10 k)) UPPER_BOUND); [unfold UB10, UPPER_BOUND in *; nia|reflexivity].
    + destruct (Z.leb_spec (Z.abs m * (10 * P10 k)) UPPER_BOUND); [unfold UB10, UPPER_BOUND in *; nia|reflexivity].
    + destruct (Z.leb_spec (Z.abs m * (10 * P10 k)) UPPER_BOUND); [unfold UB10, UPPER_BOUND in *; nia|reflexivity].
    + rewrite IH. replace (Z.abs (m * 10) * P10 k) with (Z.abs m * (10 * P10 k)) by lia.
      replace (m * 10 * P10 k) with (m * (10 * P10 k)) by lia. reflexivity.
Qed.

Lemma pfp_finish_eq neg m tz p ex :
  pfp_finish neg m tz p ex =
  let e := ex - p + Z.of_nat tz + 8 in
  if e <? 0 then None else if e >=? 18 then None
  else scale_final (Z.to_nat e) (if neg then - m else m).
Proof. reflexivity. Qed.

(* the result of ParseFixedPoint on a number whose digits (without '.') read N and which has k
   digits after the point: N * 10^(8-k) when that is an integer of absolute value <= 10^18 - 1 *)
Definition fp_result (neg : bool) (N : Z) (k : nat) : option Z :=
  if ((N * P10 8) mod P10 k =? 0) && (N * P10 8 / P10 k <=? UPPER_BOUND)
  then Some (if neg then - (N * P10 8 / P10 k) else N * P10 8 / P10 k) else None.

Lemma P10_le a b : (a <= b)%nat -> P10 a <= P10 b.
Proof. intros H. unfold P10. apply Z.pow_le_mono_r; lia. Qed.

Lemma P10_18 : P10 18 = 1000000000000000000. Proof. reflexivity. Qed.

Lemma finish_spec neg m tz k :
  minv m -> (m = 0 -> tz = k) ->
  pfp_finish neg m tz (Z.of_nat k) 0 = fp_result neg (m * P10 tz) k.
Proof.
  intros [[Hm0 Hm1] Hm2] Hz. rewrite pfp_finish_eq. cbv zeta. unfold fp_result.
  pose proof (P10_pos k) as Hpk. pose proof (P10_pos tz) as Hpt.
  destruct (Z.eq_dec m 0) as [->|Hne].
  - rewrite (Hz eq_refl). replace (0 - Z.of_nat k + Z.of_nat k + 8) with 8 by lia.
    change (8 <? 0) with false. change (8 >=? 18) with false. cbv iota.
    rewrite scale_final_spec. rewrite !Z.mul_0_l, Zmod_0_l, Zdiv_0_l.
    destruct neg; reflexivity.
  - destruct Hm2 as [|Hm2]; [contradiction|].
    destruct (Z.ltb_spec (0 - Z.of_nat k + Z.of_nat tz + 8) 0) as [Hneg|Hnn].
    + destruct (Z.eqb_spec ((m * P10 tz * P10 8) mod P10 k) 0) as [Hmod|]; [exfalso|reflexivity].
      assert (Hk : exists j, k = (tz + 8 + S j)%nat) by (exists (k - tz - 9)%nat; lia).
      destruct Hk as [j ->]. rewrite !P10_add, (P10_S j) in Hmod.
      pose proof (P10_pos 8) as Hp8. pose proof (P10_pos j) as Hpj.
      assert (HT : 0 < P10 tz * P10 8) by (apply Z.mul_pos_pos; lia).
      assert (HT2 : 0 < P10 tz * P10 8 * (10 * P10 j)) by (apply Z.mul_pos_pos; lia).
      apply Z.mod_divide in Hmod; [|lia]. destruct Hmod as [q Hq].
      assert (Hm : m = 10 * (q * P10 j)).
      { apply (Z.mul_reg_r _ _ (P10 tz * P10 8)); [lia|].
        replace (m * (P10 tz * P10 8)) with (m * P10 tz * P10 8) by ring. rewrite Hq. ring. }
      apply Hm2. rewrite Hm. set (y := q * P10 j). lia.
    + set (e := 0 - Z.of_nat k + Z.of_nat tz + 8) in *.
      assert (He : (tz + 8 = k + Z.to_nat e)%nat) by lia.
      assert (HN : m * P10 tz * P10 8 = m * P10 (Z.to_nat e) * P10 k).
      { rewrite <- !Z.mul_assoc, <- !P10_add, He. f_equal. f_equal. lia. }
      rewrite HN, Z.mod_mul, Z.div_mul by lia. change (0 =? 0) with true. cbn [andb].
      pose proof (P10_pos (Z.to_nat e)) as Hpe.
      destruct (Z.geb_spec e 18) as [Hge|Hlt].
      * pose proof (P10_le 18 (Z.to_nat e)) as H18. rewrite P10_18 in H18. unfold UPPER_BOUND.
        destruct (Z.leb_spec (m * P10 (Z.to_nat e)) 999999999999999999); [nia|reflexivity].
      * rewrite scale_final_spec.
        replace (Z.abs (if neg then - m else m)) with m by (destruct neg; lia).
        destruct (Z.leb_spec (m * P10 (Z.to_nat e)) UPPER_BOUND); [|reflexivity].
        destruct neg; f_equal; lia.
Qed.

Lemma overflow_none neg ds1 d ds2 k :
  Forall digit ds2 -> 49 <= d <= 57 -> dec_value ds1 > UB10 ->
  fp_result neg (dec_value (ds1 ++ d :: ds2)) k = None.
Proof.
  intros Hd2 Hd Hov. unfold fp_result.
  set (N := dec_value (ds1 ++ d :: ds2)).
  set (r := length ds2).
  assert (HN : N = dec_value ds1 * P10 (S r) + ((d - 48) * P10 r + dec_value ds2)).
  { unfold N. rewrite dec_app, dec_cons. cbn [length]. fold r. lia. }
  pose proof (dec_bound ds2 Hd2) as Hb2. fold r in Hb2.
  pose proof (P10_pos r) as Hpr. pose proof (P10_pos k) as Hpk. pose proof (P10_pos 8) as Hp8.
  destruct (Z.eqb_spec ((N * P10 8) mod P10 k) 0) as [Hmod|]; [|reflexivity].
  destruct (Z.leb_spec (N * P10 8 / P10 k) UPPER_BOUND) as [Hle|]; [exfalso|reflexivity].
  apply Z.mod_divide in Hmod; [|lia]. destruct Hmod as [q Hq].
  rewrite Hq, Z.div_mul in Hle by lia.
  destruct (le_lt_dec k (r + 8)) as [Hk|Hk].
  - assert (Hj : exists j, (r + 8 = k + j)%nat) by (exists (r + 8 - k)%nat; lia).
    destruct Hj as [j Hj]. pose proof (P10_add r 8) as Ha. rewrite Hj, P10_add in Ha.
    pose proof (P10_pos j) as Hpj. rewrite (P10_S r) in HN. unfold UB10, UPPER_BOUND in *.
    assert (H1 : N >= 1000000000000000000 * P10 r) by nia.
    assert (H2 : N * P10 8 >= 1000000000000000000 * (P10 k * P10 j)) by nia.
    assert (H3 : q * P10 k >= 1000000000000000000 * P10 k) by nia.
    nia.
  - assert (Hj : exists j, k = (8 + (S r + j))%nat) by (exists (k - 8 - S r)%nat; lia).
    destruct Hj as [j ->]. rewrite !P10_add in Hq. pose proof (P10_pos j) as Hpj.
    pose proof (P10_pos (S r)) as Hps.
    assert (HNq : N = q * P10 j * P10 (S r)).
    { apply (Z.mul_reg_r _ _ (P10 8)); [lia|]. rewrite Hq. ring. }
    assert (HL : (d - 48) * P10 r + dec_value ds2 = (q * P10 j - dec_value ds1) * P10 (S r)).
    { rewrite (Z.mul_sub_distr_r (q * P10 j)), <- HNq. rewrite HN at 1. ring. }
    set (Y := q * P10 j - dec_value ds1) in *. clearbody Y. rewrite (P10_S r) in HL.
    set (L := (d - 48) * P10 r + dec_value ds2) in *.
    assert (HLb : P10 r <= L < 10 * P10 r) by (unfold L; nia).
    clearbody L. destruct (Z_le_gt_dec Y 0); nia.
Qed.

Lemma fold_finish_some neg ds k m tz :
  Forall digit ds -> (dec_value ds = 0 -> length ds = k) -> mant_fold ds 0 O = Some (m, tz) ->
  pfp_finish neg m tz (Z.of_nat k) 0 = fp_result neg (dec_value ds) k.
Proof.
  intros Hd Hk H. apply mant_fold_some in H; [|assumption|unfold minv, UPPER_BOUND; lia].
  destruct H as [Hi [Hv Hz]]. rewrite Z.mul_0_l, Z.add_0_l in Hv. rewrite <- Hv.
  apply finish_spec; [assumption|]. intros E. specialize (Hz E). destruct Hz as [_ Hz].
  rewrite E, Z.mul_0_l in Hv. symmetry in Hv. specialize (Hk Hv). lia.
Qed.

Lemma fold_finish_none neg ds k :
  Forall digit ds -> mant_fold ds 0 O = None -> fp_result neg (dec_value ds) k = None.
Proof.
  intros Hd H. apply mant_fold_none in H; [|assumption|unfold minv, UPPER_BOUND; lia].
  destruct H as [ds1 [d [ds2 [E [Hdr Hov]]]]]. subst ds.
  apply overflow_none; [|assumption|lia].
  apply Forall_app in Hd. destruct Hd as [_ Hd]. inversion Hd; assumption.
Qed.

(* canonical integer part: a single "0", or a digit string not starting with '0' *)
Definition canon_int (ip : list Z) : Prop :=
  ip = [48] \/ exists d r, ip = d :: r /\ 49 <= d <= 57 /\ Forall digit r.

Lemma canon_int_digits ip : canon_int ip -> Forall digit ip.
Proof.
  intros [->|[d [r [-> [Hd Hr]]]]]; constructor; unfold digit; try lia; [constructor|assumption].
Qed.

Lemma first_is_digit_true l : Forall digit l -> l <> [] -> first_is_digit l = true.
Proof.
  intros H Hne. destruct l as [|c r]; [contradiction|]. inversion H; subst.
  cbn [first_is_digit]. apply is_digit_iff. assumption.
Qed.

Lemma mant_digits_all ds m tz cnt :
  Forall digit ds ->
  mant_digits ds m tz cnt =
  match mant_fold ds m tz with
  | None => None
  | Some (m', tz') => Some (m', tz', cnt + Z.of_nat (length ds), [])
  end.
Proof.
  intros Hd. rewrite <- (app_nil_r ds) at 1. apply mant_digits_fold; [assumption|reflexivity].
Qed.

(* the state after the integer part *)
Definition int_state (ip : list Z) : option (Z * nat) :=
  match ip with
  | [48] => Some (0, O)
  | _ => mant_fold ip 0 O
  end.

Lemma pfp_int_canon ip rest :
  canon_int ip -> first_is_digit rest = false ->
  pfp_int (ip ++ rest) =
  match int_state ip with
  | None => None
  | Some (m, tz) => Some (m, tz, (match ip with [48] => 0 | _ => Z.of_nat (length ip) end), rest)
  end.
Proof.
  intros [->|[d [r [-> [Hd Hr]]]]] Hrest.
  - reflexivity.
  - assert (Hds : Forall digit (d :: r)) by (constructor; [unfold digit; lia|assumption]).
    unfold pfp_int. cbn [app]. destruct (Z.eqb_spec d 48) as [|_]; [lia|].
    destruct (Z.leb_spec 49 d); [|lia]. destruct (Z.leb_spec d 57); [|lia]. cbn [andb].
    change (d :: r ++ rest) with ((d :: r) ++ rest). rewrite mant_digits_fold by assumption.
    assert (Hst : int_state (d :: r) = mant_fold (d :: r) 0 O).
    { unfold int_state. destruct (Z.eq_dec d 48); [lia|].
      destruct d as [|p|p]; try reflexivity. repeat (destruct p as [p|p|]; try reflexivity); lia. }
    rewrite Hst. destruct (mant_fold (d :: r) 0 O) as [[m tz]|]; [|reflexivity].
    rewrite Z.add_0_l.
    destruct d as [|p|p]; try reflexivity. repeat (destruct p as [p|p|]; try reflexivity); lia.
Qed.

Lemma int_state_nonzero d r : 49 <= d <= 57 -> int_state (d :: r) = mant_fold (d :: r) 0 O.
Proof.
  intros Hd. unfold int_state.
  destruct d as [|p|p]; try reflexivity. repeat (destruct p as [p|p|]; try reflexivity); lia.
Qed.

Lemma dec_pos d l : 49 <= d <= 57 -> Forall digit l -> 1 <= dec_value (d :: l).
Proof.
  intros Hd Hl. rewrite dec_cons. pose proof (dec_bound l Hl). pose proof (P10_pos (length l)). nia.
Qed.

Lemma pfp_exp_nil : pfp_exp [] = Some (0, []).
Proof. reflexivity. Qed.

Theorem pfp_body_frac neg ip fp :
  canon_int ip -> Forall digit fp -> fp <> [] ->
  pfp_body neg (ip ++ 46 :: fp) = fp_result neg (dec_value (ip ++ fp)) (length fp).
Proof.
  intros Hc Hf Hne. unfold pfp_body. rewrite pfp_int_canon by (assumption || reflexivity).
  destruct Hc as [->|[d [r [-> [Hd Hr]]]]].
  - change (int_state [48]) with (Some (0, O)). cbv iota beta.
    unfold pfp_frac. change (46 =? 46) with true. cbv iota.
    rewrite first_is_digit_true by assumption. rewrite mant_digits_all by assumption.
    replace (dec_value ([48] ++ fp)) with (dec_value fp) by (cbn [app]; rewrite dec_cons; lia).
    destruct (mant_fold fp 0 O) as [[m tz]|] eqn:E.
    + rewrite pfp_exp_nil. cbv iota beta. rewrite Z.add_0_l.
      apply fold_finish_some; [assumption|reflexivity|assumption].
    + symmetry. apply fold_finish_none; assumption.
  - assert (Hds : Forall digit ((d :: r) ++ fp)).
    { apply Forall_app. split; [constructor; [unfold digit; lia|assumption]|assumption]. }
    rewrite int_state_nonzero by assumption.
    destruct (mant_fold (d :: r) 0 O) as [[m1 tz1]|] eqn:E1.
    + unfold pfp_frac. change (46 =? 46) with true. cbv iota.
      rewrite first_is_digit_true by assumption. rewrite mant_digits_all by assumption.
      destruct (mant_fold fp m1 tz1) as [[m tz]|] eqn:E2.
      * rewrite pfp_exp_nil. cbv iota beta. rewrite Z.add_0_l.
        apply fold_finish_some; [assumption| |rewrite mant_fold_app, E1; assumption].
        intros E0. pose proof (dec_pos d (r ++ fp) Hd) as Hp. cbn [app] in E0.
        rewrite E0 in Hp. apply Forall_app in Hds. exfalso.
        assert (Forall digit (r ++ fp)) by (apply Forall_app; split; [assumption|tauto]). intuition lia.
      * symmetry. apply fold_finish_none; [assumption|rewrite mant_fold_app, E1; assumption].
    + symmetry. apply fold_finish_none; [assumption|rewrite mant_fold_app, E1; reflexivity].
Qed.

Theorem pfp_body_int neg ip :
  canon_int ip -> pfp_body neg ip = fp_result neg (dec_value ip) 0.
Proof.
  intros Hc. unfold pfp_body. rewrite <- (app_nil_r ip) at 1.
  rewrite pfp_int_canon by (assumption || reflexivity).
  destruct Hc as [->|[d [r [-> [Hd Hr]]]]].
  - change (int_state [48]) with (Some (0, O)). cbv iota beta.
    unfold pfp_frac. rewrite pfp_exp_nil. cbv iota beta.
    change 0 with (Z.of_nat 0) at 2. rewrite finish_spec; [reflexivity|unfold minv, UPPER_BOUND; lia|reflexivity].
  - assert (Hds : Forall digit (d :: r)) by (constructor; [unfold digit; lia|assumption]).
    rewrite int_state_nonzero by assumption.
    destruct (mant_fold (d :: r) 0 O) as [[m tz]|] eqn:E1.
    + unfold pfp_frac. rewrite pfp_exp_nil. cbv iota beta.
      change 0 with (Z.of_nat 0) at 1.
      apply fold_finish_some; [assumption| |assumption].
      intros E0. pose proof (dec_pos d r Hd Hr). lia.
    + symmetry. apply fold_finish_none; assumption.
Qed.

Lemma parse_fixed_point8_neg s : parse_fixed_point8 (45 :: s) = pfp_body true s.
Proof. reflexivity. Qed.

Lemma parse_fixed_point8_pos ip rest :
  canon_int ip -> parse_fixed_point8 (ip ++ rest) = pfp_body false (ip ++ rest).
Proof.
  intros [->|[d [r [-> [Hd Hr]]]]]; [reflexivity|].
  cbn [app]. unfold parse_fixed_point8. destruct (Z.eqb_spec d 45); [lia|reflexivity].
Qed.

Definition sign_prefix (neg : bool) : list Z := if neg then [45] else [].

Lemma parse_fixed_point8_sign neg ip rest :
  canon_int ip -> parse_fixed_point8 (sign_prefix neg ++ ip ++ rest) = pfp_body neg (ip ++ rest).
Proof.
  intros Hc. destruct neg; cbn [sign_prefix app].
  - apply parse_fixed_point8_neg.
  - apply parse_fixed_point8_pos. assumption.
Qed.

(* at most 8 fractional digits: plain scaling, bounded by 10^18 - 1 *)
Lemma fp_result_small neg N k :
  (k <= 8)%nat ->
  fp_result neg N k =
  if N * P10 (8 - k) <=? UPPER_BOUND
  then Some (if neg then - (N * P10 (8 - k)) else N * P10 (8 - k)) else None.
Proof.
  intros Hk. unfold fp_result. pose proof (P10_pos k) as Hpk.
  replace (N * P10 8) with (N * P10 (8 - k) * P10 k).
  - rewrite Z.mod_mul, Z.div_mul by lia. reflexivity.
  - rewrite <- Z.mul_assoc, <- P10_add. do 2 f_equal; lia.
Qed.

(* more than 8 fractional digits: accepted iff the excess digits are all zero *)
Lemma fp_result_extra neg M E j :
  0 <= E < P10 j ->
  fp_result neg (M * P10 j + E) (8 + j) = if E =? 0 then fp_result neg M 8 else None.
Proof.
  intros HE. unfold fp_result. rewrite P10_add.
  pose proof (P10_pos 8) as Hp8. pose proof (P10_pos j) as Hpj.
  rewrite (Z.mul_comm (M * P10 j + E) (P10 8)), Z.mul_mod_distr_l by lia.
  rewrite (Z.add_comm (M * P10 j) E), Z.mod_add, Z.mod_small by lia.
  destruct (Z.eqb_spec E 0) as [->|HE0].
  - rewrite Z.mul_0_r. rewrite Z.add_0_l.
    replace (P10 8 * (M * P10 j)) with (M * (P10 8 * P10 j)) by ring.
    rewrite Z.div_mul by lia. rewrite Z.mod_mul, Z.div_mul by lia. reflexivity.
  - destruct (Z.eqb_spec (P10 8 * E) 0); [nia|reflexivity].
Qed.

Lemma dec_zero_iff l : Forall digit l -> (dec_value l =? 0) = forallb (Z.eqb 48) l.
Proof.
  induction 1 as [|c r Hc Hr IH]; [reflexivity|].
  rewrite dec_cons. cbn [forallb]. rewrite <- IH. unfold digit in Hc.
  pose proof (dec_bound r Hr) as Hb. pose proof (P10_pos (length r)) as Hp.
  destruct (Z.eqb_spec 48 c) as [<-|Hne]; cbn [andb].
  - f_equal; lia.
  - destruct (Z.eqb_spec ((c - 48) * P10 (length r) + dec_value r) 0); [nia|reflexivity].
Qed.

Theorem parse_fixed_point8_general neg ip fp :
  canon_int ip -> Forall digit fp -> fp <> [] ->
  parse_fixed_point8 (sign_prefix neg ++ ip ++ 46 :: fp)
  = fp_result neg (dec_value (ip ++ fp)) (length fp).
Proof.
  intros Hc Hf Hne. rewrite parse_fixed_point8_sign by assumption. apply pfp_body_frac; assumption.
Qed.

Theorem parse_fixed_point8_integer neg ip :
  canon_int ip ->
  parse_fixed_point8 (sign_prefix neg ++ ip) =
  if dec_value ip * 10 ^ 8 <=? UPPER_BOUND
  then Some (if neg then - (dec_value ip * 10 ^ 8) else dec_value ip * 10 ^ 8) else None.
Proof.
  intros Hc. rewrite <- (app_nil_r ip) at 1. rewrite parse_fixed_point8_sign by assumption.
  rewrite app_nil_r, pfp_body_int by assumption. rewrite fp_result_small by lia. reflexivity.
Qed.

Theorem parse_fixed_point8_exact_pr neg ip fp :
  canon_int ip -> Forall digit fp -> fp <> [] -> (length fp <= 8)%nat ->
  let v := dec_value ip * 10 ^ 8 + dec_value fp * 10 ^ (8 - Z.of_nat (length fp)) in
  parse_fixed_point8 (sign_prefix neg ++ ip ++ 46 :: fp)
  = if v <=? UPPER_BOUND then Some (if neg then - v else v) else None.
Proof.
  intros Hc Hf Hne Hk v. rewrite parse_fixed_point8_general by assumption.
  rewrite fp_result_small by assumption.
  assert (Hv : dec_value (ip ++ fp) * P10 (8 - length fp) = v).
  { unfold v. rewrite dec_app, Z.mul_add_distr_r, <- Z.mul_assoc, <- P10_add.
    replace (length fp + (8 - length fp))%nat with 8%nat by lia.
    unfold P10. rewrite Nat2Z.inj_sub by assumption. reflexivity. }
  rewrite Hv. reflexivity.
Qed.

Theorem parse_fixed_point8_extra_digits neg ip f8 ex :
  canon_int ip -> Forall digit f8 -> length f8 = 8%nat -> Forall digit ex ->
  parse_fixed_point8 (sign_prefix neg ++ ip ++ 46 :: f8 ++ ex)
  = if forallb (Z.eqb 48) ex then parse_fixed_point8 (sign_prefix neg ++ ip ++ 46 :: f8) else None.
Proof.
  intros Hc Hf Hl He.
  assert (Hne : f8 <> []) by (intros ->; discriminate).
  assert (Hne2 : f8 ++ ex <> []) by (intros E; apply app_eq_nil in E; tauto).
  assert (Hf2 : Forall digit (f8 ++ ex)) by (apply Forall_app; split; assumption).
  rewrite (parse_fixed_point8_general neg ip (f8 ++ ex)) by assumption.
  rewrite (parse_fixed_point8_general neg ip f8) by assumption.
  rewrite app_length, Hl, app_assoc, dec_app, fp_result_extra by (apply dec_bound; assumption).
  rewrite dec_zero_iff by assumption. reflexivity.
Qed.

(* rejections *)
Theorem parse_fixed_point8_leading_zero neg d rest :
  digit d -> parse_fixed_point8 (sign_prefix neg ++ 48 :: d :: rest) = None.
Proof.
  intros Hd. unfold digit in Hd.
  change (48 :: d :: rest) with ([48] ++ d :: rest).
  rewrite parse_fixed_point8_sign by (left; reflexivity).
  unfold pfp_body. cbn [app pfp_int]. change (48 =? 48) with true. cbv iota beta.
  unfold pfp_frac. destruct (Z.eqb_spec d 46); [lia|]. unfold pfp_exp.
  destruct (Z.eqb_spec d 101); [lia|]. destruct (Z.eqb_spec d 69); [lia|]. reflexivity.
Qed.

Theorem parse_fixed_point8_point_needs_digit neg ip rest :
  canon_int ip -> first_is_digit rest = false ->
  parse_fixed_point8 (sign_prefix neg ++ ip ++ 46 :: rest) = None.
Proof.
  intros Hc Hr. rewrite parse_fixed_point8_sign by assumption.
  unfold pfp_body. rewrite pfp_int_canon by (assumption || reflexivity).
  destruct (int_state ip) as [[m tz]|]; [|reflexivity].
  unfold pfp_frac. change (46 =? 46) with true. cbv iota. rewrite Hr. reflexivity.
Qed.

(* ============================================================================================== *)
(* Final forms used by TxTheorems.v                                                                *)

Lemma side_ok_true_nonempty t : tx_vin t <> [] \/ tx_vout t = [] -> tx_side_ok true t.
Proof.
  intros H. split; [|discriminate]. intros _ Hv. destruct H as [H|H]; [contradiction|assumption].
Qed.

Lemma side_ok_false_nowit t : tx_has_witness t = false -> tx_side_ok false t.
Proof. intros H. split; [discriminate|]. intros _. exact H. Qed.

Theorem tx_roundtrip_value_pr t rest :
  wf_tx t = true -> tx_vin t <> [] -> unser_tx true (ser_tx true t ++ rest) = Some (t, rest).
Proof. intros Hwf Hv. apply unser_tx_complete; [assumption|]. apply side_ok_true_nonempty. left. assumption. Qed.

Theorem tx_roundtrip_value_gen_pr t rest :
  wf_tx t = true -> tx_vin t <> [] \/ tx_vout t = [] ->
  unser_tx true (ser_tx true t ++ rest) = Some (t, rest).
Proof. intros Hwf Hv. apply unser_tx_complete; [assumption|]. apply side_ok_true_nonempty. assumption. Qed.

Theorem tx_roundtrip_value_nowit_pr t rest :
  wf_tx t = true -> tx_has_witness t = false ->
  unser_tx false (ser_tx false t ++ rest) = Some (t, rest).
Proof. intros Hwf Hw. apply unser_tx_complete; [assumption|]. apply side_ok_false_nowit. assumption. Qed.

Theorem tx_truncation_gen_pr aw t k :
  wf_tx t = true -> aw = false \/ tx_vin t <> [] \/ tx_vout t = [] ->
  (k < length (ser_tx aw t))%nat -> unser_tx aw (firstn k (ser_tx aw t)) = None.
Proof.
  intros Hwf Hside Hk. destruct aw.
  - apply unser_tx_truncation; [assumption| |assumption]. apply side_ok_true_nonempty.
    destruct Hside as [?|?]; [discriminate|assumption].
  - rewrite <- ser_tx_false_strip in *. apply unser_tx_truncation; [apply wf_strip; assumption| |assumption].
    apply side_ok_false_nowit. apply strip_no_witness. assumption.
Qed.

Theorem tx_truncation_rejected_pr aw t k :
  wf_tx t = true -> tx_vin t <> [] -> (k < length (ser_tx aw t))%nat ->
  unser_tx aw (firstn k (ser_tx aw t)) = None.
Proof. intros Hwf Hv Hk. apply tx_truncation_gen_pr; [assumption| |assumption]. right. left. assumption. Qed.

(* what the parser returns is well-formed; with witnesses allowed an empty vin comes with an empty
   vout; without, no witness data *)
Theorem unser_tx_wf_pr aw b t rest :
  bytes_ok b -> unser_tx aw b = Some (t, rest) ->
  wf_tx t = true /\ (aw = true -> tx_vin t = [] -> tx_vout t = [])
  /\ (aw = false -> tx_has_witness t = false).
Proof. intros Hb H. apply unser_tx_sound in H; [|assumption]. destruct H as [_ [Hwf [H1 H2]]]. auto. Qed.

(* accepted inputs can be extended without changing the result *)
Theorem unser_tx_extend_pr aw b t rest e :
  bytes_ok b -> unser_tx aw b = Some (t, rest) -> unser_tx aw (b ++ e) = Some (t, rest ++ e).
Proof.
  intros Hb H. apply unser_tx_sound in H; [|assumption]. destruct H as [Hbe [Hwf Hs]].
  rewrite Hbe, <- app_assoc. apply unser_tx_complete; assumption.
Qed.
