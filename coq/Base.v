(* Base definitions shared by every model: bytes are integers 0..255 kept in [Z] (so that [lia]
   applies directly); byte strings are lists, index 0 = first byte in memory. *)
From Coq Require Export List ZArith Lia Bool.
Export ListNotations.
Local Open Scope Z_scope.

Definition byte := Z.
Definition bytes := list Z.

Definition byte_okb (b : Z) : bool := (0 <=? b) && (b <? 256).
Definition bytes_okb (l : bytes) : bool := forallb byte_okb l.
Definition bytes_ok (l : bytes) : Prop := Forall (fun b => 0 <= b < 256) l.

(* C++ vector helpers *)
Definition vlast (l : bytes) : Z := last l 0.
Fixpoint set_last (l : bytes) (x : Z) : bytes :=
  match l with
  | [] => []
  | [_] => [x]
  | a :: r => a :: set_last r x
  end.

(* little-endian value of a byte string: sum b_i * 256^i *)
Fixpoint le_value (l : bytes) : Z :=
  match l with [] => 0 | b :: r => b + 256 * le_value r end.

(* little-endian digits of a non-negative integer, most significant digit non-zero; [fuel] bounds
   the number of digits (the C++ loops are [while (absvalue) { push(absvalue & 0xff); absvalue >>= 8; }]
   on a 64-bit word, i.e. at most 8 rounds) *)
Fixpoint le_digits (fuel : nat) (a : Z) : bytes :=
  match fuel with
  | O => []
  | S f => if a =? 0 then [] else (a mod 256) :: le_digits f (a / 256)
  end.

(* fixed-width little-endian encoding (WriteLE16/32/64 and ser_writedataNN) *)
Fixpoint le_fixed (n : nat) (a : Z) : bytes :=
  match n with O => [] | S m => (a mod 256) :: le_fixed m (a / 256) end.

Definition zlen (l : bytes) : Z := Z.of_nat (length l).

(* outcome type used by every model of C++ code that can throw / abort / be undefined *)
Inductive outcome (A : Type) : Type :=
| Ok (a : A)
| Exn (what : Z)      (* C++ exception; code identifies the class *)
| Crash (why : Z).    (* assert / signal / undefined behaviour reached *)
Arguments Ok {A} _.
Arguments Exn {A} _.
Arguments Crash {A} _.

(* exception classes (vh prints the same names) *)
Definition EXN_NUMOVERFLOW := 1.
Definition EXN_NONMINIMAL := 2.
Definition EXN_POPSTACK := 3.
Definition EXN_OTHER := 4.

(* hex rendering (HexStr): two lowercase digits per byte, as ASCII codes *)
Definition hexdigit (n : Z) : Z := if n <? 10 then 48 + n else 87 + n.
Fixpoint hexstr (l : bytes) : list Z :=
  match l with [] => [] | b :: r => hexdigit (b / 16) :: hexdigit (b mod 16) :: hexstr r end.

(* comparison operators found at the limit checks of the C++ (generated into Gen/Sites.v) *)
Inductive cmpop := CGt | CGe | CLt | CLe | CEq | CNe.
Definition cmp_eval (o : cmpop) (a b : Z) : bool :=
  match o with
  | CGt => b <? a | CGe => b <=? a | CLt => a <? b | CLe => a <=? b | CEq => a =? b | CNe => negb (a =? b)
  end.
