(* Proofs about the script listing and the position marker (C12). *)
From Coq Require Import ZifyBool.
From BV Require Import Base BaseProofs Script Interp Session Value Cli.
Local Open Scope Z_scope.

(* line i of the listing carries number i (when it is an operation line) or is a header that occupies index i *)
Lemma number_from_nth : forall texts i k b t, nth_error texts k = Some (b, t) ->
  nth_error (number_from i texts) k = Some (if b then numbered (i + Z.of_nat k) t else t).
Proof.
  induction texts as [|[b0 t0] r IH]; intros i k b t H; [destruct k; discriminate|].
  destruct k as [|k]; cbn [nth_error] in H.
  - inversion H; subst. cbn [number_from]. destruct b; cbn [nth_error]; rewrite ?Z.add_0_r; reflexivity.
  - cbn [number_from]. destruct b0; cbn [nth_error]; rewrite (IH (i + 1) k b t H); replace (i + 1 + Z.of_nat k) with (i + Z.of_nat (S k)) by lia; reflexivity.
Qed.

Lemma number_from_length : forall texts i, length (number_from i texts) = length texts.
Proof. induction texts as [|[b t] r IH]; intros i; [reflexivity|]. cbn [number_from]. destruct b; cbn [length]; rewrite IH; reflexivity. Qed.

(* nothing is marked once the position is past the last line *)
Lemma marked_none_past_end : forall lines seq, Z.of_nat (length lines) <= seq -> marked_line lines seq = None.
Proof. intros lines seq H. unfold marked_line. replace (seq <? Z.of_nat (length lines)) with false by lia. rewrite Bool.andb_false_r. reflexivity. Qed.

Lemma marked_is_nth : forall lines seq, 0 <= seq < Z.of_nat (length lines) -> marked_line lines seq = nth_error lines (Z.to_nat seq).
Proof. intros lines seq H. unfold marked_line. replace (0 <=? seq) with true by lia. replace (seq <? Z.of_nat (length lines)) with true by lia. reflexivity. Qed.
