(* Proofs about the script listing and the position marker (C12). *)
From Coq Require Import ZifyBool.
From BV Require Import Base BaseProofs Script Interp Session Value Cli.
Local Open Scope Z_scope.

(* line i of the listing carries number i (when it is an operation line) or is a header that occupies index i *)
Lemma number_from_nth : forall texts i k b t, nth_error texts k = Some (b, t) ->
  nth_error (number_from i texts) k = Some (if b then numbered (i + Z.of_nat k) t else t).
Proof.
  induction texts as [|[b0 t0] r IH]; intros i k b t H; [destruct k; discriminate|].
  destruct k as [|k]; cbn [nth_error] in H.
  - inversion H; subst. cbn [number_from]. destruct b; cbn [nth_error]; rewrite ?Z.add_0_r; reflexivity.
  - cbn [number_from]. destruct b0; cbn [nth_error]; rewrite (IH (i + 1) k b t H); replace (i + 1 + Z.of_nat k) with (i + Z.of_nat (S k)) by lia; reflexivity.
Qed.

Lemma number_from_length : forall texts i, length (number_from i texts) = length texts.
Proof. induction texts as [|[b t] r IH]; intros i; [reflexivity|]. cbn [number_from]. destruct b; cbn [length]; rewrite IH; reflexivity. Qed.

(* nothing is marked once the position is past the last line *)
Lemma marked_none_past_end : forall lines seq, Z.of_nat (length lines) <= seq -> marked_line lines seq = None.
Proof. intros lines seq H. unfold marked_line. replace (seq <? Z.of_nat (length lines)) with false by lia. rewrite Bool.andb_false_r. reflexivity. Qed.

Lemma marked_is_nth : forall lines seq, 0 <= seq < Z.of_nat (length lines) -> marked_line lines seq = nth_error lines (Z.to_nat seq).
Proof. intros lines seq H. unfold marked_line. replace (0 <=? seq) with true by lia. replace (seq <? Z.of_nat (length lines)) with true by lia. reflexivity. Qed.

(* ------------------------------------------------------------------ the marker invariant of single-script sessions *)
From BV Require Import FrameProofs SessionProofs.
From BV.Gen Require Import Consts Sites.

Lemma decode_ops_fuel_enough : forall f pc, (length pc <= f)%nat -> decode_ops_fuel f pc = decode_ops pc.
Proof.
  assert (G: forall n pc f1 f2, (length pc <= n)%nat -> (length pc <= f1)%nat -> (length pc <= f2)%nat -> decode_ops_fuel f1 pc = decode_ops_fuel f2 pc).
  { induction n as [|n IH]; intros pc f1 f2 Hn H1 H2.
    - destruct pc; [|cbn in Hn; lia]. destruct f1, f2; reflexivity.
    - destruct pc as [|b r]; [destruct f1, f2; reflexivity|].
      destruct f1 as [|f1]; [cbn in H1; lia|]. destruct f2 as [|f2]; [cbn in H2; lia|]. cbn [decode_ops_fuel].
      destruct (get_op (b :: r)) as [[op|] pc'] eqn:E; [|reflexivity].
      pose proof (get_op_shorter _ _ _ E) as Hs. f_equal. apply IH; cbn [length] in *; lia. }
  intros f pc H. unfold decode_ops. apply (G (length pc)); lia.
Qed.

Lemma decode_ops_cons : forall pc op pc', get_op pc = (Some op, pc') -> decode_ops pc = op :: decode_ops pc'.
Proof.
  intros pc op pc' H. pose proof (get_op_shorter _ _ _ H) as Hs.
  unfold decode_ops at 1. destruct pc as [|b r]; [discriminate|]. cbn [length decode_ops_fuel]. rewrite H. f_equal.
  apply decode_ops_fuel_enough. cbn [length] in Hs. lia.
Qed.

Lemma decode_ops_nil : decode_ops [] = [].
Proof. reflexivity. Qed.

Section Marker.
Variable low_s : bytes -> bool.
Variable tap_tweak_ok : bytes -> bytes -> bytes -> bool -> bool.
Variable sha256 : bytes -> bytes.
Variable c : cfg.
Notation dbg_step := (dbg_step low_s tap_tweak_ok sha256).

(* a session over one script: no pending scriptPubKey, no P2SH phase, no taproot commitment phase *)
Definition single (v : ienv) : Prop := i_tce v = None /\ i_succ v = [] /\ i_p2sh v = false.

(* the listing of such a session: one numbered line per operation of the script *)
Definition plain_listing (s : bytes) : list str := number_from 0 (map (fun op => (true, op_line op)) (decode_ops s)).

(* the position counter equals the number of operations that precede the program counter *)
Definition marker_inv (v : ienv) : Prop :=
  exists pre, decode_ops (e_script (i_e v)) = pre ++ decode_ops (i_pc v) /\ i_seq v = Z.of_nat (length pre).

Lemma marker_inv_init : forall script stack ed, marker_inv (setup_env c script stack [] ed None).
Proof. intros. exists []. split; reflexivity. Qed.

(* the marked line is the rendering of the operation the next step fetches *)
Theorem marker_designates_next_op : forall v op pc',
  marker_inv v -> get_op (i_pc v) = (Some op, pc') ->
  marked_line (plain_listing (e_script (i_e v))) (i_seq v) = Some (numbered (i_seq v) (op_line op)).
Proof.
  intros v op pc' [pre [Hd Hs]] Hg. unfold plain_listing.
  rewrite (decode_ops_cons _ _ _ Hg) in Hd. rewrite Hd.
  assert (Hn: nth_error (map (fun o => (true, op_line o)) (pre ++ op :: decode_ops pc')) (length pre) = Some (true, op_line op)).
  { rewrite map_app. rewrite nth_error_app2 by (rewrite map_length; lia). rewrite map_length, Nat.sub_diag. reflexivity. }
  rewrite marked_is_nth.
  - rewrite Hs, Nat2Z.id. rewrite (number_from_nth _ 0 _ _ _ Hn). rewrite Z.add_0_l. reflexivity.
  - rewrite number_from_length, map_length, app_length. cbn [length]. lia.
Qed.

(* after the last operation nothing is marked *)
Theorem marker_none_at_end : forall v, marker_inv v -> i_pc v = [] -> marked_line (plain_listing (e_script (i_e v))) (i_seq v) = None.
Proof.
  intros v [pre [Hd Hs]] Hp. rewrite Hp, decode_ops_nil, app_nil_r in Hd. apply marked_none_past_end.
  unfold plain_listing. rewrite number_from_length, map_length, Hd. lia.
Qed.

(* a successful step keeps the invariant (and stays in the single-script shape) *)
Theorem marker_inv_step : forall v v', single v -> marker_inv v -> dbg_step c v = (v', SOk) -> single v' /\ marker_inv v'.
Proof.
  intros v v' (Ht & Hsucc & Hp2) [pre [Hd Hs]] H. unfold Session.dbg_step in H. rewrite Ht in H.
  destruct (i_pc v) as [|b r] eqn:Epc.
  - (* end of the script: only the done flag / error slot change *)
    rewrite Hp2, Hsucc in H. cbn [orb] in H. rewrite Bool.andb_false_r in H.
    destruct (negb (cs_empty (e_cond (i_e v)))); [discriminate|]. inversion H; subst v'. clear H.
    split; [repeat split; assumption|]. exists pre. cbn. split; [exact Hd|exact Hs].
  - destruct (step_script low_s c (i_e v) (b :: r) false) as [[e1 pc1] st] eqn:Es.
    destruct st; try discriminate. inversion H; subst v'. clear H.
    destruct (step_script_pc low_s c _ _ _ _ _ Es) as [op Hg].
    pose proof (step_script_framed low_s c (i_e v) (b :: r) false) as Hf. cbv zeta in Hf. rewrite Es in Hf. cbn [fst snd] in Hf.
    destruct Hf as [Hfr _]. unfold frs in Hfr. cbn [fst] in Hfr.
    split; [repeat split; assumption|].
    exists (pre ++ [op]). cbn [i_e i_pc i_seq set_seq set_hist upd set_pos e_script].
    split.
    + rewrite Hfr, Hd, (decode_ops_cons _ _ _ Hg), <- app_assoc. reflexivity.
    + rewrite app_length. cbn [length]. lia.
Qed.
End Marker.

(* every state reached by successful steps from the start of a single-script session (rewinds return to earlier such states: C04) *)
Section Reach.
Variable low_s : bytes -> bool.
Variable tap_tweak_ok : bytes -> bytes -> bytes -> bool -> bool.
Variable sha256 : bytes -> bytes.
Variable c : cfg.

Inductive reach (v0 : ienv) : ienv -> Prop :=
| reach_refl : reach v0 v0
| reach_step : forall v v', reach v0 v -> Session.dbg_step low_s tap_tweak_ok sha256 c v = (v', SOk) -> reach v0 v'.

Theorem marker_inv_reachable : forall script stack ed v,
  i_p2sh (setup_env c script stack [] ed None) = false ->
  reach (setup_env c script stack [] ed None) v ->
  single v /\ marker_inv v /\ e_script (i_e v) = script.
Proof.
  intros script stack ed v Hp H. induction H as [|v v' Hr IH Hs].
  - split; [split; [reflexivity|split; [reflexivity|exact Hp]]|]. split; [apply marker_inv_init|reflexivity].
  - destruct IH as (Hsg & Hinv & Hsc).
    destruct (marker_inv_step low_s tap_tweak_ok sha256 c v v' Hsg Hinv Hs) as [Hsg' Hinv'].
    split; [exact Hsg'|]. split; [exact Hinv'|].
    (* the script never changes *)
    unfold Session.dbg_step in Hs. destruct Hsg as (Ht & Hsucc & Hp2). rewrite Ht in Hs.
    destruct (i_pc v) as [|b r] eqn:Epc.
    + rewrite Hp2, Hsucc in Hs. cbn [orb] in Hs. rewrite Bool.andb_false_r in Hs.
      destruct (negb (cs_empty (e_cond (i_e v)))); [discriminate|]. inversion Hs; subst v'. cbn. exact Hsc.
    + destruct (step_script low_s c (i_e v) (b :: r) false) as [[e1 pc1] st] eqn:Es. destruct st; try discriminate. inversion Hs; subst v'.
      pose proof (step_script_framed low_s c (i_e v) (b :: r) false) as Hf. cbv zeta in Hf. rewrite Es in Hf. cbn [fst snd] in Hf.
      destruct Hf as [Hfr _]. unfold frs in Hfr. cbn [fst] in Hfr. cbn. rewrite Hfr. exact Hsc.
Qed.
End Reach.

(* the listing main() builds for such a session is the plain listing of its script *)
Lemma session_listing_plain : forall c script stack ed,
  i_p2sh (setup_env c script stack [] ed None) = false ->
  session_listing c (setup_env c script stack [] ed None) = plain_listing script.
Proof.
  intros c script stack ed Hp. unfold session_listing, listing, listing_sections, plain_listing.
  cbn [i_tce i_succ i_e e_script setup_env]. rewrite Hp.
  destruct (c_sigver c =? SV_TAPSCRIPT); cbn [map app concat]; rewrite app_nil_r; reflexivity.
Qed.

(* ------------------------------------------------------------------ legacy spends: scriptSig section, header, scriptPubKey section *)
Section TwoSections.
Variable low_s : bytes -> bool.
Variable tap_tweak_ok : bytes -> bytes -> bytes -> bool -> bool.
Variable sha256 : bytes -> bytes.
Variable c : cfg.
Notation dbg_step := (Session.dbg_step low_s tap_tweak_ok sha256).

(* the listing of a session whose scriptPubKey is not pay-to-script-hash: operations of the scriptSig, the header line, operations of the scriptPubKey *)
Definition two_listing (script succ : bytes) : list str :=
  number_from 0 (map (fun op => (true, op_line op)) (decode_ops script) ++ [(false, HDR_SPK)] ++ map (fun op => (true, op_line op)) (decode_ops succ)).

(* phase A: inside the scriptSig; phase B: inside the scriptPubKey *)
Definition inv2 (script succ : bytes) (v : ienv) : Prop :=
  i_tce v = None /\ i_p2sh v = false /\
  ((i_succ v = succ /\ e_script (i_e v) = script /\
    exists pre, decode_ops script = pre ++ decode_ops (i_pc v) /\ i_seq v = Z.of_nat (length pre))
   \/
   (i_succ v = [] /\ e_script (i_e v) = succ /\
    exists pre, decode_ops succ = pre ++ decode_ops (i_pc v) /\ i_seq v = Z.of_nat (length (decode_ops script)) + 1 + Z.of_nat (length pre))).

Lemma two_listing_nth_A : forall script succ pre op rest, decode_ops script = pre ++ op :: rest ->
  marked_line (two_listing script succ) (Z.of_nat (length pre)) = Some (numbered (Z.of_nat (length pre)) (op_line op)).
Proof.
  intros script succ pre op rest Hd. unfold two_listing. rewrite Hd.
  set (texts := map (fun o => (true, op_line o)) (pre ++ op :: rest) ++ [(false, HDR_SPK)] ++ map (fun o => (true, op_line o)) (decode_ops succ)).
  assert (Hn: nth_error texts (length pre) = Some (true, op_line op)).
  { unfold texts. rewrite map_app. rewrite <- app_assoc. rewrite nth_error_app2 by (rewrite map_length; lia). rewrite map_length, Nat.sub_diag. reflexivity. }
  rewrite marked_is_nth by (rewrite number_from_length; unfold texts; rewrite !app_length, !map_length, app_length; cbn [length]; lia).
  rewrite Nat2Z.id. rewrite (number_from_nth texts 0 _ _ _ Hn). rewrite Z.add_0_l. reflexivity.
Qed.

Lemma two_listing_nth_header : forall script succ,
  marked_line (two_listing script succ) (Z.of_nat (length (decode_ops script))) = Some HDR_SPK.
Proof.
  intros script succ. unfold two_listing.
  set (texts := map (fun o => (true, op_line o)) (decode_ops script) ++ [(false, HDR_SPK)] ++ map (fun o => (true, op_line o)) (decode_ops succ)).
  assert (Hn: nth_error texts (length (decode_ops script)) = Some (false, HDR_SPK)).
  { unfold texts. rewrite nth_error_app2 by (rewrite map_length; lia). rewrite map_length, Nat.sub_diag. reflexivity. }
  rewrite marked_is_nth by (rewrite number_from_length; unfold texts; rewrite !app_length, !map_length; cbn [length]; lia).
  rewrite Nat2Z.id. rewrite (number_from_nth texts 0 _ _ _ Hn). reflexivity.
Qed.

Lemma two_listing_nth_B : forall script succ pre op rest, decode_ops succ = pre ++ op :: rest ->
  let k := Z.of_nat (length (decode_ops script)) + 1 + Z.of_nat (length pre) in
  marked_line (two_listing script succ) k = Some (numbered k (op_line op)).
Proof.
  intros script succ pre op rest Hd k. unfold two_listing. rewrite Hd.
  set (texts := map (fun o => (true, op_line o)) (decode_ops script) ++ [(false, HDR_SPK)] ++ map (fun o => (true, op_line o)) (pre ++ op :: rest)).
  assert (Hk: Z.to_nat k = (length (decode_ops script) + S (length pre))%nat) by (unfold k; lia).
  assert (Hn: nth_error texts (length (decode_ops script) + S (length pre)) = Some (true, op_line op)).
  { unfold texts. rewrite nth_error_app2 by (rewrite map_length; lia). rewrite map_length.
    replace (length (decode_ops script) + S (length pre) - length (decode_ops script))%nat with (S (length pre)) by lia.
    cbn [app nth_error]. rewrite map_app. rewrite nth_error_app2 by (rewrite map_length; lia). rewrite map_length, Nat.sub_diag. reflexivity. }
  rewrite marked_is_nth by (unfold k; rewrite number_from_length; unfold texts; rewrite !app_length, !map_length, app_length; cbn [length]; lia).
  rewrite Hk. rewrite (number_from_nth texts 0 _ _ _ Hn). rewrite Z.add_0_l.
  replace (Z.of_nat (length (decode_ops script) + S (length pre))) with k by (unfold k; lia). reflexivity.
Qed.

(* what the marker shows in every state of the invariant *)
Theorem two_sections_marker : forall script succ v, succ <> [] -> inv2 script succ v ->
  match i_pc v with
  | _ :: _ => forall op pc', get_op (i_pc v) = (Some op, pc') ->
               marked_line (two_listing script succ) (i_seq v) = Some (numbered (i_seq v) (op_line op))       (* the next operation *)
  | [] => if (match i_succ v with [] => false | _ => true end)
          then marked_line (two_listing script succ) (i_seq v) = Some HDR_SPK                                   (* the section entered next *)
          else marked_line (two_listing script succ) (i_seq v) = None                                          (* nothing pending *)
  end.
Proof.
  intros script succ v Hne (Ht & Hp & [(Hs & He & pre & Hd & Hq)|(Hs & He & pre & Hd & Hq)]).
  - destruct (i_pc v) as [|b r] eqn:Epc.
    + rewrite Hs. destruct succ; [contradiction|]. rewrite decode_ops_nil, app_nil_r in Hd. rewrite Hq, <- Hd. apply two_listing_nth_header.
    + intros op pc' Hg. rewrite (decode_ops_cons _ _ _ Hg) in Hd. rewrite Hq. eapply two_listing_nth_A. exact Hd.
  - destruct (i_pc v) as [|b r] eqn:Epc.
    + rewrite Hs. rewrite decode_ops_nil, app_nil_r in Hd. apply marked_none_past_end.
      rewrite Hq. unfold two_listing. rewrite number_from_length, !app_length, !map_length, <- Hd. cbn [length]. lia.
    + intros op pc' Hg. rewrite (decode_ops_cons _ _ _ Hg) in Hd. rewrite Hq. eapply (two_listing_nth_B script succ pre op). exact Hd.
Qed.

(* the invariant holds at the start and is kept by every successful step, including the switch to the scriptPubKey *)
Lemma inv2_init : forall script succ stack ed, i_p2sh (setup_env c script stack succ ed None) = false ->
  inv2 script succ (setup_env c script stack succ ed None).
Proof. intros script succ stack ed Hp. split; [reflexivity|]. split; [exact Hp|]. left. split; [reflexivity|]. split; [reflexivity|]. exists []. split; reflexivity. Qed.

Theorem inv2_step : forall script succ v v', succ <> [] -> p2sh_shape (c_flags c) succ = false ->
  inv2 script succ v -> dbg_step c v = (v', SOk) -> inv2 script succ v'.
Proof.
  intros script succ v v' Hne Hnp (Ht & Hp & Hph) H. unfold Session.dbg_step in H. rewrite Ht in H.
  destruct (i_pc v) as [|b r] eqn:Epc.
  - rewrite Hp in H. destruct Hph as [(Hs & He & pre & Hd & Hq)|(Hs & He & pre & Hd & Hq)].
    + (* switch to the scriptPubKey *)
      rewrite Hs in H. destruct succ as [|s0 sr]; [contradiction|]. cbn [orb] in H. rewrite Bool.andb_true_r in H.
      destruct (negb (cs_empty (e_cond (i_e v)))); [discriminate|].
      destruct (MAX_SCRIPT_SIZE <? zlen (s0 :: sr)); [discriminate|]. rewrite Hnp in H. inversion H; subst v'. clear H.
      split; [reflexivity|]. split; [reflexivity|]. right. cbn [i_succ i_e e_script i_pc i_seq].
      split; [reflexivity|]. split; [reflexivity|]. exists []. split; [reflexivity|].
      rewrite decode_ops_nil, app_nil_r in Hd. rewrite Hq, Hd. cbn [length]. lia.
    + rewrite Hs in H. cbn [orb] in H. rewrite Bool.andb_false_r in H.
      destruct (negb (cs_empty (e_cond (i_e v)))); [discriminate|]. inversion H; subst v'. clear H.
      split; [exact Ht|]. split; [exact Hp|]. right. cbn. split; [exact Hs|]. split; [exact He|]. exists pre. split; assumption.
  - destruct (step_script low_s c (i_e v) (b :: r) false) as [[e1 pc1] st] eqn:Es.
    destruct st; try discriminate. inversion H; subst v'. clear H.
    destruct (step_script_pc low_s c _ _ _ _ _ Es) as [op Hg].
    pose proof (step_script_framed low_s c (i_e v) (b :: r) false) as Hf. cbv zeta in Hf. rewrite Es in Hf. cbn [fst snd] in Hf.
    destruct Hf as [Hfr _]. unfold frs in Hfr. cbn [fst] in Hfr.
    split; [exact Ht|]. split; [exact Hp|].
    cbn [i_e i_pc i_seq i_succ set_seq set_hist upd set_pos e_script].
    destruct Hph as [(Hs & He & pre & Hd & Hq)|(Hs & He & pre & Hd & Hq)]; [left|right];
      (split; [exact Hs|]; split; [rewrite Hfr; exact He|]; exists (pre ++ [op]);
       split; [rewrite Hd, (decode_ops_cons _ _ _ Hg), <- app_assoc; reflexivity|rewrite app_length; cbn [length]; lia]).
Qed.

(* main() builds exactly this listing for such a session *)
Lemma session_listing_two : forall script succ stack ed, succ <> [] ->
  i_p2sh (setup_env c script stack succ ed None) = false -> (has_flag (c_flags c) SCRIPT_VERIFY_P2SH && is_p2sh_script succ) = false ->
  session_listing c (setup_env c script stack succ ed None) = two_listing script succ.
Proof.
  intros script succ stack ed Hne Hp Hnp. unfold session_listing, listing, listing_sections, two_listing.
  cbn [i_tce i_succ i_e e_script setup_env]. rewrite Hp. destruct succ as [|s0 sr]; [contradiction|]. rewrite Hnp.
  destruct (c_sigver c =? SV_TAPSCRIPT); cbn [map app concat]; rewrite ?app_nil_r; reflexivity.
Qed.
End TwoSections.

(* ------------------------------------------------------------------ pay-to-script-hash sessions: scriptSig, scriptPubKey, redeem script *)
Section ThreeSections.
Variable low_s : bytes -> bool.
Variable tap_tweak_ok : bytes -> bytes -> bytes -> bool -> bool.
Variable sha256 : bytes -> bytes.
Variable c : cfg.
Notation dbg_step := (Session.dbg_step low_s tap_tweak_ok sha256).
Notation opl := (map (fun op => (true, op_line op))).

(* index |X| of a listing built from X ++ line :: Y is that line *)
Lemma marked_at : forall X (b : bool) t Y,
  marked_line (number_from 0 (X ++ (b, t) :: Y)) (Z.of_nat (length X)) = Some (if b then numbered (Z.of_nat (length X)) t else t).
Proof.
  intros X b t Y.
  assert (Hn: nth_error (X ++ (b, t) :: Y) (length X) = Some (b, t)) by (rewrite nth_error_app2 by lia; rewrite Nat.sub_diag; reflexivity).
  rewrite marked_is_nth by (rewrite number_from_length, app_length; cbn [length]; lia).
  rewrite Nat2Z.id. rewrite (number_from_nth _ 0 _ _ _ Hn). rewrite Z.add_0_l. reflexivity.
Qed.

(* the listing main() builds for such a spend: the operations of the scriptSig, a header, those of the scriptPubKey, a header, those of the
   redeem script (taken from the scriptSig's last push) *)
Definition three_listing (script succ redeem : bytes) : list str :=
  number_from 0 (opl (decode_ops script) ++ [(false, HDR_SPK)] ++ opl (decode_ops succ) ++ [(false, HDR_P2SH)] ++ opl (decode_ops redeem)).

Definition nA (script : bytes) : Z := Z.of_nat (length (decode_ops script)).
(* phase A: in the scriptSig; phase B: in the scriptPubKey with the redeem script on top of the saved stack; phase C: in the redeem script *)
Definition inv3 (script succ redeem : bytes) (v : ienv) : Prop :=
  i_tce v = None /\
  ((i_succ v = succ /\ i_p2sh v = false /\ e_script (i_e v) = script /\
    exists pre, decode_ops script = pre ++ decode_ops (i_pc v) /\ i_seq v = Z.of_nat (length pre))
   \/
   (i_succ v = [] /\ i_p2sh v = true /\ e_script (i_e v) = succ /\ (exists rest, i_p2shstack v = redeem :: rest) /\
    exists pre, decode_ops succ = pre ++ decode_ops (i_pc v) /\ i_seq v = nA script + 1 + Z.of_nat (length pre))
   \/
   (i_succ v = [] /\ i_p2sh v = false /\ e_script (i_e v) = redeem /\
    exists pre, decode_ops redeem = pre ++ decode_ops (i_pc v) /\ i_seq v = nA script + 1 + nA succ + 1 + Z.of_nat (length pre))).

(* what the marker shows in every state of the invariant: the next operation; at the end of a section the header of the section entered
   next; after the last operation of the redeem script nothing *)
Theorem three_sections_marker : forall script succ redeem v, succ <> [] -> inv3 script succ redeem v ->
  match i_pc v with
  | _ :: _ => forall op pc', get_op (i_pc v) = (Some op, pc') ->
               marked_line (three_listing script succ redeem) (i_seq v) = Some (numbered (i_seq v) (op_line op))
  | [] => if (match i_succ v with [] => false | _ => true end) then marked_line (three_listing script succ redeem) (i_seq v) = Some HDR_SPK
          else if i_p2sh v then marked_line (three_listing script succ redeem) (i_seq v) = Some HDR_P2SH
          else marked_line (three_listing script succ redeem) (i_seq v) = None
  end.
Proof.
  intros script succ redeem v Hne (Ht & [(Hs & Hp & He & pre & Hd & Hq)|[(Hs & Hp & He & Hst & pre & Hd & Hq)|(Hs & Hp & He & pre & Hd & Hq)]]);
    unfold three_listing, nA in *.
  - destruct (i_pc v) as [|b r] eqn:Epc.
    + rewrite Hs. destruct succ; [contradiction|]. rewrite decode_ops_nil, app_nil_r in Hd. rewrite Hq, <- Hd.
      rewrite <- (map_length (fun op => (true, op_line op)) (decode_ops script)). cbn [app]. apply marked_at.
    + intros op pc' Hg. rewrite (decode_ops_cons _ _ _ Hg) in Hd. rewrite Hq, Hd. rewrite map_app. cbn [map]. rewrite <- app_assoc. cbn [app].
      rewrite <- (map_length (fun op => (true, op_line op)) pre). apply (marked_at (opl pre) true).
  - destruct (i_pc v) as [|b r] eqn:Epc.
    + rewrite Hs, Hp. rewrite decode_ops_nil, app_nil_r in Hd. rewrite Hq, <- Hd.
      set (X := opl (decode_ops script) ++ [(false, HDR_SPK)] ++ opl (decode_ops succ)).
      replace (Z.of_nat (length (decode_ops script)) + 1 + Z.of_nat (length (decode_ops succ))) with (Z.of_nat (length X))
        by (unfold X; rewrite !app_length, !map_length; cbn [length]; lia).
      replace (opl (decode_ops script) ++ [(false, HDR_SPK)] ++ opl (decode_ops succ) ++ [(false, HDR_P2SH)] ++ opl (decode_ops redeem))
        with (X ++ (false, HDR_P2SH) :: opl (decode_ops redeem)) by (unfold X; rewrite <- !app_assoc; reflexivity).
      apply marked_at.
    + intros op pc' Hg. rewrite (decode_ops_cons _ _ _ Hg) in Hd. rewrite Hq, Hd.
      set (X := opl (decode_ops script) ++ [(false, HDR_SPK)] ++ opl pre).
      replace (Z.of_nat (length (decode_ops script)) + 1 + Z.of_nat (length pre)) with (Z.of_nat (length X))
        by (unfold X; rewrite !app_length, !map_length; cbn [length]; lia).
      replace (opl (decode_ops script) ++ [(false, HDR_SPK)] ++ opl (pre ++ op :: decode_ops pc') ++ [(false, HDR_P2SH)] ++ opl (decode_ops redeem))
        with (X ++ (true, op_line op) :: (opl (decode_ops pc') ++ [(false, HDR_P2SH)] ++ opl (decode_ops redeem)))
        by (unfold X; rewrite map_app; cbn [map]; rewrite <- !app_assoc; reflexivity).
      apply (marked_at X true).
  - destruct (i_pc v) as [|b r] eqn:Epc.
    + rewrite Hs, Hp. rewrite decode_ops_nil, app_nil_r in Hd. apply marked_none_past_end.
      rewrite Hq. rewrite number_from_length, !app_length, !map_length, <- Hd. cbn [length]. lia.
    + intros op pc' Hg. rewrite (decode_ops_cons _ _ _ Hg) in Hd. rewrite Hq, Hd.
      set (X := opl (decode_ops script) ++ [(false, HDR_SPK)] ++ opl (decode_ops succ) ++ [(false, HDR_P2SH)] ++ opl pre).
      replace (Z.of_nat (length (decode_ops script)) + 1 + Z.of_nat (length (decode_ops succ)) + 1 + Z.of_nat (length pre)) with (Z.of_nat (length X))
        by (unfold X; rewrite !app_length, !map_length; cbn [length]; lia).
      replace (opl (decode_ops script) ++ [(false, HDR_SPK)] ++ opl (decode_ops succ) ++ [(false, HDR_P2SH)] ++ opl (pre ++ op :: decode_ops pc'))
        with (X ++ (true, op_line op) :: opl (decode_ops pc'))
        by (unfold X; rewrite map_app; cbn [map]; rewrite <- !app_assoc; reflexivity).
      apply (marked_at X true).
Qed.

Lemma inv3_init : forall script succ redeem stack ed, i_p2sh (setup_env c script stack succ ed None) = false ->
  inv3 script succ redeem (setup_env c script stack succ ed None).
Proof. intros script succ redeem stack ed Hp. split; [reflexivity|]. left. split; [reflexivity|]. split; [exact Hp|]. split; [reflexivity|]. exists []. split; reflexivity. Qed.

(* every successful step keeps the invariant, through both switches - provided the script that is listed as redeem script is the one the
   scriptSig leaves on top of the stack (for the push-only scriptSig of a standard pay-to-script-hash spend: its last push) *)
Theorem inv3_step : forall script succ redeem v v', succ <> [] -> p2sh_shape (c_flags c) succ = true ->
  (i_succ v = succ -> i_pc v = [] -> exists rest, e_stack (i_e v) = redeem :: rest) ->
  inv3 script succ redeem v -> dbg_step c v = (v', SOk) -> inv3 script succ redeem v'.
Proof.
  intros script succ redeem v v' Hne Hshape Htop (Ht & Hph) H. unfold Session.dbg_step in H. rewrite Ht in H.
  destruct (i_pc v) as [|b r] eqn:Epc.
  - destruct Hph as [(Hs & Hp & He & pre & Hd & Hq)|[(Hs & Hp & He & Hst & pre & Hd & Hq)|(Hs & Hp & He & pre & Hd & Hq)]].
    + (* A -> B: switch to the scriptPubKey; the stack is saved *)
      rewrite Hp, Hs in H. destruct succ as [|s0 sr]; [contradiction|]. cbn [orb] in H. rewrite Bool.andb_true_r in H.
      destruct (negb (cs_empty (e_cond (i_e v)))); [discriminate|].
      destruct (MAX_SCRIPT_SIZE <? zlen (s0 :: sr)); [discriminate|]. rewrite Hshape in H. inversion H; subst v'. clear H.
      split; [reflexivity|]. right. left. cbn [i_succ i_e e_script i_pc i_seq i_p2sh i_p2shstack].
      split; [reflexivity|]. split; [reflexivity|]. split; [reflexivity|]. split; [apply Htop; [exact Hs|reflexivity]|].
      exists []. split; [reflexivity|]. rewrite decode_ops_nil, app_nil_r in Hd. unfold nA. rewrite Hq, Hd. cbn [length]. lia.
    + (* B -> C: switch to the redeem script *)
      rewrite Hp, Hs in H. cbn [orb] in H. rewrite Bool.andb_true_r in H.
      destruct (negb (cs_empty (e_cond (i_e v)))); [discriminate|].
      destruct (e_stack (i_e v)) as [|top rest0]; [discriminate|].
      destruct (negb (cast_to_bool top)); [discriminate|].
      destruct (is_p2sh_script (e_script (i_e v))); [|discriminate].
      destruct Hst as (rest & Hst). rewrite Hst in H. inversion H; subst v'. clear H.
      split; [reflexivity|]. right. right. cbn [i_succ i_e e_script i_pc i_seq i_p2sh].
      split; [first [exact Hs|reflexivity]|]. split; [reflexivity|]. split; [reflexivity|].
      exists []. split; [reflexivity|]. rewrite decode_ops_nil, app_nil_r in Hd. unfold nA in *. rewrite Hq, Hd. cbn [length]. lia.
    + (* end of the redeem script *)
      rewrite Hp, Hs in H. cbn [orb] in H. rewrite Bool.andb_false_r in H.
      destruct (negb (cs_empty (e_cond (i_e v)))); [discriminate|]. inversion H; subst v'. clear H.
      split; [exact Ht|]. right. right. cbn. split; [exact Hs|]. split; [exact Hp|]. split; [exact He|]. exists pre. split; assumption.
  - destruct (step_script low_s c (i_e v) (b :: r) false) as [[e1 pc1] st] eqn:Es.
    destruct st; try discriminate. inversion H; subst v'. clear H.
    destruct (step_script_pc low_s c _ _ _ _ _ Es) as [op Hg].
    pose proof (step_script_framed low_s c (i_e v) (b :: r) false) as Hf. cbv zeta in Hf. rewrite Es in Hf. cbn [fst snd] in Hf.
    destruct Hf as [Hfr _]. unfold frs in Hfr. cbn [fst] in Hfr.
    split; [exact Ht|].
    cbn [i_e i_pc i_seq i_succ i_p2sh i_p2shstack set_seq set_hist upd set_pos e_script].
    destruct Hph as [(Hs & Hp & He & pre & Hd & Hq)|[(Hs & Hp & He & Hst & pre & Hd & Hq)|(Hs & Hp & He & pre & Hd & Hq)]].
    + left. split; [exact Hs|]. split; [exact Hp|]. split; [rewrite Hfr; exact He|]. exists (pre ++ [op]).
      split; [rewrite Hd, (decode_ops_cons _ _ _ Hg), <- app_assoc; reflexivity|rewrite app_length; cbn [length]; lia].
    + right. left. split; [exact Hs|]. split; [exact Hp|]. split; [rewrite Hfr; exact He|]. split; [exact Hst|]. exists (pre ++ [op]).
      split; [rewrite Hd, (decode_ops_cons _ _ _ Hg), <- app_assoc; reflexivity|rewrite app_length; cbn [length]; lia].
    + right. right. split; [exact Hs|]. split; [exact Hp|]. split; [rewrite Hfr; exact He|]. exists (pre ++ [op]).
      split; [rewrite Hd, (decode_ops_cons _ _ _ Hg), <- app_assoc; reflexivity|rewrite app_length; cbn [length]; lia].
Qed.

(* main() builds exactly this listing for such a session, with the scriptSig's last push as redeem script *)
Lemma session_listing_three : forall script succ stack ed, succ <> [] -> (c_sigver c =? SV_TAPSCRIPT) = false ->
  (has_flag (c_flags c) SCRIPT_VERIFY_P2SH && is_p2sh_script succ) = true ->
  session_listing c (setup_env c script stack succ ed None) = three_listing script succ (last_push script).
Proof.
  intros script succ stack ed Hne Hsv Hnp. unfold session_listing, listing, listing_sections, three_listing.
  cbn [i_tce i_succ i_e e_script setup_env i_p2sh i_p2shstack]. destruct succ as [|s0 sr]; [contradiction|]. rewrite Hnp, Hsv.
  cbn [map app concat]. rewrite ?app_nil_r. reflexivity.
Qed.
End ThreeSections.

(* ------------------------------------------------------------------ ... and the premise of inv3_step holds for a scriptSig made of data pushes *)
From BV Require Import StepProofs.
Section P2shReach.
Variable low_s : bytes -> bool.
Variable tap_tweak_ok : bytes -> bytes -> bytes -> bool -> bool.
Variable sha256 : bytes -> bytes.
Variable c : cfg.
Notation dbg_step := (Session.dbg_step low_s tap_tweak_ok sha256).

(* the scriptSig of a standard pay-to-script-hash spend: only data pushes (OP_0 .. OP_PUSHDATA4), at least one *)
Definition data_pushes (script : bytes) : Prop :=
  decode_ops script <> [] /\ Forall (fun op => 0 <= fst op <= OP_PUSHDATA4) (decode_ops script).

Lemma last_push_snoc : forall ops op, fold_left (fun (acc : bytes) (o : Z * bytes) => snd o) (ops ++ [op]) [] = snd op.
Proof. intros ops op. rewrite fold_left_app. reflexivity. Qed.

(* while the scriptSig runs: every operation so far was an executed push, the stack is those pushes (latest on top) over the initial stack *)
Definition invP (script : bytes) (stack0 : list bytes) (v : ienv) : Prop :=
  cs_all_true (e_cond (i_e v)) = true /\
  exists pre, decode_ops script = pre ++ decode_ops (i_pc v) /\ e_stack (i_e v) = rev (map snd pre) ++ stack0.

Lemma invP_step : forall script stack0 v v', data_pushes script -> i_tce v = None -> i_pc v <> [] ->
  invP script stack0 v -> dbg_step c v = (v', SOk) -> invP script stack0 v'.
Proof.
  intros script stack0 v v' [_ Hall] Ht Hpc (Hex & pre & Hd & Hst) H. unfold Session.dbg_step in H. rewrite Ht in H.
  destruct (i_pc v) as [|b r] eqn:Epc; [contradiction|].
  destruct (step_script low_s c (i_e v) (b :: r) false) as [[e1 pc1] st] eqn:Es.
  destruct st; try discriminate. inversion H; subst v'. clear H.
  destruct (step_script_pc low_s c _ _ _ _ _ Es) as [[opcode push] Hg].
  assert (Hin: In (opcode, push) (decode_ops script)) by (rewrite Hd, (decode_ops_cons _ _ _ Hg); apply in_or_app; right; left; reflexivity).
  pose proof (proj1 (Forall_forall _ _) Hall _ Hin) as Hr. cbn [fst] in Hr.
  destruct (executed_push low_s c _ _ _ _ _ _ _ _ Hg Hex Hr Es) as (_ & Hs1 & _ & Hc1 & _).
  split; [cbn [i_e set_seq set_hist upd set_pos e_cond]; rewrite Hc1; exact Hex|].
  exists (pre ++ [(opcode, push)]). cbn [i_e i_pc set_seq set_hist upd set_pos e_stack].
  split; [rewrite Hd, (decode_ops_cons _ _ _ Hg), <- app_assoc; reflexivity|].
  rewrite Hs1, Hst, map_app, rev_app_distr. reflexivity.
Qed.

(* when such a scriptSig has run to its end, its last push is on top of the stack *)
Lemma invP_end : forall script stack0 v, data_pushes script -> invP script stack0 v -> i_pc v = [] ->
  exists rest, e_stack (i_e v) = last_push script :: rest.
Proof.
  intros script stack0 v [Hne _] (_ & pre & Hd & Hst) Hpc. rewrite Hpc, decode_ops_nil, app_nil_r in Hd.
  unfold last_push. rewrite Hd in *. destruct (exists_last Hne) as (l & x & El). rewrite El in *.
  rewrite last_push_snoc. rewrite Hst, map_app, rev_app_distr. cbn [map rev app]. eexists. reflexivity.
Qed.

(* once the scriptPubKey has been entered no step brings a pending successor script back *)
Lemma dbg_step_succ_nil : forall v v' st, i_tce v = None -> i_succ v = [] -> dbg_step c v = (v', st) -> i_succ v' = [].
Proof.
  intros v v' st Ht Hsu H. unfold Session.dbg_step in H. rewrite Ht in H. destruct (i_pc v) as [|b r].
  - rewrite Hsu in H.
    repeat match type of H with
           | context [if ?q then _ else _] => destruct q
           | context [match ?q with [] => _ | _ :: _ => _ end] => destruct q
           end; inversion H; subst v'; cbn; first [exact Hsu|reflexivity].
  - destruct (step_script low_s c (i_e v) (b :: r) false) as [[e1 pc1] st1]. destruct st1; inversion H; subst v'; cbn; exact Hsu.
Qed.

(* EVERY state reached by successful steps of a pay-to-script-hash spend with such a scriptSig satisfies the three-section invariant
   (so the marker theorem applies in all of them) *)
Theorem p2sh_session_reachable : forall script succ stack ed v, succ <> [] -> p2sh_shape (c_flags c) succ = true -> data_pushes script ->
  i_p2sh (setup_env c script stack succ ed None) = false ->
  reach low_s tap_tweak_ok sha256 c (setup_env c script stack succ ed None) v ->
  inv3 script succ (last_push script) v /\ (i_succ v = succ -> invP script stack v).
Proof.
  intros script succ stack ed v Hne Hshape Hdp Hp H. induction H as [|v v' Hr IH Hs].
  - split; [apply inv3_init; exact Hp|]. intros _. split; [reflexivity|]. exists []. split; reflexivity.
  - destruct IH as [Hinv HP]. split.
    + eapply (inv3_step low_s tap_tweak_ok sha256 c script succ (last_push script) v v' Hne Hshape); [|exact Hinv|exact Hs].
      intros Hsu Hpc. eapply invP_end; [exact Hdp|apply HP; exact Hsu|exact Hpc].
    + intros Hsu'.
      (* still in the scriptSig after the step: the step was an operation of the scriptSig *)
      destruct Hinv as (Ht & [(Hsu & Hp2 & He & _)|[(Hsu & _)|(Hsu & _)]]).
      * destruct (i_pc v) as [|b r] eqn:Epc.
        { (* the switch clears the successor: contradiction with Hsu' *)
          exfalso. unfold Session.dbg_step in Hs. rewrite Ht, Epc, Hp2, Hsu in Hs. destruct succ as [|s0 sr]; [contradiction|].
          cbn [orb] in Hs. rewrite Bool.andb_true_r in Hs.
          destruct (negb (cs_empty (e_cond (i_e v)))); [discriminate|].
          destruct (MAX_SCRIPT_SIZE <? zlen (s0 :: sr)); [discriminate|]. inversion Hs; subst v'. cbn in Hsu'. discriminate. }
        { eapply invP_step; [exact Hdp|exact Ht|rewrite Epc; discriminate|apply HP; exact Hsu|exact Hs]. }
      * exfalso. rewrite (dbg_step_succ_nil v v' SOk Ht Hsu Hs) in Hsu'. destruct succ; [contradiction|discriminate].
      * exfalso. rewrite (dbg_step_succ_nil v v' SOk Ht Hsu Hs) in Hsu'. destruct succ; [contradiction|discriminate].
Qed.
End P2shReach.

(* ------------------------------------------------------------------ tapscript sessions: commitment lines, then the committed script *)
Section TapSections.
Variable low_s : bytes -> bool.
Variable tap_tweak_ok : bytes -> bytes -> bytes -> bool -> bool.
Variable sha256 : bytes -> bytes.
Variable c : cfg.
Notation dbg_step := (Session.dbg_step low_s tap_tweak_ok sha256).
Notation tce_iterate := (Session.tce_iterate tap_tweak_ok sha256).

Definition tap_listing (t0 : tce) (script : bytes) : list str :=
  number_from 0 (map (fun s => (true, s)) (tce_description t0) ++ map (fun op => (true, op_line op)) (decode_ops script)).

Lemma skipn_add {A} (a b : nat) (l : list A) : skipn a (skipn b l) = skipn (b + a) l.
Proof. revert l; induction b as [|b IH]; intros l; [reflexivity|]. destruct l; [rewrite !skipn_nil; reflexivity|]. cbn. apply IH. Qed.

(* the i-th "Branch:" line shows the i-th 32-byte node of the control block *)
Lemma branch_lines_nth : forall n nodes i, (i < n)%nat ->
  nth_error (branch_lines n nodes) i = Some (TXT_BRANCH ++ hexstr (firstn 32 (skipn (32 * i) nodes))).
Proof.
  induction n as [|n IH]; intros nodes i Hi; [lia|]. cbn [branch_lines]. destruct i as [|i].
  - reflexivity.
  - cbn [nth_error]. rewrite IH by lia. replace (32 * S i)%nat with (32 + 32 * i)%nat by lia. rewrite <- skipn_add. reflexivity.
Qed.
Lemma branch_lines_length : forall n nodes, length (branch_lines n nodes) = n.
Proof. induction n as [|n IH]; intros nodes; [reflexivity|]. cbn [branch_lines length]. rewrite IH. reflexivity. Qed.
Lemma tce_description_length : forall t, 0 <= t_path_len t -> Z.of_nat (length (tce_description t)) = t_path_len t + 1.
Proof. intros t H. unfold tce_description. rewrite app_length, branch_lines_length. cbn [length]. lia. Qed.

(* phase T: the commitment is being checked (t_i steps done); phase S: inside the committed script *)
Definition inv_tap (t0 : tce) (script : bytes) (v : ienv) : Prop :=
  e_script (i_e v) = script /\ i_succ v = [] /\ i_p2sh v = false /\
  ((exists t, i_tce v = Some t /\ t_control t = t_control t0 /\ t_path_len t = t_path_len t0 /\ 0 <= t_i t <= t_path_len t0 /\
              i_seq v = t_i t /\ i_pc v = script)
   \/
   (i_tce v = None /\ exists pre, decode_ops script = pre ++ decode_ops (i_pc v) /\ i_seq v = t_path_len t0 + 1 + Z.of_nat (length pre))).

Lemma inv_tap_init : forall t0 script stack ed, 0 <= t_path_len t0 -> t_i t0 = 0 ->
  i_p2sh (setup_env c script stack [] ed (Some t0)) = false -> inv_tap t0 script (setup_env c script stack [] ed (Some t0)).
Proof.
  intros t0 script stack ed Hp Hi Hp2. split; [reflexivity|]. split; [reflexivity|]. split; [exact Hp2|]. left. exists t0.
  repeat split; try reflexivity; try lia. cbn. symmetry. exact Hi.
Qed.

Theorem inv_tap_step : forall t0 script v v', 0 <= t_path_len t0 -> inv_tap t0 script v -> dbg_step c v = (v', SOk) -> inv_tap t0 script v'.
Proof.
  intros t0 script v v' Hpl (He & Hs & Hp2 & Hph) H. unfold Session.dbg_step in H.
  destruct Hph as [(t & Ht & Hc & Hl & Hi & Hq & Hpc)|(Ht & pre & Hd & Hq)].
  - rewrite Ht in H. unfold Session.tce_iterate in H. rewrite Hl in H.
    destruct (t_i t <? t_path_len t0) eqn:El.
    + apply Z.ltb_lt in El. inversion H; subst v'. clear H.
      split; [exact He|]. split; [exact Hs|]. split; [exact Hp2|]. left.
      eexists. split; [reflexivity|]. cbn [t_control t_path_len t_i set_seq set_tce i_seq i_pc]. repeat split; try assumption; lia.
    + apply Z.ltb_ge in El.
      destruct (tap_tweak_ok (t_program t) (firstn 32 (skipn 1 (t_control t))) (t_k t) (Z.odd (hd 0 (t_control t)))); [|discriminate].
      inversion H; subst v'. clear H.
      split; [exact He|]. split; [exact Hs|]. split; [exact Hp2|]. right. split; [reflexivity|].
      exists []. cbn [app length i_pc i_seq upd set_seq set_tce]. rewrite Hpc. split; [reflexivity|]. lia.
  - rewrite Ht in H. destruct (i_pc v) as [|b r] eqn:Epc.
    + rewrite Hp2, Hs in H. cbn [orb] in H. rewrite Bool.andb_false_r in H.
      destruct (negb (cs_empty (e_cond (i_e v)))); [discriminate|]. inversion H; subst v'. clear H.
      split; [exact He|]. split; [exact Hs|]. split; [exact Hp2|]. right. split; [exact Ht|]. exists pre. cbn. split; assumption.
    + destruct (step_script low_s c (i_e v) (b :: r) false) as [[e1 pc1] st] eqn:Es.
      destruct st; try discriminate. inversion H; subst v'. clear H.
      destruct (step_script_pc low_s c _ _ _ _ _ Es) as [op Hg].
      pose proof (step_script_framed low_s c (i_e v) (b :: r) false) as Hf. cbv zeta in Hf. rewrite Es in Hf. cbn [fst snd] in Hf.
      destruct Hf as [Hfr _]. unfold frs in Hfr. cbn [fst] in Hfr.
      split; [cbn [i_e set_seq set_hist upd set_pos e_script]; rewrite Hfr; exact He|]. split; [exact Hs|]. split; [exact Hp2|]. right.
      split; [exact Ht|]. exists (pre ++ [op]). cbn [i_pc i_seq set_seq set_hist upd].
      split; [rewrite Hd, (decode_ops_cons _ _ _ Hg), <- app_assoc; reflexivity|rewrite app_length; cbn [length]; lia].
Qed.

(* what the marker shows: during the commitment phase the line of the step about to be taken - the node that step hashes, or the tweak
   check -, afterwards the next operation of the script, at the end nothing *)
Theorem tap_marker : forall t0 script v, 0 <= t_path_len t0 -> inv_tap t0 script v ->
  match i_tce v with
  | Some t =>
      if t_i t <? t_path_len t0
      then marked_line (tap_listing t0 script) (i_seq v) =
           Some (numbered (i_seq v) (TXT_BRANCH ++ hexstr (firstn 32 (skipn (Z.to_nat (TAPROOT_CONTROL_BASE_SIZE + TAPROOT_CONTROL_NODE_SIZE * t_i t)) (t_control t0)))))
      else marked_line (tap_listing t0 script) (i_seq v) = Some (numbered (i_seq v) (TXT_TWEAK ++ hexstr (firstn 32 (skipn 1 (t_control t0)))))
  | None =>
      match i_pc v with
      | _ :: _ => forall op pc', get_op (i_pc v) = (Some op, pc') -> marked_line (tap_listing t0 script) (i_seq v) = Some (numbered (i_seq v) (op_line op))
      | [] => marked_line (tap_listing t0 script) (i_seq v) = None
      end
  end.
Proof.
  intros t0 script v Hpl (He & Hs & Hp2 & Hph).
  pose proof (tce_description_length t0 Hpl) as Hlen.
  destruct Hph as [(t & Ht & Hc & Hl & Hi & Hq & Hpc)|(Ht & pre & Hd & Hq)]; rewrite Ht.
  - set (texts := map (fun s => (true, s)) (tce_description t0) ++ map (fun op => (true, op_line op)) (decode_ops script)).
    assert (Hin: 0 <= i_seq v < Z.of_nat (length (number_from 0 texts))).
    { rewrite number_from_length. unfold texts. rewrite app_length, !map_length. lia. }
    unfold tap_listing. fold texts. rewrite (marked_is_nth _ _ Hin).
    destruct (t_i t <? t_path_len t0) eqn:El.
    + apply Z.ltb_lt in El.
      assert (Hn: nth_error texts (Z.to_nat (i_seq v)) = Some (true, TXT_BRANCH ++ hexstr (firstn 32 (skipn (32 * Z.to_nat (t_i t)) (skipn 33 (t_control t0)))))).
      { unfold texts. rewrite nth_error_app1 by (rewrite map_length; lia). rewrite nth_error_map. unfold tce_description.
        rewrite nth_error_app1 by (rewrite branch_lines_length; lia). rewrite Hq. rewrite branch_lines_nth by lia. reflexivity. }
      rewrite (number_from_nth texts 0 _ _ _ Hn). rewrite Z.add_0_l, Z2Nat.id by lia.
      rewrite skipn_add.
      replace (33 + 32 * Z.to_nat (t_i t))%nat with (Z.to_nat (TAPROOT_CONTROL_BASE_SIZE + TAPROOT_CONTROL_NODE_SIZE * t_i t))
        by (change TAPROOT_CONTROL_BASE_SIZE with 33; change TAPROOT_CONTROL_NODE_SIZE with 32; lia).
      reflexivity.
    + apply Z.ltb_ge in El.
      assert (Hn: nth_error texts (Z.to_nat (i_seq v)) = Some (true, TXT_TWEAK ++ hexstr (firstn 32 (skipn 1 (t_control t0))))).
      { unfold texts. rewrite nth_error_app1 by (rewrite map_length; lia). rewrite nth_error_map. unfold tce_description.
        rewrite nth_error_app2 by (rewrite branch_lines_length; lia). rewrite branch_lines_length.
        replace (Z.to_nat (i_seq v) - Z.to_nat (t_path_len t0))%nat with 0%nat by lia. reflexivity. }
      rewrite (number_from_nth texts 0 _ _ _ Hn). rewrite Z.add_0_l, Z2Nat.id by lia. reflexivity.
  - set (texts := map (fun s => (true, s)) (tce_description t0) ++ map (fun op => (true, op_line op)) (decode_ops script)).
    destruct (i_pc v) as [|b r] eqn:Epc.
    + rewrite decode_ops_nil, app_nil_r in Hd. apply marked_none_past_end. unfold tap_listing. fold texts.
      rewrite number_from_length. unfold texts. rewrite app_length, !map_length, Hd. lia.
    + intros op pc' Hg. rewrite (decode_ops_cons _ _ _ Hg) in Hd.
      assert (Hk: Z.to_nat (i_seq v) = (length (tce_description t0) + length pre)%nat) by lia.
      assert (Hn: nth_error texts (length (tce_description t0) + length pre) = Some (true, op_line op)).
      { unfold texts. rewrite nth_error_app2 by (rewrite map_length; lia). rewrite map_length.
        replace (length (tce_description t0) + length pre - length (tce_description t0))%nat with (length pre) by lia.
        rewrite Hd, map_app. rewrite nth_error_app2 by (rewrite map_length; lia). rewrite map_length, Nat.sub_diag. reflexivity. }
      unfold tap_listing. fold texts.
      rewrite marked_is_nth by (rewrite number_from_length; unfold texts; rewrite app_length, !map_length, Hd, app_length; cbn [length]; lia).
      rewrite Hk, (number_from_nth texts 0 _ _ _ Hn), Z.add_0_l. f_equal. f_equal. lia.
Qed.
End TapSections.

Lemma session_listing_tap : forall c t0 script stack ed, (c_sigver c =? SV_TAPSCRIPT) = true ->
  i_p2sh (setup_env c script stack [] ed (Some t0)) = false ->
  session_listing c (setup_env c script stack [] ed (Some t0)) = tap_listing t0 script.
Proof.
  intros c t0 script stack ed Hsv Hp. unfold session_listing, listing, listing_sections, tap_listing.
  cbn [i_tce i_succ i_e e_script setup_env]. rewrite Hp, Hsv. cbn [map app concat]. rewrite app_nil_r. reflexivity.
Qed.
