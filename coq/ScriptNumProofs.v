From BV Require Import Base BaseProofs ScriptNum.
Local Open Scope Z_scope.
Ltac Zify.zify_post_hook ::= Z.div_mod_to_equations.

Lemma zlen_app a b : zlen (a ++ b) = zlen a + zlen b.
Proof. unfold zlen. rewrite app_length. lia. Qed.

Lemma vlast_snoc r m : vlast (r ++ [m]) = m.
Proof. unfold vlast. apply last_app_single. Qed.

Lemma rev_snoc {A} (r : list A) m : rev (r ++ [m]) = m :: rev r.
Proof. rewrite rev_app_distr. reflexivity. Qed.

Lemma pow256_pos n : 0 < 256 ^ Z.of_nat n.
Proof. apply Z.pow_pos_nonneg; lia. Qed.

(* ---------- decode = specification value *)
Lemma set_vch_snoc r m :
  sn_set_vch (r ++ [m]) =
  if 128 <=? m then - (le_value r + (m - 128) * 256 ^ zlen r) else le_value r + m * 256 ^ zlen r.
Proof.
  unfold sn_set_vch. destruct (r ++ [m]) eqn:E. { destruct r; discriminate. }
  rewrite <- E. rewrite vlast_snoc, le_value_app, zlen_app.
  unfold zlen. cbn [length]. replace (Z.of_nat (length r) + Z.of_nat 1 - 1) with (Z.of_nat (length r)) by lia.
  destruct (128 <=? m); cbn [le_value]; lia.
Qed.

Lemma spec_value_snoc r m : 0 <= m < 256 ->
  spec_value (r ++ [m]) =
  if 128 <=? m then - (le_value r + (m - 128) * 256 ^ zlen r) else le_value r + m * 256 ^ zlen r.
Proof.
  intros Hm. unfold spec_value, spec_negative, spec_magnitude. rewrite vlast_snoc, rev_snoc, rev_involutive, zlen_app.
  unfold zlen. cbn [length]. replace (Z.of_nat (length r) + Z.of_nat 1 - 1) with (Z.of_nat (length r)) by lia.
  destruct (128 <=? m) eqn:E.
  - replace (m mod 128) with (m - 128) by lia. reflexivity.
  - replace (m mod 128) with m by lia. reflexivity.
Qed.

Theorem set_vch_is_spec_value b : bytes_ok b -> sn_set_vch b = spec_value b.
Proof.
  intros H. destruct (list_snoc_cases b) as [->|[r [m ->]]]. reflexivity.
  apply bytes_ok_app in H. destruct H as [_ Hm]. apply bytes_ok_cons in Hm. destruct Hm as [Hm _].
  rewrite set_vch_snoc, spec_value_snoc by assumption. reflexivity.
Qed.

(* ---------- encode then decode *)
Theorem serialize_then_set_vch fuel z :
  Z.abs z < 256 ^ Z.of_nat fuel -> sn_set_vch (sn_serialize_fuel fuel z) = z.
Proof.
  intros Hz. unfold sn_serialize_fuel. destruct (z =? 0) eqn:E0. { apply Z.eqb_eq in E0. subst. reflexivity. }
  apply Z.eqb_neq in E0.
  set (neg := z <? 0). set (a := if neg then - z else z).
  assert (Ha: 0 < a < 256 ^ Z.of_nat fuel). { subst a neg. destruct (z <? 0) eqn:En; lia. }
  pose proof (le_digits_value fuel a ltac:(lia)) as Hv.
  pose proof (le_digits_last_nz fuel a Ha) as Hl.
  assert (Hf: (0 < fuel)%nat). { destruct fuel. cbn in Ha. lia. lia. }
  pose proof (le_digits_nonempty fuel a ltac:(lia) Hf) as Hne.
  destruct (list_snoc_cases (le_digits fuel a)) as [Hnil|[r [m Hd]]]. { contradiction. }
  rewrite Hd in *. rewrite last_app_single in Hl. rewrite le_value_app in Hv. cbn [le_value] in Hv.
  unfold sn_fix_sign. rewrite vlast_snoc.
  destruct (128 <=? m) eqn:Em.
  - rewrite set_vch_snoc. rewrite le_value_app, zlen_app. cbn [le_value]. unfold zlen. cbn [length].
    subst a neg. destruct (z <? 0) eqn:En.
    + replace (128 <=? 128) with true by reflexivity. rewrite Z.pow_add_r by lia. lia.
    + replace (128 <=? 0) with false by reflexivity. lia.
  - subst a neg. destruct (z <? 0) eqn:En.
    + rewrite set_last_app, set_vch_snoc. replace (128 <=? m + 128) with true by lia. unfold zlen. lia.
    + rewrite set_vch_snoc, Em. unfold zlen. lia.
Qed.

(* ---------- the encoder's output is well-formed and minimal *)
Lemma bytes_ok_snoc r m : bytes_ok (r ++ [m]) <-> bytes_ok r /\ 0 <= m < 256.
Proof. rewrite bytes_ok_app, bytes_ok_cons. unfold bytes_ok. intuition. Qed.

Theorem serialize_ok fuel z : Z.abs z < 256 ^ Z.of_nat fuel -> bytes_ok (sn_serialize_fuel fuel z).
Proof.
  intros Hz. unfold sn_serialize_fuel. destruct (z =? 0) eqn:E0. constructor. apply Z.eqb_neq in E0.
  set (neg := z <? 0). set (a := if neg then - z else z).
  assert (Ha: 0 < a < 256 ^ Z.of_nat fuel). { subst a neg. destruct (z <? 0) eqn:En; lia. }
  pose proof (le_digits_ok fuel a ltac:(lia)) as Hok.
  pose proof (le_digits_last_nz fuel a Ha) as Hl.
  destruct (list_snoc_cases (le_digits fuel a)) as [Hnil|[r [m Hd]]].
  { rewrite Hnil in Hl. cbn in Hl. lia. }
  rewrite Hd in *. rewrite last_app_single in Hl. unfold sn_fix_sign. rewrite vlast_snoc.
  apply bytes_ok_snoc in Hok. destruct Hok as [Hr Hm].
  destruct (128 <=? m) eqn:Em.
  - apply bytes_ok_snoc. split. apply bytes_ok_snoc; auto. destruct neg; lia.
  - destruct neg. rewrite set_last_app. apply bytes_ok_snoc. split; auto. lia. apply bytes_ok_snoc; auto.
Qed.

Theorem serialize_minimal fuel z : Z.abs z < 256 ^ Z.of_nat fuel -> spec_minimal (sn_serialize_fuel fuel z).
Proof.
  intros Hz. unfold sn_serialize_fuel. destruct (z =? 0) eqn:E0. exact I. apply Z.eqb_neq in E0.
  set (neg := z <? 0). set (a := if neg then - z else z).
  assert (Ha: 0 < a < 256 ^ Z.of_nat fuel). { subst a neg. destruct (z <? 0) eqn:En; lia. }
  pose proof (le_digits_last_nz fuel a Ha) as Hl.
  destruct (list_snoc_cases (le_digits fuel a)) as [Hnil|[r [m Hd]]].
  { rewrite Hnil in Hl. cbn in Hl. lia. }
  rewrite Hd in *. rewrite last_app_single in Hl. unfold sn_fix_sign. rewrite vlast_snoc.
  unfold spec_minimal.
  destruct (128 <=? m) eqn:Em.
  - rewrite rev_snoc, rev_snoc. right. exists m, (rev r). split. reflexivity. lia.
  - destruct neg.
    + rewrite set_last_app, rev_snoc. left. lia.
    + rewrite rev_snoc. left. lia.
Qed.

(* ---------- the constructor's minimality test is exactly the specification's notion *)
Theorem nonminimal_iff b : bytes_ok b -> (sn_nonminimal b = true <-> ~ spec_minimal b).
Proof.
  intros H. unfold sn_nonminimal, spec_minimal.
  destruct (list_snoc_cases b) as [->|[r [m ->]]]. { cbn. split. discriminate. tauto. }
  rewrite rev_snoc.
  apply bytes_ok_snoc in H. destruct H as [Hr Hm].
  destruct (m mod 128 =? 0) eqn:E.
  - apply Z.eqb_eq in E.
    destruct (list_snoc_cases r) as [->|[r' [n ->]]].
    + cbn [rev]. split. intros _ [Hc|[x [y [Hc _]]]]. lia. discriminate. reflexivity.
    + rewrite rev_snoc. apply bytes_ok_snoc in Hr. destruct Hr as [_ Hn]. split.
      * intros Hlt [Hc|[x [y [Hc Hx]]]]. lia. inversion Hc; subst. lia.
      * intros Hnot. destruct (n <? 128) eqn:En; auto. exfalso. apply Hnot. right. exists n, (rev r'). split; auto. lia.
  - apply Z.eqb_neq in E. split. discriminate. intros Hnot. exfalso. apply Hnot. left. exact E.
Qed.

(* ---------- decode then encode: uniqueness of the minimal encoding *)
Lemma le_digits_of_value fuel l :
  bytes_ok l -> (length l <= fuel)%nat -> (l = [] \/ last l 0 <> 0) -> le_digits fuel (le_value l) = l.
Proof.
  revert fuel. induction l as [|b r IH]; intros fuel Hok Hlen Hlast.
  - cbn [le_value]. destruct fuel; reflexivity.
  - destruct fuel as [|f]. cbn in Hlen. lia.
    apply bytes_ok_cons in Hok. destruct Hok as [Hb Hr].
    cbn [le_value le_digits].
    assert (Hrv: 0 <= le_value r) by (pose proof (le_value_bound r Hr); lia).
    destruct Hlast as [Hc|Hlast]. discriminate.
    assert (Hnz: b + 256 * le_value r <> 0).
    { destruct r as [|c r'].
      - cbn [last] in Hlast. cbn [le_value]. lia.
      - cbn [last] in Hlast. intro Hc.
        assert (Hz: le_value (c :: r') = 0) by lia.
        assert (Hd: le_digits (length (c :: r')) (le_value (c :: r')) = c :: r').
        { apply IH; auto. }
        rewrite Hz in Hd. cbn [length le_digits] in Hd. discriminate. }
    destruct (b + 256 * le_value r =? 0) eqn:E. apply Z.eqb_eq in E. contradiction.
    f_equal. lia.
    replace ((b + 256 * le_value r) / 256) with (le_value r) by lia.
    apply IH; auto. cbn [length] in Hlen. lia.
    destruct r as [|c r']. left; reflexivity. right. cbn [last] in Hlast. exact Hlast.
Qed.

Lemma le_value_pos_of_last l : bytes_ok l -> last l 0 <> 0 -> 0 < le_value l.
Proof.
  induction l as [|b r IH]; intros Hok Hl. cbn in Hl. lia.
  apply bytes_ok_cons in Hok. destruct Hok as [Hb Hr]. cbn [le_value].
  destruct r as [|c r']. cbn in *. lia.
  cbn [last] in Hl. specialize (IH Hr Hl). lia.
Qed.

Theorem set_vch_then_serialize fuel b :
  bytes_ok b -> (length b <= fuel)%nat -> spec_minimal b -> sn_serialize_fuel fuel (sn_set_vch b) = b.
Proof.
  intros Hok Hlen Hmin.
  destruct (list_snoc_cases b) as [->|[r [m ->]]]. { reflexivity. }
  apply bytes_ok_snoc in Hok. destruct Hok as [Hr Hm].
  rewrite app_length in Hlen. cbn [length] in Hlen.
  unfold spec_minimal in Hmin. rewrite rev_snoc in Hmin.
  pose proof (le_value_bound r Hr) as Hrb. pose proof (pow256_pos (length r)) as Hp.
  rewrite set_vch_snoc. unfold zlen.
  destruct (Z.eq_dec (m mod 128) 0) as [Hm0|Hnz].
  2: {
    (* low 7 bits of the last byte non-zero *)
    destruct (128 <=? m) eqn:Em.
    + (* negative: magnitude digits are r ++ [m-128] *)
      assert (Hm128: m - 128 <> 0) by lia.
      set (mag := le_value r + (m - 128) * 256 ^ Z.of_nat (length r)).
      assert (Hmag: mag = le_value (r ++ [m - 128])). { subst mag. rewrite le_value_app. cbn [le_value]. lia. }
      assert (Hpos: 0 < mag). { rewrite Hmag. apply le_value_pos_of_last. apply bytes_ok_snoc. split; auto. lia. rewrite last_app_single. lia. }
      unfold sn_serialize_fuel. replace (- mag =? 0) with false by lia. replace (- mag <? 0) with true by lia.
      replace (- - mag) with mag by lia. rewrite Hmag.
      rewrite le_digits_of_value.
      * unfold sn_fix_sign. rewrite vlast_snoc. replace (128 <=? m - 128) with false by lia.
        rewrite set_last_app. f_equal. f_equal. lia.
      * apply bytes_ok_snoc. split; auto. lia.
      * rewrite app_length. cbn [length]. lia.
      * right. rewrite last_app_single. lia.
    + set (mag := le_value r + m * 256 ^ Z.of_nat (length r)).
      assert (Hmag: mag = le_value (r ++ [m])). { subst mag. rewrite le_value_app. cbn [le_value]. lia. }
      assert (Hm0: m <> 0) by lia.
      assert (Hpos: 0 < mag). { rewrite Hmag. apply le_value_pos_of_last. apply bytes_ok_snoc. split; auto. rewrite last_app_single. lia. }
      unfold sn_serialize_fuel. replace (mag =? 0) with false by lia. replace (mag <? 0) with false by lia.
      rewrite Hmag. rewrite le_digits_of_value.
      * unfold sn_fix_sign. rewrite vlast_snoc, Em. reflexivity.
      * apply bytes_ok_snoc. split; auto.
      * rewrite app_length. cbn [length]. lia.
      * right. rewrite last_app_single. lia. }
  destruct Hmin as [Hnz|[nxt [r0 [Hrest Hnxt]]]]. { contradiction. }
  (* last byte is a pure sign byte required by the byte below *)
  assert (Hrs: r = rev r0 ++ [nxt]). { rewrite <- (rev_involutive r), Hrest. reflexivity. }
  assert (Hnn: 0 <= nxt < 256). { rewrite Hrs in Hr. apply bytes_ok_snoc in Hr. tauto. }
  assert (Hlast: last r 0 <> 0). { rewrite Hrs, last_app_single. lia. }
  assert (Hpos: 0 < le_value r) by (apply le_value_pos_of_last; auto).
  assert (Hdig: le_digits fuel (le_value r) = r). { apply le_digits_of_value; auto. lia. }
  destruct (128 <=? m) eqn:Em.
  - assert (m = 128) by lia. subst m. replace ((128 - 128) * 256 ^ Z.of_nat (length r)) with 0 by lia. rewrite Z.add_0_r.
    unfold sn_serialize_fuel. replace (- le_value r =? 0) with false by lia. replace (- le_value r <? 0) with true by lia.
    replace (- - le_value r) with (le_value r) by lia. rewrite Hdig.
    unfold sn_fix_sign. replace (128 <=? vlast r) with true. reflexivity.
    unfold vlast. rewrite Hrs, last_app_single. lia.
  - assert (m = 0) by lia. subst m. rewrite Z.mul_0_l, Z.add_0_r.
    unfold sn_serialize_fuel. replace (le_value r =? 0) with false by lia. replace (le_value r <? 0) with false by lia.
    rewrite Hdig.
    unfold sn_fix_sign. replace (128 <=? vlast r) with true. reflexivity.
    unfold vlast. rewrite Hrs, last_app_single. lia.
Qed.

Lemma mul_ge_self k P : 1 <= k -> 0 < P -> k * P >= P.
Proof. intros. nia. Qed.

(* ---------- ranges: n-byte strings <-> |value| < 2^(8n-1) *)
Lemma pow256_mono a b : (a <= b)%nat -> 256 ^ Z.of_nat a <= 256 ^ Z.of_nat b.
Proof. intros. apply Z.pow_le_mono_r; lia. Qed.

Theorem spec_value_range n b :
  bytes_ok b -> (length b <= S n)%nat -> Z.abs (spec_value b) < 128 * 256 ^ Z.of_nat n.
Proof.
  intros Hok Hlen. pose proof (pow256_pos n) as Hp.
  destruct (list_snoc_cases b) as [->|[r [m ->]]]. { change (spec_value []) with 0. lia. }
  apply bytes_ok_snoc in Hok. destruct Hok as [Hr Hm]. rewrite app_length in Hlen. cbn [length] in Hlen.
  rewrite spec_value_snoc by assumption. unfold zlen.
  pose proof (le_value_bound r Hr) as Hrb. pose proof (pow256_mono (length r) n ltac:(lia)) as Hmono.
  pose proof (pow256_pos (length r)) as Hpr.
  destruct (128 <=? m) eqn:Em; nia.
Qed.

Theorem minimal_length_bound n b :
  bytes_ok b -> spec_minimal b -> Z.abs (spec_value b) < 128 * 256 ^ Z.of_nat n -> (length b <= S n)%nat.
Proof.
  intros Hok Hmin Hv.
  destruct (list_snoc_cases b) as [->|[r [m ->]]]. { cbn. lia. }
  apply bytes_ok_snoc in Hok. destruct Hok as [Hr Hm]. rewrite app_length. cbn [length].
  rewrite spec_value_snoc in Hv by assumption. unfold zlen in Hv.
  unfold spec_minimal in Hmin. rewrite rev_snoc in Hmin.
  pose proof (le_value_bound r Hr) as Hrb.
  destruct (Nat.le_gt_cases (length r) n) as [Hle|Hgt]. lia. exfalso.
  pose proof (pow256_mono (S n) (length r) ltac:(lia)) as Hmono.
  rewrite Nat2Z.inj_succ, Z.pow_succ_r in Hmono by lia.
  pose proof (pow256_pos n) as Hp.
  pose proof (pow256_pos (length r)) as Hpr0.
  destruct Hmin as [Hnz|[nxt [r0 [Hrest Hnxt]]]].
  - destruct (128 <=? m) eqn:Em.
    + assert (Hk: 1 <= m - 128) by lia.
      pose proof (mul_ge_self _ _ Hk Hpr0). lia.
    + assert (Hk: 1 <= m) by lia.
      pose proof (mul_ge_self _ _ Hk Hpr0). lia.
  - assert (Hrs: r = rev r0 ++ [nxt]). { rewrite <- (rev_involutive r), Hrest. reflexivity. }
    assert (Hnn: bytes_ok (rev r0) /\ 0 <= nxt < 256). { rewrite Hrs in Hr. apply bytes_ok_snoc in Hr. tauto. }
    destruct Hnn as [Hr0 Hnn].
    assert (Hlv: le_value r >= 128 * 256 ^ Z.of_nat (length (rev r0))).
    { rewrite Hrs, le_value_app. cbn [le_value]. pose proof (le_value_bound _ Hr0). pose proof (pow256_pos (length (rev r0))). nia. }
    assert (Hl: length r = S (length (rev r0))). { rewrite Hrs, app_length. cbn. lia. }
    pose proof (pow256_mono n (length (rev r0)) ltac:(lia)) as Hmono2.
    pose proof (pow256_pos (length r)) as Hpr.
    destruct (128 <=? m) eqn:Em; nia.
Qed.

Corollary serialize_length fuel n z :
  Z.abs z < 256 ^ Z.of_nat fuel -> Z.abs z < 128 * 256 ^ Z.of_nat n ->
  (length (sn_serialize_fuel fuel z) <= S n)%nat.
Proof.
  intros Hf Hz. apply minimal_length_bound.
  - apply serialize_ok; auto.
  - apply serialize_minimal; auto.
  - rewrite <- set_vch_is_spec_value by (apply serialize_ok; auto). rewrite serialize_then_set_vch; auto.
Qed.

(* ---------- the checking constructor, completely characterised *)
Theorem ctor_overflow b req max : (max < length b)%nat -> sn_ctor b req max = Exn EXN_NUMOVERFLOW.
Proof. intros H. unfold sn_ctor. apply Nat.ltb_lt in H. rewrite H. reflexivity. Qed.

Theorem ctor_nonminimal b max : bytes_ok b -> (length b <= max)%nat -> ~ spec_minimal b ->
  sn_ctor b true max = Exn EXN_NONMINIMAL.
Proof.
  intros Hok H Hm. unfold sn_ctor. replace (max <? length b)%nat with false by (symmetry; apply Nat.ltb_ge; lia).
  apply nonminimal_iff in Hm; auto. rewrite Hm. reflexivity.
Qed.

Theorem ctor_ok b req max : bytes_ok b -> (length b <= max)%nat -> (req = true -> spec_minimal b) ->
  sn_ctor b req max = Ok (spec_value b).
Proof.
  intros Hok H Hm. unfold sn_ctor. replace (max <? length b)%nat with false by (symmetry; apply Nat.ltb_ge; lia).
  destruct req; cbn [andb].
  - destruct (sn_nonminimal b) eqn:E. apply nonminimal_iff in E; auto. exfalso; apply E; auto.
    rewrite set_vch_is_spec_value; auto.
  - rewrite set_vch_is_spec_value; auto.
Qed.

Theorem ctor_cases b req max : bytes_ok b ->
  (sn_ctor b req max = Exn EXN_NUMOVERFLOW /\ (max < length b)%nat) \/
  (sn_ctor b req max = Exn EXN_NONMINIMAL /\ (length b <= max)%nat /\ req = true /\ ~ spec_minimal b) \/
  (sn_ctor b req max = Ok (spec_value b) /\ (length b <= max)%nat /\ (req = true -> spec_minimal b)).
Proof.
  intros Hok. destruct (Nat.lt_ge_cases max (length b)) as [Hlt|Hge].
  - left. split; auto. apply ctor_overflow; auto.
  - destruct req.
    + destruct (sn_nonminimal b) eqn:E.
      * right; left. apply nonminimal_iff in E; auto. repeat split; auto. apply ctor_nonminimal; auto.
      * right; right. assert (Hm: spec_minimal b).
        { destruct (list_snoc_cases b) as [->|[r [m Hb]]]. exact I.
          assert (Hn: ~ ~ spec_minimal b). { intro Hc. apply nonminimal_iff in Hc; auto. congruence. }
          (* spec_minimal is decidable: derive it from the boolean *)
          subst b. unfold spec_minimal in *. rewrite rev_snoc in *. unfold sn_nonminimal in E. rewrite rev_snoc in E.
          destruct (m mod 128 =? 0) eqn:Em.
          - destruct (rev r) as [|nxt rr] eqn:Er. discriminate. right. exists nxt, rr. split; auto. lia.
          - left. lia. }
        repeat split; auto. apply ctor_ok; auto.
    + right; right. repeat split; auto. apply ctor_ok; auto. discriminate. discriminate.
Qed.
