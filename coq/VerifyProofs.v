(* A debugger session over a legacy input equals the reference validation (VerifySpec.verify_ref). *)
From Coq Require Import ZifyBool.
From BV Require Import Base ScriptNum Script Interp Session FrameProofs SessionProofs VerifySpec.
From BV.Gen Require Import Consts Sites.
Local Open Scope Z_scope.

Section VerifyProofs.
Variable low_s : bytes -> bool.
Variable tap_tweak_ok : bytes -> bytes -> bytes -> bool -> bool.
Variable sha256 : bytes -> bytes.
Variable c : cfg.
Notation dbg_step := (Session.dbg_step low_s tap_tweak_ok sha256).
Notation dbg_continue := (Session.dbg_continue low_s tap_tweak_ok sha256).
Notation eval_loop_ref := (eval_loop_ref low_s c).
Notation eval_ref := (eval_ref low_s c).

(* everything of a session state except the environment, the iterator, the history and the position *)
Definition same_shell (v v1 : ienv) : Prop :=
  i_done v1 = i_done v /\ i_p2sh v1 = i_p2sh v /\ i_p2shstack v1 = i_p2shstack v /\ i_succ v1 = i_succ v /\ i_tce v1 = i_tce v.

(* running the current script: the debugger's continue loop performs exactly the reference evaluation loop, one step per operation *)
Lemma phase : forall g v f, (length (i_pc v) < g)%nat -> (g <= f)%nat -> i_tce v = None -> i_done v = false ->
  match eval_loop_ref g (i_e v) (i_pc v) with
  | (e1, SOk) => exists v1 f1, dbg_continue f c v = dbg_continue f1 c v1 /\ (f <= f1 + length (i_pc v))%nat /\
                               i_e v1 = e1 /\ i_pc v1 = [] /\ same_shell v v1
  | (e1, st) => exists v1, dbg_continue f c v = (v1, st) /\ i_e v1 = e1
  end.
Proof.
  induction g as [|g IH]; intros v f Hl Hf Ht Hd; [lia|].
  cbn [VerifySpec.eval_loop_ref]. destruct (i_pc v) as [|b r] eqn:Epc.
  - exists v, f. split; [reflexivity|]. split; [cbn; lia|]. split; [reflexivity|]. split; [exact Epc|]. repeat split.
  - destruct f as [|f]; [lia|]. cbn [Session.dbg_continue]. rewrite Hd.
    unfold Session.dbg_step. rewrite Ht, Epc.
    destruct (step_script low_s c (i_e v) (b :: r) false) as [[e1 pc1] st] eqn:Es.
    destruct st.
    + (* one more operation done *)
      destruct (step_script_pc low_s c _ _ _ _ _ Es) as [op Hg]. pose proof (get_op_shorter _ _ _ Hg) as Hsh.
      set (v' := set_seq (set_hist (upd v (set_pos e1 (e_pos e1 + 1)) pc1) (snap v :: i_hist v)) (i_seq v + 1)).
      specialize (IH v' f). cbn [i_pc i_e v' set_seq set_hist upd] in IH.
      assert (H1: (length pc1 < g)%nat) by (cbn [length] in *; lia).
      specialize (IH H1 ltac:(lia) Ht Hd).
      destruct (eval_loop_ref g (set_pos e1 (e_pos e1 + 1)) pc1) as [e2 st2].
      destruct st2.
      * destruct IH as (v1 & f1 & Hc & Hfu & He & Hp & Hsh1). exists v1, f1.
        split; [exact Hc|]. split; [cbn [length] in *; lia|]. split; [exact He|]. split; [exact Hp|exact Hsh1].
      * exact IH.
      * exact IH.
      * exact IH.
    + exists (upd v e1 pc1). split; reflexivity.
    + exists (upd v e1 pc1). split; reflexivity.
    + exists (upd v e1 pc1). split; reflexivity.
Qed.

Lemma eval_loop_script : forall g e pc, e_script (fst (eval_loop_ref g e pc)) = e_script e.
Proof.
  induction g as [|g IH]; intros e pc; [reflexivity|]. cbn [VerifySpec.eval_loop_ref]. destruct pc as [|b r]; [reflexivity|].
  pose proof (step_script_framed low_s c e (b :: r) false) as Hf. cbv zeta in Hf.
  destruct (step_script low_s c e (b :: r) false) as [[e1 pc1] st]. cbn [fst snd] in Hf. destruct Hf as [Hfr _]. unfold frs in Hfr. cbn [fst] in Hfr.
  destruct st; cbn [fst]; try exact Hfr. rewrite IH. exact Hfr.
Qed.

Lemma set_err_same e : set_err e (e_err e) = e.
Proof. destruct e; reflexivity. Qed.

(* how a session ends, against a verdict of the reference *)
Definition ended (r : ienv * status) (vd : verdict) : Prop :=
  match vd with
  | Valid e => exists v', r = (v', SOk) /\ i_e v' = set_err e SCRIPT_ERR_OK /\ i_done v' = true
  | Invalid e err => exists v', r = (v', SErr) /\ i_e v' = set_err e err
  | Aborted e st => exists v', r = (v', st) /\ i_e v' = e /\ st <> SOk /\ st <> SErr
  end.

(* the step taken at the end of the last script *)
Lemma continue_final : forall f v, i_tce v = None -> i_done v = false -> i_pc v = [] -> i_p2sh v = false -> i_succ v = [] -> (2 <= f)%nat ->
  ended (dbg_continue f c v) (finish (i_e v)).
Proof.
  intros f v Ht Hd Hp Hp2 Hs Hf. destruct f as [|[|f]]; try lia. cbn [Session.dbg_continue]. rewrite Hd.
  unfold Session.dbg_step. rewrite Ht, Hp, Hp2, Hs. cbn [orb]. rewrite Bool.andb_false_r. unfold finish.
  destruct (negb (cs_empty (e_cond (i_e v)))).
  - eexists. split; [reflexivity|]. reflexivity.
  - cbn [i_done upd set_done]. eexists. split; [reflexivity|]. split; reflexivity.
Qed.

Lemma ended_failed : forall r v1 e1 st, st <> SOk -> r = (v1, st) -> i_e v1 = e1 -> ended r (failed_verdict e1 st).
Proof.
  intros r v1 e1 st Hne Hr He. destruct st; [contradiction| | |]; cbn [failed_verdict ended]; exists v1.
  - split; [exact Hr|]. rewrite set_err_same. exact He.
  - split; [exact Hr|]. split; [exact He|]. split; discriminate.
  - split; [exact Hr|]. split; [exact He|]. split; discriminate.
Qed.

(* fuel: one step per operation of each script plus one per switch and one for the end *)
Definition enough (f : nat) (v0 : ienv) : Prop :=
  (length (e_script (i_e v0)) +
   match i_succ v0 with
   | [] => 0
   | s => length s + length (hd [] (e_stack (fst (eval_ref (i_e v0) (e_script (i_e v0))))))      (* a P2SH redeem script comes from that stack *)
   end + 6 <= f)%nat.

Theorem session_is_validation : forall v0 f,
  i_tce v0 = None -> i_p2sh v0 = false -> i_done v0 = false -> i_pc v0 = e_script (i_e v0) -> enough f v0 ->
  ended (dbg_continue f c v0) (verify_ref low_s c (i_e v0) (i_succ v0)).
Proof.
  intros v0 f Ht Hp2 Hd Hpc Hf. unfold enough in Hf. unfold verify_ref.
  pose proof (phase (S (length (i_pc v0))) v0 f ltac:(lia) ltac:(rewrite Hpc; lia) Ht Hd) as P1.
  unfold VerifySpec.eval_ref. rewrite Hpc in P1. unfold VerifySpec.eval_ref in Hf.
  destruct (eval_loop_ref (S (length (e_script (i_e v0)))) (i_e v0) (e_script (i_e v0))) as [e1 st1] eqn:E1.
  cbn [fst] in Hf.
  destruct st1; try (destruct P1 as (v1 & Hc & He); eapply ended_failed; [discriminate|exact Hc|exact He]).
  destruct P1 as (v1 & f1 & Hc1 & Hfu1 & He1 & Hpc1 & (Hd1 & Hp1 & Hps1 & Hs1 & Ht1)).
  rewrite Hc1. rewrite Hd in Hd1. rewrite Hp2 in Hp1. rewrite Ht in Ht1.
  destruct (i_succ v0) as [|s0 sr] eqn:Esucc.
  - (* script-only session *)
    rewrite <- He1. apply continue_final; try assumption. cbn [length] in Hfu1. lia.
  - (* scriptSig done: the switch to the scriptPubKey *)
    set (spk := s0 :: sr) in *.
    destruct f1 as [|f1]; [cbn [length] in *; lia|]. cbn [Session.dbg_continue]. rewrite Hd1.
    unfold Session.dbg_step at 1. rewrite Ht1, Hpc1, Hp1, Hs1. unfold spk at 1. cbn [orb]. rewrite Bool.andb_true_r. rewrite He1.
    destruct (negb (cs_empty (e_cond e1))) eqn:Ec1.
    { eexists. split; [reflexivity|]. reflexivity. }
    fold spk. destruct (MAX_SCRIPT_SIZE <? zlen spk) eqn:Esz.
    { eexists. split; [reflexivity|]. reflexivity. }
    set (isp := p2sh_shape (c_flags c) spk).
    set (v2 := {| i_e := {| e_script := spk; e_cb := Some spk; e_stack := e_stack e1; e_alt := []; e_cond := e_cond e1; e_ops := 0;
                            e_pos := e_pos e1; e_ed := e_ed e1; e_err := e_err e1 |};
                  i_pc := spk; i_hist := i_hist v1; i_seq := i_seq v1 + 1; i_done := i_done v1; i_p2sh := isp;
                  i_p2shstack := if isp then e_stack e1 else i_p2shstack v1; i_succ := []; i_tce := None; i_operational := i_operational v1 |}).
    change (ended (dbg_continue f1 c v2) match eval_loop_ref (S (length spk)) (call_env spk (e_stack e1) e1) spk with
       | (e2, SOk) => if isp then if negb (cs_empty (e_cond e2)) then Invalid e2 SCRIPT_ERR_UNBALANCED_CONDITIONAL
                                   else if negb (truthy e2) then Invalid e2 SCRIPT_ERR_EVAL_FALSE
                                   else match e_stack e1 with
                                        | [] => Invalid (set_stack e2 []) SCRIPT_ERR_INVALID_STACK_OPERATION
                                        | redeem :: rest => match eval_loop_ref (S (length redeem)) (call_env redeem rest e2) redeem with
                                                            | (e3, SOk) => finish e3 | (e3, st) => failed_verdict e3 st end
                                        end
                      else finish e2
       | (e2, st) => failed_verdict e2 st end).
    pose proof (phase (S (length spk)) v2 f1 ltac:(cbn; lia) ltac:(cbn [length] in *; lia) eq_refl Hd1) as P2.
    change (i_e v2) with (call_env spk (e_stack e1) e1) in P2. change (i_pc v2) with spk in P2.
    pose proof (eval_loop_script (S (length spk)) (call_env spk (e_stack e1) e1) spk) as Hscr. cbn [call_env e_script] in Hscr.
    destruct (eval_loop_ref (S (length spk)) (call_env spk (e_stack e1) e1) spk) as [e2 st2] eqn:E2. cbn [fst] in Hscr.
    destruct st2; try (destruct P2 as (v3 & Hc & He); eapply ended_failed; [discriminate|exact Hc|exact He]).
    destruct P2 as (v3 & f3 & Hc3 & Hfu3 & He3 & Hpc3 & (Hd3 & Hp3 & Hps3 & Hs3 & Ht3)).
    rewrite Hc3. cbn [i_done i_p2sh i_p2shstack i_succ i_tce v2] in Hd3, Hp3, Hps3, Hs3, Ht3. rewrite Hd1 in Hd3.
    cbn [length] in Hfu1, Hfu3.
    destruct isp eqn:Eisp.
    + (* pay-to-script-hash: the switch to the redeem script *)
      destruct f3 as [|f3]; [lia|]. cbn [Session.dbg_continue]. rewrite Hd3.
      unfold Session.dbg_step at 1. rewrite Ht3, Hpc3, Hp3. cbn [orb]. rewrite Bool.andb_true_r. rewrite He3.
      destruct (negb (cs_empty (e_cond e2))) eqn:Ec2.
      { eexists. split; [reflexivity|]. reflexivity. }
      unfold truthy. destruct (e_stack e2) as [|top st2'] eqn:Est2.
      { cbn [negb]. eexists. split; [reflexivity|]. reflexivity. }
      destruct (negb (cast_to_bool top)).
      { eexists. split; [reflexivity|]. reflexivity. }
      assert (Hp2sh: is_p2sh_script (e_script e2) = true).
      { rewrite Hscr. unfold isp, p2sh_shape in Eisp. apply andb_prop in Eisp. apply Eisp. }
      rewrite Hp2sh. rewrite Hps3.
      destruct (e_stack e1) as [|redeem rest] eqn:Est1.
      { eexists. split; [reflexivity|]. reflexivity. }
      set (v4 := {| i_e := {| e_script := redeem; e_cb := Some redeem; e_stack := rest; e_alt := []; e_cond := e_cond e2; e_ops := 0;
                              e_pos := e_pos e2; e_ed := e_ed e2; e_err := e_err e2 |};
                    i_pc := redeem; i_hist := i_hist v3; i_seq := i_seq v3 + 1; i_done := i_done v3; i_p2sh := false;
                    i_p2shstack := redeem :: rest; i_succ := i_succ v3; i_tce := None; i_operational := i_operational v3 |}).
      cbn [hd] in Hf.
      pose proof (phase (S (length redeem)) v4 f3 ltac:(cbn; lia) ltac:(cbn [length] in *; lia) eq_refl Hd3) as P3.
      change (i_e v4) with (call_env redeem rest e2) in P3. change (i_pc v4) with redeem in P3.
      destruct (eval_loop_ref (S (length redeem)) (call_env redeem rest e2) redeem) as [e3 st3] eqn:E3.
      destruct st3; try (destruct P3 as (v5 & Hc & He); eapply ended_failed; [discriminate|exact Hc|exact He]).
      destruct P3 as (v5 & f5 & Hc5 & Hfu5 & He5 & Hpc5 & (Hd5 & Hp5 & Hps5 & Hs5 & Ht5)).
      match goal with |- ended (dbg_continue f3 c ?x) _ => change x with v4 end. rewrite Hc5. rewrite <- He5.
      cbn [i_done i_p2sh i_succ i_tce v4] in Hd5, Hp5, Hs5, Ht5. rewrite Hd3 in Hd5. rewrite Hs3 in Hs5.
      apply continue_final; try assumption. cbn [length] in *. lia.
    + rewrite <- He3. apply continue_final; try assumption. lia.
Qed.
End VerifyProofs.

(* ------------------------------------------------------------------ witness inputs *)
Section WitnessSessions.
Variable low_s : bytes -> bool.
Variable tap_tweak_ok : bytes -> bytes -> bytes -> bool -> bool.
Variable sha256 : bytes -> bytes.
Variable c : cfg.

(* a session of a segwit / taproot input never enters the pay-to-script-hash phase, whatever its script looks like *)
Lemma witness_session_not_p2sh : forall script stack succ ed t, (c_sigver c =? SV_BASE) = false ->
  i_p2sh (setup_env c script stack succ ed t) = false.
Proof. intros. cbn [setup_env i_p2sh]. rewrite H. rewrite Bool.andb_false_r. reflexivity. Qed.

(* hence the session of a witness script (P2WSH script, the implied P2PKH script of P2WPKH, the key-path check) is one evaluation of that
   script on the given stack, followed by the balanced-nesting test *)
Theorem witness_script_session : forall script stack ed f,
  (c_sigver c =? SV_BASE) = false -> script <> [] -> script_too_big (c_sigver c) script = false ->
  enough low_s c f (setup_env c script stack [] ed None) ->
  ended (Session.dbg_continue low_s tap_tweak_ok sha256 f c (setup_env c script stack [] ed None))
        (match eval_ref low_s c (i_e (setup_env c script stack [] ed None)) script with
         | (e1, SOk) => finish e1 | (e1, st) => failed_verdict e1 st end).
Proof.
  intros script stack ed f Hsv Hne Hbig Hf.
  pose proof (session_is_validation low_s tap_tweak_ok sha256 c (setup_env c script stack [] ed None) f eq_refl
                (witness_session_not_p2sh script stack [] ed None Hsv)) as H.
  assert (Hd: i_done (setup_env c script stack [] ed None) = false) by (cbn; destruct script; [contradiction|reflexivity]).
  specialize (H Hd eq_refl Hf). unfold verify_ref in H. cbn [i_succ setup_env] in H. exact H.
Qed.
End WitnessSessions.

(* ------------------------------------------------------------------ tapscript: commitment phase, then the script *)
From BV Require Import TceProofs.
Section TapSessions.
Variable low_s : bytes -> bool.
Variable tap_tweak_ok : bytes -> bytes -> bytes -> bool -> bool.
Variable sha256 : bytes -> bytes.
Variable c : cfg.
Notation dbg_continue := (Session.dbg_continue low_s tap_tweak_ok sha256).
Notation tce_run := (TceProofs.tce_run tap_tweak_ok sha256).

(* the commitment phase of the session performs exactly the iteration [tce_run]: a failed commitment ends the session with an error and an
   untouched environment; a successful one hands the script the leaf hash (execdata.m_tapleaf_hash) and nothing else *)
Lemma tce_phase : forall g t v f, i_tce v = Some t -> i_done v = false -> (g <= f)%nat ->
  match tce_run g t with
  | (t', TceDone) => exists v1 f1, dbg_continue f c v = dbg_continue f1 c v1 /\ (f <= f1 + g)%nat /\ i_tce v1 = None /\
                                   i_e v1 = set_ed (i_e v) (ed_set_tapleaf (e_ed (i_e v)) (t_leaf t')) /\ i_pc v1 = i_pc v /\
                                   i_done v1 = false /\ i_p2sh v1 = i_p2sh v /\ i_succ v1 = i_succ v
  | (t', TceFailed) => exists v1, dbg_continue f c v = (v1, SErr) /\ i_e v1 = i_e v
  | (t', TceProcessing) => True
  end.
Proof.
  induction g as [|g IH]; intros t v f Ht Hd Hf; cbn [TceProofs.tce_run]; [exact I|].
  destruct f as [|f]; [lia|]. cbn [Session.dbg_continue]. rewrite Hd. unfold Session.dbg_step. rewrite Ht.
  destruct (tce_iterate tap_tweak_ok sha256 t) as [t1 st] eqn:Ei. destruct st.
  - (* processing *)
    set (v' := set_seq (set_tce v (Some t1)) (i_seq v + 1)).
    specialize (IH t1 v' f eq_refl Hd ltac:(lia)).
    destruct (tce_run g t1) as [t' st']. destruct st'; [exact I| |].
    + destruct IH as (v1 & Hc & He). exists v1. split; [exact Hc|exact He].
    + destruct IH as (v1 & f1 & Hc & Hfu & Ht1 & He & Hp & Hd1 & Hp2 & Hs). exists v1, f1.
      split; [exact Hc|]. split; [lia|]. split; [exact Ht1|]. split; [exact He|]. split; [exact Hp|]. split; [exact Hd1|]. split; assumption.
  - eexists. split; [reflexivity|]. reflexivity.
  - eexists. exists f. split; [reflexivity|]. split; [lia|]. cbn. repeat split; try reflexivity. exact Hd.
Qed.

(* the whole tapscript session: the BIP341 commitment rule decides whether the script runs at all (C05), and if it does the session is one
   evaluation of the committed script with the leaf hash installed *)
Theorem tapscript_session : forall control program script m stack ed f,
  (forall x, length (sha256 x) = 32%nat) -> length control = (33 + 32 * m)%nat -> (c_sigver c =? SV_BASE) = false ->
  let t0 := tce_new sha256 control program script in
  let v0 := setup_env c script stack [] ed (Some t0) in
  let e_run := set_ed (i_e v0) (ed_set_tapleaf (e_ed (i_e v0)) (spec_leaf sha256 control script)) in
  (S m + (length script + 6) <= f)%nat ->
  if spec_commit_ok tap_tweak_ok sha256 control program script
  then ended (dbg_continue f c v0) (match eval_ref low_s c e_run script with (e1, SOk) => finish e1 | (e1, st) => failed_verdict e1 st end)
  else exists v1, dbg_continue f c v0 = (v1, SErr) /\ i_e v1 = i_e v0.
Proof.
  intros control program script m stack ed f Hlen Hctl Hsv t0 v0 e_run Hf.
  destruct (commitment_done_iff tap_tweak_ok sha256 Hlen control program script m Hctl) as (t' & Hrun & _ & Hleaf).
  assert (Hd0: i_done v0 = false) by (cbn; destruct script; reflexivity).
  pose proof (tce_phase (S m) t0 v0 f eq_refl Hd0 ltac:(lia)) as P. fold t0 in Hrun. rewrite Hrun in P.
  destruct (spec_commit_ok tap_tweak_ok sha256 control program script).
  - destruct P as (v1 & f1 & Hc & Hfu & Ht1 & He & Hp & Hd1 & Hp2 & Hs).
    rewrite Hc. rewrite Hleaf in He. fold e_run in He.
    assert (Hp2sh: i_p2sh v1 = false) by (rewrite Hp2; apply witness_session_not_p2sh; exact Hsv).
    assert (Hpc: i_pc v1 = e_script (i_e v1)) by (rewrite Hp, He; reflexivity).
    assert (Hen: enough low_s c f1 v1).
    { unfold enough. rewrite Hs. cbn [i_succ v0 setup_env]. rewrite He. cbn [set_ed e_script e_run i_e v0 setup_env]. lia. }
    pose proof (session_is_validation low_s tap_tweak_ok sha256 c v1 f1 Ht1 Hp2sh Hd1 Hpc Hen) as H.
    unfold verify_ref in H. rewrite Hs in H. cbn [i_succ v0 setup_env] in H. rewrite He in H. cbn [set_ed e_script e_run i_e v0 setup_env] in H. exact H.
  - exact P.
Qed.
End TapSessions.
