(* Model of the value transforms: Value::do_* (value.h, value.cpp), the inline dispatcher Value::do_exec and the
   `tf` command (functions.cpp fn_tf, _e_* wrappers, println). The name tables are generated (Gen/TfTable.v).
   Elliptic-curve transforms (verify-sig, combine-pubkeys, tweak-pubkey, pubkey-to-xpubkey, taproot-tweak-pubkey)
   are NOT modelled: they yield [TUnmodelled]. *)
From BV Require Import Base ScriptNum Script Value Codecs Hashes.
From BV.Gen Require Import Consts OpNames TfTable.
Local Open Scope Z_scope.

Inductive tres :=
| TOk (pre : str) (v : value)      (* text printed to stdout by the transform itself, resulting value *)
| TExit1                           (* exit(1) with a diagnostic *)
| TExn                             (* C++ exception (caught by fn_tf; fatal in the inline form) *)
| TCrash                           (* undefined behaviour / crash *)
| TUnmodelled.

(* Value::data_value(): the data bytes of any value *)
Definition dv (v : value) : bytes := value_data_value v.

(* ------------------------------------------------------------ printing *)
Fixpoint dec_digits (fuel : nat) (n : Z) (acc : str) : str :=
  match fuel with
  | O => acc
  | S f => if n <? 10 then (48 + n) :: acc else dec_digits f (n / 10) ((48 + n mod 10) :: acc)
  end.
Definition dec_string (z : Z) : str :=
  if z <? 0 then 45 :: dec_digits 25 (- z) [] else dec_digits 25 z [].

Fixpoint assoc_z {A} (tbl : list (Z * A)) (k : Z) : option A :=
  match tbl with [] => None | (k', a) :: r => if k' =? k then Some a else assoc_z r k end.
Definition get_op_name (o : Z) : str :=
  match assoc_z getopname_table o with Some n => n | None => getopname_default end.

Definition hexbyte (b : Z) : str := [hexdigit (b / 16); hexdigit (b mod 16)].

(* Value::println() (without the final newline) *)
Definition print_value (v : value) : str :=
  match v with
  | VInt i => dec_string i
  | VOpcode o => get_op_name o ++ [32; 40] ++ hexbyte o ++ [41]      (* "NAME (xx)" then the (empty) data *)
  | VData d => hexstr d
  | VString s => 34 :: s ++ [34]
  | VFun _ _ w => 34 :: w ++ [34]
  end.

(* Value::hex_str() *)
Definition hex_str (v : value) : str :=
  match v with
  | VOpcode o => hexbyte o
  | VInt i => hexstr (sn_serialize i)
  | VData d => hexstr d
  | VString s => hexstr s
  | VFun _ _ w => hexstr w
  end.

(* Value::int_value(): Some z, or exception (data longer than 4 bytes) *)
Definition int_value (v : value) : outcome Z :=
  match v with
  | VInt i => Ok i
  | VOpcode o => Ok o
  | VData d => sn_ctor d false 4
  | _ => Ok (-1)                        (* "cannot convert string into integer value" *)
  end.

(* ------------------------------------------------------------ helpers *)
Definition two256 : Z := 2 ^ 256.
(* get_arith_uint256 on a data value: first (up to) 32 bytes, little-endian *)
Definition u256_of (d : bytes) : Z := le_value (firstn 32 d).
Definition u256_bytes (z : Z) : bytes := le_fixed 32 (z mod two256).

(* Value::extract_values: the data read as a script of non-empty pushes *)
Fixpoint extract_values (fuel : nat) (pc : bytes) (acc : list bytes) : option (list bytes) :=
  match fuel with
  | O => Some (rev acc)
  | S f =>
      match pc with
      | [] => Some (rev acc)
      | _ => match get_op pc with
             | (Some (_, vch), pc') => match vch with [] => None | _ => extract_values f pc' (vch :: acc) end
             | (None, _) => None
             end
      end
  end.

(* add(data, a, b, g) *)
Definition uadd (a b g : Z) : Z :=
  let c := (a + b) mod two256 in
  if negb (g =? 0) && ((g <=? c) || (c <? a)) then (c - g) mod two256 else c.

(* the Jacobi symbol loop of do_jacobi_symbol; None = division by zero (exception) *)
Fixpoint strip_twos (fuel : nat) (n k t : Z) : Z * Z :=
  match fuel with
  | O => (n, t)
  | S f => if Z.even n then
             let r := k mod 8 in
             strip_twos f (n / 2) k (if (r =? 3) || (r =? 5) then 1 - t else t)
           else (n, t)
  end.
Fixpoint jacobi_loop (fuel : nat) (n k t : Z) : option Z :=
  match fuel with
  | O => Some 0
  | S f =>
      if n =? 0 then Some (if k =? 1 then (if t =? 1 then -1 else 1) else 0)
      else
        let '(n1, t1) := strip_twos 260 n k t in
        (* swap *)
        let n2 := k in let k2 := n1 in
        let t2 := if (n2 mod 4 =? 3) && (k2 mod 4 =? 3) then 1 - t1 else t1 in
        if k2 =? 0 then None else jacobi_loop f (n2 mod k2) k2 t2
  end.
Definition jacobi (n k : Z) : option Z := if k =? 0 then None else jacobi_loop 1200 (n mod k) k 0.
Definition SECP256K1_P : Z := 2 ^ 256 - 2 ^ 32 - 977.
Definition be_bytes_value (d : bytes) : Z := le_value (rev d).      (* uint256(vector) then UintToArith256: bytes are little-endian already *)

Definition TAG_len := 0.

(* ------------------------------------------------------------ the transforms *)
Definition m_sha256 (v : value) : tres := TOk [] (VData (sha256 (dv v))).
Definition m_ripemd160 (v : value) : tres := TOk [] (VData (ripemd160 (dv v))).
Definition m_hash256 (v : value) : tres := TOk [] (VData (hash256 (dv v))).
Definition m_hash160 (v : value) : tres := TOk [] (VData (hash160 (dv v))).

Definition m_reverse (v : value) : tres :=
  match v with
  | VInt i =>
      (* decimal digits reversed, sign kept; int64 overflow of the accumulator is undefined behaviour *)
      let digs := dec_digits 25 (Z.abs i) [] in
      let r := fold_left (fun acc c => acc * 10 + (c - 48)) (rev digs) 0 in
      let r := if i <? 0 then - r else r in
      if i =? 0 then TOk [] (VInt 0)
      else if (r <? -9223372036854775808) || (9223372036854775807 <? r) then TOk [] (VInt i)   (* diagnostic, value unchanged *)
      else TOk [] (VInt r)
  | VData d => TOk [] (VData (rev d))
  | VString s => TOk [] (VString (rev s))
  | VFun f a w => TOk [] (VString (rev w))
  | VOpcode _ => TExit1
  end.

Definition m_base58chkenc (v : value) : tres := TOk [] (VString (base58check_encode hash256 (dv v))).
Definition m_base58chkdec (v : value) : tres :=
  match v with
  | VString s => match value_base58chk_dec hash256 s with
                 | Some d => TOk [] (VData d)
                 | None => TOk [] (VData [])          (* "decode failed": data cleared, type set to data *)
                 end
  | _ => TOk [] v                                     (* "cannot base58-decode non-string value" *)
  end.

Definition m_bech32enc (m : bool) (v : value) : tres := TOk [] (VString (value_bech32_enc m default_bech32_hrp (dv v))).

Definition BECH32_PRE (m : bool) (hrp : str) : str :=
  (* "(bech32 HRP = %s)\n" / "(bech32m HRP = %s)\n" *)
  [40; 98; 101; 99; 104; 51; 50] ++ (if m then [109] else []) ++ [32; 72; 82; 80; 32; 61; 32] ++ hrp ++ [41; 10].
Definition m_bech32dec (v : value) : tres :=
  match v with
  | VString s =>
      match value_bech32_dec_full s with
      | B32Failed => TOk [] v
      | B32UB => TOk [] v                             (* no data part: diagnostic, value unchanged *)
      | B32Data _ enc hrp _ data => TOk (BECH32_PRE (enc =? 2) hrp) (VData data)
      end
  | _ => TOk [] v
  end.

(* the stale [data] member of a Value that was not constructed as data *)
Definition stale_data (v : value) : bytes := match v with VData d => d | _ => [] end.

Definition p2pkh_script (h : bytes) : bytes := [OP_DUP; OP_HASH160] ++ push_data h ++ [OP_EQUALVERIFY; OP_CHECKSIG].

Definition m_addr_to_spk (v : value) : tres :=
  let d := match v with
           | VString s => match value_base58chk_dec hash256 s with Some d => d | None => [] end
           | _ => stale_data v
           end in
  match d with
  | [] => TOk [] (match v with VString _ => VData [] | _ => v end)     (* diagnostic; a failed decode leaves an empty data value *)
  | _ :: h => TOk [] (VData (p2pkh_script h))
  end.

Definition m_spk_to_addr (v : value) : tres :=
  let d := stale_data v in
  if negb (zlen d =? 25) then TOk [] v
  else if negb ((nth 0 d 0 =? OP_DUP) && (nth 1 d 0 =? OP_HASH160) && (nth 2 d 0 =? 20) && (nth 23 d 0 =? OP_EQUALVERIFY) && (nth 24 d 0 =? OP_CHECKSIG))
       then TOk [] v
  else TOk [] (VString (base58check_encode hash256 (0 :: firstn 20 (skipn 3 d)))).

Definition m_addsub (sub : bool) (v : value) : tres :=
  let d := stale_data v in
  match extract_values (S (length d)) d [] with
  | Some [a; b] =>
      let b' := if sub then (- u256_of b) mod two256 else u256_of b in
      TOk [] (VData (u256_bytes (uadd (u256_of a) b' 0)))
  | Some [a; b; g] =>
      let gz := u256_of g in
      let b' := if sub then (if gz =? 0 then (- u256_of b) mod two256 else (gz - u256_of b) mod two256) else u256_of b in
      TOk [] (VData (u256_bytes (uadd (u256_of a) b' gz)))
  | _ => TOk [] v                                     (* "invalid input": unchanged *)
  end.

Definition m_jacobi (v : value) : tres :=
  match v with
  | VData d =>
      let run (n k : Z) := match jacobi n k with Some j => TOk [] (VInt j) | None => TExn end in
      match extract_values (S (length d)) d [] with
      | None => if zlen d =? 32 then run (le_value d) SECP256K1_P else TOk [] v
      | Some [a; b] => if (zlen a =? 32) && (zlen b =? 32) then run (le_value a) (le_value b) else TOk [] v
      | Some _ => TOk [] v
      end
  | _ => TOk [] v
  end.

Definition m_tagged_hash (v : value) : tres :=
  let d := stale_data v in
  match extract_values (S (length d)) d [] with
  | Some (tag :: m1 :: rest) => TOk [] (VData (tagged_hash tag (m1 ++ concat rest)))
  | _ => TOk [] v
  end.

Definition compact_prefix (n : Z) : bytes :=
  if n <? 253 then [n]
  else if n <=? 65535 then 253 :: le_fixed 2 n
  else if n <=? 4294967295 then 254 :: le_fixed 4 n
  else 255 :: le_fixed 8 n.
Definition m_prefix_compact_size (v : value) : tres := TOk [] (VData (compact_prefix (zlen (dv v)) ++ dv v)).
Definition m_len (v : value) : tres := TOk [] (VInt (zlen (dv v))).

(* ------------------------------------------------------------ dispatch by C++ method name (do_<name>) *)
Definition S_ (s : str) (t : str) : bool := str_eqb s t.
Definition apply_method (m : str) (v : value) : tres :=
  if S_ m [114;101;118;101;114;115;101] then m_reverse v                                  (* reverse *)
  else if S_ m [115;104;97;50;53;54] then m_sha256 v                                      (* sha256 *)
  else if S_ m [114;105;112;101;109;100;49;54;48] then m_ripemd160 v                       (* ripemd160 *)
  else if S_ m [104;97;115;104;50;53;54] then m_hash256 v                                 (* hash256 *)
  else if S_ m [104;97;115;104;49;54;48] then m_hash160 v                                 (* hash160 *)
  else if S_ m [98;97;115;101;53;56;99;104;107;101;110;99] then m_base58chkenc v          (* base58chkenc *)
  else if S_ m [98;97;115;101;53;56;99;104;107;100;101;99] then m_base58chkdec v          (* base58chkdec *)
  else if S_ m [98;101;99;104;51;50;101;110;99] then m_bech32enc false v                  (* bech32enc *)
  else if S_ m [98;101;99;104;51;50;109;101;110;99] then m_bech32enc true v               (* bech32menc *)
  else if S_ m [98;101;99;104;51;50;100;101;99] then m_bech32dec v                        (* bech32dec *)
  else if S_ m [97;100;100;114;95;116;111;95;115;112;107] then m_addr_to_spk v            (* addr_to_spk *)
  else if S_ m [115;112;107;95;116;111;95;97;100;100;114] then m_spk_to_addr v            (* spk_to_addr *)
  else if S_ m [97;100;100] then m_addsub false v                                         (* add *)
  else if S_ m [115;117;98] then m_addsub true v                                          (* sub *)
  else if S_ m [106;97;99;111;98;105;95;115;121;109;98;111;108] then m_jacobi v           (* jacobi_symbol *)
  else if S_ m [116;97;103;103;101;100;95;104;97;115;104] then m_tagged_hash v            (* tagged_hash *)
  else if S_ m [112;114;101;102;105;120;95;99;111;109;112;97;99;116;95;115;105;122;101] then m_prefix_compact_size v   (* prefix_compact_size *)
  else if S_ m [108;101;110] then m_len v                                                 (* len *)
  else TUnmodelled.

Fixpoint assoc_s {A} (tbl : list (str * A)) (k : str) : option A :=
  match tbl with [] => None | (k', a) :: r => if str_eqb k' k then Some a else assoc_s r k end.

(* ------------------------------------------------------------ inline form: Value::do_exec(fun) *)
Definition do_exec_full (f : str) (v : value) : option tres :=
  if S_ f [101;99;104;111] then Some (TOk [] v)                                           (* echo *)
  else if S_ f [104;101;120] then Some (TOk [] (VString (hex_str v)))                      (* hex *)
  else if S_ f [105;110;116] then                                                          (* int *)
    Some (match int_value v with Ok i => TOk [] (VInt i) | _ => TExn end)
  else match assoc_s inline_table f with
       | Some m => Some (apply_method m v)
       | None => None
       end.

(* what the Value constructor needs: the resulting value (anything else aborts the constructor) *)
Definition do_exec (f : str) (v : value) : option (parse_res value) :=
  match do_exec_full f v with
  | Some (TOk _ r) => Some (POk r)
  | Some TExit1 => Some PExit1
  | Some TExn => Some PExit1             (* caught in the Value constructor: diagnostic, exit(1) *)
  | Some TCrash => Some PAbort
  | Some TUnmodelled => Some PAbort      (* marker only: the generators never feed unmodelled transforms *)
  | None => None
  end.

(* ------------------------------------------------------------ command form: fn_tf name args *)
(* returns the text written to stdout, or a marker *)
Inductive tf_out := TfText (s : str) | TfUnknown | TfExit1 | TfExn | TfCrash | TfUnmodelled.

Definition value_of_args (vals : list value) : value :=
  match vals with
  | [v] => v
  | _ => VData (concat (map value_emit vals))
  end.

Definition tf_run (name : str) (args : list str) : tf_out :=
  match assoc_s tf_table name with
  | None => TfUnknown
  | Some wrapper =>
      match parse_vec do_exec (2 * total_len args) args [] false [] with
      | PExit1 => TfExit1
      | PAbort => TfCrash
      | POk vals =>
          let v := value_of_args vals in
          let finish (r : tres) :=
              match r with
              | TOk pre x => TfText (pre ++ print_value x ++ [10])
              | TExit1 => TfExit1 | TExn => TfExn | TCrash => TfCrash | TUnmodelled => TfUnmodelled
              end in
          if S_ wrapper [101;99;104;111] then TfText (print_value v ++ [10])
          else if S_ wrapper [104;101;120] then TfText (hex_str v ++ [10])
          else if S_ wrapper [105;110;116] then
            match int_value v with Ok i => TfText (dec_string i ++ [10]) | _ => TfExn end
          else match assoc_s wrapper_methods wrapper with
               | Some m => finish (apply_method m v)
               | None => TfUnmodelled
               end
      end
  end.
