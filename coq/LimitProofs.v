(* Resource limits: the guards of the model (built from the generated comparison sites and constants) are the
   consensus bounds, and a successful step leaves at most 1000 items on stack + alt stack. *)
From Coq Require Import ZifyBool.
From BV Require Import Base ScriptNum Script Interp Session EvalSpec.
From BV.Gen Require Import Consts Sites.
Local Open Scope Z_scope.

Lemma guard_push n : cmp_eval site_push_size n MAX_SCRIPT_ELEMENT_SIZE = (SPEC_MAX_PUSH <? n). Proof. reflexivity. Qed.
Lemma guard_opcount n : cmp_eval site_opcount n MAX_OPS_PER_SCRIPT = (SPEC_MAX_OPS <? n). Proof. reflexivity. Qed.
Lemma guard_multisig_opcount n : cmp_eval site_multisig_opcount n MAX_OPS_PER_SCRIPT = (SPEC_MAX_OPS <? n). Proof. reflexivity. Qed.
Lemma guard_stack n : cmp_eval site_stack_size n MAX_STACK_SIZE = (SPEC_MAX_STACK <? n). Proof. reflexivity. Qed.
Lemma guard_pubkeys n : cmp_eval site_pubkey_count n MAX_PUBKEYS_PER_MULTISIG = (SPEC_MAX_PUBKEYS <? n). Proof. reflexivity. Qed.
Lemma guard_counted opcode : cmp_eval (fst site_opcount_threshold) opcode (snd site_opcount_threshold) = (96 <? opcode). Proof. reflexivity. Qed.
Lemma guard_script_size sv s : script_too_big sv s = negb (sv =? SV_TAPSCRIPT) && (SPEC_MAX_SCRIPT <? zlen s).
Proof. unfold script_too_big. change script_size_tapscript_exempt with true. reflexivity. Qed.
Lemma numsizes : nDefaultMaxNumSize = 4 /\ numsize_cltv = 5 /\ numsize_csv = 5. Proof. repeat split. Qed.

Section L.
Variable low_s : bytes -> bool.
Variable c : cfg.

(* over-long push: the step fails with PUSH_SIZE whatever else holds *)
Lemma push_too_big e pc opcode push pc' local :
  get_op pc = (Some (opcode, push), pc') -> SPEC_MAX_PUSH < zlen push ->
  step_script low_s c e pc local = (set_err e SCRIPT_ERR_PUSH_SIZE, pc', SErr).
Proof.
  intros Hget Hbig. unfold step_script. rewrite Hget. rewrite guard_push.
  replace (SPEC_MAX_PUSH <? zlen push) with true by lia. reflexivity.
Qed.

(* a successful step never leaves more than 1000 items *)
Lemma step_stack_bound e pc local e1 pc1 :
  step_script low_s c e pc local = (e1, pc1, SOk) -> llen (e_stack e1) + llen (e_alt e1) <= SPEC_MAX_STACK.
Proof.
  unfold step_script. destruct (get_op pc) as [[[opcode push]|] pc']. 2: { intros H; inversion H. }
  intros H.
  repeat match type of H with
         | (if cmp_eval site_stack_size ?n MAX_STACK_SIZE then _ else _) = _ =>
             rewrite guard_stack in H; destruct (Z.ltb_spec SPEC_MAX_STACK n)
         | (if ?b then _ else _) = _ => destruct b
         | (let '(_, _) := ?x in _) = _ => destruct x
         | (match ?s with SOk => _ | _ => _ end) = _ => destruct s
         end; inversion H; subst; unfold ssize in *; assumption.
Qed.

(* the op-count guard: the 201st counted operation passes, the 202nd fails with OP_COUNT *)
Lemma opcount_exceeded e pc opcode pc' local :
  get_op pc = (Some (opcode, []), pc') -> 96 < opcode ->
  (c_sigver c = SV_BASE \/ c_sigver c = SV_WITNESS_V0) -> SPEC_MAX_OPS <= e_ops e ->
  step_script low_s c e pc local = (set_err (set_ops e (e_ops e + 1)) SCRIPT_ERR_OP_COUNT, pc', SErr).
Proof.
  intros Hget Hop Hsv Hops. unfold step_script. rewrite Hget.
  change (cmp_eval site_push_size (zlen []) MAX_SCRIPT_ELEMENT_SIZE) with false. cbv iota.
  rewrite guard_counted. replace (96 <? opcode) with true by lia.
  replace ((c_sigver c =? SV_BASE) || (c_sigver c =? SV_WITNESS_V0)) with true.
  2: { destruct Hsv as [-> | ->]; reflexivity. }
  cbn [andb]. rewrite guard_opcount. unfold set_ops at 1. cbn [e_ops].
  replace (SPEC_MAX_OPS <? e_ops e + 1) with true by lia. reflexivity.
Qed.
End L.

(* session construction: scripts above 10,000 bytes are refused for legacy / segwit v0, never for tapscript *)
Lemma setup_operational c script stack succ ed t :
  i_operational (setup_env c script stack succ ed t) = negb (negb (c_sigver c =? SV_TAPSCRIPT) && (SPEC_MAX_SCRIPT <? zlen script)).
Proof. unfold setup_env. cbn [i_operational]. rewrite guard_script_size. reflexivity. Qed.
