(* Whole-step facts about the interpreter (C01): operations in a non-executed branch, executed pushes. *)
From Coq Require Import ZifyBool.
From BV Require Import Base ScriptNum Script Interp.
From BV.Gen Require Import Consts Sites.
Local Open Scope Z_scope.

Section StepProofs.
Variable low_s : bytes -> bool.
Variable c : cfg.

(* an operation inside a branch that is not being executed does nothing - unless it is one of OP_IF .. OP_ENDIF, which keep the nesting -
   apart from being counted against the operation limit *)
Theorem skipped_operation_is_noop : forall e pc local opcode push pc' e1 pc1,
  get_op pc = (Some (opcode, push), pc') -> cs_all_true (e_cond e) = false -> (OP_IF <=? opcode) && (opcode <=? OP_ENDIF) = false ->
  step_script low_s c e pc local = (e1, pc1, SOk) ->
  pc1 = pc' /\ e_stack e1 = e_stack e /\ e_alt e1 = e_alt e /\ e_cond e1 = e_cond e /\ e_cb e1 = e_cb e /\ e_ed e1 = e_ed e /\
  e_script e1 = e_script e /\ (e_ops e1 = e_ops e \/ e_ops e1 = e_ops e + 1).
Proof.
  intros e pc local opcode push pc' e1 pc1 Hg Hex Hcond H. unfold step_script in H. rewrite Hg, Hex in H. cbn [andb orb] in H. rewrite Hcond in H.
  repeat (cbv beta iota zeta delta [ok] in H; match type of H with context [if ?q then _ else _] => destruct q end); try discriminate;
  cbv beta iota zeta delta [ok] in H; inversion H; subst; cbn; repeat split; auto.
Qed.

(* an executed push puts exactly its data on the stack and touches nothing else *)
Theorem executed_push : forall e pc local opcode push pc' e1 pc1,
  get_op pc = (Some (opcode, push), pc') -> cs_all_true (e_cond e) = true -> 0 <= opcode <= OP_PUSHDATA4 ->
  step_script low_s c e pc local = (e1, pc1, SOk) ->
  pc1 = pc' /\ e_stack e1 = push :: e_stack e /\ e_alt e1 = e_alt e /\ e_cond e1 = e_cond e /\ e_cb e1 = e_cb e /\ e_ops e1 = e_ops e /\
  (req_minimal c = true -> check_minimal_push push opcode = true) /\ zlen push <= MAX_SCRIPT_ELEMENT_SIZE.
Proof.
  intros e pc local opcode push pc' e1 pc1 Hg Hex Hop H. unfold step_script in H. rewrite Hg, Hex in H.
  replace (0 <=? opcode) with true in H by lia. replace (opcode <=? OP_PUSHDATA4) with true in H by lia. cbn [andb] in H.
  destruct (cmp_eval site_push_size (zlen push) MAX_SCRIPT_ELEMENT_SIZE) eqn:Esz; [discriminate|].
  assert (Hcount: cmp_eval (fst site_opcount_threshold) opcode (snd site_opcount_threshold) = false).
  { change (cmp_eval (fst site_opcount_threshold) opcode (snd site_opcount_threshold)) with (OP_16 <? opcode).
    assert (OP_PUSHDATA4 < OP_16) by reflexivity. lia. }
  rewrite Hcount in H. rewrite Bool.andb_false_r in H. cbn [andb] in H.
  assert (Hsz: zlen push <= MAX_SCRIPT_ELEMENT_SIZE).
  { change (cmp_eval site_push_size (zlen push) MAX_SCRIPT_ELEMENT_SIZE) with (MAX_SCRIPT_ELEMENT_SIZE <? zlen push) in Esz. lia. }
  repeat (cbv beta iota zeta delta [ok fail] in H; match type of H with context [if ?q then _ else _] => destruct q eqn:? end); try discriminate;
  cbv beta iota zeta delta [ok fail] in H; inversion H; subst; cbn; repeat split; auto;
  intros Hm; match goal with Hq : (req_minimal c && negb _) = false |- _ => rewrite Hm in Hq; cbn [andb] in Hq; apply Bool.negb_false_iff in Hq; exact Hq end.
Qed.
End StepProofs.
