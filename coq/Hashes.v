(* ====================================================================== *)
(*  BV.Hashes : executable Gallina models of SHA-256, RIPEMD-160, SHA-1   *)
(*                                                                        *)
(*  A byte string is a [list Z] whose elements are all in 0..255; index 0 *)
(*  is the first byte of the message.  (Precondition of all functions:    *)
(*  input bytes are in range.  Out-of-range inputs still give a total     *)
(*  function with 32/20 in-range output bytes, but not a meaningful hash.)*)
(*                                                                        *)
(*  Only the Coq standard library is used.  No axioms.  All recursion is  *)
(*  structural (over lists / explicit nat fuel).                          *)
(*                                                                        *)
(*  32-bit words are Z values in [0, 2^32).  Reduction modulo 2^32 is     *)
(*  [w32 x := Z.land x (2^32-1)], which is proved equal to [x mod 2^32]   *)
(*  (lemma [w32_mod]); [Z.land] is used because it is linear-time on the  *)
(*  extracted positive-based Z, whereas [Z.modulo] is not.                *)
(*                                                                        *)
(*  Compile:  coqc -Q . BV Hashes.v                                       *)
(* ====================================================================== *)

From Coq Require Import List ZArith Lia Bool.
Import ListNotations.
Local Open Scope Z_scope.

(* ---------------------------------------------------------------------- *)
(** * 32-bit word arithmetic on Z                                          *)
(* ---------------------------------------------------------------------- *)

Definition mask32 : Z := 4294967295.            (* 2^32 - 1 *)

(** [w32 x = x mod 2^32] (see [w32_mod]). *)
Definition w32 (x : Z) : Z := Z.land x mask32.

Definition add32 (x y : Z) : Z := w32 (x + y).

(** Bitwise complement of a 32-bit word: [not32 x = 2^32 - 1 - x] for
    [0 <= x < 2^32]. *)
Definition not32 (x : Z) : Z := Z.lxor x mask32.

(** Rotations; [0 < n < 32], [0 <= x < 2^32]. *)
Definition rotl32 (x n : Z) : Z :=
  Z.lor (w32 (Z.shiftl x n)) (Z.shiftr x (32 - n)).
Definition rotr32 (x n : Z) : Z :=
  Z.lor (Z.shiftr x n) (w32 (Z.shiftl x (32 - n))).

Lemma w32_mod : forall x, w32 x = x mod 2 ^ 32.
Proof.
  intro x. unfold w32, mask32.
  change 4294967295 with (Z.ones 32).
  apply Z.land_ones. lia.
Qed.

Lemma w32_range : forall x, 0 <= w32 x < 2 ^ 32.
Proof. intro x. rewrite w32_mod. apply Z.mod_pos_bound. lia. Qed.

Lemma add32_mod : forall x y, add32 x y = (x + y) mod 2 ^ 32.
Proof. intros. apply w32_mod. Qed.

Lemma not32_spec : forall x, 0 <= x < 2 ^ 32 -> not32 x = 4294967295 - x.
Proof.
  intros x Hx. unfold not32, mask32.
  change 4294967295 with (Z.ones 32).
  assert (E : x = Z.land x (Z.ones 32)).
  { rewrite Z.land_ones by lia. symmetry. apply Z.mod_small. lia. }
  assert (H : x + Z.lxor x (Z.ones 32) = Z.ones 32).
  { rewrite Z.add_nocarry_lxor.
    - rewrite <- Z.lxor_assoc, Z.lxor_nilpotent, Z.lxor_0_l. reflexivity.
    - rewrite E. apply Z.bits_inj'. intros n Hn.
      rewrite Z.land_spec, Z.lxor_spec, Z.land_spec, Z.bits_0.
      destruct (Z.testbit x n), (Z.testbit (Z.ones 32) n); reflexivity. }
  lia.
Qed.

(* ---------------------------------------------------------------------- *)
(** * Bytes <-> words, padding, block splitting                            *)
(* ---------------------------------------------------------------------- *)

(** 4 big-endian bytes of a word.  Every byte is literally [_ mod 256]. *)
Definition be4 (x : Z) : list Z :=
  [ (Z.shiftr x 24) mod 256; (Z.shiftr x 16) mod 256;
    (Z.shiftr x 8) mod 256; x mod 256 ].

(** 4 little-endian bytes of a word. *)
Definition le4 (x : Z) : list Z :=
  [ x mod 256; (Z.shiftr x 8) mod 256;
    (Z.shiftr x 16) mod 256; (Z.shiftr x 24) mod 256 ].

(** 64-bit length encodings. *)
Definition be8 (x : Z) : list Z := be4 (Z.shiftr x 32) ++ be4 (w32 x).
Definition le8 (x : Z) : list Z := le4 (w32 x) ++ le4 (Z.shiftr x 32).

(** Byte list -> word list, one pass, 4 bytes at a time (any trailing
    1..3 bytes are dropped; padded messages have length 0 mod 64). *)
Fixpoint be_words (l : list Z) : list Z :=
  match l with
  | a :: b :: c :: d :: t =>
      Z.lor (Z.shiftl a 24) (Z.lor (Z.shiftl b 16) (Z.lor (Z.shiftl c 8) d))
      :: be_words t
  | _ => []
  end.

Fixpoint le_words (l : list Z) : list Z :=
  match l with
  | a :: b :: c :: d :: t =>
      Z.lor (Z.shiftl d 24) (Z.lor (Z.shiftl c 16) (Z.lor (Z.shiftl b 8) a))
      :: le_words t
  | _ => []
  end.

(** Merkle-Damgard padding: 0x80, then zeros up to 56 mod 64, then the
    64-bit bit length ([enc8] chooses the byte order). *)
Definition md_pad (enc8 : Z -> list Z) (m : list Z) : list Z :=
  let n := Zlength m in
  m ++ 128 :: repeat 0 (Z.to_nat ((55 - n) mod 64)) ++ enc8 (8 * n).

(** Fold a compression function over consecutive 16-word blocks.
    [fuel] only has to be >= the number of blocks. *)
Fixpoint fold_blocks {S : Type} (f : S -> list Z -> S)
         (fuel : nat) (ws : list Z) (st : S) : S :=
  match fuel with
  | O => st
  | Datatypes.S fuel' =>
      match ws with
      | [] => st
      | _ => fold_blocks f fuel' (skipn 16 ws) (f st (firstn 16 ws))
      end
  end.

(** Common boolean functions. *)
(** [ch32 x y z = (x & y) ^ (~x & z)], in the 3-operation form
    [z ^ (x & (y ^ z))]; [maj32 x y z = (x & y) ^ (x & z) ^ (y & z)], in the
    4-operation form [(x & y) | (z & (x | y))]  (the same forms as in
    Bitcoin Core's crypto/sha256.cpp). *)
Definition ch32 (x y z : Z) : Z := Z.lxor z (Z.land x (Z.lxor y z)).
Definition maj32 (x y z : Z) : Z := Z.lor (Z.land x y) (Z.land z (Z.lor x y)).
Definition par32 (x y z : Z) : Z := Z.lxor x (Z.lxor y z).

(* ---------------------------------------------------------------------- *)
(** * SHA-256 (FIPS 180-4)                                                 *)
(* ---------------------------------------------------------------------- *)

Definition sha256_K : list Z :=
  [ 0x428a2f98; 0x71374491; 0xb5c0fbcf; 0xe9b5dba5; 0x3956c25b; 0x59f111f1;
    0x923f82a4; 0xab1c5ed5; 0xd807aa98; 0x12835b01; 0x243185be; 0x550c7dc3;
    0x72be5d74; 0x80deb1fe; 0x9bdc06a7; 0xc19bf174; 0xe49b69c1; 0xefbe4786;
    0x0fc19dc6; 0x240ca1cc; 0x2de92c6f; 0x4a7484aa; 0x5cb0a9dc; 0x76f988da;
    0x983e5152; 0xa831c66d; 0xb00327c8; 0xbf597fc7; 0xc6e00bf3; 0xd5a79147;
    0x06ca6351; 0x14292967; 0x27b70a85; 0x2e1b2138; 0x4d2c6dfc; 0x53380d13;
    0x650a7354; 0x766a0abb; 0x81c2c92e; 0x92722c85; 0xa2bfe8a1; 0xa81a664b;
    0xc24b8b70; 0xc76c51a3; 0xd192e819; 0xd6990624; 0xf40e3585; 0x106aa070;
    0x19a4c116; 0x1e376c08; 0x2748774c; 0x34b0bcb5; 0x391c0cb3; 0x4ed8aa4a;
    0x5b9cca4f; 0x682e6ff3; 0x748f82ee; 0x78a5636f; 0x84c87814; 0x8cc70208;
    0x90befffa; 0xa4506ceb; 0xbef9a3f7; 0xc67178f2 ].

Definition sha256_state : Type := (Z * Z * Z * Z * Z * Z * Z * Z)%type.

Definition sha256_init : sha256_state :=
  (0x6a09e667, 0xbb67ae85, 0x3c6ef372, 0xa54ff53a,
   0x510e527f, 0x9b05688c, 0x1f83d9ab, 0x5be0cd19).

Definition sha256_ssig0 (x : Z) : Z :=
  Z.lxor (rotr32 x 7) (Z.lxor (rotr32 x 18) (Z.shiftr x 3)).
Definition sha256_ssig1 (x : Z) : Z :=
  Z.lxor (rotr32 x 17) (Z.lxor (rotr32 x 19) (Z.shiftr x 10)).
Definition sha256_bsig0 (x : Z) : Z :=
  Z.lxor (rotr32 x 2) (Z.lxor (rotr32 x 13) (rotr32 x 22)).
Definition sha256_bsig1 (x : Z) : Z :=
  Z.lxor (rotr32 x 6) (Z.lxor (rotr32 x 11) (rotr32 x 25)).

(** Message-schedule expansion.  [w] is the sliding window holding the
    last 16 schedule words (oldest first); emits [n] new words. *)
Fixpoint sha256_expand (n : nat) (w : list Z) : list Z :=
  match n with
  | O => []
  | S n' =>
      let x := w32 (sha256_ssig1 (nth 14 w 0) + nth 9 w 0
                    + sha256_ssig0 (nth 1 w 0) + nth 0 w 0) in
      x :: sha256_expand n' (tl w ++ [x])
  end.

Definition sha256_round (st : sha256_state) (kw : Z * Z) : sha256_state :=
  let '(a, b, c, d, e, f, g, h) := st in
  let (k, w) := kw in
  let t1 := h + sha256_bsig1 e + ch32 e f g + k + w in
  let t2 := sha256_bsig0 a + maj32 a b c in
  (w32 (t1 + t2), a, b, c, w32 (d + t1), e, f, g).

Definition sha256_compress (st : sha256_state) (blk : list Z) : sha256_state :=
  let w := blk ++ sha256_expand 48 blk in
  let '(a, b, c, d, e, f, g, h) := fold_left sha256_round (combine sha256_K w) st in
  let '(a0, b0, c0, d0, e0, f0, g0, h0) := st in
  (w32 (a0 + a), w32 (b0 + b), w32 (c0 + c), w32 (d0 + d),
   w32 (e0 + e), w32 (f0 + f), w32 (g0 + g), w32 (h0 + h)).

Definition sha256_final_state (m : list Z) : sha256_state :=
  let ws := be_words (md_pad be8 m) in
  fold_blocks sha256_compress (length ws) ws sha256_init.

Definition sha256 (m : list Z) : list Z :=
  let '(a, b, c, d, e, f, g, h) := sha256_final_state m in
  be4 a ++ be4 b ++ be4 c ++ be4 d ++ be4 e ++ be4 f ++ be4 g ++ be4 h.

(* ---------------------------------------------------------------------- *)
(** * SHA-1 (FIPS 180-4)                                                   *)
(* ---------------------------------------------------------------------- *)

Definition sha1_state : Type := (Z * Z * Z * Z * Z)%type.

Definition sha1_init : sha1_state :=
  (0x67452301, 0xefcdab89, 0x98badcfe, 0x10325476, 0xc3d2e1f0).

Fixpoint sha1_expand (n : nat) (w : list Z) : list Z :=
  match n with
  | O => []
  | S n' =>
      let x := rotl32 (Z.lxor (nth 13 w 0)
                        (Z.lxor (nth 8 w 0) (Z.lxor (nth 2 w 0) (nth 0 w 0)))) 1 in
      x :: sha1_expand n' (tl w ++ [x])
  end.

Definition sha1_round (f : Z -> Z -> Z -> Z) (k : Z)
           (st : sha1_state) (w : Z) : sha1_state :=
  let '(a, b, c, d, e) := st in
  (w32 (rotl32 a 5 + f b c d + e + k + w), a, rotl32 b 30, c, d).

Definition sha1_compress (st : sha1_state) (blk : list Z) : sha1_state :=
  let w := blk ++ sha1_expand 64 blk in
  let s1 := fold_left (sha1_round ch32 0x5a827999) (firstn 20 w) st in
  let w := skipn 20 w in
  let s2 := fold_left (sha1_round par32 0x6ed9eba1) (firstn 20 w) s1 in
  let w := skipn 20 w in
  let s3 := fold_left (sha1_round maj32 0x8f1bbcdc) (firstn 20 w) s2 in
  let w := skipn 20 w in
  let '(a, b, c, d, e) := fold_left (sha1_round par32 0xca62c1d6) (firstn 20 w) s3 in
  let '(a0, b0, c0, d0, e0) := st in
  (w32 (a0 + a), w32 (b0 + b), w32 (c0 + c), w32 (d0 + d), w32 (e0 + e)).

Definition sha1_final_state (m : list Z) : sha1_state :=
  let ws := be_words (md_pad be8 m) in
  fold_blocks sha1_compress (length ws) ws sha1_init.

Definition sha1 (m : list Z) : list Z :=
  let '(a, b, c, d, e) := sha1_final_state m in
  be4 a ++ be4 b ++ be4 c ++ be4 d ++ be4 e.

(* ---------------------------------------------------------------------- *)
(** * RIPEMD-160 (Dobbertin, Bosselaers, Preneel 1996)                     *)
(* ---------------------------------------------------------------------- *)

Definition rmd_state : Type := (Z * Z * Z * Z * Z)%type.

Definition rmd_init : rmd_state :=
  (0x67452301, 0xefcdab89, 0x98badcfe, 0x10325476, 0xc3d2e1f0).

Definition rmd_f1 (x y z : Z) : Z := Z.lxor x (Z.lxor y z).
Definition rmd_f2 (x y z : Z) : Z := ch32 x y z.   (* (x & y) | (~x & z) *)
Definition rmd_f3 (x y z : Z) : Z := Z.lxor (Z.lor x (not32 y)) z.
Definition rmd_f4 (x y z : Z) : Z := ch32 z x y.   (* (x & z) | (y & ~z) *)
Definition rmd_f5 (x y z : Z) : Z := Z.lxor x (Z.lor y (not32 z)).

(** Per-round (message word index, left-rotation amount), 5 groups of 16,
    for the left and the right line. *)
Definition rmd_L1 : list (nat * Z) :=
  [(0%nat,11);(1%nat,14);(2%nat,15);(3%nat,12);(4%nat,5);(5%nat,8);(6%nat,7);(7%nat,9);
   (8%nat,11);(9%nat,13);(10%nat,14);(11%nat,15);(12%nat,6);(13%nat,7);(14%nat,9);(15%nat,8)].
Definition rmd_L2 : list (nat * Z) :=
  [(7%nat,7);(4%nat,6);(13%nat,8);(1%nat,13);(10%nat,11);(6%nat,9);(15%nat,7);(3%nat,15);
   (12%nat,7);(0%nat,12);(9%nat,15);(5%nat,9);(2%nat,11);(14%nat,7);(11%nat,13);(8%nat,12)].
Definition rmd_L3 : list (nat * Z) :=
  [(3%nat,11);(10%nat,13);(14%nat,6);(4%nat,7);(9%nat,14);(15%nat,9);(8%nat,13);(1%nat,15);
   (2%nat,14);(7%nat,8);(0%nat,13);(6%nat,6);(13%nat,5);(11%nat,12);(5%nat,7);(12%nat,5)].
Definition rmd_L4 : list (nat * Z) :=
  [(1%nat,11);(9%nat,12);(11%nat,14);(10%nat,15);(0%nat,14);(8%nat,15);(12%nat,9);(4%nat,8);
   (13%nat,9);(3%nat,14);(7%nat,5);(15%nat,6);(14%nat,8);(5%nat,6);(6%nat,5);(2%nat,12)].
Definition rmd_L5 : list (nat * Z) :=
  [(4%nat,9);(0%nat,15);(5%nat,5);(9%nat,11);(7%nat,6);(12%nat,8);(2%nat,13);(10%nat,12);
   (14%nat,5);(1%nat,12);(3%nat,13);(8%nat,14);(11%nat,11);(6%nat,8);(15%nat,5);(13%nat,6)].

Definition rmd_R1 : list (nat * Z) :=
  [(5%nat,8);(14%nat,9);(7%nat,9);(0%nat,11);(9%nat,13);(2%nat,15);(11%nat,15);(4%nat,5);
   (13%nat,7);(6%nat,7);(15%nat,8);(8%nat,11);(1%nat,14);(10%nat,14);(3%nat,12);(12%nat,6)].
Definition rmd_R2 : list (nat * Z) :=
  [(6%nat,9);(11%nat,13);(3%nat,15);(7%nat,7);(0%nat,12);(13%nat,8);(5%nat,9);(10%nat,11);
   (14%nat,7);(15%nat,7);(8%nat,12);(12%nat,7);(4%nat,6);(9%nat,15);(1%nat,13);(2%nat,11)].
Definition rmd_R3 : list (nat * Z) :=
  [(15%nat,9);(5%nat,7);(1%nat,15);(3%nat,11);(7%nat,8);(14%nat,6);(6%nat,6);(9%nat,14);
   (11%nat,12);(8%nat,13);(12%nat,5);(2%nat,14);(10%nat,13);(0%nat,13);(4%nat,7);(13%nat,5)].
Definition rmd_R4 : list (nat * Z) :=
  [(8%nat,15);(6%nat,5);(4%nat,8);(1%nat,11);(3%nat,14);(11%nat,14);(15%nat,6);(0%nat,14);
   (5%nat,6);(12%nat,9);(2%nat,12);(13%nat,9);(9%nat,12);(7%nat,5);(10%nat,15);(14%nat,8)].
Definition rmd_R5 : list (nat * Z) :=
  [(12%nat,8);(15%nat,5);(10%nat,12);(4%nat,9);(1%nat,12);(5%nat,5);(8%nat,14);(7%nat,6);
   (6%nat,8);(2%nat,13);(13%nat,6);(14%nat,5);(0%nat,15);(3%nat,13);(9%nat,11);(11%nat,11)].

Definition rmd_round (f : Z -> Z -> Z -> Z) (k : Z) (x : list Z)
           (st : rmd_state) (rs : nat * Z) : rmd_state :=
  let '(a, b, c, d, e) := st in
  let (r, s) := rs in
  let t := w32 (rotl32 (w32 (a + f b c d + nth r x 0 + k)) s + e) in
  (e, t, b, rotl32 c 10, d).

Definition rmd_group (f : Z -> Z -> Z -> Z) (k : Z) (x : list Z)
           (tbl : list (nat * Z)) (st : rmd_state) : rmd_state :=
  fold_left (rmd_round f k x) tbl st.

Definition rmd_compress (st : rmd_state) (x : list Z) : rmd_state :=
  let l := rmd_group rmd_f1 0 x rmd_L1 st in
  let l := rmd_group rmd_f2 0x5a827999 x rmd_L2 l in
  let l := rmd_group rmd_f3 0x6ed9eba1 x rmd_L3 l in
  let l := rmd_group rmd_f4 0x8f1bbcdc x rmd_L4 l in
  let l := rmd_group rmd_f5 0xa953fd4e x rmd_L5 l in
  let r := rmd_group rmd_f5 0x50a28be6 x rmd_R1 st in
  let r := rmd_group rmd_f4 0x5c4dd124 x rmd_R2 r in
  let r := rmd_group rmd_f3 0x6d703ef3 x rmd_R3 r in
  let r := rmd_group rmd_f2 0x7a6d76e9 x rmd_R4 r in
  let r := rmd_group rmd_f1 0 x rmd_R5 r in
  let '(al, bl, cl, dl, el) := l in
  let '(ar, br, cr, dr, er) := r in
  let '(h0, h1, h2, h3, h4) := st in
  (w32 (h1 + cl + dr), w32 (h2 + dl + er), w32 (h3 + el + ar),
   w32 (h4 + al + br), w32 (h0 + bl + cr)).

Definition rmd_final_state (m : list Z) : rmd_state :=
  let ws := le_words (md_pad le8 m) in
  fold_blocks rmd_compress (length ws) ws rmd_init.

Definition ripemd160 (m : list Z) : list Z :=
  let '(a, b, c, d, e) := rmd_final_state m in
  le4 a ++ le4 b ++ le4 c ++ le4 d ++ le4 e.

(* ---------------------------------------------------------------------- *)
(** * Derived hashes                                                       *)
(* ---------------------------------------------------------------------- *)

Definition hash256 (m : list Z) : list Z := sha256 (sha256 m).
Definition hash160 (m : list Z) : list Z := ripemd160 (sha256 m).

(** BIP340 tagged hash. *)
Definition tagged_hash (tag msg : list Z) : list Z :=
  let t := sha256 tag in sha256 (t ++ t ++ msg).

(** Same thing without the sharing [let] (which only avoids hashing the
    tag twice in extracted code). *)
Lemma tagged_hash_eq : forall tag msg,
  tagged_hash tag msg = sha256 (sha256 tag ++ sha256 tag ++ msg).
Proof. reflexivity. Qed.

(* ---------------------------------------------------------------------- *)
(** * Output length and byte-range lemmas                                  *)
(* ---------------------------------------------------------------------- *)

Lemma be4_length : forall x, length (be4 x) = 4%nat.
Proof. reflexivity. Qed.

Lemma le4_length : forall x, length (le4 x) = 4%nat.
Proof. reflexivity. Qed.

Lemma be4_bytes : forall x, Forall (fun b => 0 <= b < 256) (be4 x).
Proof. intro x. unfold be4. repeat constructor; apply Z.mod_pos_bound; lia. Qed.

Lemma le4_bytes : forall x, Forall (fun b => 0 <= b < 256) (le4 x).
Proof. intro x. unfold le4. repeat constructor; apply Z.mod_pos_bound; lia. Qed.

Lemma sha256_length : forall m, length (sha256 m) = 32%nat.
Proof.
  intro m. unfold sha256.
  destruct (sha256_final_state m) as [[[[[[[a b] c] d] e] f] g] h].
  reflexivity.
Qed.

Lemma sha1_length : forall m, length (sha1 m) = 20%nat.
Proof.
  intro m. unfold sha1.
  destruct (sha1_final_state m) as [[[[a b] c] d] e].
  reflexivity.
Qed.

Lemma ripemd160_length : forall m, length (ripemd160 m) = 20%nat.
Proof.
  intro m. unfold ripemd160.
  destruct (rmd_final_state m) as [[[[a b] c] d] e].
  reflexivity.
Qed.

Lemma sha256_bytes : forall m, Forall (fun b => 0 <= b < 256) (sha256 m).
Proof.
  intro m. unfold sha256.
  destruct (sha256_final_state m) as [[[[[[[a b] c] d] e] f] g] h].
  repeat (apply Forall_app; split); apply be4_bytes.
Qed.

Lemma sha1_bytes : forall m, Forall (fun b => 0 <= b < 256) (sha1 m).
Proof.
  intro m. unfold sha1.
  destruct (sha1_final_state m) as [[[[a b] c] d] e].
  repeat (apply Forall_app; split); apply be4_bytes.
Qed.

Lemma ripemd160_bytes : forall m, Forall (fun b => 0 <= b < 256) (ripemd160 m).
Proof.
  intro m. unfold ripemd160.
  destruct (rmd_final_state m) as [[[[a b] c] d] e].
  repeat (apply Forall_app; split); apply le4_bytes.
Qed.

Lemma hash256_length : forall m, length (hash256 m) = 32%nat.
Proof. intro m. apply sha256_length. Qed.

Lemma hash160_length : forall m, length (hash160 m) = 20%nat.
Proof. intro m. apply ripemd160_length. Qed.

Lemma tagged_hash_length : forall tag msg, length (tagged_hash tag msg) = 32%nat.
Proof. intros. apply sha256_length. Qed.

Lemma hash256_bytes : forall m, Forall (fun b => 0 <= b < 256) (hash256 m).
Proof. intro m. apply sha256_bytes. Qed.

Lemma hash160_bytes : forall m, Forall (fun b => 0 <= b < 256) (hash160 m).
Proof. intro m. apply ripemd160_bytes. Qed.

Lemma tagged_hash_bytes :
  forall tag msg, Forall (fun b => 0 <= b < 256) (tagged_hash tag msg).
Proof. intros. apply sha256_bytes. Qed.

(* ---------------------------------------------------------------------- *)
(** * Test vectors                                                         *)
(* ---------------------------------------------------------------------- *)

(** ASCII string -> byte list (test-vector convenience only).  [String] is
    imported only here so that [length] above is [List.length]. *)
From Coq Require Import String Ascii.

Definition bytes_of_string (s : string) : list Z :=
  map (fun c => Z.of_nat (nat_of_ascii c)) (list_ascii_of_string s).

(** [n] copies of the byte 'a'. *)
Definition rep_a (n : nat) : list Z := repeat 97 n.

(* sha256([]) = e3b0c44298fc1c149afbf4c8996fb92427ae41e4649b934ca495991b7852b855 *)
Example sha256_empty :
  sha256 [] =
    [ 227; 176; 196; 66; 152; 252; 28; 20; 154; 251; 244; 200; 153; 111; 185; 36;
      39; 174; 65; 228; 100; 155; 147; 76; 164; 149; 153; 27; 120; 82; 184; 85 ].
Proof. vm_compute. reflexivity. Qed.

(* sha256((bytes_of_string "abc")) = ba7816bf8f01cfea414140de5dae2223b00361a396177a9cb410ff61f20015ad *)
Example sha256_abc :
  sha256 (bytes_of_string "abc") =
    [ 186; 120; 22; 191; 143; 1; 207; 234; 65; 65; 64; 222; 93; 174; 34; 35;
      176; 3; 97; 163; 150; 23; 122; 156; 180; 16; 255; 97; 242; 0; 21; 173 ].
Proof. vm_compute. reflexivity. Qed.

(* sha256(...) = 248d6a61d20638b8e5c026930c3e6039a33ce45964ff2167f6ecedd419db06c1 *)
Example sha256_m56 :
  sha256 (bytes_of_string "abcdbcdecdefdefgefghfghighijhijkijkljklmklmnlmnomnopnopq") =
    [ 36; 141; 106; 97; 210; 6; 56; 184; 229; 192; 38; 147; 12; 62; 96; 57;
      163; 60; 228; 89; 100; 255; 33; 103; 246; 236; 237; 212; 25; 219; 6; 193 ].
Proof. vm_compute. reflexivity. Qed.

(* sha256((rep_a 55)) = 9f4390f8d30c2dd92ec9f095b65e2b9ae9b0a925a5258e241c9f1e910f734318 *)
Example sha256_a55 :
  sha256 (rep_a 55) =
    [ 159; 67; 144; 248; 211; 12; 45; 217; 46; 201; 240; 149; 182; 94; 43; 154;
      233; 176; 169; 37; 165; 37; 142; 36; 28; 159; 30; 145; 15; 115; 67; 24 ].
Proof. vm_compute. reflexivity. Qed.

(* sha256((rep_a 56)) = b35439a4ac6f0948b6d6f9e3c6af0f5f590ce20f1bde7090ef7970686ec6738a *)
Example sha256_a56 :
  sha256 (rep_a 56) =
    [ 179; 84; 57; 164; 172; 111; 9; 72; 182; 214; 249; 227; 198; 175; 15; 95;
      89; 12; 226; 15; 27; 222; 112; 144; 239; 121; 112; 104; 110; 198; 115; 138 ].
Proof. vm_compute. reflexivity. Qed.

(* sha256((rep_a 63)) = 7d3e74a05d7db15bce4ad9ec0658ea98e3f06eeecf16b4c6fff2da457ddc2f34 *)
Example sha256_a63 :
  sha256 (rep_a 63) =
    [ 125; 62; 116; 160; 93; 125; 177; 91; 206; 74; 217; 236; 6; 88; 234; 152;
      227; 240; 110; 238; 207; 22; 180; 198; 255; 242; 218; 69; 125; 220; 47; 52 ].
Proof. vm_compute. reflexivity. Qed.

(* sha256((rep_a 64)) = ffe054fe7ae0cb6dc65c3af9b61d5209f439851db43d0ba5997337df154668eb *)
Example sha256_a64 :
  sha256 (rep_a 64) =
    [ 255; 224; 84; 254; 122; 224; 203; 109; 198; 92; 58; 249; 182; 29; 82; 9;
      244; 57; 133; 29; 180; 61; 11; 165; 153; 115; 55; 223; 21; 70; 104; 235 ].
Proof. vm_compute. reflexivity. Qed.

(* sha256((rep_a 65)) = 635361c48bb9eab14198e76ea8ab7f1a41685d6ad62aa9146d301d4f17eb0ae0 *)
Example sha256_a65 :
  sha256 (rep_a 65) =
    [ 99; 83; 97; 196; 139; 185; 234; 177; 65; 152; 231; 110; 168; 171; 127; 26;
      65; 104; 93; 106; 214; 42; 169; 20; 109; 48; 29; 79; 23; 235; 10; 224 ].
Proof. vm_compute. reflexivity. Qed.

(* sha256((rep_a 119)) = 31eba51c313a5c08226adf18d4a359cfdfd8d2e816b13f4af952f7ea6584dcfb *)
Example sha256_a119 :
  sha256 (rep_a 119) =
    [ 49; 235; 165; 28; 49; 58; 92; 8; 34; 106; 223; 24; 212; 163; 89; 207;
      223; 216; 210; 232; 22; 177; 63; 74; 249; 82; 247; 234; 101; 132; 220; 251 ].
Proof. vm_compute. reflexivity. Qed.

(* sha256((rep_a 120)) = 2f3d335432c70b580af0e8e1b3674a7c020d683aa5f73aaaedfdc55af904c21c *)
Example sha256_a120 :
  sha256 (rep_a 120) =
    [ 47; 61; 51; 84; 50; 199; 11; 88; 10; 240; 232; 225; 179; 103; 74; 124;
      2; 13; 104; 58; 165; 247; 58; 170; 237; 253; 197; 90; 249; 4; 194; 28 ].
Proof. vm_compute. reflexivity. Qed.

(* ripemd160([]) = 9c1185a5c5e9fc54612808977ee8f548b2258d31 *)
Example ripemd160_empty :
  ripemd160 [] =
    [ 156; 17; 133; 165; 197; 233; 252; 84; 97; 40; 8; 151; 126; 232; 245; 72;
      178; 37; 141; 49 ].
Proof. vm_compute. reflexivity. Qed.

(* ripemd160((bytes_of_string "a")) = 0bdc9d2d256b3ee9daae347be6f4dc835a467ffe *)
Example ripemd160_a :
  ripemd160 (bytes_of_string "a") =
    [ 11; 220; 157; 45; 37; 107; 62; 233; 218; 174; 52; 123; 230; 244; 220; 131;
      90; 70; 127; 254 ].
Proof. vm_compute. reflexivity. Qed.

(* ripemd160((bytes_of_string "abc")) = 8eb208f7e05d987a9b044a8e98c6b087f15a0bfc *)
Example ripemd160_abc :
  ripemd160 (bytes_of_string "abc") =
    [ 142; 178; 8; 247; 224; 93; 152; 122; 155; 4; 74; 142; 152; 198; 176; 135;
      241; 90; 11; 252 ].
Proof. vm_compute. reflexivity. Qed.

(* ripemd160((bytes_of_string "message digest")) = 5d0689ef49d2fae572b881b123a85ffa21595f36 *)
Example ripemd160_message_digest :
  ripemd160 (bytes_of_string "message digest") =
    [ 93; 6; 137; 239; 73; 210; 250; 229; 114; 184; 129; 177; 35; 168; 95; 250;
      33; 89; 95; 54 ].
Proof. vm_compute. reflexivity. Qed.

(* ripemd160((bytes_of_string "abcdefghijklmnopqrstuvwxyz")) = f71c27109c692c1b56bbdceb5b9d2865b3708dbc *)
Example ripemd160_alphabet :
  ripemd160 (bytes_of_string "abcdefghijklmnopqrstuvwxyz") =
    [ 247; 28; 39; 16; 156; 105; 44; 27; 86; 187; 220; 235; 91; 157; 40; 101;
      179; 112; 141; 188 ].
Proof. vm_compute. reflexivity. Qed.

(* ripemd160(...) = 12a053384a9c0c88e405a06c27dcf49ada62eb2b *)
Example ripemd160_m56 :
  ripemd160 (bytes_of_string "abcdbcdecdefdefgefghfghighijhijkijkljklmklmnlmnomnopnopq") =
    [ 18; 160; 83; 56; 74; 156; 12; 136; 228; 5; 160; 108; 39; 220; 244; 154;
      218; 98; 235; 43 ].
Proof. vm_compute. reflexivity. Qed.

(* ripemd160((rep_a 55)) = 0d8a8c9063a48576a7c97e9f95253a6e53ff6765 *)
Example ripemd160_a55 :
  ripemd160 (rep_a 55) =
    [ 13; 138; 140; 144; 99; 164; 133; 118; 167; 201; 126; 159; 149; 37; 58; 110;
      83; 255; 103; 101 ].
Proof. vm_compute. reflexivity. Qed.

(* ripemd160((rep_a 56)) = e72334b46c83cc70bef979e15453706c95b888be *)
Example ripemd160_a56 :
  ripemd160 (rep_a 56) =
    [ 231; 35; 52; 180; 108; 131; 204; 112; 190; 249; 121; 225; 84; 83; 112; 108;
      149; 184; 136; 190 ].
Proof. vm_compute. reflexivity. Qed.

(* ripemd160((rep_a 63)) = e640041293fe663b9bf3f8c21ffecac03819e6b2 *)
Example ripemd160_a63 :
  ripemd160 (rep_a 63) =
    [ 230; 64; 4; 18; 147; 254; 102; 59; 155; 243; 248; 194; 31; 254; 202; 192;
      56; 25; 230; 178 ].
Proof. vm_compute. reflexivity. Qed.

(* ripemd160((rep_a 64)) = 9dfb7d374ad924f3f88de96291c33e9abed53e32 *)
Example ripemd160_a64 :
  ripemd160 (rep_a 64) =
    [ 157; 251; 125; 55; 74; 217; 36; 243; 248; 141; 233; 98; 145; 195; 62; 154;
      190; 213; 62; 50 ].
Proof. vm_compute. reflexivity. Qed.

(* ripemd160((rep_a 65)) = 99724bb11811e7166af38f671b6a082d8ab4960b *)
Example ripemd160_a65 :
  ripemd160 (rep_a 65) =
    [ 153; 114; 75; 177; 24; 17; 231; 22; 106; 243; 143; 103; 27; 106; 8; 45;
      138; 180; 150; 11 ].
Proof. vm_compute. reflexivity. Qed.

(* ripemd160((rep_a 119)) = 23e398ff2bac815aa1bbb57ca2a669c841872919 *)
Example ripemd160_a119 :
  ripemd160 (rep_a 119) =
    [ 35; 227; 152; 255; 43; 172; 129; 90; 161; 187; 181; 124; 162; 166; 105; 200;
      65; 135; 41; 25 ].
Proof. vm_compute. reflexivity. Qed.

(* ripemd160((rep_a 120)) = c476770a6dae31fcee8d25efe6559a05c8024595 *)
Example ripemd160_a120 :
  ripemd160 (rep_a 120) =
    [ 196; 118; 119; 10; 109; 174; 49; 252; 238; 141; 37; 239; 230; 85; 154; 5;
      200; 2; 69; 149 ].
Proof. vm_compute. reflexivity. Qed.

(* sha1([]) = da39a3ee5e6b4b0d3255bfef95601890afd80709 *)
Example sha1_empty :
  sha1 [] =
    [ 218; 57; 163; 238; 94; 107; 75; 13; 50; 85; 191; 239; 149; 96; 24; 144;
      175; 216; 7; 9 ].
Proof. vm_compute. reflexivity. Qed.

(* sha1((bytes_of_string "abc")) = a9993e364706816aba3e25717850c26c9cd0d89d *)
Example sha1_abc :
  sha1 (bytes_of_string "abc") =
    [ 169; 153; 62; 54; 71; 6; 129; 106; 186; 62; 37; 113; 120; 80; 194; 108;
      156; 208; 216; 157 ].
Proof. vm_compute. reflexivity. Qed.

(* sha1(...) = 84983e441c3bd26ebaae4aa1f95129e5e54670f1 *)
Example sha1_m56 :
  sha1 (bytes_of_string "abcdbcdecdefdefgefghfghighijhijkijkljklmklmnlmnomnopnopq") =
    [ 132; 152; 62; 68; 28; 59; 210; 110; 186; 174; 74; 161; 249; 81; 41; 229;
      229; 70; 112; 241 ].
Proof. vm_compute. reflexivity. Qed.

(* sha1((rep_a 55)) = c1c8bbdc22796e28c0e15163d20899b65621d65a *)
Example sha1_a55 :
  sha1 (rep_a 55) =
    [ 193; 200; 187; 220; 34; 121; 110; 40; 192; 225; 81; 99; 210; 8; 153; 182;
      86; 33; 214; 90 ].
Proof. vm_compute. reflexivity. Qed.

(* sha1((rep_a 56)) = c2db330f6083854c99d4b5bfb6e8f29f201be699 *)
Example sha1_a56 :
  sha1 (rep_a 56) =
    [ 194; 219; 51; 15; 96; 131; 133; 76; 153; 212; 181; 191; 182; 232; 242; 159;
      32; 27; 230; 153 ].
Proof. vm_compute. reflexivity. Qed.

(* sha1((rep_a 63)) = 03f09f5b158a7a8cdad920bddc29b81c18a551f5 *)
Example sha1_a63 :
  sha1 (rep_a 63) =
    [ 3; 240; 159; 91; 21; 138; 122; 140; 218; 217; 32; 189; 220; 41; 184; 28;
      24; 165; 81; 245 ].
Proof. vm_compute. reflexivity. Qed.

(* sha1((rep_a 64)) = 0098ba824b5c16427bd7a1122a5a442a25ec644d *)
Example sha1_a64 :
  sha1 (rep_a 64) =
    [ 0; 152; 186; 130; 75; 92; 22; 66; 123; 215; 161; 18; 42; 90; 68; 42;
      37; 236; 100; 77 ].
Proof. vm_compute. reflexivity. Qed.

(* sha1((rep_a 65)) = 11655326c708d70319be2610e8a57d9a5b959d3b *)
Example sha1_a65 :
  sha1 (rep_a 65) =
    [ 17; 101; 83; 38; 199; 8; 215; 3; 25; 190; 38; 16; 232; 165; 125; 154;
      91; 149; 157; 59 ].
Proof. vm_compute. reflexivity. Qed.

(* sha1((rep_a 119)) = ee971065aaa017e0632a8ca6c77bb3bf8b1dfc56 *)
Example sha1_a119 :
  sha1 (rep_a 119) =
    [ 238; 151; 16; 101; 170; 160; 23; 224; 99; 42; 140; 166; 199; 123; 179; 191;
      139; 29; 252; 86 ].
Proof. vm_compute. reflexivity. Qed.

(* sha1((rep_a 120)) = f34c1488385346a55709ba056ddd08280dd4c6d6 *)
Example sha1_a120 :
  sha1 (rep_a 120) =
    [ 243; 76; 20; 136; 56; 83; 70; 165; 87; 9; 186; 5; 109; 221; 8; 40;
      13; 212; 198; 214 ].
Proof. vm_compute. reflexivity. Qed.

(* tagged_hash "TapLeaf" (c0 01 51) = a85b2107f791b26a84e7586c28cec7cb61202ed3d01944d832500f363782d675 *)
Example tagged_hash_tapleaf :
  tagged_hash (bytes_of_string "TapLeaf") [192; 1; 81] =
    [ 168; 91; 33; 7; 247; 145; 178; 106; 132; 231; 88; 108; 40; 206; 199; 203;
      97; 32; 46; 211; 208; 25; 68; 216; 50; 80; 15; 54; 55; 130; 214; 117 ].
Proof. vm_compute. reflexivity. Qed.

(* tagged_hash "BIP0340/challenge" "abc" = 770a5b7e7c304bbcc3ea107343ff951dd404312ef418db0c3b94e2ebfbb50087 *)
Example tagged_hash_challenge_abc :
  tagged_hash (bytes_of_string "BIP0340/challenge") (bytes_of_string "abc") =
    [ 119; 10; 91; 126; 124; 48; 75; 188; 195; 234; 16; 115; 67; 255; 149; 29;
      212; 4; 49; 46; 244; 24; 219; 12; 59; 148; 226; 235; 251; 181; 0; 135 ].
Proof. vm_compute. reflexivity. Qed.

(* hash256 "abc" = 4f8b42c22dd3729b519ba6f68d2da7cc5b2d606d05daed5ad5128cc03e6c6358 *)
Example hash256_abc :
  hash256 (bytes_of_string "abc") =
    [ 79; 139; 66; 194; 45; 211; 114; 155; 81; 155; 166; 246; 141; 45; 167; 204;
      91; 45; 96; 109; 5; 218; 237; 90; 213; 18; 140; 192; 62; 108; 99; 88 ].
Proof. vm_compute. reflexivity. Qed.

(* hash160 "abc" = bb1be98c142444d7a56aa3981c3942a978e4dc33 *)
Example hash160_abc :
  hash160 (bytes_of_string "abc") =
    [ 187; 27; 233; 140; 20; 36; 68; 215; 165; 106; 163; 152; 28; 57; 66; 169;
      120; 228; 220; 51 ].
Proof. vm_compute. reflexivity. Qed.

(** 1000-byte message, byte i = i mod 251 (exercises all byte values / many blocks). *)
Definition msg1000 : list Z := map (fun i => Z.of_nat i mod 251) (seq 0 1000).

(* sha256(msg1000) = 4e4c294b331f7a2099a379bec34b9f9fc03dc46ab465d998f4d683da53487e6d *)
Example sha256_msg1000 :
  sha256 msg1000 =
    [ 78; 76; 41; 75; 51; 31; 122; 32; 153; 163; 121; 190; 195; 75; 159; 159;
      192; 61; 196; 106; 180; 101; 217; 152; 244; 214; 131; 218; 83; 72; 126; 109 ].
Proof. vm_compute. reflexivity. Qed.

(* ripemd160(msg1000) = 6864b0b9f86a879be2680824c81dbce9c5350281 *)
Example ripemd160_msg1000 :
  ripemd160 msg1000 =
    [ 104; 100; 176; 185; 248; 106; 135; 155; 226; 104; 8; 36; 200; 29; 188; 233;
      197; 53; 2; 129 ].
Proof. vm_compute. reflexivity. Qed.

(* sha1(msg1000) = c9c960a0b925474fab83942cc27d504fc24ac37b *)
Example sha1_msg1000 :
  sha1 msg1000 =
    [ 201; 201; 96; 160; 185; 37; 71; 79; 171; 131; 148; 44; 194; 125; 80; 79;
      194; 74; 195; 123 ].
Proof. vm_compute. reflexivity. Qed.

(* ---------------------------------------------------------------------- *)
(** * Assumption audit                                                     *)
(* ---------------------------------------------------------------------- *)

Print Assumptions sha256_length.
Print Assumptions ripemd160_length.
Print Assumptions sha1_length.
Print Assumptions sha256_bytes.
Print Assumptions ripemd160_bytes.
Print Assumptions sha1_bytes.
Print Assumptions hash256_length.
Print Assumptions hash160_length.
Print Assumptions tagged_hash_length.
Print Assumptions hash256_bytes.
Print Assumptions hash160_bytes.
Print Assumptions tagged_hash_bytes.
Print Assumptions w32_mod.
Print Assumptions not32_spec.
