(* Extraction of the executable models and specifications for the correspondence check.
   Only ExtrOcamlBasic is used: bool, option, list, prod, unit, sumbool map to the OCaml types;
   Z, N, positive, nat stay the extracted inductive types. No Extract Constant. *)
(* DEPS: Base.v ScriptNum.v *)
From Coq Require Import Extraction ExtrOcamlBasic.
From BV Require Import Base ScriptNum.
Extraction Language OCaml.
Set Extraction Optimize.
Extraction "../ocaml/model.ml" sn_ctor sn_serialize sn_getint value_int_hex_str value_int_data_value value_data_int_value
  hexstr.
