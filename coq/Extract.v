(* Extraction of the executable models and specifications for the correspondence check.
   Only ExtrOcamlBasic is used: bool, option, list, prod, unit, sumbool map to the OCaml types;
   Z, N, positive, nat stay the extracted inductive types. One Extract Constant of ours: the standard library's
   [rev] (defined as [rev l ++ [x]], quadratic) is realised by OCaml's [List.rev] (same function on OCaml lists, linear);
   without it a 64 kB argument costs minutes per case in the correspondence check. *)
(* DEPS: Base.v ScriptNum.v Gen/Consts.v Gen/Sites.v Gen/OpNames.v NumExpr.v Gen/NumOps.v Script.v Interp.v Session.v Value.v Der.v Hashes.v Tx.v TxCli.v Codecs.v Gen/TfTable.v Transforms.v Gen/CliTables.v Cli.v TapTool.v Sighash.v Configure.v Pretend.v *)
From Coq Require Import Extraction ExtrOcamlBasic.
From BV Require Import Base ScriptNum Script Interp Session Value Der Hashes Tx TxCli Transforms Cli TapTool Sighash Configure Pretend.
From BV.Gen Require Import Consts Sites OpNames CliTables.
Extraction Language OCaml.
Set Extraction Optimize.
Extract Constant rev => "List.rev".
Extraction "../ocaml/model.ml" sn_ctor sn_serialize sn_getint value_int_hex_str value_int_data_value value_data_int_value
  hexstr
  setup_env inst_step dbg_rewind dbg_continue continue_fuel inst_eval at_start init_execdata cs_at
  exec_compile btcc arg_data value_of_string value_emit
  low_s_strict sha256 ripemd160 sha1
  has_valid_ops decode_ops get_op push_data push_int64 check_minimal_push cast_to_bool find_and_delete
  STANDARD_SCRIPT_VERIFY_FLAGS
  parse_transaction parse_tx select_input ser_tx unser_tx txid_preimage wtxid_preimage hash256 wf_tx
  do_exec tf_run print_value
  main_noninteractive svf_parse_flags svf_names session_listing marked_line main_initial_flags
  tce_new tce_iterate tap_run
  configure setup_txdata pushonly_violation tx_checker signature_hash signature_hash_schnorr legacy_preimage bip143_preimage bip341_msg txdata_init parse_pretend_valid witness_limits_violation.
