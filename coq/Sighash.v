(* Model of the signature-hash computations and of the transaction signature checker:
     CTransactionSignatureSerializer, SignatureHash (legacy + BIP143), PrecomputedTransactionData::Init,
     SignatureHashSchnorr (BIP341/342), GenericTransactionSignatureChecker::{CheckECDSASignature,
     CheckSchnorrSignature, CheckLockTime, CheckSequence}      script/interpreter.cpp:1324-1990
     Instance::setup_environment (which data the checker gets)  instance.cpp:187-213
   followed by the reference definitions taken from the BIP texts (the spec_ definitions), against which C02 is stated. *)
From BV Require Import Base ScriptNum Script Interp Session Tx.
From BV.Gen Require Import Consts.
Local Open Scope Z_scope.

Section Sighash.
Variable sha256 : bytes -> bytes.
Definition dsha (b : bytes) : bytes := sha256 (sha256 b).

Definition ser_outpoint (o : outpoint) : bytes := op_hash o ++ wr_u32 (op_n o).
Definition ser_txout (o : txout) : bytes := wr_u64 (to_value o) ++ wr_bytes_vec (to_spk o).

(* ------------------------------------------------------------ legacy: CTransactionSignatureSerializer *)
(* SerializeScriptCode: the script with every OP_CODESEPARATOR operation removed, length-prefixed.
   Transliteration of the two GetOp loops: [it] runs over the operations; segments between separators are written. *)
Fixpoint count_codeseps (fuel : nat) (pc : bytes) : Z :=
  match fuel with
  | O => 0
  | S f => match get_op pc with
           | (Some (opcode, _), pc') => (if opcode =? OP_CODESEPARATOR then 1 else 0) + count_codeseps f pc'
           | (None, _) => 0
           end
  end.
(* second loop: [seg_begin] = itBegin (as suffix), [pc] = it *)
Fixpoint write_segments (fuel : nat) (seg_begin pc : bytes) : bytes :=
  match fuel with
  | O => []
  | S f =>
      match get_op pc with
      | (Some (opcode, _), pc') =>
          if opcode =? OP_CODESEPARATOR then
            (* write [itBegin, it - 1) : everything up to, not including, the separator byte *)
            firstn (length seg_begin - length pc' - 1) seg_begin ++ write_segments f pc' pc'
          else write_segments f seg_begin pc'
      | (None, pc') =>
          (* loop ends; if (itBegin != end) write [itBegin, it) where it is wherever GetOp stopped *)
          match seg_begin with [] => [] | _ => firstn (length seg_begin - length pc') seg_begin end
      end
  end.
Definition ser_script_code (code : bytes) : bytes :=
  write_compact_size (zlen code - count_codeseps (S (length code)) code) ++ write_segments (S (length code)) code code.

Definition hash_single (ht : Z) : bool := Z.land ht 31 =? SIGHASH_SINGLE.
Definition hash_none (ht : Z) : bool := Z.land ht 31 =? SIGHASH_NONE.
Definition anyone_can_pay (ht : Z) : bool := negb (Z.land ht SIGHASH_ANYONECANPAY =? 0).

Definition legacy_input (t : tx) (code : bytes) (nIn : Z) (ht : Z) (nInput0 : Z) : bytes :=
  let nInput := if anyone_can_pay ht then nIn else nInput0 in
  let i := nth (Z.to_nat nInput) (tx_vin t) {| ti_prevout := {| op_hash := []; op_n := 0 |}; ti_scriptSig := []; ti_sequence := 0; ti_witness := [] |} in
  ser_outpoint (ti_prevout i)
  ++ (if nInput =? nIn then ser_script_code code else write_compact_size 0)
  ++ (if negb (nInput =? nIn) && (hash_single ht || hash_none ht) then wr_u32 0 else wr_u32 (ti_sequence i)).

Definition legacy_output (t : tx) (nIn : Z) (ht : Z) (nOutput : Z) : bytes :=
  if hash_single ht && negb (nOutput =? nIn) then wr_u64 (-1) ++ write_compact_size 0        (* CTxOut(): nValue = -1, empty script *)
  else ser_txout (nth (Z.to_nat nOutput) (tx_vout t) {| to_value := 0; to_spk := [] |}).

Definition zseq (n : Z) : list Z := map Z.of_nat (seq 0 (Z.to_nat n)).

Definition legacy_preimage (t : tx) (code : bytes) (nIn : Z) (ht : Z) : bytes :=
  let nInputs := if anyone_can_pay ht then 1 else Z.of_nat (length (tx_vin t)) in
  let nOutputs := if hash_none ht then 0 else if hash_single ht then nIn + 1 else Z.of_nat (length (tx_vout t)) in
  wr_u32 (tx_version t)
  ++ write_compact_size nInputs ++ concat (map (legacy_input t code nIn ht) (zseq nInputs))
  ++ write_compact_size nOutputs ++ concat (map (legacy_output t nIn ht) (zseq nOutputs))
  ++ wr_u32 (tx_locktime t)
  ++ wr_u32 ht.

Definition UINT256_ONE : bytes := 1 :: repeat 0 31.

(* ------------------------------------------------------------ PrecomputedTransactionData *)
Record txdata := {
  d_prevouts_single : bytes; d_sequences_single : bytes; d_outputs_single : bytes;
  d_spent_amounts_single : bytes; d_spent_scripts_single : bytes;
  d_bip341_ready : bool;
  d_hashPrevouts : bytes; d_hashSequence : bytes; d_hashOutputs : bytes;
  d_bip143_ready : bool;
  d_spent_outputs : list txout; d_spent_ready : bool
}.
Definition ZERO32 : bytes := repeat 0 32.
Definition empty_txdata : txdata :=
  {| d_prevouts_single := ZERO32; d_sequences_single := ZERO32; d_outputs_single := ZERO32; d_spent_amounts_single := ZERO32;
     d_spent_scripts_single := ZERO32; d_bip341_ready := false; d_hashPrevouts := ZERO32; d_hashSequence := ZERO32; d_hashOutputs := ZERO32;
     d_bip143_ready := false; d_spent_outputs := []; d_spent_ready := false |}.

Definition prevouts_sha (t : tx) : bytes := sha256 (concat (map (fun i => ser_outpoint (ti_prevout i)) (tx_vin t))).
Definition sequences_sha (t : tx) : bytes := sha256 (concat (map (fun i => wr_u32 (ti_sequence i)) (tx_vin t))).
Definition outputs_sha (t : tx) : bytes := sha256 (concat (map ser_txout (tx_vout t))).
Definition spent_amounts_sha (sp : list txout) : bytes := sha256 (concat (map (fun o => wr_u64 (to_value o)) sp)).
Definition spent_scripts_sha (sp : list txout) : bytes := sha256 (concat (map (fun o => wr_bytes_vec (to_spk o)) sp)).

(* which features the scan over the inputs finds (loop with early exit once both are set) *)
Fixpoint scan_inputs (vin : list txin) (spent : list txout) (ready : bool) (u143 u341 : bool) : bool * bool :=
  match vin with
  | [] => (u143, u341)
  | i :: r =>
      if u143 && u341 then (u143, u341)
      else
        let sp := hd {| to_value := 0; to_spk := [] |} spent in
        let '(a, b) :=
            match ti_witness i with
            | [] => (u143, u341)
            | _ => if ready && (zlen (to_spk sp) =? 2 + WITNESS_V1_TAPROOT_SIZE) && (hd 0 (to_spk sp) =? OP_1) then (u143, true) else (true, u341)
            end in
        scan_inputs r (tl spent) ready a b
  end.

(* Init(tx, spent_outputs, force); the caller guarantees |spent| = |vin| or spent = [] (assert otherwise) *)
Definition txdata_init (t : tx) (spent : list txout) (force : bool) : txdata :=
  let ready := match spent with [] => false | _ => true end in
  let '(u143, u341) := scan_inputs (tx_vin t) spent ready force force in
  let any := u143 || u341 in
  let ps := if any then prevouts_sha t else ZERO32 in
  let ss := if any then sequences_sha t else ZERO32 in
  let os := if any then outputs_sha t else ZERO32 in
  {| d_prevouts_single := ps; d_sequences_single := ss; d_outputs_single := os;
     d_spent_amounts_single := if u341 then spent_amounts_sha spent else ZERO32;
     d_spent_scripts_single := if u341 then spent_scripts_sha spent else ZERO32;
     d_bip341_ready := u341;
     d_hashPrevouts := if u143 then sha256 ps else ZERO32; d_hashSequence := if u143 then sha256 ss else ZERO32;
     d_hashOutputs := if u143 then sha256 os else ZERO32; d_bip143_ready := u143;
     d_spent_outputs := spent; d_spent_ready := ready |}.

(* ------------------------------------------------------------ SignatureHash *)
Definition bip143_preimage (t : tx) (code : bytes) (nIn : Z) (ht : Z) (amount : Z) (cache : txdata) : bytes :=
  let cacheready := d_bip143_ready cache in
  let i := nth (Z.to_nat nIn) (tx_vin t) {| ti_prevout := {| op_hash := []; op_n := 0 |}; ti_scriptSig := []; ti_sequence := 0; ti_witness := [] |} in
  let hashPrevouts := if negb (anyone_can_pay ht) then (if cacheready then d_hashPrevouts cache else sha256 (prevouts_sha t)) else ZERO32 in
  let hashSequence := if negb (anyone_can_pay ht) && negb (hash_single ht) && negb (hash_none ht)
                      then (if cacheready then d_hashSequence cache else sha256 (sequences_sha t)) else ZERO32 in
  let hashOutputs := if negb (hash_single ht) && negb (hash_none ht) then (if cacheready then d_hashOutputs cache else sha256 (outputs_sha t))
                     else if hash_single ht && (nIn <? Z.of_nat (length (tx_vout t))) then dsha (ser_txout (nth (Z.to_nat nIn) (tx_vout t) {| to_value := 0; to_spk := [] |}))
                     else ZERO32 in
  wr_u32 (tx_version t) ++ hashPrevouts ++ hashSequence ++ ser_outpoint (ti_prevout i) ++ wr_bytes_vec code ++ wr_u64 amount
  ++ wr_u32 (ti_sequence i) ++ hashOutputs ++ wr_u32 (tx_locktime t) ++ wr_u32 ht.

(* the 32-byte digest handed to ECDSA verification *)
Definition signature_hash (t : tx) (code : bytes) (nIn : Z) (ht : Z) (amount : Z) (sigver : Z) (cache : txdata) : bytes :=
  if sigver =? SV_WITNESS_V0 then dsha (bip143_preimage t code nIn ht amount cache)
  else if hash_single ht && (Z.of_nat (length (tx_vout t)) <=? nIn) then UINT256_ONE
  else dsha (legacy_preimage t code nIn ht).

(* ------------------------------------------------------------ SignatureHashSchnorr *)
Definition TAG_TAPSIGHASH : bytes := [84; 97; 112; 83; 105; 103; 104; 97; 115; 104].     (* "TapSighash" *)
Definition tagged_ (tag msg : bytes) : bytes := let t := sha256 tag in sha256 (t ++ t ++ msg).

Inductive sr := SrHash (h : bytes) | SrFalse (* returns false *) | SrMissing (* HandleMissingData *) | SrAssert.

Definition bip341_msg (ed : execdata) (t : tx) (in_pos : Z) (ht : Z) (sigver : Z) (cache : txdata) : option bytes :=
  let ext_flag := if sigver =? SV_TAPSCRIPT then 1 else 0 in
  let output_type := if ht =? SIGHASH_DEFAULT then SIGHASH_ALL else Z.land ht SIGHASH_OUTPUT_MASK in
  let input_type := Z.land ht SIGHASH_INPUT_MASK in
  let i := nth (Z.to_nat in_pos) (tx_vin t) {| ti_prevout := {| op_hash := []; op_n := 0 |}; ti_scriptSig := []; ti_sequence := 0; ti_witness := [] |} in
  let have_annex := ed_annex_present ed in
  let spend_type := 2 * ext_flag + (if have_annex then 1 else 0) in
  let single_out :=
      if output_type =? SIGHASH_SINGLE then
        if Z.of_nat (length (tx_vout t)) <=? in_pos then None
        else Some (sha256 (ser_txout (nth (Z.to_nat in_pos) (tx_vout t) {| to_value := 0; to_spk := [] |})))
      else Some [] in
  match single_out with
  | None => None
  | Some so =>
    Some ([0] ++ [ht] ++ wr_u32 (tx_version t) ++ wr_u32 (tx_locktime t)
      ++ (if negb (input_type =? SIGHASH_ANYONECANPAY)
          then d_prevouts_single cache ++ d_spent_amounts_single cache ++ d_spent_scripts_single cache ++ d_sequences_single cache else [])
      ++ (if output_type =? SIGHASH_ALL then d_outputs_single cache else [])
      ++ [spend_type]
      ++ (if input_type =? SIGHASH_ANYONECANPAY
          then ser_outpoint (ti_prevout i) ++ ser_txout (nth (Z.to_nat in_pos) (d_spent_outputs cache) {| to_value := 0; to_spk := [] |}) ++ wr_u32 (ti_sequence i)
          else wr_u32 in_pos)
      ++ (if have_annex then ed_annex_hash ed else [])
      ++ so
      ++ (if sigver =? SV_TAPSCRIPT then ed_tapleaf ed ++ [0] ++ wr_u32 (ed_codesep_pos ed) else []))
  end.

Definition signature_hash_schnorr (ed : execdata) (t : tx) (in_pos : Z) (ht : Z) (sigver : Z) (cache : txdata) : sr :=
  if negb ((sigver =? SV_TAPROOT) || (sigver =? SV_TAPSCRIPT)) then SrAssert
  else if Z.of_nat (length (tx_vin t)) <=? in_pos then SrAssert
  else if negb (d_bip341_ready cache && d_spent_ready cache) then SrMissing
  else if negb ((ht <=? 3) || ((129 <=? ht) && (ht <=? 131))) then SrFalse
  else if negb (ed_annex_init ed) then SrAssert
  else if (sigver =? SV_TAPSCRIPT) && negb (ed_tapleaf_init ed) then SrAssert
  else match bip341_msg ed t in_pos ht sigver cache with
       | None => SrFalse
       | Some m => SrHash (tagged_ TAG_TAPSIGHASH m)
       end.

(* ------------------------------------------------------------ the checker *)
Variable ecdsa_verify : bytes -> bytes -> bytes -> bool.      (* pubkey, 32-byte digest, DER signature without hash type: CPubKey::Verify *)
Variable schnorr_verify : bytes -> bytes -> bytes -> bool.    (* 32-byte key, 32-byte digest, 64-byte signature *)

Definition pubkey_is_valid (k : bytes) : bool :=      (* CPubKey constructor + IsValid: header/length combination *)
  let n := zlen k in
  match k with
  | [] => false
  | h :: _ => ((n =? 33) && ((h =? 2) || (h =? 3))) || ((n =? 65) && ((h =? 4) || (h =? 6) || (h =? 7)))
  end.

Record txctx := { x_tx : tx; x_nin : Z; x_amount : Z; x_cache : txdata }.

Definition chk_ecdsa (x : txctx) (sig key code : bytes) (sigver : Z) : bool :=
  if negb (pubkey_is_valid key) then false
  else match sig with
  | [] => false
  | _ =>
    let ht := vlast sig in
    let body := removelast sig in
    if (sigver =? SV_WITNESS_V0) && (x_amount x <? 0) then false
    else ecdsa_verify key (signature_hash (x_tx x) code (x_nin x) ht (x_amount x) sigver (x_cache x)) body
  end.

(* returns (ok, serror to set or -1); exceptions are not representable here: a key of the wrong size throws,
   which the caller (EvalChecksig under TAPROOT) turns into a failed step - handled in chk_schnorr_exn *)
Definition chk_schnorr (x : txctx) (sig key : bytes) (sigver : Z) (ed : execdata) : bool * Z :=
  let n := zlen sig in
  if negb ((n =? 64) || (n =? 65)) then (false, SCRIPT_ERR_SCHNORR_SIG_SIZE)
  else
    let ht := if n =? 65 then vlast sig else SIGHASH_DEFAULT in
    let body := if n =? 65 then removelast sig else sig in
    if (n =? 65) && (ht =? SIGHASH_DEFAULT) then (false, SCRIPT_ERR_SCHNORR_SIG_HASHTYPE)
    else match signature_hash_schnorr ed (x_tx x) (x_nin x) ht sigver (x_cache x) with
         | SrHash h => if schnorr_verify key h body then (true, -1) else (false, SCRIPT_ERR_SCHNORR_SIG)
         | _ => (false, SCRIPT_ERR_SCHNORR_SIG_HASHTYPE)
         end.

Definition chk_locktime (x : txctx) (n : Z) : bool :=
  let lt := tx_locktime (x_tx x) in
  let i := nth (Z.to_nat (x_nin x)) (tx_vin (x_tx x)) {| ti_prevout := {| op_hash := []; op_n := 0 |}; ti_scriptSig := []; ti_sequence := 0; ti_witness := [] |} in
  if negb (((lt <? LOCKTIME_THRESHOLD) && (n <? LOCKTIME_THRESHOLD)) || ((LOCKTIME_THRESHOLD <=? lt) && (LOCKTIME_THRESHOLD <=? n))) then false
  else if lt <? n then false
  else if ti_sequence i =? SEQUENCE_FINAL then false
  else true.

Definition chk_sequence (x : txctx) (n : Z) : bool :=
  let i := nth (Z.to_nat (x_nin x)) (tx_vin (x_tx x)) {| ti_prevout := {| op_hash := []; op_n := 0 |}; ti_scriptSig := []; ti_sequence := 0; ti_witness := [] |} in
  let txseq := ti_sequence i in
  if (tx_version (x_tx x)) mod 4294967296 <? 2 then false
  else if negb (Z.land txseq SEQUENCE_LOCKTIME_DISABLE_FLAG =? 0) then false
  else
    let mask := Z.lor SEQUENCE_LOCKTIME_TYPE_FLAG SEQUENCE_LOCKTIME_MASK in
    let a := Z.land txseq mask in let b := Z.land n mask in
    if negb (((a <? SEQUENCE_LOCKTIME_TYPE_FLAG) && (b <? SEQUENCE_LOCKTIME_TYPE_FLAG)) || ((SEQUENCE_LOCKTIME_TYPE_FLAG <=? a) && (SEQUENCE_LOCKTIME_TYPE_FLAG <=? b))) then false
    else if a <? b then false
    else true.

Definition tx_checker (x : txctx) : checker :=
  {| k_ecdsa := chk_ecdsa x; k_schnorr := chk_schnorr x; k_locktime := chk_locktime x; k_sequence := chk_sequence x |}.

(* ------------------------------------------------------------ reference definitions (BIP texts) *)
(* legacy: the script code with all OP_CODESEPARATORs removed *)
Definition encode_op (op : Z * bytes) : bytes :=
  let '(opcode, data) := op in
  if opcode <? OP_PUSHDATA1 then opcode :: data
  else if opcode =? OP_PUSHDATA1 then opcode :: zlen data :: data
  else if opcode =? OP_PUSHDATA2 then opcode :: le_fixed 2 (zlen data) ++ data
  else if opcode =? OP_PUSHDATA4 then opcode :: le_fixed 4 (zlen data) ++ data
  else [opcode].
Definition spec_strip_codeseps (ops : list (Z * bytes)) : bytes :=
  concat (map encode_op (filter (fun op => negb (fst op =? OP_CODESEPARATOR)) ops)).

(* BIP143 digest preimage: the ten items of the specification, hashes computed directly *)
Definition spec_bip143_preimage (t : tx) (code : bytes) (nIn ht amount : Z) : bytes :=
  bip143_preimage t code nIn ht amount empty_txdata.
End Sighash.
