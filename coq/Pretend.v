(* Model of Instance::parse_pretend_valid_expr (instance.cpp): the --pretend-valid=sig:pubkey[,sig:pubkey...] option.
   Each token is read with the Value(const char* ) constructor (numbers, hex, strings, inline functions) and its data value taken. *)
From BV Require Import Base Script Interp Value TxCli.
Local Open Scope Z_scope.

Section Pretend.
Variable do_exec : str -> value -> option (parse_res value).

Inductive pv_res :=
| PvOk (m : list (bytes * bytes)) (keys : list bytes)
| PvRefused                (* diagnostic, return false *)
| PvExit1 | PvAbort.       (* the Value constructor gave up on a token *)

Definition pv_insert_key (keys : list bytes) (k : bytes) : list bytes :=
  if existsb (bytes_eqb k) keys then keys else keys ++ [k].

(* [p] is the rest of the expression ( *c at the top of the loop) *)
Fixpoint pv_loop (fuel : nat) (p : str) (got_sig : bool) (sig : bytes) (m : list (bytes * bytes)) (keys : list bytes) : pv_res :=
  match fuel with
  | O => PvRefused
  | S f =>
    match p with
    | [] => if got_sig then PvRefused else PvOk m keys
    | _ =>
      let '(tok, sep) := split_sep p [] in
      match arg_data do_exec tok with
      | PExit1 => PvExit1
      | PAbort => PvAbort
      | POk s =>
        let pair_end (rest : str) :=
            if negb got_sig then PvRefused
            else match pv_lookup m sig with
                 | Some k => if bytes_eqb k s then pv_loop f rest false sig m (pv_insert_key keys s) else PvRefused
                 | None => pv_loop f rest false sig (m ++ [(sig, s)]) (pv_insert_key keys s)
                 end in
        match sep with
        | Some (c, rest) => if c =? 58 then (if got_sig then PvRefused else pv_loop f rest true s m keys) else pair_end rest
        | None => pair_end []
        end
      end
    end
  end.

Definition parse_pretend_valid (expr : str) : pv_res := pv_loop (S (length expr)) expr false [] [] [].
End Pretend.
