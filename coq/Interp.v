(* Code-shaped executable model of the script interpreter step:
     StepScript(ScriptExecutionEnvironment&, pc, local_script)   script/interpreter.cpp:405-1299
     StepExtended                                                 debugger/interpreter.cpp:267-409
     EvalChecksig / PreTapscript / Tapscript, CHECKMULTISIG loop  script/interpreter.cpp:239-362,1127-1286
     ConditionStack                                               debugger/see.h
   Stacks are lists with the TOP AT THE HEAD: [stacktop(-k)] is [nth (k-1)]; the display order
   (bottom first) is produced at the boundary. Every place where the C++ throws, asserts or has
   undefined behaviour yields an explicit status. *)
From BV Require Import Base ScriptNum Script NumExpr.
From BV.Gen Require Import Consts Sites NumOps.
Local Open Scope Z_scope.

(* ------------------------------------------------------------ configuration and oracles *)
Record execdata := {
  ed_codesep_pos : Z;
  ed_weight_left : Z;
  ed_weight_init : bool;
  ed_tapleaf : bytes; ed_tapleaf_init : bool;
  ed_annex_present : bool; ed_annex_hash : bytes; ed_annex_init : bool
}.

(* the signature checker the session was built with (BaseSignatureChecker: all false) *)
Record checker := {
  k_ecdsa : bytes -> bytes -> bytes -> Z -> bool;                 (* sig, pubkey, scriptCode, sigversion *)
  k_schnorr : bytes -> bytes -> Z -> execdata -> bool * Z;        (* sig, pubkey, sigversion, execdata -> (ok, serror or -1 if untouched) *)
  k_locktime : Z -> bool;
  k_sequence : Z -> bool
}.

Record hashes := { h_sha256 : bytes -> bytes; h_ripemd160 : bytes -> bytes; h_sha1 : bytes -> bytes }.

Record cfg := {
  c_flags : Z;
  c_sigver : Z;                (* SigVersion: 0 BASE, 1 WITNESS_V0, 2 TAPROOT, 3 TAPSCRIPT *)
  c_allow_disabled : bool;
  c_pv_map : list (bytes * bytes);   (* pretend_valid_map: signature -> pubkey (std::map: one entry per signature) *)
  c_pv_keys : list bytes;            (* pretend_valid_pubkeys *)
  c_chk : checker;
  c_hash : hashes
}.

Definition SV_BASE := 0. Definition SV_WITNESS_V0 := 1. Definition SV_TAPROOT := 2. Definition SV_TAPSCRIPT := 3.

Definition has_flag (flags f : Z) : bool := negb (Z.land flags f =? 0).

(* ------------------------------------------------------------ ConditionStack (debugger/see.h) *)
Definition NO_FALSE := 4294967295.
Record condstack := { cs_size : Z; cs_ffp : Z }.
Definition cs_empty_stack := {| cs_size := 0; cs_ffp := NO_FALSE |}.
Definition cs_empty (c : condstack) : bool := cs_size c =? 0.
Definition cs_all_true (c : condstack) : bool := cs_ffp c =? NO_FALSE.
Definition cs_at (c : condstack) (idx : Z) : bool := idx <? cs_ffp c.
Definition cs_push (c : condstack) (f : bool) : condstack :=
  {| cs_size := cs_size c + 1;
     cs_ffp := if (cs_ffp c =? NO_FALSE) && negb f then cs_size c else cs_ffp c |}.
Definition cs_pop (c : condstack) : condstack :=
  let s := cs_size c - 1 in
  {| cs_size := s; cs_ffp := if cs_ffp c =? s then NO_FALSE else cs_ffp c |}.
Definition cs_toggle (c : condstack) : condstack :=
  if cs_ffp c =? NO_FALSE then {| cs_size := cs_size c; cs_ffp := cs_size c - 1 |}
  else if cs_ffp c =? cs_size c - 1 then {| cs_size := cs_size c; cs_ffp := NO_FALSE |}
  else c.

(* ------------------------------------------------------------ execution environment *)
Record see := {
  e_script : bytes;            (* env.script *)
  e_cb : option bytes;         (* pbegincodehash as a suffix of the script it points into; None = dangling *)
  e_stack : list bytes;        (* head = top *)
  e_alt : list bytes;
  e_cond : condstack;
  e_ops : Z;                   (* nOpCount *)
  e_pos : Z;                   (* opcode_pos *)
  e_ed : execdata;
  e_err : Z                    (* *serror *)
}.

Inductive status := SOk | SErr | SExn (c : Z) | SCrash (why : Z).
Definition CRASH_ASSERT := 1.      (* assert(0) / failed assertion *)
Definition CRASH_DIVZERO := 2.     (* integer division by zero: SIGFPE *)
Definition CRASH_UB_SHIFT := 3.    (* shift count out of range / shift of negative value *)
Definition CRASH_UB_OVERFLOW := 4. (* signed overflow *)
Definition CRASH_DANGLING := 5.    (* use of an iterator into a destroyed script *)

Definition set_err (e : see) (err : Z) : see :=
  {| e_script := e_script e; e_cb := e_cb e; e_stack := e_stack e; e_alt := e_alt e; e_cond := e_cond e;
     e_ops := e_ops e; e_pos := e_pos e; e_ed := e_ed e; e_err := err |}.
Definition set_stack (e : see) (s : list bytes) : see :=
  {| e_script := e_script e; e_cb := e_cb e; e_stack := s; e_alt := e_alt e; e_cond := e_cond e;
     e_ops := e_ops e; e_pos := e_pos e; e_ed := e_ed e; e_err := e_err e |}.
Definition set_alt (e : see) (s : list bytes) : see :=
  {| e_script := e_script e; e_cb := e_cb e; e_stack := e_stack e; e_alt := s; e_cond := e_cond e;
     e_ops := e_ops e; e_pos := e_pos e; e_ed := e_ed e; e_err := e_err e |}.
Definition set_cond (e : see) (c : condstack) : see :=
  {| e_script := e_script e; e_cb := e_cb e; e_stack := e_stack e; e_alt := e_alt e; e_cond := c;
     e_ops := e_ops e; e_pos := e_pos e; e_ed := e_ed e; e_err := e_err e |}.
Definition set_ops (e : see) (n : Z) : see :=
  {| e_script := e_script e; e_cb := e_cb e; e_stack := e_stack e; e_alt := e_alt e; e_cond := e_cond e;
     e_ops := n; e_pos := e_pos e; e_ed := e_ed e; e_err := e_err e |}.
Definition set_cb (e : see) (cb : option bytes) : see :=
  {| e_script := e_script e; e_cb := cb; e_stack := e_stack e; e_alt := e_alt e; e_cond := e_cond e;
     e_ops := e_ops e; e_pos := e_pos e; e_ed := e_ed e; e_err := e_err e |}.
Definition set_ed (e : see) (d : execdata) : see :=
  {| e_script := e_script e; e_cb := e_cb e; e_stack := e_stack e; e_alt := e_alt e; e_cond := e_cond e;
     e_ops := e_ops e; e_pos := e_pos e; e_ed := d; e_err := e_err e |}.
Definition set_script (e : see) (s : bytes) : see :=
  {| e_script := s; e_cb := e_cb e; e_stack := e_stack e; e_alt := e_alt e; e_cond := e_cond e;
     e_ops := e_ops e; e_pos := e_pos e; e_ed := e_ed e; e_err := e_err e |}.

Definition ed_set_codesep (d : execdata) (p : Z) : execdata :=
  {| ed_codesep_pos := p; ed_weight_left := ed_weight_left d; ed_weight_init := ed_weight_init d;
     ed_tapleaf := ed_tapleaf d; ed_tapleaf_init := ed_tapleaf_init d;
     ed_annex_present := ed_annex_present d; ed_annex_hash := ed_annex_hash d; ed_annex_init := ed_annex_init d |}.
Definition ed_set_weight (d : execdata) (w : Z) : execdata :=
  {| ed_codesep_pos := ed_codesep_pos d; ed_weight_left := w; ed_weight_init := ed_weight_init d;
     ed_tapleaf := ed_tapleaf d; ed_tapleaf_init := ed_tapleaf_init d;
     ed_annex_present := ed_annex_present d; ed_annex_hash := ed_annex_hash d; ed_annex_init := ed_annex_init d |}.

Definition fail (e : see) (err : Z) : see * status := (set_err e err, SErr).
Definition ok (e : see) : see * status := (e, SOk).

Definition llen {A} (l : list A) : Z := Z.of_nat (length l).
Definition ssize (e : see) : Z := llen (e_stack e).
(* stacktop(-k), k >= 1 *)
Definition stop (e : see) (k : nat) : bytes := nth (k - 1) (e_stack e) [].
Definition pushs (e : see) (v : bytes) : see := set_stack e (v :: e_stack e).
(* popstack: throws on empty *)
Definition pops (e : see) : option see :=
  match e_stack e with [] => None | _ :: r => Some (set_stack e r) end.

Definition vchTrue : bytes := [1].
Definition vchFalse : bytes := [].
Definition bool_vch (b : bool) : bytes := if b then vchTrue else vchFalse.
Definition req_minimal (c : cfg) : bool := has_flag (c_flags c) SCRIPT_VERIFY_MINIMALDATA.

(* replace the k-th element (1 = top) *)
Fixpoint set_nth {A} (n : nat) (l : list A) (x : A) : list A :=
  match l with
  | [] => []
  | a :: r => match n with O => x :: r | S m => a :: set_nth m r x end
  end.
(* erase the k-th element from the top (1 = top) : stack.erase(stack.end()-k) *)
Fixpoint erase_nth {A} (n : nat) (l : list A) : list A :=
  match l with
  | [] => []
  | a :: r => match n with O => r | S m => a :: erase_nth m r end
  end.
(* insert x so that it ends up below the first k elements: stack.insert(stack.end()-k, x) *)
Definition insert_below {A} (k : nat) (l : list A) (x : A) : list A := firstn k l ++ x :: skipn k l.

(* popping n items that are known to exist *)
Definition popn (e : see) (n : nat) : see := set_stack e (skipn n (e_stack e)).

(* ------------------------------------------------------------ numeric opcodes *)
(* CScriptNum(stacktop(-k), fRequireMinimal[, max]) *)
Definition num_at (c : cfg) (e : see) (k : nat) (maxsz : nat) : outcome Z := sn_ctor (stop e k) (req_minimal c) maxsz.

Definition b2z (b : bool) : Z := if b then 1 else 0.

(* the expressions come from the C++ switch statements (Gen/NumOps.v); a missing entry is the
   [default: assert(!"invalid opcode")] branch *)
Definition unary_num (opcode bn : Z) : option Z :=
  match nassoc unop_table opcode with Some e => Some (neval [bn] e) | None => None end.
Definition binary_num (opcode bn1 bn2 : Z) : option Z :=
  match nassoc binop_table opcode with Some e => Some (neval [0; bn1; bn2] e) | None => None end.
Definition within_num (bn1 bn2 bn3 : Z) : bool := negb (neval [0; bn1; bn2; bn3] within_expr =? 0).

(* ------------------------------------------------------------ signature checks *)
Fixpoint pv_lookup (m : list (bytes * bytes)) (sig : bytes) : option bytes :=
  match m with
  | [] => None
  | (s, k) :: r => if list_eq_dec Z.eq_dec s sig then Some k else pv_lookup r sig
  end.
Definition bytes_eqb (a b : bytes) : bool := if list_eq_dec Z.eq_dec a b then true else false.
Definition pv_has_key (c : cfg) (k : bytes) : bool := existsb (bytes_eqb k) (c_pv_keys c).
Definition pv_match (c : cfg) (sig key : bytes) : bool :=
  match pv_lookup (c_pv_map c) sig with Some k => bytes_eqb k key | None => false end.

(* IsValidSignatureEncoding (strict DER), byte by byte as the C++ *)
Definition bnth (l : bytes) (i : Z) : Z := nth (Z.to_nat i) l 0.
Definition is_valid_sig_encoding (sig : bytes) : bool :=
  let n := zlen sig in
  if n <? 9 then false else if 73 <? n then false
  else if negb (bnth sig 0 =? 48) then false
  else if negb (bnth sig 1 =? n - 3) then false
  else
    let lenR := bnth sig 3 in
    if n <=? 5 + lenR then false
    else
      let lenS := bnth sig (5 + lenR) in
      if negb (lenR + lenS + 7 =? n) then false
      else if negb (bnth sig 2 =? 2) then false
      else if lenR =? 0 then false
      else if 128 <=? bnth sig 4 then false
      else if (1 <? lenR) && (bnth sig 4 =? 0) && (bnth sig 5 <? 128) then false
      else if negb (bnth sig (lenR + 4) =? 2) then false
      else if lenS =? 0 then false
      else if 128 <=? bnth sig (lenR + 6) then false
      else if (1 <? lenS) && (bnth sig (lenR + 6) =? 0) && (bnth sig (lenR + 7) <? 128) then false
      else true.

Definition is_defined_hashtype (sig : bytes) : bool :=
  match sig with
  | [] => false
  | _ => let h := Z.land (vlast sig) 127 (* & ~SIGHASH_ANYONECANPAY *) in (SIGHASH_ALL <=? h) && (h <=? SIGHASH_SINGLE)
  end.

(* CPubKey::CheckLowS is an oracle on the DER body (signature without the hash-type byte) *)
Definition is_compressed_or_uncompressed (k : bytes) : bool :=
  let n := zlen k in
  if n <? 33 then false
  else if bnth k 0 =? 4 then n =? 65
  else if (bnth k 0 =? 2) || (bnth k 0 =? 3) then n =? 33
  else false.
Definition is_compressed (k : bytes) : bool :=
  (zlen k =? 33) && ((bnth k 0 =? 2) || (bnth k 0 =? 3)).

Section Sig.
Variable low_s : bytes -> bool.   (* CPubKey::CheckLowS oracle *)

(* CheckSignatureEncoding: None = ok, Some err *)
Definition check_sig_encoding (flags : Z) (sig : bytes) : option Z :=
  match sig with
  | [] => None
  | _ =>
    if (has_flag flags SCRIPT_VERIFY_DERSIG || has_flag flags SCRIPT_VERIFY_LOW_S || has_flag flags SCRIPT_VERIFY_STRICTENC)
       && negb (is_valid_sig_encoding sig) then Some SCRIPT_ERR_SIG_DER
    else if has_flag flags SCRIPT_VERIFY_LOW_S
            && negb (is_valid_sig_encoding sig) then Some SCRIPT_ERR_SIG_DER   (* IsLowDERSignature, first test *)
    else if has_flag flags SCRIPT_VERIFY_LOW_S
            && negb (low_s (removelast sig)) then Some SCRIPT_ERR_SIG_HIGH_S
    else if has_flag flags SCRIPT_VERIFY_STRICTENC && negb (is_defined_hashtype sig) then Some SCRIPT_ERR_SIG_HASHTYPE
    else None
  end.

Definition check_pubkey_encoding (flags sigver : Z) (k : bytes) : option Z :=
  if has_flag flags SCRIPT_VERIFY_STRICTENC && negb (is_compressed_or_uncompressed k) then Some SCRIPT_ERR_PUBKEYTYPE
  else if has_flag flags SCRIPT_VERIFY_WITNESS_PUBKEYTYPE && (sigver =? SV_WITNESS_V0) && negb (is_compressed k)
       then Some SCRIPT_ERR_WITNESS_PUBKEYTYPE
  else None.

(* script code: CScript(pbegincodehash, pend) *)
Definition script_code (e : see) : option bytes := e_cb e.

(* EvalChecksigPreTapscript: returns (env, status, fSuccess) *)
Definition eval_checksig_pre (c : cfg) (e : see) (sig key : bytes) : see * status * bool :=
  match script_code e with
  | None => (e, SCrash CRASH_DANGLING, false)
  | Some code0 =>
    let '(code, fadfail) :=
        if c_sigver c =? SV_BASE then
          let '(sc, found) := find_and_delete code0 (push_data sig) in
          (sc, (0 <? found) && has_flag (c_flags c) SCRIPT_VERIFY_CONST_SCRIPTCODE)
        else (code0, false) in
    if fadfail then (set_err e SCRIPT_ERR_SIG_FINDANDDELETE, SErr, true)
    else match check_sig_encoding (c_flags c) sig with
    | Some err => (set_err e err, SErr, true)
    | None =>
      match check_pubkey_encoding (c_flags c) (c_sigver c) key with
      | Some err => (set_err e err, SErr, true)
      | None =>
        let fSuccess := k_ecdsa (c_chk c) sig key code (c_sigver c) in
        if negb fSuccess && has_flag (c_flags c) SCRIPT_VERIFY_NULLFAIL && negb (zlen sig =? 0)
        then (set_err e SCRIPT_ERR_SIG_NULLFAIL, SErr, fSuccess)
        else (e, SOk, fSuccess)
      end
    end
  end.

Definition eval_checksig_tapscript (c : cfg) (e : see) (sig key : bytes) : see * status * bool :=
  let success := negb (zlen sig =? 0) in
  let after_weight : see * bool (* failed? *) :=
      if success then
        if negb (ed_weight_init (e_ed e)) then (e, true)   (* assert(m_validation_weight_left_init) *)
        else
          let w := ed_weight_left (e_ed e) - VALIDATION_WEIGHT_PER_SIGOP_PASSED in
          (set_ed e (ed_set_weight (e_ed e) w), false)
      else (e, false) in
  let '(e1, assert_failed) := after_weight in
  if assert_failed then (e1, SCrash CRASH_ASSERT, success)
  else if success && cmp_eval site_weight_exhausted (ed_weight_left (e_ed e1)) 0 then (set_err e1 SCRIPT_ERR_TAPSCRIPT_VALIDATION_WEIGHT, SErr, success)
  else if zlen key =? 0 then (set_err e1 SCRIPT_ERR_PUBKEYTYPE, SErr, success)
  else if zlen key =? 32 then
    if success then
      let '(okv, err) := k_schnorr (c_chk c) sig key (c_sigver c) (e_ed e1) in
      if okv then (e1, SOk, success)
      else ((if err =? -1 then e1 else set_err e1 err), SErr, success)
    else (e1, SOk, success)
  else
    if has_flag (c_flags c) SCRIPT_VERIFY_DISCOURAGE_UPGRADABLE_PUBKEYTYPE
    then (set_err e1 SCRIPT_ERR_DISCOURAGE_UPGRADABLE_PUBKEYTYPE, SErr, success)
    else (e1, SOk, success).

(* EvalChecksig *)
Definition eval_checksig (c : cfg) (e : see) (sig key : bytes) : see * status * bool :=
  if pv_has_key c key && pv_match c sig key then (e, SOk, true)
  else if c_sigver c =? SV_TAPROOT then
    let '(okv, _) := k_schnorr (c_chk c) sig key SV_TAPROOT (e_ed e) in
    (e, (if okv then SOk else SErr), okv)     (* serror not passed: stays as it is *)
  else if (c_sigver c =? SV_BASE) || (c_sigver c =? SV_WITNESS_V0) then eval_checksig_pre c e sig key
  else eval_checksig_tapscript c e sig key.

(* OP_CHECKSIG / OP_CHECKSIGVERIFY *)
Definition op_checksig (c : cfg) (e : see) (opcode : Z) : see * status :=
  if ssize e <? 2 then fail e SCRIPT_ERR_INVALID_STACK_OPERATION
  else
    let '(e1, st, fSuccess) := eval_checksig c e (stop e 2) (stop e 1) in
    match st with
    | SOk =>
      let e2 := pushs (popn e1 2) (bool_vch fSuccess) in
      if opcode =? OP_CHECKSIGVERIFY then
        if fSuccess then ok (popn e2 1) else fail e2 SCRIPT_ERR_CHECKSIGVERIFY
      else ok e2
    | _ => (e1, st)
    end.

(* OP_CHECKSIGADD *)
Definition op_checksigadd (c : cfg) (e : see) : see * status :=
  if (c_sigver c =? SV_BASE) || (c_sigver c =? SV_WITNESS_V0) then fail e SCRIPT_ERR_BAD_OPCODE
  else if ssize e <? 3 then fail e SCRIPT_ERR_INVALID_STACK_OPERATION
  else match num_at c e 2 4 with
  | Exn x => (e, SExn x)
  | Crash x => (e, SCrash x)
  | Ok num =>
    let '(e1, st, success) := eval_checksig c e (stop e 3) (stop e 1) in
    match st with
    | SOk => ok (pushs (popn e1 3) (sn_serialize (num + b2z success)))
    | _ => (e1, st)
    end
  end.

(* OP_CHECKMULTISIG(VERIFY) *)
(* the verification loop: isig, ikey are 1-based positions from the top *)
Fixpoint multisig_loop (fuel : nat) (c : cfg) (e : see) (code : bytes) (isig ikey nSigs nKeys : Z)
  : see * status * bool :=
  match fuel with
  | O => (e, SOk, true)
  | S f =>
    if 0 <? nSigs then
      let sig := stop e (Z.to_nat isig) in
      let key := stop e (Z.to_nat ikey) in
      let step (fOk : bool) :=
          let isig' := if fOk then isig + 1 else isig in
          let nSigs' := if fOk then nSigs - 1 else nSigs in
          let ikey' := ikey + 1 in
          let nKeys' := nKeys - 1 in
          if nKeys' <? nSigs' then (e, SOk, false)      (* fSuccess = false; remaining sigs only logged *)
          else multisig_loop f c e code isig' ikey' nSigs' nKeys' in
      if pv_has_key c key then step (pv_match c sig key)
      else match check_sig_encoding (c_flags c) sig with
      | Some err => (set_err e err, SErr, true)
      | None =>
        match check_pubkey_encoding (c_flags c) (c_sigver c) key with
        | Some err => (set_err e err, SErr, true)
        | None => step (k_ecdsa (c_chk c) sig key code (c_sigver c))
        end
      end
    else (e, SOk, true)
  end.

(* FindAndDelete of every signature *)
(* [keys]: the public keys of the operation; a signature mocked for one of them is exempt from the CONST_SCRIPTCODE error *)
Fixpoint multisig_fad (c : cfg) (keys : list bytes) (code : bytes) (sigs : list bytes) : bytes * bool :=
  match sigs with
  | [] => (code, false)
  | s :: r =>
      if c_sigver c =? SV_BASE then
        let '(code', found) := find_and_delete code (push_data s) in
        let mocked := match pv_lookup (c_pv_map c) s with Some k => existsb (bytes_eqb k) keys | None => false end in
        if (0 <? found) && has_flag (c_flags c) SCRIPT_VERIFY_CONST_SCRIPTCODE && negb mocked then (code', true)
        else multisig_fad c keys code' r
      else multisig_fad c keys code r
  end.

(* the clean-up loop [while (i-- > 1)]: pops i-1 items, with the NULLFAIL test on the signature items *)
Fixpoint multisig_cleanup (n : nat) (c : cfg) (e : see) (fSuccess : bool) (ikey2 : Z) : see * status :=
  match n with
  | O => ok e
  | S m =>
      if negb fSuccess && has_flag (c_flags c) SCRIPT_VERIFY_NULLFAIL && (ikey2 =? 0) && negb (zlen (stop e 1) =? 0)
      then fail e SCRIPT_ERR_SIG_NULLFAIL
      else multisig_cleanup m c (popn e 1) fSuccess (if 0 <? ikey2 then ikey2 - 1 else ikey2)
  end.

(* the tail of OP_CHECKMULTISIG(VERIFY): the dummy element (the famous extra stack item) and the result *)
Definition multisig_finish (c : cfg) (e2 : see) (fSuccess : bool) (opcode : Z) : see * status :=
  if ssize e2 <? 1 then fail e2 SCRIPT_ERR_INVALID_STACK_OPERATION
  else if has_flag (c_flags c) SCRIPT_VERIFY_NULLDUMMY && negb (zlen (stop e2 1) =? 0)
       then fail e2 SCRIPT_ERR_SIG_NULLDUMMY
  else
    let e3 := pushs (popn e2 1) (bool_vch fSuccess) in
    if opcode =? OP_CHECKMULTISIGVERIFY then
      if fSuccess then ok (popn e3 1) else fail e3 SCRIPT_ERR_CHECKMULTISIGVERIFY
    else ok e3.

Definition op_checkmultisig (c : cfg) (e : see) (opcode : Z) : see * status :=
  if c_sigver c =? SV_TAPSCRIPT then fail e SCRIPT_ERR_TAPSCRIPT_CHECKMULTISIG
  else if ssize e <? 1 then fail e SCRIPT_ERR_INVALID_STACK_OPERATION
  else match num_at c e 1 4 with
  | Exn x => (e, SExn x) | Crash x => (e, SCrash x)
  | Ok kraw =>
    let nKeys := sn_getint kraw in
    if (nKeys <? 0) || cmp_eval site_pubkey_count nKeys MAX_PUBKEYS_PER_MULTISIG then fail e SCRIPT_ERR_PUBKEY_COUNT
    else
      let e := set_ops e (e_ops e + nKeys) in
      if cmp_eval site_multisig_opcount (e_ops e) MAX_OPS_PER_SCRIPT then fail e SCRIPT_ERR_OP_COUNT
      else
        let ikey := 2 in
        let ikey2 := nKeys + 2 in
        let i := 2 + nKeys in
        if ssize e <? i then fail e SCRIPT_ERR_INVALID_STACK_OPERATION
        else match num_at c e (Z.to_nat i) 4 with
        | Exn x => (e, SExn x) | Crash x => (e, SCrash x)
        | Ok sraw =>
          let nSigs := sn_getint sraw in
          if (nSigs <? 0) || (nKeys <? nSigs) then fail e SCRIPT_ERR_SIG_COUNT
          else
            let isig := i + 1 in
            let i := i + 1 + nSigs in
            if ssize e <? i then fail e SCRIPT_ERR_INVALID_STACK_OPERATION
            else match script_code e with
            | None => (e, SCrash CRASH_DANGLING)
            | Some code0 =>
              let sigs := firstn (Z.to_nat nSigs) (skipn (Z.to_nat (isig - 1)) (e_stack e)) in
              let keys := firstn (Z.to_nat nKeys) (skipn (Z.to_nat (ikey - 1)) (e_stack e)) in
              let '(code, fadfail) := multisig_fad c keys code0 sigs in
              if fadfail then fail e SCRIPT_ERR_SIG_FINDANDDELETE
              else
                let '(e1, st, fSuccess) := multisig_loop (S (Z.to_nat nKeys)) c e code isig ikey nSigs nKeys in
                match st with
                | SOk =>
                  match multisig_cleanup (Z.to_nat (i - 1)) c e1 fSuccess ikey2 with
                  | (e2, SOk) => multisig_finish c e2 fSuccess opcode
                  | r => r
                  end
                | _ => (e1, st)
                end
            end
        end
  end.
End Sig.

(* ------------------------------------------------------------ StepExtended (re-enabled opcodes) *)
Definition INT64_MAX := 9223372036854775807.
Definition INT64_MIN := -9223372036854775808.
Definition in_int64 (v : Z) : bool := (INT64_MIN <=? v) && (v <=? INT64_MAX).
(* results of OP_MUL / OP_LSHIFT must fit the symmetric range: |v| <= INT64_MAX *)
Definition in_sym64 (v : Z) : bool := Z.abs v <=? INT64_MAX.

(* bytewise helpers *)
Fixpoint map2 (f : Z -> Z -> Z) (a b : bytes) : bytes :=
  match a, b with x :: a', y :: b' => f x y :: map2 f a' b' | _, _ => [] end.
(* OP_2MUL: byte string shifted left by one bit, carry appended *)
Fixpoint shl1_bytes (l : bytes) (carry : Z) : bytes :=
  match l with
  | [] => if carry =? 0 then [] else [carry]
  | b :: r => let v := 2 * b + carry in (v mod 256) :: shl1_bytes r (v / 256)
  end.

Definition with_num (c : cfg) (v : bytes) (maxsz : nat) (e : see) (k : Z -> see * status) : see * status :=
  match sn_ctor v (req_minimal c) maxsz with
  | Ok n => k n | Exn x => (e, SExn x) | Crash x => (e, SCrash x)
  end.

Definition step_extended (c : cfg) (e : see) (opcode : Z) : see * status :=
  if opcode =? OP_CAT then
    if ssize e <? 2 then fail e SCRIPT_ERR_INVALID_STACK_OPERATION
    else ok (pushs (popn e 2) (stop e 2 ++ stop e 1))
  else if opcode =? OP_SUBSTR then
    if ssize e <? 3 then fail e SCRIPT_ERR_INVALID_STACK_OPERATION
    else
      let vch1 := stop e 3 in
      with_num c (stop e 2) 2 e (fun begin =>
        if begin <? 0 then fail e SCRIPT_ERR_UNKNOWN_ERROR
        else with_num c (stop e 1) 2 e (fun size =>
          if (size <? 0) || (zlen vch1 <? begin + size) then fail e SCRIPT_ERR_UNKNOWN_ERROR
          else
            let v1 := if 0 <? begin then skipn (Z.to_nat begin) vch1 else vch1 in
            let v2 := if size <? zlen v1 then firstn (Z.to_nat size) v1 else v1 in
            ok (pushs (popn e 3) v2)))
  else if (opcode =? OP_LEFT) || (opcode =? OP_RIGHT) then
    if ssize e <? 2 then fail e SCRIPT_ERR_INVALID_STACK_OPERATION
    else
      let vch1 := stop e 2 in
      with_num c (stop e 1) 2 e (fun size =>
        if (size <? 0) || (zlen vch1 <? size) then fail e SCRIPT_ERR_UNKNOWN_ERROR
        else
          let v := if size <? zlen vch1 then
                     (if opcode =? OP_LEFT then firstn (Z.to_nat size) vch1
                      else skipn (Z.to_nat (zlen vch1 - size)) vch1)
                   else vch1 in
          ok (pushs (popn e 2) v))
  else if opcode =? OP_INVERT then
    if ssize e <? 1 then fail e SCRIPT_ERR_INVALID_STACK_OPERATION
    else ok (pushs (popn e 1) (map (fun b => 255 - b) (stop e 1)))
  else if (opcode =? OP_AND) || (opcode =? OP_OR) || (opcode =? OP_XOR) then
    if ssize e <? 2 then fail e SCRIPT_ERR_INVALID_STACK_OPERATION
    else
      let vch1 := stop e 2 in let vch2 := stop e 1 in
      if negb (zlen vch1 =? zlen vch2) then fail e SCRIPT_ERR_UNKNOWN_ERROR
      else
        let r := if opcode =? OP_AND then map2 Z.land vch1 vch2
                 else if opcode =? OP_OR then map2 Z.lor vch1 vch2
                 else map2 Z.lxor vch1 vch2 in
        ok (pushs (popn e 2) r)
  else if (opcode =? OP_2MUL) || (opcode =? OP_2DIV) then
    if ssize e <? 1 then fail e SCRIPT_ERR_INVALID_STACK_OPERATION
    else with_num c (stop e 1) 5 e (fun a =>
           ok (pushs (popn e 1) (sn_serialize (if opcode =? OP_2MUL then a + a else Z.quot a 2))))
  else if (opcode =? OP_MUL) || (opcode =? OP_DIV) || (opcode =? OP_MOD) || (opcode =? OP_LSHIFT) || (opcode =? OP_RSHIFT) then
    if ssize e <? 2 then fail e SCRIPT_ERR_INVALID_STACK_OPERATION
    else
      with_num c (stop e 2) 5 e (fun a =>
        with_num c (stop e 1) 5 e (fun b =>
          let fin (r : Z) := ok (pushs (popn e 2) (sn_serialize r)) in
          if opcode =? OP_MUL then
            (if in_sym64 (a * b) then fin (a * b) else fail e SCRIPT_ERR_UNKNOWN_ERROR)
          else if opcode =? OP_DIV then
            (if b =? 0 then fail e SCRIPT_ERR_UNKNOWN_ERROR else fin (Z.quot a b))
          else if opcode =? OP_MOD then
            (if b =? 0 then fail e SCRIPT_ERR_UNKNOWN_ERROR else fin (Z.rem a b))
          else if opcode =? OP_LSHIFT then
            (if (b <? 0) || (63 <? b) || negb (in_sym64 (a * 2 ^ b)) then fail e SCRIPT_ERR_UNKNOWN_ERROR
             else fin (a * 2 ^ b))
          else
            (if (b <? 0) || (63 <? b) then fail e SCRIPT_ERR_UNKNOWN_ERROR else fin (a / 2 ^ b))))
  else (* default: assert(0); unreachable for the opcodes of the gate list *)
    (e, SCrash CRASH_ASSERT).

(* ------------------------------------------------------------ the opcode switch *)
Definition is_extended_op (o : Z) : bool := existsb (Z.eqb o) disabled_gate.

Section Step.
Variable low_s : bytes -> bool.

Definition hash_op (c : cfg) (opcode : Z) (v : bytes) : bytes :=
  let H := c_hash c in
  if opcode =? OP_RIPEMD160 then h_ripemd160 H v
  else if opcode =? OP_SHA1 then h_sha1 H v
  else if opcode =? OP_SHA256 then h_sha256 H v
  else if opcode =? OP_HASH160 then h_ripemd160 H (h_sha256 H v)
  else h_sha256 H (h_sha256 H v).

Definition need (e : see) (n : Z) (err : Z) (k : see * status) : see * status :=
  if ssize e <? n then fail e err else k.

(* the body of [switch (opcode)]; [pc'] is the iterator after the instruction when it lies in env.script
   (needed by OP_CODESEPARATOR); None for an instruction of exec's temporary script, which leaves
   pbegincodehash where it is *)
Definition exec_opcode (c : cfg) (e : see) (opcode : Z) (fExec : bool) (pc' : option bytes) : see * status :=
  let ISO := SCRIPT_ERR_INVALID_STACK_OPERATION in
  if is_extended_op opcode then step_extended c e opcode
  else if (opcode =? OP_1NEGATE) || ((OP_1 <=? opcode) && (opcode <=? OP_16)) then
    ok (pushs e (sn_serialize (opcode - (OP_1 - 1))))
  else if opcode =? OP_NOP then ok e
  else if opcode =? OP_CHECKLOCKTIMEVERIFY then
    if negb (has_flag (c_flags c) SCRIPT_VERIFY_CHECKLOCKTIMEVERIFY) then ok e
    else need e 1 ISO
      (with_num c (stop e 1) (Z.to_nat numsize_cltv) e (fun n =>
         if n <? 0 then fail e SCRIPT_ERR_NEGATIVE_LOCKTIME
         else if negb (k_locktime (c_chk c) n) then fail e SCRIPT_ERR_UNSATISFIED_LOCKTIME
         else ok e))
  else if opcode =? OP_CHECKSEQUENCEVERIFY then
    if negb (has_flag (c_flags c) SCRIPT_VERIFY_CHECKSEQUENCEVERIFY) then ok e
    else need e 1 ISO
      (with_num c (stop e 1) (Z.to_nat numsize_csv) e (fun n =>
         if n <? 0 then fail e SCRIPT_ERR_NEGATIVE_LOCKTIME
         else if negb (Z.land n SEQUENCE_LOCKTIME_DISABLE_FLAG =? 0) then ok e
         else if negb (k_sequence (c_chk c) n) then fail e SCRIPT_ERR_UNSATISFIED_LOCKTIME
         else ok e))
  else if (opcode =? OP_NOP1) || ((OP_NOP4 <=? opcode) && (opcode <=? OP_NOP10)) then
    if has_flag (c_flags c) SCRIPT_VERIFY_DISCOURAGE_UPGRADABLE_NOPS then fail e SCRIPT_ERR_DISCOURAGE_UPGRADABLE_NOPS else ok e
  else if (opcode =? OP_IF) || (opcode =? OP_NOTIF) then
    if fExec then
      if ssize e <? 1 then fail e SCRIPT_ERR_UNBALANCED_CONDITIONAL
      else
        let vch := stop e 1 in
        let nonmin := (1 <? zlen vch) || ((zlen vch =? 1) && negb (hd 0 vch =? 1)) in
        if (c_sigver c =? SV_TAPSCRIPT) && nonmin then fail e SCRIPT_ERR_TAPSCRIPT_MINIMALIF
        else if (c_sigver c =? SV_WITNESS_V0) && has_flag (c_flags c) SCRIPT_VERIFY_MINIMALIF && nonmin then fail e SCRIPT_ERR_MINIMALIF
        else
          let fValue := if opcode =? OP_NOTIF then negb (cast_to_bool vch) else cast_to_bool vch in
          let e1 := popn e 1 in
          ok (set_cond e1 (cs_push (e_cond e1) fValue))
    else ok (set_cond e (cs_push (e_cond e) false))
  else if opcode =? OP_ELSE then
    if cs_empty (e_cond e) then fail e SCRIPT_ERR_UNBALANCED_CONDITIONAL
    else ok (set_cond e (cs_toggle (e_cond e)))
  else if opcode =? OP_ENDIF then
    if cs_empty (e_cond e) then fail e SCRIPT_ERR_UNBALANCED_CONDITIONAL
    else ok (set_cond e (cs_pop (e_cond e)))
  else if opcode =? OP_VERIFY then
    need e 1 ISO (if cast_to_bool (stop e 1) then ok (popn e 1) else fail e SCRIPT_ERR_VERIFY)
  else if opcode =? OP_RETURN then fail e SCRIPT_ERR_OP_RETURN
  else if opcode =? OP_TOALTSTACK then
    need e 1 ISO (ok (popn (set_alt e (stop e 1 :: e_alt e)) 1))
  else if opcode =? OP_FROMALTSTACK then
    match e_alt e with
    | [] => fail e SCRIPT_ERR_INVALID_ALTSTACK_OPERATION
    | a :: r => ok (set_alt (pushs e a) r)
    end
  else if opcode =? OP_2DROP then need e 2 ISO (ok (popn e 2))
  else if opcode =? OP_2DUP then need e 2 ISO (ok (pushs (pushs e (stop e 2)) (stop e 1)))
  else if opcode =? OP_3DUP then need e 3 ISO (ok (pushs (pushs (pushs e (stop e 3)) (stop e 2)) (stop e 1)))
  else if opcode =? OP_2OVER then need e 4 ISO (ok (pushs (pushs e (stop e 4)) (stop e 3)))
  else if opcode =? OP_2ROT then
    need e 6 ISO
      (let v1 := stop e 6 in let v2 := stop e 5 in
       let s := firstn 4 (e_stack e) ++ skipn 6 (e_stack e) in     (* erase(end-6, end-4) *)
       ok (pushs (pushs (set_stack e s) v1) v2))
  else if opcode =? OP_2SWAP then
    need e 4 ISO
      (let s := e_stack e in
       let s1 := set_nth 1 (set_nth 3 s (nth 1 s [])) (nth 3 s []) in      (* swap(top(-4), top(-2)) *)
       let s2 := set_nth 0 (set_nth 2 s1 (nth 0 s1 [])) (nth 2 s1 []) in    (* swap(top(-3), top(-1)) *)
       ok (set_stack e s2))
  else if opcode =? OP_IFDUP then
    need e 1 ISO (if cast_to_bool (stop e 1) then ok (pushs e (stop e 1)) else ok e)
  else if opcode =? OP_DEPTH then ok (pushs e (sn_serialize (ssize e)))
  else if opcode =? OP_DROP then need e 1 ISO (ok (popn e 1))
  else if opcode =? OP_DUP then need e 1 ISO (ok (pushs e (stop e 1)))
  else if opcode =? OP_NIP then need e 2 ISO (ok (set_stack e (erase_nth 1 (e_stack e))))
  else if opcode =? OP_OVER then need e 2 ISO (ok (pushs e (stop e 2)))
  else if (opcode =? OP_PICK) || (opcode =? OP_ROLL) then
    need e 2 ISO
      (with_num c (stop e 1) 4 e (fun raw =>
         let n := sn_getint raw in
         let e1 := popn e 1 in
         if (n <? 0) || (ssize e1 <=? n) then fail e1 ISO
         else
           let vch := stop e1 (Z.to_nat (n + 1)) in
           let e2 := if opcode =? OP_ROLL then set_stack e1 (erase_nth (Z.to_nat n) (e_stack e1)) else e1 in
           ok (pushs e2 vch)))
  else if opcode =? OP_ROT then
    need e 3 ISO
      (let s := e_stack e in
       let s1 := set_nth 1 (set_nth 2 s (nth 1 s [])) (nth 2 s []) in       (* swap(top(-3), top(-2)) *)
       let s2 := set_nth 0 (set_nth 1 s1 (nth 0 s1 [])) (nth 1 s1 []) in     (* swap(top(-2), top(-1)) *)
       ok (set_stack e s2))
  else if opcode =? OP_SWAP then
    need e 2 ISO
      (let s := e_stack e in ok (set_stack e (set_nth 0 (set_nth 1 s (nth 0 s [])) (nth 1 s []))))
  else if opcode =? OP_TUCK then
    need e 2 ISO (ok (set_stack e (insert_below 2 (e_stack e) (stop e 1))))
  else if opcode =? OP_SIZE then need e 1 ISO (ok (pushs e (sn_serialize (zlen (stop e 1)))))
  else if (opcode =? OP_EQUAL) || (opcode =? OP_EQUALVERIFY) then
    need e 2 ISO
      (let fEqual := bytes_eqb (stop e 2) (stop e 1) in
       let e1 := pushs (popn e 2) (bool_vch fEqual) in
       if opcode =? OP_EQUALVERIFY then (if fEqual then ok (popn e1 1) else fail e1 SCRIPT_ERR_EQUALVERIFY) else ok e1)
  else if (opcode =? OP_1ADD) || (opcode =? OP_1SUB) || (opcode =? OP_NEGATE) || (opcode =? OP_ABS) || (opcode =? OP_NOT) || (opcode =? OP_0NOTEQUAL) then
    need e 1 ISO
      (match num_at c e 1 (Z.to_nat nDefaultMaxNumSize) with
       | Ok bn => match unary_num opcode bn with
                  | Some r => ok (pushs (popn e 1) (sn_serialize r))
                  | None => (e, SCrash CRASH_ASSERT)
                  end
       | Exn x => (e, SExn x) | Crash x => (e, SCrash x)
       end)
  else if ((OP_ADD <=? opcode) && (opcode <=? OP_SUB)) || ((OP_BOOLAND <=? opcode) && (opcode <=? OP_MAX)) then
    need e 2 ISO
      (match num_at c e 2 (Z.to_nat nDefaultMaxNumSize) with
       | Exn x => (e, SExn x) | Crash x => (e, SCrash x)
       | Ok bn1 =>
         match num_at c e 1 (Z.to_nat nDefaultMaxNumSize) with
         | Exn x => (e, SExn x) | Crash x => (e, SCrash x)
         | Ok bn2 =>
           match binary_num opcode bn1 bn2 with
           | None => (e, SCrash CRASH_ASSERT)
           | Some r =>
             let e1 := pushs (popn e 2) (sn_serialize r) in
             if opcode =? OP_NUMEQUALVERIFY then
               (if cast_to_bool (stop e1 1) then ok (popn e1 1) else fail e1 SCRIPT_ERR_NUMEQUALVERIFY)
             else ok e1
           end
         end
       end)
  else if opcode =? OP_WITHIN then
    need e 3 ISO
      (match num_at c e 3 (Z.to_nat nDefaultMaxNumSize) with
       | Exn x => (e, SExn x) | Crash x => (e, SCrash x)
       | Ok bn1 =>
         match num_at c e 2 (Z.to_nat nDefaultMaxNumSize) with
         | Exn x => (e, SExn x) | Crash x => (e, SCrash x)
         | Ok bn2 =>
           match num_at c e 1 (Z.to_nat nDefaultMaxNumSize) with
           | Exn x => (e, SExn x) | Crash x => (e, SCrash x)
           | Ok bn3 => ok (pushs (popn e 3) (bool_vch (within_num bn1 bn2 bn3)))
           end
         end
       end)
  else if (OP_RIPEMD160 <=? opcode) && (opcode <=? OP_HASH256) then
    need e 1 ISO (ok (pushs (popn e 1) (hash_op c opcode (stop e 1))))
  else if opcode =? OP_CODESEPARATOR then
    ok (set_ed (match pc' with Some p => set_cb e (Some p) | None => e end) (ed_set_codesep (e_ed e) (e_pos e)))
  else if (opcode =? OP_CHECKSIG) || (opcode =? OP_CHECKSIGVERIFY) then op_checksig low_s c e opcode
  else if opcode =? OP_CHECKSIGADD then op_checksigadd low_s c e
  else if (opcode =? OP_CHECKMULTISIG) || (opcode =? OP_CHECKMULTISIGVERIFY) then op_checkmultisig low_s c e opcode
  else fail e SCRIPT_ERR_BAD_OPCODE.

(* StepScript(env, pc, local_script): [pc] is the iterator (suffix of the script being read);
   [local] tells whether the instruction comes from exec's temporary script (then an executed
   OP_CODESEPARATOR leaves pbegincodehash dangling). Returns the new env, the new iterator, the status. *)
Definition step_script (c : cfg) (e : see) (pc : bytes) (local : bool) : see * bytes * status :=
  let fExec := cs_all_true (e_cond e) in
  match get_op pc with
  | (None, pc') => (set_err e SCRIPT_ERR_BAD_OPCODE, pc', SErr)
  | (Some (opcode, push), pc') =>
    if cmp_eval site_push_size (zlen push) MAX_SCRIPT_ELEMENT_SIZE then (set_err e SCRIPT_ERR_PUSH_SIZE, pc', SErr)
    else
      let count := ((c_sigver c =? SV_BASE) || (c_sigver c =? SV_WITNESS_V0)) && cmp_eval (fst site_opcount_threshold) opcode (snd site_opcount_threshold) in
      let e0 := if count then set_ops e (e_ops e + 1) else e in
      if count && cmp_eval site_opcount (e_ops e0) MAX_OPS_PER_SCRIPT then (set_err e0 SCRIPT_ERR_OP_COUNT, pc', SErr)
      else if gate_before_exec && negb (c_allow_disabled c) && is_extended_op opcode then (set_err e0 SCRIPT_ERR_DISABLED_OPCODE, pc', SErr)
      else if (opcode =? OP_CODESEPARATOR) && (c_sigver c =? SV_BASE) && has_flag (c_flags c) SCRIPT_VERIFY_CONST_SCRIPTCODE
           then (set_err e0 SCRIPT_ERR_OP_CODESEPARATOR, pc', SErr)
      else
        let '(e1, st) :=
            if fExec && (0 <=? opcode) && (opcode <=? OP_PUSHDATA4) then
              if req_minimal c && negb (check_minimal_push push opcode) then fail e0 SCRIPT_ERR_MINIMALDATA
              else ok (pushs e0 push)
            else if fExec || ((OP_IF <=? opcode) && (opcode <=? OP_ENDIF)) then
              if negb gate_before_exec && negb (c_allow_disabled c) && is_extended_op opcode then fail e0 SCRIPT_ERR_DISABLED_OPCODE
              else exec_opcode c e0 opcode fExec (if local then None else Some pc')
            else ok e0 in
        match st with
        | SOk =>
          if cmp_eval site_stack_size (ssize e1 + llen (e_alt e1)) MAX_STACK_SIZE then (set_err e1 SCRIPT_ERR_STACK_SIZE, pc', SErr)
          else (e1, pc', SOk)
        | _ => (e1, pc', st)
        end
  end.
End Step.
