(* C09 proofs: the flag table, exact set/clear semantics of --modify-flags, the default list, restrictive flag tests. *)
From Coq Require Import ZifyBool.
From BV Require Import Base BaseProofs Value Transforms Cli.
From BV.Gen Require Import Consts CliTables.
Local Open Scope Z_scope.

(* ---------- the table: 21 distinct names, distinct single-bit values, exactly the flags of the enum *)
Fixpoint nodup_str (l : list str) : bool :=
  match l with [] => true | x :: r => negb (existsb (str_eqb x) r) && nodup_str r end.
Fixpoint nodup_z (l : list Z) : bool :=
  match l with [] => true | x :: r => negb (existsb (Z.eqb x) r) && nodup_z r end.
Definition single_bit (f : Z) : bool := (0 <? f) && (f =? 2 ^ Z.log2 f).
Definition table_ok : bool :=
  (length svf_table =? 21)%nat && nodup_str (map fst svf_table) && nodup_z (map snd svf_table)
  && forallb single_bit (map snd svf_table)
  && forallb (fun f => existsb (Z.eqb f) (map snd svf_table)) all_verify_flags
  && forallb (fun f => existsb (Z.eqb f) all_verify_flags) (map snd svf_table).
Lemma table_ok_true : table_ok = true. Proof. vm_compute. reflexivity. Qed.

(* ---------- setting / clearing one bit touches exactly that bit *)
Lemma set_bit_exact flags k j : 0 <= k -> 0 <= j -> Z.testbit (Z.lor flags (2 ^ k)) j = Z.testbit flags j || (j =? k).
Proof. intros Hk Hj. rewrite Z.lor_spec, Z.pow2_bits_eqb by lia. f_equal. destruct (Z.eqb_spec k j); destruct (Z.eqb_spec j k); try reflexivity; lia. Qed.
Lemma clear_bit_exact flags k j : 0 <= k -> 0 <= j -> Z.testbit (Z.land flags (Z.lnot (2 ^ k))) j = Z.testbit flags j && negb (j =? k).
Proof. intros Hk Hj. rewrite Z.land_spec, Z.lnot_spec, Z.pow2_bits_eqb by lia. f_equal. destruct (Z.eqb_spec k j); destruct (Z.eqb_spec j k); try reflexivity; lia. Qed.

(* ---------- parsing: a list of +NAME / -NAME tokens folds set / clear over the initial flags *)
Definition apply_mod (flags : Z) (m : bool * Z) : Z := if fst m then Z.lor flags (snd m) else Z.land flags (Z.lnot (snd m)).
Definition mod_token (name : str) (add : bool) : str := (if add then 43 else 45) :: name.

Lemma svf_apply_known toks flags name add f :
  assoc_s svf_table name = Some f -> f <> 0 -> zlen (mod_token name add) < svf_buf_size ->
  svf_apply (mod_token name add :: toks) flags = svf_apply toks (apply_mod flags (add, f)).
Proof.
  intros Ha Hf Hl. cbn [svf_apply]. change svf_buf_bounded with true. cbn [negb andb].
  replace (svf_buf_size <=? zlen (mod_token name add)) with false by lia.
  unfold mod_token at 1. unfold svf_get_flag. rewrite Ha. replace (f =? 0) with false by lia.
  unfold apply_mod. cbn [fst snd]. destruct add; reflexivity.
Qed.

Lemma svf_apply_unknown toks flags name sign : assoc_s svf_table name = None -> svf_apply ((sign :: name) :: toks) flags = None.
Proof.
  intros Ha. cbn [svf_apply]. change svf_buf_bounded with true. cbn [negb andb].
  destruct (svf_buf_size <=? zlen (sign :: name)); [reflexivity|].
  destruct ((sign =? 43) || (sign =? 45)); [|reflexivity]. unfold svf_get_flag. rewrite Ha. reflexivity.
Qed.

Lemma svf_apply_nosign toks flags c name : c <> 43 -> c <> 45 -> svf_apply ((c :: name) :: toks) flags = None.
Proof.
  intros H1 H2. cbn [svf_apply]. change svf_buf_bounded with true. cbn [negb andb].
  destruct (svf_buf_size <=? zlen (c :: name)); [reflexivity|].
  replace ((c =? 43) || (c =? 45)) with false. reflexivity.
  symmetry. apply Bool.orb_false_iff. split; apply Z.eqb_neq; assumption.
Qed.

Lemma svf_apply_empty_token toks flags : svf_apply ([] :: toks) flags = None.
Proof. reflexivity. Qed.

(* comma splitting is the inverse of joining comma-free tokens *)
Fixpoint join_commas (toks : list str) : str :=
  match toks with [] => [] | [t] => t | t :: r => t ++ 44 :: join_commas r end.
Lemma split_commas_app cur t rest : ~ In 44 t -> split_commas (t ++ rest) cur = split_commas rest (rev t ++ cur).
Proof.
  revert cur. induction t as [|c r IH]; intros cur Hn. reflexivity.
  cbn [app split_commas]. replace (c =? 44) with false. 2: { symmetry. apply Z.eqb_neq. intro Hc. apply Hn. left. exact Hc. }
  rewrite IH. cbn [rev]. rewrite <- app_assoc. reflexivity. intro Hc. apply Hn. right. exact Hc.
Qed.
Lemma split_join toks : toks <> [] -> Forall (fun t => ~ In 44 t) toks -> split_commas (join_commas toks) [] = toks.
Proof.
  induction toks as [|t r IH]; intros Hne Hf. contradiction.
  inversion Hf as [|? ? Ht Hr]; subst. destruct r as [|t2 r2].
  - cbn [join_commas]. rewrite <- (app_nil_r t) at 1. rewrite split_commas_app by assumption. cbn [split_commas]. rewrite app_nil_r, rev_involutive. reflexivity.
  - change (join_commas (t :: t2 :: r2)) with (t ++ 44 :: join_commas (t2 :: r2)).
    rewrite split_commas_app by assumption. cbn [split_commas]. replace (44 =? 44) with true by reflexivity.
    rewrite app_nil_r, rev_involutive. f_equal. apply IH. discriminate. exact Hr.
Qed.

(* ---------- --default-flags: the listed names are exactly the flags of STANDARD_SCRIPT_VERIFY_FLAGS *)
Definition default_list_ok : bool :=
  forallb (fun '(name, f) => Bool.eqb (existsb (str_eqb name) (svf_names STANDARD_SCRIPT_VERIFY_FLAGS)) (existsb (Z.eqb f) standard_flag_list)) svf_table
  && (Z.of_nat (length (svf_names STANDARD_SCRIPT_VERIFY_FLAGS)) =? Z.of_nat (length standard_flag_list))
  && (STANDARD_SCRIPT_VERIFY_FLAGS =? fold_left Z.lor standard_flag_list 0)
  && (main_initial_flags =? STANDARD_SCRIPT_VERIFY_FLAGS).
Lemma default_list_ok_true : default_list_ok = true. Proof. vm_compute. reflexivity. Qed.

(* ---------- every test of a verification flag in the executed interpreter code has a restrictive shape *)
Definition restrictive (s : flag_shape) : bool := match s with OtherShape => false | _ => true end.
Lemma flag_sites_restrictive : forallb (fun s => restrictive (snd s)) flag_sites = true.
Proof. vm_compute. reflexivity. Qed.

(* ---------- monotonicity of the individual flag-dependent checks: if the check passes under B it passes under A <= B *)
From BV Require Import ScriptNum ScriptNumProofs Script Interp.
Definition flags_sub (A B : Z) : Prop := forall f, has_flag A f = true -> has_flag B f = true.

Lemma has_flag_false_sub A B f : flags_sub A B -> has_flag B f = false -> has_flag A f = false.
Proof. intros Hs Hb. destruct (has_flag A f) eqn:E; auto. apply Hs in E. congruence. Qed.

Lemma sn_ctor_monotone v n z : sn_ctor v true n = Ok z -> sn_ctor v false n = Ok z.
Proof.
  unfold sn_ctor. destruct (n <? length v)%nat; [discriminate|]. cbn [andb]. destruct (sn_nonminimal v); [discriminate|]. auto.
Qed.

Section Mono.
Variable low_s : bytes -> bool.
Lemma check_sig_encoding_monotone A B sig : flags_sub A B ->
  check_sig_encoding low_s B sig = None -> check_sig_encoding low_s A sig = None.
Proof.
  intros Hs. unfold check_sig_encoding. destruct sig as [|b r]; [auto|].
  set (s := b :: r).
  destruct (has_flag B SCRIPT_VERIFY_DERSIG) eqn:Bd; destruct (has_flag B SCRIPT_VERIFY_LOW_S) eqn:Bl; destruct (has_flag B SCRIPT_VERIFY_STRICTENC) eqn:Bs;
  destruct (has_flag A SCRIPT_VERIFY_DERSIG) eqn:Ad; destruct (has_flag A SCRIPT_VERIFY_LOW_S) eqn:Al; destruct (has_flag A SCRIPT_VERIFY_STRICTENC) eqn:As_;
  try (apply Hs in Ad; congruence); try (apply Hs in Al; congruence); try (apply Hs in As_; congruence);
  cbn [orb andb]; destruct (is_valid_sig_encoding s); cbn [negb andb]; try discriminate; auto;
  destruct (low_s (removelast s)); cbn [negb andb]; try discriminate; auto;
  destruct (is_defined_hashtype s); cbn [negb]; try discriminate; auto.
Qed.

Lemma check_pubkey_encoding_monotone A B sv k : flags_sub A B ->
  check_pubkey_encoding B sv k = None -> check_pubkey_encoding A sv k = None.
Proof.
  intros Hs. unfold check_pubkey_encoding.
  destruct (has_flag B SCRIPT_VERIFY_STRICTENC) eqn:Bs; destruct (has_flag B SCRIPT_VERIFY_WITNESS_PUBKEYTYPE) eqn:Bw;
  destruct (has_flag A SCRIPT_VERIFY_STRICTENC) eqn:As_; destruct (has_flag A SCRIPT_VERIFY_WITNESS_PUBKEYTYPE) eqn:Aw;
  try (apply Hs in As_; congruence); try (apply Hs in Aw; congruence);
  cbn [andb]; destruct (is_compressed_or_uncompressed k); cbn [negb andb]; try discriminate; auto;
  destruct (sv =? SV_WITNESS_V0); cbn [andb]; destruct (is_compressed k); cbn [negb]; try discriminate; auto.
Qed.
End Mono.
