(* Proofs about the codec models of Codecs.v *)
From BV Require Import Base BaseProofs Codecs.
Local Open Scope Z_scope.
Ltac Zify.zify_post_hook ::= Z.div_mod_to_equations.

(* ========================================================================================== *)
(* generic list facts                                                                         *)

Lemma take_drop_while {A} (p : A -> bool) l : take_while p l ++ drop_while p l = l.
Proof. induction l as [|x r IH]; cbn; [reflexivity|]. destruct (p x); cbn; [f_equal; exact IH|reflexivity]. Qed.

Lemma take_while_sat {A} (p : A -> bool) l x : In x (take_while p l) -> p x = true.
Proof.
  induction l as [|y r IH]; cbn; [tauto|]. destruct (p y) eqn:E; cbn; [|tauto].
  intros [H|H]; [subst; exact E|auto].
Qed.

Definition head_fails {A} (p : A -> bool) (l : list A) : Prop :=
  match l with [] => True | x :: _ => p x = false end.

Lemma drop_while_head_fails {A} (p : A -> bool) l : head_fails p (drop_while p l).
Proof. induction l as [|x r IH]; cbn; [exact I|]. destruct (p x) eqn:E; [exact IH|exact E]. Qed.

Lemma drop_while_id {A} (p : A -> bool) l : head_fails p l -> drop_while p l = l.
Proof. destruct l as [|x r]; cbn; [reflexivity|]. intros ->. reflexivity. Qed.

Lemma take_while_app_stop {A} (p : A -> bool) l t :
  head_fails p t -> take_while p (l ++ t) = take_while p l.
Proof.
  intros Ht. induction l as [|x r IH]; cbn.
  - destruct t as [|y t']; cbn in *; [reflexivity|]. rewrite Ht. reflexivity.
  - destruct (p x); [f_equal; exact IH|reflexivity].
Qed.

Lemma drop_while_app_stop {A} (p : A -> bool) l t :
  head_fails p t -> drop_while p (l ++ t) = drop_while p l ++ t.
Proof.
  intros Ht. induction l as [|x r IH]; cbn.
  - apply drop_while_id. exact Ht.
  - destruct (p x); [exact IH|reflexivity].
Qed.

Lemma take_while_all {A} (p : A -> bool) l : forallb p l = true -> take_while p l = l.
Proof.
  induction l as [|x r IH]; cbn; [reflexivity|]. intros H. apply andb_true_iff in H. destruct H as [Hx Hr].
  rewrite Hx. f_equal. exact (IH Hr).
Qed.

Lemma drop_while_all {A} (p : A -> bool) l : forallb p l = true -> drop_while p l = [].
Proof.
  induction l as [|x r IH]; cbn; [reflexivity|]. intros H. apply andb_true_iff in H. destruct H as [Hx Hr].
  rewrite Hx. exact (IH Hr).
Qed.

(* all of l satisfies p: take_while p (l ++ t) = l ++ take_while p t *)
Lemma take_while_app_all {A} (p : A -> bool) l t :
  forallb p l = true -> take_while p (l ++ t) = l ++ take_while p t.
Proof.
  induction l as [|x r IH]; cbn; [reflexivity|]. intros H. apply andb_true_iff in H. destruct H as [Hx Hr].
  rewrite Hx. f_equal. exact (IH Hr).
Qed.

Lemma drop_while_app_all {A} (p : A -> bool) l t :
  forallb p l = true -> drop_while p (l ++ t) = drop_while p t.
Proof.
  induction l as [|x r IH]; cbn; [reflexivity|]. intros H. apply andb_true_iff in H. destruct H as [Hx Hr].
  rewrite Hx. exact (IH Hr).
Qed.

(* appending a suffix that satisfies p everywhere *)
Lemma drop_while_app_sat {A} (p : A -> bool) l t :
  forallb p t = true ->
  (drop_while p l = [] /\ drop_while p (l ++ t) = []) \/
  (drop_while p l <> [] /\ drop_while p (l ++ t) = drop_while p l ++ t).
Proof.
  intros Ht. induction l as [|x r IH]; cbn.
  - left. split; [reflexivity|]. apply drop_while_all. exact Ht.
  - destruct (p x); [exact IH|]. right. split; [discriminate|reflexivity].
Qed.

(* an element failing p survives drop_while together with everything after it *)
Lemma drop_while_keep {A} (p : A -> bool) a z r :
  p z = false -> exists a', drop_while p (a ++ z :: r) = a' ++ z :: r.
Proof.
  intros Hz. induction a as [|x a IH]; cbn.
  - rewrite Hz. exists []. reflexivity.
  - destruct (p x); [exact IH|]. exists (x :: a). reflexivity.
Qed.

Lemma forall_range (P : Z -> bool) (n : nat) :
  forallb P (map Z.of_nat (seq 0 n)) = true -> forall d, 0 <= d < Z.of_nat n -> P d = true.
Proof.
  intros H d Hd. rewrite forallb_forall in H. apply H.
  apply in_map_iff. exists (Z.to_nat d). split; [lia|]. apply in_seq. lia.
Qed.

Lemma list_eqb_refl l : list_eqb l l = true.
Proof. induction l as [|x r IH]; cbn; [reflexivity|]. rewrite Z.eqb_refl. exact IH. Qed.

Lemma list_eqb_eq a b : list_eqb a b = true -> a = b.
Proof.
  revert b; induction a as [|x a IH]; intros [|y b]; cbn; try discriminate; [reflexivity|].
  intros H. apply andb_true_iff in H. destruct H as [H1 H2]. apply Z.eqb_eq in H1. subst. f_equal. auto.
Qed.

(* ========================================================================================== *)
(* positional number systems                                                                  *)

Definition digits_ok (base : Z) (l : list Z) : Prop := Forall (fun d => 0 <= d < base) l.
Definition no_lead_zero (l : list Z) : Prop := match l with [] => True | h :: _ => h <> 0 end.

Lemma digits_ok_app base a b : digits_ok base (a ++ b) <-> digits_ok base a /\ digits_ok base b.
Proof. apply Forall_app. Qed.

Lemma be_value_app base acc l1 l2 :
  be_value base acc (l1 ++ l2) = be_value base (be_value base acc l1) l2.
Proof. revert acc; induction l1 as [|d r IH]; intros acc; cbn; [reflexivity|apply IH]. Qed.

Lemma be_value_acc base acc l :
  be_value base acc l = acc * base ^ Z.of_nat (length l) + be_value base 0 l.
Proof.
  revert acc; induction l as [|d r IH]; intros acc; cbn [be_value length].
  - rewrite Z.pow_0_r. lia.
  - rewrite (IH (acc * base + d)), (IH (0 * base + d)).
    rewrite Nat2Z.inj_succ, Z.pow_succ_r by lia. ring.
Qed.

Lemma be_value_snoc base l x : be_value base 0 (l ++ [x]) = be_value base 0 l * base + x.
Proof. rewrite be_value_app. reflexivity. Qed.

Lemma be_value_bound base l :
  0 < base -> digits_ok base l -> 0 <= be_value base 0 l < base ^ Z.of_nat (length l).
Proof.
  intros Hb. induction l as [|x r IH] using rev_ind; intros H.
  - cbn. lia.
  - apply digits_ok_app in H. destruct H as [Hr Hx]. inversion Hx as [|? ? Hx0 _]; subst.
    specialize (IH Hr). rewrite be_value_snoc, app_length. cbn [length].
    rewrite Nat2Z.inj_add, Z.pow_add_r by lia. change (Z.of_nat 1) with 1. rewrite Z.pow_1_r. nia.
Qed.

Lemma be_value_pos base l :
  0 < base -> digits_ok base l -> no_lead_zero l -> l <> [] -> 0 < be_value base 0 l.
Proof.
  intros Hb Hl Hn Hne. destruct l as [|h t]; [congruence|].
  cbn [be_value]. rewrite be_value_acc. inversion Hl as [|? ? Hh Ht]; subst. cbn in Hn.
  pose proof (be_value_bound base t Hb Ht) as Hbt.
  assert (0 < base ^ Z.of_nat (length t)) by (apply Z.pow_pos_nonneg; lia). nia.
Qed.

(* be_digits inverts be_value on canonical digit strings *)
Lemma be_digits_of_value base : 1 < base -> forall l acc fuel,
  digits_ok base l -> no_lead_zero l -> be_value base 0 l < base ^ Z.of_nat fuel ->
  be_digits base fuel (be_value base 0 l) acc = l ++ acc.
Proof.
  intros Hb. induction l as [|x r IH] using rev_ind; intros acc fuel Hl Hn Hf.
  - cbn [be_value]. destruct fuel; reflexivity.
  - apply digits_ok_app in Hl. destruct Hl as [Hr Hx]. inversion Hx as [|? ? Hx0 _]; subst.
    assert (Hpos : 0 < be_value base 0 (r ++ [x])).
    { apply be_value_pos; [lia|apply digits_ok_app; split; assumption|exact Hn|].
      destruct r; discriminate. }
    rewrite be_value_snoc in *.
    destruct fuel as [|f].
    { cbn in Hf. lia. }
    cbn [be_digits]. destruct (be_value base 0 r * base + x <=? 0) eqn:E; [lia|].
    rewrite Nat2Z.inj_succ, Z.pow_succ_r in Hf by lia.
    replace ((be_value base 0 r * base + x) / base) with (be_value base 0 r)
      by (rewrite Z_div_plus_full_l, Z.div_small; lia).
    replace ((be_value base 0 r * base + x) mod base) with x
      by (rewrite Z.add_comm, Z_mod_plus_full, Z.mod_small; lia).
    rewrite IH.
    + rewrite <- app_assoc. reflexivity.
    + exact Hr.
    + destruct r; [exact I|exact Hn].
    + nia.
Qed.

(* be_digits produces a canonical digit string of the right value *)
Lemma be_digits_spec base : 1 < base -> forall fuel a acc,
  0 <= a < base ^ Z.of_nat fuel ->
  exists ds, be_digits base fuel a acc = ds ++ acc /\ digits_ok base ds /\ no_lead_zero ds /\
             be_value base 0 ds = a.
Proof.
  intros Hb. induction fuel as [|f IH]; intros a acc Ha.
  - cbn in Ha. exists []. cbn. repeat split; [constructor|lia].
  - cbn [be_digits]. destruct (a <=? 0) eqn:E.
    + exists []. cbn. repeat split; [constructor|lia].
    + rewrite Nat2Z.inj_succ, Z.pow_succ_r in Ha by lia.
      assert (Hq : 0 <= a / base < base ^ Z.of_nat f).
      { split; [apply Z.div_pos; lia|apply Z.div_lt_upper_bound; lia]. }
      destruct (IH (a / base) (a mod base :: acc) Hq) as [ds [H1 [H2 [H3 H4]]]].
      exists (ds ++ [a mod base]). split; [rewrite H1, <- app_assoc; reflexivity|].
      split; [apply digits_ok_app; split; [exact H2|constructor; [lia|constructor]]|].
      split.
      * destruct ds as [|h t]; [|exact H3]. cbn in H4. cbn. lia.
      * rewrite be_value_snoc, H4. lia.
Qed.

(* ========================================================================================== *)
(* Base58                                                                                     *)

Definition b58_facts (d : Z) : bool :=
  let c := b58_char d in
  (b58_digit c =? d) && negb (c =? 0) && negb (is_space c) && (Bool.eqb (c =? 49) (d =? 0))
  && (0 <? c) && (c <? 256).

Lemma b58_facts_all : forall d, 0 <= d < 58 -> b58_facts d = true.
Proof. apply (forall_range b58_facts 58). vm_compute. reflexivity. Qed.

Lemma b58_digit_char d : 0 <= d < 58 -> b58_digit (b58_char d) = d.
Proof.
  intros H. pose proof (b58_facts_all d H) as F. unfold b58_facts in F.
  repeat (apply andb_true_iff in F; destruct F as [F ?]). apply Z.eqb_eq in F. exact F.
Qed.
Lemma b58_char_nonzero d : 0 <= d < 58 -> (b58_char d =? 0) = false.
Proof.
  intros H. pose proof (b58_facts_all d H) as F. unfold b58_facts in F.
  repeat (apply andb_true_iff in F; destruct F as [F ?]). apply negb_true_iff. assumption.
Qed.
Lemma b58_char_not_space d : 0 <= d < 58 -> is_space (b58_char d) = false.
Proof.
  intros H. pose proof (b58_facts_all d H) as F. unfold b58_facts in F.
  repeat (apply andb_true_iff in F; destruct F as [F ?]). apply negb_true_iff. assumption.
Qed.
Lemma b58_char_one d : 0 <= d < 58 -> d <> 0 -> (b58_char d =? 49) = false.
Proof.
  intros H Hd. pose proof (b58_facts_all d H) as F. unfold b58_facts in F.
  repeat (apply andb_true_iff in F; destruct F as [F ?]).
  match goal with E : Bool.eqb _ _ = true |- _ => apply Bool.eqb_prop in E; rewrite E end.
  apply Z.eqb_neq. exact Hd.
Qed.
Lemma b58_char_range d : 0 <= d < 58 -> 0 < b58_char d < 256.
Proof.
  intros H. pose proof (b58_facts_all d H) as F. unfold b58_facts in F.
  repeat (apply andb_true_iff in F; destruct F as [F ?]). lia.
Qed.

(* the digit table only yields -1 or a digit 0..57, and exactly the alphabet is accepted *)
Definition b58_map_facts (c : Z) : bool :=
  let d := b58_digit c in
  ((d =? -1) && negb (existsb (Z.eqb c) b58_alphabet))
  || ((0 <=? d) && (d <? 58) && (b58_char d =? c)).

Lemma b58_map_facts_all : forall c, 0 <= c < 256 -> b58_map_facts c = true.
Proof. apply (forall_range b58_map_facts 256). vm_compute. reflexivity. Qed.

Lemma b58_digit_out_of_range c : ~ (0 <= c < 256) -> b58_digit c = -1.
Proof.
  intros H. unfold b58_digit, nth_z. destruct (c <? 0) eqn:E; [reflexivity|].
  apply nth_overflow. change (length b58_map) with 256%nat. lia.
Qed.

Lemma b58_digit_cases c :
  (b58_digit c = -1 /\ ~ In c b58_alphabet) \/
  (0 <= b58_digit c < 58 /\ b58_char (b58_digit c) = c /\ In c b58_alphabet).
Proof.
  destruct (Z_lt_dec c 0) as [Hn|Hn]; [|destruct (Z_lt_dec c 256) as [Hl|Hl]].
  - left. split; [apply b58_digit_out_of_range; lia|].
    intros Hin. unfold b58_alphabet in Hin. cbn in Hin. lia.
  - pose proof (b58_map_facts_all c ltac:(lia)) as F. unfold b58_map_facts in F.
    apply orb_true_iff in F. destruct F as [F|F].
    + apply andb_true_iff in F. destruct F as [F1 F2]. left. split; [lia|].
      intros Hin. apply negb_true_iff in F2.
      assert (existsb (Z.eqb c) b58_alphabet = true); [|congruence].
      apply existsb_exists. exists c. split; [exact Hin|apply Z.eqb_refl].
    + apply andb_true_iff in F. destruct F as [F F3]. apply andb_true_iff in F. destruct F as [F1 F2].
      right. apply Z.eqb_eq in F3. split; [lia|]. split; [exact F3|].
      rewrite <- F3. unfold b58_char, nth_z.
      destruct (b58_digit c <? 0) eqn:E; [lia|]. apply nth_In.
      change (length b58_alphabet) with 58%nat. lia.
  - left. split; [apply b58_digit_out_of_range; lia|].
    intros Hin. unfold b58_alphabet in Hin. cbn in Hin. lia.
Qed.

Lemma b58_digits_of_chars ds : digits_ok 58 ds -> b58_digits_of (map b58_char ds) = Some ds.
Proof.
  induction ds as [|d r IH]; intros H; cbn [map b58_digits_of]; [reflexivity|].
  inversion H as [|? ? Hd Hr]; subst. rewrite (b58_digit_char d Hd).
  destruct (d <? 0) eqn:E; [lia|]. rewrite (IH Hr). reflexivity.
Qed.

Lemma b58_digits_of_bad s c : In c s -> b58_digit c < 0 -> b58_digits_of s = None.
Proof.
  induction s as [|x r IH]; cbn [In b58_digits_of]; [tauto|]. intros [->|Hin] Hc.
  - destruct (b58_digit c <? 0) eqn:E; [reflexivity|lia].
  - destruct (b58_digit x <? 0); [reflexivity|]. rewrite (IH Hin Hc). reflexivity.
Qed.

Lemma b58_digits_of_ok s ds : b58_digits_of s = Some ds -> digits_ok 58 ds /\ length ds = length s.
Proof.
  revert ds; induction s as [|x r IH]; intros ds; cbn [b58_digits_of].
  - intros [= <-]. split; [constructor|reflexivity].
  - destruct (b58_digit x <? 0) eqn:E; [discriminate|].
    destruct (b58_digits_of r) as [ds'|]; [|discriminate]. intros [= <-].
    destruct (IH ds' eq_refl) as [H1 H2]. split; [|cbn; congruence].
    constructor; [|exact H1]. destruct (b58_digit_cases x) as [[H _]|[H _]]; lia.
Qed.

Lemma pow256_le_58 n : 256 ^ Z.of_nat n <= 58 ^ Z.of_nat (2 * n).
Proof.
  rewrite Nat2Z.inj_mul. change (Z.of_nat 2) with 2. rewrite Z.pow_mul_r by lia.
  change (58 ^ 2) with 3364. apply Z.pow_le_mono_l. lia.
Qed.

Lemma existsb_false_forall {A} (p : A -> bool) l : (forall x, In x l -> p x = false) -> existsb p l = false.
Proof.
  intros H. induction l as [|x r IH]; cbn; [reflexivity|].
  rewrite (H x (or_introl eq_refl)). cbn. apply IH. intros y Hy. apply H. right. exact Hy.
Qed.

Lemma take_while_zero_map l : map (fun _ : Z => 0) (take_while (Z.eqb 0) l) = take_while (Z.eqb 0) l.
Proof.
  induction l as [|x r IH]; cbn [take_while map]; [reflexivity|].
  destruct (0 =? x) eqn:E; cbn [map]; [|reflexivity].
  apply Z.eqb_eq in E. subst. f_equal. exact IH.
Qed.

(* the main round trip, with the exact role of max_ret_len *)
Lemma base58_decode_encode b n : bytes_ok b ->
  base58_decode (base58_encode b) n = if (length b <=? n)%nat then Some b else None.
Proof.
  intros Hb. unfold base58_encode.
  set (zs := take_while (Z.eqb 0) b). set (rest := drop_while (Z.eqb 0) b).
  assert (Hsplit : zs ++ rest = b) by apply take_drop_while.
  assert (Hrest_ok : digits_ok 256 rest).
  { unfold bytes_ok in Hb. rewrite <- Hsplit in Hb. apply Forall_app in Hb. exact (proj2 Hb). }
  assert (Hrest_nlz : no_lead_zero rest).
  { pose proof (drop_while_head_fails (Z.eqb 0) b) as H. fold rest in H.
    destruct rest as [|h t]; [exact I|]. cbn [head_fails] in H. cbn [no_lead_zero]. apply Z.eqb_neq in H. lia. }
  pose proof (be_value_bound 256 rest ltac:(lia) Hrest_ok) as HV.
  set (V := be_value 256 0 rest) in *.
  assert (HVf : 0 <= V < 58 ^ Z.of_nat (2 * length rest)).
  { pose proof (pow256_le_58 (length rest)). lia. }
  destruct (be_digits_spec 58 ltac:(lia) (2 * length rest) V [] HVf) as [ds [Hds [Hdok [Hdn Hdv]]]].
  rewrite app_nil_r in Hds. rewrite Hds.
  set (ones := map (fun _ : Z => 49) zs). set (body := map b58_char ds).
  assert (Hbody_ns : forallb not_space body = true).
  { apply forallb_forall. intros c Hc. apply in_map_iff in Hc. destruct Hc as [d [<- Hd]].
    unfold not_space. rewrite b58_char_not_space; [reflexivity|].
    unfold digits_ok in Hdok. rewrite Forall_forall in Hdok. auto. }
  assert (Hones49 : forallb (Z.eqb 49) ones = true).
  { apply forallb_forall. intros c Hc. apply in_map_iff in Hc. destruct Hc as [d [<- _]]. reflexivity. }
  assert (Hbody_hf : head_fails (Z.eqb 49) body).
  { unfold body. destruct ds as [|d t]; [exact I|]. cbn [map head_fails]. inversion Hdok as [|? ? Hd0 Ht0].
    rewrite Z.eqb_sym. apply b58_char_one; [assumption|]. cbn [no_lead_zero] in Hdn. exact Hdn. }
  unfold base58_decode.
  (* no NUL *)
  assert (Hnul : existsb (Z.eqb 0) (ones ++ body) = false).
  { apply existsb_false_forall. intros c Hc. apply in_app_iff in Hc. destruct Hc as [Hc|Hc].
    - apply in_map_iff in Hc. destruct Hc as [d [<- _]]. reflexivity.
    - apply in_map_iff in Hc. destruct Hc as [d [<- Hd]]. rewrite Z.eqb_sym. apply b58_char_nonzero.
      unfold digits_ok in Hdok. rewrite Forall_forall in Hdok. auto. }
  rewrite Hnul.
  (* no leading space *)
  assert (Hs1 : drop_while is_space (ones ++ body) = ones ++ body).
  { apply drop_while_id. unfold ones. destruct zs as [|z zs']; cbn [map app head_fails].
    - unfold body. destruct ds as [|d t]; [exact I|]. cbn [map head_fails]. inversion Hdok as [|? ? Hd0 Ht0].
      apply b58_char_not_space. assumption.
    - reflexivity. }
  rewrite Hs1.
  rewrite (take_while_app_all _ ones body Hones49), (drop_while_app_all _ ones body Hones49).
  rewrite (drop_while_id _ body Hbody_hf).
  assert (Htw : take_while (Z.eqb 49) body = []).
  { destruct body as [|c t]; [reflexivity|]. cbn [head_fails] in Hbody_hf. cbn [take_while]. rewrite Hbody_hf. reflexivity. }
  rewrite Htw, app_nil_r.
  rewrite (take_while_all _ body Hbody_ns), (drop_while_all _ body Hbody_ns).
  unfold body at 1. rewrite (b58_digits_of_chars ds Hdok).
  cbn [forallb negb].
  rewrite Hdv.
  assert (HV256 : V < 256 ^ Z.of_nat (length ds)).
  { pose proof (be_value_bound 58 ds ltac:(lia) Hdok) as H58. rewrite Hdv in H58.
    assert (58 ^ Z.of_nat (length ds) <= 256 ^ Z.of_nat (length ds)) by (apply Z.pow_le_mono_l; lia).
    lia. }
  pose proof (be_digits_of_value 256 ltac:(lia) rest [] (length ds) Hrest_ok Hrest_nlz HV256) as Hback.
  fold V in Hback. rewrite app_nil_r in Hback. rewrite Hback.
  unfold ones. rewrite map_length, map_map.
  replace (length zs + length rest)%nat with (length b) by (rewrite <- Hsplit, app_length; reflexivity).
  unfold zs. rewrite take_while_zero_map. fold zs. rewrite Hsplit. reflexivity.
Qed.

Lemma base58_roundtrip_l b n : bytes_ok b -> (length b <= n)%nat ->
  base58_decode (base58_encode b) n = Some b.
Proof.
  intros Hb Hn. rewrite (base58_decode_encode b n Hb).
  destruct (length b <=? n)%nat eqn:E; [reflexivity|]. apply Nat.leb_gt in E. lia.
Qed.

Lemma base58_too_long_l b n : bytes_ok b -> (n < length b)%nat ->
  base58_decode (base58_encode b) n = None.
Proof.
  intros Hb Hn. rewrite (base58_decode_encode b n Hb).
  destruct (length b <=? n)%nat eqn:E; [|reflexivity]. apply Nat.leb_le in E. lia.
Qed.

(* every character of the encoder output is in the alphabet *)
Lemma base58_encode_alphabet b c : bytes_ok b -> In c (base58_encode b) -> In c b58_alphabet.
Proof.
  intros Hb Hc. unfold base58_encode in Hc. apply in_app_iff in Hc. destruct Hc as [Hc|Hc].
  - apply in_map_iff in Hc. destruct Hc as [? [<- _]]. cbn. tauto.
  - set (rest := drop_while (Z.eqb 0) b) in *.
    assert (Hrest_ok : digits_ok 256 rest).
    { unfold bytes_ok in Hb. rewrite <- (take_drop_while (Z.eqb 0) b) in Hb. apply Forall_app in Hb. exact (proj2 Hb). }
    pose proof (be_value_bound 256 rest ltac:(lia) Hrest_ok) as HV.
    pose proof (pow256_le_58 (length rest)) as Hp.
    destruct (be_digits_spec 58 ltac:(lia) (2 * length rest) (be_value 256 0 rest) [] ltac:(lia))
      as [ds [Hds [Hdok _]]].
    rewrite app_nil_r in Hds. rewrite Hds in Hc. apply in_map_iff in Hc. destruct Hc as [d [<- Hd]].
    unfold digits_ok in Hdok. rewrite Forall_forall in Hdok. specialize (Hdok d Hd).
    unfold b58_char, nth_z. destruct (d <? 0) eqn:E; [lia|]. apply nth_In.
    change (length b58_alphabet) with 58%nat. lia.
Qed.

(* a character that is neither in the alphabet nor skipped whitespace makes decoding fail, wherever
   it is *)
Lemma base58_rejects_non_alphabet_l s n c :
  In c s -> ~ In c b58_alphabet -> is_space c = false -> base58_decode s n = None.
Proof.
  intros Hin Hna Hns. unfold base58_decode.
  destruct (existsb (Z.eqb 0) s); [reflexivity|].
  set (s1 := drop_while is_space s). set (s2 := drop_while (Z.eqb 49) s1).
  set (body := take_while not_space s2). set (s3 := drop_while not_space s2).
  assert (Hd : b58_digit c < 0).
  { destruct (b58_digit_cases c) as [[H _]|[_ [_ H]]]; [lia|contradiction]. }
  rewrite <- (take_drop_while is_space s) in Hin. fold s1 in Hin.
  apply in_app_iff in Hin. destruct Hin as [Hin|Hin].
  { apply take_while_sat in Hin. congruence. }
  rewrite <- (take_drop_while (Z.eqb 49) s1) in Hin. fold s2 in Hin.
  apply in_app_iff in Hin. destruct Hin as [Hin|Hin].
  { apply take_while_sat in Hin. apply Z.eqb_eq in Hin. subst c. exfalso. apply Hna. cbn. tauto. }
  rewrite <- (take_drop_while not_space s2) in Hin. fold body s3 in Hin.
  apply in_app_iff in Hin. destruct Hin as [Hin|Hin].
  { rewrite (b58_digits_of_bad body c Hin Hd). reflexivity. }
  destruct (b58_digits_of body); [|reflexivity].
  assert (Hf : forallb is_space s3 = false).
  { destruct (forallb is_space s3) eqn:E; [|reflexivity].
    rewrite forallb_forall in E. rewrite (E c Hin) in Hns. discriminate. }
  rewrite Hf. reflexivity.
Qed.

(* whitespace: leading and trailing IsSpace characters are ignored ... *)
Lemma is_space_nonzero l : forallb is_space l = true -> existsb (Z.eqb 0) l = false.
Proof.
  intros H. apply existsb_false_forall. intros x Hx. rewrite forallb_forall in H. specialize (H x Hx).
  destruct (0 =? x) eqn:E; [|reflexivity]. apply Z.eqb_eq in E. subst. discriminate.
Qed.

Lemma base58_decode_strip_leading l s n :
  forallb is_space l = true -> base58_decode (l ++ s) n = base58_decode s n.
Proof.
  intros Hl. unfold base58_decode. rewrite existsb_app, (is_space_nonzero l Hl). cbn [orb].
  rewrite (drop_while_app_all is_space l s Hl). reflexivity.
Qed.

Lemma head_fails_spaces (p : Z -> bool) t :
  forallb is_space t = true -> (forall c, is_space c = true -> p c = false) -> head_fails p t.
Proof. destruct t as [|x r]; cbn; [trivial|]. intros H Hp. apply andb_true_iff in H. apply Hp. tauto. Qed.

Lemma base58_decode_strip_trailing s t n :
  forallb is_space t = true -> base58_decode (s ++ t) n = base58_decode s n.
Proof.
  intros Ht. unfold base58_decode. rewrite existsb_app, (is_space_nonzero t Ht), orb_false_r.
  destruct (existsb (Z.eqb 0) s); [reflexivity|].
  destruct (drop_while_app_sat is_space s t Ht) as [[H1 H2]|[H1 H2]].
  - rewrite H1, H2. reflexivity.
  - rewrite H2. set (s1 := drop_while is_space s).
    assert (H49 : head_fails (Z.eqb 49) t).
    { apply head_fails_spaces; [exact Ht|]. intros c Hc. destruct (49 =? c) eqn:E; [|reflexivity].
      apply Z.eqb_eq in E. subst. discriminate. }
    assert (Hns : head_fails not_space t).
    { apply head_fails_spaces; [exact Ht|]. intros c Hc. unfold not_space. rewrite Hc. reflexivity. }
    rewrite (take_while_app_stop _ s1 t H49), (drop_while_app_stop _ s1 t H49).
    set (s2 := drop_while (Z.eqb 49) s1).
    rewrite (take_while_app_stop _ s2 t Hns), (drop_while_app_stop _ s2 t Hns).
    rewrite forallb_app, Ht, andb_true_r. reflexivity.
Qed.

Lemma base58_decode_strip_l l s t n :
  forallb is_space l = true -> forallb is_space t = true ->
  base58_decode (l ++ s ++ t) n = base58_decode s n.
Proof. intros Hl Ht. rewrite base58_decode_strip_leading, base58_decode_strip_trailing; auto. Qed.

(* ... but whitespace with non-whitespace on both sides is an error *)
Lemma base58_decode_inner_space_l a x m sp m' y b n :
  is_space x = false -> is_space sp = true -> is_space y = false ->
  base58_decode (a ++ x :: m ++ sp :: m' ++ y :: b) n = None.
Proof.
  intros Hx Hsp Hy. unfold base58_decode.
  destruct (existsb _ _); [reflexivity|].
  destruct (drop_while_keep is_space a x (m ++ sp :: m' ++ y :: b) Hx) as [a1 H1]. rewrite H1.
  assert (Hsp49 : (49 =? sp) = false).
  { destruct (49 =? sp) eqn:E; [|reflexivity]. apply Z.eqb_eq in E. subst. discriminate. }
  replace (a1 ++ x :: m ++ sp :: m' ++ y :: b) with ((a1 ++ x :: m) ++ sp :: (m' ++ y :: b))
    by (rewrite <- app_assoc; reflexivity).
  destruct (drop_while_keep (Z.eqb 49) (a1 ++ x :: m) sp (m' ++ y :: b) Hsp49) as [a2 H2]. rewrite H2.
  assert (Hspn : not_space sp = false) by (unfold not_space; rewrite Hsp; reflexivity).
  destruct (drop_while_keep not_space a2 sp (m' ++ y :: b) Hspn) as [a3 H3]. rewrite H3.
  destruct (b58_digits_of _); [|reflexivity].
  assert (Hf : forallb is_space (a3 ++ sp :: m' ++ y :: b) = false).
  { destruct (forallb is_space _) eqn:E; [|reflexivity]. rewrite forallb_forall in E.
    assert (Hin : In y (a3 ++ sp :: m' ++ y :: b)).
    { apply in_app_iff. right. right. apply in_app_iff. right. left. reflexivity. }
    rewrite (E y Hin) in Hy. discriminate. }
  rewrite Hf. reflexivity.
Qed.

(* Base58Check *)
Lemma base58check_roundtrip_l (H : bytes -> bytes) b n :
  (forall x, length (H x) = 32%nat /\ bytes_ok (H x)) -> bytes_ok b -> (length b <= n)%nat ->
  base58check_decode H (base58check_encode H b) n = Some b.
Proof.
  intros HH Hb Hn. unfold base58check_decode, base58check_encode.
  destruct (HH b) as [Hlen Hok].
  assert (H4 : length (firstn 4 (H b)) = 4%nat) by (rewrite firstn_length; lia).
  rewrite base58_roundtrip_l.
  - rewrite app_length, H4.
    destruct (length b + 4 <? 4)%nat eqn:E; [apply Nat.ltb_lt in E; lia|].
    replace (length b + 4 - 4)%nat with (length b + 0)%nat by lia.
    rewrite firstn_app_2, skipn_app. cbn [firstn]. rewrite app_nil_r.
    rewrite Nat.add_0_r, skipn_all. replace (length b - length b)%nat with 0%nat by lia.
    cbn [skipn app]. rewrite list_eqb_refl. reflexivity.
  - apply bytes_ok_app. split; [exact Hb|]. unfold bytes_ok in *. apply Forall_forall.
    intros x Hx. rewrite Forall_forall in Hok. apply Hok.
    rewrite <- (firstn_skipn 4 (H b)). apply in_app_iff. left. exact Hx.
  - rewrite app_length, H4. lia.
Qed.

(* ========================================================================================== *)
(* ConvertBits                                                                                *)

Lemma land_mask a k : 0 <= k -> Z.land a (Z.shiftl 1 k - 1) = a mod 2 ^ k.
Proof. intros Hk. rewrite <- (Z.land_ones a k Hk). unfold Z.ones. rewrite Z.sub_1_r. reflexivity. Qed.

Lemma lor_shiftl_add a v k : 0 <= k -> 0 <= v < 2 ^ k -> Z.lor (Z.shiftl a k) v = a * 2 ^ k + v.
Proof.
  intros Hk Hv.
  assert (Hl : Z.land (Z.shiftl a k) v = 0).
  { apply Z.bits_inj'. intros n Hn. rewrite Z.land_spec, Z.bits_0.
    destruct (Z_lt_dec n k) as [Hlt|Hge].
    - rewrite Z.shiftl_spec_low by lia. reflexivity.
    - rewrite <- (Z.mod_small v (2 ^ k)) by lia. rewrite Z.mod_pow2_bits_high by lia.
      apply andb_false_r. }
  rewrite <- Z.lxor_lor by exact Hl. rewrite <- Z.add_nocarry_lxor by exact Hl.
  rewrite Z.shiftl_mul_pow2 by lia. reflexivity.
Qed.

(* value of a reversed output list: head = least significant digit *)
Fixpoint rv (T : Z) (out : list Z) : Z :=
  match out with [] => 0 | o :: r => o + T * rv T r end.

Lemma rv_rev T out : be_value T 0 (rev out) = rv T out.
Proof.
  induction out as [|o r IH]; cbn [rev rv]; [reflexivity|].
  rewrite be_value_snoc, IH. ring.
Qed.

Lemma mod_pow2_split a k m : 0 <= k -> 0 <= m ->
  a mod 2 ^ (k + m) = a mod 2 ^ k + 2 ^ k * ((a / 2 ^ k) mod 2 ^ m).
Proof.
  intros Hk Hm. rewrite Z.pow_add_r by lia. apply Z.rem_mul_r.
  - apply Z.pow_nonzero; lia.
  - apply Z.pow_pos_nonneg; lia.
Qed.

Lemma mod_mod_pow2 a k m : 0 <= k <= m -> (a mod 2 ^ m) mod 2 ^ k = a mod 2 ^ k.
Proof.
  intros H. symmetry. apply Znumtheory.Zmod_div_mod.
  - apply Z.pow_pos_nonneg; lia.
  - apply Z.pow_pos_nonneg; lia.
  - exists (2 ^ (m - k)). rewrite <- Z.pow_add_r by lia. f_equal. lia.
Qed.

Section ConvertBits.
  Variables frombits tobits : Z.
  Hypothesis Hfrom : 1 <= frombits.
  Hypothesis Hto : 1 <= tobits.
  Let F := 2 ^ frombits.
  Let T := 2 ^ tobits.
  Let maxv := Z.shiftl 1 tobits - 1.
  Let max_acc := Z.shiftl 1 (frombits + tobits - 1) - 1.

  Lemma cb_flush_spec : forall fuel acc bits out,
    0 <= bits -> bits < tobits * Z.of_nat fuel -> digits_ok T out ->
    exists bits' out',
      cb_flush fuel tobits maxv acc bits out = (bits', out') /\
      0 <= bits' < tobits /\ digits_ok T out' /\
      rv T out' * 2 ^ bits' + acc mod 2 ^ bits' = rv T out * 2 ^ bits + acc mod 2 ^ bits /\
      tobits * Z.of_nat (length out') + bits' = tobits * Z.of_nat (length out) + bits.
  Proof.
    induction fuel as [|f IH]; intros acc bits out Hb Hf Hout.
    - lia.
    - cbn [cb_flush]. destruct (tobits <=? bits) eqn:E.
      + apply Z.leb_le in E.
        set (bits' := bits - tobits).
        set (o := Z.land (Z.shiftr acc bits') maxv).
        assert (Ho : o = (acc / 2 ^ bits') mod T).
        { unfold o, maxv. rewrite land_mask by lia. rewrite Z.shiftr_div_pow2 by (unfold bits'; lia).
          reflexivity. }
        assert (HT : 0 < T) by (apply Z.pow_pos_nonneg; lia).
        assert (Hout' : digits_ok T (o :: out)).
        { constructor; [|exact Hout]. rewrite Ho. apply Z.mod_pos_bound. exact HT. }
        destruct (IH acc bits' (o :: out)) as [b2 [o2 [H1 [H2 [H3 [H4 H5]]]]]].
        { unfold bits'. lia. } { unfold bits'. lia. } { exact Hout'. }
        exists b2, o2. split; [exact H1|]. split; [exact H2|]. split; [exact H3|]. split.
        * rewrite H4. cbn [rv].
          assert (Hbits : bits = bits' + tobits) by (unfold bits'; lia).
          assert (Hsp : acc mod 2 ^ bits = acc mod 2 ^ bits' + 2 ^ bits' * o).
          { rewrite Ho, Hbits. apply mod_pow2_split; unfold bits'; lia. }
          assert (Hpw : 2 ^ bits = 2 ^ bits' * T).
          { rewrite Hbits. apply Z.pow_add_r; unfold bits'; lia. }
          rewrite Hsp, Hpw. ring.
        * rewrite H5. cbn [length]. unfold bits'. lia.
      + apply Z.leb_gt in E. exists bits, out. repeat split; try assumption; lia.
  Qed.

  (* loop invariant: [p] is the consumed input *)
  Definition cb_inv (p : list Z) (acc bits : Z) (out : list Z) : Prop :=
    0 <= bits < tobits /\ digits_ok T out /\
    be_value F 0 p = rv T out * 2 ^ bits + acc mod 2 ^ bits /\
    tobits * Z.of_nat (length out) + bits = frombits * Z.of_nat (length p).

  Lemma cb_loop_spec : forall input p acc bits out,
    cb_inv p acc bits out -> digits_ok F input ->
    exists acc' bits' out',
      cb_loop frombits tobits maxv max_acc input acc bits out = (true, acc', bits', out') /\
      cb_inv (p ++ input) acc' bits' out'.
  Proof.
    induction input as [|v r IH]; intros p acc bits out Hinv Hin.
    - exists acc, bits, out. rewrite app_nil_r. split; [reflexivity|exact Hinv].
    - inversion Hin as [|? ? Hv Hr]; subst. cbn [cb_loop].
      destruct (v <? 0) eqn:E; [lia|]. clear E.
      destruct Hinv as [Hb [Hout [Hval Hlen]]].
      set (acc1 := Z.land (Z.lor (Z.shiftl acc frombits) v) max_acc).
      set (bits1 := bits + frombits).
      assert (HF : 0 < F) by (apply Z.pow_pos_nonneg; lia).
      assert (Hacc1 : acc1 mod 2 ^ bits1 = (acc mod 2 ^ bits) * F + v).
      { unfold acc1, max_acc. rewrite land_mask by lia.
        rewrite lor_shiftl_add by (fold F; lia). fold F.
        rewrite mod_mod_pow2 by (unfold bits1; lia).
        unfold bits1. rewrite (Z.add_comm bits frombits).
        rewrite (mod_pow2_split (acc * F + v) frombits bits) by lia. fold F.
        replace ((acc * F + v) mod F) with v
          by (rewrite Z.add_comm, Z_mod_plus_full, Z.mod_small; lia).
        replace ((acc * F + v) / F) with acc
          by (rewrite Z_div_plus_full_l, Z.div_small; lia).
        ring. }
      destruct (cb_flush_spec (S (Z.to_nat (bits1 / tobits))) acc1 bits1 out) as [b2 [o2 [H1 [H2 [H3 [H4 H5]]]]]].
      { unfold bits1. lia. }
      { rewrite Nat2Z.inj_succ, Z2Nat.id by (apply Z.div_pos; unfold bits1; lia).
        pose proof (Z.mod_pos_bound bits1 tobits ltac:(lia)). pose proof (Z.div_mod bits1 tobits ltac:(lia)). lia. }
      { exact Hout. }
      fold acc1 bits1. rewrite H1.
      destruct (IH (p ++ [v]) acc1 b2 o2) as [a3 [b3 [o3 [H6 H7]]]].
      + split; [exact H2|]. split; [exact H3|]. split.
        * rewrite be_value_snoc, H4, Hacc1, Hval. unfold bits1. rewrite Z.pow_add_r by lia. fold F. ring.
        * rewrite H5, app_length. cbn [length]. unfold bits1. lia.
      + exact Hr.
      + exists a3, b3, o3. rewrite <- app_assoc in H7. split; [exact H6|exact H7].
  Qed.

  Lemma cb_inv_init : cb_inv [] 0 0 [].
  Proof. unfold cb_inv. cbn. repeat split; try lia. constructor. Qed.
End ConvertBits.

Lemma be_value_inj base l1 l2 : 0 < base ->
  digits_ok base l1 -> digits_ok base l2 -> length l1 = length l2 ->
  be_value base 0 l1 = be_value base 0 l2 -> l1 = l2.
Proof.
  intros Hb. revert l2; induction l1 as [|h1 t1 IH]; intros [|h2 t2] H1 H2 Hlen Hv; try discriminate; [reflexivity|].
  inversion H1 as [|? ? Hh1 Ht1]; inversion H2 as [|? ? Hh2 Ht2]; subst.
  cbn [be_value] in Hv. rewrite (be_value_acc base (0 * base + h1)), (be_value_acc base (0 * base + h2)) in Hv.
  cbn [length] in Hlen. injection Hlen as Hlen. rewrite Hlen in Hv.
  pose proof (be_value_bound base t1 Hb Ht1) as B1. pose proof (be_value_bound base t2 Hb Ht2) as B2.
  rewrite Hlen in B1. set (P := base ^ Z.of_nat (length t2)) in *.
  assert (h1 = h2) by nia. subst. f_equal. apply IH; try assumption. lia.
Qed.

Lemma convert_bits_8_5_spec b : bytes_ok b ->
  exists v, convert_bits_run 8 5 true b = (true, v) /\ digits_ok 32 v /\
            0 <= 5 * Z.of_nat (length v) - 8 * Z.of_nat (length b) < 5 /\
            be_value 32 0 v = be_value 256 0 b * 2 ^ (5 * Z.of_nat (length v) - 8 * Z.of_nat (length b)).
Proof.
  intros Hb. unfold convert_bits_run.
  destruct (cb_loop_spec 8 5 ltac:(lia) ltac:(lia) b [] 0 0 [] (cb_inv_init 8 5 ltac:(lia)) Hb) as [acc [bits [out [H1 H2]]]].
  rewrite H1. cbn [negb app] in *. destruct H2 as [Hbits [Hout [Hval Hlen]]].
  change (2 ^ 5) with 32 in *. change (2 ^ 8) with 256 in *.
  destruct (bits =? 0) eqn:E.
  - apply Z.eqb_eq in E. subst bits. exists (rev out). split; [reflexivity|].
    split; [apply Forall_rev; exact Hout|]. rewrite rev_length.
    replace (5 * Z.of_nat (length out) - 8 * Z.of_nat (length b)) with 0 by lia.
    split; [lia|]. rewrite rv_rev, Hval. change (2 ^ 0) with 1. rewrite Z.mod_1_r. lia.
  - apply Z.eqb_neq in E.
    set (last := Z.land (Z.shiftl acc (5 - bits)) (Z.shiftl 1 5 - 1)).
    assert (Hlast : last = (acc * 2 ^ (5 - bits)) mod 32).
    { unfold last. rewrite land_mask by lia. rewrite Z.shiftl_mul_pow2 by lia. reflexivity. }
    exists (rev (last :: out)). split; [reflexivity|].
    split.
    { apply Forall_rev. constructor; [|exact Hout]. rewrite Hlast. apply Z.mod_pos_bound. lia. }
    rewrite rev_length. cbn [length]. rewrite Nat2Z.inj_succ.
    replace (5 * Z.succ (Z.of_nat (length out)) - 8 * Z.of_nat (length b)) with (5 - bits) by lia.
    split; [lia|]. rewrite rv_rev. cbn [rv]. rewrite Hval, Hlast.
    assert (Hc : bits = 1 \/ bits = 2 \/ bits = 3 \/ bits = 4) by lia.
    destruct Hc as [-> | [-> | [-> | ->]]].
    + change (2 ^ (5 - 1)) with 16. change (2 ^ 1) with 2. lia.
    + change (2 ^ (5 - 2)) with 8. change (2 ^ 2) with 4. lia.
    + change (2 ^ (5 - 3)) with 4. change (2 ^ 3) with 8. lia.
    + change (2 ^ (5 - 4)) with 2. change (2 ^ 4) with 16. lia.
Qed.

Lemma convert_bits_5_8_back v b : digits_ok 32 v -> bytes_ok b ->
  0 <= 5 * Z.of_nat (length v) - 8 * Z.of_nat (length b) < 5 ->
  be_value 32 0 v = be_value 256 0 b * 2 ^ (5 * Z.of_nat (length v) - 8 * Z.of_nat (length b)) ->
  convert_bits_run 5 8 false v = (true, b).
Proof.
  intros Hv Hb Hpad Hval. unfold convert_bits_run.
  destruct (cb_loop_spec 5 8 ltac:(lia) ltac:(lia) v [] 0 0 [] (cb_inv_init 5 8 ltac:(lia)) Hv) as [acc [bits [out [H1 H2]]]].
  rewrite H1. cbn [negb app] in *. destruct H2 as [Hbits [Hout [Hval2 Hlen]]].
  change (2 ^ 5) with 32 in *. change (2 ^ 8) with 256 in *.
  set (pad := 5 * Z.of_nat (length v) - 8 * Z.of_nat (length b)) in *.
  assert (Hlo : length out = length b) by lia.
  assert (Hbp : bits = pad) by lia.
  assert (Hc : pad = 0 \/ pad = 1 \/ pad = 2 \/ pad = 3 \/ pad = 4) by lia.
  assert (Hrv : rv 256 out = be_value 256 0 b /\ acc mod 2 ^ bits = 0).
  { rewrite Hval in Hval2. rewrite Hbp in *. clear Hbp Hlen.
    destruct Hc as [Hc|[Hc|[Hc|[Hc|Hc]]]]; rewrite Hc in *.
    - change (2 ^ 0) with 1 in *. lia.
    - change (2 ^ 1) with 2 in *. lia.
    - change (2 ^ 2) with 4 in *. lia.
    - change (2 ^ 3) with 8 in *. lia.
    - change (2 ^ 4) with 16 in *. lia. }
  destruct Hrv as [Hrv Hz].
  destruct (5 <=? bits) eqn:E5; [apply Z.leb_le in E5; lia|]. cbn [orb].
  assert (Hlast : Z.land (Z.shiftl acc (8 - bits)) (Z.shiftl 1 8 - 1) = 0).
  { rewrite land_mask by lia. rewrite Z.shiftl_mul_pow2 by lia. change (2 ^ 8) with 256.
    rewrite Hbp in *. clear Hbp Hlen.
    destruct Hc as [Hc|[Hc|[Hc|[Hc|Hc]]]]; rewrite Hc in *.
    - change (2 ^ (8 - 0)) with 256. lia.
    - change (2 ^ (8 - 1)) with 128. change (2 ^ 1) with 2 in *. lia.
    - change (2 ^ (8 - 2)) with 64. change (2 ^ 2) with 4 in *. lia.
    - change (2 ^ (8 - 3)) with 32. change (2 ^ 3) with 8 in *. lia.
    - change (2 ^ (8 - 4)) with 16. change (2 ^ 4) with 16 in *. lia. }
  rewrite Hlast. cbn [Z.eqb negb]. f_equal.
  apply (be_value_inj 256); [lia| |exact Hb| |].
  - apply Forall_rev. exact Hout.
  - rewrite rev_length. exact Hlo.
  - rewrite rv_rev. exact Hrv.
Qed.

Lemma convert_bits_8_5_roundtrip_l b : bytes_ok b ->
  exists v, convert_bits 8 5 true b = Some v /\ Forall (fun x => 0 <= x < 32) v /\
            convert_bits 5 8 false v = Some b.
Proof.
  intros Hb. destruct (convert_bits_8_5_spec b Hb) as [v [H1 [H2 [H3 H4]]]].
  exists v. unfold convert_bits. rewrite H1. split; [reflexivity|]. split; [exact H2|].
  rewrite (convert_bits_5_8_back v b H2 Hb H3 H4). reflexivity.
Qed.

(* ========================================================================================== *)
(* Bech32: PolyMod is affine over GF(2)                                                       *)

Lemma land_lxor_distr a b m : Z.land (Z.lxor a b) m = Z.lxor (Z.land a m) (Z.land b m).
Proof.
  apply Z.bits_inj'. intros n _. rewrite !Z.land_spec, !Z.lxor_spec, !Z.land_spec.
  destruct (Z.testbit a n), (Z.testbit b n), (Z.testbit m n); reflexivity.
Qed.

Lemma bsel_xor p q g : bsel (xorb p q) g = Z.lxor (bsel p g) (bsel q g).
Proof. destruct p, q; cbn [xorb bsel]; [rewrite Z.lxor_nilpotent|rewrite Z.lxor_0_r|rewrite Z.lxor_0_l|]; reflexivity. Qed.

Lemma lxor_interchange a b c d : Z.lxor (Z.lxor a b) (Z.lxor c d) = Z.lxor (Z.lxor a c) (Z.lxor b d).
Proof.
  rewrite !Z.lxor_assoc. f_equal. rewrite <- !Z.lxor_assoc. f_equal. apply Z.lxor_comm.
Qed.

Lemma bech32_step_xor a b v w :
  bech32_step (Z.lxor a b) (Z.lxor v w) = Z.lxor (bech32_step a v) (bech32_step b w).
Proof.
  unfold bech32_step. rewrite Z.shiftr_lxor, !Z.lxor_spec, !bsel_xor, land_lxor_distr, Z.shiftl_lxor.
  set (A := Z.shiftl (Z.land a _) 5). set (B := Z.shiftl (Z.land b _) 5).
  set (a0 := bsel (Z.testbit (Z.shiftr a 25) 0) _). set (b0 := bsel (Z.testbit (Z.shiftr b 25) 0) _).
  set (a1 := bsel (Z.testbit (Z.shiftr a 25) 1) _). set (b1 := bsel (Z.testbit (Z.shiftr b 25) 1) _).
  set (a2 := bsel (Z.testbit (Z.shiftr a 25) 2) _). set (b2 := bsel (Z.testbit (Z.shiftr b 25) 2) _).
  set (a3 := bsel (Z.testbit (Z.shiftr a 25) 3) _). set (b3 := bsel (Z.testbit (Z.shiftr b 25) 3) _).
  set (a4 := bsel (Z.testbit (Z.shiftr a 25) 4) _). set (b4 := bsel (Z.testbit (Z.shiftr b 25) 4) _).
  rewrite (lxor_interchange A B v w).
  rewrite (lxor_interchange (Z.lxor A v) (Z.lxor B w) a0 b0).
  rewrite (lxor_interchange (Z.lxor (Z.lxor A v) a0) (Z.lxor (Z.lxor B w) b0) a1 b1).
  rewrite (lxor_interchange (Z.lxor (Z.lxor (Z.lxor A v) a0) a1) (Z.lxor (Z.lxor (Z.lxor B w) b0) b1) a2 b2).
  rewrite (lxor_interchange (Z.lxor (Z.lxor (Z.lxor (Z.lxor A v) a0) a1) a2)
                            (Z.lxor (Z.lxor (Z.lxor (Z.lxor B w) b0) b1) b2) a3 b3).
  rewrite (lxor_interchange (Z.lxor (Z.lxor (Z.lxor (Z.lxor (Z.lxor A v) a0) a1) a2) a3)
                            (Z.lxor (Z.lxor (Z.lxor (Z.lxor (Z.lxor B w) b0) b1) b2) b3) a4 b4).
  reflexivity.
Qed.

Lemma polymod_from_app c l1 l2 :
  bech32_polymod_from c (l1 ++ l2) = bech32_polymod_from (bech32_polymod_from c l1) l2.
Proof. unfold bech32_polymod_from. apply fold_left_app. Qed.

Lemma polymod_from_cons c v l :
  bech32_polymod_from c (v :: l) = bech32_polymod_from (bech32_step c v) l.
Proof. reflexivity. Qed.

(* linearity: xor-ing a difference into the state is the same as xor-ing in its propagation through
   an all-zero input of the same length *)
Lemma polymod_from_xor l : forall a b,
  bech32_polymod_from (Z.lxor a b) l =
  Z.lxor (bech32_polymod_from a l) (bech32_polymod_from b (repeat 0 (length l))).
Proof.
  induction l as [|v r IH]; intros a b; [reflexivity|].
  cbn [length repeat]. rewrite !polymod_from_cons.
  rewrite <- (Z.lxor_0_r v) at 1. rewrite bech32_step_xor. apply IH.
Qed.

Lemma bech32_step_0_0 : bech32_step 0 0 = 0.
Proof. vm_compute. reflexivity. Qed.

Lemma bech32_step_0 v : bech32_step 0 v = v.
Proof.
  rewrite <- (Z.lxor_0_l v) at 1. rewrite <- (Z.lxor_0_l 0) at 1.
  rewrite bech32_step_xor, bech32_step_0_0, Z.lxor_0_l.
  unfold bech32_step. change (Z.shiftr 0 25) with 0. rewrite !Z.bits_0. cbn [bsel].
  rewrite !Z.lxor_0_r. change (Z.shiftl (Z.land 0 33554431) 5) with 0. apply Z.lxor_0_l.
Qed.

Lemma polymod_from_0_zeros n : bech32_polymod_from 0 (repeat 0 n) = 0.
Proof. induction n as [|n IH]; [reflexivity|]. cbn [repeat]. rewrite polymod_from_cons, bech32_step_0_0. exact IH. Qed.

(* replacing one symbol x by x' changes the residue by the syndrome of the single error x^x' *)
Lemma polymod_from_subst c pre x x' post :
  bech32_polymod_from c (pre ++ x' :: post) =
  Z.lxor (bech32_polymod_from c (pre ++ x :: post))
         (bech32_polymod_from (Z.lxor x x') (repeat 0 (length post))).
Proof.
  rewrite !polymod_from_app, !polymod_from_cons.
  set (c1 := bech32_polymod_from c pre).
  assert (H : bech32_step c1 x' = Z.lxor (bech32_step c1 x) (Z.lxor x x')).
  { rewrite <- (bech32_step_0 (Z.lxor x x')). rewrite <- bech32_step_xor.
    rewrite Z.lxor_0_r. f_equal. rewrite <- Z.lxor_assoc, Z.lxor_nilpotent. apply Z.lxor_0_l. }
  rewrite H. apply polymod_from_xor.
Qed.

(* ranges *)
Lemma lxor_bound n a b : 0 <= n -> 0 <= a < 2 ^ n -> 0 <= b < 2 ^ n -> 0 <= Z.lxor a b < 2 ^ n.
Proof.
  intros Hn Ha Hb.
  assert (Hnn : 0 <= Z.lxor a b) by (apply Z.lxor_nonneg; lia).
  split; [exact Hnn|].
  destruct (Z.eq_dec (Z.lxor a b) 0) as [E|E]; [rewrite E; apply Z.pow_pos_nonneg; lia|].
  assert (Hn0 : 0 < n).
  { destruct (Z.eq_dec n 0) as [->|]; [|lia]. change (2 ^ 0) with 1 in *.
    assert (a = 0) by lia. assert (b = 0) by lia. subst. cbn in E. congruence. }
  apply Z.log2_lt_pow2; [lia|].
  pose proof (Z.log2_lxor a b ltac:(lia) ltac:(lia)) as Hl.
  assert (Z.log2 a < n).
  { destruct (Z.eq_dec a 0) as [->|Ea]; [cbn; lia|]. apply Z.log2_lt_pow2; lia. }
  assert (Z.log2 b < n).
  { destruct (Z.eq_dec b 0) as [->|Eb]; [cbn; lia|]. apply Z.log2_lt_pow2; lia. }
  lia.
Qed.

Lemma bsel_bound p g : 0 <= g < 2 ^ 30 -> 0 <= bsel p g < 2 ^ 30.
Proof. destruct p; cbn [bsel]; lia. Qed.

Lemma bech32_step_bound c v : 0 <= v < 2 ^ 30 -> 0 <= bech32_step c v < 2 ^ 30.
Proof.
  intros Hv. unfold bech32_step.
  assert (Hs : 0 <= Z.shiftl (Z.land c 33554431) 5 < 2 ^ 30).
  { change 33554431 with (Z.ones 25). rewrite Z.land_ones by lia. rewrite Z.shiftl_mul_pow2 by lia.
    pose proof (Z.mod_pos_bound c (2 ^ 25) ltac:(lia)). change (2 ^ 30) with (2 ^ 25 * 2 ^ 5). lia. }
  repeat (apply lxor_bound; [lia| |apply bsel_bound; lia]).
  apply lxor_bound; [lia|exact Hs|exact Hv].
Qed.

Lemma polymod_from_bound l : forall c, 0 <= c < 2 ^ 30 -> Forall (fun v => 0 <= v < 2 ^ 30) l ->
  0 <= bech32_polymod_from c l < 2 ^ 30.
Proof.
  induction l as [|v r IH]; intros c Hc Hl; [exact Hc|].
  inversion Hl as [|? ? Hv Hr]; subst. rewrite polymod_from_cons. apply IH; [|exact Hr].
  apply bech32_step_bound. exact Hv.
Qed.

Lemma shiftl_land_zero a v k : 0 <= k -> 0 <= v < 2 ^ k -> Z.land (Z.shiftl a k) v = 0.
Proof.
  intros Hk Hv. apply Z.bits_inj'. intros n Hn. rewrite Z.land_spec, Z.bits_0.
  destruct (Z_lt_dec n k) as [Hlt|Hge].
  - rewrite Z.shiftl_spec_low by lia. reflexivity.
  - rewrite <- (Z.mod_small v (2 ^ k)) by lia. rewrite Z.mod_pow2_bits_high by lia. apply andb_false_r.
Qed.

Lemma bech32_step_small c v : 0 <= c < 2 ^ 25 -> 0 <= v < 32 -> bech32_step c v = c * 32 + v.
Proof.
  intros Hc Hv. unfold bech32_step.
  rewrite (Z.shiftr_div_pow2 c 25) by lia. rewrite (Z.div_small c (2 ^ 25)) by lia.
  rewrite !Z.bits_0. cbn [bsel]. rewrite !Z.lxor_0_r.
  change 33554431 with (Z.ones 25). rewrite Z.land_ones by lia. rewrite Z.mod_small by lia.
  rewrite <- Z.add_nocarry_lxor by (apply shiftl_land_zero; [lia|change (2 ^ 5) with 32; lia]).
  rewrite Z.shiftl_mul_pow2 by lia. reflexivity.
Qed.

(* the six checksum symbols, fed into PolyMod from state 0, reproduce the 30-bit word *)
Lemma polymod_from_0_six m : 0 <= m < 2 ^ 30 ->
  bech32_polymod_from 0 (map (fun i => Z.land (Z.shiftr m (5 * (5 - i))) 31) [0; 1; 2; 3; 4; 5]) = m.
Proof.
  intros Hm. cbn [map].
  change (5 * (5 - 0)) with 25. change (5 * (5 - 1)) with 20. change (5 * (5 - 2)) with 15.
  change (5 * (5 - 3)) with 10. change (5 * (5 - 4)) with 5. change (5 * (5 - 5)) with 0.
  change 31 with (Z.ones 5). rewrite !Z.land_ones by lia. rewrite !Z.shiftr_div_pow2 by lia.
  change (2 ^ 25) with 33554432 in *. change (2 ^ 20) with 1048576. change (2 ^ 15) with 32768.
  change (2 ^ 10) with 1024. change (2 ^ 5) with 32. change (2 ^ 0) with 1. change (2 ^ 30) with 1073741824 in *.
  set (d0 := (m / 33554432) mod 32). set (d1 := (m / 1048576) mod 32). set (d2 := (m / 32768) mod 32).
  set (d3 := (m / 1024) mod 32). set (d4 := (m / 32) mod 32). set (d5 := (m / 1) mod 32).
  assert (H0 : 0 <= d0 < 32) by (apply Z.mod_pos_bound; lia).
  assert (H1 : 0 <= d1 < 32) by (apply Z.mod_pos_bound; lia).
  assert (H2 : 0 <= d2 < 32) by (apply Z.mod_pos_bound; lia).
  assert (H3 : 0 <= d3 < 32) by (apply Z.mod_pos_bound; lia).
  assert (H4 : 0 <= d4 < 32) by (apply Z.mod_pos_bound; lia).
  assert (H5 : 0 <= d5 < 32) by (apply Z.mod_pos_bound; lia).
  assert (Hsum : ((((d0 * 32 + d1) * 32 + d2) * 32 + d3) * 32 + d4) * 32 + d5 = m).
  { unfold d0, d1, d2, d3, d4, d5. lia. }
  rewrite !polymod_from_cons.
  rewrite (bech32_step_small 0 d0) by (change (2 ^ 25) with 33554432; lia).
  rewrite (bech32_step_small _ d1) by (change (2 ^ 25) with 33554432; lia).
  rewrite (bech32_step_small _ d2) by (change (2 ^ 25) with 33554432; lia).
  rewrite (bech32_step_small _ d3) by (change (2 ^ 25) with 33554432; lia).
  rewrite (bech32_step_small _ d4) by (change (2 ^ 25) with 33554432; lia).
  rewrite (bech32_step_small _ d5) by (change (2 ^ 25) with 33554432; lia).
  cbn [bech32_polymod_from fold_left]. lia.
Qed.

Lemma expand_hrp_bound hrp : Forall (fun c => 0 <= c < 256) hrp ->
  Forall (fun v => 0 <= v < 2 ^ 30) (bech32_expand_hrp hrp).
Proof.
  intros H. unfold bech32_expand_hrp. apply Forall_app. split; [|constructor; [lia|]].
  - apply Forall_forall. intros v Hv. apply in_map_iff in Hv. destruct Hv as [c [<- Hc]].
    rewrite Forall_forall in H. specialize (H c Hc). rewrite Z.shiftr_div_pow2 by lia.
    change (2 ^ 5) with 32. change (2 ^ 30) with 1073741824. lia.
  - apply Forall_forall. intros v Hv. apply in_map_iff in Hv. destruct Hv as [c [<- Hc]].
    change 31 with (Z.ones 5). rewrite Z.land_ones by lia.
    change (2 ^ 5) with 32. change (2 ^ 30) with 1073741824. lia.
Qed.

Lemma bech32_const_bound enc : 0 <= bech32_const enc < 2 ^ 30.
Proof. unfold bech32_const, BECH32M_CONST. destruct (enc =? 1); change (2 ^ 30) with 1073741824; lia. Qed.

(* the checksum makes the residue equal to the encoding constant *)
Lemma bech32_checksum_verifies enc hrp values :
  Forall (fun c => 0 <= c < 256) hrp -> Forall (fun v => 0 <= v < 32) values ->
  bech32_polymod (bech32_expand_hrp hrp ++ values ++ bech32_create_checksum enc hrp values)
  = bech32_const enc.
Proof.
  intros Hh Hv. unfold bech32_create_checksum, bech32_polymod.
  rewrite !app_assoc. rewrite (polymod_from_app 1 _ [0; 0; 0; 0; 0; 0]).
  set (cm := bech32_polymod_from 1 (bech32_expand_hrp hrp ++ values)).
  rewrite polymod_from_app. fold cm.
  set (P0 := bech32_polymod_from cm [0; 0; 0; 0; 0; 0]).
  set (m := Z.lxor P0 (bech32_const enc)).
  set (cs := map _ _).
  assert (Hcm : 0 <= cm < 2 ^ 30).
  { apply polymod_from_bound; [change (2 ^ 30) with 1073741824; lia|].
    apply Forall_app. split; [apply expand_hrp_bound; exact Hh|].
    eapply Forall_impl; [|exact Hv]. cbn beta. intros; change (2 ^ 30) with 1073741824; lia. }
  assert (HP0 : 0 <= P0 < 2 ^ 30).
  { apply polymod_from_bound; [exact Hcm|]. repeat constructor; change (2 ^ 30) with 1073741824; lia. }
  assert (Hm : 0 <= m < 2 ^ 30) by (apply lxor_bound; [lia|exact HP0|apply bech32_const_bound]).
  rewrite <- (Z.lxor_0_l cm) at 1. rewrite polymod_from_xor.
  unfold cs. rewrite (polymod_from_0_six m Hm). rewrite map_length. cbn [length repeat]. fold P0.
  unfold m. rewrite Z.lxor_comm, <- Z.lxor_assoc, Z.lxor_nilpotent. apply Z.lxor_0_l.
Qed.

(* ========================================================================================== *)
(* Bech32: Encode / Decode                                                                    *)

Definition b32_facts (d : Z) : bool :=
  let c := bech32_char d in
  (bech32_rev c =? d) && (33 <=? c) && (c <=? 126) && negb ((65 <=? c) && (c <=? 90)) && negb (c =? 49).

Lemma b32_facts_all : forall d, 0 <= d < 32 -> b32_facts d = true.
Proof. apply (forall_range b32_facts 32). vm_compute. reflexivity. Qed.

Lemma b32_char_facts d : 0 <= d < 32 ->
  bech32_rev (bech32_char d) = d /\ 33 <= bech32_char d <= 126 /\
  ~ (65 <= bech32_char d <= 90) /\ bech32_char d <> 49.
Proof.
  intros H. pose proof (b32_facts_all d H) as F. unfold b32_facts in F.
  repeat (apply andb_true_iff in F; destruct F as [F ?]).
  repeat match goal with E : negb _ = true |- _ => apply negb_true_iff in E end.
  repeat split; try lia.
Qed.

Definition b32_rev_facts (c : Z) : bool := let d := bech32_rev c in (-1 <=? d) && (d <? 32).
Lemma b32_rev_facts_all : forall c, 0 <= c < 128 -> b32_rev_facts c = true.
Proof. apply (forall_range b32_rev_facts 128). vm_compute. reflexivity. Qed.

Lemma bech32_rev_range c : -1 <= bech32_rev c < 32.
Proof.
  destruct (Z_lt_dec c 0) as [Hn|Hn]; [|destruct (Z_lt_dec c 128) as [Hl|Hl]].
  - unfold bech32_rev, nth_z. destruct (c <? 0) eqn:E; lia.
  - pose proof (b32_rev_facts_all c ltac:(lia)) as F. unfold b32_rev_facts in F. lia.
  - unfold bech32_rev, nth_z. destruct (c <? 0) eqn:E; [lia|].
    rewrite nth_overflow; [lia|]. change (length bech32_charset_rev) with 128%nat. lia.
Qed.

Lemma bech32_rev_49 : bech32_rev 49 = -1.
Proof. reflexivity. Qed.

Lemma bech32_values_of_chars vs : digits_ok 32 vs -> bech32_values_of (map bech32_char vs) = Some vs.
Proof.
  induction vs as [|d r IH]; intros H; cbn [map bech32_values_of]; [reflexivity|].
  inversion H as [|? ? Hd Hr]; subst. destruct (b32_char_facts d Hd) as [E _]. rewrite E.
  destruct (d <? 0) eqn:E2; [lia|]. rewrite (IH Hr). reflexivity.
Qed.

Lemma bech32_values_of_app a b :
  bech32_values_of (a ++ b) =
  match bech32_values_of a, bech32_values_of b with
  | Some x, Some y => Some (x ++ y)
  | _, _ => None
  end.
Proof.
  induction a as [|c r IH]; cbn [app bech32_values_of].
  - destruct (bech32_values_of b); reflexivity.
  - destruct (bech32_rev c <? 0); [reflexivity|]. rewrite IH.
    destruct (bech32_values_of r); [|reflexivity]. destruct (bech32_values_of b); reflexivity.
Qed.

Lemma bech32_values_of_ok s vs : bech32_values_of s = Some vs -> digits_ok 32 vs /\ length vs = length s.
Proof.
  revert vs; induction s as [|c r IH]; intros vs; cbn [bech32_values_of].
  - intros [= <-]. split; [constructor|reflexivity].
  - destruct (bech32_rev c <? 0) eqn:E; [discriminate|].
    destruct (bech32_values_of r) as [vs'|]; [|discriminate]. intros [= <-].
    destruct (IH vs' eq_refl) as [H1 H2]. split; [|cbn; congruence].
    constructor; [|exact H1]. pose proof (bech32_rev_range c). lia.
Qed.

(* CheckCharacters accepts strings of printable characters without upper-case letters *)
Definition b32_plain (c : Z) : Prop := 33 <= c <= 126 /\ ~ (65 <= c <= 90).

Lemma cc_plain s : Forall b32_plain s -> forall lower,
  exists lower', fold_left cc_step s (lower, false, true) = (lower', false, true).
Proof.
  induction s as [|c r IH]; intros H lower; [exists lower; reflexivity|].
  inversion H as [|? ? [Hc1 Hc2] Hr]; subst. cbn [fold_left]. unfold cc_step at 2.
  destruct ((97 <=? c) && (c <=? 122)) eqn:E1; [apply IH; exact Hr|].
  destruct ((65 <=? c) && (c <=? 90)) eqn:E2; [lia|].
  destruct ((c <? 33) || (126 <? c)) eqn:E3; [lia|]. apply IH. exact Hr.
Qed.

Lemma check_characters_plain s : Forall b32_plain s -> bech32_check_characters s = true.
Proof.
  intros H. unfold bech32_check_characters. destruct (cc_plain s H false) as [l' E]. rewrite E. reflexivity.
Qed.

(* rfind *)
Lemma rfind_aux_absent c s : ~ In c s -> forall i found, rfind_aux c s i found = found.
Proof.
  induction s as [|x r IH]; intros Hn i found; [reflexivity|]. cbn [rfind_aux].
  destruct (x =? c) eqn:E; [apply Z.eqb_eq in E; subst; exfalso; apply Hn; left; reflexivity|].
  apply IH. intros Hin. apply Hn. right. exact Hin.
Qed.

Lemma rfind_aux_last c h d : ~ In c d -> forall i found,
  rfind_aux c (h ++ c :: d) i found = Some (i + length h)%nat.
Proof.
  intros Hn. induction h as [|x r IH]; intros i found; cbn [app rfind_aux length].
  - rewrite Z.eqb_refl. rewrite rfind_aux_absent by exact Hn. f_equal. lia.
  - rewrite IH. f_equal. lia.
Qed.

Lemma rfind_last c h d : ~ In c d -> rfind c (h ++ c :: d) = Some (length h).
Proof. intros Hn. unfold rfind. rewrite rfind_aux_last by exact Hn. reflexivity. Qed.

Lemma skipn_sep {A} (h : list A) x d : skipn (S (length h)) (h ++ x :: d) = d.
Proof. induction h as [|y r IH]; [reflexivity|]. cbn [length app]. rewrite skipn_cons. exact IH. Qed.

Lemma firstn_sep {A} (h : list A) x d : firstn (length h) (h ++ x :: d) = h.
Proof. induction h as [|y r IH]; [reflexivity|]. cbn [length app firstn]. f_equal. exact IH. Qed.

Lemma lower_plain hrp : Forall b32_plain hrp -> map bech32_lower hrp = hrp.
Proof.
  induction hrp as [|c r IH]; intros H; [reflexivity|]. inversion H as [|? ? [H1 H2] Hr]; subst.
  cbn [map]. rewrite (IH Hr). f_equal. unfold bech32_lower.
  destruct ((65 <=? c) && (c <=? 90)) eqn:E; [lia|reflexivity].
Qed.

Lemma checksum_digits enc hrp values : digits_ok 32 (bech32_create_checksum enc hrp values) /\
  length (bech32_create_checksum enc hrp values) = 6%nat.
Proof.
  unfold bech32_create_checksum. split; [|reflexivity].
  apply Forall_forall. intros v Hv. apply in_map_iff in Hv. destruct Hv as [i [<- _]].
  change 31 with (Z.ones 5). rewrite Z.land_ones by lia. change (2 ^ 5) with 32.
  apply Z.mod_pos_bound. lia.
Qed.

(* structure of a successful / failing Decode on a string whose separator position is known *)
Lemma bech32_decode_at h d : ~ In 49 d ->
  bech32_decode (h ++ 49 :: d) =
  if negb (bech32_check_characters (h ++ 49 :: d)) then None else
  if (90 <? length h + 1 + length d)%nat || (length h =? 0)%nat || (length d <? 6)%nat then None else
  match bech32_values_of d with
  | None => None
  | Some values =>
      let enc := bech32_verify_checksum (map bech32_lower h) values in
      if enc =? 0 then None else Some (enc, map bech32_lower h, firstn (length values - 6) values)
  end.
Proof.
  intros Hn. unfold bech32_decode. destruct (negb _); [reflexivity|].
  rewrite (rfind_last 49 h d Hn). rewrite app_length. cbn [length].
  replace (length h + S (length d))%nat with (length h + 1 + length d)%nat by lia.
  replace (length h + 1 + length d <? length h + 7)%nat with (length d <? 6)%nat.
  2:{ destruct (length d <? 6)%nat eqn:E1, (length h + 1 + length d <? length h + 7)%nat eqn:E2; try reflexivity.
      - apply Nat.ltb_lt in E1. apply Nat.ltb_ge in E2. lia.
      - apply Nat.ltb_ge in E1. apply Nat.ltb_lt in E2. lia. }
  destruct (_ || _ || _); [reflexivity|].
  rewrite skipn_sep, firstn_sep. reflexivity.
Qed.

Lemma bech32_roundtrip_l enc hrp values :
  enc = 1 \/ enc = 2 -> hrp <> [] -> Forall b32_plain hrp ->
  Forall (fun x => 0 <= x < 32) values -> (length hrp + 7 + length values <= 90)%nat ->
  bech32_decode (bech32_encode enc hrp values) = Some (enc, hrp, values).
Proof.
  intros Henc Hne Hhrp Hv Hlen. unfold bech32_encode.
  destruct (checksum_digits enc hrp values) as [Hcs Hcl].
  set (cs := bech32_create_checksum enc hrp values) in *.
  assert (Hall : digits_ok 32 (values ++ cs)) by (apply Forall_app; split; assumption).
  assert (Hdp : Forall b32_plain (map bech32_char (values ++ cs)) /\ ~ In 49 (map bech32_char (values ++ cs))).
  { split.
    - apply Forall_forall. intros c Hc. apply in_map_iff in Hc. destruct Hc as [d [<- Hd]].
      unfold digits_ok in Hall. rewrite Forall_forall in Hall. specialize (Hall d Hd).
      destruct (b32_char_facts d Hall) as [_ [H1 [H2 _]]]. split; assumption.
    - intros Hc. apply in_map_iff in Hc. destruct Hc as [d [E Hd]].
      unfold digits_ok in Hall. rewrite Forall_forall in Hall. specialize (Hall d Hd).
      destruct (b32_char_facts d Hall) as [_ [_ [_ H3]]]. contradiction. }
  destruct Hdp as [Hdp Hno1].
  rewrite (bech32_decode_at hrp _ Hno1).
  rewrite check_characters_plain.
  2:{ apply Forall_app. split; [exact Hhrp|]. constructor; [split; lia|exact Hdp]. }
  cbn [negb]. rewrite map_length, app_length, Hcl.
  destruct (90 <? length hrp + 1 + (length values + 6))%nat eqn:E1; [apply Nat.ltb_lt in E1; lia|].
  destruct (length hrp =? 0)%nat eqn:E2; [apply Nat.eqb_eq in E2; destruct hrp; [congruence|discriminate]|].
  destruct (length values + 6 <? 6)%nat eqn:E3; [apply Nat.ltb_lt in E3; lia|].
  cbn [orb]. rewrite (bech32_values_of_chars _ Hall). cbn zeta.
  rewrite (lower_plain hrp Hhrp).
  assert (Hver : bech32_verify_checksum hrp (values ++ cs) = enc).
  { unfold bech32_verify_checksum. unfold cs. rewrite bech32_checksum_verifies.
    - destruct Henc as [-> | ->]; reflexivity.
    - eapply Forall_impl; [|exact Hhrp]. intros c [H1 H2]. lia.
    - exact Hv. }
  rewrite Hver. destruct (enc =? 0) eqn:E4; [apply Z.eqb_eq in E4; lia|].
  rewrite app_length, Hcl. replace (length values + 6 - 6)%nat with (length values + 0)%nat by lia.
  rewrite firstn_app_2. cbn [firstn]. rewrite app_nil_r. reflexivity.
Qed.

(* ------------------------------------------------------------------------------------------ *)
(* single substitution errors are detected                                                     *)

(* syndrome of a single error value e followed by k further symbols *)
Definition b32_syndrome (e : Z) (k : nat) : Z := bech32_polymod_from e (repeat 0 k).

Definition b32_syndrome_ok (k e : Z) : bool :=
  let s := b32_syndrome e (Z.to_nat k) in
  negb (s =? 0) && negb (s =? Z.lxor 1 BECH32M_CONST).

Definition b32_row (k : Z) : bool :=
  forallb (fun e => (e =? 0) || b32_syndrome_ok k e) (map Z.of_nat (seq 0 32)).

(* finite sweep: 90 positions x 31 error values (stated without an intermediate constant so that the
   kernel never has to unfold it lazily) *)
Lemma b32_sweep_true : forallb b32_row (map Z.of_nat (seq 0 90)) = true.
Proof. vm_compute. reflexivity. Qed.

Lemma b32_row_true k : (k < 90)%nat -> b32_row (Z.of_nat k) = true.
Proof. intros Hk. apply (forall_range b32_row 90 b32_sweep_true). lia. Qed.

Lemma b32_syndrome_nonzero k e : (k < 90)%nat -> 1 <= e < 32 ->
  b32_syndrome e k <> 0 /\ b32_syndrome e k <> Z.lxor 1 BECH32M_CONST.
Proof.
  intros Hk He. pose proof (b32_row_true k Hk) as S1. unfold b32_row in S1.
  pose proof (forall_range _ 32 S1 e ltac:(lia)) as S2. cbn beta in S2.
  destruct (e =? 0) eqn:E; [apply Z.eqb_eq in E; lia|]. cbn [orb] in S2.
  unfold b32_syndrome_ok in S2. rewrite Nat2Z.id in S2.
  apply andb_true_iff in S2. destruct S2 as [A B].
  apply negb_true_iff in A, B. apply Z.eqb_neq in A, B. split; assumption.
Qed.

Lemma verify_checksum_cases hrp values :
  bech32_verify_checksum hrp values <> 0 ->
  bech32_polymod (bech32_expand_hrp hrp ++ values) = 1 \/
  bech32_polymod (bech32_expand_hrp hrp ++ values) = BECH32M_CONST.
Proof.
  unfold bech32_verify_checksum.
  destruct (_ =? 1) eqn:E1; [apply Z.eqb_eq in E1; auto|].
  destruct (_ =? BECH32M_CONST) eqn:E2; [apply Z.eqb_eq in E2; auto|]. congruence.
Qed.

Lemma bech32_detects_single_substitution_l h pre c post c' r :
  ~ In 49 (pre ++ c :: post) ->
  bech32_decode (h ++ 49 :: pre ++ c :: post) = Some r ->
  c' <> 49 -> bech32_rev c' <> bech32_rev c ->
  bech32_decode (h ++ 49 :: pre ++ c' :: post) = None.
Proof.
  intros Hno1 Hdec Hc49 Hdiff.
  assert (Hno1' : ~ In 49 (pre ++ c' :: post)).
  { intros Hin. apply Hno1. apply in_app_iff in Hin. apply in_app_iff.
    destruct Hin as [Hin|[Hin|Hin]]; [left; exact Hin|congruence|right; right; exact Hin]. }
  rewrite (bech32_decode_at h _ Hno1) in Hdec. rewrite (bech32_decode_at h _ Hno1').
  destruct (negb (bech32_check_characters (h ++ 49 :: pre ++ c' :: post))); [reflexivity|].
  destruct (negb (bech32_check_characters (h ++ 49 :: pre ++ c :: post))); [discriminate|].
  assert (Hl : length (pre ++ c' :: post) = length (pre ++ c :: post)) by (rewrite !app_length; reflexivity).
  rewrite Hl.
  destruct ((90 <? length h + 1 + length (pre ++ c :: post))%nat) eqn:E90; [discriminate|].
  cbn [orb] in *.
  destruct (_ || _); [reflexivity|].
  rewrite bech32_values_of_app in *. cbn [bech32_values_of] in *.
  destruct (bech32_values_of pre) as [vp|] eqn:Ep; [|reflexivity].
  destruct (bech32_rev c <? 0) eqn:Ec; [discriminate|].
  destruct (bech32_rev c' <? 0) eqn:Ec'; [reflexivity|].
  destruct (bech32_values_of post) as [vq|] eqn:Eq; [|reflexivity].
  cbn zeta in *.
  set (x := bech32_rev c) in *. set (x' := bech32_rev c') in *.
  assert (Hold : bech32_verify_checksum (map bech32_lower h) (vp ++ x :: vq) <> 0).
  { intros E. rewrite E in Hdec. discriminate. }
  assert (Hnew : bech32_verify_checksum (map bech32_lower h) (vp ++ x' :: vq) = 0); [|rewrite Hnew; reflexivity].
  apply verify_checksum_cases in Hold.
  unfold bech32_verify_checksum.
  set (ex := bech32_expand_hrp (map bech32_lower h)) in *.
  unfold bech32_polymod in *. rewrite app_assoc in *.
  rewrite (polymod_from_subst 1 (ex ++ vp) x x' vq).
  set (old := bech32_polymod_from 1 ((ex ++ vp) ++ x :: vq)) in *.
  (* the error value *)
  pose proof (bech32_rev_range c) as Rx. pose proof (bech32_rev_range c') as Rx'. fold x in Rx. fold x' in Rx'.
  assert (He : 1 <= Z.lxor x x' < 32).
  { pose proof (lxor_bound 5 x x' ltac:(lia) ltac:(change (2 ^ 5) with 32; lia) ltac:(change (2 ^ 5) with 32; lia)) as B.
    change (2 ^ 5) with 32 in B.
    assert (Z.lxor x x' <> 0); [|lia]. intros E0. apply Z.lxor_eq in E0. unfold x, x' in *. congruence. }
  assert (Hk : (length vq < 90)%nat).
  { apply bech32_values_of_ok in Eq. destruct Eq as [_ Eq]. rewrite Eq.
    apply Nat.ltb_ge in E90. rewrite app_length in E90. cbn [length] in E90. lia. }
  destruct (b32_syndrome_nonzero (length vq) (Z.lxor x x') Hk He) as [S0 S1].
  unfold b32_syndrome in S0, S1. set (syn := bech32_polymod_from (Z.lxor x x') (repeat 0 (length vq))) in *.
  assert (Hsyn : forall y, Z.lxor old syn = y -> syn = Z.lxor old y).
  { intros y <-. rewrite <- Z.lxor_assoc, Z.lxor_nilpotent, Z.lxor_0_l. reflexivity. }
  destruct (Z.lxor old syn =? 1) eqn:E1.
  { apply Z.eqb_eq in E1. apply Hsyn in E1. exfalso.
    destruct Hold as [Ho|Ho]; rewrite Ho in E1.
    - apply S0. rewrite E1. reflexivity.
    - apply S1. rewrite E1. apply Z.lxor_comm. }
  destruct (Z.lxor old syn =? BECH32M_CONST) eqn:E2; [|reflexivity].
  apply Z.eqb_eq in E2. apply Hsyn in E2. exfalso.
  destruct Hold as [Ho|Ho]; rewrite Ho in E2.
  - apply S1. exact E2.
  - apply S0. rewrite E2. apply Z.lxor_nilpotent.
Qed.

(* ========================================================================================== *)
(* The C++ digit-array loops of EncodeBase58 compute the Z-arithmetic model                    *)

Definition all_zero (l : list Z) : Prop := Forall (fun d => d = 0) l.

Lemma rv_all_zero T l : all_zero l -> rv T l = 0.
Proof. induction 1 as [|x r Hx _ IH]; cbn [rv]; [reflexivity|]. rewrite Hx, IH. lia. Qed.

Lemma rv_app T a b : rv T (a ++ b) = rv T a + T ^ Z.of_nat (length a) * rv T b.
Proof.
  induction a as [|x r IH]; cbn [app rv length].
  - rewrite Z.pow_0_r. lia.
  - rewrite IH, Nat2Z.inj_succ, Z.pow_succ_r by lia. ring.
Qed.

Lemma rv_bound T l : 0 < T -> digits_ok T l -> 0 <= rv T l < T ^ Z.of_nat (length l).
Proof.
  intros HT H. rewrite <- rv_rev, <- rev_length. apply be_value_bound; [exact HT|]. apply Forall_rev. exact H.
Qed.

Lemma all_zero_skipn n l : all_zero l -> all_zero (skipn n l).
Proof.
  intros H. unfold all_zero in *. rewrite Forall_forall in *. intros x Hx. apply H.
  rewrite <- (firstn_skipn n l). apply in_app_iff. right. exact Hx.
Qed.

Section BnPass.
  Variables mul base : Z.
  Hypothesis Hbase : 1 < base.
  Hypothesis Hmul : 0 <= mul.

  Lemma bn_pass_spec len : forall l carry i,
    digits_ok base l -> 0 <= carry -> all_zero (skipn (len - i) l) ->
    exists l' c' i',
      bn_pass mul base len l carry i = (l', c', i') /\
      rv base l' + c' * base ^ Z.of_nat (length l) = mul * rv base l + carry /\
      length l' = length l /\ digits_ok base l' /\ 0 <= c' /\ (i <= i')%nat /\
      all_zero (skipn (i' - i) l').
  Proof.
    induction l as [|d r IH]; intros carry i Hl Hc Hz.
    - exists [], carry, i. cbn [bn_pass rv length]. rewrite Z.pow_0_r.
      repeat split; try lia; try constructor. rewrite skipn_nil. constructor.
    - inversion Hl as [|? ? Hd Hr]; subst. cbn [bn_pass].
      destruct (negb (carry =? 0) || (i <? len)%nat) eqn:E.
      + set (c := carry + mul * d).
        assert (Hc0 : 0 <= c) by (unfold c; nia).
        assert (Hz' : all_zero (skipn (len - S i) r)).
        { destruct (len - i)%nat as [|k] eqn:Ek.
          - cbn [skipn] in Hz. inversion Hz; subst. apply all_zero_skipn. assumption.
          - cbn [skipn] in Hz. replace (len - S i)%nat with k by lia. exact Hz. }
        destruct (IH (c / base) (S i) Hr ltac:(apply Z.div_pos; lia) Hz')
          as [r' [c' [i' [H1 [H2 [H3 [H4 [H5 [H6 H7]]]]]]]]].
        rewrite H1. exists (c mod base :: r'), c', i'. split; [reflexivity|].
        split.
        { cbn [rv length]. rewrite Nat2Z.inj_succ, Z.pow_succ_r by lia.
          pose proof (Z.div_mod c base ltac:(lia)) as Hdm. unfold c in *. nia. }
        split; [cbn [length]; congruence|].
        split; [constructor; [apply Z.mod_pos_bound; lia|exact H4]|].
        split; [exact H5|]. split; [lia|].
        replace (i' - i)%nat with (S (i' - S i)) by lia. cbn [skipn]. exact H7.
      + apply orb_false_iff in E. destruct E as [E1 E2]. apply negb_false_iff, Z.eqb_eq in E1.
        apply Nat.ltb_ge in E2. subst carry.
        replace (len - i)%nat with 0%nat in Hz by lia. cbn [skipn] in Hz.
        exists (d :: r), 0, i. split; [reflexivity|].
        rewrite (rv_all_zero base (d :: r) Hz).
        repeat split; try lia; try assumption.
        replace (i - i)%nat with 0%nat by lia. exact Hz.
  Qed.
End BnPass.

(* capacity of the b58 array: 256^n <= 58^(n*138/100 + 1) *)
Definition cap_check (r : Z) : bool := 256 ^ r <=? 58 ^ (r * 138 / 100 + 1).
Lemma cap_check_all : forall r, 0 <= r < 100 -> cap_check r = true.
Proof. apply (forall_range cap_check 100). vm_compute. reflexivity. Qed.

Lemma cap_100 : 256 ^ 100 <= 58 ^ 138.
Proof. apply Z.leb_le. vm_compute. reflexivity. Qed.

Lemma b58_capacity n : 0 <= n -> 256 ^ n <= 58 ^ (n * 138 / 100 + 1).
Proof.
  intros Hn. pose proof (Z.div_mod n 100 ltac:(lia)) as Hdm.
  pose proof (Z.mod_pos_bound n 100 ltac:(lia)) as Hr.
  set (q := n / 100) in *. set (r := n mod 100) in *.
  assert (Hq : 0 <= q) by (apply Z.div_pos; lia).
  assert (E : n * 138 / 100 + 1 = 138 * q + (r * 138 / 100 + 1)).
  { rewrite Hdm. replace ((100 * q + r) * 138) with (138 * q * 100 + r * 138) by ring.
    rewrite Z_div_plus_full_l by lia. ring. }
  rewrite E. rewrite Hdm at 1.
  assert (0 <= r * 138 / 100) by (apply Z.div_pos; lia).
  rewrite !Z.pow_add_r by lia. rewrite !Z.pow_mul_r by lia.
  pose proof (cap_check_all r Hr) as Hc. unfold cap_check in Hc. apply Z.leb_le in Hc.
  rewrite Z.pow_add_r in Hc by lia.
  apply Z.mul_le_mono_nonneg.
  - apply Z.pow_nonneg. lia.
  - apply Z.pow_le_mono_l. split; [lia|exact cap_100].
  - apply Z.pow_nonneg. lia.
  - exact Hc.
Qed.

Lemma bn_loop_encode_spec : forall input arr len,
  digits_ok 58 arr -> all_zero (skipn len arr) -> bytes_ok input ->
  256 ^ Z.of_nat (length input) * (rv 58 arr + 1) <= 58 ^ Z.of_nat (length arr) ->
  exists arr' len',
    bn_loop 256 58 input arr len = Some (arr', len') /\
    rv 58 arr' = be_value 256 (rv 58 arr) input /\
    length arr' = length arr /\ digits_ok 58 arr' /\ all_zero (skipn len' arr').
Proof.
  induction input as [|x r IH]; intros arr len Harr Hz Hin Hcap.
  - exists arr, len. cbn [bn_loop be_value]. repeat split; assumption.
  - apply bytes_ok_cons in Hin. destruct Hin as [Hx Hr]. cbn [bn_loop].
    destruct (bn_pass_spec 256 58 ltac:(lia) ltac:(lia) len arr x 0%nat Harr ltac:(lia))
      as [a1 [c1 [i1 [H1 [H2 [H3 [H4 [H5 [H6 H7]]]]]]]]].
    { rewrite Nat.sub_0_r. exact Hz. }
    rewrite H1. rewrite Nat.sub_0_r in H7.
    pose proof (rv_bound 58 arr ltac:(lia) Harr) as Hb0.
    pose proof (rv_bound 58 a1 ltac:(lia) H4) as Hb1. rewrite H3 in Hb1.
    cbn [length] in Hcap. rewrite Nat2Z.inj_succ, Z.pow_succ_r in Hcap by lia.
    set (P := 58 ^ Z.of_nat (length arr)) in *.
    set (Q := 256 ^ Z.of_nat (length r)) in *.
    assert (HQ : 0 < Q) by (apply Z.pow_pos_nonneg; lia).
    assert (Hc1 : c1 = 0).
    { assert (256 * rv 58 arr + x + 1 <= P) by nia. nia. }
    subst c1. cbn [Z.eqb].
    assert (Hv : rv 58 a1 = rv 58 arr * 256 + x) by lia.
    destruct (IH a1 i1 H4 H7 Hr) as [a2 [l2 [G1 [G2 [G3 [G4 G5]]]]]].
    { rewrite H3. fold P. rewrite Hv. nia. }
    exists a2, l2. split; [exact G1|]. split; [|split; [congruence|split; assumption]].
    rewrite G2, Hv. cbn [be_value]. reflexivity.
Qed.

Lemma be_value_drop_zeros base l : be_value base 0 (drop_while (Z.eqb 0) l) = be_value base 0 l.
Proof.
  induction l as [|x r IH]; cbn [drop_while]; [reflexivity|].
  destruct (0 =? x) eqn:E; [|reflexivity]. apply Z.eqb_eq in E. subst x. rewrite IH. reflexivity.
Qed.

Lemma digits_ok_drop_while base p l : digits_ok base l -> digits_ok base (drop_while p l).
Proof.
  intros H. unfold digits_ok in *. rewrite Forall_forall in *. intros x Hx. apply H.
  rewrite <- (take_drop_while p l). apply in_app_iff. right. exact Hx.
Qed.

Lemma digits_ok_firstn base n l : digits_ok base l -> digits_ok base (firstn n l).
Proof.
  intros H. unfold digits_ok in *. rewrite Forall_forall in *. intros x Hx. apply H.
  rewrite <- (firstn_skipn n l). apply in_app_iff. left. exact Hx.
Qed.

Lemma repeat_zero_facts n : digits_ok 58 (repeat 0 n) /\ all_zero (repeat 0 n) /\ rv 58 (repeat 0 n) = 0.
Proof.
  assert (A : all_zero (repeat 0 n)).
  { apply Forall_forall. intros x Hx. apply repeat_spec in Hx. exact Hx. }
  split; [|split; [exact A|apply rv_all_zero; exact A]].
  apply Forall_forall. intros x Hx. apply repeat_spec in Hx. lia.
Qed.

(* EncodeBase58's loops never trip the assert and return exactly [base58_encode] *)
Lemma base58_encode_loops_correct b : bytes_ok b -> base58_encode_loops b = Some (base58_encode b).
Proof.
  intros Hb. unfold base58_encode_loops, base58_encode.
  set (zs := take_while (Z.eqb 0) b). set (rest := drop_while (Z.eqb 0) b).
  assert (Hrest_ok : bytes_ok rest).
  { unfold bytes_ok in Hb. rewrite <- (take_drop_while (Z.eqb 0) b) in Hb. apply Forall_app in Hb. exact (proj2 Hb). }
  set (size := Z.to_nat (Z.of_nat (length rest) * 138 / 100 + 1)).
  destruct (repeat_zero_facts size) as [Z1 [Z2 Z3]].
  destruct (bn_loop_encode_spec rest (repeat 0 size) 0%nat Z1 Z2 Hrest_ok) as [arr [len [H1 [H2 [H3 [H4 H5]]]]]].
  { rewrite Z3, repeat_length. unfold size. rewrite Z2Nat.id.
    - pose proof (b58_capacity (Z.of_nat (length rest)) ltac:(lia)). lia.
    - assert (0 <= Z.of_nat (length rest) * 138 / 100) by (apply Z.div_pos; lia). lia. }
  rewrite H1. rewrite Z3 in H2. f_equal. f_equal. f_equal.
  set (D := drop_while (Z.eqb 0) (rev (firstn len arr))).
  assert (HDok : digits_ok 58 D).
  { apply digits_ok_drop_while. apply Forall_rev. apply digits_ok_firstn. exact H4. }
  assert (HDn : no_lead_zero D).
  { pose proof (drop_while_head_fails (Z.eqb 0) (rev (firstn len arr))) as Hf. fold D in Hf.
    destruct D as [|h t]; [exact I|]. cbn [head_fails] in Hf. cbn [no_lead_zero].
    apply Z.eqb_neq in Hf. lia. }
  assert (HDv : be_value 58 0 D = be_value 256 0 rest).
  { unfold D. rewrite be_value_drop_zeros, rv_rev. rewrite <- H2.
    rewrite <- (firstn_skipn len arr) at 2. rewrite rv_app, (rv_all_zero 58 _ H5). lia. }
  pose proof (be_value_bound 256 rest ltac:(lia) Hrest_ok) as HV.
  pose proof (pow256_le_58 (length rest)) as Hp.
  rewrite <- HDv.
  rewrite (be_digits_of_value 58 ltac:(lia) D [] (2 * length rest) HDok HDn) by (rewrite HDv; lia).
  rewrite app_nil_r. reflexivity.
Qed.

(* ========================================================================================== *)
(* The C++ loops of DecodeBase58 compute the Z-arithmetic model                                *)

Section BnPassLen.
  Variables mul base : Z.
  Hypothesis Hbase : 1 < base.
  Hypothesis Hmul : 0 <= mul.

  (* where the inner loop stops *)
  Lemma bn_pass_len len : forall l carry i l' c' i',
    digits_ok base l -> 0 <= carry ->
    bn_pass mul base len l carry i = (l', c', i') ->
    (i <= i')%nat /\ (Nat.min len (i + length l) <= i')%nat /\
    ((i' <= Nat.max i len)%nat \/
     ((i < i')%nat /\ base ^ Z.of_nat (i' - i - 1) <= mul * rv base l + carry)).
  Proof.
    induction l as [|d r IH]; intros carry i l' c' i' Hl Hc E.
    - cbn [bn_pass] in E. injection E as <- <- <-. cbn [length]. repeat split; try lia.
    - inversion Hl as [|? ? Hd Hr]; subst. cbn [bn_pass] in E.
      destruct (negb (carry =? 0) || (i <? len)%nat) eqn:Ec.
      + set (c := carry + mul * d) in *.
        assert (Hc0 : 0 <= c) by (unfold c; nia).
        destruct (bn_pass mul base len r (c / base) (S i)) as [[r1 c1] i1] eqn:E1.
        injection E as <- <- <-.
        destruct (IH (c / base) (S i) r1 c1 i1 Hr ltac:(apply Z.div_pos; lia) E1) as [G1 [G2 G3]].
        cbn [length]. split; [lia|]. split; [lia|].
        pose proof (rv_bound base r ltac:(lia) Hr) as Hrv.
        destruct G3 as [G3|[G3 G4]].
        * apply orb_true_iff in Ec. destruct Ec as [Ec|Ec].
          -- destruct (Nat.lt_ge_cases i len) as [Hlt|Hge]; [left; lia|].
             right. split; [lia|]. replace (i1 - i - 1)%nat with 0%nat by lia.
             apply negb_true_iff, Z.eqb_neq in Ec. cbn [rv]. change (base ^ Z.of_nat 0) with 1. nia.
          -- apply Nat.ltb_lt in Ec. left. lia.
        * right. split; [lia|].
          replace (i1 - i - 1)%nat with (S (i1 - S i - 1)) by lia.
          rewrite Nat2Z.inj_succ, Z.pow_succ_r by lia. cbn [rv].
          pose proof (Z.div_mod c base ltac:(lia)) as Hdm.
          pose proof (Z.mod_pos_bound c base ltac:(lia)) as Hmb.
          set (P := base ^ Z.of_nat (i1 - S i - 1)) in *. unfold c in *. nia.
      + injection E as <- <- <-. apply orb_false_iff in Ec. destruct Ec as [_ Ec].
        apply Nat.ltb_ge in Ec. cbn [length]. repeat split; try lia.
  Qed.
End BnPassLen.

(* byte length of a number *)
Definition blen_is (V : Z) (len : nat) : Prop :=
  (V = 0 /\ len = 0%nat) \/ ((1 <= len)%nat /\ 256 ^ Z.of_nat (len - 1) <= V < 256 ^ Z.of_nat len).

Lemma blen_mono V1 V2 l1 l2 : 0 <= V1 <= V2 -> blen_is V1 l1 -> blen_is V2 l2 -> (l1 <= l2)%nat.
Proof.
  intros HV [[A1 A2]|[A1 A2]] [[B1 B2]|[B1 B2]].
  - lia.
  - lia.
  - assert (0 < 256 ^ Z.of_nat (l1 - 1)) by (apply Z.pow_pos_nonneg; lia). lia.
  - destruct (Nat.le_gt_cases l1 l2) as [H|H]; [exact H|exfalso].
    assert (256 ^ Z.of_nat l2 <= 256 ^ Z.of_nat (l1 - 1)) by (apply Z.pow_le_mono_r; lia). lia.
Qed.

Lemma blen_unique V l1 l2 : 0 <= V -> blen_is V l1 -> blen_is V l2 -> l1 = l2.
Proof.
  intros HV H1 H2. pose proof (blen_mono V V l1 l2 ltac:(lia) H1 H2).
  pose proof (blen_mono V V l2 l1 ltac:(lia) H2 H1). lia.
Qed.

(* state of the b256 array *)
Definition dec_state (arr : list Z) (len : nat) : Prop :=
  digits_ok 256 arr /\ all_zero (skipn len arr) /\ (len <= length arr)%nat /\ blen_is (rv 256 arr) len.

Lemma be_value_ge base acc l : 0 < base -> 0 <= acc -> digits_ok base l -> acc <= be_value base acc l.
Proof.
  intros Hb. revert acc; induction l as [|d r IH]; intros acc Ha Hl; cbn [be_value]; [lia|].
  inversion Hl as [|? ? Hd Hr]; subst. specialize (IH (acc * base + d) ltac:(nia) Hr). nia.
Qed.

Lemma rv_firstn_zero T n l : all_zero (skipn n l) -> rv T (firstn n l) = rv T l.
Proof.
  intros Hz. rewrite <- (firstn_skipn n l) at 2. rewrite rv_app, (rv_all_zero T _ Hz). lia.
Qed.

(* one character of the decode loop *)
Lemma dec_step arr len d :
  dec_state arr len -> 0 <= d < 58 -> 58 * rv 256 arr + d < 256 ^ Z.of_nat (length arr) ->
  exists arr' i',
    bn_pass 58 256 len arr d 0%nat = (arr', 0, i') /\ dec_state arr' i' /\
    rv 256 arr' = rv 256 arr * 58 + d /\ length arr' = length arr /\ (len <= i')%nat.
Proof.
  intros [Hok [Hz [Hlen Hbl]]] Hd Hcap.
  destruct (bn_pass_spec 58 256 ltac:(lia) ltac:(lia) len arr d 0%nat Hok ltac:(lia))
    as [a1 [c1 [i1 [H1 [H2 [H3 [H4 [H5 [H6 H7]]]]]]]]].
  { rewrite Nat.sub_0_r. exact Hz. }
  rewrite Nat.sub_0_r in H7.
  destruct (bn_pass_len 58 256 ltac:(lia) ltac:(lia) len arr d 0%nat a1 c1 i1 Hok ltac:(lia) H1) as [_ [L1 L2]].
  pose proof (rv_bound 256 a1 ltac:(lia) H4) as Hb1. rewrite H3 in Hb1.
  pose proof (rv_bound 256 arr ltac:(lia) Hok) as Hb0.
  assert (Hc1 : c1 = 0).
  { set (P := 256 ^ Z.of_nat (length arr)) in *. nia. }
  subst c1. exists a1, i1. split; [exact H1|].
  assert (Hv : rv 256 a1 = rv 256 arr * 58 + d) by lia.
  assert (Hi1 : (i1 <= length a1)%nat).
  { (* beyond the array nothing is consumed *)
    destruct (Nat.le_gt_cases i1 (length a1)) as [H|H]; [exact H|exfalso].
    destruct L2 as [L2|[_ L2]].
    - lia.
    - rewrite Nat.sub_0_r in L2.
      assert (256 ^ Z.of_nat (length arr) <= 256 ^ Z.of_nat (i1 - 1)) by (apply Z.pow_le_mono_r; lia).
      lia. }
  assert (Hlt : rv 256 a1 < 256 ^ Z.of_nat i1).
  { rewrite <- (rv_firstn_zero 256 i1 a1 H7).
    pose proof (rv_bound 256 (firstn i1 a1) ltac:(lia) (digits_ok_firstn 256 i1 a1 H4)) as B.
    rewrite firstn_length, Nat.min_l in B by exact Hi1. lia. }
  split; [|split; [exact Hv|split; [exact H3|lia]]].
  split; [exact H4|]. split; [exact H7|]. split; [exact Hi1|].
  destruct (Z.eq_dec (rv 256 a1) 0) as [E0|E0].
  - (* value still zero: nothing was written *)
    left. split; [exact E0|].
    assert (rv 256 arr = 0 /\ d = 0) as [Ea Ed] by lia.
    assert (len = 0%nat).
    { destruct Hbl as [[_ B]|[B1 B2]]; [exact B|].
      assert (0 < 256 ^ Z.of_nat (len - 1)) by (apply Z.pow_pos_nonneg; lia). lia. }
    destruct L2 as [L2|[_ L2]]; [lia|].
    assert (0 < 256 ^ Z.of_nat (i1 - 0 - 1)) by (apply Z.pow_pos_nonneg; lia). lia.
  - right.
    assert (Hi1pos : (1 <= i1)%nat).
    { destruct i1; [|lia]. change (256 ^ Z.of_nat 0) with 1 in Hlt. lia. }
    split; [exact Hi1pos|]. split; [|exact Hlt].
    destruct L2 as [L2|[_ L2]].
    + assert (i1 = len) by lia. subst i1.
      destruct Hbl as [[B1 B2]|[B1 B2]]; [lia|]. lia.
    + rewrite Nat.sub_0_r in L2. lia.
Qed.

(* capacity of the b256 array: 58^n <= 256^(n*733/1000 + 1) *)
Lemma cap_1000 : 58 ^ 1000 <= 256 ^ 733.
Proof. apply Z.leb_le. vm_compute. reflexivity. Qed.

Lemma b256_capacity n : 0 <= n -> 58 ^ n <= 256 ^ (n * 733 / 1000 + 1).
Proof.
  intros Hn. set (k := n * 733 / 1000).
  assert (Hk : 0 <= k) by (apply Z.div_pos; lia).
  assert (Hkn : 733 * n <= 1000 * (k + 1)).
  { pose proof (Z.div_mod (n * 733) 1000 ltac:(lia)) as Hdm.
    pose proof (Z.mod_pos_bound (n * 733) 1000 ltac:(lia)) as Hr. fold k in Hdm. lia. }
  destruct (Z_le_gt_dec (58 ^ n) (256 ^ (k + 1))) as [H|H]; [exact H|exfalso].
  assert (H1 : (256 ^ (k + 1)) ^ 1000 < (58 ^ n) ^ 1000).
  { apply Z.pow_lt_mono_l; [lia|]. split; [apply Z.pow_nonneg; lia|lia]. }
  rewrite <- !Z.pow_mul_r in H1 by lia.
  assert (H2 : 58 ^ (n * 1000) <= 256 ^ (733 * n)).
  { rewrite (Z.mul_comm n 1000), !Z.pow_mul_r by lia.
    apply Z.pow_le_mono_l. split; [apply Z.pow_nonneg; lia|exact cap_1000]. }
  assert (H3 : 256 ^ (733 * n) <= 256 ^ ((k + 1) * 1000)) by (apply Z.pow_le_mono_r; lia).
  lia.
Qed.

Lemma b58dec_loop_spec zeroes max : forall s arr len,
  dec_state arr len -> (zeroes + len <= max)%nat ->
  (rv 256 arr + 1) * 58 ^ Z.of_nat (length s) <= 256 ^ Z.of_nat (length arr) ->
  match b58_digits_of (take_while not_space s) with
  | None => b58dec_loop s arr len zeroes max = None
  | Some ds =>
      forall L, blen_is (be_value 58 (rv 256 arr) ds) L ->
      if (zeroes + L <=? max)%nat then
        exists arr', b58dec_loop s arr len zeroes max = Some (arr', L, drop_while not_space s) /\
                     dec_state arr' L /\ rv 256 arr' = be_value 58 (rv 256 arr) ds
      else b58dec_loop s arr len zeroes max = None
  end.
Proof.
  induction s as [|ch r IH]; intros arr len Hst Hchk Hcap.
  - cbn [take_while b58_digits_of be_value b58dec_loop drop_while]. intros L HL.
    destruct Hst as [Hok [Hz [Hlen Hbl]]].
    pose proof (rv_bound 256 arr ltac:(lia) Hok) as Hb.
    rewrite (blen_unique (rv 256 arr) L len ltac:(lia) HL Hbl).
    destruct (zeroes + len <=? max)%nat eqn:E; [|apply Nat.leb_gt in E; lia].
    exists arr. split; [reflexivity|]. split; [repeat split; assumption|reflexivity].
  - cbn [take_while b58dec_loop drop_while]. unfold not_space at 1 3.
    destruct (is_space ch) eqn:Esp; cbn [negb].
    + cbn [b58_digits_of be_value]. intros L HL.
      destruct Hst as [Hok [Hz [Hlen Hbl]]].
      pose proof (rv_bound 256 arr ltac:(lia) Hok) as Hb.
      rewrite (blen_unique (rv 256 arr) L len ltac:(lia) HL Hbl).
      destruct (zeroes + len <=? max)%nat eqn:E; [|apply Nat.leb_gt in E; lia].
      exists arr. split; [reflexivity|]. split; [repeat split; assumption|reflexivity].
    + cbn [b58_digits_of]. destruct (b58_digit ch <? 0) eqn:Ed; [reflexivity|].
      set (d := b58_digit ch) in *.
      assert (Hd : 0 <= d < 58).
      { unfold d. destruct (b58_digit_cases ch) as [[H _]|[H _]]; lia. }
      pose proof (rv_bound 256 arr ltac:(lia) (proj1 Hst)) as Hb.
      cbn [length] in Hcap. rewrite Nat2Z.inj_succ, Z.pow_succ_r in Hcap by lia.
      assert (HQ : 0 < 58 ^ Z.of_nat (length r)) by (apply Z.pow_pos_nonneg; lia).
      destruct (dec_step arr len d Hst Hd) as [a1 [i1 [H1 [H2 [H3 [H4 H5]]]]]].
      { set (Q := 58 ^ Z.of_nat (length r)) in *. nia. }
      rewrite H1. cbn [Z.eqb negb].
      assert (Hcap1 : (rv 256 a1 + 1) * 58 ^ Z.of_nat (length r) <= 256 ^ Z.of_nat (length a1)).
      { rewrite H3, H4. set (Q := 58 ^ Z.of_nat (length r)) in *. nia. }
      destruct (max <? i1 + zeroes)%nat eqn:Emax.
      * apply Nat.ltb_lt in Emax.
        destruct (b58_digits_of (take_while not_space r)) as [ds|] eqn:Eds; [|reflexivity].
        intros L HL. cbn [be_value] in HL.
        replace (0 * 58 + d) with d in HL by lia.
        assert (Hds : digits_ok 58 ds) by (apply (b58_digits_of_ok _ _ Eds)).
        assert (HiL : (i1 <= L)%nat).
        { apply (blen_mono (rv 256 a1) (be_value 58 (rv 256 arr * 58 + d) ds)); [|exact (proj2 (proj2 (proj2 H2)))|exact HL].
          rewrite H3. split; [nia|]. apply be_value_ge; [lia|nia|exact Hds]. }
        destruct (zeroes + L <=? max)%nat eqn:E; [apply Nat.leb_le in E; lia|reflexivity].
      * apply Nat.ltb_ge in Emax.
        specialize (IH a1 i1 H2 ltac:(lia) Hcap1).
        destruct (b58_digits_of (take_while not_space r)) as [ds|] eqn:Eds; [|exact IH].
        intros L HL. cbn [be_value] in HL. rewrite <- H3 in HL.
        specialize (IH L HL). cbn [be_value]. rewrite <- H3. exact IH.
Qed.

Lemma map_const_repeat {A} (l : list A) : map (fun _ => 0) l = repeat 0 (length l).
Proof. induction l as [|x r IH]; cbn; [reflexivity|]. f_equal. exact IH. Qed.

Lemma base58_decode_loops_correct s n : base58_decode_loops s n = base58_decode s n.
Proof.
  unfold base58_decode_loops, base58_decode.
  destruct (existsb (Z.eqb 0) s); [reflexivity|].
  set (s1 := drop_while is_space s). set (ones := take_while (Z.eqb 49) s1).
  set (s2 := drop_while (Z.eqb 49) s1).
  set (size := Z.to_nat (Z.of_nat (length s2) * 733 / 1000 + 1)).
  destruct (n <? length ones)%nat eqn:En.
  { apply Nat.ltb_lt in En. destruct (b58_digits_of _); [|reflexivity].
    destruct (negb _); [reflexivity|].
    destruct (_ <=? n)%nat eqn:E; [apply Nat.leb_le in E; lia|reflexivity]. }
  apply Nat.ltb_ge in En.
  destruct (repeat_zero_facts size) as [_ [Z2 _]].
  assert (Z1 : digits_ok 256 (repeat 0 size)).
  { apply Forall_forall. intros x Hx. apply repeat_spec in Hx. lia. }
  assert (Z3 : rv 256 (repeat 0 size) = 0) by (apply rv_all_zero; exact Z2).
  assert (Hst : dec_state (repeat 0 size) 0).
  { split; [exact Z1|]. split; [exact Z2|]. split; [lia|]. left. split; [exact Z3|reflexivity]. }
  pose proof (b58dec_loop_spec (length ones) n s2 (repeat 0 size) 0%nat Hst ltac:(lia)) as Hspec.
  rewrite Z3, repeat_length in Hspec.
  assert (Hcap : (0 + 1) * 58 ^ Z.of_nat (length s2) <= 256 ^ Z.of_nat size).
  { unfold size. rewrite Z2Nat.id.
    - pose proof (b256_capacity (Z.of_nat (length s2)) ltac:(lia)). lia.
    - assert (0 <= Z.of_nat (length s2) * 733 / 1000) by (apply Z.div_pos; lia). lia. }
  specialize (Hspec Hcap).
  destruct (b58_digits_of (take_while not_space s2)) as [ds|] eqn:Eds; [|rewrite Hspec; reflexivity].
  destruct (b58_digits_of_ok _ _ Eds) as [Hds _].
  set (V := be_value 58 0 ds) in *.
  pose proof (be_value_bound 58 ds ltac:(lia) Hds) as HV. fold V in HV.
  assert (HV256 : V < 256 ^ Z.of_nat (length ds)).
  { assert (58 ^ Z.of_nat (length ds) <= 256 ^ Z.of_nat (length ds)) by (apply Z.pow_le_mono_l; lia). lia. }
  destruct (be_digits_spec 256 ltac:(lia) (length ds) V [] ltac:(lia)) as [out [Hout [Hook [Hon Hov]]]].
  rewrite app_nil_r in Hout. rewrite Hout.
  (* the canonical digit string has the byte length of V *)
  assert (HL : blen_is V (length out)).
  { destruct out as [|h t].
    - left. cbn in Hov. split; [lia|reflexivity].
    - right. cbn [length]. split; [lia|].
      pose proof (be_value_bound 256 (h :: t) ltac:(lia) Hook) as B. rewrite Hov in B. cbn [length] in B.
      split; [|lia]. replace (S (length t) - 1)%nat with (length t) by lia.
      cbn [be_value] in Hov. rewrite be_value_acc in Hov.
      inversion Hook as [|? ? Hh Ht]; subst. cbn [no_lead_zero] in Hon.
      pose proof (be_value_bound 256 t ltac:(lia) Ht) as Bt.
      set (P := 256 ^ Z.of_nat (length t)) in *. nia. }
  specialize (Hspec (length out) HL).
  destruct (length ones + length out <=? n)%nat eqn:Echk.
  - destruct Hspec as [arr' [Hloop [[Hok' [Hz' [Hlen' Hbl']]] Hrv']]]. rewrite Hloop.
    destruct (negb (forallb is_space (drop_while not_space s2))); [reflexivity|].
    f_equal. rewrite map_const_repeat. f_equal.
    (* rev (firstn L arr') is the canonical digit string of V *)
    set (L := length out) in *. set (D := rev (firstn L arr')).
    assert (HDok : digits_ok 256 D) by (apply Forall_rev, digits_ok_firstn; exact Hok').
    assert (HDv : be_value 256 0 D = V).
    { unfold D. rewrite rv_rev, (rv_firstn_zero 256 L arr' Hz'). exact Hrv'. }
    assert (HDlen : length D = L).
    { unfold D. rewrite rev_length, firstn_length. lia. }
    assert (HDn : no_lead_zero D).
    { destruct D as [|h t] eqn:ED; [exact I|]. cbn [no_lead_zero]. intros Eh. subst h.
      cbn [be_value] in HDv. replace (0 * 256 + 0) with 0 in HDv by lia.
      assert (HDt : digits_ok 256 t) by (inversion HDok; assumption).
      pose proof (be_value_bound 256 t ltac:(lia) HDt) as Bt. rewrite HDv in Bt.
      cbn [length] in HDlen.
      destruct HL as [[A1 A2]|[A1 A2]]; [unfold L in *; lia|].
      fold L in A2. replace (L - 1)%nat with (length t) in A2 by lia. lia. }
    rewrite <- Hout. rewrite <- HDv.
    rewrite (be_digits_of_value 256 ltac:(lia) D [] (length ds) HDok HDn) by (rewrite HDv; exact HV256).
    rewrite app_nil_r. reflexivity.
  - rewrite Hspec. destruct (negb _); reflexivity.
Qed.

(* ========================================================================================== *)
(* value.h level                                                                              *)

Lemma value_bech32_roundtrip_l m hrp data :
  hrp <> [] -> Forall b32_plain hrp -> bytes_ok data ->
  Z.of_nat (length hrp) + 8 + (8 * Z.of_nat (length data) + 4) / 5 <= 90 ->
  value_bech32_dec_full (value_bech32_enc m hrp data)
  = B32Data true (if m then 2 else 1) hrp 1 data.
Proof.
  intros Hne Hh Hd Hlen. unfold value_bech32_enc, value_bech32_dec_full.
  destruct (convert_bits_8_5_spec data Hd) as [v [H1 [H2 [H3 H4]]]]. rewrite H1.
  rewrite bech32_roundtrip_l.
  - rewrite (convert_bits_5_8_back v data H2 Hd H3 H4). reflexivity.
  - destruct m; auto.
  - exact Hne.
  - exact Hh.
  - constructor; [lia|exact H2].
  - cbn [length]. lia.
Qed.

Lemma value_bech32_dec_roundtrip_l m hrp data :
  hrp <> [] -> Forall b32_plain hrp -> bytes_ok data ->
  Z.of_nat (length hrp) + 8 + (8 * Z.of_nat (length data) + 4) / 5 <= 90 ->
  value_bech32_dec (value_bech32_enc m hrp data) = Some data.
Proof.
  intros. unfold value_bech32_dec. rewrite value_bech32_roundtrip_l by assumption. reflexivity.
Qed.

(* ========================================================================================== *)
(* test vectors (strings are written as lists of character codes)                             *)

(* hex  <-> "" *)
Example ex_b58_enc_0 :
  base58_encode [] = [].
Proof. vm_compute; repeat split; reflexivity. Qed.

(* the loop transliteration agrees *)
Example ex_b58_loops_0 :
  base58_encode_loops [] = Some [].
Proof. vm_compute; repeat split; reflexivity. Qed.

(* decode, max_ret_len = length *)
Example ex_b58_dec_0 :
  base58_decode [] 0 = Some [] /\ base58_decode_loops [] 0 = Some [].
Proof. vm_compute; repeat split; reflexivity. Qed.

(* hex 00 <-> "1" *)
Example ex_b58_enc_1 :
  base58_encode [0] = [49].
Proof. vm_compute; repeat split; reflexivity. Qed.

(* the loop transliteration agrees *)
Example ex_b58_loops_1 :
  base58_encode_loops [0] = Some [49].
Proof. vm_compute; repeat split; reflexivity. Qed.

(* decode, max_ret_len = length *)
Example ex_b58_dec_1 :
  base58_decode [49] 1 = Some [0] /\ base58_decode_loops [49] 1 = Some [0].
Proof. vm_compute; repeat split; reflexivity. Qed.

(* hex 61 <-> "2g" *)
Example ex_b58_enc_2 :
  base58_encode [97] = [50; 103].
Proof. vm_compute; repeat split; reflexivity. Qed.

(* the loop transliteration agrees *)
Example ex_b58_loops_2 :
  base58_encode_loops [97] = Some [50; 103].
Proof. vm_compute; repeat split; reflexivity. Qed.

(* decode, max_ret_len = length *)
Example ex_b58_dec_2 :
  base58_decode [50; 103] 1 = Some [97] /\ base58_decode_loops [50; 103] 1 = Some [97].
Proof. vm_compute; repeat split; reflexivity. Qed.

(* hex 626262 <-> "a3gV" *)
Example ex_b58_enc_3 :
  base58_encode [98; 98; 98] = [97; 51; 103; 86].
Proof. vm_compute; repeat split; reflexivity. Qed.

(* the loop transliteration agrees *)
Example ex_b58_loops_3 :
  base58_encode_loops [98; 98; 98] = Some [97; 51; 103; 86].
Proof. vm_compute; repeat split; reflexivity. Qed.

(* decode, max_ret_len = length *)
Example ex_b58_dec_3 :
  base58_decode [97; 51; 103; 86] 3 = Some [98; 98; 98] /\ base58_decode_loops [97; 51; 103; 86] 3 = Some [98; 98; 98].
Proof. vm_compute; repeat split; reflexivity. Qed.

(* hex 636363 <-> "aPEr" *)
Example ex_b58_enc_4 :
  base58_encode [99; 99; 99] = [97; 80; 69; 114].
Proof. vm_compute; repeat split; reflexivity. Qed.

(* the loop transliteration agrees *)
Example ex_b58_loops_4 :
  base58_encode_loops [99; 99; 99] = Some [97; 80; 69; 114].
Proof. vm_compute; repeat split; reflexivity. Qed.

(* decode, max_ret_len = length *)
Example ex_b58_dec_4 :
  base58_decode [97; 80; 69; 114] 3 = Some [99; 99; 99] /\ base58_decode_loops [97; 80; 69; 114] 3 = Some [99; 99; 99].
Proof. vm_compute; repeat split; reflexivity. Qed.

(* hex 00000000000000000000 <-> "1111111111" *)
Example ex_b58_enc_5 :
  base58_encode [0; 0; 0; 0; 0; 0; 0; 0; 0; 0] = [49; 49; 49; 49; 49; 49; 49; 49; 49; 49].
Proof. vm_compute; repeat split; reflexivity. Qed.

(* the loop transliteration agrees *)
Example ex_b58_loops_5 :
  base58_encode_loops [0; 0; 0; 0; 0; 0; 0; 0; 0; 0] = Some [49; 49; 49; 49; 49; 49; 49; 49; 49; 49].
Proof. vm_compute; repeat split; reflexivity. Qed.

(* decode, max_ret_len = length *)
Example ex_b58_dec_5 :
  base58_decode [49; 49; 49; 49; 49; 49; 49; 49; 49; 49] 10 = Some [0; 0; 0; 0; 0; 0; 0; 0; 0; 0] /\ base58_decode_loops [49; 49; 49; 49; 49; 49; 49; 49; 49; 49] 10 = Some [0; 0; 0; 0; 0; 0; 0; 0; 0; 0].
Proof. vm_compute; repeat split; reflexivity. Qed.

(* hex 00010966776006953D5567439E5E39F86A0D273BEED61967F6 <-> "16UwLL9Risc3QfPqBUvKofHmBQ7wMtjvM" *)
Example ex_b58_enc_6 :
  base58_encode [0; 1; 9; 102; 119; 96; 6; 149; 61; 85; 103; 67; 158; 94; 57; 248; 106; 13; 39; 59; 238; 214; 25; 103; 246] = [49; 54; 85; 119; 76; 76; 57; 82; 105; 115; 99; 51; 81; 102; 80; 113; 66; 85; 118; 75; 111; 102; 72; 109; 66; 81; 55; 119; 77; 116; 106; 118; 77].
Proof. vm_compute; repeat split; reflexivity. Qed.

(* the loop transliteration agrees *)
Example ex_b58_loops_6 :
  base58_encode_loops [0; 1; 9; 102; 119; 96; 6; 149; 61; 85; 103; 67; 158; 94; 57; 248; 106; 13; 39; 59; 238; 214; 25; 103; 246] = Some [49; 54; 85; 119; 76; 76; 57; 82; 105; 115; 99; 51; 81; 102; 80; 113; 66; 85; 118; 75; 111; 102; 72; 109; 66; 81; 55; 119; 77; 116; 106; 118; 77].
Proof. vm_compute; repeat split; reflexivity. Qed.

(* decode, max_ret_len = length *)
Example ex_b58_dec_6 :
  base58_decode [49; 54; 85; 119; 76; 76; 57; 82; 105; 115; 99; 51; 81; 102; 80; 113; 66; 85; 118; 75; 111; 102; 72; 109; 66; 81; 55; 119; 77; 116; 106; 118; 77] 25 = Some [0; 1; 9; 102; 119; 96; 6; 149; 61; 85; 103; 67; 158; 94; 57; 248; 106; 13; 39; 59; 238; 214; 25; 103; 246] /\ base58_decode_loops [49; 54; 85; 119; 76; 76; 57; 82; 105; 115; 99; 51; 81; 102; 80; 113; 66; 85; 118; 75; 111; 102; 72; 109; 66; 81; 55; 119; 77; 116; 106; 118; 77] 25 = Some [0; 1; 9; 102; 119; 96; 6; 149; 61; 85; 103; 67; 158; 94; 57; 248; 106; 13; 39; 59; 238; 214; 25; 103; 246].
Proof. vm_compute; repeat split; reflexivity. Qed.

(* hex 73696d706c792061206c6f6e6720737472696e67 <-> "2cFupjhnEsSn59qHXstmK2ffpLv2" *)
Example ex_b58_enc_7 :
  base58_encode [115; 105; 109; 112; 108; 121; 32; 97; 32; 108; 111; 110; 103; 32; 115; 116; 114; 105; 110; 103] = [50; 99; 70; 117; 112; 106; 104; 110; 69; 115; 83; 110; 53; 57; 113; 72; 88; 115; 116; 109; 75; 50; 102; 102; 112; 76; 118; 50].
Proof. vm_compute; repeat split; reflexivity. Qed.

(* the loop transliteration agrees *)
Example ex_b58_loops_7 :
  base58_encode_loops [115; 105; 109; 112; 108; 121; 32; 97; 32; 108; 111; 110; 103; 32; 115; 116; 114; 105; 110; 103] = Some [50; 99; 70; 117; 112; 106; 104; 110; 69; 115; 83; 110; 53; 57; 113; 72; 88; 115; 116; 109; 75; 50; 102; 102; 112; 76; 118; 50].
Proof. vm_compute; repeat split; reflexivity. Qed.

(* decode, max_ret_len = length *)
Example ex_b58_dec_7 :
  base58_decode [50; 99; 70; 117; 112; 106; 104; 110; 69; 115; 83; 110; 53; 57; 113; 72; 88; 115; 116; 109; 75; 50; 102; 102; 112; 76; 118; 50] 20 = Some [115; 105; 109; 112; 108; 121; 32; 97; 32; 108; 111; 110; 103; 32; 115; 116; 114; 105; 110; 103] /\ base58_decode_loops [50; 99; 70; 117; 112; 106; 104; 110; 69; 115; 83; 110; 53; 57; 113; 72; 88; 115; 116; 109; 75; 50; 102; 102; 112; 76; 118; 50] 20 = Some [115; 105; 109; 112; 108; 121; 32; 97; 32; 108; 111; 110; 103; 32; 115; 116; 114; 105; 110; 103].
Proof. vm_compute; repeat split; reflexivity. Qed.

(* hex 00eb15231dfceb60925886b67d065299925915aeb172c06647 <-> "1NS17iag9jJgTHD1VXjvLCEnZuQ3rJDE9L" *)
Example ex_b58_enc_8 :
  base58_encode [0; 235; 21; 35; 29; 252; 235; 96; 146; 88; 134; 182; 125; 6; 82; 153; 146; 89; 21; 174; 177; 114; 192; 102; 71] = [49; 78; 83; 49; 55; 105; 97; 103; 57; 106; 74; 103; 84; 72; 68; 49; 86; 88; 106; 118; 76; 67; 69; 110; 90; 117; 81; 51; 114; 74; 68; 69; 57; 76].
Proof. vm_compute; repeat split; reflexivity. Qed.

(* the loop transliteration agrees *)
Example ex_b58_loops_8 :
  base58_encode_loops [0; 235; 21; 35; 29; 252; 235; 96; 146; 88; 134; 182; 125; 6; 82; 153; 146; 89; 21; 174; 177; 114; 192; 102; 71] = Some [49; 78; 83; 49; 55; 105; 97; 103; 57; 106; 74; 103; 84; 72; 68; 49; 86; 88; 106; 118; 76; 67; 69; 110; 90; 117; 81; 51; 114; 74; 68; 69; 57; 76].
Proof. vm_compute; repeat split; reflexivity. Qed.

(* decode, max_ret_len = length *)
Example ex_b58_dec_8 :
  base58_decode [49; 78; 83; 49; 55; 105; 97; 103; 57; 106; 74; 103; 84; 72; 68; 49; 86; 88; 106; 118; 76; 67; 69; 110; 90; 117; 81; 51; 114; 74; 68; 69; 57; 76] 25 = Some [0; 235; 21; 35; 29; 252; 235; 96; 146; 88; 134; 182; 125; 6; 82; 153; 146; 89; 21; 174; 177; 114; 192; 102; 71] /\ base58_decode_loops [49; 78; 83; 49; 55; 105; 97; 103; 57; 106; 74; 103; 84; 72; 68; 49; 86; 88; 106; 118; 76; 67; 69; 110; 90; 117; 81; 51; 114; 74; 68; 69; 57; 76] 25 = Some [0; 235; 21; 35; 29; 252; 235; 96; 146; 88; 134; 182; 125; 6; 82; 153; 146; 89; 21; 174; 177; 114; 192; 102; 71].
Proof. vm_compute; repeat split; reflexivity. Qed.

(* hex ecac89cad93923c02321 <-> "EJDM8drfXA6uyA" *)
Example ex_b58_enc_9 :
  base58_encode [236; 172; 137; 202; 217; 57; 35; 192; 35; 33] = [69; 74; 68; 77; 56; 100; 114; 102; 88; 65; 54; 117; 121; 65].
Proof. vm_compute; repeat split; reflexivity. Qed.

(* the loop transliteration agrees *)
Example ex_b58_loops_9 :
  base58_encode_loops [236; 172; 137; 202; 217; 57; 35; 192; 35; 33] = Some [69; 74; 68; 77; 56; 100; 114; 102; 88; 65; 54; 117; 121; 65].
Proof. vm_compute; repeat split; reflexivity. Qed.

(* decode, max_ret_len = length *)
Example ex_b58_dec_9 :
  base58_decode [69; 74; 68; 77; 56; 100; 114; 102; 88; 65; 54; 117; 121; 65] 10 = Some [236; 172; 137; 202; 217; 57; 35; 192; 35; 33] /\ base58_decode_loops [69; 74; 68; 77; 56; 100; 114; 102; 88; 65; 54; 117; 121; 65] 10 = Some [236; 172; 137; 202; 217; 57; 35; 192; 35; 33].
Proof. vm_compute; repeat split; reflexivity. Qed.

(* hex 000111d38e5fc9071ffcd20b4a763cc9ae4f252bb4e48fd66a835e252ada93ff480d6dd43dc62a641155a5 <-> "123456789ABCDEFGHJKLMNPQRSTUVWXYZabcdefghijkmnopqrstuvwxyz" *)
Example ex_b58_enc_10 :
  base58_encode [0; 1; 17; 211; 142; 95; 201; 7; 31; 252; 210; 11; 74; 118; 60; 201; 174; 79; 37; 43; 180; 228; 143; 214; 106; 131; 94; 37; 42; 218; 147; 255; 72; 13; 109; 212; 61; 198; 42; 100; 17; 85; 165] = [49; 50; 51; 52; 53; 54; 55; 56; 57; 65; 66; 67; 68; 69; 70; 71; 72; 74; 75; 76; 77; 78; 80; 81; 82; 83; 84; 85; 86; 87; 88; 89; 90; 97; 98; 99; 100; 101; 102; 103; 104; 105; 106; 107; 109; 110; 111; 112; 113; 114; 115; 116; 117; 118; 119; 120; 121; 122].
Proof. vm_compute; repeat split; reflexivity. Qed.

(* the loop transliteration agrees *)
Example ex_b58_loops_10 :
  base58_encode_loops [0; 1; 17; 211; 142; 95; 201; 7; 31; 252; 210; 11; 74; 118; 60; 201; 174; 79; 37; 43; 180; 228; 143; 214; 106; 131; 94; 37; 42; 218; 147; 255; 72; 13; 109; 212; 61; 198; 42; 100; 17; 85; 165] = Some [49; 50; 51; 52; 53; 54; 55; 56; 57; 65; 66; 67; 68; 69; 70; 71; 72; 74; 75; 76; 77; 78; 80; 81; 82; 83; 84; 85; 86; 87; 88; 89; 90; 97; 98; 99; 100; 101; 102; 103; 104; 105; 106; 107; 109; 110; 111; 112; 113; 114; 115; 116; 117; 118; 119; 120; 121; 122].
Proof. vm_compute; repeat split; reflexivity. Qed.

(* decode, max_ret_len = length *)
Example ex_b58_dec_10 :
  base58_decode [49; 50; 51; 52; 53; 54; 55; 56; 57; 65; 66; 67; 68; 69; 70; 71; 72; 74; 75; 76; 77; 78; 80; 81; 82; 83; 84; 85; 86; 87; 88; 89; 90; 97; 98; 99; 100; 101; 102; 103; 104; 105; 106; 107; 109; 110; 111; 112; 113; 114; 115; 116; 117; 118; 119; 120; 121; 122] 43 = Some [0; 1; 17; 211; 142; 95; 201; 7; 31; 252; 210; 11; 74; 118; 60; 201; 174; 79; 37; 43; 180; 228; 143; 214; 106; 131; 94; 37; 42; 218; 147; 255; 72; 13; 109; 212; 61; 198; 42; 100; 17; 85; 165] /\ base58_decode_loops [49; 50; 51; 52; 53; 54; 55; 56; 57; 65; 66; 67; 68; 69; 70; 71; 72; 74; 75; 76; 77; 78; 80; 81; 82; 83; 84; 85; 86; 87; 88; 89; 90; 97; 98; 99; 100; 101; 102; 103; 104; 105; 106; 107; 109; 110; 111; 112; 113; 114; 115; 116; 117; 118; 119; 120; 121; 122] 43 = Some [0; 1; 17; 211; 142; 95; 201; 7; 31; 252; 210; 11; 74; 118; 60; 201; 174; 79; 37; 43; 180; 228; 143; 214; 106; 131; 94; 37; 42; 218; 147; 255; 72; 13; 109; 212; 61; 198; 42; 100; 17; 85; 165].
Proof. vm_compute; repeat split; reflexivity. Qed.

(* "1111111111" is 10 bytes: max_ret_len 9 fails *)
Example ex_b58_dec_too_long :
  base58_decode [49; 49; 49; 49; 49; 49; 49; 49; 49; 49] 9 = None.
Proof. vm_compute; repeat split; reflexivity. Qed.

(* leading / trailing whitespace is skipped *)
Example ex_b58_dec_ws :
  base58_decode [32; 9; 10; 97; 51; 103; 86; 32; 13; 11; 12] 3 = Some [98; 98; 98].
Proof. vm_compute; repeat split; reflexivity. Qed.

(* inner whitespace is rejected *)
Example ex_b58_dec_inner_ws :
  base58_decode [97; 51; 32; 103; 86] 200 = None.
Proof. vm_compute; repeat split; reflexivity. Qed.

(* 0, O, I, l are not in the alphabet *)
Example ex_b58_dec_bad_char :
  base58_decode [97; 51; 48; 86] 200 = None /\ base58_decode [97; 79; 103; 86] 200 = None /\ base58_decode [97; 73; 103; 86] 200 = None /\ base58_decode [97; 108; 103; 86] 200 = None.
Proof. vm_compute; repeat split; reflexivity. Qed.

(* embedded NUL is rejected (ContainsNoNUL) *)
Example ex_b58_dec_nul :
  base58_decode [97; 51; 103; 86; 32; 0] 200 = None.
Proof. vm_compute; repeat split; reflexivity. Qed.

(* the empty and the all-whitespace strings decode to the empty vector *)
Example ex_b58_dec_ws_only :
  base58_decode [] 0 = Some [] /\ base58_decode [32; 32] 0 = Some [].
Proof. vm_compute; repeat split; reflexivity. Qed.

(* Base58Check with the real checksum of the address payload supplied by a stub hash *)
Definition ex_hash (_ : bytes) : bytes := [0xD6; 0x19; 0x67; 0xF6] ++ repeat 0 28.

(* address 16UwLL9Risc3QfPqBUvKofHmBQ7wMtjvM *)
Example ex_b58chk_enc :
  base58check_encode ex_hash [0; 1; 9; 102; 119; 96; 6; 149; 61; 85; 103; 67; 158; 94; 57; 248; 106; 13; 39; 59; 238] = [49; 54; 85; 119; 76; 76; 57; 82; 105; 115; 99; 51; 81; 102; 80; 113; 66; 85; 118; 75; 111; 102; 72; 109; 66; 81; 55; 119; 77; 116; 106; 118; 77].
Proof. vm_compute; repeat split; reflexivity. Qed.

(* and back (max_ret_len 21 = payload length) *)
Example ex_b58chk_dec :
  base58check_decode ex_hash [49; 54; 85; 119; 76; 76; 57; 82; 105; 115; 99; 51; 81; 102; 80; 113; 66; 85; 118; 75; 111; 102; 72; 109; 66; 81; 55; 119; 77; 116; 106; 118; 77] 21 = Some [0; 1; 9; 102; 119; 96; 6; 149; 61; 85; 103; 67; 158; 94; 57; 248; 106; 13; 39; 59; 238].
Proof. vm_compute; repeat split; reflexivity. Qed.

(* max_ret_len 20 < payload length *)
Example ex_b58chk_dec_short :
  base58check_decode ex_hash [49; 54; 85; 119; 76; 76; 57; 82; 105; 115; 99; 51; 81; 102; 80; 113; 66; 85; 118; 75; 111; 102; 72; 109; 66; 81; 55; 119; 77; 116; 106; 118; 77] 20 = None.
Proof. vm_compute; repeat split; reflexivity. Qed.

(* one character changed: checksum mismatch *)
Example ex_b58chk_dec_bad :
  base58check_decode ex_hash [49; 54; 85; 119; 76; 76; 57; 82; 105; 115; 99; 51; 81; 102; 80; 113; 66; 85; 118; 75; 111; 102; 72; 109; 66; 81; 55; 119; 77; 116; 106; 118; 78] 200 = None.
Proof. vm_compute; repeat split; reflexivity. Qed.

(* ConvertBits<8,5,true> *)
Example ex_cb_1 :
  convert_bits 8 5 true [255; 0; 129] = Some [31; 28; 0; 8; 2].
Proof. vm_compute; repeat split; reflexivity. Qed.

(* ConvertBits<5,8,false> *)
Example ex_cb_2 :
  convert_bits 5 8 false [31; 28; 0; 8; 2] = Some [255; 0; 129].
Proof. vm_compute; repeat split; reflexivity. Qed.

(* non-zero padding / too many leftover bits / negative input *)
Example ex_cb_3 :
  convert_bits 5 8 false [31; 28; 0; 8; 3] = None /\ convert_bits 5 8 false [0] = None /\ convert_bits 8 5 true [1; -1] = None.
Proof. vm_compute; repeat split; reflexivity. Qed.

(* "A12UEL5L" is valid bech32 *)
Example ex_b32_dec_1_0 :
  bech32_decode [65; 49; 50; 85; 69; 76; 53; 76] = Some (1, [97], []).
Proof. vm_compute; repeat split; reflexivity. Qed.

(* "a12uel5l" is valid bech32 *)
Example ex_b32_dec_1_1 :
  bech32_decode [97; 49; 50; 117; 101; 108; 53; 108] = Some (1, [97], []).
Proof. vm_compute; repeat split; reflexivity. Qed.

(* Encode produces "a12uel5l" *)
Example ex_b32_enc_1_1 :
  bech32_encode 1 [97] [] = [97; 49; 50; 117; 101; 108; 53; 108].
Proof. vm_compute; repeat split; reflexivity. Qed.

(* "abcdef1qpzry9x8gf2tvdw0s3jn54khce6mua7lmqqqxw" is valid bech32 *)
Example ex_b32_dec_1_2 :
  bech32_decode [97; 98; 99; 100; 101; 102; 49; 113; 112; 122; 114; 121; 57; 120; 56; 103; 102; 50; 116; 118; 100; 119; 48; 115; 51; 106; 110; 53; 52; 107; 104; 99; 101; 54; 109; 117; 97; 55; 108; 109; 113; 113; 113; 120; 119] = Some (1, [97; 98; 99; 100; 101; 102], [0; 1; 2; 3; 4; 5; 6; 7; 8; 9; 10; 11; 12; 13; 14; 15; 16; 17; 18; 19; 20; 21; 22; 23; 24; 25; 26; 27; 28; 29; 30; 31]).
Proof. vm_compute; repeat split; reflexivity. Qed.

(* Encode produces "abcdef1qpzry9x8gf2tvdw0s3jn54khce6mua7lmqqqxw" *)
Example ex_b32_enc_1_2 :
  bech32_encode 1 [97; 98; 99; 100; 101; 102] [0; 1; 2; 3; 4; 5; 6; 7; 8; 9; 10; 11; 12; 13; 14; 15; 16; 17; 18; 19; 20; 21; 22; 23; 24; 25; 26; 27; 28; 29; 30; 31] = [97; 98; 99; 100; 101; 102; 49; 113; 112; 122; 114; 121; 57; 120; 56; 103; 102; 50; 116; 118; 100; 119; 48; 115; 51; 106; 110; 53; 52; 107; 104; 99; 101; 54; 109; 117; 97; 55; 108; 109; 113; 113; 113; 120; 119].
Proof. vm_compute; repeat split; reflexivity. Qed.

(* "an83characterlonghumanreadablepartthatcontainsthenumber1andtheexcludedcharactersbio1tt5tgs" is valid bech32 *)
Example ex_b32_dec_1_3 :
  bech32_decode [97; 110; 56; 51; 99; 104; 97; 114; 97; 99; 116; 101; 114; 108; 111; 110; 103; 104; 117; 109; 97; 110; 114; 101; 97; 100; 97; 98; 108; 101; 112; 97; 114; 116; 116; 104; 97; 116; 99; 111; 110; 116; 97; 105; 110; 115; 116; 104; 101; 110; 117; 109; 98; 101; 114; 49; 97; 110; 100; 116; 104; 101; 101; 120; 99; 108; 117; 100; 101; 100; 99; 104; 97; 114; 97; 99; 116; 101; 114; 115; 98; 105; 111; 49; 116; 116; 53; 116; 103; 115] = Some (1, [97; 110; 56; 51; 99; 104; 97; 114; 97; 99; 116; 101; 114; 108; 111; 110; 103; 104; 117; 109; 97; 110; 114; 101; 97; 100; 97; 98; 108; 101; 112; 97; 114; 116; 116; 104; 97; 116; 99; 111; 110; 116; 97; 105; 110; 115; 116; 104; 101; 110; 117; 109; 98; 101; 114; 49; 97; 110; 100; 116; 104; 101; 101; 120; 99; 108; 117; 100; 101; 100; 99; 104; 97; 114; 97; 99; 116; 101; 114; 115; 98; 105; 111], []).
Proof. vm_compute; repeat split; reflexivity. Qed.

(* Encode produces "an83characterlonghumanreadablepartthatcontainsthenumber1andtheexcludedcharactersbio1tt5tgs" *)
Example ex_b32_enc_1_3 :
  bech32_encode 1 [97; 110; 56; 51; 99; 104; 97; 114; 97; 99; 116; 101; 114; 108; 111; 110; 103; 104; 117; 109; 97; 110; 114; 101; 97; 100; 97; 98; 108; 101; 112; 97; 114; 116; 116; 104; 97; 116; 99; 111; 110; 116; 97; 105; 110; 115; 116; 104; 101; 110; 117; 109; 98; 101; 114; 49; 97; 110; 100; 116; 104; 101; 101; 120; 99; 108; 117; 100; 101; 100; 99; 104; 97; 114; 97; 99; 116; 101; 114; 115; 98; 105; 111] [] = [97; 110; 56; 51; 99; 104; 97; 114; 97; 99; 116; 101; 114; 108; 111; 110; 103; 104; 117; 109; 97; 110; 114; 101; 97; 100; 97; 98; 108; 101; 112; 97; 114; 116; 116; 104; 97; 116; 99; 111; 110; 116; 97; 105; 110; 115; 116; 104; 101; 110; 117; 109; 98; 101; 114; 49; 97; 110; 100; 116; 104; 101; 101; 120; 99; 108; 117; 100; 101; 100; 99; 104; 97; 114; 97; 99; 116; 101; 114; 115; 98; 105; 111; 49; 116; 116; 53; 116; 103; 115].
Proof. vm_compute; repeat split; reflexivity. Qed.

(* "?1ezyfcl" is valid bech32 *)
Example ex_b32_dec_1_4 :
  bech32_decode [63; 49; 101; 122; 121; 102; 99; 108] = Some (1, [63], []).
Proof. vm_compute; repeat split; reflexivity. Qed.

(* Encode produces "?1ezyfcl" *)
Example ex_b32_enc_1_4 :
  bech32_encode 1 [63] [] = [63; 49; 101; 122; 121; 102; 99; 108].
Proof. vm_compute; repeat split; reflexivity. Qed.

(* "A1LQFN3A" is valid bech32m *)
Example ex_b32_dec_2_0 :
  bech32_decode [65; 49; 76; 81; 70; 78; 51; 65] = Some (2, [97], []).
Proof. vm_compute; repeat split; reflexivity. Qed.

(* "a1lqfn3a" is valid bech32m *)
Example ex_b32_dec_2_1 :
  bech32_decode [97; 49; 108; 113; 102; 110; 51; 97] = Some (2, [97], []).
Proof. vm_compute; repeat split; reflexivity. Qed.

(* Encode produces "a1lqfn3a" *)
Example ex_b32_enc_2_1 :
  bech32_encode 2 [97] [] = [97; 49; 108; 113; 102; 110; 51; 97].
Proof. vm_compute; repeat split; reflexivity. Qed.

(* "abcdef1l7aum6echk45nj3s0wdvt2fg8x9yrzpqzd3ryx" is valid bech32m *)
Example ex_b32_dec_2_2 :
  bech32_decode [97; 98; 99; 100; 101; 102; 49; 108; 55; 97; 117; 109; 54; 101; 99; 104; 107; 52; 53; 110; 106; 51; 115; 48; 119; 100; 118; 116; 50; 102; 103; 56; 120; 57; 121; 114; 122; 112; 113; 122; 100; 51; 114; 121; 120] = Some (2, [97; 98; 99; 100; 101; 102], [31; 30; 29; 28; 27; 26; 25; 24; 23; 22; 21; 20; 19; 18; 17; 16; 15; 14; 13; 12; 11; 10; 9; 8; 7; 6; 5; 4; 3; 2; 1; 0]).
Proof. vm_compute; repeat split; reflexivity. Qed.

(* Encode produces "abcdef1l7aum6echk45nj3s0wdvt2fg8x9yrzpqzd3ryx" *)
Example ex_b32_enc_2_2 :
  bech32_encode 2 [97; 98; 99; 100; 101; 102] [31; 30; 29; 28; 27; 26; 25; 24; 23; 22; 21; 20; 19; 18; 17; 16; 15; 14; 13; 12; 11; 10; 9; 8; 7; 6; 5; 4; 3; 2; 1; 0] = [97; 98; 99; 100; 101; 102; 49; 108; 55; 97; 117; 109; 54; 101; 99; 104; 107; 52; 53; 110; 106; 51; 115; 48; 119; 100; 118; 116; 50; 102; 103; 56; 120; 57; 121; 114; 122; 112; 113; 122; 100; 51; 114; 121; 120].
Proof. vm_compute; repeat split; reflexivity. Qed.

(* "?1v759aa" is valid bech32m *)
Example ex_b32_dec_2_3 :
  bech32_decode [63; 49; 118; 55; 53; 57; 97; 97] = Some (2, [63], []).
Proof. vm_compute; repeat split; reflexivity. Qed.

(* Encode produces "?1v759aa" *)
Example ex_b32_enc_2_3 :
  bech32_encode 2 [63] [] = [63; 49; 118; 55; 53; 57; 97; 97].
Proof. vm_compute; repeat split; reflexivity. Qed.

(* 'a12UEL5L': mixed case *)
Example ex_b32_bad_0 :
  bech32_decode [97; 49; 50; 85; 69; 76; 53; 76] = None.
Proof. vm_compute; repeat split; reflexivity. Qed.

(* 'A12uEL5L': mixed case *)
Example ex_b32_bad_1 :
  bech32_decode [65; 49; 50; 117; 69; 76; 53; 76] = None.
Proof. vm_compute; repeat split; reflexivity. Qed.

(* 'pzry9x0s0muk': no separator *)
Example ex_b32_bad_2 :
  bech32_decode [112; 122; 114; 121; 57; 120; 48; 115; 48; 109; 117; 107] = None.
Proof. vm_compute; repeat split; reflexivity. Qed.

(* '1pzry9x0s0muk': empty HRP *)
Example ex_b32_bad_3 :
  bech32_decode [49; 112; 122; 114; 121; 57; 120; 48; 115; 48; 109; 117; 107] = None.
Proof. vm_compute; repeat split; reflexivity. Qed.

(* 'x1b4n0q5v': invalid data character *)
Example ex_b32_bad_4 :
  bech32_decode [120; 49; 98; 52; 110; 48; 113; 53; 118] = None.
Proof. vm_compute; repeat split; reflexivity. Qed.

(* 'li1dgmt3': too short checksum *)
Example ex_b32_bad_5 :
  bech32_decode [108; 105; 49; 100; 103; 109; 116; 51] = None.
Proof. vm_compute; repeat split; reflexivity. Qed.

(* '10a06t8': empty HRP *)
Example ex_b32_bad_6 :
  bech32_decode [49; 48; 97; 48; 54; 116; 56] = None.
Proof. vm_compute; repeat split; reflexivity. Qed.

(* '1qzzfhee': empty HRP *)
Example ex_b32_bad_7 :
  bech32_decode [49; 113; 122; 122; 102; 104; 101; 101] = None.
Proof. vm_compute; repeat split; reflexivity. Qed.

(* 'an84characterslonghumanreadablepartthatcontainsthenumber1andtheexcludedcharactersbio1569pvx': more than 90 characters *)
Example ex_b32_bad_8 :
  bech32_decode [97; 110; 56; 52; 99; 104; 97; 114; 97; 99; 116; 101; 114; 115; 108; 111; 110; 103; 104; 117; 109; 97; 110; 114; 101; 97; 100; 97; 98; 108; 101; 112; 97; 114; 116; 116; 104; 97; 116; 99; 111; 110; 116; 97; 105; 110; 115; 116; 104; 101; 110; 117; 109; 98; 101; 114; 49; 97; 110; 100; 116; 104; 101; 101; 120; 99; 108; 117; 100; 101; 100; 99; 104; 97; 114; 97; 99; 116; 101; 114; 115; 98; 105; 111; 49; 53; 54; 57; 112; 118; 120] = None.
Proof. vm_compute; repeat split; reflexivity. Qed.

(* 'A1G7SGD8': bad checksum *)
Example ex_b32_bad_9 :
  bech32_decode [65; 49; 71; 55; 83; 71; 68; 56] = None.
Proof. vm_compute; repeat split; reflexivity. Qed.

(* 'abcdef1qpzry9x8gf2tvdw0s3jn54khce6mua7lmqqqxv': bad checksum (last character changed) *)
Example ex_b32_bad_10 :
  bech32_decode [97; 98; 99; 100; 101; 102; 49; 113; 112; 122; 114; 121; 57; 120; 56; 103; 102; 50; 116; 118; 100; 119; 48; 115; 51; 106; 110; 53; 52; 107; 104; 99; 101; 54; 109; 117; 97; 55; 108; 109; 113; 113; 113; 120; 118] = None.
Proof. vm_compute; repeat split; reflexivity. Qed.

(* ' 1nwldj5': HRP character out of range *)
Example ex_b32_bad_11 :
  bech32_decode [32; 49; 110; 119; 108; 100; 106; 53] = None.
Proof. vm_compute; repeat split; reflexivity. Qed.

(* '\x7f1axkwrx': HRP character out of range *)
Example ex_b32_bad_12 :
  bech32_decode [127; 49; 97; 120; 107; 119; 114; 120] = None.
Proof. vm_compute; repeat split; reflexivity. Qed.

(* '\x801eym55h': HRP character out of range *)
Example ex_b32_bad_13 :
  bech32_decode [128; 49; 101; 121; 109; 53; 53; 104] = None.
Proof. vm_compute; repeat split; reflexivity. Qed.

(* 'a1lqfn3a ': trailing space *)
Example ex_b32_bad_14 :
  bech32_decode [97; 49; 108; 113; 102; 110; 51; 97; 32] = None.
Proof. vm_compute; repeat split; reflexivity. Qed.

(* 'M1VUXWEZ': bad checksum (bech32m) *)
Example ex_b32_bad_15 :
  bech32_decode [77; 49; 86; 85; 88; 87; 69; 90] = None.
Proof. vm_compute; repeat split; reflexivity. Qed.

(* 'in1muywd': too short checksum *)
Example ex_b32_bad_16 :
  bech32_decode [105; 110; 49; 109; 117; 121; 119; 100] = None.
Proof. vm_compute; repeat split; reflexivity. Qed.

(* btcdeb "bech32enc" of 751e76e8199196d454941c45d1b3a323f1433bd6 with the default hrp (output of the real code) *)
Example ex_value_enc :
  value_bech32_enc false default_bech32_hrp [117; 30; 118; 232; 25; 145; 150; 212; 84; 148; 28; 69; 209; 179; 163; 35; 241; 67; 59; 214] = [98; 99; 114; 116; 49; 112; 119; 53; 48; 56; 100; 54; 113; 101; 106; 120; 116; 100; 103; 52; 121; 53; 114; 51; 122; 97; 114; 118; 97; 114; 121; 48; 99; 53; 120; 119; 55; 107; 48; 107; 117; 121; 50; 121].
Proof. vm_compute; repeat split; reflexivity. Qed.

(* and "bech32dec" of it *)
Example ex_value_dec :
  value_bech32_dec [98; 99; 114; 116; 49; 112; 119; 53; 48; 56; 100; 54; 113; 101; 106; 120; 116; 100; 103; 52; 121; 53; 114; 51; 122; 97; 114; 118; 97; 114; 121; 48; 99; 53; 120; 119; 55; 107; 48; 107; 117; 121; 50; 121] = Some [117; 30; 118; 232; 25; 145; 150; 212; 84; 148; 28; 69; 209; 179; 163; 35; 241; 67; 59; 214].
Proof. vm_compute; repeat split; reflexivity. Qed.

(* a valid string with an empty data part drives do_bech32dec into undefined behaviour (observed: SIGSEGV) *)
Example ex_value_dec_ub :
  value_bech32_dec_full [97; 49; 50; 117; 101; 108; 53; 108] = B32UB.
Proof. vm_compute; repeat split; reflexivity. Qed.

(* non-zero padding: ConvertBits fails but the bytes emitted so far stay in data (the string is "?1pll27lh9y": version symbol 1, then symbols 31 31; checked against the real do_bech32dec: data = ff) *)
Example ex_value_dec_partial :
  value_bech32_dec_full (bech32_encode 1 [63] [1; 31; 31]) = B32Data false 1 [63] 1 [255].
Proof. vm_compute; repeat split; reflexivity. Qed.

