(* Model of the byte-level script helpers: GetScriptOp, CScript::operator<<, push_int64, CheckMinimalPush,
   HasValidOps, IsPayToScriptHash, FindAndDelete, CastToBool (script/script.{h,cpp}, script/interpreter.cpp).
   A script iterator is modelled by the suffix of the script that starts at it. *)
From BV Require Import Base ScriptNum.
From BV.Gen Require Import Consts.
Local Open Scope Z_scope.

(* ------------------------------------------------------------ GetScriptOp *)
(* result: (Some (opcode, pushvalue) | None on failure, iterator after the call).
   On failure the C++ leaves the iterator wherever reading stopped; that position is returned too. *)
Definition get_op (pc : bytes) : option (Z * bytes) * bytes :=
  match pc with
  | [] => (None, pc)
  | opcode :: r =>
      if opcode <=? OP_PUSHDATA4 then
        let rd (lenbytes : nat) :=
            if (length r <? lenbytes)%nat then None
            else Some (le_value (firstn lenbytes r), skipn lenbytes r) in
        let hdr :=
            if opcode <? OP_PUSHDATA1 then Some (opcode, r)
            else if opcode =? OP_PUSHDATA1 then rd 1%nat
            else if opcode =? OP_PUSHDATA2 then rd 2%nat
            else rd 4%nat in
        match hdr with
        | None => (None, r)
        | Some (nSize, r2) =>
            if (Z.of_nat (length r2) <? nSize) then (None, r2)
            else (Some (opcode, firstn (Z.to_nat nSize) r2), skipn (Z.to_nat nSize) r2)
        end
      else (Some (opcode, []), r)
  end.

(* ------------------------------------------------------------ CScript::operator<< *)
Definition push_data (b : bytes) : bytes :=
  let n := zlen b in
  if n <? OP_PUSHDATA1 then n :: b
  else if n <=? 255 then OP_PUSHDATA1 :: n :: b
  else if n <=? 65535 then OP_PUSHDATA2 :: le_fixed 2 n ++ b
  else OP_PUSHDATA4 :: le_fixed 4 n ++ b.

Definition push_int64 (n : Z) : bytes :=
  if (n =? -1) || ((1 <=? n) && (n <=? 16)) then [n + (OP_1 - 1)]
  else if n =? 0 then [OP_0]
  else push_data (sn_serialize n).

Definition push_opcode (o : Z) : bytes := [o].

(* ------------------------------------------------------------ CheckMinimalPush *)
Definition check_minimal_push (data : bytes) (opcode : Z) : bool :=
  let n := zlen data in
  if n =? 0 then opcode =? OP_0
  else if (n =? 1) && (1 <=? hd 0 data) && (hd 0 data <=? 16) then false
  else if (n =? 1) && (hd 0 data =? 129) then false
  else if n <=? 75 then opcode =? n
  else if n <=? 255 then opcode =? OP_PUSHDATA1
  else if n <=? 65535 then opcode =? OP_PUSHDATA2
  else true.

(* ------------------------------------------------------------ CastToBool *)
Fixpoint cast_to_bool (vch : bytes) : bool :=
  match vch with
  | [] => false
  | b :: r =>
      if b =? 0 then cast_to_bool r
      else match r with
           | [] => negb (b =? 128)     (* last byte 0x80: negative zero *)
           | _ => true
           end
  end.

(* ------------------------------------------------------------ HasValidOps *)
Fixpoint has_valid_ops_fuel (fuel : nat) (pc : bytes) : bool :=
  match fuel with
  | O => true
  | S f =>
      match pc with
      | [] => true
      | _ =>
          match get_op pc with
          | (None, _) => false
          | (Some (opcode, item), pc') =>
              if (MAX_OPCODE <? opcode) || (MAX_SCRIPT_ELEMENT_SIZE <? zlen item) then false
              else has_valid_ops_fuel f pc'
          end
      end
  end.
Definition has_valid_ops (s : bytes) : bool := has_valid_ops_fuel (S (length s)) s.

(* ------------------------------------------------------------ IsPayToScriptHash *)
Definition is_p2sh_script (s : bytes) : bool :=
  (zlen s =? 23) && (nth 0 s 0 =? OP_HASH160) && (nth 1 s 0 =? 20) && (nth 22 s 0 =? OP_EQUAL).

(* ------------------------------------------------------------ decoding a whole script *)
Fixpoint decode_ops_fuel (fuel : nat) (pc : bytes) : list (Z * bytes) :=
  match fuel with
  | O => []
  | S f =>
      match pc with
      | [] => []
      | _ => match get_op pc with
             | (None, _) => []
             | (Some op, pc') => op :: decode_ops_fuel f pc'
             end
      end
  end.
Definition decode_ops (s : bytes) : list (Z * bytes) := decode_ops_fuel (length s) s.

(* ------------------------------------------------------------ FindAndDelete *)
Fixpoint is_prefix (b s : bytes) : bool :=
  match b with
  | [] => true
  | x :: b' => match s with [] => false | y :: s' => (x =? y) && is_prefix b' s' end
  end.

(* skip all consecutive occurrences of b at the iterator *)
Fixpoint fad_skip (fuel : nat) (b pc : bytes) (found : Z) : bytes * Z :=
  match fuel with
  | O => (pc, found)
  | S f => if is_prefix b pc then fad_skip f b (skipn (length b) pc) (found + 1) else (pc, found)
  end.

(* the do { ... } while (GetOp) loop; result accumulates in reverse chunks *)
Fixpoint fad_loop (fuel : nat) (b pc : bytes) (acc : bytes) (found : Z) : bytes * Z :=
  match fuel with
  | O => (acc ++ pc, found)
  | S f =>
      let '(pc1, found1) := fad_skip (S (length pc)) b pc found in
      match get_op pc1 with
      | (None, _) => (acc ++ pc1, found1)            (* loop ends: result += [pc2, end) *)
      | (Some _, pc2) =>
          (* next iteration first appends [pc1, pc2) *)
          fad_loop f b pc2 (acc ++ firstn (length pc1 - length pc2) pc1) found1
      end
  end.

Definition find_and_delete (script b : bytes) : bytes * Z :=
  match b with
  | [] => (script, 0)
  | _ => let '(res, found) := fad_loop (S (length script)) b script [] 0 in
         if 0 <? found then (res, found) else (script, 0)
  end.
