(* Any interleaving of successful steps and accepted rewinds equals the net number of steps (C04). *)
From Coq Require Import ZifyBool.
From BV Require Import Base ScriptNum Script Interp Session FrameProofs SessionProofs.
Local Open Scope Z_scope.

Section History.
Variable low_s : bytes -> bool.
Variable tap_tweak_ok : bytes -> bytes -> bytes -> bool -> bool.
Variable sha256 : bytes -> bytes.
Variable c : cfg.
Notation inst_step := (inst_step low_s tap_tweak_ok sha256).

(* states reached by n successful steps over operations of the script, no rewind *)
Inductive steps_only (v0 : ienv) : ienv -> nat -> Prop :=
| so_refl : steps_only v0 v0 0
| so_step : forall v n v', steps_only v0 v n -> wf v -> i_tce v = None -> i_pc v <> [] ->
            inst_step c v = (v', StepOk) -> steps_only v0 v' (S n).

(* states reached by any interleaving of such steps and accepted rewinds; the index is steps minus rewinds *)
Inductive steps_and_rewinds (v0 : ienv) : ienv -> nat -> Prop :=
| sr_refl : steps_and_rewinds v0 v0 0
| sr_step : forall v n v', steps_and_rewinds v0 v n -> wf v -> i_tce v = None -> i_pc v <> [] ->
            inst_step c v = (v', StepOk) -> steps_and_rewinds v0 v' (S n)
| sr_rewind : forall v n v', steps_and_rewinds v0 v (S n) -> dbg_rewind v = Some v' -> steps_and_rewinds v0 v' n.

Theorem interleaving_is_net : forall v0 v n, steps_and_rewinds v0 v n -> steps_only v0 v n.
Proof.
  intros v0 v n H. induction H as [|v n v' H IH Hwf Ht Hp Hs|v n v' H IH Hr].
  - constructor.
  - eapply so_step; eassumption.
  - inversion IH as [|vp n' v'' Hso Hwf Ht Hp Hs]; subst.
    pose proof (rewind_undoes_step low_s tap_tweak_ok sha256 c vp v Hwf Ht Hp Hs) as Hu.
    rewrite Hu in Hr. inversion Hr; subst. exact Hso.
Qed.

(* in particular the state does not depend on the interleaving *)
Lemma steps_only_deterministic : forall v0 v1 n, steps_only v0 v1 n -> forall v2, steps_only v0 v2 n -> v1 = v2.
Proof.
  intros v0 v1 n H. induction H as [|v n v' H IH Hwf Ht Hp Hs]; intros v2 H2.
  - inversion H2; reflexivity.
  - inversion H2 as [|w n' w' Hw _ _ _ Hs2]; subst. specialize (IH w Hw). subst w. congruence.
Qed.

Theorem history_independent : forall v0 v1 v2 n, steps_and_rewinds v0 v1 n -> steps_and_rewinds v0 v2 n -> v1 = v2.
Proof. intros v0 v1 v2 n H1 H2. eapply steps_only_deterministic; apply interleaving_is_net; eassumption. Qed.
End History.
