(* Proofs that the modelled core has no crash outcome (C15). *)
From Coq Require Import ZifyBool.
From BV Require Import Base BaseProofs ScriptNum Script Interp Session Tx TxCli Sighash Configure ConfigureProofs.
From BV.Gen Require Import Consts.
Local Open Scope Z_scope.

(* the only crash outcome of the configuration is an output index outside the funding transaction, and input selection excludes it *)
Lemma configure_no_crash : forall sha256 ripemd160 spend funding txid sel i n,
  select_input spend funding txid sel = Some (i, n) -> configure sha256 ripemd160 spend funding i n <> CfgCrash.
Proof.
  intros sha256 ripemd160 spend funding txid sel i n H. destruct (select_sound _ _ _ _ _ _ H) as (x & prev & _ & _ & _ & _ & Hp & _ & _).
  unfold configure. rewrite Hp. destruct (ti_witness _); [discriminate|].
  destruct (find_validation _ _ _ _) as [v| |] eqn:Ev; try discriminate.
  - destruct (split_program v) as [[verop program]| |] eqn:Es; try discriminate.
    + destruct (verop =? OP_0).
      * unfold configure_v0. repeat match goal with |- context [if ?c then _ else _] => destruct c end; discriminate.
      * unfold configure_v1. repeat match goal with
                                    | |- context [if ?c then _ else _] => destruct c
                                    | |- context [match ?x with _ => _ end] => destruct x
                                    end; discriminate.
    + exfalso. unfold split_program in Es. repeat match type of Es with
                                    | context [if ?c then _ else _] => destruct c
                                    | context [match ?x with _ => _ end] => destruct x
                                    end; discriminate.
  - exfalso. unfold find_validation in Ev. repeat match type of Ev with
                                    | context [if ?c then _ else _] => destruct c
                                    | context [match ?x with _ => _ end] => destruct x
                                    end; discriminate.
Qed.
