(* Proofs that the modelled core has no crash outcome (C15). *)
From Coq Require Import ZifyBool.
From BV Require Import Base BaseProofs ScriptNum Script Interp Session Tx TxCli Sighash Configure ConfigureProofs.
From BV.Gen Require Import Consts.
Local Open Scope Z_scope.

(* the only crash outcome of the configuration is an output index outside the funding transaction, and input selection excludes it *)
Lemma configure_no_crash : forall sha256 ripemd160 spend funding txid sel i n,
  select_input spend funding txid sel = Some (i, n) -> configure sha256 ripemd160 spend funding i n <> CfgCrash.
Proof.
  intros sha256 ripemd160 spend funding txid sel i n H. destruct (select_sound _ _ _ _ _ _ H) as (x & prev & _ & _ & _ & _ & Hp & _ & _).
  unfold configure. rewrite Hp. destruct (ti_witness _); [discriminate|].
  destruct (find_validation _ _ _ _) as [v| |] eqn:Ev; try discriminate.
  - destruct (split_program v) as [[verop program]| |] eqn:Es; try discriminate.
    + destruct (verop =? OP_0).
      * unfold configure_v0. repeat match goal with |- context [if ?c then _ else _] => destruct c end; discriminate.
      * unfold configure_v1. repeat match goal with
                                    | |- context [if ?c then _ else _] => destruct c
                                    | |- context [match ?x with _ => _ end] => destruct x
                                    end; discriminate.
    + exfalso. unfold split_program in Es. repeat match type of Es with
                                    | context [if ?c then _ else _] => destruct c
                                    | context [match ?x with _ => _ end] => destruct x
                                    end; discriminate.
  - exfalso. unfold find_validation in Ev. repeat match type of Ev with
                                    | context [if ?c then _ else _] => destruct c
                                    | context [match ?x with _ => _ end] => destruct x
                                    end; discriminate.
Qed.

(* ------------------------------------------------------------------ one interpreter step never crashes *)
From BV Require Import NumExpr ExtProofs.
From BV.Gen Require Import Sites NumOps.

Definition nc (r : see * status) : Prop := forall x, snd r <> SCrash x.

(* what the session guarantees about the environment: pbegincodehash points into a live script, and a tapscript session carries
   an initialised validation-weight budget (setup_environment / configure_tx_txin) *)
Definition safe (c : cfg) (e : see) : Prop :=
  e_cb e <> None /\
  ((c_sigver c =? SV_BASE) || (c_sigver c =? SV_WITNESS_V0) || (c_sigver c =? SV_TAPROOT) = false -> ed_weight_init (e_ed e) = true).

Lemma nc_ok e : nc (ok e). Proof. intros x. cbn. discriminate. Qed.
Lemma nc_fail e err : nc (fail e err). Proof. intros x. cbn. discriminate. Qed.
Lemma nc_exn e y : nc (e, SExn y). Proof. intros x. cbn. discriminate. Qed.
Lemma nc_err e : nc (e, SErr). Proof. intros x. cbn. discriminate. Qed.
Lemma nc_sok e : nc (e, SOk). Proof. intros x. cbn. discriminate. Qed.
#[global] Hint Resolve nc_ok nc_fail nc_exn nc_err nc_sok : nocrash.

Lemma sn_ctor_no_crash v m n x : sn_ctor v m n <> Crash x.
Proof. unfold sn_ctor. destruct (n <? length v)%nat; [discriminate|]. destruct (m && sn_nonminimal v); discriminate. Qed.

Ltac nc_leaf := first [apply nc_ok | apply nc_fail | apply nc_exn | apply nc_err | apply nc_sok].
Ltac nc_split :=
  repeat match goal with
         | |- nc (if ?b then _ else _) => destruct b
         | |- nc (let '(_, _) := ?x in _) => destruct x
         end.

Section NoCrash.
Variable low_s : bytes -> bool.
Variable c : cfg.

Lemma nc_with_num v n e k : (forall z, nc (k z)) -> nc (with_num c v n e k).
Proof.
  intros H. unfold with_num. destruct (sn_ctor v (req_minimal c) n) eqn:E; [apply H|apply nc_exn|].
  exfalso. eapply sn_ctor_no_crash. exact E.
Qed.
Lemma nc_need e n err k : nc k -> nc (need e n err k).
Proof. intros H. unfold need. destruct (ssize e <? n); [apply nc_fail|exact H]. Qed.

Lemma num_at_cases e k m : (exists z, num_at c e k m = Ok z) \/ (exists y, num_at c e k m = Exn y).
Proof.
  unfold num_at. destruct (sn_ctor (stop e k) (req_minimal c) m) eqn:E; [left; eauto|right; eauto|].
  exfalso. eapply sn_ctor_no_crash. exact E.
Qed.

(* the numeric opcode tables have an entry for every opcode the switch sends to them *)
Lemma unary_num_total : forall opcode bn,
  (opcode =? OP_1ADD) || (opcode =? OP_1SUB) || (opcode =? OP_NEGATE) || (opcode =? OP_ABS) || (opcode =? OP_NOT) || (opcode =? OP_0NOTEQUAL) = true ->
  unary_num opcode bn <> None.
Proof.
  intros opcode bn H.
  repeat (apply Bool.orb_true_iff in H; destruct H as [H|H]); apply Z.eqb_eq in H; subst opcode; vm_compute; discriminate.
Qed.

Lemma binary_num_total : forall opcode a b,
  ((OP_ADD <=? opcode) && (opcode <=? OP_SUB)) || ((OP_BOOLAND <=? opcode) && (opcode <=? OP_MAX)) = true ->
  binary_num opcode a b <> None.
Proof.
  intros opcode a b H.
  assert (Hc: opcode = OP_ADD \/ opcode = OP_SUB \/ opcode = OP_BOOLAND \/ opcode = OP_BOOLOR \/ opcode = OP_NUMEQUAL \/ opcode = OP_NUMEQUALVERIFY \/
              opcode = OP_NUMNOTEQUAL \/ opcode = OP_LESSTHAN \/ opcode = OP_GREATERTHAN \/ opcode = OP_LESSTHANOREQUAL \/ opcode = OP_GREATERTHANOREQUAL \/
              opcode = OP_MIN \/ opcode = OP_MAX).
  { apply Bool.orb_true_iff in H. destruct H as [H|H]; apply andb_prop in H; destruct H as [H1 H2]; apply Z.leb_le in H1; apply Z.leb_le in H2;
    unfold OP_ADD, OP_SUB, OP_BOOLAND, OP_BOOLOR, OP_NUMEQUAL, OP_NUMEQUALVERIFY, OP_NUMNOTEQUAL, OP_LESSTHAN, OP_GREATERTHAN, OP_LESSTHANOREQUAL,
           OP_GREATERTHANOREQUAL, OP_MIN, OP_MAX in *; lia. }
  unfold binary_num.
  repeat (destruct Hc as [Hc|Hc]; [subst opcode; vm_compute; discriminate|]). subst opcode; vm_compute; discriminate.
Qed.

(* signature checks *)
Lemma nc_eval_checksig_pre e sig key : safe c e -> forall x, snd (fst (eval_checksig_pre low_s c e sig key)) <> SCrash x.
Proof.
  intros [Hcb _] x. unfold eval_checksig_pre, script_code. destruct (e_cb e) as [code0|]; [|contradiction].
  repeat match goal with
         | |- context [if ?b then _ else _] => destruct b
         | |- context [let '(_, _) := ?q in _] => destruct q
         | |- context [match ?q with Some _ => _ | None => _ end] => destruct q
         end; cbn; discriminate.
Qed.

Lemma nc_eval_checksig_tapscript e sig key : ed_weight_init (e_ed e) = true -> forall x, snd (fst (eval_checksig_tapscript c e sig key)) <> SCrash x.
Proof.
  intros Hw x. unfold eval_checksig_tapscript. rewrite Hw. cbn [negb].
  repeat match goal with
         | |- context [if ?b then _ else _] => destruct b
         | |- context [let '(_, _) := ?q in _] => destruct q
         end; cbn; discriminate.
Qed.

Lemma nc_eval_checksig e sig key : safe c e -> forall x, snd (fst (eval_checksig low_s c e sig key)) <> SCrash x.
Proof.
  intros Hs x. unfold eval_checksig.
  destruct (pv_has_key c key && pv_match c sig key); [cbn; discriminate|].
  destruct (c_sigver c =? SV_TAPROOT) eqn:E2.
  - destruct (k_schnorr (c_chk c) sig key SV_TAPROOT (e_ed e)) as [okv err]. destruct okv; cbn; discriminate.
  - destruct ((c_sigver c =? SV_BASE) || (c_sigver c =? SV_WITNESS_V0)) eqn:E1.
    + apply nc_eval_checksig_pre. exact Hs.
    + apply nc_eval_checksig_tapscript. destruct Hs as [_ Hw]. apply Hw. rewrite E1, E2. reflexivity.
Qed.

Lemma nc_op_checksig e opcode : safe c e -> nc (op_checksig low_s c e opcode).
Proof.
  intros Hs. unfold op_checksig. destruct (ssize e <? 2); [apply nc_fail|].
  pose proof (nc_eval_checksig e (stop e 2) (stop e 1) Hs) as H.
  destruct (eval_checksig low_s c e (stop e 2) (stop e 1)) as [[e1 st] fS]. cbn [fst snd] in H.
  destruct st; try (intros x; cbn; first [discriminate | apply H]).
  destruct (opcode =? OP_CHECKSIGVERIFY); [destruct fS|]; nc_leaf.
Qed.

Lemma nc_op_checksigadd e : safe c e -> nc (op_checksigadd low_s c e).
Proof.
  intros Hs. unfold op_checksigadd. destruct ((c_sigver c =? SV_BASE) || (c_sigver c =? SV_WITNESS_V0)); [apply nc_fail|].
  destruct (ssize e <? 3); [apply nc_fail|].
  destruct (num_at_cases e 2 4) as [[z Hz]|[y Hy]]; [rewrite Hz|rewrite Hy; apply nc_exn].
  pose proof (nc_eval_checksig e (stop e 3) (stop e 1) Hs) as H.
  destruct (eval_checksig low_s c e (stop e 3) (stop e 1)) as [[e1 st] fS]. cbn [fst snd] in H.
  destruct st; try (intros x; cbn; first [discriminate | apply H]).
Qed.

Lemma nc_multisig_loop fuel e code isig ikey nS nK : forall x, snd (fst (multisig_loop low_s fuel c e code isig ikey nS nK)) <> SCrash x.
Proof.
  revert isig ikey nS nK. induction fuel as [|f IH]; intros isig ikey nS nK x; cbn [multisig_loop]; [cbn; discriminate|].
  destruct (0 <? nS); [|cbn; discriminate].
  assert (Hstep: forall fOk : bool,
    snd (fst (let isig' := if fOk then isig + 1 else isig in
              let nSigs' := if fOk then nS - 1 else nS in
              let ikey' := ikey + 1 in let nKeys' := nK - 1 in
              if nKeys' <? nSigs' then (e, SOk, false) else multisig_loop low_s f c e code isig' ikey' nSigs' nKeys')) <> SCrash x).
  { intros fOk. cbv zeta. destruct (nK - 1 <? (if fOk then nS - 1 else nS)); [cbn; discriminate|apply IH]. }
  destruct (pv_has_key c (stop e (Z.to_nat ikey))); [apply Hstep|].
  destruct (check_sig_encoding low_s (c_flags c) (stop e (Z.to_nat isig))); [cbn; discriminate|].
  destruct (check_pubkey_encoding (c_flags c) (c_sigver c) (stop e (Z.to_nat ikey))); [cbn; discriminate|].
  apply Hstep.
Qed.

Lemma nc_multisig_cleanup n e fS ikey2 : nc (multisig_cleanup n c e fS ikey2).
Proof.
  revert e ikey2. induction n as [|m IH]; intros e ikey2; cbn [multisig_cleanup]; [apply nc_ok|].
  match goal with |- nc (if ?b then _ else _) => destruct b end; [apply nc_fail|apply IH].
Qed.

Lemma nc_op_checkmultisig e opcode : safe c e -> nc (op_checkmultisig low_s c e opcode).
Proof.
  intros [Hcb _]. unfold op_checkmultisig.
  destruct (c_sigver c =? SV_TAPSCRIPT); [apply nc_fail|].
  destruct (ssize e <? 1); [apply nc_fail|].
  destruct (num_at_cases e 1 4) as [[kraw Hz]|[y Hy]]; [rewrite Hz|rewrite Hy; apply nc_exn].
  match goal with |- nc (if ?b then _ else _) => destruct b end; [apply nc_fail|].
  set (e0 := set_ops e (e_ops e + sn_getint kraw)).
  match goal with |- nc (if ?b then _ else _) => destruct b end; [apply nc_fail|].
  match goal with |- nc (if ?b then _ else _) => destruct b end; [apply nc_fail|].
  destruct (num_at_cases e0 (Z.to_nat (2 + sn_getint kraw)) 4) as [[sraw Hs]|[y Hy]]; [rewrite Hs|rewrite Hy; apply nc_exn].
  match goal with |- nc (if ?b then _ else _) => destruct b end; [apply nc_fail|].
  match goal with |- nc (if ?b then _ else _) => destruct b end; [apply nc_fail|].
  unfold script_code. change (e_cb e0) with (e_cb e). destruct (e_cb e) as [code0|]; [|contradiction].
  match goal with |- context [multisig_fad ?a ?k0 ?b0 ?s] => destruct (multisig_fad a k0 b0 s) as [code fadfail] end.
  destruct fadfail; [apply nc_fail|].
  match goal with |- context [multisig_loop ?ls ?fu ?cc ?ee ?co ?a1 ?a2 ?a3 ?a4] =>
    pose proof (nc_multisig_loop fu ee co a1 a2 a3 a4) as HL;
    destruct (multisig_loop ls fu cc ee co a1 a2 a3 a4) as [[e1 st] fS] end.
  cbn [fst snd] in HL.
  destruct st; try (intros x; cbn; first [discriminate | apply HL]).
  match goal with |- context [multisig_cleanup ?n ?cc ?ee ?f ?k] =>
    pose proof (nc_multisig_cleanup n ee f k) as HC; destruct (multisig_cleanup n cc ee f k) as [e2 st2] end.
  destruct st2; try (intros x; cbn; first [discriminate | apply HC]).
  destruct (ssize e2 <? 1); [apply nc_fail|].
  match goal with |- nc (if ?b then _ else _) => destruct b end; [apply nc_fail|].
  destruct (opcode =? OP_CHECKMULTISIGVERIFY); [destruct fS|]; nc_leaf.
Qed.

(* the whole opcode switch *)
Lemma nc_exec_opcode e opcode fExec pc' : safe c e -> nc (exec_opcode low_s c e opcode fExec pc').
Proof.
  intros Hs. unfold exec_opcode.
  destruct (is_extended_op opcode) eqn:Eext. { intros x. apply ext_no_crash. exact Eext. }
  repeat match goal with
         | |- nc (need _ _ _ _) => apply nc_need
         | |- nc (with_num _ _ _ _ _) => apply nc_with_num; intros
         | |- nc (op_checksig _ _ _ _) => apply nc_op_checksig; exact Hs
         | |- nc (op_checksigadd _ _ _) => apply nc_op_checksigadd; exact Hs
         | |- nc (op_checkmultisig _ _ _ _) => apply nc_op_checkmultisig; exact Hs
         | |- nc (match num_at ?a ?b ?k ?m with _ => _ end) =>
             let z := fresh "z" in let Hz := fresh "Hz" in let y := fresh "y" in
             destruct (num_at_cases b k m) as [[z Hz]|[y Hz]]; rewrite Hz; [|apply nc_exn]
         | |- nc (match unary_num ?a ?b with _ => _ end) =>
             let E := fresh "E" in destruct (unary_num a b) eqn:E; [|exfalso; eapply unary_num_total; [|exact E]; assumption]
         | |- nc (match binary_num ?a ?b ?k with _ => _ end) =>
             let E := fresh "E" in destruct (binary_num a b k) eqn:E; [|exfalso; eapply binary_num_total; [|exact E]; assumption]
         | |- nc (match e_alt ?a with _ => _ end) => destruct (e_alt a)
         | |- nc (let _ := _ in _) => cbv zeta
         | |- nc (if ?b then _ else _) => let E := fresh "Eb" in destruct b eqn:E
         end; try nc_leaf.
Qed.

Theorem step_script_no_crash e pc local : safe c e -> forall x, snd (step_script low_s c e pc local) <> SCrash x.
Proof.
  intros Hs x. unfold step_script.
  destruct (get_op pc) as [[[opcode push]|] pc']; [|cbn; discriminate].
  match goal with |- context [if ?b then _ else _] => destruct b end; [cbn; discriminate|].
  set (count := ((c_sigver c =? SV_BASE) || (c_sigver c =? SV_WITNESS_V0)) && cmp_eval (fst site_opcount_threshold) opcode (snd site_opcount_threshold)).
  set (e0 := if count then set_ops e (e_ops e + 1) else e).
  assert (H0: safe c e0) by (subst e0; destruct count; exact Hs).
  match goal with |- context [if ?b then _ else _] => destruct b end; [cbn; discriminate|].
  match goal with |- context [if ?b then _ else _] => destruct b end; [cbn; discriminate|].
  match goal with |- context [if ?b then _ else _] => destruct b end; [cbn; discriminate|].
  match goal with |- context [let '(_, _) := ?q in _] => assert (HX: nc q); [|destruct q as [e1 st]] end.
  { repeat match goal with |- nc (if ?b then _ else _) => destruct b end; try nc_leaf. apply nc_exec_opcode. exact H0. }
  destruct st; cbn [snd]; try discriminate.
  - match goal with |- context [if ?b then _ else _] => destruct b end; cbn; discriminate.
  - apply (HX x).
Qed.
End NoCrash.

(* every session starts in a safe environment: pbegincodehash is the start of the script; a tapscript configuration carries the weight budget *)
Lemma setup_env_safe : forall c script stack succ ed t,
  ((c_sigver c =? SV_BASE) || (c_sigver c =? SV_WITNESS_V0) || (c_sigver c =? SV_TAPROOT) = false -> ed_weight_init ed = true) ->
  safe c (i_e (setup_env c script stack succ ed t)).
Proof. intros c script stack succ ed t H. split; [cbn; discriminate|exact H]. Qed.
